(* C15: render_value is total on well-formed dictionaries.
   For every dictionary S with wf_styles S (boolean: 'decimal' is a numeric style with >= 2 symbols and the
   automatic range; every entry has the symbols its system needs; entries using `extends` have no symbols of
   their own), every counter name (identifier, symbols(), string), every integer value:
     render_value returns a string - no exception value, no fuel exhaustion -
   and the fuel the model gives itself (|S| + 4 activations, |S| + 3 iterations of the extends loops,
   log2 |v| + 1 digit iterations) is sufficient; more fuel does not change the result.
   Termination argument: every fallback call adds to previous_types a defined style name that was not in it. *)
From Coq Require Import ZArith List String Bool Lia.
Require Import WV.model.C15Style WV.model.C15StyleSpec WV.proofs.C15_digits WV.proofs.C15_render.
Import ListNotations.
Open Scope Z_scope.

(* ------------------------------------------------------------------------------------------ measure *)
Definition missing (S : styles) (pt : list cname) : nat :=
  List.length (filter (fun k => negb (mem_name k pt)) (map fst S)).

Lemma filter_length_le {A} (f g : A -> bool) l :
  (forall x, g x = true -> f x = true) -> (List.length (filter g l) <= List.length (filter f l))%nat.
Proof.
  intros H. induction l as [|x l IH]; simpl; [lia|].
  destruct (g x) eqn:Eg; [rewrite (H x Eg); simpl; lia|]. destruct (f x); simpl; lia.
Qed.
Lemma filter_length_lt {A} (f g : A -> bool) l x :
  (forall y, g y = true -> f y = true) -> In x l -> f x = true -> g x = false ->
  (List.length (filter g l) < List.length (filter f l))%nat.
Proof.
  intros H. induction l as [|y l IH]; simpl; [contradiction|]. intros [->|Hin] Hf Hg.
  - rewrite Hf, Hg. simpl. pose proof (filter_length_le f g l H). lia.
  - specialize (IH Hin Hf Hg). destruct (g y) eqn:Eg; [rewrite (H y Eg); simpl; lia|]. destruct (f y); simpl; lia.
Qed.

Lemma mem_name_app n a b : mem_name n (a ++ b) = mem_name n a || mem_name n b.
Proof. unfold mem_name. apply existsb_app. Qed.
Lemma mem_name_single n m : mem_name n [CName m] = String.eqb m n.
Proof. unfold mem_name. simpl. apply orb_false_r. Qed.

Lemma lookup_in_keys n S c : lookup n S = Some c -> In n (map fst S).
Proof.
  induction S as [|[k c'] S IH]; simpl; [discriminate|].
  destruct (String.eqb_spec k n) as [->|Hne]; [auto|]. intros H. right. apply IH. exact H.
Qed.

Lemma missing_le S pt : (missing S pt <= List.length S)%nat.
Proof.
  unfold missing. rewrite <- (map_length fst S). generalize (map fst S). intros l.
  induction l as [|x l IH]; simpl; [lia|]. destruct (negb (mem_name x pt)); simpl; lia.
Qed.

Lemma missing_mono S pt pt' :
  (forall k, mem_name k pt = true -> mem_name k pt' = true) -> (missing S pt' <= missing S pt)%nat.
Proof.
  intros H. unfold missing. apply filter_length_le. intros k Hk. apply negb_true_iff in Hk. apply negb_true_iff.
  destruct (mem_name k pt) eqn:E; [|reflexivity]. rewrite (H k E) in Hk. discriminate.
Qed.

Lemma missing_decr S pt pt' n c :
  lookup n S = Some c -> mem_name n pt = false -> mem_name n pt' = true ->
  (forall k, mem_name k pt = true -> mem_name k pt' = true) -> (missing S pt' < missing S pt)%nat.
Proof.
  intros Hl Hn Hn' H. unfold missing. apply (filter_length_lt _ _ _ n).
  - intros k Hk. apply negb_true_iff in Hk. apply negb_true_iff.
    destruct (mem_name k pt) eqn:E; [|reflexivity]. rewrite (H k E) in Hk. discriminate.
  - apply (lookup_in_keys n S c Hl).
  - rewrite Hn. reflexivity.
  - rewrite Hn'. reflexivity.
Qed.

(* -------------------------------------------------------------------------------- well-formedness *)
Lemma wf_lookup S n c : wf_styles S = true -> lookup n S = Some c -> adequate c = true.
Proof.
  unfold wf_styles. intros H Hl. apply andb_true_iff in H. destruct H as [_ H].
  rewrite forallb_forall in H. induction S as [|[k c'] S IH]; simpl in Hl; [discriminate|].
  destruct (String.eqb k n).
  - injection Hl as <-. apply (H (k, c')). left. reflexivity.
  - apply IH; [|exact Hl]. intros x Hx. apply H. right. exact Hx.
Qed.

Lemma wf_decimal S : wf_styles S = true ->
  exists d s fx l, lookup "decimal" S = Some d /\ c_system d = Some (mkSys false s fx) /\ s = "numeric"%string /\
                   c_symbols d = Some l /\ 2 <= zlen l /\ (c_range d = None \/ c_range d = Some RAuto).
Proof.
  unfold wf_styles, decimal_ok. intros H. apply andb_true_iff in H. destruct H as [H _].
  destruct (lookup "decimal" S) as [d|]; [|discriminate].
  destruct (c_system d) as [[[|] s fx]|] eqn:Es; try discriminate.
  destruct (c_symbols d) as [l|] eqn:El; [|discriminate].
  destruct (c_range d) as [[|]|] eqn:Er; try discriminate;
    apply andb_true_iff in H; destruct H as [H1 H2]; apply String.eqb_eq in H1; apply Z.leb_le in H2;
    exists d, s, fx, l; repeat split; auto.
Qed.

(* adequacy only looks at three fields *)
Lemma adequate_merge_ext c ec :
  c_symbols c = None -> c_additive c = None ->
  adequate (merge (set_system c (c_system ec)) ec) = adequate ec.
Proof.
  intros Hs Ha. unfold adequate, merge, set_system. cbn [c_system c_symbols c_additive]. rewrite Hs, Ha.
  cbn [keep]. destruct (c_system ec); reflexivity.
Qed.
Lemma sys_of_merge c ec : sys_of (merge (set_system c (c_system ec)) ec) = sys_of ec.
Proof. unfold sys_of, merge, set_system. cbn [c_system]. destruct (c_system ec); reflexivity. Qed.
Lemma sys_of_set_system c s : sys_of (set_system c s) = match s with
                                                         | Some x => (s_ext x, s_name x, s_fixed x)
                                                         | None => (false, "symbolic"%string, None) end.
Proof. reflexivity. Qed.

Lemma adequate_ext_nosyms c : adequate c = true -> fst (fst (sys_of c)) = true ->
  c_symbols c = None /\ c_additive c = None.
Proof.
  unfold adequate, adequate_fields, sys_of. destruct (c_system c) as [[[|] s fx]|]; cbn; try discriminate.
  intros H _. apply andb_true_iff in H. destruct H as [H1 H2].
  destruct (c_symbols c); [discriminate|]. destruct (c_additive c); [discriminate|]. auto.
Qed.

(* ------------------------------------------------------------------------- the loop of resolve_counter *)
(* what a resolved counter looks like *)
Definition resolved_ok (S : styles) (c : cstyle) : Prop :=
  (fst (fst (sys_of c)) = false /\ adequate c = true) \/
  (fst (fst (sys_of c)) = true /\ lookup (snd (fst (sys_of c))) S = None).

Definition loop_inv (c : cstyle) (ext : bool) (sys : string) : Prop :=
  (ext = false -> fst (fst (sys_of c)) = false /\ adequate c = true) /\
  (ext = true -> c_symbols c = None /\ c_additive c = None /\
                 (sys = "decimal"%string \/ fst (sys_of c) = (true, sys))).

Definition grows (pt pt' : list cname) : Prop := forall k, mem_name k pt = true -> mem_name k pt' = true.

Lemma grows_refl pt : grows pt pt. Proof. intros k H. exact H. Qed.
Lemma grows_app pt x : grows pt (pt ++ x).
Proof. intros k H. rewrite mem_name_app, H. reflexivity. Qed.
Lemma grows_trans a b c : grows a b -> grows b c -> grows a c.
Proof. intros H1 H2 k H. apply H2, H1, H. Qed.

Lemma wf_has_decimal S : wf_styles S = true -> has S "decimal" = true.
Proof. intros H. destruct (wf_decimal S H) as (d & _ & _ & _ & Hd & _). unfold has. rewrite Hd. reflexivity. Qed.

(* extending an undefined style is extending decimal *)
Lemma resolve_loop_unknown S f c sys pt : has S sys = false -> has S "decimal" = true ->
  resolve_loop (Datatypes.S f) S c true sys pt = resolve_loop (Datatypes.S f) S c true "decimal" pt.
Proof. intros H1 H2. cbn [resolve_loop negb]. rewrite H1, H2. reflexivity. Qed.

Lemma resolve_loop_decimal S : wf_styles S = true -> forall fuel c pt,
  c_symbols c = None -> c_additive c = None ->
  exists c', resolve_loop (Datatypes.S fuel) S c true "decimal" pt = RLDone c' (pt ++ [CName "decimal"]) /\
             resolved_ok S c'.
Proof.
  intros Hwf fuel c pt Hs Ha. destruct (wf_decimal S Hwf) as (d & s & fx & l & Hl & Hsys & -> & Hsym & Hlen & Hr).
  cbn [resolve_loop negb]. rewrite (wf_has_decimal S Hwf). rewrite Hl. rewrite sys_of_set_system, Hsys.
  cbn [s_ext s_name s_fixed andb].
  rewrite resolve_loop_plain. eexists. split; [reflexivity|]. left. rewrite <- Hsys. split.
  - rewrite sys_of_merge. unfold sys_of. rewrite Hsys. reflexivity.
  - rewrite adequate_merge_ext by assumption. apply (wf_lookup S "decimal" d Hwf Hl).
Qed.

Lemma resolve_loop_ok S : wf_styles S = true -> forall fuel c ext sys pt,
  loop_inv c ext sys ->
  (ext = false \/ (mem_name sys pt = false /\ (missing S pt + 2 <= fuel)%nat) \/ (missing S pt + 3 <= fuel)%nat) ->
  exists c' pt', resolve_loop fuel S c ext sys pt = RLDone c' pt' /\ resolved_ok S c' /\ grows pt pt'.
Proof.
  intros Hwf. induction fuel as [|fuel IH]; intros c ext sys pt [Hi0 Hi1] Hfuel.
  - destruct ext.
    + exfalso. destruct Hfuel as [H|[[_ H]|H]]; [discriminate|lia|lia].
    + exists c, pt. split; [reflexivity|]. split; [left; apply Hi0; reflexivity|apply grows_refl].
  - destruct ext.
    2:{ exists c, pt. split; [reflexivity|]. split; [left; apply Hi0; reflexivity|apply grows_refl]. }
    destruct (Hi1 eq_refl) as (Hs & Ha & Hsys).
    destruct (has S sys) eqn:Hhas.
    2:{ rewrite (resolve_loop_unknown S fuel c sys pt Hhas (wf_has_decimal S Hwf)).
        destruct (resolve_loop_decimal S Hwf fuel c pt Hs Ha) as (c' & -> & Hok).
        exists c', (pt ++ [CName "decimal"]). split; [reflexivity|]. split; [exact Hok|apply grows_app]. }
    cbn [resolve_loop negb]. rewrite Hhas.
    destruct (lookup sys S) as [ec|] eqn:Hl.
    2:{ exfalso. unfold has in Hhas. rewrite Hl in Hhas. discriminate. }
    pose proof (wf_lookup S sys ec Hwf Hl) as Hec.
    rewrite sys_of_set_system.
    assert (Esys : match c_system ec with
                   | Some x => (s_ext x, s_name x, s_fixed x)
                   | None => (false, "symbolic"%string, None) end = sys_of ec) by reflexivity.
    rewrite Esys. destruct (sys_of ec) as [[ext1 sys1] fx1] eqn:Eec.
    destruct (ext1 && mem_name sys1 (pt ++ [CName sys])) eqn:Ecyc.
    + (* cycle: continue with ('extends', 'decimal') *)
      destruct fuel as [|fuel'].
      { exfalso. destruct Hfuel as [H|[[Hm H]|H]]; [discriminate| |lia].
        assert (missing S pt >= 1)%nat; [|lia].
        pose proof (missing_decr S pt (pt ++ [CName sys]) sys ec Hl Hm). rewrite mem_name_app, mem_name_single,
          String.eqb_refl, orb_true_r in H0. specialize (H0 eq_refl (grows_app _ _)). lia. }
      assert (Hext1 : ext1 = true) by (destruct ext1; [reflexivity|discriminate]).
      assert (Hext : fst (fst (sys_of ec)) = true) by (rewrite Eec; exact Hext1).
      destruct (adequate_ext_nosyms ec Hec Hext) as [Hes Hea].
      destruct (String.eqb sys1 sys).
      * assert (Hms : c_symbols (merge (set_system c (c_system ec)) ec) = None)
          by (unfold merge, set_system; cbn [c_symbols]; rewrite Hs, Hes; reflexivity).
        assert (Hma : c_additive (merge (set_system c (c_system ec)) ec) = None)
          by (unfold merge, set_system; cbn [c_additive]; rewrite Ha, Hea; reflexivity).
        destruct (resolve_loop_decimal S Hwf fuel' _ (pt ++ [CName sys]) Hms Hma) as (c' & -> & Hok).
        exists c', ((pt ++ [CName sys]) ++ [CName "decimal"]). split; [reflexivity|]. split; [exact Hok|].
        eapply grows_trans; apply grows_app.
      * destruct (resolve_loop_decimal S Hwf fuel' (set_system c (c_system ec)) (pt ++ [CName sys]) Hs Ha)
          as (c' & -> & Hok).
        exists c', ((pt ++ [CName sys]) ++ [CName "decimal"]). split; [reflexivity|]. split; [exact Hok|].
        eapply grows_trans; apply grows_app.
    + (* ordinary step *)
      destruct (IH (merge (set_system c (c_system ec)) ec) ext1 sys1 (pt ++ [CName sys])) as (c' & pt' & Hrun & Hok & Hg).
      * split.
        -- intros ->. rewrite sys_of_merge, Eec. cbn. split; [reflexivity|].
           rewrite adequate_merge_ext by assumption. exact Hec.
        -- intros ->. assert (Hext : fst (fst (sys_of ec)) = true) by (rewrite Eec; reflexivity).
           destruct (adequate_ext_nosyms ec Hec Hext) as [Hes Hea].
           unfold merge, set_system. cbn [c_symbols c_additive]. rewrite Hs, Ha, Hes, Hea. cbn [keep].
           split; [reflexivity|]. split; [reflexivity|]. right.
           change (fst (sys_of (merge (set_system c (c_system ec)) ec)) = (true, sys1)).
           rewrite sys_of_merge, Eec. reflexivity.
      * destruct ext1; [|left; reflexivity]. right. cbn [andb] in Ecyc.
        destruct Hfuel as [H|[[Hm H]|H]]; [discriminate| |].
        -- left. split; [exact Ecyc|].
           pose proof (missing_decr S pt (pt ++ [CName sys]) sys ec Hl Hm) as Hd.
           rewrite mem_name_app, mem_name_single, String.eqb_refl, orb_true_r in Hd.
           specialize (Hd eq_refl (grows_app _ _)). lia.
        -- left. split; [exact Ecyc|].
           pose proof (missing_mono S pt (pt ++ [CName sys]) (grows_app _ _)). lia.
      * exists c', pt'. split; [exact Hrun|]. split; [exact Hok|].
        eapply grows_trans; [apply grows_app|exact Hg].
Qed.

(* ------------------------------------------------------------------- the algorithms do not raise *)
Lemma in_list3 s a b c : in_list s [a; b; c] = true -> s = a \/ s = b \/ s = c.
Proof.
  unfold in_list. cbn [existsb]. rewrite orb_false_r. intros H.
  apply orb_true_iff in H. destruct H as [H|H]; [left; apply String.eqb_eq; exact H|].
  apply orb_true_iff in H. destruct H as [H|H]; [right; left|right; right]; apply String.eqb_eq; exact H.
Qed.

Lemma digit_fuel_abs v : digit_fuel (Z.abs v) = digit_fuel v.
Proof. unfold digit_fuel. rewrite Z.abs_involutive. reflexivity. Qed.

Definition quiet (r : repr) : Prop := r <> RpExc /\ r <> RpFuel.

Lemma represent_quiet c v :
  adequate c = true -> fst (fst (sys_of c)) = false ->
  (snd (fst (sys_of c)) = "alphabetic"%string -> 0 <= v) ->
  quiet (represent c (snd (fst (sys_of c))) (snd (sys_of c)) v).
Proof.
  unfold adequate, adequate_fields, sys_of, quiet. destruct (c_system c) as [[ext s fx]|]; cbn [fst snd s_ext s_name s_fixed].
  - intros Ha -> Hv. destruct (String.eqb_spec s "additive") as [->|N1].
    { unfold represent. cbn [String.eqb Ascii.eqb Bool.eqb]. destruct (c_additive c) as [l|]; [|discriminate].
      destruct (v =? 0); [destruct (add_zero l); split; discriminate|].
      destruct (zlen l <? 1); [split; discriminate|]. destruct (add_loop l v []); split; discriminate. }
    destruct (String.eqb_spec s "numeric") as [->|N2].
    { unfold represent. cbn [String.eqb Ascii.eqb Bool.eqb]. destruct (c_symbols c) as [[|s0 l]|]; try discriminate.
      destruct (Z.eqb_spec v 0); [split; discriminate|].
      destruct (Z.ltb_spec (zlen (s0 :: l)) 2); [split; discriminate|].
      destruct (numeric_roundtrip (zlen (s0 :: l)) (Z.abs v) ltac:(lia) ltac:(lia)) as (ds & Hrun & _).
      rewrite digit_fuel_abs in Hrun. rewrite Hrun. split; discriminate. }
    destruct (String.eqb_spec s "fixed") as [->|N3].
    { unfold represent. cbn [String.eqb Ascii.eqb Bool.eqb]. destruct (c_symbols c) as [l|]; [|discriminate].
      destruct fx as [first|]; [|rewrite andb_false_r in Ha; discriminate].
      destruct (zlen l <? 1); [split; discriminate|].
      destruct ((0 <=? v - first) && (v - first <? zlen l)); split; discriminate. }
    destruct (in_list s ["cyclic"; "symbolic"; "alphabetic"]%string) eqn:E; [|discriminate].
    destruct (c_symbols c) as [l|] eqn:Es; [|discriminate].
    destruct (in_list3 _ _ _ _ E) as [->|[->| ->]]; unfold represent; cbn [String.eqb Ascii.eqb Bool.eqb]; rewrite Es.
    + destruct (zlen l <? 1); split; discriminate.
    + destruct (zlen l <? 1); split; discriminate.
    + destruct (Z.ltb_spec (zlen l) 2); [split; discriminate|].
      destruct (alphabetic_roundtrip (zlen l) v ltac:(lia) (Hv eq_refl)) as (ds & Hrun & _).
      rewrite Hrun. split; discriminate.
  - intros Ha _ _. unfold represent. cbn [String.eqb Ascii.eqb Bool.eqb].
    destruct (c_symbols c) as [l|]; [|discriminate]. destruct (zlen l <? 1); split; discriminate.
Qed.

Lemma ranges_never_raise c sys v : check_ranges (ranges_of c sys) v <> RgExc.
Proof.
  assert (H : forall l, has_auto_item l = false -> check_ranges l v <> RgExc).
  { induction l as [|[|lo hi] l IH]; simpl; try discriminate. intros H.
    destruct (le_lo lo v && le_hi v hi); [discriminate|]. apply IH. exact H. }
  assert (Hauto : check_ranges [auto_range sys] v <> RgExc).
  { unfold auto_range. destruct (String.eqb sys "alphabetic" || String.eqb sys "symbolic"); simpl.
    - match goal with |- (if ?b then _ else _) <> _ => destruct b end; discriminate.
    - destruct (String.eqb sys "additive"); simpl; try discriminate;
        match goal with |- (if ?b then _ else _) <> _ => destruct b end; discriminate. }
  unfold ranges_of. destruct (c_range c) as [[|l]|]; try exact Hauto.
  destruct (has_auto_item l) eqn:E; [exact Hauto|apply H; exact E].
Qed.

(* what an activation may do *)
Definition step_quiet (st : step) : Prop :=
  match st with Done (ROk _) => True | Done _ => False | _ => True end.
Definition step_prev (st : step) (p : list cname) : Prop :=
  match st with CallFallback _ _ p' => p' = p | _ => True end.

Lemma render_resolved_quiet c p v :
  adequate c = true -> fst (fst (sys_of c)) = false ->
  step_quiet (render_resolved c (snd (fst (sys_of c))) (snd (sys_of c)) p v) /\
  step_prev (render_resolved c (snd (fst (sys_of c))) (snd (sys_of c)) p v) p.
Proof.
  intros Ha He. unfold render_resolved.
  pose proof (ranges_never_raise c (snd (fst (sys_of c))) v) as Hr.
  destruct (check_ranges (ranges_of c (snd (fst (sys_of c)))) v); [|cbn; auto|contradiction].
  set (v' := if (v <? 0) && uses_negative (snd (fst (sys_of c))) then Z.abs v else v).
  destruct (represent_quiet c v' Ha He) as [H1 H2].
  { intros E. subst v'. rewrite E. cbn. destruct (Z.ltb_spec v 0); cbn; lia. }
  destruct (represent c (snd (fst (sys_of c))) (snd (sys_of c)) v'); cbn; auto; contradiction.
Qed.

(* --------------------------------------------------------------------------- one activation, named style *)
Lemma mem_cname_name n l : mem_cname (CName n) l = mem_name n l.
Proof.
  unfold mem_cname, mem_name. induction l as [|x l IH]; simpl; [reflexivity|]. rewrite IH.
  destruct x; simpl; try reflexivity. rewrite String.eqb_sym. reflexivity.
Qed.

Lemma loop_fuel_enough S pt : (missing S pt + 3 <= loop_fuel S)%nat.
Proof. unfold loop_fuel. pose proof (missing_le S pt). lia. Qed.

Definition step_decreases (S : styles) (st : step) (p0 : list cname) : Prop :=
  match st with CallFallback _ _ p' => (missing S p' < missing S p0)%nat | _ => True end.

Lemma step_named S v n prev : wf_styles S = true ->
  step_quiet (render_step S v (CName n) prev) /\ step_decreases S (render_step S v (CName n) prev) (orelse prev []).
Proof.
  intros Hwf. unfold render_step, resolve.
  destruct (lookup n S) as [c0|] eqn:Hl.
  2:{ rewrite (wf_has_decimal S Hwf). cbn. auto. }
  destruct (match prev with Some l => mem_cname (CName n) l | None => false end) eqn:Hmem.
  { rewrite (wf_has_decimal S Hwf). cbn. auto. }
  pose proof (wf_lookup S n c0 Hwf Hl) as Hc0.
  destruct (sys_of c0) as [[ext sys] fx] eqn:Es0.
  destruct (resolve_loop_ok S Hwf (loop_fuel S) c0 ext sys [CName n]) as (c' & et' & Hrun & Hok & _).
  { split.
    - intros ->. rewrite Es0. cbn. auto.
    - intros ->. assert (Hext : fst (fst (sys_of c0)) = true) by (rewrite Es0; reflexivity).
      destruct (adequate_ext_nosyms c0 Hc0 Hext) as [H1 H2]. repeat split; auto. right. rewrite Es0. reflexivity. }
  { right. right. apply loop_fuel_enough. }
  rewrite Hrun.
  assert (Hn_prev : mem_name n (orelse prev []) = false).
  { destruct prev as [l|]; [rewrite <- mem_cname_name; exact Hmem|reflexivity]. }
  destruct (sys_of c') as [[ext' sys'] fx'] eqn:Es'.
  (* the list handed to the fallback call: previous_types + [counter_name] (by resolve_counter) + [counter_name] *)
  assert (Hfinal : forall l, grows (orelse prev []) l ->
                   step_quiet (match extend_loop (loop_fuel S) S c' ext' sys' fx' (l ++ [CName n]) with
                               | ELFuel => Done RFuel | ELDecimal => CallDecimal v
                               | ELOk c'' sys'' fx'' pt => render_resolved c'' sys'' fx'' pt v end) /\
                   step_decreases S (match extend_loop (loop_fuel S) S c' ext' sys' fx' (l ++ [CName n]) with
                               | ELFuel => Done RFuel | ELDecimal => CallDecimal v
                               | ELOk c'' sys'' fx'' pt => render_resolved c'' sys'' fx'' pt v end) (orelse prev [])).
  { intros l Hlg. destruct Hok as [[He Ha]|[He Hnone]]; rewrite Es' in *; cbn [fst snd] in *; subst ext'.
    - rewrite extend_loop_plain.
      assert (E1 : sys' = snd (fst (sys_of c'))) by (rewrite Es'; reflexivity).
      assert (E2 : fx' = snd (sys_of c')) by (rewrite Es'; reflexivity).
      assert (He' : fst (fst (sys_of c')) = false) by (rewrite Es'; reflexivity).
      rewrite E1, E2. destruct (render_resolved_quiet c' (l ++ [CName n]) v Ha He') as [Hq Hp].
      split; [exact Hq|].
      destruct (render_resolved c' (snd (fst (sys_of c'))) (snd (sys_of c')) (l ++ [CName n]) v); cbn; auto.
      cbn in Hp. subst prev0.
      apply (missing_decr S (orelse prev []) (l ++ [CName n]) n c0 Hl Hn_prev).
      + rewrite mem_name_app, mem_name_single, String.eqb_refl. apply orb_true_r.
      + eapply grows_trans; [exact Hlg|apply grows_app].
    - unfold loop_fuel. cbn [extend_loop negb]. rewrite Hnone. cbn. auto. }
  destruct prev as [l0|]; cbn [orelse] in *.
  - apply Hfinal. apply grows_app.
  - apply Hfinal. apply grows_refl.
Qed.

(* one activation, anonymous style (symbols(), string) *)
Lemma adequate_anonymous system args suffix :
  wf_cname (CSymbols system args) = true ->
  adequate (anonymous_style (mkSys false system (if String.eqb system "fixed" then Some 1 else None))
                            (map SStr args) suffix) = true.
Proof.
  unfold wf_cname, adequate, adequate_fields, anonymous_style. cbn [c_system c_symbols c_additive].
  intros H. apply andb_true_iff in H. destruct H as [H1 H2]. unfold in_list in H1. cbn [existsb] in H1.
  rewrite orb_false_r in H1.
  destruct (String.eqb_spec system "additive") as [->|_]; [cbn in H1; discriminate|].
  destruct (String.eqb_spec system "numeric") as [->|_].
  { cbn in H2. destruct args; [discriminate|reflexivity]. }
  destruct (String.eqb_spec system "fixed") as [->|_]; [reflexivity|].
  unfold in_list. cbn [existsb is_none negb]. rewrite orb_false_r.
  destruct (String.eqb_spec system "cyclic"); [reflexivity|].
  destruct (String.eqb_spec system "symbolic"); [reflexivity|].
  destruct (String.eqb_spec system "alphabetic"); [reflexivity|].
  cbn in H1. discriminate.
Qed.

Lemma step_anon S v cn prev : wf_styles S = true -> wf_cname cn = true ->
  (forall n, cn <> CName n) -> step_quiet (render_step S v cn prev).
Proof.
  intros Hwf Hcn Hne. unfold render_step, resolve.
  assert (Hgen : forall c l, adequate c = true -> fst (fst (sys_of c)) = false ->
            step_quiet (let '(ext, sys, fx) := sys_of c in
                        match extend_loop (loop_fuel S) S c ext sys fx (l ++ [cn]) with
                        | ELFuel => Done RFuel | ELDecimal => CallDecimal v
                        | ELOk c' sys' fx' pt => render_resolved c' sys' fx' pt v end)).
  { intros c l Ha He. destruct (sys_of c) as [[ext sys] fx] eqn:Es. cbn [fst snd] in He. subst ext.
    rewrite extend_loop_plain.
    assert (E1 : sys = snd (fst (sys_of c))) by (rewrite Es; reflexivity).
    assert (E2 : fx = snd (sys_of c)) by (rewrite Es; reflexivity).
    assert (He' : fst (fst (sys_of c)) = false) by (rewrite Es; reflexivity).
    rewrite E1, E2. apply (render_resolved_quiet c (l ++ [cn]) v Ha He'). }
  destruct cn as [n|system args|t]; [exfalso; apply (Hne n); reflexivity| |].
  - set (c := anonymous_style _ _ _).
    assert (Ha : adequate c = true) by (apply adequate_anonymous; exact Hcn).
    assert (He : fst (fst (sys_of c)) = false) by reflexivity.
    specialize (Hgen c). destruct (sys_of c) as [[ext sys] fx] eqn:Es.
    destruct prev as [l|]; [destruct (mem_name sys l); [cbn; auto|]|]; apply (Hgen _ Ha He).
  - set (c := anonymous_style _ _ _).
    assert (Ha : adequate c = true) by reflexivity.
    assert (He : fst (fst (sys_of c)) = false) by reflexivity.
    specialize (Hgen c). destruct (sys_of c) as [[ext sys] fx] eqn:Es.
    destruct prev as [l|]; [destruct (mem_name sys l); [cbn; auto|]|]; apply (Hgen _ Ha He).
Qed.

(* 'decimal' renders every integer in one activation *)
Lemma decimal_step S v : wf_styles S = true -> exists t, render_step S v (CName "decimal") None = Done (ROk t).
Proof.
  intros Hwf. destruct (wf_decimal S Hwf) as (d & s & fx & l & Hl & Hsys & -> & Hsym & Hlen & Hr).
  assert (Hp : plain d) by (unfold plain, sys_of; rewrite Hsys; reflexivity).
  rewrite (render_step_plain S "decimal" d v Hl Hp). unfold sys_of. rewrite Hsys. cbn [fst snd s_ext s_name s_fixed].
  unfold render_resolved. rewrite (auto_range_spec d "numeric" v Hr). cbn [String.eqb Ascii.eqb Bool.eqb orb].
  cbn [uses_negative String.eqb Ascii.eqb Bool.eqb orb]. rewrite andb_true_r.
  set (v' := if v <? 0 then Z.abs v else v).
  unfold represent. cbn [String.eqb Ascii.eqb Bool.eqb]. rewrite Hsym.
  destruct (Z.eqb_spec v' 0).
  - destruct l as [|s0 l]; [unfold zlen in Hlen; simpl in Hlen; lia|]. eexists. reflexivity.
  - destruct (Z.ltb_spec (zlen l) 2); [lia|].
    destruct (numeric_roundtrip (zlen l) (Z.abs v') Hlen ltac:(lia)) as (ds & Hrun & _).
    rewrite digit_fuel_abs in Hrun. rewrite Hrun. eexists. reflexivity.
Qed.

(* ---------------------------------------------------------------------------------- the chain *)
Lemma chain S : wf_styles S = true -> forall fuel v n p,
  (missing S p + 2 <= fuel)%nat -> exists t, render fuel S v (CName n) (Some p) = ROk t.
Proof.
  intros Hwf. induction fuel as [|fuel IH]; intros v n p Hf; [lia|].
  cbn [render]. destruct (step_named S v n (Some p) Hwf) as [Hq Hd].
  destruct (render_step S v (CName n) (Some p)) as [[t| |]|v'|v' n' p'] eqn:Est; cbn in Hq, Hd; try contradiction.
  - exists t. reflexivity.
  - destruct fuel as [|fuel']; [lia|]. cbn [render]. destruct (decimal_step S v' Hwf) as (t & ->). exists t. reflexivity.
  - apply IH. lia.
Qed.

(* render_total: no exception value, no fuel exhaustion, for every name and every integer *)
Theorem render_total S v cn :
  wf_styles S = true -> wf_cname cn = true -> exists t, render_value S v cn = ROk t.
Proof.
  intros Hwf Hcn. unfold render_value, render_fuel.
  replace (List.length S + 4)%nat with (Datatypes.S (List.length S + 3)) by lia. cbn [render].
  assert (Hdec : forall v', exists t, render (List.length S + 3) S v' (CName "decimal") None = ROk t).
  { intros v'. replace (List.length S + 3)%nat with (Datatypes.S (List.length S + 2)) by lia. cbn [render].
    destruct (decimal_step S v' Hwf) as (t & ->). exists t. reflexivity. }
  assert (Hchain : forall v' n' p', exists t, render (List.length S + 3) S v' (CName n') (Some p') = ROk t).
  { intros v' n' p'. apply (chain S Hwf). pose proof (missing_le S p'). lia. }
  destruct cn as [n|system args|t0].
  - destruct (step_named S v n None Hwf) as [Hq _].
    destruct (render_step S v (CName n) None) as [[t| |]|v'|v' n' p']; cbn in Hq; try contradiction; eauto.
  - pose proof (step_anon S v (CSymbols system args) None Hwf Hcn ltac:(discriminate)) as Hq.
    destruct (render_step S v (CSymbols system args) None) as [[t| |]|v'|v' n' p']; cbn in Hq; try contradiction; eauto.
  - pose proof (step_anon S v (CString t0) None Hwf Hcn ltac:(discriminate)) as Hq.
    destruct (render_step S v (CString t0) None) as [[t| |]|v'|v' n' p']; cbn in Hq; try contradiction; eauto.
Qed.

(* more fuel never changes a result *)
Lemma render_mono : forall fuel S v cn prev t,
  render fuel S v cn prev = ROk t -> forall k, render (fuel + k) S v cn prev = ROk t.
Proof.
  induction fuel as [|fuel IH]; intros S v cn prev t H k; [discriminate|].
  cbn [render Nat.add] in *. destruct (render_step S v cn prev) as [r|v'|v' n p]; [exact H| |]; apply IH; exact H.
Qed.

(* render_fuel_sufficient: the fuel of the model is enough, for every well-formed dictionary *)
Theorem render_fuel_sufficient S v cn fuel :
  wf_styles S = true -> wf_cname cn = true -> (render_fuel S <= fuel)%nat ->
  render fuel S v cn None = render_value S v cn /\ render_value S v cn <> RFuel /\ render_value S v cn <> RExc.
Proof.
  intros Hwf Hcn Hf. destruct (render_total S v cn Hwf Hcn) as (t & Ht).
  replace fuel with (render_fuel S + (fuel - render_fuel S))%nat by lia.
  unfold render_value in *. rewrite (render_mono _ _ _ _ _ _ Ht). rewrite Ht. repeat split; discriminate.
Qed.

(* the hypotheses are satisfiable by a non-trivial dictionary: decimal, a style extending it with a pad, an
   additive style with a range and a fallback cycle *)
Definition ex_styles : styles :=
  [("decimal"%string, mkStyle (Some (mkSys false "numeric" None)) None None None None None None
       (Some (map (fun d => SStr [48 + d]) [0; 1; 2; 3; 4; 5; 6; 7; 8; 9])) None);
   ("dlz"%string, mkStyle (Some (mkSys true "decimal" None)) None None None None (Some (2, SStr [48])) None None None);
   ("rom"%string, mkStyle (Some (mkSys false "additive" None)) None None None (Some (RList [RItem (BInt 1) (BInt 39)]))
       None (Some "rom"%string) None (Some [(10, SStr [120]); (9, SStr [105; 120]); (5, SStr [118]); (4, SStr [105; 118]); (1, SStr [105])]))].
Example ex_styles_wf : wf_styles ex_styles = true. Proof. reflexivity. Qed.
Example ex_render : render_value ex_styles 19 (CName "rom") = ROk [120; 105; 120]
                    /\ render_value ex_styles 40 (CName "rom") = ROk [52; 48]
                    /\ render_value ex_styles (-7) (CName "dlz") = ROk [45; 55].
Proof. repeat split; reflexivity. Qed.
