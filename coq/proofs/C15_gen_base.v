(* C15 - lemmas used by the proofs about gen/GenCounters.v: integers among the rationals of base/Py.v, the
   primitives (len, x[i], %, //, abs, join, reversed) on them, strings against code points,
   `while c:` as a top-level fixpoint, fuel of the digit loops. *)
From Coq Require Import ZArith QArith Qreduction Qround List String Bool Ascii Lia.
Require Import WV.base.Py WV.model.C15Style WV.model.C15Builtins.
Import ListNotations.
Open Scope string_scope.
Open Scope list_scope.

(* ------------------------------------------------------------------------------------------- integers *)
Lemma Qeq_bool_vint0 z : Qeq_bool (inject_Z z) 0 = (z =? 0)%Z.
Proof.
  unfold Qeq_bool, inject_Z. simpl. rewrite Z.mul_1_r. unfold Zeq_bool. rewrite Z.eqb_compare. reflexivity.
Qed.
Lemma Qeq_bool_vint0' z : Qeq_bool (inject_Z z) (0 # 1) = (z =? 0)%Z.
Proof. apply Qeq_bool_vint0. Qed.
Lemma Qle_bool_vint a b : Qle_bool (inject_Z a) (inject_Z b) = (a <=? b)%Z.
Proof. unfold Qle_bool, inject_Z. simpl. now rewrite !Z.mul_1_r. Qed.

Lemma Qred_inject z : Qred (inject_Z z) = inject_Z z.
Proof.
  unfold Qred, inject_Z.
  pose proof (Z.ggcd_gcd z 1) as Hg. pose proof (Z.ggcd_correct_divisors z 1) as Hd.
  destruct (Z.ggcd z 1) as [g [aa bb]]. simpl in *.
  rewrite Z.gcd_1_r in Hg. subst g. destruct Hd as [Ha Hb].
  rewrite Z.mul_1_l in Ha, Hb. subst aa bb. reflexivity.
Qed.
Lemma as_int_eq q z : (q == inject_Z z)%Q -> as_int q = Some z.
Proof.
  intros E. unfold as_int. rewrite (Qred_complete _ _ E), Qred_inject. reflexivity.
Qed.
Lemma as_int_vint z : as_int (inject_Z z) = Some z.
Proof. apply as_int_eq. reflexivity. Qed.

Definition qfloor (q : Q) : Z := (Qnum q / Zpos (Qden q))%Z.
Lemma Qfloor_qfloor q : Qfloor q = qfloor q.
Proof. destruct q. reflexivity. Qed.

Lemma qfloor_div z n : n <> 0%Z -> qfloor (inject_Z z / inject_Z n) = (z / n)%Z.
Proof.
  intros Hn. unfold qfloor, Qdiv, Qmult, Qinv, inject_Z. simpl.
  destruct n as [|p|p]; [congruence| |]; simpl.
  - now rewrite Z.mul_1_r.
  - rewrite <- (Z.div_opp_opp z (Z.neg p)) by lia. simpl. f_equal. lia.
Qed.

(* the same for a dividend that is an integer up to == (after `x -= 1` the number is inject_Z z - 1) *)
Lemma qfloor_comp a b : (a == b)%Q -> qfloor a = qfloor b.
Proof.
  intros E. unfold qfloor. destruct a as [an ad], b as [bn bd]. unfold Qeq in E. simpl in *.
  rewrite <- (Z.div_mul_cancel_r an (Z.pos ad) (Z.pos bd)) by lia.
  rewrite E. rewrite (Z.mul_comm (Z.pos ad)). apply Z.div_mul_cancel_r; lia.
Qed.
Lemma qfloor_div_eq a z n : n <> 0%Z -> (a == inject_Z z)%Q -> qfloor (a / inject_Z n) = (z / n)%Z.
Proof.
  intros Hn E. rewrite <- (qfloor_div z n Hn). apply qfloor_comp. now rewrite E.
Qed.
(* x % y of two integers (the dividend up to ==) is the integer Z.modulo, up to == *)
Lemma prim_mod_eq a z n : n <> 0%Z -> (a == inject_Z z)%Q ->
  exists q, prim_apply PMod [VNum a; VNum (inject_Z n)] = VNum q /\ (q == inject_Z (z mod n))%Q.
Proof.
  intros Hn E. unfold prim_apply. rewrite Qeq_bool_vint0.
  destruct (Z.eqb_spec n 0) as [|_]; [contradiction|].
  eexists. split; [reflexivity|]. rewrite Qfloor_qfloor, (qfloor_div_eq a z n Hn E), Z.mod_eq by exact Hn. rewrite E.
  unfold Qminus. rewrite <- inject_Z_mult, <- inject_Z_opp, <- inject_Z_plus. reflexivity.
Qed.
Lemma prim_mod_int z n : n <> 0%Z ->
  exists q, prim_apply PMod [VNum (inject_Z z); VNum (inject_Z n)] = VNum q /\ (q == inject_Z (z mod n))%Q.
Proof. intros Hn. apply prim_mod_eq; [exact Hn|reflexivity]. Qed.
Lemma inject_Z_pred z : (inject_Z z - (1 # 1) == inject_Z (z - 1))%Q.
Proof. change (1 # 1) with (inject_Z 1). unfold Qminus, Z.sub. now rewrite inject_Z_plus, inject_Z_opp. Qed.

(* ------------------------------------------------------------------------------------------ primitives *)
Lemma prim_len l : prim_apply PLen [VList l] = vint (Z.of_nat (List.length l)).
Proof. reflexivity. Qed.

Lemma prim_abs z : prim_apply PAbs [VNum (inject_Z z)] = VNum (inject_Z (Z.abs z)).
Proof. unfold prim_apply, vint. change 0%Q with (inject_Z 0). rewrite Qle_bool_vint. destruct z; reflexivity. Qed.

Lemma prim_floordiv z n : n <> 0%Z ->
  prim_apply PFloorDiv [VNum (inject_Z z); VNum (inject_Z n)] = VNum (inject_Z (z / n)).
Proof.
  intros Hn. unfold prim_apply, vint. rewrite Qeq_bool_vint0.
  destruct (Z.eqb_spec n 0) as [|_]; [contradiction|].
  cbv zeta. f_equal. f_equal. apply (qfloor_div z n Hn).
Qed.

Lemma prim_floordiv_eq a z n : n <> 0%Z -> (a == inject_Z z)%Q ->
  prim_apply PFloorDiv [VNum a; VNum (inject_Z n)] = VNum (inject_Z (z / n)).
Proof.
  intros Hn E. unfold prim_apply, vint. rewrite Qeq_bool_vint0.
  destruct (Z.eqb_spec n 0) as [|_]; [contradiction|].
  cbv zeta. f_equal. f_equal. apply (qfloor_div_eq a z n Hn E).
Qed.

Lemma prim_index_nth l q i :
  (q == inject_Z i)%Q -> (0 <= i < Z.of_nat (List.length l))%Z ->
  prim_apply PIndex [VList l; VNum q] = nth (Z.to_nat i) l (VErr "IndexError").
Proof.
  intros E Hi. unfold prim_apply. rewrite (as_int_eq q i E). cbv zeta.
  replace ((0 <=? i)%Z && (i <? Z.of_nat (List.length l))%Z) with true; [reflexivity|].
  symmetry. apply andb_true_iff. split; [apply Z.leb_le|apply Z.ltb_lt]; lia.
Qed.

Lemma strs_of_map ss : strs_of (map VStr ss) = Some ss.
Proof. induction ss as [|s ss IH]; simpl; [reflexivity|]. now rewrite IH. Qed.
Lemma prim_join ss : prim_apply PJoin [VStr ""; VList (map VStr ss)] = VStr (String.concat "" ss).
Proof. unfold prim_apply. now rewrite strs_of_map. Qed.
Lemma prim_reversed ss : prim_apply PReversed [VList (map VStr ss)] = VList (map VStr (rev ss)).
Proof. unfold prim_apply. now rewrite map_rev. Qed.

(* --------------------------------------------------------------------------------------------- strings *)
Lemma string_app_nil_r s : (s ++ "")%string = s.
Proof. induction s as [|a s IH]; simpl; [reflexivity|]. now rewrite IH. Qed.
Lemma concat_empty_cons x xs : String.concat "" (x :: xs) = (x ++ String.concat "" xs)%string.
Proof. destruct xs as [|y ys]; simpl; [now rewrite string_app_nil_r|reflexivity]. Qed.

Lemma enc_dec s : enc (dec s) = s.
Proof.
  unfold enc, dec. rewrite map_map.
  rewrite <- (string_of_list_ascii_of_string s) at 2. f_equal.
  induction (list_ascii_of_string s) as [|a l IH]; simpl; [reflexivity|].
  rewrite IH, N2Z.id, ascii_N_embedding. reflexivity.
Qed.
Lemma string_of_list_ascii_app a b :
  string_of_list_ascii (a ++ b) = (string_of_list_ascii a ++ string_of_list_ascii b)%string.
Proof. induction a as [|x a IH]; simpl; [reflexivity|]. now rewrite IH. Qed.
Lemma enc_app a b : enc (a ++ b) = (enc a ++ enc b)%string.
Proof. unfold enc. now rewrite map_app, string_of_list_ascii_app. Qed.
Lemma enc_concat ts : enc (List.concat ts) = String.concat "" (map enc ts).
Proof.
  induction ts as [|t ts IH]; [reflexivity|].
  cbn [List.concat map]. now rewrite enc_app, concat_empty_cons, IH.
Qed.

Lemma symbol_msym p : enc (symbol (msym p)) = psym_str p.
Proof. destruct p; simpl; [apply enc_dec|reflexivity]. Qed.
Lemma nth_sym_msym l i : enc (nth_sym (map msym l) i) = psym_str (nth (Z.to_nat i) l (PUrl "")).
Proof.
  unfold nth_sym. change SUrl with (msym (PUrl "")). rewrite map_nth. apply symbol_msym.
Qed.
Lemma nth_vsym l i : (i < List.length l)%nat ->
  nth i (map vsym l) (VErr "IndexError") = vsym (nth i l (PUrl "")).
Proof.
  intros Hi. rewrite (nth_indep _ _ (vsym (PUrl ""))) by now rewrite map_length. apply map_nth.
Qed.
Lemma zlen_msym l : zlen (map msym l) = Z.of_nat (List.length l).
Proof. unfold zlen. now rewrite map_length. Qed.

(* the text of the digits idx (most significant first), as the Python string *)
Definition digit_str (l : list psym) (i : Z) : string := psym_str (nth (Z.to_nat i) l (PUrl "")).
Lemma enc_join_idx l idx : enc (join_idx (map msym l) idx) = String.concat "" (map (digit_str l) idx).
Proof.
  unfold join_idx. rewrite enc_concat, map_map. f_equal.
  apply map_ext. intros i. apply nth_sym_msym.
Qed.

(* ----------------------------------------------------------------------------------- blocks and `while` *)
Section Base.
Variable O : qops.

Lemma exec_block_cons A kret kerr s l rho k :
  exec_block O A kret kerr (s :: l) rho k =
  exec O A kret kerr s rho (fun rho' => if flowing rho' then k rho' else exec_block O A kret kerr l rho' k).
Proof. reflexivity. Qed.
Lemma exec_block_nil A kret kerr rho k : exec_block O A kret kerr [] rho k = k rho.
Proof. reflexivity. Qed.

Lemma exec_if A kret kerr c th el rho k :
  exec O A kret kerr (SIf c th el) rho k =
  eval O A kerr rho c (fun vc => bool_k O A kerr vc (fun t =>
    if t then exec_block O A kret kerr th rho k else exec_block O A kret kerr el rho k)).
Proof. reflexivity. Qed.

Section WLoopC.
Variables (A : Type) (kret : env -> val -> A) (kerr : string -> A) (k : env -> A) (c : expr) (body : list stmt).
Fixpoint wloopc (n : nat) (rho : env) : A :=
  match n with
  | Datatypes.O => kerr "FuelExhausted"
  | S n' =>
      eval O A kerr rho c (fun vc => bool_k O A kerr vc (fun t =>
        if t then
          exec_block O A kret kerr body rho (fun rho' =>
            match Py.lookup "%flow" rho' with
            | VStr f => if String.eqb f "break" then k (update "%flow" VNone rho')
                        else wloopc n' (update "%flow" VNone rho')
            | _ => wloopc n' rho'
            end)
        else k rho))
  end.
End WLoopC.

Lemma exec_while A kret kerr c body rho k :
  exec O A kret kerr (SWhile c body) rho k = wloopc A kret kerr k c body (wfuel O) rho.
Proof. reflexivity. Qed.
End Base.

(* ---------------------------------------------------------------------------- fuel of the digit loops *)
Lemma num_loop_mono k : forall f v acc r, num_loop f k v acc = Some r ->
  forall f', (f <= f')%nat -> num_loop f' k v acc = Some r.
Proof.
  induction f as [|f IH]; intros v acc r H f' Hf; simpl in H.
  - destruct f'; simpl; destruct (v =? 0)%Z; congruence.
  - destruct f' as [|f']; [lia|]. simpl. destruct (v =? 0)%Z; [exact H|]. apply (IH _ _ _ H). lia.
Qed.
Lemma alpha_loop_mono k : forall f v acc r, alpha_loop f k v acc = Some r ->
  forall f', (f <= f')%nat -> alpha_loop f' k v acc = Some r.
Proof.
  induction f as [|f IH]; intros v acc r H f' Hf; simpl in H.
  - destruct f'; simpl; destruct (v =? 0)%Z; congruence.
  - destruct f' as [|f']; [lia|]. simpl. destruct (v =? 0)%Z; [exact H|]. apply (IH _ _ _ H). lia.
Qed.
(* a negative value never reaches 0: the alphabetic loop does not end, whatever the fuel *)
Lemma alpha_loop_negative k : (2 <= k)%Z -> forall f v acc, (v < 0)%Z -> alpha_loop f k v acc = None.
Proof.
  intros Hk. induction f as [|f IH]; intros v acc Hv; simpl.
  - destruct (Z.eqb_spec v 0); [lia|reflexivity].
  - destruct (Z.eqb_spec v 0); [lia|]. apply IH.
    apply Z.div_lt_upper_bound; lia.
Qed.
