(* C04 - block_level_page_name(sibling_before, sibling_after) of weasyprint/layout/block.py as REGENERATED from the
   source on every run (gen/GenPageName.v): it answers the start page value of the box after exactly when it differs
   from the end page value of the box before (a change of used page name between two siblings is reported with the
   name of the next page), and None otherwise.  Box.page_values() stays an oracle: some pair (start, end) of page
   names per box. *)
From Coq Require Import QArith List String Bool.
Require Import WV.base.Py WV.base.PyLink WV.gen.GenPageName.
Import ListNotations.
Open Scope string_scope.
Open Scope list_scope.

(* page_values() of a box: (start value, end value), two page names ('' is the unnamed page) *)
Definition page_values_oracle (O : qops) (b : list (string * val)) (start_ end_ : string) : Prop :=
  ocall O ".page_values" [VObj b] = VList [VStr start_; VStr end_].

(* what the model says: the name handed to the next page, if any *)
Definition page_name_change (before_end after_start : string) : option string :=
  if String.eqb before_end after_start then None else Some after_start.

Definition name_val (o : option string) : option val := match o with Some s => Some (VStr s) | None => None end.

Lemma gen_block_level_page_name O sb sa s1 e1 s2 e2 :
  page_values_oracle O sb s1 e1 -> page_values_oracle O sa s2 e2 ->
  run O block_level_page_name_body [("sibling_before", VObj sb); ("sibling_after", VObj sa)]
      (fun _ r => r = name_val (page_name_change e1 s2)) (fun _ => False).
Proof.
  unfold page_values_oracle, page_name_change. intros Hb Ha.
  unfold run, block_level_page_name_body.
  cbn -[ocall]. rewrite Hb. cbn -[ocall]. rewrite Ha. cbn -[ocall].
  destruct (String.eqb e1 s2); reflexivity.
Qed.

(* the same as the value of a call (None when the body falls off its end) *)
Lemma call_block_level_page_name O sb sa s1 e1 s2 e2 :
  page_values_oracle O sb s1 e1 -> page_values_oracle O sa s2 e2 ->
  call_body O (block_level_page_name_args, block_level_page_name_body) [VObj sb; VObj sa] =
  match page_name_change e1 s2 with Some s => VStr s | None => VNone end.
Proof.
  unfold page_values_oracle, page_name_change. intros Hb Ha.
  unfold call_body, run, block_level_page_name_args, block_level_page_name_body.
  cbn -[ocall]. rewrite Hb. cbn -[ocall]. rewrite Ha. cbn -[ocall].
  destruct (String.eqb e1 s2); reflexivity.
Qed.

(* what matters for the property: a change of page name is reported, and nothing else is *)
Lemma page_name_change_reported e1 s2 :
  (e1 <> s2 -> page_name_change e1 s2 = Some s2) /\ (e1 = s2 -> page_name_change e1 s2 = None).
Proof.
  unfold page_name_change. split; intros H.
  - destruct (String.eqb_spec e1 s2); [contradiction|reflexivity].
  - subst. now rewrite String.eqb_refl.
Qed.

(* the caller (_in_flow_layout) tests `if page_name or force_page_break(...)`: the answer is truthy exactly when the
   names differ and the next one is a named page *)
Lemma page_name_truthy O e1 s2 :
  truthy O (match page_name_change e1 s2 with Some s => VStr s | None => VNone end) = true <->
  e1 <> s2 /\ s2 <> "".
Proof.
  unfold page_name_change.
  destruct (String.eqb_spec e1 s2) as [->|Hne]; cbn [truthy].
  - split; [discriminate|]. intros [H _]. now elim H.
  - destruct (String.eqb_spec s2 "") as [->|Hn]; cbn [negb].
    + split; [discriminate|]. intros [_ H]. now elim H.
    + split; [intros _; split; assumption | reflexivity].
Qed.

Example page_name_example :
  run (with_calls real_ops (fun f args =>
         match args with
         | [VObj []] => VList [VStr "chapter"; VStr "chapter"]
         | _ => VList [VStr ""; VStr "index"] end))
      block_level_page_name_body [("sibling_before", VObj []); ("sibling_after", VObj [("x", VNone)])]
      (fun _ r => r = Some (VStr "")) (fun _ => False).
Proof. reflexivity. Qed.

Lemma gen_block_level_page_name_eqb O sb sa s1 e1 s2 e2 :
  page_values_oracle O sb s1 e1 -> page_values_oracle O sa s2 e2 ->
  run O block_level_page_name_body [("sibling_before", VObj sb); ("sibling_after", VObj sa)]
      (fun _ r => r = if String.eqb e1 s2 then None else Some (VStr s2)) (fun _ => False).
Proof.
  intros Hb Ha. generalize (gen_block_level_page_name O sb sa s1 e1 s2 e2 Hb Ha).
  unfold page_name_change. destruct (String.eqb e1 s2); exact (fun x => x).
Qed.

Lemma page_name_call_spec O sb sa s1 e1 s2 e2 :
  page_values_oracle O sb s1 e1 -> page_values_oracle O sa s2 e2 ->
  let v := call_body O (block_level_page_name_args, block_level_page_name_body) [VObj sb; VObj sa] in
  (e1 <> s2 -> v = VStr s2) /\ (e1 = s2 -> v = VNone) /\
  (truthy O v = true <-> e1 <> s2 /\ s2 <> "").
Proof.
  intros Hb Ha v. subst v. rewrite (call_block_level_page_name O sb sa s1 e1 s2 e2 Hb Ha).
  destruct (page_name_change_reported e1 s2) as [H1 H2].
  split; [intros H; now rewrite (H1 H)|]. split; [intros H; now rewrite (H2 H)|].
  apply page_name_truthy.
Qed.
