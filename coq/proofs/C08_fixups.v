(* C08 - proofs about the anonymous box fix-ups (model/C08Fixups.v). *)
From Coq Require Import Bool List Arith Lia.
Require Import WV.model.C08Tree WV.model.C08Fixups.
Import ListNotations.

Lemma forallb_map {A B} (f : A -> B) (P : B -> bool) l : forallb P (map f l) = forallb (fun x => P (f x)) l.
Proof. induction l as [|x r IH]; simpl; [reflexivity|]. rewrite IH. reflexivity. Qed.
Lemma forallb_ext {A} (P Q : A -> bool) l : (forall x, P x = Q x) -> forallb P l = forallb Q l.
Proof. intros H. induction l as [|x r IH]; simpl; [reflexivity|]. rewrite H, IH. reflexivity. Qed.

(* ================================================================== wrap_improper: the partition theorem *)
Lemma wrap_runs_unruns {A} (test : A -> bool) p l : unruns (wrap_runs test p l) = p ++ l.
Proof.
  revert p. induction l as [|x r IH]; intros p; simpl.
  - destruct p; simpl; rewrite ?app_nil_r; reflexivity.
  - destruct (test x).
    + destruct p as [|y p'].
      * unfold unruns in *. simpl. rewrite IH. reflexivity.
      * unfold unruns in *. simpl. rewrite IH. simpl. reflexivity.
    + rewrite IH. rewrite <- app_assoc. reflexivity.
Qed.

Definition run_ok {A} (test : A -> bool) (e : A + list A) : Prop :=
  match e with inl x => test x = true | inr run => run <> [] /\ Forall (fun x => test x = false) run end.

Lemma wrap_runs_ok {A} (test : A -> bool) p l :
  Forall (fun x => test x = false) p -> Forall (run_ok test) (wrap_runs test p l).
Proof.
  revert p. induction l as [|x r IH]; intros p Hp; simpl.
  - destruct p; [constructor|]. constructor; [|constructor]. split; [discriminate|exact Hp].
  - destruct (test x) eqn:E.
    + destruct p as [|y p'].
      * constructor; [exact E|apply IH; constructor].
      * constructor; [split; [discriminate|exact Hp]|]. constructor; [exact E|apply IH; constructor].
    + apply IH. apply Forall_app. split; [exact Hp|]. constructor; [exact E|constructor].
Qed.

(* the runs are maximal: two wrappers are never neighbours *)
Fixpoint no_adjacent_runs {A} (l : list (A + list A)) : Prop :=
  match l with
  | inr _ :: ((inr _ :: _) as r) => False
  | _ :: r => no_adjacent_runs r
  | [] => True
  end.

Lemma wrap_runs_maximal {A} (test : A -> bool) p l : no_adjacent_runs (wrap_runs test p l).
Proof.
  revert p. induction l as [|x r IH]; intros p; simpl.
  - destruct p; simpl; auto.
  - destruct (test x).
    + destruct p as [|y p']; simpl; [apply IH|]. apply IH.
    + apply IH.
Qed.

Lemma wrap_improper_partition {A} (test : A -> bool) (l : list A) :
  unruns (wrap_runs test [] l) = l /\
  Forall (run_ok test) (wrap_runs test [] l) /\
  no_adjacent_runs (wrap_runs test [] l).
Proof.
  split; [apply (wrap_runs_unruns test [] l)|]. split; [apply wrap_runs_ok; constructor|apply wrap_runs_maximal].
Qed.

Example wrap_improper_ex :
  wrap_runs Nat.even [] [1; 3; 2; 4; 5; 6; 7; 9] = [inr [1; 3]; inl 2; inl 4; inr [5]; inl 6; inr [7; 9]].
Proof. reflexivity. Qed.

(* ================================================================== inline_in_block *)
(* what inline_in_block expects of the children of a block container (the table fix-ups and flex/grid fix-ups have
   run): no line box yet, and each child is inline-level, block-level or out of flow; absolutely positioned boxes are
   out of flow *)
Definition child_ok (c : box) : bool :=
  negb (is_k KLine (bk c)) && (inline_level (bk c) || block_level (bk c) || negb (a_flow (ba c)))
  && (negb (a_abs (ba c)) || negb (a_flow (ba c))).

Fixpoint input_ok (b : box) : bool :=
  match b with
  | B k a l => negb (is_k KLine k) &&
               (if block_container k then forallb child_ok l else true) &&
               (fix go (l : list box) : bool := match l with [] => true | c :: r => input_ok c && go r end) l
  end.

(* after inline_in_block: every block container and every line box satisfies its clause of spec_wf_tree *)
Fixpoint iib_ok (t : tree) : bool :=
  match t with
  | N k _ _ _ l =>
      (if block_container k || is_k KLine k then ifc_here false k l else true) &&
      (fix go (l : list tree) : bool := match l with [] => true | c :: r => iib_ok c && go r end) l
  end.

Lemma iib_ok_unfold k f w e l :
  iib_ok (N k f w e l) = (if block_container k || is_k KLine k then ifc_here false k l else true) && forallb iib_ok l.
Proof. simpl. f_equal; try (induction l as [|c r IH]; simpl; [reflexivity|]; rewrite IH; reflexivity). Qed.

Lemma input_ok_unfold k a l :
  input_ok (B k a l) = negb (is_k KLine k) && (if block_container k then forallb child_ok l else true) && forallb input_ok l.
Proof. simpl. f_equal; try (induction l as [|c r IH]; simpl; [reflexivity|]; rewrite IH; reflexivity). Qed.

Lemma kd_erase c : kd (erase c) = bk c. Proof. destruct c; reflexivity. Qed.
Lemma fl_erase c : fl (erase c) = a_flow (ba c). Proof. destruct c; reflexivity. Qed.

Definition lineable (c : box) : bool := inline_level (bk c) || negb (a_flow (ba c)).
Definition blockish (c : box) : bool := negb (is_k KLine (bk c)) && (block_level (bk c) || negb (a_flow (ba c))).

Lemma all_or_out_erase P l : all_or_out P (map erase l) = forallb (fun c => P (bk c) || negb (a_flow (ba c))) l.
Proof.
  unfold all_or_out. rewrite forallb_map. apply forallb_ext. intros c. rewrite kd_erase, fl_erase. reflexivity.
Qed.
Lemma forallb_map_erase (P : kind -> bool) l : forallb (fun c => P (kd c)) (map erase l) = forallb (fun c => P (bk c)) l.
Proof. rewrite forallb_map. apply forallb_ext. intros c. rewrite kd_erase. reflexivity. Qed.

(* the kind tests used below, on concrete kinds *)
Lemma is_k_refl k : is_k k k = true. Proof. destruct k; reflexivity. Qed.

Lemma line_box_ok pa line :
  forallb lineable line = true -> forallb (fun c => iib_ok (erase c)) line = true ->
  iib_ok (erase (B KLine (anon_attrs pa) line)) = true.
Proof.
  intros Hl Hr. simpl erase. rewrite iib_ok_unfold. simpl. unfold ifc_here. simpl.
  rewrite all_or_out_erase. unfold lineable in Hl. rewrite Hl.
  simpl. rewrite forallb_map. exact Hr.
Qed.

Lemma anon_block_ok pa line :
  line <> [] -> forallb lineable line = true -> forallb (fun c => iib_ok (erase c)) line = true ->
  iib_ok (erase (B KBlock (anon_attrs pa) [B KLine (anon_attrs pa) line])) = true.
Proof.
  intros Hne Hl Hr.
  change (erase (B KBlock (anon_attrs pa) [B KLine (anon_attrs pa) line]))
    with (N KBlock true false false [erase (B KLine (anon_attrs pa) line)]).
  rewrite iib_ok_unfold. cbn [forallb]. rewrite (line_box_ok pa line Hl Hr). reflexivity.
Qed.

Lemma blockish_anon pa line : blockish (B KBlock (anon_attrs pa) [B KLine (anon_attrs pa) line]) = true.
Proof. reflexivity. Qed.

Lemma iib_loop_spec pa line out l :
  forallb lineable line = true -> forallb (fun c => iib_ok (erase c)) line = true ->
  forallb blockish out = true -> forallb (fun c => iib_ok (erase c)) out = true ->
  forallb child_ok l = true -> forallb (fun c => iib_ok (erase c)) l = true ->
  exists res, iib_loop pa line out l = Some res /\
              forallb (fun c => iib_ok (erase c)) res = true /\
              (forallb blockish res = true \/ (exists ln, res = [B KLine (anon_attrs pa) ln])).
Proof.
  revert line out. induction l as [|c r IH]; intros line out Hl1 Hl2 Ho1 Ho2 Hc Hr.
  - simpl. destruct line as [|x line'].
    + exists out. auto.
    + set (ln := x :: line') in *. destruct out as [|y out'].
      * exists [B KLine (anon_attrs pa) ln]. split; [reflexivity|]. split; [|right; eauto].
        cbn [forallb]. rewrite (line_box_ok pa ln Hl1 Hl2). reflexivity.
      * set (o := y :: out') in *. exists (o ++ [B KBlock (anon_attrs pa) [B KLine (anon_attrs pa) ln]]).
        split; [reflexivity|]. rewrite !forallb_app. rewrite Ho1, Ho2. cbn [forallb].
        rewrite (anon_block_ok pa ln) by (try discriminate; assumption). rewrite blockish_anon. auto.
  - simpl in Hc, Hr. apply andb_true_iff in Hc. destruct Hc as [Hc Hc']. apply andb_true_iff in Hr. destruct Hr as [Hr Hr'].
    unfold child_ok in Hc. apply andb_true_iff in Hc. destruct Hc as [Hc Habs]. apply andb_true_iff in Hc. destruct Hc as [Hnl Hlev].
    cbn [iib_loop]. apply negb_true_iff in Hnl. rewrite Hnl.
    assert (Happ : forall (P : box -> bool) l0 x, forallb P l0 = true -> P x = true -> forallb P (l0 ++ [x]) = true).
    { intros P l0 x H1 H2. rewrite forallb_app, H1. simpl. rewrite H2. reflexivity. }
    destruct (negb (match line with [] => true | _ => false end) && a_abs (ba c)) eqn:E1.
    + apply andb_true_iff in E1. destruct E1 as [_ Ea]. rewrite Ea in Habs. simpl in Habs.
      apply IH; auto; apply Happ; auto. unfold lineable. rewrite Habs. apply orb_true_r.
    + destruct (inline_level (bk c) || (negb (match line with [] => true | _ => false end) && negb (a_flow (ba c)))) eqn:E2.
      * assert (Hlin : lineable c = true).
        { unfold lineable. apply orb_true_iff in E2. destruct E2 as [E2|E2]; [rewrite E2; reflexivity|].
          apply andb_true_iff in E2. destruct E2 as [_ E2]. rewrite E2. apply orb_true_r. }
        destruct (negb (match line with [] => true | _ => false end) || negb (is_k KText (bk c) && a_space (ba c))).
        -- apply IH; auto; apply Happ; auto.
        -- apply IH; auto.
      * assert (Hblk : blockish c = true).
        { unfold blockish. rewrite Hnl. simpl. apply orb_false_iff in E2. destruct E2 as [E2 _]. rewrite E2 in Hlev. exact Hlev. }
        destruct line as [|x line'].
        -- apply IH; auto; apply Happ; auto.
        -- set (ln := x :: line') in *. apply IH; auto.
           ++ rewrite forallb_app, Ho1. simpl. rewrite Hblk. reflexivity.
           ++ rewrite forallb_app, Ho2. cbn [forallb].
              rewrite (anon_block_ok pa ln) by (try discriminate; assumption). rewrite Hr. reflexivity.
Qed.

Lemma ifc_of_res k pa res :
  block_container k = true ->
  (forallb blockish res = true \/ (exists ln, res = [B KLine (anon_attrs pa) ln])) ->
  ifc_here false k (map erase res) = true.
Proof.
  intros Hk H. unfold ifc_here. rewrite Hk. destruct H as [H|[ln ->]].
  - apply orb_true_iff. left. rewrite all_or_out_erase. rewrite forallb_map.
    assert (H1 : forallb (fun x => negb (is_k KLine (kd (erase x)))) res = true).
    { rewrite forallb_forall in *. intros c Hc. specialize (H c Hc). unfold blockish in H. apply andb_true_iff in H.
      rewrite kd_erase. tauto. }
    assert (H2 : forallb (fun c => block_level (bk c) || negb (a_flow (ba c))) res = true).
    { rewrite forallb_forall in *. intros c Hc. specialize (H c Hc). unfold blockish in H. apply andb_true_iff in H. tauto. }
    rewrite H1, H2. reflexivity.
  - simpl. reflexivity.
Qed.

Section BoxInd.
  Variable P : box -> Prop.
  Hypothesis H : forall k a l, Forall P l -> P (B k a l).
  Fixpoint box_ind' (b : box) : P b :=
    match b with
    | B k a l => H k a l ((fix go (l : list box) : Forall P l :=
                            match l with [] => Forall_nil _ | c :: r => Forall_cons _ (box_ind' c) (go r) end) l)
    end.
End BoxInd.

Definition first_loop (l : list box) : option (list box) :=
  (fix go (l : list box) : option (list box) :=
     match l with
     | [] => Some []
     | c :: r =>
         if is_k KText (bk c) && a_empty (ba c) then go r
         else match iib c, go r with Some c', Some r' => Some (c' :: r') | _, _ => None end
     end) l.

Lemma first_loop_cons c r :
  first_loop (c :: r) =
  if is_k KText (bk c) && a_empty (ba c) then first_loop r
  else match iib c, first_loop r with Some c', Some r' => Some (c' :: r') | _, _ => None end.
Proof. reflexivity. Qed.

Lemma iib_unfold k a l :
  iib (B k a l) =
  match l with
  | [] => Some (B k a l)
  | _ => match first_loop l with
         | None => None
         | Some children =>
             if block_container k then
               match iib_loop a [] [] children with Some l' => Some (B k a l') | None => None end
             else Some (B k a children)
         end
  end.
Proof. destruct l; reflexivity. Qed.

(* inline_in_block keeps the class and the attributes of the box it is given *)
Lemma iib_root b b' : iib b = Some b' -> bk b' = bk b /\ ba b' = ba b.
Proof.
  destruct b as [k a l]. rewrite iib_unfold. destruct l as [|c r]; [intros H; injection H as <-; auto|].
  destruct (first_loop (c :: r)); [|discriminate]. destruct (block_container k).
  - destruct (iib_loop a [] [] l); [|discriminate]. intros H; injection H as <-; auto.
  - intros H; injection H as <-; auto.
Qed.

Lemma child_ok_iib c c' : iib c = Some c' -> child_ok c = true -> child_ok c' = true.
Proof. intros H. destruct (iib_root c c' H) as [H1 H2]. unfold child_ok. rewrite H1, H2. auto. Qed.

Lemma iib_block_container_invariant b :
  input_ok b = true -> exists b', iib b = Some b' /\ iib_ok (erase b') = true.
Proof.
  induction b as [k a l IH] using box_ind'. intros Hin. rewrite input_ok_unfold in Hin.
  apply andb_true_iff in Hin. destruct Hin as [Hin Hkids]. apply andb_true_iff in Hin. destruct Hin as [Hnl Hch].
  rewrite iib_unfold. destruct l as [|c0 r0].
  - eexists. split; [reflexivity|]. simpl erase. rewrite iib_ok_unfold. cbn [map forallb]. rewrite andb_true_r.
    destruct (block_container k || is_k KLine k) eqn:E; [|reflexivity].
    unfold ifc_here. destruct (block_container k) eqn:Eb; [reflexivity|]. cbn [orb] in E. apply negb_true_iff in Hnl. rewrite Hnl in E. discriminate.
  - set (l := c0 :: r0) in *. clearbody l.
    (* the first loop *)
    assert (Hfirst : exists children, first_loop l = Some children /\
                       forallb (fun c => iib_ok (erase c)) children = true /\
                       (forallb child_ok l = true -> forallb child_ok children = true)).
    { clear Hch. induction IH as [|c r Hc Hr IHr]; [exists []; simpl; auto|].
      simpl in Hkids. apply andb_true_iff in Hkids. destruct Hkids as [Hk1 Hk2].
      destruct (IHr Hk2) as [ch [E1 [E2 E3]]]. rewrite first_loop_cons. destruct (is_k KText (bk c) && a_empty (ba c)).
      - exists ch. split; [exact E1|]. split; [exact E2|]. intros H. cbn [forallb] in H. apply andb_true_iff in H. apply E3. tauto.
      - destruct (Hc Hk1) as [c' [Ec Eok]]. rewrite Ec. rewrite E1.
        exists (c' :: ch). split; [reflexivity|]. split; [cbn [forallb]; rewrite Eok, E2; reflexivity|].
        intros H. cbn [forallb] in H. apply andb_true_iff in H. destruct H as [H1 H2]. cbn [forallb].
        rewrite (child_ok_iib c c' Ec H1). apply E3. exact H2. }
    destruct Hfirst as [children [E1 [E2 E3]]]. rewrite E1. destruct (block_container k) eqn:Ebc.
    + destruct (iib_loop_spec a [] [] children) as [res [R1 [R2 R3]]]; auto.
      rewrite R1. eexists. split; [reflexivity|]. simpl erase. rewrite iib_ok_unfold. rewrite Ebc. cbn [orb].
      rewrite (ifc_of_res k a res Ebc R3). rewrite forallb_map. exact R2.
    + eexists. split; [reflexivity|]. simpl erase. rewrite iib_ok_unfold. rewrite Ebc. cbn [orb].
      apply negb_true_iff in Hnl. rewrite Hnl. rewrite forallb_map. exact E2.
Qed.

Example iib_ex :
  let t := mkA true false false false false false false 0 false in
  let f := mkA false false false false false false false 0 false in
  iib (B KBlock (t 1) [B KText (t 2) []; B KInline (t 3) [B KText (t 4) []]; B KBlock (f 5) []; B KBlock (t 6) [B KText (t 7) []];
                       B KText (t 8) []]) =
  Some (B KBlock (t 1)
          [B KBlock (anon_attrs (t 1)) [B KLine (anon_attrs (t 1)) [B KText (t 2) []; B KInline (t 3) [B KText (t 4) []]; B KBlock (f 5) []]];
           B KBlock (t 6) [B KLine (anon_attrs (t 6)) [B KText (t 7) []]];
           B KBlock (anon_attrs (t 1)) [B KLine (anon_attrs (t 1)) [B KText (t 8) []]]]).
Proof. reflexivity. Qed.

(* ---- the wrapping loses nothing and keeps the order: the loop as runs, like wrap_improper ---- *)
(* (kept child | line content) in order; the loop's result is its rendering *)
Fixpoint iib_runs (line : list box) (l : list box) : list (box + list box) :=
  match l with
  | [] => match line with [] => [] | _ => [inr line] end
  | c :: r =>
      if negb (match line with [] => true | _ => false end) && a_abs (ba c) then iib_runs (line ++ [c]) r
      else if inline_level (bk c) || (negb (match line with [] => true | _ => false end) && negb (a_flow (ba c))) then
        if negb (match line with [] => true | _ => false end) || negb (is_k KText (bk c) && a_space (ba c))
        then iib_runs (line ++ [c]) r else iib_runs line r
      else match line with [] => inl c :: iib_runs [] r | _ => inr line :: inl c :: iib_runs [] r end
  end.

Definition render_runs (pa : attrs) (runs : list (box + list box)) : list box :=
  match runs with
  | [inr line] => [B KLine (anon_attrs pa) line]
  | _ => map (fun e => match e with inl c => c | inr line => B KBlock (anon_attrs pa) [B KLine (anon_attrs pa) line] end) runs
  end.

Lemma iib_loop_runs pa line out l :
  forallb (fun c => negb (is_k KLine (bk c))) l = true ->
  iib_loop pa line out l =
  Some (match out, iib_runs line l with
        | [], [inr ln] => [B KLine (anon_attrs pa) ln]
        | _, runs => out ++ map (fun e => match e with inl c => c
                                                  | inr ln => B KBlock (anon_attrs pa) [B KLine (anon_attrs pa) ln] end) runs
        end).
Proof.
  revert line out. induction l as [|c r IH]; intros line out Hl.
  - simpl. destruct line; destruct out; simpl; rewrite ?app_nil_r; reflexivity.
  - simpl in Hl. apply andb_true_iff in Hl. destruct Hl as [Hc Hl]. apply negb_true_iff in Hc. simpl. rewrite Hc.
    destruct (negb (match line with [] => true | _ => false end) && a_abs (ba c)); [apply IH; exact Hl|].
    destruct (inline_level (bk c) || _).
    + destruct (negb (match line with [] => true | _ => false end) || _); apply IH; exact Hl.
    + destruct line as [|x line'].
      * rewrite IH by exact Hl. f_equal. destruct out as [|y out'].
        -- simpl. destruct (iib_runs [] r) as [|[e|e] [|e' t]]; reflexivity.
        -- simpl. destruct (iib_runs [] r) as [|[e|e] [|e' t]]; simpl; rewrite <- ?app_assoc; reflexivity.
      * rewrite IH by exact Hl. f_equal. destruct out as [|y out'].
        -- simpl. destruct (iib_runs [] r) as [|[e|e] [|e' t]]; reflexivity.
        -- simpl. destruct (iib_runs [] r) as [|[e|e] [|e' t]]; simpl; rewrite <- ?app_assoc; reflexivity.
Qed.

Lemma unruns_inl {A} (x : A) r : unruns (inl x :: r) = x :: unruns r.
Proof. reflexivity. Qed.
Lemma unruns_inr {A} (run : list A) r : unruns (inr run :: r) = run ++ unruns r.
Proof. reflexivity. Qed.

Lemma iib_runs_keeps line l :
  filter (fun c => negb (droppable c)) (unruns (iib_runs line l)) =
  filter (fun c => negb (droppable c)) (line ++ l).
Proof.
  revert line. induction l as [|c r IH]; intros line; cbn [iib_runs].
  - destruct line; [reflexivity|]. rewrite unruns_inr. unfold unruns. simpl. rewrite !app_nil_r. reflexivity.
  - destruct (negb (match line with [] => true | _ => false end) && a_abs (ba c)).
    { rewrite IH, <- app_assoc. reflexivity. }
    destruct (inline_level (bk c) || _).
    + destruct (negb (match line with [] => true | _ => false end) || negb (is_k KText (bk c) && a_space (ba c))) eqn:E.
      * rewrite IH, <- app_assoc. reflexivity.
      * rewrite IH. rewrite !filter_app. cbn [filter]. apply orb_false_iff in E. destruct E as [_ E]. apply negb_false_iff in E.
        unfold droppable. apply andb_true_iff in E. destruct E as [E1 E2]. rewrite E1, E2. rewrite orb_true_r. reflexivity.
    + destruct line as [|x line'].
      * rewrite unruns_inl. cbn [filter app]. rewrite IH. reflexivity.
      * rewrite unruns_inr, unruns_inl. rewrite !filter_app. cbn [filter]. rewrite IH. reflexivity.
Qed.

(* the children of a block container after inline_in_block are the rendering of runs whose flattening is the list of
   the processed children, minus only text boxes that are empty or a lone collapsible space at the start of a line *)
Lemma iib_flatten k a l children :
  block_container k = true -> first_loop l = Some children -> l <> [] ->
  forallb (fun c => negb (is_k KLine (bk c))) children = true ->
  iib (B k a l) = Some (B k a (render_runs a (iib_runs [] children))) /\
  filter (fun c => negb (droppable c)) (unruns (iib_runs [] children)) = filter (fun c => negb (droppable c)) children.
Proof.
  intros Hk Hf Hne Hnl. split; [|apply (iib_runs_keeps [] children)].
  rewrite iib_unfold. destruct l; [congruence|]. rewrite Hf, Hk. rewrite iib_loop_runs by exact Hnl.
  unfold render_runs. destruct (iib_runs [] children) as [|[e|e] [|e' t]]; reflexivity.
Qed.

(* ================================================================== anonymous table boxes *)
(* what may be where, as in C08Tree.table_here, on boxes; at this stage there is no line box, and a column may
   still sit in its column group (wrap_table then moves the column groups out of the children) *)
Definition pos_ok (pk : kind) (pw : bool) (d : box) : bool :=
  match bk d with
  | KTable => is_k KBlock pk && pw
  | KInlineTable => (is_k KInlineBlock pk || is_k KBlock pk) && pw
  | KRowGroup => is_table pk
  | KRow => is_k KRowGroup pk
  | KCell => is_k KRow pk
  | KCaption => pw
  | KCol => is_k KColGroup pk
  | KColGroup => false
  | KLine => false
  | _ => true
  end.

Definition content_ok (k : kind) (w : bool) (l : list box) : bool :=
  (match k with
   | KTable | KInlineTable => forallb (fun c => is_k KRowGroup (bk c)) l
   | KRowGroup => forallb (fun c => is_k KRow (bk c)) l
   | KRow => forallb (fun c => is_k KCell (bk c)) l
   | _ => true
   end)
  && (if w then (match k with KBlock | KInlineBlock => true | _ => false end)
                && forallb (fun c => is_table (bk c) || is_k KCaption (bk c)) l
                && Nat.eqb (length (filter (fun c => is_table (bk c)) l)) 1
      else true).

Fixpoint sub_ok (b : box) : bool :=
  match b with
  | B k a l => content_ok k (a_wrapper a) l &&
               (fix go (l : list box) : bool :=
                  match l with [] => true | d :: r => pos_ok k (a_wrapper a) d && sub_ok d && go r end) l
  end.

Lemma sub_ok_unfold k a l :
  sub_ok (B k a l) = content_ok k (a_wrapper a) l && forallb (fun d => pos_ok k (a_wrapper a) d && sub_ok d) l.
Proof. simpl. f_equal; try (induction l as [|c r IH]; simpl; [reflexivity|]; rewrite IH; reflexivity). Qed.

(* a processed box as its parent sees it: never a bare table (tables come back inside their wrapper), never a line *)
Definition good (b : box) : bool := negb (is_table (bk b)) && negb (is_k KLine (bk b)) && sub_ok b.

Definition shape (k : kind) (a : attrs) (r : box) : Prop :=
  if is_table k then (bk r = match k with KInlineTable => KInlineBlock | _ => KBlock end) /\ a_wrapper (ba r) = true
  else bk r = k /\ ba r = a.

(* ---- generic facts about mapM / wrap_runs / wrapI ---- *)
Lemma mapM_Forall2 {A B} (f : A -> option B) l l' : mapM f l = Some l' -> Forall2 (fun x y => f x = Some y) l l'.
Proof.
  revert l'. induction l as [|x r IH]; intros l' H; simpl in H.
  - injection H as <-. constructor.
  - destruct (f x) eqn:E; [|discriminate]. destruct (mapM f r) eqn:E2; [|discriminate]. injection H as <-.
    constructor; [exact E|apply IH; reflexivity].
Qed.

Lemma mapM_total {A B} (f : A -> option B) l : Forall (fun x => f x <> None) l -> mapM f l <> None.
Proof.
  induction 1 as [|x r Hx Hr IH]; simpl; [discriminate|].
  destruct (f x); [|congruence]. destruct (mapM f r); [discriminate|congruence].
Qed.

Lemma wrap_runs_In {A} (test : A -> bool) p l e :
  In e (wrap_runs test p l) -> match e with inl x => In x l | inr run => incl run (p ++ l) end.
Proof.
  revert p. induction l as [|x r IH]; intros p H; simpl in H.
  - destruct p; [destruct H|]. destruct H as [<-|[]]. rewrite app_nil_r. apply incl_refl.
  - destruct (test x).
    + destruct p as [|y p'].
      * destruct H as [<-|H]; [left; reflexivity|]. specialize (IH [] H). destruct e; [right; exact IH|].
        simpl in *. intros z Hz. right. apply IH. exact Hz.
      * destruct H as [<-|[<-|H]].
        -- intros z Hz. apply in_or_app. left. exact Hz.
        -- left. reflexivity.
        -- specialize (IH [] H). destruct e; [right; exact IH|]. simpl in IH. intros z Hz. apply in_or_app. right. right. apply IH. exact Hz.
    + specialize (IH (p ++ [x]) H). destruct e; [right; exact IH|]. rewrite <- app_assoc in IH. exact IH.
Qed.

Section WrapI.
  Variable rec : kind -> attrs -> list box -> option box.

  (* every element of the result is an element of the input that passes the test, or the result of `rec` on a
     non-empty run of elements of the input that fail it *)
  Lemma wrapI_spec pa wk test l l' :
    wrapI rec pa wk test l = Some l' ->
    Forall (fun d => (In d l /\ test d = true) \/
                     (exists run, run <> [] /\ Forall (fun x => In x l /\ test x = false) run /\
                                  rec wk (anon_attrs pa) run = Some d)) l'.
  Proof.
    unfold wrapI. intros H. apply mapM_Forall2 in H.
    destruct (wrap_improper_partition test l) as [_ [Hok _]].
    assert (Hin : forall e, In e (wrap_runs test [] l) -> match e with inl x => In x l | inr run => incl run l end).
    { intros e He. apply (wrap_runs_In test [] l e He). }
    induction H as [|e d es ds Hed Hrest IH]; [constructor|].
    inversion Hok as [|? ? Hoke Hokes]; subst. constructor.
    - destruct e as [x|run].
      + injection Hed as <-. left. split; [apply (Hin (inl x)); left; reflexivity|exact Hoke].
      + right. exists run. destruct Hoke as [Hne Hall]. split; [exact Hne|]. split; [|exact Hed].
        pose proof (Hin (inr run) (or_introl eq_refl)) as Hincl. rewrite Forall_forall in *. intros z Hz. split; [apply Hincl; exact Hz|apply Hall; exact Hz].
    - apply IH; [exact Hokes|]. intros e' He'. apply Hin. right. exact He'.
  Qed.

  Lemma wrapI_total pa wk test l :
    (forall run, run <> [] -> Forall (fun x => In x l /\ test x = false) run -> rec wk (anon_attrs pa) run <> None) ->
    wrapI rec pa wk test l <> None.
  Proof.
    intros Hrec. unfold wrapI. apply mapM_total.
    destruct (wrap_improper_partition test l) as [_ [Hok _]]. rewrite Forall_forall in *. intros e He.
    destruct e as [x|run]; [discriminate|]. destruct (Hok _ He) as [Hne Hall]. apply Hrec; [exact Hne|].
    pose proof (wrap_runs_In test [] l (inr run) He) as Hincl. simpl in Hincl. rewrite Forall_forall in *. intros z Hz.
    split; [apply Hincl; exact Hz|apply Hall; exact Hz].
  Qed.

  (* when every element passes, nothing is wrapped *)
  Lemma wrapI_all_pass pa wk test l : forallb test l = true -> wrapI rec pa wk test l = Some l.
  Proof.
    intros H. unfold wrapI. assert (E : wrap_runs test [] l = map inl l).
    { induction l as [|x r IH]; [reflexivity|]. simpl in H. apply andb_true_iff in H. destruct H as [H1 H2]. simpl. rewrite H1.
      rewrite IH by exact H2. reflexivity. }
    rewrite E. clear. induction l as [|x r IH]; [reflexivity|]. simpl. rewrite IH. reflexivity.
  Qed.
End WrapI.

(* rules 1.x only remove children *)
Lemma removelast_incl {A} (l : list A) : incl (removelast l) l.
Proof.
  induction l as [|x r IH]; [apply incl_refl|]. simpl. destruct r; [intros z []|]. intros z [->|Hz]; [left; reflexivity|right; apply IH; exact Hz].
Qed.

Lemma rule13_incl k l : incl (rule13 k l) l.
Proof.
  unfold rule13. destruct (tabular_container k && (2 <=? length l)); [|apply incl_refl].
  set (l1 := match rev l with text :: internal :: _ => if itc internal && is_ws text then removelast l else l | _ => l end).
  assert (H1 : incl l1 l).
  { unfold l1. destruct (rev l) as [|t [|i r]]; try apply incl_refl. destruct (itc i && is_ws t); [apply removelast_incl|apply incl_refl]. }
  destruct (2 <=? length l1); [|exact H1]. destruct l1 as [|t [|i r]]; try exact H1.
  destruct (itc i && is_ws t); [|exact H1]. intros z Hz. apply H1. right. exact Hz.
Qed.

Lemma rule14_incl p l : incl (rule14 p l) l.
Proof.
  revert p. induction l as [|c r IH]; intros p; simpl; [apply incl_refl|].
  match goal with |- incl (if ?b then _ else _) _ => destruct b end.
  - intros z Hz. right. apply (IH _ z Hz).
  - intros z [->|Hz]; [left; reflexivity|right; apply (IH _ z Hz)].
Qed.

Lemma Forall_incl {A} (P : A -> Prop) l l' : incl l' l -> Forall P l -> Forall P l'.
Proof. intros Hi H. rewrite Forall_forall in *. intros x Hx. apply H, Hi, Hx. Qed.

(* ---- one level of table_boxes_children ---- *)
Definition rec_good (rec : kind -> attrs -> list box -> option box) : Prop :=
  forall k a cs r, a_wrapper a = false -> is_k KLine k = false ->
    Forall (fun c => good c = true) cs -> rec k a cs = Some r -> good r = true /\ shape k a r.

Lemma anon_not_wrapper pa : a_wrapper (anon_attrs pa) = false. Proof. reflexivity. Qed.

Lemma stage rec pa wk test l l' :
  rec_good rec -> is_k KLine wk = false -> Forall (fun c => good c = true) l -> wrapI rec pa wk test l = Some l' ->
  Forall (fun c => good c = true) l' /\
  Forall (fun d => (In d l /\ test d = true) \/ (shape wk (anon_attrs pa) d /\ forallb test l = false)) l'.
Proof.
  intros Hrec Hwk Hl H. pose proof (wrapI_spec rec pa wk test l l' H) as Hs.
  rewrite Forall_forall in Hl. split; rewrite Forall_forall in *; intros d Hd; destruct (Hs d Hd) as [[Hin Ht]|[run [Hne [Hrun Hr]]]].
  - apply Hl. exact Hin.
  - eapply Hrec; [apply anon_not_wrapper|exact Hwk| |exact Hr]. rewrite Forall_forall in *. intros x Hx. apply Hl. apply (Hrun x Hx).
  - left. auto.
  - right. split.
    + eapply Hrec; [apply anon_not_wrapper|exact Hwk| |exact Hr]. rewrite Forall_forall in *. intros x Hx. apply Hl. apply (Hrun x Hx).
    + destruct run as [|x run']; [congruence|]. rewrite Forall_forall in Hrun. destruct (Hrun x (or_introl eq_refl)) as [Hx1 Hx2].
      destruct (forallb test l) eqn:E; [|reflexivity]. rewrite forallb_forall in E. rewrite (E x Hx1) in Hx2. discriminate.
Qed.

Lemma stage_pass rec pa wk test l l' :
  forallb test l = true -> wrapI rec pa wk test l = Some l' -> l' = l.
Proof. intros Ht H. rewrite (wrapI_all_pass rec pa wk test l Ht) in H. injection H as <-. reflexivity. Qed.

Lemma good_kind d : good d = true -> is_table (bk d) = false /\ is_k KLine (bk d) = false /\ sub_ok d = true.
Proof.
  unfold good. intros H. apply andb_true_iff in H. destruct H as [H H3]. apply andb_true_iff in H. destruct H as [H1 H2].
  apply negb_true_iff in H1. apply negb_true_iff in H2. auto.
Qed.

Lemma find_In {A} (f : A -> bool) l x : find f l = Some x -> In x l.
Proof. intros H. apply find_some in H. tauto. Qed.

Definition bodies :=
  fix bodies (hd ft : bool) (gs : list box) : list box :=
    match gs with
    | [] => []
    | g :: r => if Nat.eqb (a_grp (ba g)) 1 && negb hd then bodies true ft r
                else if Nat.eqb (a_grp (ba g)) 2 && negb ft then bodies hd true r
                else g :: bodies hd ft r
    end.

Lemma bodies_incl hd ft gs : incl (bodies hd ft gs) gs.
Proof.
  revert hd ft. induction gs as [|g r IH]; intros hd ft; [apply incl_refl|]. simpl.
  destruct (Nat.eqb (a_grp (ba g)) 1 && negb hd); [intros z Hz; right; apply (IH _ _ z Hz)|].
  destruct (Nat.eqb (a_grp (ba g)) 2 && negb ft); [intros z Hz; right; apply (IH _ _ z Hz)|].
  intros z [->|Hz]; [left; reflexivity|right; apply (IH _ _ z Hz)].
Qed.

(* the reordering of wrap_table keeps nothing but the groups it was given *)
Lemma wrap_table_good rec k a l r :
  rec_good rec -> is_table k = true -> a_wrapper a = false ->
  Forall (fun c => good c = true) l -> wrap_table rec k a l = Some r -> good r = true /\ shape k a r.
Proof.
  intros Hrec Hk Ha Hl H. unfold wrap_table in H.
  destruct (forallb (fun c => proper_table_child (bk c)) l) eqn:Hprop; [|discriminate].
  set (rows := filter (fun c => is_k KRow (bk c) || is_k KRowGroup (bk c)) l) in *.
  set (caps := filter (fun c => is_k KCaption (bk c)) l) in *.
  destruct (wrapI rec a KRowGroup (fun c => is_k KRowGroup (bk c)) rows) as [groups|] eqn:Hg; [|discriminate].
  assert (Hrows : Forall (fun c => good c = true) rows) by (apply (Forall_incl _ l); [apply incl_filter|exact Hl]).
  destruct (stage rec a KRowGroup _ rows groups Hrec eq_refl Hrows Hg) as [Gg Gs].
  assert (Hgk : Forall (fun g => bk g = KRowGroup) groups).
  { rewrite Forall_forall in *. intros g Hg'. destruct (Gs g Hg') as [[_ Ht]|[[Hsh _] _]]; [|exact Hsh].
    destruct (bk g); try discriminate; reflexivity. }
  match type of H with Some (B ?wk ?wa (?ct ++ [B k ?tattrs ?ordered] ++ ?cb)) = Some r =>
    set (ord := ordered) in *; set (top := ct) in *; set (bot := cb) in *; set (ta := tattrs) in * end.
  assert (Hta : a_wrapper ta = false) by exact Ha.
  assert (Hord : incl ord groups).
  { unfold ord. intros g Hin. apply in_app_or in Hin. destruct Hin as [Hin|Hin].
    - match type of Hin with In _ (match ?F with _ => _ end) => destruct F eqn:Ef end; [|destruct Hin].
      destruct Hin as [<-|[]]. apply (find_In _ _ _ Ef).
    - apply in_app_or in Hin. destruct Hin as [Hin|Hin].
      + apply (bodies_incl false false groups g Hin).
      + match type of Hin with In _ (match ?F with _ => _ end) => destruct F eqn:Ef end; [|destruct Hin].
        destruct Hin as [<-|[]]. apply (find_In _ _ _ Ef). }
  assert (Hcaps : Forall (fun c => good c = true /\ bk c = KCaption) caps).
  { unfold caps. rewrite Forall_forall in *. intros c Hc. apply filter_In in Hc. destruct Hc as [Hc1 Hc2]. split; [apply Hl; exact Hc1|].
    destruct (bk c); try discriminate; reflexivity. }
  assert (Htable : sub_ok (B k ta ord) = true).
  { rewrite sub_ok_unfold. rewrite Hta. apply andb_true_iff. split.
    - unfold content_ok. rewrite andb_true_r.
      assert (forallb (fun c => is_k KRowGroup (bk c)) ord = true).
      { rewrite forallb_forall. intros g Hin. rewrite Forall_forall in Hgk. rewrite (Hgk g (Hord g Hin)). reflexivity. }
      destruct k; try discriminate; assumption.
    - rewrite forallb_forall. intros g Hin. rewrite Forall_forall in Hgk, Gg. pose proof (Hgk g (Hord g Hin)) as Eg.
      unfold pos_ok. rewrite Eg. rewrite Hk. simpl. apply (good_kind g (Gg g (Hord g Hin))). }
  injection H as <-. split.
  - unfold good. cbn [bk]. destruct k; try discriminate; cbn [is_table is_k kind_eqb negb andb].
    + (* KTable *)
      rewrite sub_ok_unfold. cbn [a_wrapper]. apply andb_true_iff. split.
      * unfold content_ok. cbn [andb]. rewrite !forallb_app, !filter_app, !app_length. cbn [forallb filter bk is_table orb length].
        assert (Hc1 : forall cs, incl cs caps -> forallb (fun c => is_table (bk c) || is_k KCaption (bk c)) cs = true /\
                                             filter (fun c => is_table (bk c)) cs = []).
        { intros cs Hi. rewrite Forall_forall in Hcaps. split.
          - rewrite forallb_forall. intros c Hc. destruct (Hcaps c (Hi c Hc)) as [_ E]. rewrite E. reflexivity.
          - induction cs as [|c cs' IHc]; [reflexivity|]. simpl. destruct (Hcaps c (Hi c (or_introl eq_refl))) as [_ E]. rewrite E. simpl.
            apply IHc. intros z Hz. apply Hi. right. exact Hz. }
        destruct (Hc1 top (incl_filter _ _)) as [T1 T2]. destruct (Hc1 bot (incl_filter _ _)) as [B1 B2].
        rewrite T1, T2, B1, B2. reflexivity.
      * rewrite !forallb_app. cbn [forallb]. rewrite Htable.
        assert (Hc2 : forall cs, incl cs caps -> forallb (fun d => pos_ok KBlock true d && sub_ok d) cs = true).
        { intros cs Hi. rewrite forallb_forall. intros c Hc. rewrite Forall_forall in Hcaps. destruct (Hcaps c (Hi c Hc)) as [Gc E].
          unfold pos_ok. rewrite E. simpl. apply (good_kind c Gc). }
        rewrite (Hc2 top (incl_filter _ _)), (Hc2 bot (incl_filter _ _)). reflexivity.
    + (* KInlineTable *)
      rewrite sub_ok_unfold. cbn [a_wrapper]. apply andb_true_iff. split.
      * unfold content_ok. cbn [andb]. rewrite !forallb_app, !filter_app, !app_length. cbn [forallb filter bk is_table orb length].
        assert (Hc1 : forall cs, incl cs caps -> forallb (fun c => is_table (bk c) || is_k KCaption (bk c)) cs = true /\
                                             filter (fun c => is_table (bk c)) cs = []).
        { intros cs Hi. rewrite Forall_forall in Hcaps. split.
          - rewrite forallb_forall. intros c Hc. destruct (Hcaps c (Hi c Hc)) as [_ E]. rewrite E. reflexivity.
          - induction cs as [|c cs' IHc]; [reflexivity|]. simpl. destruct (Hcaps c (Hi c (or_introl eq_refl))) as [_ E]. rewrite E. simpl.
            apply IHc. intros z Hz. apply Hi. right. exact Hz. }
        destruct (Hc1 top (incl_filter _ _)) as [T1 T2]. destruct (Hc1 bot (incl_filter _ _)) as [B1 B2].
        rewrite T1, T2, B1, B2. reflexivity.
      * rewrite !forallb_app. cbn [forallb]. rewrite Htable.
        assert (Hc2 : forall cs, incl cs caps -> forallb (fun d => pos_ok KInlineBlock true d && sub_ok d) cs = true).
        { intros cs Hi. rewrite forallb_forall. intros c Hc. rewrite Forall_forall in Hcaps. destruct (Hcaps c (Hi c Hc)) as [Gc E].
          unfold pos_ok. rewrite E. simpl. apply (good_kind c Gc). }
        rewrite (Hc2 top (incl_filter _ _)), (Hc2 bot (incl_filter _ _)). reflexivity.
  - unfold shape. rewrite Hk. simpl. destruct k; auto.
Qed.

Lemma forallb_of_Forall {A} (P : A -> bool) l : Forall (fun x => P x = true) l -> forallb P l = true.
Proof. intros H. rewrite forallb_forall. rewrite Forall_forall in H. exact H. Qed.

Lemma tbc_step_good rec : rec_good rec -> rec_good (tbc_step rec).
Proof.
  intros Hrec k a cs r Ha HkL Hcs H. unfold tbc_step in H.
  set (cs0 := match k with
              | KCol => []
              | KColGroup => match filter (fun c => is_k KCol (bk c)) cs with
                             | [] => repeat (B KCol (anon_attrs a) []) (Nat.max 1 (length cs))
                             | cols => cols end
              | _ => cs end) in *.
  set (l1 := rule14 None (rule13 k cs0)) in *.
  assert (H1 : Forall (fun c => good c = true) l1).
  { apply (Forall_incl _ cs0); [intros z Hz; apply rule14_incl, rule13_incl in Hz; exact Hz|]. unfold cs0.
    destruct k; try exact Hcs; [constructor|]. destruct (filter (fun c => is_k KCol (bk c)) cs) as [|c0 r0] eqn:Ef.
    - rewrite Forall_forall. intros z Hz. apply repeat_spec in Hz. subst z. reflexivity.
    - rewrite <- Ef. apply (Forall_incl _ cs); [apply incl_filter|exact Hcs]. }
  clearbody l1. clear cs0 Hcs cs.
  (* stage 2 *)
  match type of H with match ?S2 with _ => _ end = _ => destruct S2 as [l2|] eqn:E2; [|discriminate] end.
  assert (H2 : Forall (fun c => good c = true) l2 /\
               (is_table k = true -> forallb (fun c => proper_table_child (bk c)) l2 = true) /\
               (k = KRowGroup -> forallb (fun c => is_k KRow (bk c)) l2 = true) /\
               (is_table k = false -> k <> KRowGroup -> l2 = l1)).
  { destruct (is_table k) eqn:Et.
    - assert (E2' : wrapI rec a KRow (fun c => proper_table_child (bk c)) l1 = Some l2) by (destruct k; try discriminate; exact E2).
      destruct (stage rec a KRow _ l1 l2 Hrec eq_refl H1 E2') as [G S]. split; [exact G|]. split; [|split; [intros ->; discriminate|discriminate]].
      intros _. apply forallb_of_Forall. rewrite Forall_forall in *. intros d Hd. destruct (S d Hd) as [[_ Ht]|[[Hsh _] _]]; [exact Ht|].
      rewrite Hsh. reflexivity.
    - destruct (kind_eqb k KRowGroup) eqn:Er.
      + assert (k = KRowGroup) by (destruct k; try discriminate; reflexivity). subst k.
        destruct (stage rec a KRow _ l1 l2 Hrec eq_refl H1 E2) as [G S]. split; [exact G|]. split; [discriminate|]. split; [|congruence].
        intros _. apply forallb_of_Forall. rewrite Forall_forall in *. intros d Hd. destruct (S d Hd) as [[_ Ht]|[[Hsh _] _]]; [exact Ht|].
        rewrite Hsh. reflexivity.
      + assert (l2 = l1) by (destruct k; try discriminate; injection E2 as <-; reflexivity). subst l2.
        split; [exact H1|]. split; [discriminate|]. split; [intros ->; discriminate|auto]. }
  destruct H2 as [G2 [P2t [P2g P2o]]]. clear E2 H1.
  (* stage 3 *)
  match type of H with match ?S3 with _ => _ end = _ => destruct S3 as [l3|] eqn:E3; [|discriminate] end.
  assert (H3 : Forall (fun c => good c = true) l3 /\
               (k = KRow -> forallb (fun c => is_k KCell (bk c)) l3 = true) /\
               (k <> KRow -> forallb (fun c => negb (is_k KCell (bk c))) l3 = true) /\
               (is_table k = true -> l3 = l2) /\ (k = KRowGroup -> l3 = l2)).
  { destruct (kind_eqb k KRow) eqn:Er.
    - assert (k = KRow) by (destruct k; try discriminate; reflexivity). subst k.
      destruct (stage rec a KCell _ l2 l3 Hrec eq_refl G2 E3) as [G S]. split; [exact G|]. split; [|split; [congruence|split; discriminate]].
      intros _. apply forallb_of_Forall. rewrite Forall_forall in *. intros d Hd. destruct (S d Hd) as [[_ Ht]|[[Hsh _] _]]; [exact Ht|].
      rewrite Hsh. reflexivity.
    - assert (E3' : wrapI rec a KRow (fun c => negb (is_k KCell (bk c))) l2 = Some l3) by (destruct k; try discriminate; exact E3).
      destruct (stage rec a KRow _ l2 l3 Hrec eq_refl G2 E3') as [G S]. split; [exact G|]. split; [intros ->; discriminate|]. split; [|split].
      + intros _. apply forallb_of_Forall. rewrite Forall_forall in *. intros d Hd. destruct (S d Hd) as [[_ Ht]|[[Hsh _] _]]; [exact Ht|].
        rewrite Hsh. reflexivity.
      + intros Et. apply (stage_pass rec a KRow (fun c => negb (is_k KCell (bk c))) l2 l3); [|exact E3']. specialize (P2t Et). rewrite forallb_forall in *. intros d Hd.
        specialize (P2t d Hd). destruct (bk d); try discriminate; reflexivity.
      + intros ->. apply (stage_pass rec a KRow (fun c => negb (is_k KCell (bk c))) l2 l3); [|exact E3']. specialize (P2g eq_refl). rewrite forallb_forall in *. intros d Hd.
        specialize (P2g d Hd). destruct (bk d); try discriminate; reflexivity. }
  destruct H3 as [G3 [P3r [P3n [P3t P3g]]]]. clear E3.
  (* stage 4 *)
  match type of H with match ?S4 with _ => _ end = _ => destruct S4 as [l4|] eqn:E4; [|discriminate] end.
  set (test4 := fun c : box => if kind_eqb k KInline then negb (proper_table_child (bk c))
                               else negb (proper_table_child (bk c)) || proper_parent (bk c) k).
  set (wk4 := if kind_eqb k KInline then KInlineTable else KTable).
  assert (E4' : wrapI rec a wk4 test4 l3 = Some l4) by (unfold wk4, test4; destruct k; exact E4).
  clear E4. destruct (stage rec a wk4 test4 l3 l4 Hrec ltac:(unfold wk4; destruct (kind_eqb k KInline); reflexivity) G3 E4') as [G4 S4].
  destruct (is_table k) eqn:Et.
  - (* a table: everything passes stage 4, then wrap_table *)
    assert (l4 = l3).
    { apply (stage_pass rec a wk4 test4 l3 l4); [|exact E4']. rewrite (P3t eq_refl). specialize (P2t eq_refl). rewrite forallb_forall in *.
      intros d Hd. specialize (P2t d Hd). unfold test4. destruct k; try discriminate; simpl; destruct (bk d); try discriminate; reflexivity. }
    subst l4. eapply wrap_table_good; eauto.
  - injection H as <-. split; [|unfold shape; rewrite Et; auto].
    unfold good. cbn [bk]. rewrite Et, HkL. cbn [negb andb]. rewrite sub_ok_unfold, Ha. apply andb_true_iff. split.
    + (* what a row group / a row contains *)
      unfold content_ok. rewrite andb_true_r. destruct (kind_eqb k KRowGroup) eqn:Erg; [|destruct (kind_eqb k KRow) eqn:Er].
      * assert (k = KRowGroup) by (destruct k; try discriminate; reflexivity). subst k.
        assert (l4 = l3).
        { apply (stage_pass rec a wk4 test4 l3 l4); [|exact E4']. rewrite (P3g eq_refl). specialize (P2g eq_refl). rewrite forallb_forall in *.
          intros d Hd. specialize (P2g d Hd). unfold test4. simpl. destruct (bk d); try discriminate; reflexivity. }
        subst l4. rewrite (P3g eq_refl). exact (P2g eq_refl).
      * assert (k = KRow) by (destruct k; try discriminate; reflexivity). subst k.
        assert (l4 = l3).
        { apply (stage_pass rec a wk4 test4 l3 l4); [|exact E4']. specialize (P3r eq_refl). rewrite forallb_forall in *.
          intros d Hd. specialize (P3r d Hd). unfold test4. simpl. destruct (bk d); try discriminate; reflexivity. }
        subst l4. exact (P3r eq_refl).
      * destruct k; try discriminate; reflexivity.
    + (* where each child may be *)
      apply forallb_of_Forall. rewrite Forall_forall in *. intros d Hd.
      destruct (good_kind d (G4 d Hd)) as [Dt [Dl Ds]]. rewrite Ds, andb_true_r.
      destruct (S4 d Hd) as [[Hin Ht]|[Hsh _]].
      * (* an element of stage 3 that passed the test of rule 3.2 *)
        assert (Hcell : is_k KCell (bk d) = true -> k = KRow).
        { intros Hc. destruct (kind_eqb k KRow) eqn:Er; [destruct k; try discriminate; reflexivity|].
          assert (Hne : k <> KRow) by (intros ->; discriminate). specialize (P3n Hne). rewrite forallb_forall in P3n.
          specialize (P3n d Hin). rewrite Hc in P3n. discriminate. }
        unfold pos_ok. unfold test4 in Ht. destruct (bk d) eqn:Ed; try reflexivity; try discriminate;
          try (destruct k; simpl in Ht, Et; try discriminate; reflexivity).
        rewrite (Hcell eq_refl). reflexivity.
      * (* a table wrapper made by rule 3.2 *)
        unfold shape, wk4 in Hsh. unfold pos_ok. destruct (kind_eqb k KInline); simpl in Hsh; destruct Hsh as [-> _]; reflexivity.
Qed.

Lemma tbc_good fuel : rec_good (tbc fuel).
Proof.
  induction fuel as [|n IH]; [intros k a cs r _ _ _ H; discriminate|]. exact (tbc_step_good (tbc n) IH).
Qed.

(* the boxes given to anonymous_table_boxes: nothing is a table wrapper or a line box yet; only parent boxes have
   children *)
Fixpoint atb_input_ok (b : box) : bool :=
  match b with
  | B k a l => negb (a_wrapper a) && negb (is_k KLine k) && (parent_kind k || match l with [] => true | _ => false end) &&
               (fix go (l : list box) : bool := match l with [] => true | c :: r => atb_input_ok c && go r end) l
  end.

Lemma atb_input_ok_unfold k a l :
  atb_input_ok (B k a l) = negb (a_wrapper a) && negb (is_k KLine k) && (parent_kind k || match l with [] => true | _ => false end)
                           && forallb atb_input_ok l.
Proof. simpl. f_equal; try (induction l as [|c r IH]; simpl; [reflexivity|]; rewrite IH; reflexivity). Qed.

Definition atb_kids (fuel : nat) (l : list box) : option (list box) :=
  (fix go (l : list box) : option (list box) :=
     match l with
     | [] => Some []
     | c :: r => match atb fuel c, go r with Some c', Some r' => Some (c' :: r') | _, _ => None end
     end) l.

Lemma atb_unfold fuel k a l :
  atb fuel (B k a l) = if parent_kind k then match atb_kids fuel l with Some l' => tbc fuel k a l' | None => None end
                       else Some (B k a l).
Proof. reflexivity. Qed.

Lemma atb_kids_cons fuel c r :
  atb_kids fuel (c :: r) = match atb fuel c, atb_kids fuel r with Some c', Some r' => Some (c' :: r') | _, _ => None end.
Proof. reflexivity. Qed.

Lemma atb_good fuel b r : atb_input_ok b = true -> atb fuel b = Some r -> good r = true /\ shape (bk b) (ba b) r.
Proof.
  revert r. induction b as [k a l IH] using box_ind'. intros r Hin H. rewrite atb_input_ok_unfold in Hin.
  apply andb_true_iff in Hin. destruct Hin as [Hin Hkids]. apply andb_true_iff in Hin. destruct Hin as [Hin Hpk].
  apply andb_true_iff in Hin. destruct Hin as [Hw Hl]. apply negb_true_iff in Hw. apply negb_true_iff in Hl.
  rewrite atb_unfold in H. destruct (parent_kind k) eqn:Epk.
  - destruct (atb_kids fuel l) as [l'|] eqn:Ek; [|discriminate].
    assert (Hg : Forall (fun c => good c = true) l').
    { clear H Hpk. revert l' Ek. induction IH as [|c rr Hc Hr IHr]; intros l' Ek.
      - injection Ek as <-. constructor.
      - rewrite atb_kids_cons in Ek. destruct (atb fuel c) as [c'|] eqn:Ec; [|discriminate].
        destruct (atb_kids fuel rr) as [r'|] eqn:Er; [|discriminate]. injection Ek as <-.
        cbn [forallb] in Hkids. apply andb_true_iff in Hkids. destruct Hkids as [K1 K2].
        constructor; [apply (Hc c' K1 eq_refl)|apply IHr; [exact K2|reflexivity]]. }
    apply (tbc_good fuel k a l' r Hw Hl Hg H).
  - injection H as <-. simpl in Hpk. destruct l as [|c rr]; [|discriminate]. split.
    + unfold good. cbn [bk]. rewrite Hl. destruct k; try discriminate; rewrite sub_ok_unfold, Hw; reflexivity.
    + unfold shape. cbn [bk ba]. destruct k; try discriminate; simpl; auto.
Qed.

(* ---- from the box-level invariant to the clause of spec_wf_tree ---- *)
Lemma all_nodes_unfold P pk pw k f w e l :
  all_nodes P pk pw (N k f w e l) = P pk pw k w e l && forallb (all_nodes P k w) l.
Proof. simpl. f_equal; try (induction l as [|c r IH]; simpl; [reflexivity|]; rewrite IH; reflexivity). Qed.

Lemma wr_erase c : wr (erase c) = a_wrapper (ba c). Proof. destruct c; reflexivity. Qed.

(* below a box that is not a column group there is no column box at all: pos_ok and the strict position clause of
   table_here agree *)
Lemma sub_ok_table b pk pw :
  sub_ok b = true -> pos_ok pk pw b = true -> is_k KCol (bk b) = false ->
  all_nodes clause_table pk pw (erase b) = true.
Proof.
  revert pk pw. induction b as [k a l IH] using box_ind'. intros pk pw Hs Hp Hc. rewrite sub_ok_unfold in Hs.
  apply andb_true_iff in Hs. destruct Hs as [Hcont Hkids]. simpl erase. rewrite all_nodes_unfold. apply andb_true_iff. split.
  - unfold clause_table, table_here. unfold content_ok in Hcont. apply andb_true_iff in Hcont. destruct Hcont as [C1 C2].
    rewrite !forallb_map_erase. rewrite C1.
    assert (C2' : (if a_wrapper a
                   then match k with KBlock | KInlineBlock => true | _ => false end &&
                        forallb (fun c => is_table (kd c) || is_k KCaption (kd c)) (map erase l) &&
                        Nat.eqb (length (filter (fun c => is_table (kd c)) (map erase l))) 1
                   else true) = true).
    { destruct (a_wrapper a); [|reflexivity]. apply andb_true_iff in C2. destruct C2 as [C2 C3]. apply andb_true_iff in C2. destruct C2 as [C2 C4].
      rewrite C2. rewrite forallb_map. rewrite (forallb_ext _ (fun c => is_table (bk c) || is_k KCaption (bk c))) by (intros; rewrite kd_erase; reflexivity).
      rewrite C4. simpl.
      assert (E : length (filter (fun c => is_table (kd c)) (map erase l)) = length (filter (fun c => is_table (bk c)) l)).
      { clear. induction l as [|c r IH]; [reflexivity|]. simpl. rewrite kd_erase. destruct (is_table (bk c)); simpl; rewrite IH; reflexivity. }
      rewrite E. exact C3. }
    rewrite C2'. simpl. unfold pos_ok in Hp. cbn [bk] in Hp, Hc. destruct k; try exact Hp; try discriminate.
  - rewrite forallb_map. rewrite forallb_forall in *. rewrite Forall_forall in IH. intros d Hd. specialize (Hkids d Hd).
    apply andb_true_iff in Hkids. destruct Hkids as [K1 K2]. apply (IH d Hd); [exact K2|exact K1|].
    unfold pos_ok in K1. destruct (bk d) eqn:Ed; try reflexivity.
    (* a column under k: k is a column group, which pos_ok of the box itself excludes unless ... *)
    assert (Hk : k = KColGroup) by (destruct k; try discriminate; reflexivity). subst k.
    unfold pos_ok in Hp. cbn [bk] in Hp. discriminate.
Qed.

Definition free_standing (k : kind) : bool :=
  match k with KTable | KInlineTable | KRowGroup | KRow | KCell | KCaption | KCol | KColGroup | KLine => false | _ => true end.

(* after the fix-ups every table is wrapper > table > row group > row > cell (CSS 2.1 17.2.1) *)
Lemma table_structure fuel b r :
  atb_input_ok b = true -> (free_standing (bk b) || is_table (bk b)) = true -> atb fuel b = Some r ->
  all_nodes clause_table KOther false (erase r) = true.
Proof.
  intros Hin Hroot H. destruct (atb_good fuel b r Hin H) as [Hg Hsh]. destruct (good_kind r Hg) as [G1 [G2 G3]].
  assert (Hk : free_standing (bk r) = true).
  { unfold shape in Hsh. destruct (is_table (bk b)) eqn:Et.
    - destruct Hsh as [-> _]. destruct (bk b); reflexivity.
    - destruct Hsh as [-> _]. simpl in Hroot. rewrite orb_false_r in Hroot. exact Hroot. }
  apply sub_ok_table; [exact G3| |]; unfold pos_ok; destruct (bk r); try discriminate; reflexivity.
Qed.

(* ================================================================== the fuel is enough *)
Definition s2 rec (k : kind) (a : attrs) (l : list box) : option (list box) :=
  match k with
  | KTable | KInlineTable => wrapI rec a KRow (fun c => proper_table_child (bk c)) l
  | KRowGroup => wrapI rec a KRow (fun c => is_k KRow (bk c)) l
  | _ => Some l
  end.
Definition s3 rec (k : kind) (a : attrs) (l : list box) : option (list box) :=
  match k with
  | KRow => wrapI rec a KCell (fun c => is_k KCell (bk c)) l
  | _ => wrapI rec a KRow (fun c => negb (is_k KCell (bk c))) l
  end.
Definition test4 (k : kind) (c : box) : bool :=
  if kind_eqb k KInline then negb (proper_table_child (bk c)) else negb (proper_table_child (bk c)) || proper_parent (bk c) k.
Definition wk4 (k : kind) : kind := if kind_eqb k KInline then KInlineTable else KTable.
Definition s4 rec (k : kind) (a : attrs) (l : list box) : option (list box) := wrapI rec a (wk4 k) (test4 k) l.
Definition rules1 (k : kind) (a : attrs) (cs : list box) : list box :=
  rule14 None (rule13 k (match k with
                         | KCol => []
                         | KColGroup => match filter (fun c => is_k KCol (bk c)) cs with
                                        | [] => repeat (B KCol (anon_attrs a) []) (Nat.max 1 (length cs))
                                        | cols => cols end
                         | _ => cs end)).

Lemma tbc_step_stages rec k a cs :
  tbc_step rec k a cs =
  match s2 rec k a (rules1 k a cs) with
  | None => None
  | Some l2 => match s3 rec k a l2 with
               | None => None
               | Some l3 => match s4 rec k a l3 with
                            | None => None
                            | Some l4 => if is_table k then wrap_table rec k a l4 else Some (B k a l4)
                            end
               end
  end.
Proof.
  unfold tbc_step, s2, s3, s4, rules1, wk4, test4.
  destruct k; simpl; reflexivity.
Qed.

Lemma rules1_good k a cs : Forall (fun c => good c = true) cs -> Forall (fun c => good c = true) (rules1 k a cs).
Proof.
  intros H. unfold rules1.
  match goal with |- Forall _ (rule14 None (rule13 k ?X)) => apply (Forall_incl _ X); [intros z Hz; apply rule14_incl, rule13_incl in Hz; exact Hz|] end.
  destruct k; try exact H; [constructor|]. destruct (filter (fun c => is_k KCol (bk c)) cs) as [|c0 r0] eqn:Ef.
  - rewrite Forall_forall. intros z Hz. apply repeat_spec in Hz. subst z. reflexivity.
  - rewrite <- Ef. apply (Forall_incl _ cs); [apply incl_filter|exact H].
Qed.

Lemma rules1_incl k a cs : k <> KColGroup -> incl (rules1 k a cs) cs.
Proof.
  intros Hk. unfold rules1. intros z Hz. apply rule14_incl, rule13_incl in Hz.
  destruct k; try exact Hz; [destruct Hz|congruence].
Qed.

Definition all_kind (P : kind -> bool) (l : list box) : bool := forallb (fun c => P (bk c)) l.

Lemma all_kind_incl P l l' : incl l' l -> all_kind P l = true -> all_kind P l' = true.
Proof. unfold all_kind. intros Hi H. rewrite forallb_forall in *. intros x Hx. apply H, Hi, Hx. Qed.

(* totality of `rec` on the runs it can be given *)
Definition T1 (rec : kind -> attrs -> list box -> option box) : Prop :=
  forall a run, all_kind (is_k KRow) run = true -> rec KRowGroup a run <> None.
Definition T2 (rec : kind -> attrs -> list box -> option box) : Prop :=
  forall wk a run, is_table wk = true -> a_wrapper a = false -> Forall (fun c => good c = true) run ->
    all_kind proper_table_child run = true -> rec wk a run <> None.
Definition T3 (rec : kind -> attrs -> list box -> option box) : Prop :=
  forall a run, a_wrapper a = false -> Forall (fun c => good c = true) run ->
    all_kind (fun k => negb (is_k KCell k)) run = true -> rec KCell a run <> None.
Definition T4 (rec : kind -> attrs -> list box -> option box) : Prop :=
  forall a run, a_wrapper a = false -> Forall (fun c => good c = true) run -> rec KRow a run <> None.

Lemma run_facts (l : list box) (test : box -> bool) run :
  Forall (fun c => good c = true) l -> Forall (fun x => In x l /\ test x = false) run ->
  Forall (fun c => good c = true) run /\ forallb (fun x => negb (test x)) run = true.
Proof.
  intros Hl Hr. rewrite Forall_forall in Hl, Hr. split.
  - rewrite Forall_forall. intros x Hx. apply Hl. apply (Hr x Hx).
  - rewrite forallb_forall. intros x Hx. destruct (Hr x Hx) as [_ E]. rewrite E. reflexivity.
Qed.

Lemma kinds_of_run (P : kind -> bool) (test : box -> bool) run :
  (forall x, test x = false -> P (bk x) = true) -> forallb (fun x => negb (test x)) run = true -> all_kind P run = true.
Proof.
  intros Hp Hr. unfold all_kind. rewrite forallb_forall in *. intros x Hx. apply Hp. specialize (Hr x Hx).
  apply negb_true_iff in Hr. exact Hr.
Qed.

(* a row group wrapper around rows: nothing is wrapped again *)
Lemma level1 rec : T1 (tbc_step rec).
Proof.
  intros a run Hr. rewrite tbc_step_stages.
  assert (H1 : all_kind (is_k KRow) (rules1 KRowGroup a run) = true) by (apply (all_kind_incl _ run); [apply rules1_incl; discriminate|exact Hr]).
  unfold s2. rewrite (wrapI_all_pass rec a KRow _ _ H1).
  unfold s3. rewrite wrapI_all_pass.
  - unfold s4. rewrite wrapI_all_pass; [discriminate|]. unfold all_kind in H1. rewrite forallb_forall in *. intros x Hx.
    specialize (H1 x Hx). unfold test4. simpl. destruct (bk x); try discriminate; reflexivity.
  - unfold all_kind in H1. rewrite forallb_forall in *. intros x Hx. specialize (H1 x Hx). destruct (bk x); try discriminate; reflexivity.
Qed.

Lemma wrap_table_total rec k a l :
  T1 rec -> all_kind proper_table_child l = true -> wrap_table rec k a l <> None.
Proof.
  intros H1 Hp. unfold wrap_table. unfold all_kind in Hp. rewrite Hp.
  destruct (wrapI rec a KRowGroup (fun c => is_k KRowGroup (bk c)) (filter (fun c => is_k KRow (bk c) || is_k KRowGroup (bk c)) l)) eqn:E; [discriminate|].
  exfalso. revert E. apply wrapI_total. intros run Hne Hrun. apply H1. unfold all_kind. rewrite forallb_forall. rewrite Forall_forall in Hrun.
  intros x Hx. destruct (Hrun x Hx) as [Hin Ht]. apply filter_In in Hin. destruct Hin as [_ Hin].
  destruct (bk x); try discriminate; reflexivity.
Qed.

(* a table wrapper around proper table children *)
Lemma level2 rec : T1 rec -> T2 (tbc_step rec).
Proof.
  intros H1 wk a run Hwk Ha Hg Hp. rewrite tbc_step_stages.
  assert (P1 : all_kind proper_table_child (rules1 wk a run) = true) by (apply (all_kind_incl _ run); [apply rules1_incl; intros ->; discriminate|exact Hp]).
  assert (E2 : s2 rec wk a (rules1 wk a run) = Some (rules1 wk a run)).
  { unfold s2. destruct wk; try discriminate; apply wrapI_all_pass; exact P1. }
  rewrite E2.
  assert (E3 : s3 rec wk a (rules1 wk a run) = Some (rules1 wk a run)).
  { unfold s3. destruct wk; try discriminate; apply wrapI_all_pass; unfold all_kind in P1; rewrite forallb_forall in *; intros x Hx;
      specialize (P1 x Hx); destruct (bk x); try discriminate; reflexivity. }
  rewrite E3.
  assert (E4 : s4 rec wk a (rules1 wk a run) = Some (rules1 wk a run)).
  { unfold s4. apply wrapI_all_pass. unfold all_kind in P1. rewrite forallb_forall in *. intros x Hx. specialize (P1 x Hx).
    unfold test4. destruct wk; try discriminate; simpl; destruct (bk x); try discriminate; reflexivity. }
  rewrite E4, Hwk. apply wrap_table_total; assumption.
Qed.

(* a cell wrapper around anything but cells *)
Lemma level3 rec : T2 rec -> T3 (tbc_step rec).
Proof.
  intros H2 a run Ha Hg Hc. rewrite tbc_step_stages. unfold s2. 
  assert (G1 : Forall (fun c => good c = true) (rules1 KCell a run)) by (apply rules1_good; exact Hg).
  assert (P1 : all_kind (fun k => negb (is_k KCell k)) (rules1 KCell a run) = true) by (apply (all_kind_incl _ run); [apply rules1_incl; discriminate|exact Hc]).
  unfold s3. rewrite (wrapI_all_pass rec a KRow _ _ P1).
  destruct (s4 rec KCell a (rules1 KCell a run)) eqn:E; [discriminate|]. exfalso. revert E. unfold s4. apply wrapI_total.
  intros r Hne Hrun. destruct (run_facts _ _ _ G1 Hrun) as [Gr Fr]. apply H2; [reflexivity|reflexivity|exact Gr|].
  apply (kinds_of_run _ (test4 KCell)); [|exact Fr]. intros x Hx. unfold test4 in Hx. simpl in Hx. apply orb_false_iff in Hx.
  destruct Hx as [Hx _]. apply negb_false_iff in Hx. exact Hx.
Qed.

(* a row wrapper around anything *)
Lemma level4 rec : rec_good rec -> T2 rec -> T3 rec -> T4 (tbc_step rec).
Proof.
  intros Hrec H2 H3 a run Ha Hg. rewrite tbc_step_stages. unfold s2.
  assert (G1 : Forall (fun c => good c = true) (rules1 KRow a run)) by (apply rules1_good; exact Hg).
  destruct (s3 rec KRow a (rules1 KRow a run)) as [l3|] eqn:E3.
  - unfold s3 in E3. destruct (stage rec a KCell _ _ l3 Hrec eq_refl G1 E3) as [G3 S3].
    assert (P3 : all_kind (is_k KCell) l3 = true).
    { unfold all_kind. apply forallb_of_Forall. rewrite Forall_forall in *. intros d Hd. destruct (S3 d Hd) as [[_ Ht]|[[Hsh _] _]]; [exact Ht|].
      rewrite Hsh. reflexivity. }
    unfold s4. rewrite wrapI_all_pass; [discriminate|]. unfold all_kind in P3. rewrite forallb_forall in *. intros x Hx. specialize (P3 x Hx).
    unfold test4. simpl. destruct (bk x); try discriminate; reflexivity.
  - exfalso. revert E3. unfold s3. apply wrapI_total. intros r Hne Hrun. destruct (run_facts _ _ _ G1 Hrun) as [Gr Fr].
    apply H3; [reflexivity|exact Gr|]. apply (kinds_of_run _ (fun c => is_k KCell (bk c))); [|exact Fr]. intros x Hx. rewrite Hx. reflexivity.
Qed.

(* any box *)
Lemma level5 rec k a cs :
  rec_good rec -> T1 rec -> T2 rec -> T3 rec -> T4 rec ->
  a_wrapper a = false -> is_k KLine k = false -> Forall (fun c => good c = true) cs -> tbc_step rec k a cs <> None.
Proof.
  intros Hrec H1 H2 H3 H4 Ha HkL Hg. rewrite tbc_step_stages.
  assert (G1 : Forall (fun c => good c = true) (rules1 k a cs)) by (apply rules1_good; exact Hg).
  destruct (s2 rec k a (rules1 k a cs)) as [l2|] eqn:E2.
  2:{ exfalso. revert E2. unfold s2. destruct k; try discriminate; (apply wrapI_total; intros r Hne Hrun;
      destruct (run_facts _ _ _ G1 Hrun) as [Gr _]; (apply H4; [reflexivity|exact Gr])). }
  assert (F2 : Forall (fun c => good c = true) l2 /\ (is_table k = true -> all_kind proper_table_child l2 = true)).
  { unfold s2 in E2. destruct (is_table k) eqn:Et.
    - assert (E2' : wrapI rec a KRow (fun c => proper_table_child (bk c)) (rules1 k a cs) = Some l2) by (destruct k; try discriminate; exact E2).
      destruct (stage rec a KRow _ _ l2 Hrec eq_refl G1 E2') as [G S]. split; [exact G|]. intros _. unfold all_kind.
      apply forallb_of_Forall. rewrite Forall_forall in *. intros d Hd. destruct (S d Hd) as [[_ Ht]|[[Hsh _] _]]; [exact Ht|]. rewrite Hsh. reflexivity.
    - split; [|discriminate]. destruct (kind_eqb k KRowGroup) eqn:Er.
      + assert (k = KRowGroup) by (destruct k; try discriminate; reflexivity). subst k.
        apply (stage rec a KRow _ _ l2 Hrec eq_refl G1 E2).
      + assert (l2 = rules1 k a cs) by (destruct k; try discriminate; injection E2 as <-; reflexivity). subst l2. exact G1. }
  destruct F2 as [G2 P2].
  destruct (s3 rec k a l2) as [l3|] eqn:E3.
  2:{ exfalso. revert E3. unfold s3. destruct k; apply wrapI_total; intros r Hne Hrun; destruct (run_facts _ _ _ G2 Hrun) as [Gr Fr];
      try (apply H4; [reflexivity|exact Gr]; fail).
      apply H3; [reflexivity|exact Gr|]. apply (kinds_of_run _ (fun c => is_k KCell (bk c))); [|exact Fr]. intros x Hx. rewrite Hx. reflexivity. }
  assert (F3 : Forall (fun c => good c = true) l3 /\ (is_table k = true -> l3 = l2)).
  { unfold s3 in E3. destruct (kind_eqb k KRow) eqn:Er.
    - assert (k = KRow) by (destruct k; try discriminate; reflexivity). subst k. split; [|discriminate].
      apply (stage rec a KCell _ _ l3 Hrec eq_refl G2 E3).
    - assert (E3' : wrapI rec a KRow (fun c => negb (is_k KCell (bk c))) l2 = Some l3) by (destruct k; try discriminate; exact E3).
      split; [apply (stage rec a KRow _ _ l3 Hrec eq_refl G2 E3')|]. intros Et.
      apply (stage_pass rec a KRow (fun c => negb (is_k KCell (bk c))) l2 l3); [|exact E3']. specialize (P2 Et). unfold all_kind in P2.
      rewrite forallb_forall in *. intros d Hd. specialize (P2 d Hd). destruct (bk d); try discriminate; reflexivity. }
  destruct F3 as [G3 P3].
  destruct (s4 rec k a l3) as [l4|] eqn:E4.
  2:{ exfalso. revert E4. unfold s4. apply wrapI_total. intros r Hne Hrun. destruct (run_facts _ _ _ G3 Hrun) as [Gr Fr].
      apply H2; [unfold wk4; destruct (kind_eqb k KInline); reflexivity|reflexivity|exact Gr|].
      apply (kinds_of_run _ (test4 k)); [|exact Fr]. intros x Hx. unfold test4 in Hx. destruct (kind_eqb k KInline).
      - apply negb_false_iff in Hx. exact Hx.
      - apply orb_false_iff in Hx. destruct Hx as [Hx _]. apply negb_false_iff in Hx. exact Hx. }
  destruct (is_table k) eqn:Et; [|discriminate].
  assert (l4 = l3).
  { apply (stage_pass rec a (wk4 k) (test4 k) l3 l4); [|exact E4]. rewrite (P3 eq_refl). specialize (P2 eq_refl). unfold all_kind in P2.
    rewrite forallb_forall in *. intros d Hd. specialize (P2 d Hd). unfold test4. destruct k; try discriminate; simpl; destruct (bk d); try discriminate; reflexivity. }
  subst l4. apply wrap_table_total; [exact H1|]. rewrite (P3 eq_refl). exact (P2 eq_refl).
Qed.

Lemma tbc_total n k a cs :
  a_wrapper a = false -> is_k KLine k = false -> Forall (fun c => good c = true) cs -> tbc (5 + n) k a cs <> None.
Proof.
  assert (L1 : forall m, T1 (tbc (S m))) by (intros m; exact (level1 (tbc m))).
  assert (L2 : forall m, T2 (tbc (2 + m))) by (intros m; exact (level2 (tbc (1 + m)) (L1 m))).
  assert (L3 : forall m, T3 (tbc (3 + m))) by (intros m; exact (level3 (tbc (2 + m)) (L2 m))).
  assert (L4 : forall m, T4 (tbc (4 + m))) by (intros m; exact (level4 (tbc (3 + m)) (tbc_good (3 + m)) (L2 (S m)) (L3 m))).
  intros Ha Hk Hg.
  exact (level5 (tbc (4 + n)) k a cs (tbc_good (4 + n)) (L1 (3 + n)) (L2 (2 + n)) (L3 (S n)) (L4 n) Ha Hk Hg).
Qed.

Lemma atb_total n b : atb_input_ok b = true -> atb (5 + n) b <> None.
Proof.
  induction b as [k a l IH] using box_ind'. intros Hin. pose proof Hin as Hin0. rewrite atb_input_ok_unfold in Hin.
  apply andb_true_iff in Hin. destruct Hin as [Hin Hkids]. apply andb_true_iff in Hin. destruct Hin as [Hin Hpk].
  apply andb_true_iff in Hin. destruct Hin as [Hw Hl]. apply negb_true_iff in Hw. apply negb_true_iff in Hl.
  rewrite atb_unfold. destruct (parent_kind k); [|discriminate].
  assert (Hk : exists l', atb_kids (5 + n) l = Some l' /\ Forall (fun c => good c = true) l').
  { clear Hpk Hin0. induction IH as [|c r Hc Hr IHr]; [exists []; split; [reflexivity|constructor]|].
    cbn [forallb] in Hkids. apply andb_true_iff in Hkids. destruct Hkids as [K1 K2]. destruct (IHr K2) as [r' [E1 E2]].
    rewrite atb_kids_cons. destruct (atb (5 + n) c) as [c'|] eqn:Ec; [|exfalso; exact (Hc K1 eq_refl)]. rewrite E1.
    exists (c' :: r'). split; [reflexivity|]. constructor; [apply (atb_good (5 + n) c c' K1 Ec)|exact E2]. }
  destruct Hk as [l' [E1 E2]]. rewrite E1. apply tbc_total; assumption.
Qed.

Example table_structure_ex :
  let t := mkA true false false false false false false 0 false in
  option_map erase (atb FUEL (B KBlock (t 1) [B KText (t 2) []; B KCell (t 3) [B KText (t 4) []]; B KRow (t 5) [];
                                              B KCaption (t 6) []; B KInline (t 7) [B KRowGroup (t 8) []]])) =
  Some (N KBlock true false false
          [N KText true false false [];
           N KBlock true true false
             [N KCaption true false false [];
              N KTable true false false
                [N KRowGroup true false false
                   [N KRow true false false [N KCell true false false [N KText true false false []]];
                    N KRow true false false []]]];
           N KInline true false false
             [N KInlineBlock true true false [N KInlineTable true false false [N KRowGroup true false false []]]]]).
Proof. vm_compute. reflexivity. Qed.


(* ================================================================== block_in_inline *)
Section BII.
  Variable inner : box -> box.
  (* block_in_inline(child) on a box that is not an inline box rewrites below it: same class, same box *)
  Hypothesis inner_keeps : forall c, bk (inner c) = bk c /\ ident (ba (inner c)) = ident (ba c).

  Lemma content_unfold k a l : content (B k a l) = if is_k KInline k then contents l else [ident a].
  Proof. reflexivity. Qed.
  Lemma contents_cons c r : contents (c :: r) = content c ++ contents r.
  Proof. reflexivity. Qed.

  (* the content of an inline box (or line box) from the position a skip stack points to *)
  Fixpoint rest (b : box) (stack : list nat) : list nat :=
    match b with
    | B k a l =>
        (fix go (l : list box) (toskip : nat) (sub : list nat) : list nat :=
           match l with
           | [] => []
           | c :: r =>
               match toskip with
               | S t => go r t sub
               | O => (if is_k KInline (bk c) then rest c sub else [ident (ba c)]) ++ go r O []
               end
           end) l (match stack with [] => 0 | i :: _ => i end) (match stack with [] => [] | _ :: s => s end)
    end.

  Definition rests (l : list box) (toskip : nat) (sub : list nat) : list nat :=
    (fix go (l : list box) (toskip : nat) (sub : list nat) : list nat :=
       match l with
       | [] => []
       | c :: r =>
           match toskip with
           | S t => go r t sub
           | O => (if is_k KInline (bk c) then rest c sub else [ident (ba c)]) ++ go r O []
           end
       end) l toskip sub.

  Lemma rest_unfold k a l stack :
    rest (B k a l) stack = rests l (match stack with [] => 0 | i :: _ => i end) (match stack with [] => [] | _ :: s => s end).
  Proof. reflexivity. Qed.
  Lemma rest_bkids b stack :
    rest b stack = rests (bkids b) (match stack with [] => 0 | i :: _ => i end) (match stack with [] => [] | _ :: s => s end).
  Proof. destruct b; reflexivity. Qed.
  Lemma rests_cons0 c r sub :
    rests (c :: r) 0 sub = (if is_k KInline (bk c) then rest c sub else [ident (ba c)]) ++ rests r 0 [].
  Proof. reflexivity. Qed.
  Lemma rests_consS c r t sub : rests (c :: r) (S t) sub = rests r t sub.
  Proof. reflexivity. Qed.
  Lemma rests_nil t sub : rests [] t sub = [].
  Proof. destruct t; reflexivity. Qed.

  Lemma rests_app_skip pre cur j s : rests (pre ++ cur) (length pre + j) s = rests cur j s.
  Proof. induction pre as [|p pre IH]; [reflexivity|]. simpl app. simpl length. simpl plus. rewrite rests_consS. exact IH. Qed.

  Lemma rest_nil b : rest b [] = contents (bkids b).
  Proof.
    induction b as [k a l IH] using box_ind'. rewrite rest_unfold. cbn [bkids].
    induction IH as [|c r Hc Hr IHr]; [reflexivity|]. rewrite rests_cons0, contents_cons, IHr. f_equal.
    destruct c as [kc ac lc]. rewrite content_unfold. cbn [bk ba]. destruct (is_k KInline kc); [|reflexivity].
    rewrite Hc. reflexivity.
  Qed.

  Definition ibi_kids (l : list box) (toskip idx : nat) (sub : list nat) : list box * option box * list nat :=
    (fix go (l : list box) (toskip idx : nat) (sub : list nat) : list box * option box * list nat :=
       match l with
       | [] => ([], None, [])
       | c :: r =>
           match toskip with
           | S t => go r t (S idx) sub
           | O =>
               if is_block_in_flow c then ([], Some c, [S idx])
               else if is_k KInline (bk c) then
                 let '(c', blk, res) := ibi inner c sub in
                 match blk with
                 | Some _ => ([c'], blk, idx :: res)
                 | None => let '(rest, blk', res') := go r O (S idx) [] in (c' :: rest, blk', res')
                 end
               else let '(rest, blk', res') := go r O (S idx) [] in (inner c :: rest, blk', res')
           end
       end) l toskip idx sub.

  Lemma ibi_unfold k a l stack :
    ibi inner (B k a l) stack =
    let '(new, blk, resume) := ibi_kids l (match stack with [] => 0 | i :: _ => i end) 0 (match stack with [] => [] | _ :: s => s end) in
    (B k a new, blk, resume).
  Proof. reflexivity. Qed.

  Lemma ibi_kids_nil t i s : ibi_kids [] t i s = ([], None, []).
  Proof. destruct t; reflexivity. Qed.
  Lemma ibi_kids_S c r t i s : ibi_kids (c :: r) (S t) i s = ibi_kids r t (S i) s.
  Proof. reflexivity. Qed.
  Lemma ibi_kids_0 c r i s :
    ibi_kids (c :: r) 0 i s =
    if is_block_in_flow c then ([], Some c, [S i])
    else if is_k KInline (bk c) then
      let '(c', blk, res) := ibi inner c s in
      match blk with
      | Some _ => ([c'], blk, i :: res)
      | None => let '(rest, blk', res') := ibi_kids r O (S i) [] in (c' :: rest, blk', res')
      end
    else let '(rest, blk', res') := ibi_kids r O (S i) [] in (inner c :: rest, blk', res').
  Proof. reflexivity. Qed.

  Definition tail_of (full : list box) (blk : option box) (res : list nat) : list nat :=
    match blk with
    | Some c => ident (ba c) :: rests full (match res with [] => 0 | i :: _ => i end) (match res with [] => [] | _ :: s => s end)
    | None => []
    end.

  Definition ibi_ok (b : box) : Prop :=
    forall stack piece blk res, ibi inner b stack = (piece, blk, res) ->
      contents (bkids piece) ++ tail_of (bkids b) blk res = rest b stack /\ bk piece = bk b.

  Lemma block_not_inline c : is_block_in_flow c = true -> is_k KInline (bk c) = false.
  Proof. unfold is_block_in_flow. destruct (bk c); simpl; intros H; try discriminate; auto. Qed.

  Lemma ibi_kids_spec cur :
    Forall ibi_ok cur ->
    forall toskip idx sub new blk res pre,
      ibi_kids cur toskip idx sub = (new, blk, res) -> length pre = idx ->
      contents new ++ tail_of (pre ++ cur) blk res = rests cur toskip sub.
  Proof.
    induction 1 as [|c r Hc Hr IH]; intros toskip idx sub new blk res pre H Hlen.
    - rewrite ibi_kids_nil in H. injection H as <- <- <-. rewrite rests_nil. reflexivity.
    - destruct toskip as [|t].
      + rewrite ibi_kids_0 in H. rewrite rests_cons0. destruct (is_block_in_flow c) eqn:Eb.
        * injection H as <- <- <-. rewrite (block_not_inline c Eb). unfold tail_of.
          replace (S idx) with (length pre + 1) by lia. rewrite rests_app_skip. rewrite rests_consS. reflexivity.
        * destruct (is_k KInline (bk c)) eqn:Ei.
          -- destruct (ibi inner c sub) as [[c' blk0] res0] eqn:Ec. destruct (Hc sub c' blk0 res0 Ec) as [Hc1 Hc2].
             assert (Hcc : content c' = contents (bkids c')).
             { destruct c' as [k' a' l']. rewrite content_unfold. cbn [bk] in Hc2. rewrite Hc2, Ei. reflexivity. }
             destruct blk0 as [b0|].
             ++ injection H as <- <- <-. rewrite contents_cons, Hcc. cbn [contents app]. rewrite app_nil_r. unfold tail_of in *.
                replace idx with (length pre + 0) by lia. rewrite rests_app_skip. rewrite rests_cons0, Ei.
                rewrite <- rest_bkids in Hc1. rewrite <- Hc1. rewrite <- !app_assoc. reflexivity.
             ++ destruct (ibi_kids r 0 (S idx) []) as [[rest0 blk'] res'] eqn:Er. injection H as <- <- <-.
                specialize (IH 0 (S idx) [] rest0 blk' res' (pre ++ [c]) Er). rewrite app_length in IH. simpl length in IH.
                rewrite <- app_assoc in IH. simpl app in IH. specialize (IH ltac:(lia)).
                rewrite contents_cons, Hcc. unfold tail_of in Hc1. rewrite app_nil_r in Hc1. rewrite Hc1.
                rewrite <- app_assoc. rewrite IH. reflexivity.
          -- destruct (ibi_kids r 0 (S idx) []) as [[rest0 blk'] res'] eqn:Er. injection H as <- <- <-.
             specialize (IH 0 (S idx) [] rest0 blk' res' (pre ++ [c]) Er). rewrite app_length in IH. simpl length in IH.
             rewrite <- app_assoc in IH. simpl app in IH. specialize (IH ltac:(lia)).
             rewrite contents_cons. destruct (inner_keeps c) as [K1 K2].
             assert (Hic : content (inner c) = [ident (ba c)]).
             { destruct (inner c) as [k' a' l']. rewrite content_unfold. cbn [bk ba] in K1, K2. rewrite K1, Ei, K2. reflexivity. }
             rewrite Hic. rewrite <- app_assoc. rewrite IH. reflexivity.
      + rewrite ibi_kids_S in H. rewrite rests_consS.
        specialize (IH t (S idx) sub new blk res (pre ++ [c]) H). rewrite app_length in IH. simpl length in IH.
        rewrite <- app_assoc in IH. simpl app in IH. apply IH. lia.
  Qed.

  Lemma ibi_all b : ibi_ok b.
  Proof.
    induction b as [k a l IH] using box_ind'. intros stack piece blk res H. rewrite ibi_unfold in H.
    destruct (ibi_kids l _ 0 _) as [[new blk0] res0] eqn:E. injection H as <- <- <-.
    split; [|reflexivity]. cbn [bkids]. rewrite rest_unfold. apply (ibi_kids_spec l IH _ 0 _ new blk0 res0 [] E eq_refl).
  Qed.

  Definition flat_pieces (ps : list (box + box)) : list nat :=
    flat_map (fun p => match p with inl piece => line_content piece | inr b => [ident (ba b)] end) ps.

  Lemma bii_line_spec line fuel stack :
    length (rest line stack) < fuel ->
    exists ps, bii_line inner fuel line stack = Some ps /\ flat_pieces ps = rest line stack.
  Proof.
    revert stack. induction fuel as [|n IH]; intros stack Hlt; [lia|]. simpl bii_line.
    destruct (ibi inner line stack) as [[piece blk] res] eqn:E. destruct (ibi_all line stack piece blk res E) as [H1 _].
    destruct blk as [b|].
    - unfold tail_of in H1. rewrite <- rest_bkids in H1.
      assert (Hl : length (rest line res) < n).
      { rewrite <- H1 in Hlt. rewrite app_length in Hlt. simpl length in Hlt. lia. }
      destruct (IH res Hl) as [ps [P1 P2]]. rewrite P1. eexists. split; [reflexivity|].
      unfold flat_pieces in *. cbn [flat_map]. rewrite P2. destruct (inner_keeps b) as [_ K]. rewrite K.
      unfold line_content. rewrite <- H1. reflexivity.
    - eexists. split; [reflexivity|]. unfold flat_pieces. cbn [flat_map]. rewrite app_nil_r. unfold tail_of in H1.
      rewrite app_nil_r in H1. exact H1.
  Qed.

  (* the while loop of block_in_inline over one line box terminates, and the pieces (inline content) and blocks it
     alternates are, concatenated, the original inline content in order *)
  Lemma block_in_inline_pieces line :
    exists ps, bii_line inner (S (length (line_content line))) line [] = Some ps /\ flat_pieces ps = line_content line.
  Proof.
    destruct (bii_line_spec line (S (length (line_content line))) []) as [ps [P1 P2]].
    - rewrite rest_nil. unfold line_content. lia.
    - exists ps. split; [exact P1|]. rewrite P2. apply rest_nil.
  Qed.
End BII.

Example block_in_inline_ex :
  let t := mkA true false false false false false false 0 false in
  bii_line (fun b => b) 9
    (B KLine (t 0) [B KInline (t 1) [B KText (t 2) []; B KInline (t 3) [B KText (t 4) []; B KBlock (t 5) []; B KBlock (t 6) []];
                                     B KBlock (t 7) []]]) [] =
  Some [inl (B KLine (t 0) [B KInline (t 1) [B KText (t 2) []; B KInline (t 3) [B KText (t 4) []]]]);
        inr (B KBlock (t 5) []);
        inl (B KLine (t 0) [B KInline (t 1) [B KInline (t 3) []]]);
        inr (B KBlock (t 6) []);
        inl (B KLine (t 0) [B KInline (t 1) [B KInline (t 3) []]]);
        inr (B KBlock (t 7) []);
        inl (B KLine (t 0) [B KInline (t 1) []])].
Proof. reflexivity. Qed.
