(* C03: content stays on its page - every line box placed by the fragmentation model ends above the page bottom
   (reduced by the bottom space reserved by its ancestors) unless it is the first line on the page. *)
From Coq Require Import ZArith List Bool Lia Arith.
Require Import WV.model.Frag2 WV.proofs.C01_defs.
Import ListNotations.
Open Scope Z_scope.

Section Fit.
Variable c : ctx.
Let H := page_bottom c.
Let lh := LH c.

Definition fits (lim : Z) (l : Z * Z) : Prop := snd l + lh <= lim.
(* all lines fit, except possibly the first one when the page was empty so far *)
Definition fitl (pie : bool) (lim : Z) (ls : list (Z * Z)) : Prop :=
  match ls with [] => True | l :: rest => (pie = true \/ fits lim l) /\ Forall (fits lim) rest end.
Definition lines_l (fs : list frag) : list (Z * Z) := flat_map frag_lines fs.

Lemma fits_mono lim lim' l : lim' <= lim -> fits lim' l -> fits lim l.
Proof. unfold fits. lia. Qed.
Lemma Forall_fits_mono lim lim' ls : lim' <= lim -> Forall (fits lim') ls -> Forall (fits lim) ls.
Proof. intros Hl. apply Forall_impl. intros a. now apply fits_mono. Qed.
Lemma fitl_mono pie lim lim' ls : lim' <= lim -> fitl pie lim' ls -> fitl pie lim ls.
Proof.
  intros Hl. destruct ls as [|l rest]; [auto|]. intros [H1 H2]. split.
  - destruct H1; [now left|right; eapply fits_mono; eassumption].
  - eapply Forall_fits_mono; eassumption.
Qed.
Lemma fitl_false_all lim ls : fitl false lim ls <-> Forall (fits lim) ls.
Proof.
  destruct ls as [|l rest]; simpl.
  - split; auto.
  - split.
    + intros [[X|X] Y]; [discriminate|]. now constructor.
    + intros X. inversion X; subst. split; [now right|assumption].
Qed.
Lemma fitl_weaken pie lim ls : Forall (fits lim) ls -> fitl pie lim ls.
Proof. destruct ls as [|l rest]; [intros; exact I|]. intros X. inversion X; subst. cbn [fitl]. split; [now right|assumption]. Qed.
Lemma fitl_app pie lim a b :
  fitl pie lim a -> fitl (pie && match a with [] => true | _ => false end) lim b -> fitl pie lim (a ++ b).
Proof.
  destruct a as [|l rest]; simpl.
  - rewrite andb_true_r. auto.
  - rewrite andb_false_r. intros [H1 H2] Hb. split; [assumption|]. apply Forall_app. split; [assumption|].
    now apply fitl_false_all.
Qed.
Lemma fitl_prefix pie lim a b : fitl pie lim (a ++ b) -> fitl pie lim a.
Proof.
  destruct a as [|l rest]; simpl; [auto|]. intros [H1 H2]. split; [assumption|].
  apply Forall_app in H2. tauto.
Qed.

Lemma frag_lines_blk st i y mt mb pt pb bt bb h kids :
  frag_lines (FBlk st i y mt mb pt pb bt bb h kids) = lines_l kids.
Proof. reflexivity. Qed.
Lemma lines_l_app a b : lines_l (a ++ b) = lines_l a ++ lines_l b.
Proof. unfold lines_l. apply flat_map_app. Qed.
Lemma frag_lines_set_index f i : frag_lines (set_index f i) = frag_lines f.
Proof. destruct f; reflexivity. Qed.

Lemma no_overflow_le lim v : overflows lim v = false -> v <= lim.
Proof. unfold overflows. destruct (0 <=? lim); intros X; [apply Z.ltb_ge in X|apply Z.leb_gt in X]; lia. Qed.

(* ---- paragraph level ---- *)
Definition is_fline (f : frag) : Prop := match f with FLine _ _ _ _ _ _ => True | _ => False end.
Lemma lines_l_nil_flines placed : Forall is_fline placed -> lines_l placed = [] -> placed = [].
Proof. destruct placed as [|f l]; [auto|]. intros X. inversion X; subst. destruct f; [discriminate|contradiction]. Qed.
Lemma Forall_firstn {A} (P : A -> Prop) n l : Forall P l -> Forall P (firstn n l).
Proof. revert l. induction n; intros [|a l] X; simpl; auto. inversion X; subst. constructor; auto. Qed.

Lemma lines_loop_fit st pb bb index pie bs : 0 <= pb -> 0 <= bb ->
  forall ids k gen_y y placed mt dbd cur,
  Forall is_fline placed -> fitl pie (H - bs) (lines_l placed) ->
  let r := lines_loop c st pb bb index pie bs ids k gen_y y placed mt dbd cur in
  Forall is_fline (lr_placed r) /\ fitl pie (H - bs) (lines_l (lr_placed r)).
Proof.
  intros Hpb Hbb. induction ids as [|id rest IH]; intros k gen_y y placed mt dbd cur Hfl Hfit; [split; assumption|].
  cbn zeta. simpl lines_loop.
  match goal with |- context [if ?cond then _ else _] => destruct cond eqn:Eov end.
  - destruct (break_line st (length placed) (length rest) pie) as [drop|]; simpl; [|split; assumption].
    unfold removelast_n. split; [now apply Forall_firstn|].
    rewrite <- (firstn_skipn (length placed - drop) placed) in Hfit.
    rewrite lines_l_app in Hfit. eapply fitl_prefix; eassumption.
  - apply IH.
    + apply Forall_app. split; [assumption|]. constructor; [exact I|constructor].
    + rewrite lines_l_app. apply fitl_app; [exact Hfit|].
      unfold lines_l at 2. cbn [flat_map frag_lines app].
      apply andb_false_iff in Eov.
      set (dbd' := dbd || match match rest with [] => None | _ :: _ => Some (S k) end with None => true | Some _ => false end) in *.
      set (offset := if dbd' then bb + pb else 0) in *.
      assert (Hoff : 0 <= offset) by (subst offset; destruct dbd'; lia).
      destruct Eov as [Eov|Eov].
      * (* nothing placed yet on an empty page: the line is exempt *)
        apply orb_false_iff in Eov. destruct Eov as [E1 E2].
        apply negb_false_iff, Nat.eqb_eq in E1. apply negb_false_iff in E2.
        assert (placed = []) by (destruct placed; [reflexivity|discriminate]). subst placed. subst pie.
        cbn [lines_l flat_map]. split; [now left|constructor].
      * (* the line does not overflow *)
        assert (Eov2 : overflows (page_bottom c - bs) (gen_y + LH c) = false).
        { revert Eov. unfold overflows. destruct (0 <=? page_bottom c - bs); intros X;
            [apply Z.ltb_ge in X; apply Z.ltb_ge|apply Z.leb_gt in X; apply Z.leb_gt]; lia. }
        rewrite Eov2, andb_false_r.
        apply no_overflow_le in Eov2.
        apply fitl_weaken. constructor; [|constructor]. unfold fits, lh, H. cbn [snd]. lia.
Qed.

Lemma linebox_layout_fit st mt pb bb ids index pie adj bs pos sub dbd : 0 <= pb -> 0 <= bb ->
  let r := linebox_layout c st mt pb bb ids index pie adj bs pos sub dbd in
  fitl pie (H - bs) (lines_l (lr_placed r)).
Proof.
  intros Hpb Hbb. unfold linebox_layout. cbv zeta.
  match goal with |- context [lines_loop c st pb bb index pie bs ?i ?k ?g ?y [] ?m ?d ?s] =>
    destruct (lines_loop_fit st pb bb index pie bs Hpb Hbb i k g y [] m d s (Forall_nil _) I) as [_ Hf];
    set (r := lines_loop c st pb bb index pie bs i k g y [] m d s) in * end.
  destruct (lr_placed r) eqn:E; [rewrite E; exact I|]. cbn [lr_placed]. exact Hf.
Qed.

Lemma lines_step_fit st pb bb pie bs ids index sub s : 0 <= pb -> 0 <= bb -> ls_newc s = [] ->
  match lines_step c st pb bb pie bs ids index sub s with
  | SAbort _ => True
  | SStop _ s' | SCont s' => fitl pie (H - bs) (lines_l (ls_newc s'))
  end.
Proof.
  intros Hpb Hbb Hn. unfold lines_step. cbv zeta.
  pose proof (linebox_layout_fit st (ls_mt s) pb bb ids index pie (ls_cur s) bs (ls_pos s) sub (ls_dbd s) Hpb Hbb) as Hf.
  cbv zeta in Hf.
  destruct (lr_abort _); [exact I|]. destruct (lr_stop _); cbn [ls_newc]; rewrite Hn; exact Hf.
Qed.

(* ---- find_earlier keeps a prefix of the lines ---- *)
Definition is_prefix {A} (a b : list A) : Prop := exists t, b = a ++ t.
Lemma prefix_refl {A} (a : list A) : is_prefix a a. Proof. exists []. now rewrite app_nil_r. Qed.
Lemma prefix_app {A} (a b t : list A) : is_prefix a b -> is_prefix a (b ++ t).
Proof. intros [u ->]. exists (u ++ t). now rewrite app_assoc. Qed.
Lemma prefix_cons_app {A} (x a b : list A) : is_prefix a b -> is_prefix (x ++ a) (x ++ b).
Proof. intros [u ->]. exists u. now rewrite app_assoc. Qed.

Fixpoint frag_ind' (P : frag -> Prop)
  (Hl : forall w y h r o wd, P (FLine w y h r o wd))
  (Hb : forall st i y mt mb pt pb bt bb h kids, Forall P kids -> P (FBlk st i y mt mb pt pb bt bb h kids)) (f : frag) : P f :=
  match f with
  | FLine w y h r o wd => Hl w y h r o wd
  | FBlk st i y mt mb pt pb bt bb h kids =>
      Hb st i y mt mb pt pb bt bb h kids
         ((fix go (l : list frag) : Forall P l :=
             match l with [] => Forall_nil _ | k :: l' => Forall_cons k (frag_ind' P Hl Hb k) (go l') end) kids)
  end.

Definition FEP (f : frag) : Prop :=
  forall kept res, find_earlier_f f = Some (kept, res) ->
    match f with FBlk _ _ _ _ _ _ _ _ _ _ kids => is_prefix (lines_l kept) (lines_l kids) | _ => True end.

Lemma fe_go_prefix : forall fk, Forall FEP fk -> forall kept res,
  fe_go find_earlier_f fk = Some (kept, res) -> is_prefix (lines_l kept) (lines_l fk).
Proof.
  induction fk as [|ch rest IH]; intros HF kept res Hgo; [discriminate|].
  inversion HF as [|? ? Hch Hrest]; subst. simpl in Hgo.
  destruct (fe_go find_earlier_f rest) as [[kept' res']|] eqn:Er.
  - injection Hgo as <- <-. change (lines_l (ch :: kept')) with (frag_lines ch ++ lines_l kept').
    change (lines_l (ch :: rest)) with (frag_lines ch ++ lines_l rest). apply prefix_cons_app. eapply IH; eauto.
  - assert (Hin : forall kept res,
      (if negb (avoid (frag_st_bi ch)) then
         match find_earlier_f ch with
         | Some (ngc, res) => Some ([set_kids ch ngc], SChild (frag_index ch) (Some res))
         | None => None end else None) = Some (kept, res) -> is_prefix (lines_l kept) (lines_l (ch :: rest))).
    { intros k0 r0 X. destruct (negb (avoid (frag_st_bi ch))); [|discriminate].
      destruct (find_earlier_f ch) as [[ngc r1]|] eqn:Efe; [|discriminate]. injection X as <- <-.
      specialize (Hch _ _ Efe). destruct ch as [|st i y mt mb pt pb bt bb h kids]; [discriminate Efe|].
      change (lines_l [set_kids (FBlk st i y mt mb pt pb bt bb h kids) ngc]) with (lines_l ngc ++ []).
      rewrite app_nil_r. change (lines_l (FBlk st i y mt mb pt pb bt bb h kids :: rest)) with (lines_l kids ++ lines_l rest).
      now apply prefix_app. }
    destruct rest as [|p rest']; [now apply Hin in Hgo|].
    match type of Hgo with (if ?cnd then _ else _) = _ => destruct cnd end; [|now apply Hin in Hgo].
    injection Hgo as <- <-. exists (lines_l (p :: rest')). unfold lines_l. simpl. now rewrite app_nil_r.
Qed.

Lemma find_earlier_prefix : forall f, FEP f.
Proof.
  induction f as [|st i y mt mb pt pb bt bb h kids IH] using frag_ind'; intros kept res Hfe; [exact I|].
  cbn [find_earlier_f] in Hfe. destruct kids as [|k0 kids'] eqn:Ek; [discriminate Hfe|].
  destruct k0 as [w0 y0 h0 r0 o0 wd0|].
  - rewrite <- Ek in *.
    match type of Hfe with (if ?cnd then _ else _) = _ => destruct cnd end; [discriminate|].
    injection Hfe as <- <-.
    exists (lines_l (skipn (length kids - wd0) kids)). now rewrite <- lines_l_app, firstn_skipn.
  - rewrite <- Ek in *. eapply fe_go_prefix; eassumption.
Qed.

Lemma find_earlier_lines_prefix newc newc' res :
  find_earlier newc = Some (newc', res) -> is_prefix (lines_l newc') (lines_l newc).
Proof. intros X. exact (find_earlier_prefix _ _ _ X). Qed.

(* ---- block level ---- *)
Definition geom_ok (f : frag) : Prop :=
  match f with FBlk _ _ _ _ _ _ pb _ bb _ _ => 0 <= pb /\ 0 <= bb | _ => True end.
Definition FS (rec : rec_t) : Prop :=
  forall p m bs sk pie a r A B C, 0 <= bs -> rec p m bs sk pie a = (Some r, A, B, C) ->
    fitl pie (H - bs) (frag_lines (b_frag r)) /\ geom_ok (b_frag r).

Lemma blk_step_fit rec child cst is_root pie bs index sub s :
  FS rec -> 0 <= bs -> fitl pie (H - bs) (lines_l (ls_newc s)) ->
  match blk_step c rec child cst is_root pie bs index sub s with
  | SAbort _ => True
  | SStop _ s' | SCont s' => fitl pie (H - bs) (lines_l (ls_newc s'))
  end.
Proof.
  intros HFS Hbs Hfit. unfold blk_step.
  set (newc := ls_newc s) in *.
  (* what happens when a child fragment [f] obtained with page_is_empty = pie && (newc = []) is appended *)
  assert (Happ : forall f bs', bs <= bs' -> fitl (pie && (length newc =? 0)%nat) (H - bs') (frag_lines f) ->
                 fitl pie (H - bs) (lines_l (newc ++ [set_index f index]))).
  { intros f bs' Hle Hf. rewrite lines_l_app. apply fitl_app; [exact Hfit|].
    unfold lines_l at 2. cbn [flat_map]. rewrite app_nil_r, frag_lines_set_index.
    apply fitl_mono with (H - bs'); [lia|].
    destruct newc as [|f0 l0] eqn:En.
    - cbn [lines_l flat_map]. rewrite andb_true_r. now rewrite andb_true_r in Hf.
    - cbn [length Nat.eqb] in Hf. rewrite andb_false_r in Hf.
      apply fitl_false_all in Hf. now apply fitl_weaken. }
  assert (Hearlier : forall newc' res', find_earlier newc = Some (newc', res') -> fitl pie (H - bs) (lines_l newc')).
  { intros newc' res' X. destruct (find_earlier_lines_prefix _ _ _ X) as [t Ht]. rewrite Ht in Hfit.
    eapply fitl_prefix; eassumption. }
  destruct (match match newc with [] => None | _ :: _ => Some (last newc (FLine 0 0 0 None 0 0)) end with
            | Some _ => force _ | None => false end) eqn:Eforce; [exact Hfit|].
  destruct (rec (ls_pos s) _ bs sub _ (ls_cur s)) as [[[res cur_fin] out] same] eqn:Erec1.
  destruct res as [r|].
  - destruct (HFS _ _ _ _ _ _ _ _ _ _ Hbs Erec1) as [Hf1 Hg1].
    destruct (frag_geom (b_frag r)) as [[[[[[[cy cmt] cmb] cpt] cpb] cbt] cbb] ch] eqn:Egeom.
    assert (Hcp : 0 <= cpb /\ 0 <= cbb).
    { destruct (b_frag r); simpl in Egeom, Hg1; inversion Egeom; subst; [lia|exact Hg1]. }
    cbv zeta.
    destruct (b_ct r) eqn:Ect.
    + cbv beta iota. destruct (b_resume r); cbn [ls_newc]; apply Happ with bs; try lia; exact Hf1.
    + match goal with |- context [if ?cnd then (None, _, _, _, _, _, _) else _] => destruct cnd eqn:Eco end.
      * cbv beta iota. destruct (avoid _).
        -- destruct (find_earlier newc) as [[newc' res']|] eqn:Efe; [cbn [ls_newc]; eapply Hearlier; reflexivity|].
           destruct (negb pie); [exact I|]. destruct newc; [exact I|exact Hfit].
        -- destruct newc; [exact I|exact Hfit].
      * match goal with |- context [if ?cnd then _ else (Some (b_frag r), _, _, _, _, _, _)] => destruct cnd eqn:Ebo end.
        -- destruct (rec (ls_pos s) _ (bs + cpb + cbb) sub _ cur_fin) as [[[res2 cur_fin2] out2] same2] eqn:Erec2.
           destruct res2 as [r2|].
           ++ assert (Hb2 : 0 <= bs + cpb + cbb) by lia.
              destruct (HFS _ _ _ _ _ _ _ _ _ _ Hb2 Erec2) as [Hf2 _].
              destruct (frag_geom (b_frag r2)) as [[[[[[[cy2 cmt2] cmb2] cpt2] cpb2] cbt2] cbb2] ch2] eqn:Egeom2.
              cbv beta iota. destruct (b_resume r2); cbn [ls_newc]; apply Happ with (bs + cpb + cbb); try lia; exact Hf2.
           ++ cbv beta iota. destruct (avoid _).
              ** destruct (find_earlier newc) as [[newc' res']|] eqn:Efe; [cbn [ls_newc]; eapply Hearlier; reflexivity|].
                 destruct (negb pie); [exact I|]. destruct newc; [exact I|exact Hfit].
              ** destruct newc; [exact I|exact Hfit].
        -- cbv beta iota. destruct (b_resume r); cbn [ls_newc]; apply Happ with bs; try lia; exact Hf1.
  - cbv beta iota. destruct (avoid _).
    + destruct (find_earlier newc) as [[newc' res']|] eqn:Efe; [cbn [ls_newc]; eapply Hearlier; reflexivity|].
      destruct (negb pie); [exact I|]. destruct newc; [exact I|exact Hfit].
    + destruct newc; [exact I|exact Hfit].
Qed.
End Fit.
