(* C11 - absolutely positioned boxes: the CSS 2.1 10.3.7 / 10.6.4 / 10.3.8 / 10.6.5 clauses proved about the
   models of absolute_width, absolute_height, absolute_replaced and of the min/max-width wrapper
   (model/C11Abs.v), for all inputs. *)
From Coq Require Import QArith Qminmax Lqa List Bool.
Require Import WV.model.C11Abs.
Import ListNotations.
Open Scope Q_scope.

Lemma half_double x : x / 2 + x / 2 == x.
Proof. field. Qed.

Ltac halves :=
  repeat match goal with
         | |- context[?x / 2] =>
             let h := fresh "Hh" in let v := fresh "hv" in
             pose proof (half_double x) as h; set (v := x / 2) in *; clearbody v
         end.

Ltac qle_cases :=
  repeat match goal with
         | |- context[Qle_bool ?a ?b] =>
             let E := fresh "E" in
             destruct (Qle_bool a b) eqn:E;
             [apply Qle_bool_iff in E | assert (~ a <= b) by (let HH := fresh "HH" in intro HH; apply Qle_bool_iff in HH; congruence); clear E]
         | H : context[Qle_bool ?a ?b] |- _ =>
             let E := fresh "E" in
             destruct (Qle_bool a b) eqn:E;
             [apply Qle_bool_iff in E | assert (~ a <= b) by (let HH := fresh "HH" in intro HH; apply Qle_bool_iff in HH; congruence); clear E]
         end.

Ltac inj_all :=
  repeat match goal with
         | H : Some _ = Some _ |- _ => injection H as H; try subst
         | H : None = Some _ |- _ => discriminate H
         | H : Some _ = None |- _ => discriminate H
         | H : true = false |- _ => discriminate H
         | H : false = true |- _ => discriminate H
         end.

Ltac open_axis b :=
  destruct b as [s e z ms me pad pos]; destruct s as [s|], e as [e|], z as [z|], ms as [ms|], me as [me|];
  cbn [a_start a_end a_size a_ms a_me a_pad a_pos] in *.

Ltac finish :=
  unfold start_used, end_used, final_pos; cbn -[Qplus Qminus Qmult Qdiv Qle Qeq];
  repeat split; intros; inj_all; try discriminate; try reflexivity; halves; try lra.

(* ------------------------------------------------------------------------------------------------ width *)

(* absolute_width always leaves numbers in width and both margins *)
Lemma abs_width_total ltr stf cbx cbw b content :
  exists p, placed_of b (abs_width ltr stf cbx cbw b) content = Some p /\
            a_size (fst (abs_width ltr stf cbx cbw b)) = Some (p_size p).
Proof.
  open_axis b; destruct ltr; cbn -[Qplus Qminus Qmult Qdiv Qle_bool];
    qle_cases; cbn -[Qplus Qminus Qmult Qdiv]; eexists; split; reflexivity.
Qed.

(* CSS 2.1 10.3.7: every specified term of
     left + margin-left + (borders, paddings) + width + margin-right + right = containing block width
   is the used one (the used offsets being measured on the final position), auto margins are 0 unless
   left, width and right are all specified - whenever the five values are not all specified. *)
Theorem abs_width_constraint ltr stf cbx cbw b content p :
  over_constrained b = false ->
  placed_of b (abs_width ltr stf cbx cbw b) content = Some p ->
  constraint_spec cbx cbw b p.
Proof.
  intros Hoc Hp. unfold constraint_spec.
  open_axis b; try discriminate Hoc; destruct ltr;
    cbn -[Qplus Qminus Qmult Qdiv Qle_bool] in Hp; qle_cases;
    cbn -[Qplus Qminus Qmult Qdiv] in Hp; inj_all; finish.
Qed.

(* left, width, right specified and both margins auto: the margins are equal, unless that would make them
   negative: then the start-side one is 0 (margin-left in ltr, margin-right in rtl) *)
Theorem abs_width_auto_margins_equal ltr stf cbx cbw b content p l r w :
  a_start b = Some l -> a_end b = Some r -> a_size b = Some w -> a_ms b = None -> a_me b = None ->
  placed_of b (abs_width ltr stf cbx cbw b) content = Some p ->
  (l + a_pad b + w + r <= cbw -> p_ms p == p_me p /\ 0 <= p_ms p) /\
  (~ l + a_pad b + w + r <= cbw -> if ltr then p_ms p == 0 else p_me p == 0).
Proof.
  intros Hs He Hz Hms Hme Hp. open_axis b; try discriminate; inj_all. destruct ltr;
    cbn -[Qplus Qminus Qmult Qdiv Qle_bool] in Hp; qle_cases;
    cbn -[Qplus Qminus Qmult Qdiv] in Hp; inj_all; cbn -[Qplus Qminus Qmult Qdiv Qle Qeq];
    (split; [intro Hfit; try (exfalso; lra); halves; split; try reflexivity; try lra
            | intro Hnofit; try (exfalso; apply Hnofit; lra); try reflexivity]).
Qed.

(* over-constrained: in ltr the left offset, margin-left and width are honoured (right is ignored);
   in rtl the right offset, margin-right and width are honoured (left is ignored) *)
Theorem abs_width_over_constrained ltr stf cbx cbw b content p :
  over_constrained b = true ->
  placed_of b (abs_width ltr stf cbx cbw b) content = Some p ->
  overconstrained_spec ltr cbx cbw b p.
Proof.
  intros Hoc Hp. unfold overconstrained_spec.
  open_axis b; try discriminate Hoc; destruct ltr;
    cbn -[Qplus Qminus Qmult Qdiv Qle_bool] in Hp; inj_all; finish.
Qed.

(* left and right auto, ltr: the box stays at its static position *)
Theorem abs_width_static ltr stf cbx cbw b content p :
  a_start b = None -> a_end b = None -> ltr = true ->
  placed_of b (abs_width ltr stf cbx cbw b) content = Some p -> p_x p == a_pos b.
Proof.
  intros Hs He Hl Hp. subst ltr. open_axis b; try discriminate;
    cbn -[Qplus Qminus Qmult Qdiv Qle_bool] in Hp; inj_all; finish.
Qed.

(* width auto with left or right auto: shrink-to-fit of the available width (10.3.7: the width found by
   solving the equation with the auto offsets set to 0) *)
Theorem abs_width_shrink_to_fit ltr stf cbx cbw b content p :
  a_size b = None -> (a_start b = None \/ a_end b = None) ->
  placed_of b (abs_width ltr stf cbx cbw b) content = Some p ->
  exists avail, p_size p = stf avail /\
                avail == cbw - (num0 (a_start b) + p_ms p + a_pad b + p_me p + num0 (a_end b)).
Proof.
  intros Hz Hse Hp. open_axis b; try discriminate; destruct Hse; try discriminate; destruct ltr;
    cbn -[Qplus Qminus Qmult Qdiv Qle_bool] in Hp; inj_all;
    cbn -[Qplus Qminus Qmult Qdiv Qle Qeq]; eexists; (split; [reflexivity | lra]).
Qed.

(* left and right specified, width auto: the width fills what the other terms leave *)
Theorem abs_width_auto_width_fills ltr stf cbx cbw b content p l r :
  a_start b = Some l -> a_end b = Some r -> a_size b = None ->
  placed_of b (abs_width ltr stf cbx cbw b) content = Some p ->
  l + p_ms p + a_pad b + p_size p + p_me p + r == cbw.
Proof.
  intros Hs He Hz Hp. open_axis b; try discriminate; inj_all; destruct ltr;
    cbn -[Qplus Qminus Qmult Qdiv Qle_bool] in Hp; inj_all; cbn -[Qplus Qminus Qmult Qdiv Qle Qeq]; lra.
Qed.

(* ---- the min/max-width wrapper: re-entering absolute_width is exactly CSS 2.1 10.4 ("the rules above are
   applied again, using the computed value of max-width / min-width as the computed value for width") *)
Lemma abs_width_frame ltr stf cbx cbw b v :
  set_pos (set_margins (set_size (fst (abs_width ltr stf cbx cbw b)) v) (a_ms b) (a_me b)) (a_pos b) = set_size b v.
Proof.
  open_axis b; destruct ltr; cbn -[Qplus Qminus Qmult Qdiv Qle_bool]; qle_cases; reflexivity.
Qed.

Lemma abs_width_frame2 ltr stf cbx cbw b u v :
  set_pos (set_margins (set_size (fst (abs_width ltr stf cbx cbw (set_size b u))) v) (a_ms b) (a_me b)) (a_pos b)
  = set_size b v.
Proof.
  open_axis b; destruct ltr; cbn -[Qplus Qminus Qmult Qdiv Qle_bool]; qle_cases; reflexivity.
Qed.

Lemma abs_width_keeps_specified_width ltr stf cbx cbw b v :
  a_size (fst (abs_width ltr stf cbx cbw (set_size b v))) = Some v.
Proof.
  open_axis b; destruct ltr; cbn -[Qplus Qminus Qmult Qdiv Qle_bool]; qle_cases; reflexivity.
Qed.

Lemma set_size_set_size b u v : set_size (set_size b u) v = set_size b v.
Proof. destruct b; reflexivity. Qed.

Lemma set_size_fields b v :
  a_start (set_size b v) = a_start b /\ a_end (set_size b v) = a_end b /\ a_ms (set_size b v) = a_ms b /\
  a_me (set_size b v) = a_me b /\ a_pos (set_size b v) = a_pos b /\ a_pad (set_size b v) = a_pad b.
Proof. destruct b; repeat split. Qed.

Theorem abs_width_min_max_reentry ltr stf cbx cbw minw maxw b :
  let f := abs_width ltr stf cbx cbw in
  exists w1, a_size (fst (f b)) = Some w1 /\
  handle_min_max f minw maxw b =
    Some (let over := match maxw with Some m => gtb w1 m | None => false end in
          let w2 := if over then num0 maxw else w1 in
          if gtb minw w2 then f (set_size b minw)
          else if over then f (set_size b (num0 maxw)) else f b).
Proof.
  cbv zeta.
  destruct (abs_width_total ltr stf cbx cbw b 0) as [p [_ Hsz]].
  exists (p_size p). split; [exact Hsz|].
  unfold handle_min_max. rewrite Hsz.
  destruct (match maxw with Some m => gtb (p_size p) m | None => false end) eqn:Eover.
  - rewrite abs_width_frame. rewrite abs_width_keeps_specified_width.
    destruct (gtb minw (num0 maxw)) eqn:Emin.
    + rewrite abs_width_frame2. reflexivity.
    + reflexivity.
  - rewrite Hsz. destruct (gtb minw (p_size p)) eqn:Emin.
    + rewrite abs_width_frame. reflexivity.
    + reflexivity.
Qed.

(* consequence: the decorated function never fails and its final width is the clamped tentative width *)
Corollary abs_width_min_max_width ltr stf cbx cbw minw maxw b :
  exists w1 r, a_size (fst (abs_width ltr stf cbx cbw b)) = Some w1 /\
    handle_min_max (abs_width ltr stf cbx cbw) minw maxw b = Some r /\
    a_size (fst r) = Some (clamped_width w1 minw maxw).
Proof.
  destruct (abs_width_min_max_reentry ltr stf cbx cbw minw maxw b) as [w1 [H1 H2]].
  exists w1. eexists. split; [exact H1|]. split; [exact H2|].
  unfold clamped_width. cbv zeta.
  destruct maxw as [m|]; cbn [num0].
  - destruct (gtb w1 m); [destruct (gtb minw m) | destruct (gtb minw w1)];
      try apply abs_width_keeps_specified_width; exact H1.
  - destruct (gtb minw w1); try apply abs_width_keeps_specified_width; exact H1.
Qed.

(* ----------------------------------------------------------------------------------------------- height *)

Lemma abs_height_total cby cbh b content :
  exists p, placed_of b (abs_height cby cbh b) content = Some p.
Proof.
  open_axis b; cbn -[Qplus Qminus Qmult Qdiv]; eexists; reflexivity.
Qed.

(* CSS 2.1 10.6.4, same reading; `content` is the height the content gets when the height stays auto *)
Theorem abs_height_constraint cby cbh b content p :
  over_constrained b = false ->
  placed_of b (abs_height cby cbh b) content = Some p ->
  constraint_spec cby cbh b p.
Proof.
  intros Hoc Hp. unfold constraint_spec.
  open_axis b; try discriminate Hoc;
    cbn -[Qplus Qminus Qmult Qdiv] in Hp; inj_all; finish.
Qed.

Theorem abs_height_auto_margins_equal cby cbh b content p t bo h :
  a_start b = Some t -> a_end b = Some bo -> a_size b = Some h -> a_ms b = None -> a_me b = None ->
  placed_of b (abs_height cby cbh b) content = Some p -> p_ms p == p_me p.
Proof.
  intros Hs He Hz Hms Hme Hp. open_axis b; try discriminate; inj_all.
  cbn -[Qplus Qminus Qmult Qdiv] in Hp; inj_all. reflexivity.
Qed.

Theorem abs_height_over_constrained cby cbh b content p :
  over_constrained b = true ->
  placed_of b (abs_height cby cbh b) content = Some p ->
  overconstrained_spec true cby cbh b p.
Proof.
  intros Hoc Hp. unfold overconstrained_spec.
  open_axis b; try discriminate Hoc; cbn -[Qplus Qminus Qmult Qdiv] in Hp; inj_all; finish.
Qed.

Theorem abs_height_static cby cbh b content p :
  a_start b = None -> a_end b = None ->
  placed_of b (abs_height cby cbh b) content = Some p -> p_x p == a_pos b.
Proof.
  intros Hs He Hp. open_axis b; try discriminate; cbn -[Qplus Qminus Qmult Qdiv] in Hp; inj_all; finish.
Qed.

(* ---- min-height / max-height (CSS 2.1 10.7): absolute_height is wrapped by handle_min_max_height *)
Lemma abs_height_frame cby cbh b v :
  set_margins (set_size (fst (abs_height cby cbh b)) v) (a_ms b) (a_me b) = set_size b v.
Proof. open_axis b; cbn -[Qplus Qminus Qmult Qdiv]; reflexivity. Qed.

Lemma abs_height_frame2 cby cbh b u v :
  set_margins (set_size (fst (abs_height cby cbh (set_size b u))) v) (a_ms b) (a_me b) = set_size b v.
Proof. open_axis b; cbn -[Qplus Qminus Qmult Qdiv]; reflexivity. Qed.

Lemma abs_height_keeps_specified_height cby cbh b v :
  a_size (fst (abs_height cby cbh (set_size b v))) = Some v.
Proof. open_axis b; cbn -[Qplus Qminus Qmult Qdiv]; reflexivity. Qed.

(* while the height is auto after the rules (top or bottom auto), the wrapper does nothing; otherwise re-entering
   absolute_height is one run of the rules with the clamp value as the specified height *)
Theorem abs_height_min_max_reentry cby cbh minh maxh b :
  let f := abs_height cby cbh in
  match a_size (fst (f b)) with
  | None => handle_min_max_h f minh maxh b = f b
  | Some h1 =>
      handle_min_max_h f minh maxh b =
        (let over := match maxh with Some m => gtb h1 m | None => false end in
         let h2 := if over then num0 maxh else h1 in
         if gtb minh h2 then f (set_size b minh)
         else if over then f (set_size b (num0 maxh)) else f b)
  end.
Proof.
  cbv zeta. unfold handle_min_max_h.
  destruct (a_size (fst (abs_height cby cbh b))) as [h1|] eqn:Hsz; [|reflexivity].
  destruct (match maxh with Some m => gtb h1 m | None => false end) eqn:Eover.
  - rewrite abs_height_frame. rewrite abs_height_keeps_specified_height.
    destruct (gtb minh (num0 maxh)) eqn:Emin.
    + rewrite abs_height_frame2. reflexivity.
    + reflexivity.
  - rewrite Hsz. destruct (gtb minh h1) eqn:Emin.
    + rewrite abs_height_frame. reflexivity.
    + reflexivity.
Qed.

(* consequence: with a specified height h the decorated function solves top, bottom and the margins for the
   clamped height: the constraint of 10.6.4 holds for the used (clamped) height *)
Corollary abs_height_min_max_constraint cby cbh minh maxh b h content p :
  a_size b = Some h ->
  over_constrained b = false ->
  placed_of b (handle_min_max_h (abs_height cby cbh) minh maxh b) content = Some p ->
  constraint_spec cby cbh (set_size b (clamped_width h minh maxh)) p.
Proof.
  intros Hh Hoc Hp.
  pose proof (abs_height_min_max_reentry cby cbh minh maxh b) as Hre. cbv zeta in Hre.
  assert (Hsz : a_size (fst (abs_height cby cbh b)) = Some h).
  { destruct b as [s e z ms me pad pos]. cbn in Hh. subst z.
    exact (abs_height_keeps_specified_height cby cbh (mk_axis s e None ms me pad pos) h). }
  rewrite Hsz in Hre. rewrite Hre in Hp. clear Hre.
  assert (Hoc' : forall v, over_constrained (set_size b v) = false).
  { intro v. destruct b as [s e z ms me pad pos]. cbn in Hh. subst z. exact Hoc. }
  assert (Hpos : forall v, a_pos (set_size b v) = a_pos b) by (intro v; destruct b; reflexivity).
  unfold clamped_width. cbv zeta in *.
  destruct maxh as [m|]; cbn [num0] in *.
  - destruct (gtb h m).
    + destruct (gtb minh m).
      * apply (abs_height_constraint cby cbh (set_size b minh) content p (Hoc' minh)).
        unfold placed_of in *. rewrite Hpos. exact Hp.
      * apply (abs_height_constraint cby cbh (set_size b m) content p (Hoc' m)).
        unfold placed_of in *. rewrite Hpos. exact Hp.
    + destruct (gtb minh h).
      * apply (abs_height_constraint cby cbh (set_size b minh) content p (Hoc' minh)).
        unfold placed_of in *. rewrite Hpos. exact Hp.
      * replace (set_size b h) with b by (destruct b as [s e z ms me pad pos]; cbn in Hh; subst z; reflexivity).
        apply (abs_height_constraint cby cbh b content p Hoc). exact Hp.
  - destruct (gtb minh h).
    + apply (abs_height_constraint cby cbh (set_size b minh) content p (Hoc' minh)).
      unfold placed_of in *. rewrite Hpos. exact Hp.
    + replace (set_size b h) with b by (destruct b as [s e z ms me pad pos]; cbn in Hh; subst z; reflexivity).
      apply (abs_height_constraint cby cbh b content p Hoc). exact Hp.
Qed.

Example abs_height_example_max_height :
  exists p, placed_of (mk_axis None (Some 0) (Some 100) (Some 0) (Some 0) 0 0)
              (handle_min_max_h (abs_height 0 200) 0 (Some 50) (mk_axis None (Some 0) (Some 100) (Some 0) (Some 0) 0 0)) 0 = Some p
            /\ p_size p == 50 /\ p_x p == 150.
Proof. eexists. split; [reflexivity|]. split; vm_compute; reflexivity. Qed.

(* the height is only computed when top and bottom are specified; it then fills the rest *)
Theorem abs_height_auto_height cby cbh b :
  a_size b = None ->
  match a_start b, a_end b, a_size (fst (abs_height cby cbh b)) with
  | Some t, Some bo, Some H => t + num0 (a_ms b) + a_pad b + H + num0 (a_me b) + bo == cbh
  | Some _, Some _, None => False
  | _, _, Some _ => False
  | _, _, None => True
  end.
Proof.
  intro Hz. open_axis b; try discriminate; cbn -[Qplus Qminus Qmult Qdiv Qeq]; try exact I; lra.
Qed.

(* --------------------------------------------------------------------------------------------- replaced *)

Definition placed_replaced (b' : axis) : option placed :=
  match a_ms b', a_me b', a_size b' with
  | Some MS, Some ME, Some SZ => Some (mk_placed (a_pos b') MS ME SZ)
  | _, _, _ => None
  end.

Lemma abs_replaced_total hz ltr cb0 cbs b w :
  a_size b = Some w ->
  exists b' p l r, abs_replaced_axis hz ltr cb0 cbs b = Some b' /\ placed_replaced b' = Some p /\
                   a_start b' = Some l /\ a_end b' = Some r.
Proof.
  intro Hz. open_axis b; try discriminate; destruct hz, ltr;
    cbn -[Qplus Qminus Qmult Qdiv Qle_bool]; qle_cases; do 4 eexists; repeat split; reflexivity.
Qed.

(* the literal equation of 10.3.8 / 10.6.5 on the used values the code stores, for ALL inputs *)
Theorem abs_replaced_equation hz ltr cb0 cbs b b' :
  abs_replaced_axis hz ltr cb0 cbs b = Some b' ->
  exists l r MS ME SZ, a_start b' = Some l /\ a_end b' = Some r /\ a_ms b' = Some MS /\ a_me b' = Some ME /\
    a_size b' = Some SZ /\ a_size b = Some SZ /\
    l + MS + a_pad b + SZ + ME + r == cbs /\ a_pos b' == cb0 + l.
Proof.
  intro H. open_axis b; try discriminate; destruct hz, ltr;
    cbn -[Qplus Qminus Qmult Qdiv Qle_bool] in H; qle_cases; inj_all;
    do 5 eexists; cbn -[Qplus Qminus Qmult Qdiv Qle Qeq];
    repeat (split; [reflexivity|]); halves; split; lra.
Qed.

Theorem abs_replaced_constraint hz ltr cb0 cbs b b' p :
  over_constrained b = false ->
  abs_replaced_axis hz ltr cb0 cbs b = Some b' -> placed_replaced b' = Some p ->
  constraint_spec cb0 cbs b p.
Proof.
  intros Hoc H Hp. unfold constraint_spec.
  open_axis b; try discriminate; destruct hz, ltr;
    cbn -[Qplus Qminus Qmult Qdiv Qle_bool] in H; qle_cases; inj_all;
    cbn -[Qplus Qminus Qmult Qdiv] in Hp; inj_all; finish.
Qed.

Theorem abs_replaced_auto_margins_equal hz ltr cb0 cbs b b' p l r w :
  a_start b = Some l -> a_end b = Some r -> a_size b = Some w -> a_ms b = None -> a_me b = None ->
  abs_replaced_axis hz ltr cb0 cbs b = Some b' -> placed_replaced b' = Some p ->
  (hz = false \/ l + a_pad b + w + r <= cbs -> p_ms p == p_me p) /\
  (hz = true -> ~ l + a_pad b + w + r <= cbs -> if ltr then p_ms p == 0 else p_me p == 0).
Proof.
  intros Hs He Hz Hms Hme H Hp. open_axis b; try discriminate; inj_all. destruct hz, ltr;
    cbn -[Qplus Qminus Qmult Qdiv Qle_bool] in H; qle_cases; inj_all;
    cbn -[Qplus Qminus Qmult Qdiv] in Hp; inj_all; cbn -[Qplus Qminus Qmult Qdiv Qle Qeq];
    (split; [intros [Hd|Hfit]; try discriminate; try reflexivity; try (exfalso; lra)
            | intros Hd Hnofit; try discriminate; try reflexivity; try (exfalso; apply Hnofit; lra)]).
Qed.

Theorem abs_replaced_over_constrained hz ltr cb0 cbs b b' p :
  over_constrained b = true -> (hz = false -> ltr = true) ->
  abs_replaced_axis hz ltr cb0 cbs b = Some b' -> placed_replaced b' = Some p ->
  overconstrained_spec ltr cb0 cbs b p.
Proof.
  intros Hoc Hv H Hp. unfold overconstrained_spec.
  open_axis b; try discriminate; destruct hz, ltr; try (specialize (Hv eq_refl); discriminate Hv);
    cbn -[Qplus Qminus Qmult Qdiv Qle_bool] in H; inj_all;
    cbn -[Qplus Qminus Qmult Qdiv] in Hp; inj_all; finish.
Qed.

Theorem abs_replaced_static hz ltr cb0 cbs b b' p :
  a_start b = None -> a_end b = None -> ltr = true ->
  abs_replaced_axis hz ltr cb0 cbs b = Some b' -> placed_replaced b' = Some p -> p_x p == a_pos b.
Proof.
  intros Hs He Hl H Hp. subst ltr. open_axis b; try discriminate; destruct hz;
    cbn -[Qplus Qminus Qmult Qdiv Qle_bool] in H; inj_all;
    cbn -[Qplus Qminus Qmult Qdiv] in Hp; inj_all; finish.
Qed.

(* ---- the boolean renditions used by the judges are sound for the Prop specifications *)
Lemma oq_honoured_sound o v : oq_honoured o v = true -> forall x, o = Some x -> v == x.
Proof.
  intros H x Hx. subst o. simpl in H. apply Qeq_bool_iff in H. exact H.
Qed.

Lemma constraint_spec_b_sound cb0 cbs b p : constraint_spec_b cb0 cbs b p = true -> constraint_spec cb0 cbs b p.
Proof.
  unfold constraint_spec_b, constraint_spec. intro H.
  rewrite !andb_true_iff in H. destruct H as [[[[[HA HB] HC] HD] HE] HF].
  split; [|split; [|split; [|split; [|split]]]]; try (apply oq_honoured_sound; assumption).
  intro Ha; split; intro Hn.
  - rewrite Ha, Hn in HF. unfold impl in HF. cbn [negb orb is_auto] in HF. rewrite andb_true_iff in HF. destruct HF as [H1 _].
    apply Qeq_bool_iff in H1. exact H1.
  - rewrite Ha, Hn in HF. unfold impl in HF. cbn [negb orb is_auto] in HF. rewrite andb_true_iff in HF. destruct HF as [_ H1].
    apply Qeq_bool_iff in H1. exact H1.
Qed.

(* ---- non-vacuity: concrete runs *)
Example abs_width_example_centred :
  placed_of (mk_axis (Some 10) (Some 20) (Some 100) None None 6 3)
            (abs_width true (fun a => a) 50 200 (mk_axis (Some 10) (Some 20) (Some 100) None None 6 3)) 0
  = Some (mk_placed (3 + (10 + (50 - 3) - 0)) ((200 - (20 + 10 + 100 + 6)) / 2) ((200 - (20 + 10 + 100 + 6)) / 2) 100).
Proof. reflexivity. Qed.

Example abs_width_example_single_auto_margin :
  exists p, placed_of (mk_axis (Some 0) (Some 0) (Some 100) None (Some 20) 0 0)
                      (abs_width true (fun a => a) 0 200 (mk_axis (Some 0) (Some 0) (Some 100) None (Some 20) 0 0)) 0 = Some p
            /\ p_ms p == 80 /\ end_used 0 200 0 p == 0.
Proof. eexists. split; [reflexivity|]. split; vm_compute; reflexivity. Qed.

Example abs_width_example_minmax :
  exists r, handle_min_max (abs_width true (fun a => a) 0 200) 0 (Some 50)
              (mk_axis (Some 0) (Some 0) None None None 0 0) = Some r /\
            a_size (fst r) = Some 50 /\ a_ms (fst r) = Some ((200 - (0 + 0 + 50 + 0)) / 2).
Proof. eexists. split; [reflexivity|]. split; reflexivity. Qed.

Example abs_replaced_example_rtl_over :
  exists b', abs_replaced_axis true false 0 200 (mk_axis (Some 10) (Some 20) (Some 100) (Some 5) (Some 7) 0 0) = Some b'
             /\ a_start b' = Some (200 - (100 + 0 + 5 + 7 + 20)).
Proof. eexists. split; reflexivity. Qed.
