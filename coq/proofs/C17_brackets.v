(* C17 - brackets: the opacity group, the transform and the overflow clip of a context enclose exactly the
   paint list of the context; the clip does not cover the box's own background, border and outline. *)
From Coq Require Import ZArith List Bool Lia Permutation.
Require Import WV.model.C17Stacking WV.model.C17Spec.
Require Import WV.proofs.C17_sort WV.proofs.C17_dispatch WV.proofs.C17_partition WV.proofs.C17_collect.
Import ListNotations.
Open Scope Z_scope.

Lemma pnode_ind' (P : pnode -> Prop) :
  (forall i kids, Forall P kids -> P (PB i kids)) ->
  (forall i kids neg zero pos_ bl fl bc z,
      Forall P kids -> Forall P neg -> Forall P zero -> Forall P pos_ -> Forall P bl -> Forall P fl ->
      Forall P bc -> P (PC i kids neg zero pos_ bl fl bc z)) ->
  forall n, P n.
Proof.
  intros HB HC. fix IH 1.
  assert (L : forall l, Forall P l).
  { induction l as [|x r IHr]; constructor; [apply IH|exact IHr]. }
  intros [i kids|i kids neg zero pos_ bl fl bc z]; [apply HB|apply HC]; apply L.
Qed.

(* the paint list of a context, decomposed *)
Lemma paint_ctx_decomp c :
  match c with PC _ _ _ _ _ _ _ _ _ => True | PB _ _ => False end ->
  paint_ctx c =
  EOpen (pid c) BStack :: ctx_pre c ++
  match tm (pinfo c) with
  | TSingular => [EClose (pid c) BStack]
  | _ => group_open c ++ transform_set c ++ ctx_inner c ++ group_close c ++ [EClose (pid c) BStack]
  end.
Proof.
  destruct c as [|i kids neg zero pos_ bl fl bc z]; [intros []|intros _].
  unfold paint_ctx, ctx_pre, group_open, group_close, transform_set, ctx_inner, ctx_own_bg, ctx_clip, ctx_outlines,
    ctx_body, pid. simpl pinfo. simpl pkids. simpl paint.
  destruct (rcl i), (abspos i && clp i), (tm i), (opa i), (point2_class (knd i)),
    (ovf i && negb (is_page (knd i))); simpl; rewrite <- ?app_assoc; simpl; rewrite <- ?app_assoc; reflexivity.
Qed.

(* ------------------------------------------------------------------------------------------ balance *)

Lemma bal_app st l1 l2 :
  bal st (l1 ++ l2) = match bal st l1 with Some st' => bal st' l2 | None => None end.
Proof.
  revert st. induction l1 as [|e r IH]; intros st; simpl; [reflexivity|].
  destruct e; try apply IH.
  destruct st as [|[j c] st']; [reflexivity|]. destruct ((id =? j) && bracket_eqb b c); [apply IH|reflexivity].
Qed.

Lemma balanced_nil : balanced [].
Proof. intros st. reflexivity. Qed.
Lemma balanced_app l1 l2 : balanced l1 -> balanced l2 -> balanced (l1 ++ l2).
Proof. intros H1 H2 st. rewrite bal_app, H1. apply H2. Qed.
Lemma balanced_flat_map {A} (f : A -> list event) l : Forall (fun x => balanced (f x)) l -> balanced (flat_map f l).
Proof. induction 1; simpl; [apply balanced_nil|now apply balanced_app]. Qed.
Lemma balanced_paint_ev i l : balanced [EPaint i l].
Proof. intros st. reflexivity. Qed.
Lemma balanced_set i g : balanced [ESet i g].
Proof. intros st. reflexivity. Qed.
Lemma balanced_assert i : balanced [EAssert i].
Proof. intros st. reflexivity. Qed.
Lemma balanced_cons_paint i l r : balanced r -> balanced (EPaint i l :: r).
Proof. intros H st. simpl. apply H. Qed.
Lemma balanced_wrap i b l : balanced l -> balanced (EOpen i b :: l ++ [EClose i b]).
Proof.
  intros H st. simpl. rewrite bal_app, H. simpl. rewrite Z.eqb_refl. destruct b; reflexivity.
Qed.
Lemma balanced_own_border i : balanced (own_border i).
Proof. unfold own_border. destruct (is_cell (knd i) && col i); [apply balanced_nil|apply balanced_paint_ev]. Qed.
Lemma balanced_if (c : bool) l : balanced l -> balanced (if c then l else []).
Proof. destruct c; [auto|intros; apply balanced_nil]. Qed.

Lemma Forall_sub {A} (P : A -> Prop) l l' : (forall x, In x l' -> In x l) -> Forall P l -> Forall P l'.
Proof. intros H HF. rewrite Forall_forall in *. auto. Qed.

Lemma balanced_table_bgs c l : balanced (table_bgs c l).
Proof.
  unfold table_bgs. apply balanced_flat_map, Forall_forall. intros g _. destruct g; [|apply balanced_assert].
  apply balanced_cons_paint, balanced_flat_map, Forall_forall. intros r _. destruct r; [|apply balanced_assert].
  apply balanced_cons_paint, balanced_flat_map, Forall_forall. intros x _. destruct x; [|apply balanced_assert].
  destruct (negb c && hid i1); [apply balanced_nil|apply balanced_paint_ev].
Qed.
Lemma balanced_table_borders l : balanced (table_borders l).
Proof.
  unfold table_borders. apply balanced_flat_map, Forall_forall. intros g _.
  apply balanced_flat_map, Forall_forall. intros r _. apply balanced_flat_map, Forall_forall. intros x _.
  destruct (hid (pinfo x)); [apply balanced_nil|apply balanced_paint_ev].
Qed.

Theorem paint_balanced n : forall m, balanced (paint m n).
Proof.
  induction n as [i kids IHk|i kids neg zero pos_ bl fl bc z IHk IHn IHz IHp IHb IHf IHc] using pnode_ind'; intros m.
  - destruct m; simpl.
    + apply balanced_assert.
    + do 2 apply balanced_cons_paint.
      destruct (is_inline (knd i) || is_line (knd i)).
      * apply balanced_flat_map. revert IHk. apply Forall_impl. auto.
      * destruct (is_inline_replaced (knd i)); [apply balanced_paint_ev|].
        destruct (is_text (knd i)); [apply balanced_paint_ev|apply balanced_assert].
    + destruct (is_table (knd i)).
      * apply balanced_cons_paint, balanced_app; [apply balanced_table_bgs|].
        destruct (col i); [apply balanced_paint_ev|apply balanced_cons_paint, balanced_table_borders].
      * do 2 apply balanced_cons_paint. apply balanced_nil.
    + destruct (is_replaced (knd i)); [apply balanced_paint_ev|].
      destruct (last_is_line kids); [|apply balanced_nil].
      apply balanced_flat_map. revert IHk. apply Forall_impl. auto.
    + apply balanced_cons_paint, balanced_flat_map. revert IHk. apply Forall_impl. auto.
  - assert (FM : forall m l, Forall (fun n => forall m, balanced (paint m n)) l -> balanced (flat_map (paint m) l)).
    { intros m' l H. apply balanced_flat_map. revert H. apply Forall_impl. auto. }
    assert (C : balanced (paint MCtx (PC i kids neg zero pos_ bl fl bc z))).
    { change (paint MCtx (PC i kids neg zero pos_ bl fl bc z)) with (paint_ctx (PC i kids neg zero pos_ bl fl bc z)).
      rewrite paint_ctx_decomp by exact I.
      set (c := PC i kids neg zero pos_ bl fl bc z).
      assert (Hin : balanced (ctx_inner c)).
      { unfold ctx_inner. apply balanced_app; [unfold ctx_own_bg; apply balanced_if; apply balanced_cons_paint; apply balanced_own_border|].
        change (EOpen (pid c) BInner :: ctx_clip c ++ ctx_body c ++ EClose (pid c) BInner :: ctx_outlines c)
          with ((EOpen (pid c) BInner :: (ctx_clip c ++ ctx_body c) ++ [EClose (pid c) BInner]) ++ ctx_outlines c) ||
        replace (EOpen (pid c) BInner :: ctx_clip c ++ ctx_body c ++ EClose (pid c) BInner :: ctx_outlines c)
          with ((EOpen (pid c) BInner :: (ctx_clip c ++ ctx_body c) ++ [EClose (pid c) BInner]) ++ ctx_outlines c)
          by (simpl; rewrite <- !app_assoc; reflexivity).
        apply balanced_app.
        - apply balanced_wrap, balanced_app; [unfold ctx_clip; apply balanced_if, balanced_set|].
          unfold ctx_body, c.
          repeat apply balanced_app; auto.
          + apply balanced_if. do 2 apply balanced_cons_paint. auto.
          + destruct (is_replaced (knd i)); [apply balanced_paint_ev|].
            destruct (last_is_line kids); [auto|apply balanced_nil].
        - unfold ctx_outlines. apply balanced_cons_paint. simpl pkids. auto. }
      destruct (tm (pinfo c)) eqn:Htm.
      + replace (EOpen (pid c) BStack :: ctx_pre c ++ group_open c ++ transform_set c ++ ctx_inner c ++ group_close c ++ [EClose (pid c) BStack])
          with (EOpen (pid c) BStack :: (ctx_pre c ++ (group_open c ++ (transform_set c ++ ctx_inner c) ++ group_close c)) ++ [EClose (pid c) BStack])
          by (rewrite <- !app_assoc; reflexivity).
        apply balanced_wrap, balanced_app.
        * unfold ctx_pre. apply balanced_app; apply balanced_if, balanced_set.
        * unfold group_open, group_close. destruct (opa (pinfo c)).
          -- apply (balanced_wrap (pid c) BGroup). apply balanced_app; [|exact Hin].
             unfold transform_set. rewrite Htm. apply balanced_nil.
          -- simpl. rewrite app_nil_r. apply balanced_app; [|exact Hin]. unfold transform_set. rewrite Htm. apply balanced_nil.
      + apply (balanced_wrap (pid c) BStack). unfold ctx_pre. apply balanced_app; apply balanced_if, balanced_set.
      + replace (EOpen (pid c) BStack :: ctx_pre c ++ group_open c ++ transform_set c ++ ctx_inner c ++ group_close c ++ [EClose (pid c) BStack])
          with (EOpen (pid c) BStack :: (ctx_pre c ++ (group_open c ++ (transform_set c ++ ctx_inner c) ++ group_close c)) ++ [EClose (pid c) BStack])
          by (rewrite <- !app_assoc; reflexivity).
        apply balanced_wrap, balanced_app.
        * unfold ctx_pre. apply balanced_app; apply balanced_if, balanced_set.
        * unfold group_open, group_close. destruct (opa (pinfo c)).
          -- apply (balanced_wrap (pid c) BGroup). apply balanced_app; [|exact Hin].
             unfold transform_set. rewrite Htm. apply balanced_set.
          -- simpl. rewrite app_nil_r. apply balanced_app; [|exact Hin]. unfold transform_set. rewrite Htm. apply balanced_set. }
    destruct m.
    + exact C.
    + change (paint MInline (PC i kids neg zero pos_ bl fl bc z))
        with (if stacking_class (knd i) then paint MCtx (PC i kids neg zero pos_ bl fl bc z) else [EAssert (bid i)]).
      destruct (stacking_class (knd i)); [exact C|apply balanced_assert].
    + apply balanced_assert.
    + apply balanced_assert.
    + apply balanced_nil.
Qed.

(* ---------------------------------------------------------------- which boxes a paint list talks about *)

Lemma in_flat_map_incl {A B} (f : A -> list B) (g : A -> list B) l :
  Forall (fun x => incl (f x) (g x)) l -> incl (flat_map f l) (flat_map g l).
Proof.
  intros H y Hy. apply in_flat_map in Hy. destruct Hy as [x [Hx Hy]].
  rewrite Forall_forall in H. apply in_flat_map. exists x. split; [exact Hx|]. now apply (H x Hx).
Qed.

Definition ev_ids (l : list event) : list Z := map event_id l.

Lemma ev_ids_app l1 l2 : ev_ids (l1 ++ l2) = ev_ids l1 ++ ev_ids l2.
Proof. apply map_app. Qed.
Lemma ev_ids_flat_map {A} (f : A -> list event) l : ev_ids (flat_map f l) = flat_map (fun x => ev_ids (f x)) l.
Proof. unfold ev_ids. induction l; simpl; [reflexivity|]. now rewrite map_app, IHl. Qed.

Lemma incl_cons_self {A} (x : A) l l' : incl l l' -> incl (x :: l) (x :: l').
Proof. intros H y [<-|Hy]; [now left|right; auto]. Qed.

Lemma table_bgs_ids c l : incl (ev_ids (table_bgs c l)) (flat_map mentioned l).
Proof.
  unfold table_bgs. rewrite ev_ids_flat_map. apply in_flat_map_incl, Forall_forall. intros g _.
  destruct g as [gi rows|gi]; [|simpl; intros y [<-|[]]; now left].
  simpl. apply incl_cons_self. rewrite ev_ids_flat_map. apply in_flat_map_incl, Forall_forall. intros r _.
  destruct r as [ri cells|ri]; [|simpl; intros y [<-|[]]; now left].
  simpl. apply incl_cons_self. rewrite ev_ids_flat_map. apply in_flat_map_incl, Forall_forall. intros x _.
  destruct x as [ci ?|ci]; [|simpl; intros y [<-|[]]; now left].
  destruct (negb c && hid ci); simpl; [intros y []|intros y [<-|[]]; now left].
Qed.

Lemma mentioned_head n : In (pid n) (mentioned n).
Proof. destruct n; simpl; now left. Qed.
Lemma mentioned_kids n : incl (flat_map mentioned (pkids n)) (mentioned n).
Proof. destruct n; simpl; intros y Hy; right; [exact Hy|apply in_or_app; now left]. Qed.

Lemma table_borders_ids l : incl (ev_ids (table_borders l)) (flat_map mentioned l).
Proof.
  unfold table_borders. rewrite ev_ids_flat_map. apply in_flat_map_incl, Forall_forall. intros g _.
  intros y Hy. apply mentioned_kids. revert y Hy.
  rewrite ev_ids_flat_map. apply in_flat_map_incl, Forall_forall. intros r _.
  intros y Hy. apply mentioned_kids. revert y Hy.
  rewrite ev_ids_flat_map. apply in_flat_map_incl, Forall_forall. intros x _.
  destruct (hid (pinfo x)); simpl; [intros y []|intros y [<-|[]]; apply mentioned_head].
Qed.

Lemma paint_list_mentions m l :
  Forall (fun n => forall m, incl (ev_ids (paint m n)) (mentioned n)) l ->
  incl (ev_ids (flat_map (paint m) l)) (flat_map mentioned l).
Proof.
  intros H. rewrite ev_ids_flat_map. apply in_flat_map_incl. revert H. apply Forall_impl. auto.
Qed.

Ltac pick :=
  first [ apply incl_refl
        | apply incl_appl; apply incl_refl
        | apply incl_appr; pick ].

Ltac inc :=
  repeat match goal with
  | |- incl (ev_ids (_ ++ _)) _ => rewrite ev_ids_app; apply incl_app
  | |- incl (ev_ids (own_border _)) _ => unfold own_border
  | |- incl (ev_ids (if ?c then _ else _)) _ => destruct c
  | |- incl (ev_ids (?e :: ?l)) _ =>
      change (ev_ids (e :: l)) with (event_id e :: ev_ids l); apply incl_cons; [simpl; now left|]
  | |- incl (ev_ids []) _ => intros ? []
  | H : Forall _ ?l |- incl (ev_ids (flat_map (paint ?m) ?l)) (_ :: _) =>
      apply incl_tl; eapply incl_tran; [apply (paint_list_mentions m l H)|pick]
  end.

Theorem paint_mentions n : forall m, incl (ev_ids (paint m n)) (mentioned n).
Proof.
  induction n as [i kids IHk|i kids neg zero pos_ bl fl bc z IHk IHn IHz IHp IHb IHf IHc] using pnode_ind'; intros m.
  - destruct m; simpl paint; simpl mentioned; inc.
    + apply incl_tl. apply table_bgs_ids.
    + apply incl_tl. apply table_borders_ids.
  - assert (C : incl (ev_ids (paint MCtx (PC i kids neg zero pos_ bl fl bc z))) (mentioned (PC i kids neg zero pos_ bl fl bc z))).
    { simpl paint. simpl mentioned. destruct (tm i); inc. }
    destruct m.
    + exact C.
    + change (paint MInline (PC i kids neg zero pos_ bl fl bc z))
        with (if stacking_class (knd i) then paint MCtx (PC i kids neg zero pos_ bl fl bc z) else [EAssert (bid i)]).
      destruct (stacking_class (knd i)); [exact C|]. simpl mentioned. inc.
    + simpl paint. simpl mentioned. inc.
    + simpl paint. simpl mentioned. inc.
    + simpl paint. intros ? [].
Qed.

(* a box of the context's own tree mentions nothing that its ancestors in that tree do not *)
Lemma tree_nodes_mentioned n : forall x, In x (tree_nodes n) -> incl (mentioned x) (mentioned n).
Proof.
  induction n as [i kids IHk|i kids neg zero pos_ bl fl bc z _ _ _ _ _ _ _] using pnode_ind'; intros x Hx.
  - simpl in Hx. destruct Hx as [<-|Hx]; [apply incl_refl|].
    destruct (is_parent (knd i)); [|destruct Hx].
    apply in_flat_map in Hx. destruct Hx as [k [Hk Hx]].
    rewrite Forall_forall in IHk. specialize (IHk k Hk x Hx).
    simpl. apply incl_tl. intros y Hy. apply in_flat_map. exists k. split; [exact Hk|now apply IHk].
  - destruct Hx.
Qed.

Lemma incl_flat_map_in {A B} (f : A -> list B) l x : In x l -> incl (f x) (flat_map f l).
Proof. intros Hx y Hy. apply in_flat_map. now exists x. Qed.

(* aliases add nothing: in a structure whose contexts are all good, what is mentioned is owned *)
Lemma mentioned_owned n : Forall good_ctx (all_ctxs n) -> incl (mentioned n) (owned n).
Proof.
  induction n as [i kids IHk|i kids neg zero pos_ bl fl bc z IHk IHn IHz IHp _ IHf _] using pnode_ind'; intros G.
  - simpl in *. apply incl_cons_self. apply in_flat_map_incl. rewrite Forall_forall in *.
    intros k Hk. apply (IHk k Hk). apply Forall_forall. intros c Hc. apply G. apply in_flat_map. now exists k.
  - simpl in G. inversion G as [|? ? G0 G']; subst. clear G.
    rewrite !Forall_app in G'. destruct G' as [Gk [Gn [Gz [Gp Gf]]]].
    assert (L : forall l, Forall (fun n => Forall good_ctx (all_ctxs n) -> incl (mentioned n) (owned n)) l ->
                Forall good_ctx (flat_map all_ctxs l) -> incl (flat_map mentioned l) (flat_map owned l)).
    { intros l IH Gl. apply in_flat_map_incl. rewrite Forall_forall in *. intros k Hk. apply (IH k Hk).
      apply Forall_forall. intros c Hc. apply Gl. apply in_flat_map. now exists k. }
    pose proof (L kids IHk Gk) as Lk. pose proof (L neg IHn Gn) as Ln. pose proof (L zero IHz Gz) as Lz.
    pose proof (L pos_ IHp Gp) as Lp. pose proof (L fl IHf Gf) as Lf.
    destruct G0 as [Gb Gc]. simpl in Gb, Gc. unfold ctx_tree in Gb, Gc. simpl in Gb, Gc.
    assert (Alias : forall x, In x bl \/ In x bc -> incl (mentioned x) (flat_map owned kids)).
    { intros x Hx.
      assert (Hx' : In x (if is_parent (knd i) then flat_map tree_nodes kids else [])).
      { destruct Hx as [Hx|Hx]; [rewrite Gb in Hx|rewrite Gc in Hx]; apply filter_In in Hx; tauto. }
      destruct (is_parent (knd i)); [|destruct Hx'].
      apply in_flat_map in Hx'. destruct Hx' as [k [Hk Hxk]].
      eapply incl_tran; [apply (tree_nodes_mentioned k x Hxk)|].
      eapply incl_tran; [|apply (incl_flat_map_in owned kids k Hk)].
      rewrite Forall_forall in IHk. apply (IHk k Hk).
      apply Forall_forall. intros c Hc. rewrite Forall_forall in Gk. apply Gk. apply in_flat_map. now exists k. }
    simpl. apply incl_cons_self.
    repeat apply incl_app.
    + apply incl_appl. exact Lk.
    + apply incl_appr, incl_appl. exact Ln.
    + apply incl_appr, incl_appr, incl_appl. exact Lz.
    + apply incl_appr, incl_appr, incl_appr, incl_appl. exact Lp.
    + apply incl_appl. intros y Hy. apply in_flat_map in Hy. destruct Hy as [x [Hx Hy]].
      apply (Alias x (or_introl Hx)). exact Hy.
    + apply incl_appr, incl_appr, incl_appr, incl_appr. exact Lf.
    + apply incl_appl. intros y Hy. apply in_flat_map in Hy. destruct Hy as [x [Hx Hy]].
      apply (Alias x (or_intror Hx)). exact Hy.
Qed.

Lemma perm_incl {A} (l l' : list A) : Permutation l l' -> incl l l'.
Proof. intros H x Hx. exact (Permutation_in _ H Hx). Qed.

(* everything the context of a box paints is a box of its subtree *)
Theorem paint_within_subtree b : incl (ev_ids (paint_ctx (from_box b))) (ids b).
Proof.
  eapply incl_tran; [apply paint_mentions|].
  eapply incl_tran; [apply mentioned_owned, aliases_are_tree_boxes|].
  apply perm_incl, dispatch_partitions_tree.
Qed.

Lemma from_box_is_ctx b : match from_box b with PC _ _ _ _ _ _ _ _ _ => True | PB _ _ => False end.
Proof. rewrite from_box_fd. exact I. Qed.

Lemma pinfo_from_box b : pinfo (from_box b) = binfo b.
Proof. rewrite from_box_fd. reflexivity. Qed.

Lemma incl_app_inv_r {A} (l1 l2 m : list A) : incl (l1 ++ l2) m -> incl l2 m.
Proof. intros H x Hx. apply H, in_or_app. now right. Qed.
Lemma incl_app_inv_l {A} (l1 l2 m : list A) : incl (l1 ++ l2) m -> incl l1 m.
Proof. intros H x Hx. apply H, in_or_app. now left. Qed.
Lemma incl_cons_inv' {A} (x : A) l m : incl (x :: l) m -> incl l m.
Proof. intros H y Hy. apply H. now right. Qed.

(* opacity_transform_apply_to_subtree *)
Theorem opacity_transform_enclose_subtree b :
  let c := from_box b in
  tm (binfo b) <> TSingular ->
  paint_ctx c =
    EOpen (bid (binfo b)) BStack :: ctx_pre c ++
    group_open c ++ transform_set c ++ ctx_inner c ++ group_close c ++ [EClose (bid (binfo b)) BStack] /\
  balanced (ctx_inner c) /\
  incl (ev_ids (ctx_inner c)) (ids b) /\
  Permutation (owned c) (ids b).
Proof.
  intros c Htm.
  assert (D := paint_ctx_decomp c (from_box_is_ctx b)).
  assert (Hi : pinfo c = binfo b) by apply pinfo_from_box.
  assert (Hid : pid c = bid (binfo b)) by (unfold pid; now rewrite Hi).
  rewrite Hi, Hid in D.
  assert (D' : paint_ctx c = EOpen (bid (binfo b)) BStack :: ctx_pre c ++
            group_open c ++ transform_set c ++ ctx_inner c ++ group_close c ++ [EClose (bid (binfo b)) BStack]).
  { rewrite D. destruct (tm (binfo b)); [reflexivity|congruence|reflexivity]. }
  split; [exact D'|]. split; [|split; [|apply dispatch_partitions_tree]].
  - (* balance of the inner part: from the balance of the whole *)
    pose proof (paint_balanced c MCtx) as B. change (paint MCtx c) with (paint_ctx c) in B.
    (* direct argument: ctx_inner is built from balanced pieces *)
    clear D D'. unfold ctx_inner.
    apply balanced_app; [unfold ctx_own_bg; apply balanced_if; apply balanced_cons_paint; apply balanced_own_border|].
    replace (EOpen (pid c) BInner :: ctx_clip c ++ ctx_body c ++ EClose (pid c) BInner :: ctx_outlines c)
      with ((EOpen (pid c) BInner :: (ctx_clip c ++ ctx_body c) ++ [EClose (pid c) BInner]) ++ ctx_outlines c)
      by (simpl; rewrite <- !app_assoc; reflexivity).
    apply balanced_app.
    + apply balanced_wrap, balanced_app; [unfold ctx_clip; apply balanced_if, balanced_set|].
      destruct c as [|i kids neg zero pos_ bl fl bc z]; [apply balanced_nil|]. unfold ctx_body.
      assert (FM : forall m l, balanced (flat_map (paint m) l)).
      { intros m l. apply balanced_flat_map, Forall_forall. intros x _. apply paint_balanced. }
      repeat apply balanced_app; auto.
      * apply balanced_if. do 2 apply balanced_cons_paint. auto.
      * destruct (is_replaced (knd i)); [apply balanced_paint_ev|].
        destruct (last_is_line kids); [auto|apply balanced_nil].
    + unfold ctx_outlines. apply balanced_cons_paint.
      apply balanced_flat_map, Forall_forall. intros x _. apply paint_balanced.
  - pose proof (paint_within_subtree b) as W. fold c in W. rewrite D' in W.
    change (ev_ids (EOpen (bid (binfo b)) BStack :: ?l)) with (bid (binfo b) :: ev_ids l) in W.
    apply incl_cons_inv' in W. rewrite !ev_ids_app in W.
    apply incl_app_inv_r, incl_app_inv_r, incl_app_inv_r, incl_app_inv_l in W. exact W.
Qed.

(* ------------------------------------------------------------------ the overflow clip of a context *)

Lemma children_owned b :
  Permutation (flat_map owned (nk_of b) ++ flat_map owned (s_cc (d_of b)) ++ flat_map owned (s_fl (d_of b)))
              (flat_map ids (bkids b)).
Proof.
  unfold nk_of, d_of, fd_children. destruct (is_parent (knd (binfo b))).
  - apply fdl_owned.
  - simpl. rewrite !app_nil_r. induction (bkids b) as [|k r IHr]; simpl; [reflexivity|].
    rewrite owned_embed. now apply Permutation_app_head.
Qed.

Lemma all_ctxs_embed k : all_ctxs (embed k) = [].
Proof.
  induction k as [j ks IHk] using box_ind'. simpl. induction IHk as [|x r Hx _ IHr]; simpl; [reflexivity|].
  now rewrite Hx, IHr.
Qed.

Lemma children_good b :
  s_bl (d_of b) = filter blp (ctx_tree (PB (binfo b) (nk_of b))) /\
  s_bc (d_of b) = filter bcp (ctx_tree (PB (binfo b) (nk_of b))) /\
  Forall good_ctx (flat_map all_ctxs (nk_of b) ++ flat_map all_ctxs (s_cc (d_of b)) ++
                   flat_map all_ctxs (s_fl (d_of b))).
Proof.
  unfold nk_of, d_of, fd_children, ctx_tree. simpl pinfo. simpl pkids.
  destruct (is_parent (knd (binfo b))).
  - induction (bkids b) as [|k r [IH1 [IH2 IH3]]]; simpl; [repeat split; constructor|].
    destruct (fd_aliases k) as [Hk1 [Hk2 Hk3]].
    rewrite !flat_map_opt_cons, !flat_map_app', !filter_app', Hk1, Hk2, IH1, IH2.
    repeat split. rewrite !Forall_app in *. tauto.
  - simpl. repeat split. rewrite !app_nil_r.
    induction (bkids b) as [|k r IHr]; simpl; [constructor|]. now rewrite all_ctxs_embed.
Qed.

Lemma forall_good_member l x : Forall good_ctx (flat_map all_ctxs l) -> In x l -> Forall good_ctx (all_ctxs x).
Proof.
  intros G Hx. apply Forall_forall. intros c Hc. rewrite Forall_forall in G. apply G.
  apply in_flat_map. now exists x.
Qed.

Lemma list_mentioned_owned l : Forall good_ctx (flat_map all_ctxs l) -> incl (flat_map mentioned l) (flat_map owned l).
Proof.
  intros G. apply in_flat_map_incl, Forall_forall. intros x Hx.
  apply mentioned_owned. now apply (forall_good_member l).
Qed.

(* what the children of a context and its lists mention are boxes below the context's box *)
Lemma children_mention b :
  let below := flat_map ids (bkids b) in
  incl (flat_map mentioned (nk_of b)) below /\ incl (flat_map mentioned (s_cc (d_of b))) below /\
  incl (flat_map mentioned (s_fl (d_of b))) below /\ incl (flat_map mentioned (s_bl (d_of b))) below /\
  incl (flat_map mentioned (s_bc (d_of b))) below.
Proof.
  intros below. destruct (children_good b) as [Hb [Hc G]]. rewrite !Forall_app in G. destruct G as [G1 [G2 G3]].
  pose proof (perm_incl _ _ (children_owned b)) as O. fold below in O.
  assert (K : incl (flat_map mentioned (nk_of b)) below).
  { eapply incl_tran; [apply list_mentioned_owned, G1|]. eapply incl_tran; [|exact O]. apply incl_appl, incl_refl. }
  assert (Alias : forall x, In x (ctx_tree (PB (binfo b) (nk_of b))) -> incl (mentioned x) below).
  { intros x Hx. unfold ctx_tree in Hx. simpl in Hx. destruct (is_parent (knd (binfo b))); [|destruct Hx].
    apply in_flat_map in Hx. destruct Hx as [k [Hk Hx]].
    eapply incl_tran; [apply (tree_nodes_mentioned k x Hx)|].
    eapply incl_tran; [|exact K]. now apply incl_flat_map_in. }
  repeat split.
  - exact K.
  - eapply incl_tran; [apply list_mentioned_owned, G2|]. eapply incl_tran; [|exact O]. apply incl_appr, incl_appl, incl_refl.
  - eapply incl_tran; [apply list_mentioned_owned, G3|]. eapply incl_tran; [|exact O]. apply incl_appr, incl_appr, incl_refl.
  - intros y Hy. apply in_flat_map in Hy. destruct Hy as [x [Hx Hy]]. rewrite Hb in Hx. apply filter_In in Hx.
    apply (Alias x); tauto.
  - intros y Hy. apply in_flat_map in Hy. destruct Hy as [x [Hx Hy]]. rewrite Hc in Hx. apply filter_In in Hx.
    apply (Alias x); tauto.
Qed.

Lemma flat_map_paint_mentions m l : incl (ev_ids (flat_map (paint m) l)) (flat_map mentioned l).
Proof. apply paint_list_mentions, Forall_forall. intros n _. apply paint_mentions. Qed.

Lemma incl_sort_filter (p : pnode -> bool) cs :
  incl (flat_map mentioned (sort_z ctx_z (filter p cs))) (flat_map mentioned cs).
Proof.
  intros y Hy. apply in_flat_map in Hy. destruct Hy as [x [Hx Hy]].
  apply sort_z_in, filter_In in Hx. apply in_flat_map. exists x. tauto.
Qed.
Lemma incl_filter_fm (p : pnode -> bool) cs : incl (flat_map mentioned (filter p cs)) (flat_map mentioned cs).
Proof.
  intros y Hy. apply in_flat_map in Hy. destruct Hy as [x [Hx Hy]].
  apply filter_In in Hx. apply in_flat_map. exists x. tauto.
Qed.

(* clip_encloses_descendants_only: the clip set for overflow != visible sits right after the inner q, lasts
   until the matching Q, and between the two only descendants of the box are painted (plus the content of the
   box itself when it is replaced, and the box's own inline boxes when it is an inline box); the box's own
   background and border come before the inner q, its outline after the Q. *)
Theorem clip_encloses_descendants b :
  let c := from_box b in
  let id := bid (binfo b) in
  ctx_inner c = ctx_own_bg c ++ EOpen id BInner :: ctx_clip c ++ ctx_body c ++ EClose id BInner :: ctx_outlines c /\
  (ovf (binfo b) && negb (is_page (knd (binfo b))) = true -> ctx_clip c = [ESet id GClip]) /\
  balanced (ctx_body c) /\
  (forall e, In e (ctx_body c) ->
     In (event_id e) (flat_map ids (bkids b)) \/ e = EPaint id LContent \/
     (is_inline (knd (binfo b)) = true /\ (e = EPaint id LBg \/ e = EPaint id LBorder))).
Proof.
  intros c id.
  assert (Hi : pinfo c = binfo b) by apply pinfo_from_box.
  assert (Hid : pid c = id) by (unfold pid, id; now rewrite Hi).
  split; [unfold ctx_inner; now rewrite Hid|].
  split; [intros H; unfold ctx_clip; now rewrite Hi, H, Hid|].
  assert (FM : forall m l, balanced (flat_map (paint m) l)).
  { intros m l. apply balanced_flat_map, Forall_forall. intros x _. apply paint_balanced. }
  unfold c. rewrite from_box_fd. cbv zeta.
  change (fst (fd_children b)) with (nk_of b). change (snd (fd_children b)) with (d_of b).
  destruct (children_mention b) as [Mk [Mc [Mf [Mb Mbc]]]].
  unfold mk_ctx, ctx_body. fold id.
  split.
  - repeat apply balanced_app; auto.
    + apply balanced_if. do 2 apply balanced_cons_paint. auto.
    + destruct (is_replaced (knd (binfo b))); [apply balanced_paint_ev|].
      destruct (last_is_line (nk_of b)); [auto|apply balanced_nil].
  - intros e He.
    assert (Below : forall l (cs : list pnode), incl (flat_map mentioned cs) (flat_map ids (bkids b)) ->
              incl (ev_ids l) (flat_map mentioned cs) -> In e l -> In (event_id e) (flat_map ids (bkids b))).
    { intros l cs H1 H2 Hl. apply H1, H2. unfold ev_ids. now apply in_map. }
    repeat (apply in_app_or in He; destruct He as [He|He]).
    + left. eapply (Below _ (s_cc (d_of b)) Mc); [|exact He].
      eapply incl_tran; [apply flat_map_paint_mentions|apply incl_sort_filter].
    + left. eapply (Below _ _ Mb); [|exact He]. apply flat_map_paint_mentions.
    + left. eapply (Below _ _ Mf); [|exact He]. apply flat_map_paint_mentions.
    + destruct (is_inline (knd (binfo b))) eqn:Hin; [|destruct He].
      destruct He as [<-|[<-|He]]; [right; right; auto|right; right; auto|].
      left. eapply (Below _ _ Mk); [|exact He]. apply flat_map_paint_mentions.
    + destruct (is_replaced (knd (binfo b))).
      * destruct He as [<-|[]]. right; left; reflexivity.
      * destruct (last_is_line (nk_of b)); [|destruct He].
        left. eapply (Below _ _ Mk); [|exact He]. apply flat_map_paint_mentions.
    + left. eapply (Below _ _ Mbc); [|exact He]. apply flat_map_paint_mentions.
    + left. eapply (Below _ (s_cc (d_of b)) Mc); [|exact He].
      eapply incl_tran; [apply flat_map_paint_mentions|apply incl_filter_fm].
    + left. eapply (Below _ (s_cc (d_of b)) Mc); [|exact He].
      eapply incl_tran; [apply flat_map_paint_mentions|apply incl_sort_filter].
Qed.

Lemma grid_context_own_background b :
  (knd (binfo b) = KGrid \/ knd (binfo b) = KInlineGrid) ->
  let c := from_box b in
  ctx_own_bg c = [EPaint (bid (binfo b)) LBg; EPaint (bid (binfo b)) LBorder] /\
  ctx_inner c = ctx_own_bg c ++ EOpen (bid (binfo b)) BInner :: ctx_clip c ++ ctx_body c ++
                EClose (bid (binfo b)) BInner :: ctx_outlines c.
Proof.
  intros K c.
  assert (Hi : pinfo c = binfo b) by apply pinfo_from_box.
  assert (Hid : pid c = bid (binfo b)) by (unfold pid; now rewrite Hi).
  split.
  - unfold ctx_own_bg, own_border. rewrite Hi, Hid. destruct K as [-> | ->]; reflexivity.
  - unfold ctx_inner. now rewrite Hid.
Qed.

Lemma context_own_background b :
  point2_class (knd (binfo b)) = true ->
  ctx_own_bg (from_box b) =
  EPaint (bid (binfo b)) LBg ::
  (if is_cell (knd (binfo b)) && col (binfo b) then [] else [EPaint (bid (binfo b)) LBorder]).
Proof.
  intros K. unfold ctx_own_bg, own_border, pid. rewrite pinfo_from_box, K. reflexivity.
Qed.
