(* C06 - evaluate_media_query of weasyprint/css/media_queries.py as REGENERATED from the source on every run
   returns the model's answer (model/C06Values.v, on which C06_media_selects rests) for every list of media types
   and every device type. *)
From Coq Require Import QArith List Bool String.
Require Import WV.base.Py WV.gen.GenMedia.
Require WV.model.C06Values.
Import ListNotations.
Open Scope string_scope.

(* `x in [strings]` of the interpreter is existsb *)
Lemma in_strings (A : Type) (err : string -> A) (neg : bool) (x : string) (l : list string) (k : val -> A) :
  (fix mem (l : list val) : A :=
     match l with
     | [] => k (VBool neg)
     | y :: l' => veq_k real_ops A err y (VStr x) (fun b => if b then k (VBool (negb neg)) else mem l')
     end) (map VStr l) = k (VBool (if existsb (String.eqb x) l then negb neg else neg)).
Proof.
  induction l as [|y l IH]; [reflexivity|]. cbn [map existsb veq_k].
  rewrite (String.eqb_sym x y). destruct (String.eqb y x); cbn [orb]; [reflexivity|apply IH].
Qed.

Lemma eval_in_strings (A : Type) (err : string -> A) rho neg e c x l (k : val -> A) :
  (forall k', eval real_ops A err rho e k' = k' (VStr x)) ->
  (forall k', eval real_ops A err rho c k' = k' (VList (map VStr l))) ->
  eval real_ops A err rho (EIn neg e c) k = k (VBool (if existsb (String.eqb x) l then negb neg else neg)).
Proof. intros He Hc. cbn [eval]. rewrite He, Hc. apply in_strings. Qed.

Lemma eval_or (A : Type) (err : string -> A) rho a b (k : val -> A) :
  eval real_ops A err rho (EOr a b) k =
  eval real_ops A err rho a (fun va => bool_k real_ops A err va (fun t => if t then k va else eval real_ops A err rho b k)).
Proof. reflexivity. Qed.

Theorem gen_evaluate_media_query (ql : list string) (dev : string) :
  run real_ops evaluate_media_query_body [("query_list", VList (map VStr ql)); ("device_media_type", VStr dev)]
    (fun _ r => r = Some (VBool (C06Values.evaluate_media_query ql dev))) (fun _ => False).
Proof.
  unfold run, evaluate_media_query_body, C06Values.evaluate_media_query.
  cbn [exec_block exec].
  rewrite eval_or.
  rewrite (eval_in_strings _ _ _ false _ _ "all" ql); [|reflexivity|reflexivity].
  cbn [negb bool_k].
  destruct (existsb (String.eqb "all") ql); cbn [orb]; [reflexivity|].
  rewrite (eval_in_strings _ _ _ false _ _ dev ql); [|reflexivity|reflexivity].
  destruct (existsb (String.eqb dev) ql); reflexivity.
Qed.
