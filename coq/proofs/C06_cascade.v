(* C06 - proofs about the cascade model (model/C06Cascade.v). *)
From Coq Require Import ZArith List Bool String Lia.
Require Import WV.model.C06Cascade.
Import ListNotations.
Open Scope Z_scope.

(* ================================================================ 1. the weight order *)
Lemma xz_compare_spec a b :
  match xz_compare a b with Lt => xlt a b | Eq => a = b | Gt => xlt b a end.
Proof.
  destruct a as [x|], b as [y|]; simpl; auto.
  destruct (Z.compare_spec x y); subst; auto.
Qed.

Lemma spec_compare_spec s t :
  match spec_compare s t with Lt => spec_lt s t | Eq => s = t | Gt => spec_lt t s end.
Proof.
  destruct s as [[a b] c], t as [[a' b'] c']; unfold spec_compare, spec_lt, lex.
  pose proof (xz_compare_spec a a') as Ha.
  destruct (xz_compare a a'); auto.
  subst a'.
  destruct (Z.compare_spec b b'); subst; auto 6.
  destruct (Z.compare_spec c c'); subst; auto 8.
Qed.

Lemma weight_compare_spec v w :
  match weight_compare v w with Lt => weight_lt v w | Eq => v = w | Gt => weight_lt w v end.
Proof.
  destruct v as [p s], w as [p' s']; unfold weight_compare, weight_lt, lex; simpl.
  destruct (Z.compare_spec p p'); subst; auto.
  pose proof (spec_compare_spec s s') as Hs.
  destruct (spec_compare s s'); subst; auto.
Qed.

Lemma xlt_irrefl a : ~ xlt a a.
Proof. destruct a; simpl; lia. Qed.
Lemma xlt_trans a b c : xlt a b -> xlt b c -> xlt a c.
Proof. destruct a, b, c; simpl; try lia; auto. Qed.

Lemma spec_lt_irrefl s : ~ spec_lt s s.
Proof.
  destruct s as [[a b] c]; simpl. intros [H|[_ [H|[_ H]]]]; try lia. exact (xlt_irrefl _ H).
Qed.
Lemma spec_lt_trans s t u : spec_lt s t -> spec_lt t u -> spec_lt s u.
Proof.
  destruct s as [[a b] c], t as [[a1 b1] c1], u as [[a2 b2] c2]; simpl.
  intros [H|[-> H]] [H'|[-> H']].
  - left; eapply xlt_trans; eauto.
  - left; auto.
  - left; auto.
  - right; split; auto. lia.
Qed.

Lemma weight_lt_irrefl w : ~ weight_lt w w.
Proof. intros [H|[_ H]]; [lia | exact (spec_lt_irrefl _ H)]. Qed.
Lemma weight_lt_trans a b c : weight_lt a b -> weight_lt b c -> weight_lt a c.
Proof.
  unfold weight_lt. intros [H|[E H]] [H'|[E' H']].
  - left; lia.
  - left; lia.
  - left; lia.
  - right; split; [lia | eapply spec_lt_trans; eauto].
Qed.

Lemma weight_leb_true v w : weight_leb v w = true <-> (weight_lt v w \/ v = w).
Proof.
  unfold weight_leb. pose proof (weight_compare_spec v w) as H.
  destruct (weight_compare v w); split; intros; auto; try discriminate.
  exfalso. destruct H0 as [H0| ->].
  - exact (weight_lt_irrefl _ (weight_lt_trans _ _ _ H H0)).
  - exact (weight_lt_irrefl _ H).
Qed.
Lemma weight_leb_false v w : weight_leb v w = false <-> weight_lt w v.
Proof.
  unfold weight_leb. pose proof (weight_compare_spec v w) as H.
  destruct (weight_compare v w); split; intros; auto; try discriminate.
  - subst. exfalso; exact (weight_lt_irrefl _ H0).
  - exfalso; exact (weight_lt_irrefl _ (weight_lt_trans _ _ _ H H0)).
Qed.

Lemma weight_leb_total a b : weight_leb a b = true \/ weight_leb b a = true.
Proof.
  destruct (weight_leb a b) eqn:E; auto. right.
  apply weight_leb_false in E. apply weight_leb_true; auto.
Qed.
Lemma weight_leb_trans a b c : weight_leb a b = true -> weight_leb b c = true -> weight_leb a c = true.
Proof.
  rewrite !weight_leb_true. intros [H| ->] [H'| ->]; auto.
  left; eapply weight_lt_trans; eauto.
Qed.
Lemma weight_leb_refl a : weight_leb a a = true.
Proof. apply weight_leb_true; auto. Qed.
Lemma weight_leb_antisym a b : weight_leb a b = true -> weight_leb b a = true -> a = b.
Proof.
  rewrite !weight_leb_true. intros [H|H] [H'|H']; auto.
  exfalso; exact (weight_lt_irrefl _ (weight_lt_trans _ _ _ H H')).
Qed.

(* ================================================================ 2. the fold picks the last maximum *)
Lemma forallb_exists_false {A} (f : A -> bool) l : forallb f l = false -> exists y, In y l /\ f y = false.
Proof.
  induction l as [|x r IH]; simpl; [discriminate|].
  destruct (f x) eqn:E; simpl; intros H.
  - destruct (IH H) as [y [Hy Hf]]. exists y; auto.
  - exists x; auto.
Qed.

Section FoldFacts.
  Variables (D W : Type) (name : D -> Z) (wt : D -> W) (leb : W -> W -> bool).
  Hypothesis leb_total : forall a b, leb a b = true \/ leb b a = true.
  Hypothesis leb_trans : forall a b c, leb a b = true -> leb b c = true -> leb a c = true.

  Let le (a b : D) : Prop := leb (wt a) (wt b) = true.
  Let lt (a b : D) : Prop := leb (wt b) (wt a) = false.

  Lemma lt_le a b : lt a b -> le a b.
  Proof. unfold lt, le. intros H. destruct (leb_total (wt a) (wt b)); congruence. Qed.

  Lemma get_set_same st n (x : D) : get (set st n x) n = Some x.
  Proof.
    induction st as [|[m y] r IH]; simpl.
    - rewrite Z.eqb_refl; auto.
    - destruct (m =? n) eqn:E; simpl; rewrite E; auto.
  Qed.
  Lemma get_set_other st n m (x : D) : m <> n -> get (set st m x) n = get st n.
  Proof.
    intros Hne. induction st as [|[k y] r IH]; simpl.
    - destruct (m =? n) eqn:E; auto. apply Z.eqb_eq in E; congruence.
    - destruct (k =? m) eqn:E; simpl.
      + apply Z.eqb_eq in E; subst k. destruct (m =? n) eqn:E'; auto.
        apply Z.eqb_eq in E'; congruence.
      + destruct (k =? n); auto.
  Qed.

  Lemma get_apply_decl st d n :
    get (apply_decl name wt leb st d) n = step name wt leb n (get st n) d.
  Proof.
    unfold apply_decl, step. destruct (name d =? n) eqn:E.
    - apply Z.eqb_eq in E. rewrite E.
      destruct (get st n) as [o|] eqn:G.
      + destruct (leb (wt o) (wt d)); [apply get_set_same | exact G].
      + apply get_set_same.
    - apply Z.eqb_neq in E.
      destruct (get st (name d)) as [o|].
      + destruct (leb (wt o) (wt d)); auto. apply get_set_other; auto.
      + apply get_set_other; auto.
  Qed.

  Lemma get_fold ds st n :
    get (fold_left (apply_decl name wt leb) ds st) n = fold_left (step name wt leb n) ds (get st n).
  Proof.
    revert st. induction ds as [|d r IH]; intros st; simpl; auto.
    rewrite IH, get_apply_decl; auto.
  Qed.

  (* the winner among a sequence: the last element that is maximal *)
  Inductive picks (n : Z) : list D -> option D -> Prop :=
  | picks_none l : (forall d, In d l -> name d <> n) -> picks n l None
  | picks_some l1 w l2 :
      name w = n ->
      (forall d, In d l1 -> name d = n -> le d w) ->
      (forall d, In d l2 -> name d = n -> lt d w) ->
      picks n (l1 ++ w :: l2) (Some w).

  Lemma picks_step n pre acc d : picks n pre acc -> picks n (pre ++ [d]) (step name wt leb n acc d).
  Proof.
    intros H. unfold step. destruct (name d =? n) eqn:E.
    - apply Z.eqb_eq in E. destruct H as [l Hl | l1 w l2 Hw H1 H2].
      + replace (l ++ [d]) with (l ++ d :: []) by auto.
        apply picks_some; auto.
        * intros x Hx Hn. exfalso; exact (Hl x Hx Hn).
        * intros x [].
      + destruct (leb (wt w) (wt d)) eqn:L.
        * replace ((l1 ++ w :: l2) ++ [d]) with ((l1 ++ w :: l2) ++ d :: []) by auto.
          apply picks_some; auto.
          -- intros x Hx Hn. apply in_app_or in Hx. destruct Hx as [Hx|[->|Hx]].
             ++ unfold le. eapply leb_trans; [exact (H1 x Hx Hn) | exact L].
             ++ exact L.
             ++ unfold le. eapply leb_trans; [exact (lt_le _ _ (H2 x Hx Hn)) | exact L].
          -- intros x [].
        * rewrite <- app_assoc. simpl. apply picks_some; auto.
          intros x Hx Hn. apply in_app_or in Hx. destruct Hx as [Hx|[->|[]]]; auto.
    - apply Z.eqb_neq in E. destruct H as [l Hl | l1 w l2 Hw H1 H2].
      + apply picks_none. intros x Hx. apply in_app_or in Hx. destruct Hx as [Hx|[->|[]]]; auto.
      + rewrite <- app_assoc. simpl. apply picks_some; auto.
        intros x Hx Hn. apply in_app_or in Hx. destruct Hx as [Hx|[->|[]]]; auto. congruence.
  Qed.

  Lemma picks_fold n ds : forall pre acc,
    picks n pre acc -> picks n (pre ++ ds) (fold_left (step name wt leb n) ds acc).
  Proof.
    induction ds as [|d r IH]; intros pre acc H; simpl.
    - rewrite app_nil_r; auto.
    - replace (pre ++ d :: r) with ((pre ++ [d]) ++ r) by (rewrite <- app_assoc; auto).
      apply IH. apply picks_step; auto.
  Qed.

  Theorem fold_picks ds n : picks n ds (get (cascade_fold name wt leb ds) n).
  Proof.
    unfold cascade_fold. rewrite get_fold. simpl.
    apply (picks_fold n ds [] None). apply picks_none. intros d [].
  Qed.

  (* the winner is determined by the sequence *)
  Lemma picks_unique n l a b : picks n l a -> picks n l b -> a = b.
  Proof.
    intros Ha Hb. destruct Ha as [l Hl | l1 w l2 Hw H1 H2].
    - inversion Hb as [| m1 w' m2 Hw' _ _ E]; auto. subst.
      exfalso. apply (Hl w'); auto. apply in_elt.
    - remember (l1 ++ w :: l2) as l eqn:El.
      destruct Hb as [l Hl | m1 w' m2 Hw' H1' H2'].
      + exfalso. apply (Hl w); auto. subst; apply in_elt.
      + destruct (app_eq_app _ _ _ _ El) as [k [[E1 E2]|[E1 E2]]].
        * (* m1 = l1 ++ k, w :: l2 = k ++ w' :: m2 *)
          destruct k as [|x k]; simpl in E2.
          -- inversion E2; subst; auto.
          -- inversion E2; subst x l2.
             assert (Hin : In w' (k ++ w' :: m2)) by apply in_elt.
             pose proof (H2 w' Hin Hw') as Hlt.
             assert (Hle : le w w').
             { apply H1'; auto. rewrite E1. apply in_or_app; right; left; auto. }
             unfold lt, le in *. congruence.
        * destruct k as [|x k]; simpl in E2.
          -- inversion E2; subst; auto.
          -- inversion E2; subst x m2.
             assert (Hin : In w (k ++ w :: l2)) by apply in_elt.
             pose proof (H2' w Hin Hw) as Hlt.
             assert (Hle : le w' w).
             { apply H1; auto. rewrite E1. apply in_or_app; right; left; auto. }
             unfold lt, le in *. congruence.
  Qed.

  (* ---- the stable sort reading *)
  Lemma in_insert_stable x y s : In y (insert_stable wt leb x s) <-> y = x \/ In y s.
  Proof.
    induction s as [|z r IH]; simpl.
    - intuition.
    - destruct (leb (wt x) (wt z)); simpl; [intuition|]. rewrite IH. intuition.
  Qed.
  Lemma in_stable_sort y l : In y (stable_sort wt leb l) <-> In y l.
  Proof.
    induction l as [|x r IH]; simpl; [tauto|]. rewrite in_insert_stable, IH. intuition.
  Qed.

  Lemma last_opt_cons (x : D) s : last_opt (x :: s) = match last_opt s with None => Some x | o => o end.
  Proof.
    revert x. induction s as [|y r IH]; intros x; auto.
    change (last_opt (x :: y :: r)) with (last_opt (y :: r)).
    rewrite IH. destruct (last_opt r); auto.
  Qed.
  Lemma last_opt_none (s : list D) : last_opt s = None -> s = [].
  Proof. destruct s as [|x r]; auto. rewrite last_opt_cons. destruct (last_opt r); discriminate. Qed.

  Lemma last_insert x s :
    last_opt (insert_stable wt leb x s) =
    if forallb (fun y => negb (leb (wt x) (wt y))) s then Some x else last_opt s.
  Proof.
    induction s as [|y r IH]; auto.
    simpl insert_stable. simpl forallb. destruct (leb (wt x) (wt y)) eqn:L; simpl negb; cbv iota.
    - rewrite (last_opt_cons x (y :: r)). rewrite (last_opt_cons y r).
      destruct (last_opt r); auto.
    - rewrite (last_opt_cons y (insert_stable wt leb x r)), IH. simpl andb.
      destruct (forallb (fun y0 => negb (leb (wt x) (wt y0))) r); auto.
      rewrite (last_opt_cons y r). auto.
  Qed.

  Lemma picks_cons_other n x l o : name x <> n -> picks n l o -> picks n (x :: l) o.
  Proof.
    intros Hx H. destruct H as [l Hl | l1 w l2 Hw H1 H2].
    - apply picks_none. intros d [->|Hd]; auto.
    - change (x :: l1 ++ w :: l2) with ((x :: l1) ++ w :: l2). apply picks_some; auto.
      intros d [->|Hd] Hn; auto. congruence.
  Qed.

  Lemma in_named n d l : In d (named name n l) <-> In d l /\ name d = n.
  Proof. unfold named. rewrite filter_In, Z.eqb_eq. tauto. Qed.

  Theorem spec_winner_picks ds n : picks n ds (spec_winner name wt leb ds n).
  Proof.
    unfold spec_winner. induction ds as [|x r IH].
    - simpl. apply picks_none. intros d [].
    - unfold named in *. simpl filter. destruct (name x =? n) eqn:E.
      + apply Z.eqb_eq in E. simpl stable_sort. rewrite last_insert.
        fold (named name n r) in *.
        destruct (forallb (fun y => negb (leb (wt x) (wt y))) (stable_sort wt leb (named name n r))) eqn:F.
        * change (x :: r) with ([] ++ x :: r). apply picks_some; auto.
          -- intros d [].
          -- intros d Hd Hn. rewrite forallb_forall in F.
             assert (Hin : In d (stable_sort wt leb (named name n r))).
             { apply in_stable_sort. apply in_named; auto. }
             specialize (F d Hin). unfold lt. destruct (leb (wt x) (wt d)); auto; discriminate.
        * (* some y in r with x <= y; the winner of r stays *)
          assert (Hex : exists y, In y r /\ name y = n /\ le x y).
          { destruct (forallb_exists_false _ _ F) as [y [Hy Hf]].
            apply in_stable_sort, in_named in Hy. exists y. destruct Hy; repeat split; auto.
            unfold le. destruct (leb (wt x) (wt y)); auto; discriminate. }
          destruct Hex as [y [Hy [Hny Hxy]]].
          inversion IH as [l Hl E1 E2 | l1 w l2 Hw H1 H2 E1 E2].
          -- exfalso. exact (Hl y Hy Hny).
          -- change (x :: l1 ++ w :: l2) with ((x :: l1) ++ w :: l2). apply picks_some; auto.
             intros d [->|Hd] Hn; auto.
             assert (Hyw : le y w).
             { rewrite <- E1 in Hy. apply in_app_or in Hy. destruct Hy as [Hy|[->|Hy]].
               - apply H1; auto.
               - unfold le. destruct (leb_total (wt y) (wt y)); auto.
               - apply lt_le, H2; auto. }
             unfold le in *. eapply leb_trans; eauto.
      + apply Z.eqb_neq in E. apply picks_cons_other; auto.
  Qed.

  Theorem fold_is_spec_winner ds n : get (cascade_fold name wt leb ds) n = spec_winner name wt leb ds n.
  Proof. eapply picks_unique; [apply fold_picks | apply spec_winner_picks]. Qed.
End FoldFacts.
