(* C13 - min_max_auto_replaced of weasyprint/layout/replaced.py as REGENERATED on every run (gen/GenReplacedBox.v):
   for every width, height, min/max and intrinsic size the box is left with the width and height of the hand model
   mmar of model/C13Replaced.v (the CSS 2.1 10.4 table of constraint violations, incl. the 1e-6 work-around for
   zero sizes), on which C13_minmax_table_10_4* rest; it never raises.  max_width / max_height are numbers here
   (float('inf') is outside the value domain of base/Py.v); mmar_inf_* below say that the model's "no maximum" is
   the model at any sufficiently large number. *)
From Coq Require Import QArith Qminmax Lqa List Bool String.
Require Import WV.base.Py WV.base.PyLink WV.proofs.PyTac WV.gen.GenReplacedBox WV.model.C13Replaced.
Require Import WV.proofs.C13_gen_sizing WV.proofs.C13_gen_tac.
Import ListNotations.
Open Scope string_scope.
Open Scope list_scope.
Open Scope Q_scope.

Definition mbox (w h minw minh maxw maxh : Q) imgf rs fs : val :=
  VObj [("width", VNum w); ("height", VNum h); ("min_width", VNum minw); ("min_height", VNum minh);
        ("max_width", VNum maxw); ("max_height", VNum maxh); ("replacement", VObj imgf);
        ("style", VObj [("image_resolution", VNum rs); ("font_size", VNum fs)])].

(* the function returns None (explicitly or by falling off its end) and leaves box.width, box.height = p *)
Definition sets_size (p : Q * Q) (rho : env) (res : option val) : Prop :=
  (res = None \/ res = Some VNone) /\
  exists x y, fieldv (lookup "box" rho) "width" = VNum x /\ fieldv (lookup "box" rho) "height" = VNum y /\
              x == fst p /\ y == snd p.

Ltac absurd_tiny :=
  match goal with H : Qeq_bool (1 # 1000000) 0 = true |- _ => vm_compute in H; discriminate H end.
Ltac fin :=
  cbn [fst snd negb]; unfold sets_size, fieldv; cbn [lookup String.eqb Ascii.eqb Bool.eqb fst snd];
  split; [auto|]; eexists; eexists; split; [reflexivity|split; [reflexivity|]];
  split; first [reflexivity | apply Q.max_comm | apply Q.min_comm].
Ltac ev :=
  lazy -[Py.qadd Py.qsub Py.qmul Py.qdiv Py.qmax Py.qmin Py.qleb Py.qeqb Py.ocall sets_size mmar
         Qplus Qminus Qmult Qdiv Qeq_bool Qle_bool Qmax Qmin].

Lemma gen_min_max_auto_replaced O (HO : ops_ok O) imgf rs fs i w h minw minh maxw maxh
      (HI : intr_oracle O imgf rs fs i) :
  run O min_max_auto_replaced_body [("box", mbox w h minw minh maxw maxh imgf rs fs)]
    (sets_size (mmar (ir i) w h minw minh (Some maxw) (Some maxh))) (fun _ => False).
Proof.
  unfold intr_oracle, vintr in HI.
  unfold run, min_max_auto_replaced_body, mbox.
  to_call O. rewrite HI. clear HI.
  destruct i as [iw0 ih0 [r|]]; cbn [ir iw ih voq].
  - ev. paths; unseal HO; try absurd_tiny;
      unfold mmar, mmar_ratio, viol_of, nz, tiny, Qltb, qmax_inf, qmin_inf; follow; fin.
  - ev. unseal HO. unfold mmar, qmax_inf, qmin_inf. fin.
Qed.

(* with the real rational operations, whatever else the oracle answers *)
Theorem gen_min_max_auto_replaced_real (c : string -> list val -> val) imgf rs fs i w h minw minh maxw maxh :
  c ".get_intrinsic_size" [VObj imgf; VNum rs; VNum fs] = vintr i ->
  run (with_calls real_ops c) min_max_auto_replaced_body [("box", mbox w h minw minh maxw maxh imgf rs fs)]
    (sets_size (mmar (ir i) w h minw minh (Some maxw) (Some maxh))) (fun _ => False).
Proof. intros H. apply gen_min_max_auto_replaced; [apply with_calls_ok, real_ok|exact H]. Qed.

Example gen_min_max_example :
  let c := fun (_ : string) (_ : list val) => VList [VNum 400; VNum 200; VNum 2] in
  run (with_calls real_ops c) min_max_auto_replaced_body [("box", mbox 400 200 0 0 100 1000 [] 1 16)]
    (fun rho _ => fieldv (lookup "box" rho) "width" = VNum 100 /\
                  exists y, fieldv (lookup "box" rho) "height" = VNum y /\ y == 50) (fun _ => False).
Proof. vm_compute. split; [reflexivity|]. eexists; split; [reflexivity|reflexivity]. Qed.

(* ---------------------------------------------------------------- no maximum
   max-width / max-height: none is float('inf') in the implementation and None in the model; the regenerated body is
   evaluated on numbers.  The model at None is the model at every large enough number (explicit bounds). *)
Definition qeq2 (a b : Q * Q) : Prop := fst a == fst b /\ snd a == snd b.

Lemma mmar_no_max_width_bound r w h minw minh maxh :
  forall M, Qmax w (minh * nz w / nz h) <= M ->
    qeq2 (mmar r w h minw minh None maxh) (mmar r w h minw minh (Some M) maxh).
Proof.
  intros M HM.
  assert (Hw : w <= M) by (eapply Qle_trans; [apply Q.le_max_l|exact HM]).
  assert (Hx : minh * nz w / nz h <= M) by (eapply Qle_trans; [apply Q.le_max_r|exact HM]).
  clear HM.
  unfold qeq2, mmar, mmar_ratio, viol_of, qmax_inf, qmin_inf, Qltb.
  set (X := minh * nz w / nz h) in *. clearbody X.
  set (Y := minw * nz h / nz w). clearbody Y.
  assert (HmM : M <= Qmax minw M) by apply Q.le_max_r.
  set (MW := Qmax minw M) in *. clearbody MW.
  destruct r as [r|], maxh as [mh0|]; cbn [fst snd].
  1,2: destruct (Qle_bool minw w) eqn:E1; cbn [negb];
    [assert (E2 : Qle_bool w MW = true) by (apply Qle_bool_iff; lra); rewrite E2; cbn [negb]|];
    repeat match goal with |- context [Qle_bool ?a ?b] => destruct (Qle_bool a b) eqn:? end; cbn [negb fst snd];
    try (split; reflexivity);
    split; try reflexivity; symmetry; apply Q.min_l; lra.
  all: split; [|reflexivity]; apply Q.max_compat; [reflexivity|]; symmetry; apply Q.min_l; lra.
Qed.

Lemma mmar_no_max_width r w h minw minh maxh :
  exists M0, forall M, M0 <= M ->
    qeq2 (mmar r w h minw minh None maxh) (mmar r w h minw minh (Some M) maxh).
Proof. exists (Qmax w (minh * nz w / nz h)). apply mmar_no_max_width_bound. Qed.

Lemma mmar_no_max_height r w h minw minh maxw :
  exists M0, forall M, M0 <= M ->
    qeq2 (mmar r w h minw minh maxw None) (mmar r w h minw minh maxw (Some M)).
Proof.
  exists (Qmax h (minw * nz h / nz w)). intros M HM.
  assert (Hh : h <= M) by (eapply Qle_trans; [apply Q.le_max_l|exact HM]).
  assert (Hy : minw * nz h / nz w <= M) by (eapply Qle_trans; [apply Q.le_max_r|exact HM]).
  clear HM.
  unfold qeq2, mmar, mmar_ratio, viol_of, qmax_inf, qmin_inf, Qltb.
  set (Y := minw * nz h / nz w) in *. clearbody Y.
  set (X := minh * nz w / nz h). clearbody X.
  assert (HmM : M <= Qmax minh M) by apply Q.le_max_r.
  set (MH := Qmax minh M) in *. clearbody MH.
  destruct r as [r|], maxw as [mw0|]; cbn [fst snd].
  1,2: destruct (Qle_bool minh h) eqn:E1; cbn [negb];
    [assert (E2 : Qle_bool h MH = true) by (apply Qle_bool_iff; lra); rewrite E2; cbn [negb]|];
    repeat match goal with |- context [Qle_bool ?a ?b] => destruct (Qle_bool a b) eqn:? end; cbn [negb fst snd];
    try (split; reflexivity);
    split; try reflexivity; symmetry; apply Q.min_l; lra.
  all: split; [reflexivity|]; apply Q.max_compat; [reflexivity|]; symmetry; apply Q.min_l; lra.
Qed.

(* "no maximum" (float('inf') in the implementation, None in the model) is the model at any large enough number *)
Theorem mmar_no_max r w h minw minh :
  exists M0, forall Mw Mh, M0 <= Mw -> M0 <= Mh ->
    qeq2 (mmar r w h minw minh None None) (mmar r w h minw minh (Some Mw) (Some Mh)).
Proof.
  destruct (mmar_no_max_height r w h minw minh None) as [Mh0 Hh].
  exists (Qmax (Qmax w (minh * nz w / nz h)) Mh0). intros Mw Mh HMw HMh.
  assert (H1 : Mh0 <= Mh) by (eapply Qle_trans; [apply Q.le_max_r|exact HMh]).
  destruct (mmar_no_max_width r w h minw minh (Some Mh)) as [Mw0 Hw].
  specialize (Hh Mh H1).
  (* the bound of the width lemma does not depend on the maximum height *)
  assert (Hw' : qeq2 (mmar r w h minw minh None (Some Mh)) (mmar r w h minw minh (Some Mw) (Some Mh))).
  { clear Hw Mw0. 
    assert (HM : Qmax w (minh * nz w / nz h) <= Mw) by (eapply Qle_trans; [apply Q.le_max_l|exact HMw]).
    revert HM. generalize Mw. 
    pose proof (mmar_no_max_width_bound r w h minw minh (Some Mh)) as B. exact B. }
  destruct Hh as [a1 a2], Hw' as [b1 b2]. split; [rewrite a1; exact b1|rewrite a2; exact b2].
Qed.
