(* The CPS interpreter is natural in its answer type: evaluating towards any observer equals evaluating to a
   first-order outcome and then observing it.  This is what lets theorems proved with a Prop observer be used
   about the *function* computed by a translated body (composition of translated functions, wrappers).
   Stated as a logical relation on continuations, so that no extensionality principle is needed. *)
From Coq Require Import QArith List String Bool.
Require Import WV.base.Py.
Import ListNotations.
Open Scope string_scope.
Open Scope list_scope.

Section Nat.
Variable O : qops.
Variables (R R' : Type) (h : R -> R').
Variables (err : string -> R) (err' : string -> R').
Hypothesis Herr : forall m, h (err m) = err' m.

Definition krel {T} (k : T -> R) (k' : T -> R') : Prop := forall v, h (k v) = k' v.

Lemma bool_k_nat v k k' : krel k k' -> h (bool_k O R err v k) = bool_k O R' err' v k'.
Proof. intros Hk. destruct v; simpl; auto. destruct (qeqb O q 0); auto. Qed.
Lemma arith_k_nat o a b k k' : krel k k' -> h (arith_k O R err o a b k) = arith_k O R' err' o a b k'.
Proof. intros Hk. destruct a, b; simpl; auto; destruct o; auto. destruct (qeqb O q0 0); auto. Qed.
Lemma veq_k_nat a b k k' : krel k k' -> h (veq_k O R err a b k) = veq_k O R' err' a b k'.
Proof. intros Hk. destruct a, b; simpl; auto. destruct (qeqb O q q0); auto. Qed.
Lemma cmp_k_nat o a b k k' : krel k k' -> h (cmp_k O R err o a b k) = cmp_k O R' err' o a b k'.
Proof.
  intros Hk. destruct o; simpl; try (apply veq_k_nat; auto; fail).
  - apply veq_k_nat. intros v. apply Hk.
  - destruct a, b; simpl; auto; destruct (qleb O _ _); auto.
  - destruct a, b; simpl; auto; destruct (qleb O _ _); auto.
  - destruct a, b; simpl; auto; destruct (qleb O _ _); auto.
  - destruct a, b; simpl; auto; destruct (qleb O _ _); auto.
Qed.
Lemma minmax_k_nat ismax vs k k' : krel k k' -> h (minmax_k O R err ismax vs k) = minmax_k O R' err' ismax vs k'.
Proof.
  intros Hk. destruct vs as [|v0 vs]; simpl; auto. revert v0. induction vs as [|v vs IH]; intros v0; simpl; auto.
  destruct v0, v; auto.
Qed.
Lemma gen_collect_nat (f : val -> (option val -> R) -> R) (f' : val -> (option val -> R') -> R') :
  (forall v kk kk', krel kk kk' -> h (f v kk) = f' v kk') ->
  forall l acc k k', krel k k' -> h (gen_collect f l acc k) = gen_collect f' l acc k'.
Proof.
  intros Hf. induction l as [|v l IH]; intros acc k k' Hk; simpl; auto.
  apply Hf. intros [ve|]; apply IH; auto.
Qed.
Lemma gen_iter_nat {E} (f : val -> E -> (E -> R) -> R) (f' : val -> E -> (E -> R') -> R') :
  (forall v rho kk kk', krel kk kk' -> h (f v rho kk) = f' v rho kk') ->
  forall l rho k k', krel k k' -> h (gen_iter f l rho k) = gen_iter f' l rho k'.
Proof.
  intros Hf. induction l as [|v l IH]; intros rho k k' Hk; simpl; auto.
  apply Hf. intros rho'. apply IH; auto.
Qed.

Fixpoint eval_nat (e : expr) : forall rho k k', krel k k' -> h (eval O R err rho e k) = eval O R' err' rho e k'.
Proof.
  destruct e as [v|x|e a|o a b|a rest|a b|a b|a|c a b|elt x it cond|elt x it cond|e key|e n|e|es|neg e c|f args|a b|elt x it cond|p args];
    intros rho k k' Hk; simpl.
  - apply Hk.
  - apply Hk.
  - apply eval_nat. intros [ | | | | |f| ]; auto.
  - apply eval_nat. intros va. apply eval_nat. intros vb. now apply arith_k_nat.
  - apply eval_nat. intros va. revert va. induction rest as [|[o e1] rest IH]; intros va; [apply Hk|].
    apply eval_nat. intros r. apply cmp_k_nat. intros [|]; [apply IH|apply Hk].
  - apply eval_nat. intros va. apply bool_k_nat. intros [|]; [now apply eval_nat|apply Hk].
  - apply eval_nat. intros va. apply bool_k_nat. intros [|]; [apply Hk|now apply eval_nat].
  - apply eval_nat. intros va. apply bool_k_nat. intros t. apply Hk.
  - apply eval_nat. intros vc. apply bool_k_nat. intros [|]; now apply eval_nat.
  - apply eval_nat. intros vit. destruct vit; auto.
    apply gen_collect_nat; [|intros vs; now apply minmax_k_nat].
    intros v kk kk' Hkk. destruct cond as [c|].
    + apply eval_nat. intros vc. apply bool_k_nat. intros [|]; [|apply Hkk].
      apply eval_nat. intros ve. apply Hkk.
    + apply eval_nat. intros ve. apply Hkk.
  - apply eval_nat. intros vit. destruct vit; auto.
    apply gen_collect_nat; [|intros vs; now apply minmax_k_nat].
    intros v kk kk' Hkk. destruct cond as [c|].
    + apply eval_nat. intros vc. apply bool_k_nat. intros [|]; [|apply Hkk].
      apply eval_nat. intros ve. apply Hkk.
    + apply eval_nat. intros ve. apply Hkk.
  - apply eval_nat. intros [ | | | | |f| ]; auto.
  - apply eval_nat. intros [ | | | |l| | ]; auto.
  - apply eval_nat. intros [ | | | | |f| ]; auto.
  - generalize (@nil val) as acc. induction es as [|e1 es IH]; intros acc; [apply Hk|].
    apply eval_nat. intros v. apply IH.
  - apply eval_nat. intros v. apply eval_nat. intros vc. destruct vc; auto.
    induction l as [|x l IH]; [apply Hk|]. apply veq_k_nat. intros [|]; [apply Hk|apply IH].
  - generalize (@nil val) as acc. induction args as [|e1 es IH]; intros acc.
    + destruct (ocall O f (rev acc)); auto; apply Hk.
    + apply eval_nat. intros v. destruct v; auto; apply IH.
  - apply eval_nat. intros va. apply eval_nat. intros vb. destruct va, vb; auto; apply Hk.
  - apply eval_nat. intros vit. destruct vit; auto.
    apply gen_collect_nat; [|intros vs; apply Hk].
    intros v kk kk' Hkk. destruct cond as [c|].
    + apply eval_nat. intros vc. apply bool_k_nat. intros [|]; [|apply Hkk].
      apply eval_nat. intros ve. apply Hkk.
    + apply eval_nat. intros ve. apply Hkk.
  - generalize (@nil val) as acc. induction args as [|e1 es IH]; intros acc.
    + destruct (prim_apply p (rev acc)); auto; apply Hk.
    + apply eval_nat. intros v. destruct v; auto; apply IH.
Qed.

Variables (kret : env -> val -> R) (kret' : env -> val -> R').
Hypothesis Hret : forall rho v, h (kret rho v) = kret' rho v.

Fixpoint exec_nat (s : stmt) : forall rho k k', krel k k' ->
  h (exec O R kret err s rho k) = exec O R' kret' err' s rho k'.
Proof.
  destruct s as [ts e|t o e|c th el|x e|e|x it body|e|ts e|c body| | |x e| |x i e]; intros rho k k' Hk; simpl.
  - apply eval_nat. intros v. apply Hk.
  - apply eval_nat. intros v. apply arith_k_nat. intros r. apply Hk.
  - apply eval_nat. intros vc. apply bool_k_nat. intros [|].
    + generalize rho. induction th as [|s1 th IH]; intros rho0; [apply Hk|]. apply exec_nat. intros rho'.
      destruct (flowing rho'); [apply Hk|apply IH].
    + generalize rho. induction el as [|s1 el IH]; intros rho0; [apply Hk|]. apply exec_nat. intros rho'.
      destruct (flowing rho'); [apply Hk|apply IH].
  - apply eval_nat. intros v. destruct (lookup x rho); auto. destruct v; auto.
  - apply eval_nat. intros v. apply Hret.
  - apply eval_nat. intros vit. destruct vit; auto.
    apply gen_iter_nat; [|exact Hk]. intros v rho0 kk kk' Hkk.
    generalize (update x v rho0). induction body as [|s1 body IH]; intros rho1; [apply Hkk|].
    apply exec_nat. intros rho'. destruct (flowing rho'); [apply Hkk|apply IH].
  - apply eval_nat. intros v. apply bool_k_nat. intros [|]; [apply Hk|apply Herr].
  - apply eval_nat. intros v. destruct v; auto. destruct (Nat.eqb _ _); auto; apply Hk.
  - (* while *)
    assert (Hb : forall (kk : env -> R) (kk' : env -> R'), krel kk kk' -> forall rho1,
      h ((fix block (l : list stmt) (rho : env) (k : env -> R) : R :=
            match l with [] => k rho
            | s :: l' => exec O R kret err s rho (fun rho' => if flowing rho' then k rho' else block l' rho' k) end)
           body rho1 kk) =
      (fix block (l : list stmt) (rho : env) (k : env -> R') : R' :=
            match l with [] => k rho
            | s :: l' => exec O R' kret' err' s rho (fun rho' => if flowing rho' then k rho' else block l' rho' k) end)
           body rho1 kk').
    { intros kk kk' Hkk. induction body as [|s1 body IH]; intros rho1; [apply Hkk|].
      apply exec_nat. intros rho'. destruct (flowing rho'); [apply Hkk|apply IH]. }
    generalize rho. generalize (wfuel O) as n. induction n as [|n IHn]; intros rho0; [apply Herr|].
    simpl. apply eval_nat. intros vc. apply bool_k_nat. intros [|]; [|apply Hk].
    apply Hb. intros rho'. destruct (lookup "%flow" rho'); try apply IHn.
    destruct (String.eqb s "break"); [apply Hk|apply IHn].
  - apply Hk.
  - apply Hk.
  - apply eval_nat. intros v. destruct (lookup x rho); auto; apply Hk.
  - apply Hk.
  - apply eval_nat. intros v. apply eval_nat. intros vi.
    destruct v; auto; destruct (setitem (lookup x rho) vi _); auto; apply Hk.
Qed.

Lemma exec_block_nat : forall l rho k k', krel k k' ->
  h (exec_block O R kret err l rho k) = exec_block O R' kret' err' l rho k'.
Proof.
  induction l as [|s l IH]; intros rho k k' Hk; simpl; [apply Hk|].
  apply exec_nat. intros rho'. destruct (flowing rho'); [apply Hk|now apply IH].
Qed.
End Nat.

(* first-order outcome of a run *)
Inductive outcome := ONorm (rho : env) (r : option val) | OErr (m : string).
Definition run_out (O : qops) (body : list stmt) (rho : env) : outcome := run O body rho ONorm OErr.

Theorem run_natural (O : qops) {A} (body : list stmt) (rho : env) (obs : env -> option val -> A) (kerr : string -> A) :
  run O body rho obs kerr =
  match run_out O body rho with ONorm rho' r => obs rho' r | OErr m => kerr m end.
Proof.
  unfold run_out, run. symmetry.
  apply (exec_block_nat O outcome A
           (fun o => match o with ONorm rho' r => obs rho' r | OErr m => kerr m end) OErr kerr (fun m => eq_refl)
           (fun rho v => ONorm rho (Some v)) (fun rho v => obs rho (Some v)) (fun rho v => eq_refl)).
  intros rho'. reflexivity.
Qed.
Print Assumptions run_natural.

(* consequence: a property established with a Prop observer and the impossible error continuation holds of the
   outcome *)
Corollary run_prop_outcome (O : qops) (body : list stmt) (rho : env) (P : env -> option val -> Prop) :
  run O body rho P (fun _ => False) -> exists rho' r, run_out O body rho = ONorm rho' r /\ P rho' r.
Proof.
  rewrite run_natural. destruct (run_out O body rho) as [rho' r|m]; [eauto|contradiction].
Qed.
