(* The CPS interpreter is natural in its answer type: evaluating towards any observer equals evaluating to a
   first-order outcome and then observing it.  This is what lets theorems proved with a Prop observer be used
   about the *function* computed by a translated body (composition of translated functions, wrappers).
   Stated as a logical relation on continuations, so that no extensionality principle is needed. *)
From Coq Require Import QArith List String Bool.
Require Import WV.base.Py.
Import ListNotations.
Open Scope string_scope.
Open Scope list_scope.

Section Nat.
Variable O : qops.
Variables (R R' : Type) (h : R -> R').
Variables (err : string -> R) (err' : string -> R').
Hypothesis Herr : forall m, h (err m) = err' m.

Definition krel {T} (k : T -> R) (k' : T -> R') : Prop := forall v, h (k v) = k' v.

Lemma bool_k_nat v k k' : krel k k' -> h (bool_k O R err v k) = bool_k O R' err' v k'.
Proof. intros Hk. destruct v; simpl; auto. destruct (qeqb O q 0); auto. Qed.
Lemma arith_k_nat o a b k k' : krel k k' -> h (arith_k O R err o a b k) = arith_k O R' err' o a b k'.
Proof. intros Hk. destruct a, b; simpl; auto. destruct o; auto. destruct (qeqb O q0 0); auto. Qed.
Lemma veq_k_nat a b k k' : krel k k' -> h (veq_k O R err a b k) = veq_k O R' err' a b k'.
Proof. intros Hk. destruct a, b; simpl; auto. destruct (qeqb O q q0); auto. Qed.
Lemma cmp_k_nat o a b k k' : krel k k' -> h (cmp_k O R err o a b k) = cmp_k O R' err' o a b k'.
Proof.
  intros Hk. destruct o; simpl; try (apply veq_k_nat; auto; fail).
  - apply veq_k_nat. intros v. apply Hk.
  - destruct a, b; simpl; auto; destruct (qleb O _ _); auto.
  - destruct a, b; simpl; auto; destruct (qleb O _ _); auto.
  - destruct a, b; simpl; auto; destruct (qleb O _ _); auto.
  - destruct a, b; simpl; auto; destruct (qleb O _ _); auto.
Qed.
Lemma minmax_k_nat ismax vs k k' : krel k k' -> h (minmax_k O R err ismax vs k) = minmax_k O R' err' ismax vs k'.
Proof.
  intros Hk. destruct vs as [|v0 vs]; simpl; auto. revert v0. induction vs as [|v vs IH]; intros v0; simpl; auto.
  destruct v0, v; auto.
Qed.
Lemma gen_collect_nat (f : val -> (option val -> R) -> R) (f' : val -> (option val -> R') -> R') :
  (forall v kk kk', krel kk kk' -> h (f v kk) = f' v kk') ->
  forall l acc k k', krel k k' -> h (gen_collect f l acc k) = gen_collect f' l acc k'.
Proof.
  intros Hf. induction l as [|v l IH]; intros acc k k' Hk; simpl; auto.
  apply Hf. intros [ve|]; apply IH; auto.
Qed.
Lemma gen_iter_nat {E} (f : val -> E -> (E -> R) -> R) (f' : val -> E -> (E -> R') -> R') :
  (forall v rho kk kk', krel kk kk' -> h (f v rho kk) = f' v rho kk') ->
  forall l rho k k', krel k k' -> h (gen_iter f l rho k) = gen_iter f' l rho k'.
Proof.
  intros Hf. induction l as [|v l IH]; intros rho k k' Hk; simpl; auto.
  apply Hf. intros rho'. apply IH; auto.
Qed.

Fixpoint eval_nat (e : expr) : forall rho k k', krel k k' -> h (eval O R err rho e k) = eval O R' err' rho e k'.
Proof.
  destruct e; intros rho k k' Hk; simpl.
  - apply Hk.
  - apply Hk.
  - apply eval_nat. intros [ | | | | |f| ]; auto.
  - apply eval_nat. intros va. apply eval_nat. intros vb. now apply arith_k_nat.
  - apply eval_nat. intros va. revert va. induction rest as [|[o e1] rest IH]; intros va; [apply Hk|].
    apply eval_nat. intros r. apply cmp_k_nat. intros [|]; [apply IH|apply Hk].
  - apply eval_nat. intros va. apply bool_k_nat. intros [|]; [now apply eval_nat|apply Hk].
  - apply eval_nat. intros va. apply bool_k_nat. intros [|]; [apply Hk|now apply eval_nat].
  - apply eval_nat. intros va. apply bool_k_nat. intros t. apply Hk.
  - apply eval_nat. intros vc. apply bool_k_nat. intros [|]; now apply eval_nat.
  - apply eval_nat. intros vit. destruct vit; auto.
    apply gen_collect_nat; [|intros vs; now apply minmax_k_nat].
    intros v kk kk' Hkk. destruct cond as [c|].
    + apply eval_nat. intros vc. apply bool_k_nat. intros [|]; [|apply Hkk].
      apply eval_nat. intros ve. apply Hkk.
    + apply eval_nat. intros ve. apply Hkk.
  - apply eval_nat. intros vit. destruct vit; auto.
    apply gen_collect_nat; [|intros vs; now apply minmax_k_nat].
    intros v kk kk' Hkk. destruct cond as [c|].
    + apply eval_nat. intros vc. apply bool_k_nat. intros [|]; [|apply Hkk].
      apply eval_nat. intros ve. apply Hkk.
    + apply eval_nat. intros ve. apply Hkk.
  - apply eval_nat. intros [ | | | | |f| ]; auto.
  - apply eval_nat. intros [ | | | |l| | ]; auto.
  - apply eval_nat. intros [ | | | | |f| ]; auto.
  - generalize (@nil val) as acc. induction es as [|e1 es IH]; intros acc; [apply Hk|].
    apply eval_nat. intros v. apply IH.
  - apply eval_nat. intros v. apply eval_nat. intros vc. destruct vc; auto.
    induction l as [|x l IH]; [apply Hk|]. apply veq_k_nat. intros [|]; [apply Hk|apply IH].
Qed.
End Nat.
