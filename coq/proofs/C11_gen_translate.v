(* C11 - the end of absolute_block (weasyprint/layout/absolute.py), after the loop over the absolute descendants, as
   REGENERATED from the source on every run (gen/GenAbsReplaced.v: absolute_block_translate_body):
       if translate_box_width: translate_x -= new_box.width
       if translate_box_height: translate_y -= new_box.height
       new_box.translate(translate_x, translate_y)
       return new_box, resume_at
   For every (translate_box_width, translate_x) / (translate_box_height, translate_y) returned by absolute_width /
   absolute_height and every laid-out box, new_box.translate receives exactly the vector that the model's final_pos
   (model/C11Abs.v, on which the theorems about the final position of an absolutely positioned box rest) adds to the
   position: dx == translate_x - (width if translate_box_width else 0), likewise dy; and the function returns
   (the translated box, resume_at).  box.translate is an external statement: it leaves the box in the state
   tr [box; dx; dy; ignore_floats] for whatever function tr of its arguments it is. *)
From Coq Require Import QArith Qminmax Lqa List String Bool.
Require Import WV.base.Py WV.gen.GenAbsReplaced WV.proofs.PyTac WV.model.C11Abs.
Import ListNotations.
Open Scope string_scope.
Open Scope list_scope.
Open Scope Q_scope.

Definition translate_oracle (ret : val) (tr : list val -> val) (f : string) (args : list val) : val :=
  if String.eqb f ".translate" then VList [ret; tr args] else VErr "NameError".

(* the laid-out box: width and height are numbers, anything else abstract *)
Definition laid_box (W H : Q) (rest : list (string * val)) : val :=
  VObj (("width", VNum W) :: ("height", VNum H) :: rest).

Definition translate_env (tbw : bool) (tx : Q) (tbh : bool) (ty : Q) (nb resume : val) : env :=
  [("translate_box_width", VBool tbw); ("translate_x", VNum tx); ("translate_box_height", VBool tbh);
   ("translate_y", VNum ty); ("new_box", nb); ("resume_at", resume)].

Definition translate_post (tbw : bool) (tx : Q) (tbh : bool) (ty W H : Q) (nb resume ret : val) (tr : list val -> val)
           (rho : env) (res : option val) : Prop :=
  exists dx dy,
    (forall x0, x0 + dx == final_pos x0 W (tbw, tx)) /\ (forall y0, y0 + dy == final_pos y0 H (tbh, ty)) /\
    res = Some (VList [tr [nb; VNum dx; VNum dy; VBool false]; resume]) /\
    lookup "new_box" rho = tr [nb; VNum dx; VNum dy; VBool false] /\ lookup "%call" rho = ret.

Lemma gen_absolute_block_translate O (HO : ops_ok O) ret tr (tbw tbh : bool) tx ty W H rest resume :
  run (with_calls O (translate_oracle ret tr)) absolute_block_translate_body
    (translate_env tbw tx tbh ty (laid_box W H rest) resume)
    (translate_post tbw tx tbh ty W H (laid_box W H rest) resume ret tr) (fun _ => False).
Proof.
  unfold run, absolute_block_translate_body, translate_env, laid_box, translate_post, final_pos.
  destruct tbw, tbh; lazy -[Qeq Qplus Qminus]; fold (qsub O);
    eexists; eexists; (split; [|split; [|split; [reflexivity|split; reflexivity]]]);
    intros; cbn [fst snd]; unseal HO; ring.
Qed.
Print Assumptions gen_absolute_block_translate.

Example translate_example :
  run (with_calls real_ops (translate_oracle VNone VList)) absolute_block_translate_body
    (translate_env true 100 false 7 (laid_box 30 20 []) VNone)
    (fun rho r => r = Some (VList [VList [laid_box 30 20 []; VNum (100 - 30); VNum 7; VBool false]; VNone]))
    (fun _ => False).
Proof. reflexivity. Qed.
