(* C12 - _get_second_placement of weasyprint/layout/grid.py, the sparse case (the else branch of the final
   `if dense:`), as regenerated (gen/GenGrid.v: grid_second_sparse_body) is the model's second_placement for
   second_start == 'auto': see proofs/C12_gen_grid_base.v for the conventions.  The set occupied_tracks is given by
   the list of its elements (any order, repetitions allowed: only its truth value and its max are read). *)
From Coq Require Import ZArith QArith Qminmax List String Bool Lia.
Require Import WV.base.Py WV.base.PyLink WV.proofs.PyNatural WV.proofs.PyLemmas WV.gen.GenGrid WV.model.C12Grid.
Require Import WV.proofs.C12_gen_ext WV.proofs.C12_gen_grid_base WV.proofs.C12_gen_grid_place.
Import ListNotations.
Open Scope string_scope.
Open Scope list_scope.

(* `max(occupied_tracks) + 1 if occupied_tracks else 0` on the elements of the set *)
Definition next_track (l : list Z) : Z :=
  match l with [] => 0%Z | a :: r => (fold_left Z.max r a + 1)%Z end.

Lemma Qmax_Z a b : Qmax (inject_Z a) (inject_Z b) = inject_Z (Z.max a b).
Proof.
  unfold Qmax, GenericMinMax.gmax, Qcompare, inject_Z, Qnum, Qden. rewrite !Z.mul_1_r.
  unfold Z.max. destruct (Z.compare_spec a b) as [->| |]; reflexivity.
Qed.
Lemma fold_Qmax_Z r : forall a,
  fold_left (fun x y => Qmax x y) (map inject_Z r) (inject_Z a) = inject_Z (fold_left Z.max r a).
Proof. induction r as [|b r IH]; intros a; cbn [map fold_left]; [reflexivity|]. rewrite Qmax_Z. apply IH. Qed.

Lemma lookup_update_same k v rho : lookup k (update k v rho) = v.
Proof.
  induction rho as [|[k0 v0] r IH]; simpl.
  - now rewrite String.eqb_refl.
  - destruct (String.eqb k k0) eqn:E; simpl; [now rewrite String.eqb_refl|now rewrite E].
Qed.

Lemma gen_collect_id {R} (f : val -> (option val -> R) -> R) :
  (forall v kk, f v kk = kk (Some v)) ->
  forall l acc k, gen_collect f l acc k = k (rev acc ++ l).
Proof.
  intros Hf l. induction l as [|x l IH]; intros acc k; simpl.
  - now rewrite app_nil_r.
  - rewrite Hf, IH. simpl. now rewrite <- app_assoc.
Qed.

(* the first statement: the track after the occupied ones *)
Lemma eval_track O (HO : ops_ok O) R err rho k (occ : list Z) :
  lookup "occupied_tracks" rho = VList (map vint occ) ->
  eval O R err rho
    (ECond (EVar "occupied_tracks")
       (EBin Add (EMaxGen (EVar "_x") "_x" (EVar "occupied_tracks") None) (EConst (VNum (1#1))))
       (EConst (VNum (0#1)))) k
  = k (vint (next_track occ)).
Proof.
  intros H. cbn [eval]. rewrite H. destruct occ as [|a r]; [reflexivity|].
  cbn [map bool_k]. cbv zeta.
  rewrite gen_collect_id; [|intros v kk; now rewrite lookup_update_same].
  cbn [rev app]. unfold vint at 1 2. rewrite <- (map_map inject_Z VNum). rewrite minmax_k_nums.
  cbn [arith_k]. rewrite (qadd_eq _ HO), (qmax_eq _ HO). rewrite fold_Qmax_Z.
  change (1 # 1)%Q with (inject_Z 1). rewrite Qplus_Z. reflexivity.
Qed.

(* the linked _get_placement answers the model's get_placement (C12_gen_grid_place.gen_get_placement) *)
Lemma link_get_placement n (s e : gline) (ls : list val) (fe : bool) :
  link T (S (S n)) "_get_placement" [vline s; vline e; VList ls; VBool fe]
  = vpl (get_placement (rlz fe (Z.of_nat (List.length ls)) s) (rlz fe (Z.of_nat (List.length ls)) e)).
Proof.
  change (link T (S (S n)) "_get_placement") with (ocall (linked T (S (S n))) "_get_placement").
  rewrite ocall_linked.
  change (find_fn "_get_placement" T) with (Some (grid_get_placement_args, grid_get_placement_body)).
  apply (call_returns (linked T (S n)) (grid_get_placement_args, grid_get_placement_body) _
           [("start", vline s); ("end", vline e); ("lines", VList ls); ("from_end", VBool fe)]);
    [reflexivity|].
  exact (gen_get_placement n s e ls fe).
Qed.

(* sparse packing, second_start == 'auto': the source returns _get_placement((None, track + 1, None), second_end),
   the model's pl_line_start (track + 1) second_end, for every set of occupied tracks, every second_end without a
   name (auto / integer / span), every list of line names; it never raises *)
Theorem gen_second_sparse_auto n (occ : list Z) (e : gline) (ls : list val) :
  run (linked T (S (S n))) grid_second_sparse_body
    [("occupied_tracks", VList (map vint occ)); ("second_start", VStr "auto"); ("second_end", vline e);
     ("second_tracks", VList ls)]
    (fun _ r => r = Some (vpl (Some (pl_line_start (next_track occ + 1) e)))) (fun _ => False).
Proof.
  unfold run, grid_second_sparse_body.
  cbn [exec_block]. cbn [exec].
  rewrite (eval_track _ (linked_ok T (S (S n)))) with (occ := occ); [|reflexivity].
  generalize (next_track occ). intros nt.
  remember (vpl (Some (pl_line_start (nt + 1) e))) as R eqn:HR.
  destruct e as [|b|k]; lazy -[link Qplus inject_Z T]; change (1 # 1)%Q with (inject_Z 1); rewrite Qplus_Z.
  1: change [VList [VNone; VNum (inject_Z (nt + 1)); VNone]; VStr "auto"; VList ls; VBool false]
       with [vline (GLine (nt + 1)); vline GAuto; VList ls; VBool false];
     rewrite (link_get_placement n (GLine (nt + 1)) GAuto ls false).
  2: change [VList [VNone; VNum (inject_Z (nt + 1)); VNone]; VList [VNone; VNum (inject_Z b); VNone]; VList ls; VBool false]
       with [vline (GLine (nt + 1)); vline (GLine b); VList ls; VBool false];
     rewrite (link_get_placement n (GLine (nt + 1)) (GLine b) ls false).
  3: change [VList [VNone; VNum (inject_Z (nt + 1)); VNone]; VList [VStr "span"; VNum (inject_Z k); VNone]; VList ls; VBool false]
       with [vline (GLine (nt + 1)); vline (GSpan k); VList ls; VBool false];
     rewrite (link_get_placement n (GLine (nt + 1)) (GSpan k) ls false).
  all: subst R; cbn [rlz get_placement];
    match goal with |- context [pl_line_start ?a ?e] => destruct (pl_line_start a e) as [c s] end;
    cbn [vpl]; reflexivity.
Qed.

(* ---- the set of occupied tracks of the model (intervals (start, length)) as the list the source builds:
   `for x in range(x, x + width): occupied_tracks.add(x)` for every interval *)
Fixpoint zr (a : Z) (n : nat) : list Z := match n with O => [] | S m => a :: zr (a + 1) m end.
Definition tracks (occ : list (Z * Z)) : list Z := flat_map (fun p => zr (fst p) (Z.to_nat (snd p))) occ.

Lemma fold_max_zr n : forall s a, fold_left Z.max (zr s (S n)) a = Z.max a (s + Z.of_nat n).
Proof.
  induction n as [|n IH]; intros s a.
  - cbn. f_equal. lia.
  - change (zr s (S (S n))) with (s :: zr (s + 1) (S n)). cbn [fold_left]. rewrite IH. lia.
Qed.
Lemma fold_max_zr0 n s : fold_left Z.max (zr (s + 1) n) s = (s + Z.of_nat n)%Z.
Proof. destruct n; [cbn; lia|]. rewrite fold_max_zr. lia. Qed.

Lemma tracks_filter occ : tracks occ = tracks (filter (fun p => 0 <? snd p)%Z occ).
Proof.
  induction occ as [|p r IH]; [reflexivity|]. cbn [filter]. unfold tracks in *.
  destruct (Z.ltb_spec 0 (snd p)); cbn [flat_map]; rewrite IH; [reflexivity|].
  replace (Z.to_nat (snd p)) with O by lia. reflexivity.
Qed.

Lemma fold_tracks r : Forall (fun p => 0 < snd p)%Z r -> forall a,
  fold_left Z.max (tracks r) a = fold_left Z.max (map (fun p => fst p + snd p - 1)%Z r) a.
Proof.
  induction 1 as [|q r Hq _ IH]; intros a; [reflexivity|].
  unfold tracks. cbn [flat_map map fold_left]. fold (tracks r). rewrite fold_left_app.
  destruct (Z.to_nat (snd q)) as [|m] eqn:E; [lia|]. rewrite fold_max_zr. rewrite IH.
  replace (Z.max a (fst q + Z.of_nat m)) with (Z.max a (fst q + snd q - 1)) by lia. reflexivity.
Qed.

(* the track computed from the elements is the model's occ_next of the intervals *)
Theorem next_track_occ occ : next_track (tracks occ) = occ_next occ.
Proof.
  rewrite tracks_filter. unfold occ_next, occ_max.
  assert (F : Forall (fun p => 0 < snd p)%Z (filter (fun p => 0 <? snd p)%Z occ)).
  { apply Forall_forall. intros p Hp. apply filter_In in Hp. destruct Hp as [_ Hp]. now apply Z.ltb_lt in Hp. }
  destruct (filter (fun p => 0 <? snd p)%Z occ) as [|p r]; [reflexivity|].
  inversion F as [|? ? Hp Hr]; subst.
  unfold tracks. cbn [flat_map]. fold (tracks r).
  destruct (Z.to_nat (snd p)) as [|m] eqn:E; [lia|].
  cbn [zr app next_track]. rewrite fold_left_app, fold_max_zr0, (fold_tracks r Hr).
  replace (fst p + Z.of_nat m)%Z with (fst p + snd p - 1)%Z by lia. reflexivity.
Qed.

(* the regenerated sparse branch, given the elements of the model's occupied intervals, returns the model's
   second_placement (dense = false, second_start auto): for both flow directions, every first placement, every
   list of placed areas, every second_end without a name *)
Theorem gen_second_sparse_model n (colflow : bool) (fp : Z * Z) (se : gline) (ps : list area) (ls : list val) :
  run (linked T (S (S n))) grid_second_sparse_body
    [("occupied_tracks", VList (map vint (tracks (occupied colflow fp ps)))); ("second_start", VStr "auto");
     ("second_end", vline se); ("second_tracks", VList ls)]
    (fun _ r => r = Some (vpl (second_placement colflow false fp GAuto se ps))) (fun _ => False).
Proof.
  unfold second_placement. rewrite <- next_track_occ. apply gen_second_sparse_auto.
Qed.

(* ---- the clauses of the property text about the returned (start, size) *)
Lemma fold_max_ge l : forall a, (a <= fold_left Z.max l a)%Z /\ forall x, In x l -> (x <= fold_left Z.max l a)%Z.
Proof.
  induction l as [|y l IH]; intros a; cbn [fold_left].
  - split; [lia|intros x []].
  - destruct (IH (Z.max a y)) as [H1 H2]. split; [lia|]. intros x [->|Hx]; [lia|auto].
Qed.

(* the track is after every occupied track (0 when there is none) *)
Theorem next_track_after occ : forall t, In t occ -> (t < next_track occ)%Z.
Proof.
  destruct occ as [|a r]; intros t Ht; [destruct Ht|]. cbn [next_track].
  destruct (fold_max_ge r a) as [H1 H2]. destruct Ht as [<-|Ht]; [lia|]. specialize (H2 t Ht). lia.
Qed.

(* the placement returned for second_start auto at track nt: its size is at least 1; with second_end auto it is
   the cell nt, with `span k` the k tracks from nt, with the integer line b the tracks between nt and line b
   (coordinate b - 1) whichever comes first, one track when they coincide *)
Theorem second_sparse_auto_clauses (nt : Z) (e : gline) : gline_valid e = true ->
  let '(c, s) := pl_line_start (nt + 1) e in
  (1 <= s)%Z /\
  match e with
  | GAuto => c = nt /\ s = 1%Z
  | GSpan k => c = nt /\ s = k
  | GLine b => c = Z.min nt (b - 1) /\ s = Z.max 1 (Z.abs (b - 1 - nt))
  end.
Proof.
  unfold pl_line_start, norm, or1, gline_valid. destruct e as [|b|k]; cbv beta iota; intros H;
    repeat match goal with
           | |- context [(?a <? ?b)%Z] => destruct (Z.ltb_spec a b)
           | |- context [(?a =? ?b)%Z] => destruct (Z.eqb_spec a b)
           | H : (?a <=? ?b)%Z = true |- _ => apply Z.leb_le in H
           | H : context [(?a =? ?b)%Z] |- _ => destruct (Z.eqb_spec a b)
           end; cbv beta iota zeta; try lia; repeat split; try lia.
Qed.
