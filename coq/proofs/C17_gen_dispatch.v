(* C17 - the decisions of _dispatch of weasyprint/stacking.py as REGENERATED from the source on every run
   (gen/GenStacking.v, stacking_dispatch_body): which boxes get a stacking context of their own, which a "fake" one
   (positioned, z-index auto), which go to the floats, which inline-level boxes (inline-block / -flex / -grid) are
   replaced in place, and, for the boxes that stay in the normal tree, whether they are recorded in blocks and in
   blocks_and_cells (at the index seen before their children are dispatched) -- for every box it is the case
   analysis of the hand model `dispatch` of model/C17Stacking.v ([dcase_of], lemma dispatch_by_case).
   The recursive work (StackingContext.from_box, _dispatch_children) and list.insert are outside the translated
   subset: each such statement is the call of "%unsupported" carrying its text (option 'opaque' of the translator);
   here that call answers its own text, so that the last such statement executed is visible in the final
   environment.  isinstance(..) and box.is_floated() are answered by the oracle [doracle]. *)
From Coq Require Import ZArith QArith List String Bool.
Require Import WV.base.Py WV.gen.GenStacking WV.model.C17Stacking WV.proofs.C17_dispatch.
Require Import WV.proofs.C17_gen_stacking.
Import ListNotations.
Open Scope string_scope.
Open Scope list_scope.

(* ---------------------------------------------------------------------------- the decision, in the model *)
Inductive dcase :=
| DOwn                       (* child_contexts.append(StackingContext.from_box(box, page)); return None *)
| DFake                      (* fake context inserted in child_contexts at the index seen before *)
| DFloat                     (* floats.append(StackingContext.from_box(box, page, child_contexts)) *)
| DInline                    (* return StackingContext.from_box(box, page, child_contexts) *)
| DNormal (in_blocks in_blocks_and_cells : bool).
Definition dcase_of (i : info) : dcase :=
  if defines_ctx i then DOwn
  else if negb (static i) then DFake
  else if flt i then DFloat
  else if stacking_class (knd i) then DInline
  else DNormal (block_level (knd i)) (block_level (knd i) || is_cell (knd i)).

(* the model's dispatch is this case analysis *)
Lemma dispatch_by_case i kids st :
  dispatch (Box i kids) st =
  let dch (st : dst) : list pnode * dst :=
        if is_parent (knd i) then dispatch_list kids st else (map embed kids, st) in
  match dcase_of i with
  | DOwn =>
      let '(nk, s) := dch st0 in
      (None, mkS (s_cc st ++ [mk_ctx i nk (s_cc s) (s_bl s) (s_fl s) (s_bc s)])%list (s_bl st) (s_fl st) (s_bc st))
  | DFake =>
      let '(nk, s) := dch (mkS (s_cc st) [] [] []) in
      (None, mkS (insert_at (List.length (s_cc st)) (mk_ctx i nk [] (s_bl s) (s_fl s) (s_bc s)) (s_cc s))
                 (s_bl st) (s_fl st) (s_bc st))
  | DFloat =>
      let '(nk, s) := dch (mkS (s_cc st) [] [] []) in
      (None, mkS (s_cc s) (s_bl st) (s_fl st ++ [mk_ctx i nk [] (s_bl s) (s_fl s) (s_bc s)])%list (s_bc st))
  | DInline =>
      let '(nk, s) := dch (mkS (s_cc st) [] [] []) in
      (Some (mk_ctx i nk [] (s_bl s) (s_fl s) (s_bc s)), mkS (s_cc s) (s_bl st) (s_fl st) (s_bc st))
  | DNormal b c =>
      let '(nk, s) := dch st in
      let nb := PB i nk in
      (Some nb,
       mkS (s_cc s) (if b then insert_at (List.length (s_bl st)) nb (s_bl s) else s_bl s) (s_fl s)
           (if c then insert_at (List.length (s_bc st)) nb (s_bc s) else s_bc s))
  end.
Proof.
  rewrite dispatch_eq. unfold dcase_of.
  destruct (defines_ctx i); [reflexivity|]. destruct (negb (static i)); [reflexivity|].
  destruct (flt i); [reflexivity|]. destruct (stacking_class (knd i)); [reflexivity|].
  destruct (block_level (knd i)), (is_cell (knd i)); reflexivity.
Qed.

(* ------------------------------------------------------------------------- how the source reads a box *)
(* style['position'], ['z_index'], ['opacity'] (a number), ['transform'] (a list), ['overflow'], box.is_grid_item *)
Definition dstyle (i : info) (op : Q) (tl : list val) (ov : string) (es : list (string * val)) : val :=
  VObj (("position", VStr (pos_name (pos i))) :: ("z_index", vz (zi i)) :: ("opacity", VNum op) ::
        ("transform", VList tl) :: ("overflow", VStr ov) :: es).
Definition dbox (i : info) op tl ov es (eb : list (string * val)) : val :=
  VObj (("style", dstyle i op tl ov es) :: ("is_grid_item", VBool (git i)) :: eb).
(* an AbsolutePlaceholder wraps its box in ._box *)
Definition dparam (ph : bool) (b : val) (eph : list (string * val)) : val :=
  if ph then VObj (("_box", b) :: eph) else b.
(* the module `boxes`: the classes by their names *)
Definition vboxes : val :=
  VObj [("InlineBlockBox", VStr "InlineBlockBox"); ("InlineFlexBox", VStr "InlineFlexBox");
        ("InlineGridBox", VStr "InlineGridBox"); ("BlockLevelBox", VStr "BlockLevelBox");
        ("TableCellBox", VStr "TableCellBox")].

(* what the calls answer: isinstance by the class tables of the model, is_floated by the model's flt, an
   untranslated statement by its own text *)
Definition is_cls (c : val) (s : string) : bool := match c with VStr t => String.eqb t s | _ => false end.
Definition doracle (ph : bool) (i : info) (f : string) (args : list val) : val :=
  if String.eqb f "%unsupported" then match args with [VStr t] => VStr t | _ => VErr "TypeError" end
  else if String.eqb f ".is_floated" then match args with [_] => VBool (flt i) | _ => VErr "TypeError" end
  else if String.eqb f "%isinstance" then
    match args with
    | [_; c] =>
        if is_cls c "AbsolutePlaceholder" then VBool ph
        else if is_cls c "BlockLevelBox" then VBool (block_level (knd i))
        else if is_cls c "TableCellBox" then VBool (is_cell (knd i))
        else match c with
             | VList [a; b; d] =>
                 if is_cls a "InlineBlockBox" && is_cls b "InlineFlexBox" && is_cls d "InlineGridBox"
                 then VBool (stacking_class (knd i)) else VErr "TypeError"
             | _ => VErr "TypeError"
             end
    | _ => VErr "TypeError"
    end
  else VErr "NameError".

(* the texts of the untranslated statements *)
Definition tag_own := "child_contexts.append(StackingContext.from_box(box, page)) #a4082457a1a0".
Definition tag_fake_insert := "child_contexts.insert(index, stacking_context) #64df8cfd4b0d".
Definition tag_float := "floats.append(StackingContext.from_box(box, page, child_contexts)) #cd3d7c07318b".
Definition tag_inline := "return StackingContext.from_box(box, page, child_contexts) #ca24e12e93f2".
Definition tag_children :=
  "box = _dispatch_children(box, page, child_contexts, blocks, floats, blocks_and_cells) #056ee587a0fd".
Definition tag_blocks_insert := "blocks.insert(blocks_index, box) #090ff240c3d1".
Definition tag_bc_insert := "blocks_and_cells.insert(blocks_and_cells_index, box) #eb4f71713822".

(* what is seen when the regenerated body is done, for each case of the model *)
Definition dispatch_post (d : dcase) (vb : val) (ncc nbl nbc : nat) (rho : env) (r : option val) : Prop :=
  match d with
  | DOwn => lookup "%unsupported" rho = VStr tag_own /\ r = Some VNone
  | DFake => lookup "%unsupported" rho = VStr tag_fake_insert /\ lookup "index" rho = vint (Z.of_nat ncc) /\ r = None
  | DFloat => lookup "%unsupported" rho = VStr tag_float /\ r = None
  | DInline => lookup "%unsupported" rho = VStr tag_inline /\ r = None
  | DNormal b c =>
      lookup "blocks_index" rho = (if b then vint (Z.of_nat nbl) else VNone) /\
      lookup "blocks_and_cells_index" rho = (if c then vint (Z.of_nat nbc) else VNone) /\
      lookup "%unsupported" rho = VStr (if c then tag_bc_insert else if b then tag_blocks_insert else tag_children) /\
      r = Some vb
  end.

(* the decision as a function of defines_ctx *)
Definition dcase' (d : bool) (i : info) : dcase :=
  if d then DOwn
  else if negb (static i) then DFake
  else if flt i then DFloat
  else if stacking_class (knd i) then DInline
  else DNormal (block_level (knd i)) (block_level (knd i) || is_cell (knd i)).
Lemma dcase_of_eq i : dcase_of i = dcase' (defines_ctx i) i.
Proof. reflexivity. Qed.

(* ---- the pieces of the regenerated body *)
Definition s1 : stmt := nth 0 stacking_dispatch_body SPass.     (* the AbsolutePlaceholder unwrapping *)
Definition s2 : stmt := nth 1 stacking_dispatch_body SPass.     (* style = box.style *)
Definition s3 : stmt := nth 2 stacking_dispatch_body SPass.     (* defines_stacking_context = ... *)
Definition rest : list stmt := skipn 3 stacking_dispatch_body.

Section D.
Variable O : qops.
Hypothesis HO : ops_ok O.
Variables (ph : bool) (i : info) (op : Q) (tl : list val) (ov : string).
Variables (es eb eph : list (string * val)) (pg : val) (ccl bll fll bcl : list val).
Local Notation O' := (with_calls O (doracle ph i)).
Local Notation vb := (dbox i op tl ov es eb).

Definition rho0 : env :=
  [("box", dparam ph vb eph); ("page", pg); ("child_contexts", VList ccl); ("blocks", VList bll);
   ("floats", VList fll); ("blocks_and_cells", VList bcl); ("boxes", vboxes);
   ("AbsolutePlaceholder", VStr "AbsolutePlaceholder")].
Definition rho1 : env :=
  [("box", vb); ("page", pg); ("child_contexts", VList ccl); ("blocks", VList bll);
   ("floats", VList fll); ("blocks_and_cells", VList bcl); ("boxes", vboxes);
   ("AbsolutePlaceholder", VStr "AbsolutePlaceholder")].
Definition rho3 (dv : val) : env :=
  rho1 ++ [("style", dstyle i op tl ov es); ("defines_stacking_context", dv)].

(* the value of the `or` chain: the first truthy operand, else the last one *)
Definition dval : val :=
  if negb (static i) && has_z i then VBool true
  else if git i && has_z i then VBool true
  else if negb (qleb O 1 op) then VBool true
  else match tl with [] => VBool (negb (String.eqb ov "visible")) | _ => VList tl end.

Ltac ev := lazy -[inject_Z exec_block rest qleb].

Lemma exec_block_cons (A : Type) kret kerr s l rho (k : env -> A) :
  exec_block O' A kret kerr (s :: l) rho k =
  exec O' A kret kerr s rho (fun rho' => if flowing rho' then k rho' else exec_block O' A kret kerr l rho' k).
Proof. reflexivity. Qed.

Lemma L1 (A : Type) kret kerr (K : env -> A) : exec O' A kret kerr s1 rho0 K = K rho1.
Proof. unfold s1, rho0, rho1, dparam. destruct ph; ev; reflexivity. Qed.

Lemma L23 (A : Type) kret kerr l (k : env -> A) :
  exec_block O' A kret kerr (s2 :: s3 :: l) rho1 k = exec_block O' A kret kerr l (rho3 dval) k.
Proof.
  generalize (doracle ph i); intros c.
  unfold dval, rho3, rho1, s2, s3, dbox, dstyle, static, has_z.
  destruct i as [bid0 knd0 pos0 flt0 zi0 opa0 trf0 tm0 ovf0 clp0 git0 col0 hid0 rcl0 fit0].
  cbn [pos zi git app nth]. unfold stacking_dispatch_body. cbn [nth exec_block].
  destruct (String.eqb ov "visible") eqn:Eov.
  - apply String.eqb_eq in Eov. subst ov.
    destruct pos0, zi0 as [z|], git0, tl as [|t tl']; ev;
      cbn [qleb]; try destruct (qleb O (1#1) op); reflexivity.
  - destruct pos0, zi0 as [z|], git0, tl as [|t tl']; ev;
      cbn [qleb]; try destruct (qleb O (1#1) op); cbv beta iota;
      repeat match goal with |- context [?f ov "visible"] =>
        change (f ov "visible") with (String.eqb ov "visible"); rewrite Eov end;
      reflexivity.
Qed.

Lemma flowing_rho1 : flowing rho1 = false.
Proof. reflexivity. Qed.

Lemma L4 (d : bool) (dv : val) :
  (dv = VBool d \/ exists x l, dv = VList (x :: l) /\ d = true) ->
  (d = false -> negb (static i) && has_z i = false) ->
  exec_block O' Prop
    (fun rho v => dispatch_post (dcase' d i) vb (List.length ccl) (List.length bll) (List.length bcl) rho (Some v))
    (fun _ => False) rest (rho3 dv)
    (fun rho => dispatch_post (dcase' d i) vb (List.length ccl) (List.length bll) (List.length bcl) rho None).
Proof.
  intros Hdv Hz. unfold dcase', static, has_z in *.
  unfold rho3, rho1, rest, stacking_dispatch_body, vboxes. cbn [skipn app].
  set (VB := vb) in *. unfold dbox, dstyle in VB.
  destruct i as [bid0 knd0 pos0 flt0 zi0 opa0 trf0 tm0 ovf0 clp0 git0 col0 hid0 rcl0 fit0].
  cbn [pos zi git flt knd] in *.
  set (sc := stacking_class knd0). set (blv := block_level knd0). set (cel := is_cell knd0).
  assert (Hsc : stacking_class knd0 = sc) by reflexivity.
  assert (Hbl : block_level knd0 = blv) by reflexivity.
  assert (Hce : is_cell knd0 = cel) by reflexivity.
  clearbody sc blv cel.
  unfold doracle. cbn [flt knd]. rewrite Hsc, Hbl, Hce. clear Hsc Hbl Hce.
  destruct Hdv as [->|(x & l & -> & ->)].
  2: { subst VB. lazy -[inject_Z]. unfold vint. repeat split; reflexivity. }
  destruct d.
  { subst VB. lazy -[inject_Z]. unfold vint. repeat split; reflexivity. }
  specialize (Hz eq_refl).
  destruct pos0, zi0 as [z|]; try discriminate Hz;
    destruct flt0, sc, blv, cel; subst VB; lazy -[inject_Z Z.of_nat List.length];
    unfold vint; repeat split; reflexivity.
Qed.
End D.

Theorem gen_dispatch_decides O (HO : ops_ok O) (ph : bool) (i : info) (op : Q) (tl : list val) (ov : string)
        es eb eph (pg : val) (ccl bll fll bcl : list val) :
  opa i = negb (Qle_bool 1 op) ->
  trf i = match tl with [] => false | _ => true end ->
  ovf i = negb (String.eqb ov "visible") ->
  run (with_calls O (doracle ph i)) stacking_dispatch_body
      [("box", dparam ph (dbox i op tl ov es eb) eph); ("page", pg); ("child_contexts", VList ccl);
       ("blocks", VList bll); ("floats", VList fll); ("blocks_and_cells", VList bcl);
       ("boxes", vboxes); ("AbsolutePlaceholder", VStr "AbsolutePlaceholder")]
      (dispatch_post (dcase_of i) (dbox i op tl ov es eb) (List.length ccl) (List.length bll) (List.length bcl))
      (fun _ => False).
Proof.
  intros Hopa Htrf Hovf. unfold run. rewrite dcase_of_eq.
  change stacking_dispatch_body with (s1 :: s2 :: s3 :: rest).
  fold (rho0 ph i op tl ov es eb eph pg ccl bll fll bcl).
  rewrite exec_block_cons, L1. cbv beta. rewrite flowing_rho1. cbv iota.
  rewrite (L23 O). apply L4.
  - unfold dval, defines_ctx. rewrite Hopa, Htrf, Hovf, (qleb_eq _ HO).
    destruct (negb (static i) && has_z i); [left; reflexivity|].
    destruct (git i && has_z i); [left; reflexivity|].
    destruct (negb (Qle_bool 1 op)); [left; reflexivity|].
    destruct tl as [|t tl']; [left; reflexivity|right; eauto].
  - unfold defines_ctx. intros H.
    destruct (negb (static i) && has_z i); [discriminate H|reflexivity].
Qed.
