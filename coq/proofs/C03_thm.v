(* C03: every page produced by the fragmentation model keeps its lines above the page bottom, except the first
   line placed on a page; blank pages only for a side mismatch. *)
From Coq Require Import ZArith List Bool Lia Arith.
Require Import WV.model.Frag2 WV.proofs.C01_defs WV.proofs.C01_thm WV.proofs.C03_fit.
Import ListNotations.
Open Scope Z_scope.

(* paddings and borders at the bottom are non-negative (CSS does not allow negative ones) *)
Fixpoint wf_geom (b : box) : bool :=
  match b with
  | Lines _ => true
  | Blk st kids _ =>
      (0 <=? s_pb st) && (0 <=? s_bb st) &&
      (fix go (l : list box) : bool := match l with [] => true | k :: r => wf_geom k && go r end) kids
  end.
Lemma wf_geom_blk st kids r : wf_geom (Blk st kids r) = (0 <=? s_pb st) && (0 <=? s_bb st) && forallb wf_geom kids.
Proof. reflexivity. Qed.

Lemma finish_blk_geom c st is_root pie cwc pos_y1 mt pt bt bs lo r A B C :
  0 <= s_pb st -> 0 <= s_bb st ->
  finish_blk c st is_root pie cwc pos_y1 mt pt bt bs lo = (Some r, A, B, C) ->
  exists broke resume0 s, lo = LDone broke resume0 s /\
    frag_lines (b_frag r) = lines_l (ls_newc s) /\ geom_ok (b_frag r).
Proof.
  intros Hpb Hbb. unfold finish_blk. destruct lo as [O|broke resume0 s]; [discriminate|].
  cbv zeta.
  match goal with |- context [if ?cnd then (None, _, _, _) else _] => destruct cnd end; [discriminate|].
  repeat match goal with
         | |- context [let '(_, _) := (if ?cnd then _ else _) in _] => destruct cnd
         end;
  intros X; inversion X; subst; do 3 eexists; (split; [reflexivity|]); (split; [reflexivity|]); simpl;
  match goal with |- context [if ?cnd then _ else _] => destruct cnd end; lia.
Qed.

Section Loop.
Variable c : ctx.
Variables (pie : bool) (lim : Z).
Variable stepf : box -> nat -> option skip -> lstate -> sout.
Variable kids : list box.
Hypothesis Hstep : forall child index sub s, In child kids ->
  fitl c pie lim (lines_l (ls_newc s)) ->
  match stepf child index sub s with
  | SAbort _ => True
  | SStop _ s' | SCont s' => fitl c pie lim (lines_l (ls_newc s'))
  end.

Lemma kids_loop_fit : forall l index toskip sub s, (forall x, In x l -> In x kids) ->
  fitl c pie lim (lines_l (ls_newc s)) ->
  match kids_loop stepf l index toskip sub s with
  | LAbort _ => True
  | LDone _ _ s' => fitl c pie lim (lines_l (ls_newc s'))
  end.
Proof.
  induction l as [|child rest IH]; intros index toskip sub s Hin Hfit; [exact Hfit|].
  simpl. destruct toskip as [|n].
  - pose proof (Hstep child index sub s (Hin _ (or_introl eq_refl)) Hfit) as Hs.
    destruct (stepf child index sub s) as [O|res s'|s']; [exact I|exact Hs|].
    apply IH; [|exact Hs]. intros x Hx. apply Hin. now right.
  - apply IH; [|exact Hfit]. intros x Hx. apply Hin. now right.
Qed.
End Loop.

Theorem bcl_fit : forall b c, wf_box b = true -> wf_geom b = true -> FS c (bcl c b).
Proof.
  induction b as [ids|st kids rt IH] using box_ind'; intros c Hwfb Hwg p m bs sk pie a r A B C Hbs Hrun.
  - discriminate Hrun.
  - rewrite wf_box_blk in Hwfb. apply andb_prop in Hwfb. destruct Hwfb as [Hwfb Hwfk].
    apply andb_prop in Hwfb. destruct Hwfb as [_ Hshape].
    rewrite wf_geom_blk in Hwg. apply andb_prop in Hwg. destruct Hwg as [Hwg Hwgk].
    apply andb_prop in Hwg. destruct Hwg as [Hpb Hbb]. apply Z.leb_le in Hpb. apply Z.leb_le in Hbb.
    cbn [bcl] in Hrun. cbv zeta in Hrun.
    apply finish_blk_geom in Hrun; [|assumption|assumption].
    destruct Hrun as (broke & resume0 & s & Hloop & Hlines & Hgeom). split; [|exact Hgeom].
    rewrite Hlines. clear Hlines Hgeom.
    set (bs' := if s_clone st then bs + s_pb st + s_bb st + Z.max 0 (s_mb st) else bs) in *.
    assert (Hbs' : bs <= bs') by (subst bs'; destruct (s_clone st); lia).
    apply fitl_mono with (page_bottom c - bs'); [lia|].
    assert (Hcase : (exists ids, kids = [Lines ids]) \/ forallb is_blk kids = true).
    { unfold kids_shape in Hshape. destruct kids as [|[ids|st1 k1 r1] [|k2 l]]; eauto. }
    destruct Hcase as [[ids ->]|Hblk].
    + (* one line-box child *)
      cbn [kids_loop] in Hloop.
      destruct (match sk with Some (SChild i _) => i | _ => 0%nat end) as [|n].
      * match type of Hloop with context [lines_step c ?st ?pb ?bb ?pie ?bsx ids 0%nat ?sub ?s0] =>
          pose proof (lines_step_fit c st pb bb pie bsx ids 0%nat sub s0 Hpb Hbb eq_refl) as Hls;
          destruct (lines_step c st pb bb pie bsx ids 0%nat sub s0) as [O|res s'|s'] end; [discriminate| |].
        -- injection Hloop as <- <- <-. exact Hls.
        -- cbn [kids_loop] in Hloop. injection Hloop as <- <- <-. exact Hls.
      * cbn [kids_loop] in Hloop. injection Hloop as <- <- <-. exact I.
    + (* block children *)
      match type of Hloop with kids_loop ?stepf _ _ ?ts ?sub0 ?s0 = _ =>
        pose proof (kids_loop_fit c pie (page_bottom c - bs') stepf kids) as HKL;
        specialize (fun Hs => HKL Hs kids 0%nat ts sub0 s0 (fun x Hx => Hx) I)
      end.
      rewrite Hloop in HKL. apply HKL. clear HKL Hloop.
      intros child index sub s1 Hin Hfit.
      assert (Hb : is_blk child = true) by (eapply forallb_forall in Hblk; eassumption).
      destruct child as [|cst ck cr]; [discriminate|].
      apply blk_step_fit; [|lia|exact Hfit].
      eapply Forall_forall in IH; [|exact Hin]. apply IH.
      * eapply forallb_forall in Hwfk; eassumption.
      * eapply forallb_forall in Hwgk; eassumption.
Qed.
Print Assumptions bcl_fit.

(* ---- pages ---- *)
Definition page_fits (H lh : Z) (pg : side * list (Z * Z)) : Prop :=
  match snd pg with [] => True | _ :: rest => Forall (fun l => snd l + lh <= H) rest end.

Theorem pages_fit : forall fuel root H lh ltr i resume np right,
  wf_box root = true -> wf_geom root = true ->
  let pages := match paginate_loop fuel root H lh ltr i resume np right with
               | PDone l | PFuel l _ | PStuck l => l end in
  Forall (page_fits H lh) pages.
Proof.
  induction fuel as [|fuel IH]; intros root H lh ltr i resume np right Hwf Hwg; [constructor|].
  cbn [paginate_loop]. cbv zeta.
  destruct (is_blank ltr np right).
  - specialize (IH root H lh ltr (S i) resume np (negb right) Hwf Hwg). cbv zeta in IH.
    destruct (paginate_loop fuel root H lh ltr (S i) resume np (negb right)); cbn [pcons]; constructor; auto; exact I.
  - destruct root as [ids|rst kids rt]; [constructor|].
    match goal with |- context [bcl ?c ?b ?p ?m ?bs resume true ?a] =>
      destruct (bcl c b p m bs resume true a) as [[[res A] B] C] eqn:Erun; set (cc := c) in * end.
    destruct res as [r|]; [|constructor].
    destruct (bcl_fit _ cc Hwf Hwg _ _ _ _ _ _ _ _ _ _ (Z.le_refl 0) Erun) as [Hfit _].
    assert (Hpage : forall sd, page_fits H lh (sd, frag_lines (b_frag r))).
    { intros sd. unfold page_fits. cbn [snd]. destruct (frag_lines (b_frag r)) as [|l0 rest]; [exact I|].
      destruct Hfit as [_ Hrest]. eapply Forall_impl; [|exact Hrest]. intros l Hl. unfold fits in Hl.
      subst cc. cbn [page_bottom LH] in Hl. lia. }
    destruct (b_resume r) as [s|].
    + specialize (IH (Blk rst kids rt) H lh ltr (S i) (Some s) (b_np r) (negb right) Hwf Hwg). cbv zeta in IH.
      destruct (paginate_loop fuel (Blk rst kids rt) H lh ltr (S i) (Some s) (b_np r) (negb right));
        cbn [pcons]; constructor; auto.
    + constructor; [apply Hpage|constructor].
Qed.
Print Assumptions pages_fit.

(* blank pages: a page of the loop is blank only when the requested side differs; a blank page is never
   followed by another blank page (from C04_breaks) - so the page count exceeds the number of content pages by at
   most the number of forced side breaks. *)
