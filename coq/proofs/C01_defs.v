(* C01: vocabulary of the conservation theorem over the fragmentation model Frag2. *)
From Coq Require Import ZArith List Bool Lia Arith.
Require Import WV.model.Frag2.
Import ListNotations.
Open Scope nat_scope.

(* ---- the words of a box / of a fragment, in source order ---- *)
Fixpoint bwords (b : box) : list Z :=
  match b with
  | Lines ids => ids
  | Blk _ kids _ => (fix go (l : list box) : list Z := match l with [] => [] | k :: r => bwords k ++ go r end) kids
  end.
Definition bwords_l (l : list box) : list Z := flat_map bwords l.
Lemma bwords_blk st kids r : bwords (Blk st kids r) = bwords_l kids.
Proof. unfold bwords_l. simpl. induction kids as [|k l IH]; simpl; [reflexivity|]. now rewrite IH. Qed.

Fixpoint fwords (f : frag) : list Z :=
  match f with
  | FLine w _ _ _ _ _ => [w]
  | FBlk _ _ _ _ _ _ _ _ _ _ kids =>
      (fix go (l : list frag) : list Z := match l with [] => [] | k :: r => fwords k ++ go r end) kids
  end.
Definition fwords_l (l : list frag) : list Z := flat_map fwords l.
Lemma fwords_blk st i y mt mb pt pb bt bb h kids :
  fwords (FBlk st i y mt mb pt pb bt bb h kids) = fwords_l kids.
Proof. unfold fwords_l. simpl. induction kids as [|k l IH]; simpl; [reflexivity|]. now rewrite IH. Qed.
Lemma fwords_l_app a b : fwords_l (a ++ b) = fwords_l a ++ fwords_l b.
Proof. unfold fwords_l. apply flat_map_app. Qed.
Lemma fwords_l_cons f l : fwords_l (f :: l) = fwords f ++ fwords_l l.
Proof. reflexivity. Qed.
Lemma fwords_l_one f : fwords_l [f] = fwords f.
Proof. unfold fwords_l. simpl. apply app_nil_r. Qed.
Lemma fwords_set_kids st i y mt mb pt pb bt bb h fk ngc :
  fwords (set_kids (FBlk st i y mt mb pt pb bt bb h fk) ngc) = fwords_l ngc.
Proof. unfold set_kids. apply fwords_blk. Qed.
Lemma fwords_frag_lines f : map fst (frag_lines f) = fwords f.
Proof.
  revert f. fix IH 1. intros [w y h r o wd|st i y mt mb pt pb bt bb h kids]; [reflexivity|].
  rewrite fwords_blk. simpl. unfold fwords_l.
  induction kids as [|k l IHl]; simpl; [reflexivity|].
  rewrite map_app, IH, IHl. reflexivity.
Qed.
Lemma fwords_set_index f i : fwords (set_index f i) = fwords f.
Proof. destruct f; reflexivity. Qed.

(* ---- what remains to be laid out from a resume point ---- *)
Fixpoint words_from_kids (wf : box -> option skip -> list Z) (l : list box) (n : nat) (sub : option skip) : list Z :=
  match l with
  | [] => []
  | k :: r => match n with O => wf k sub ++ bwords_l r | S n' => words_from_kids wf r n' sub end
  end.
Fixpoint words_from (b : box) (sk : option skip) {struct b} : list Z :=
  match b with
  | Lines ids => match sk with None => ids | Some (SLine k) => skipn k ids | Some (SChild _ _) => [] end
  | Blk _ kids _ =>
      match sk with
      | None => bwords b
      | Some (SLine _) => []
      | Some (SChild i sub) =>
          (fix go (l : list box) (n : nat) : list Z :=
             match l with
             | [] => []
             | k :: r => match n with O => words_from k sub ++ bwords_l r | S n' => go r n' end
             end) kids i
      end
  end.
Lemma words_from_none b : words_from b None = bwords b.
Proof. destruct b; reflexivity. Qed.
Lemma words_from_child st kids r i sub :
  words_from (Blk st kids r) (Some (SChild i sub)) = words_from_kids words_from kids i sub.
Proof. simpl. revert i. induction kids as [|k l IH]; intros [|i]; simpl; auto. Qed.
Lemma wfk_0_none l : words_from_kids words_from l 0 None = bwords_l l.
Proof. destruct l; simpl; [reflexivity|]. now rewrite words_from_none. Qed.
Lemma wfk_S k l n sub : words_from_kids words_from (k :: l) (S n) sub = words_from_kids words_from l n sub.
Proof. reflexivity. Qed.
Lemma wfk_beyond l n sub : length l <= n -> words_from_kids words_from l n sub = [].
Proof. revert n. induction l as [|k l IH]; intros n H; simpl in *; [reflexivity|]. destruct n; [lia|]. apply IH. lia. Qed.

(* ---- well-formedness ---- *)
Definition is_blk (b : box) : bool := match b with Blk _ _ _ => true | Lines _ => false end.
Definition kids_shape (kids : list box) : bool :=
  match kids with [Lines _] => true | _ => forallb is_blk kids end.
(* a block container holds one line-box child or block children only; orphans/widows >= 1 *)
Fixpoint wf_box (b : box) : bool :=
  match b with
  | Lines _ => true
  | Blk st kids _ =>
      (1 <=? s_orphans st) && (1 <=? s_widows st) && kids_shape kids &&
      (fix go (l : list box) : bool := match l with [] => true | k :: r => wf_box k && go r end) kids
  end.
Lemma wf_box_blk st kids r :
  wf_box (Blk st kids r) = (1 <=? s_orphans st) && (1 <=? s_widows st) && kids_shape kids && forallb wf_box kids.
Proof. reflexivity. Qed.

Fixpoint wf_skip (b : box) (sk : option skip) {struct b} : Prop :=
  match sk with
  | None => True
  | Some s =>
      match b, s with
      | Lines ids, SLine k => k < length ids
      | Blk _ kids _, SChild i sub =>
          (fix go (l : list box) (n : nat) : Prop :=
             match l with
             | [] => False
             | k :: r => match n with O => wf_skip k sub | S n' => go r n' end
             end) kids i
      | _, _ => False
      end
  end.
Fixpoint wf_skip_kids (l : list box) (n : nat) (sub : option skip) : Prop :=
  match l with
  | [] => False
  | k :: r => match n with O => wf_skip k sub | S n' => wf_skip_kids r n' sub end
  end.
Lemma wf_skip_child st kids r i sub : wf_skip (Blk st kids r) (Some (SChild i sub)) = wf_skip_kids kids i sub.
Proof. simpl. revert i. induction kids as [|k l IH]; intros [|i]; simpl; auto. Qed.
Lemma wf_skip_none b : wf_skip b None. Proof. destruct b; exact I. Qed.
Lemma wf_skip_kids_lt l n sub : wf_skip_kids l n sub -> n < length l.
Proof. revert n. induction l as [|k l IH]; intros [|n] H; simpl in *; try contradiction; try lia. apply IH in H. lia. Qed.

(* strong induction principle on boxes *)
Fixpoint box_ind' (P : box -> Prop)
  (Hl : forall ids, P (Lines ids))
  (Hb : forall st kids r, Forall P kids -> P (Blk st kids r)) (b : box) : P b :=
  match b with
  | Lines ids => Hl ids
  | Blk st kids r => Hb st kids r ((fix go (l : list box) : Forall P l :=
                                      match l with
                                      | [] => Forall_nil _
                                      | k :: l' => Forall_cons k (box_ind' P Hl Hb k) (go l')
                                      end) kids)
  end.
