(* C10 - fixed_table_layout of weasyprint/layout/table.py as REGENERATED from the source on every run
   (gen/GenTable.v): part B, the run of the regenerated statements.  The body is run on an environment of one fixed
   shape [E s] (every local variable listed from the start, see proofs/C10_gen_env.v), statement by statement; the
   loops over abstract lists (range, columns_without_width, the cells) by induction with the list facts of part A. *)
From Coq Require Import QArith Qminmax Lqa Lia List String Bool ZArith Arith.
Require Import WV.base.Py WV.gen.GenTable WV.model.C10Distribute WV.model.C10Layout WV.proofs.C10_distribute WV.proofs.C10_fixed.
Require Import WV.proofs.C11_gen_avoid_base WV.proofs.C10_gen_env WV.proofs.C10_gen_fixed_model.
Require WV.proofs.PyNatural.
Import ListNotations.
Open Scope string_scope.
Open Scope list_scope.
Open Scope Q_scope.

(* ---- the statements of the regenerated body *)
Definition body := fixed_cells_finish_body.
Definition s_spacing := nth 0 body SPass.
Definition s_i0 := nth 1 body SPass.
Definition s_for := nth 2 body SPass.
Definition finish_body : list stmt := skipn 3 body.
Definition cell_body : list stmt := match s_for with SFor _ _ b => b | _ => [] end.
Definition then_body : list stmt := match nth 1 cell_body SPass with SIf _ t _ => t | _ => [] end.
Definition l1_body : list stmt := match nth 3 then_body SPass with SFor _ _ b => b | _ => [] end.

(* ---- the environment: one shape *)
Record st := mk_st { s_tb : val; s_frc : val; s_nc : val; s_cw : val; s_bsx : val; s_us : val; s_i : val; s_cell : val;
  s_call : val; s_width : val; s_cww : val; s_j : val; s_wpc : val; s_abs : val; s_mtw : val; s_rw : val; s_ew : val;
  s_epc : val }.
Definition E (s : st) : env :=
  [("table", s_tb s); ("first_row_cells", s_frc s); ("num_columns", s_nc s); ("column_widths", s_cw s);
   ("border_spacing_x", s_bsx s); ("_", s_us s); ("i", s_i s); ("cell", s_cell s); ("%call", s_call s);
   ("width", s_width s); ("columns_without_width", s_cww s); ("j", s_j s); ("width_per_column", s_wpc s);
   ("all_border_spacing", s_abs s); ("min_table_width", s_mtw s); ("remaining_width", s_rw s);
   ("extra_width", s_ew s); ("extra_per_column", s_epc s)].
Definition set_tb (s : st) (v : val) : st := mk_st v (s_frc s) (s_nc s) (s_cw s) (s_bsx s) (s_us s) (s_i s) (s_cell s) (s_call s) (s_width s) (s_cww s) (s_j s) (s_wpc s) (s_abs s) (s_mtw s) (s_rw s) (s_ew s) (s_epc s).
Definition set_frc (s : st) (v : val) : st := mk_st (s_tb s) v (s_nc s) (s_cw s) (s_bsx s) (s_us s) (s_i s) (s_cell s) (s_call s) (s_width s) (s_cww s) (s_j s) (s_wpc s) (s_abs s) (s_mtw s) (s_rw s) (s_ew s) (s_epc s).
Definition set_nc (s : st) (v : val) : st := mk_st (s_tb s) (s_frc s) v (s_cw s) (s_bsx s) (s_us s) (s_i s) (s_cell s) (s_call s) (s_width s) (s_cww s) (s_j s) (s_wpc s) (s_abs s) (s_mtw s) (s_rw s) (s_ew s) (s_epc s).
Definition set_cw (s : st) (v : val) : st := mk_st (s_tb s) (s_frc s) (s_nc s) v (s_bsx s) (s_us s) (s_i s) (s_cell s) (s_call s) (s_width s) (s_cww s) (s_j s) (s_wpc s) (s_abs s) (s_mtw s) (s_rw s) (s_ew s) (s_epc s).
Definition set_bsx (s : st) (v : val) : st := mk_st (s_tb s) (s_frc s) (s_nc s) (s_cw s) v (s_us s) (s_i s) (s_cell s) (s_call s) (s_width s) (s_cww s) (s_j s) (s_wpc s) (s_abs s) (s_mtw s) (s_rw s) (s_ew s) (s_epc s).
Definition set_us (s : st) (v : val) : st := mk_st (s_tb s) (s_frc s) (s_nc s) (s_cw s) (s_bsx s) v (s_i s) (s_cell s) (s_call s) (s_width s) (s_cww s) (s_j s) (s_wpc s) (s_abs s) (s_mtw s) (s_rw s) (s_ew s) (s_epc s).
Definition set_i (s : st) (v : val) : st := mk_st (s_tb s) (s_frc s) (s_nc s) (s_cw s) (s_bsx s) (s_us s) v (s_cell s) (s_call s) (s_width s) (s_cww s) (s_j s) (s_wpc s) (s_abs s) (s_mtw s) (s_rw s) (s_ew s) (s_epc s).
Definition set_cell (s : st) (v : val) : st := mk_st (s_tb s) (s_frc s) (s_nc s) (s_cw s) (s_bsx s) (s_us s) (s_i s) v (s_call s) (s_width s) (s_cww s) (s_j s) (s_wpc s) (s_abs s) (s_mtw s) (s_rw s) (s_ew s) (s_epc s).
Definition set_call (s : st) (v : val) : st := mk_st (s_tb s) (s_frc s) (s_nc s) (s_cw s) (s_bsx s) (s_us s) (s_i s) (s_cell s) v (s_width s) (s_cww s) (s_j s) (s_wpc s) (s_abs s) (s_mtw s) (s_rw s) (s_ew s) (s_epc s).
Definition set_width (s : st) (v : val) : st := mk_st (s_tb s) (s_frc s) (s_nc s) (s_cw s) (s_bsx s) (s_us s) (s_i s) (s_cell s) (s_call s) v (s_cww s) (s_j s) (s_wpc s) (s_abs s) (s_mtw s) (s_rw s) (s_ew s) (s_epc s).
Definition set_cww (s : st) (v : val) : st := mk_st (s_tb s) (s_frc s) (s_nc s) (s_cw s) (s_bsx s) (s_us s) (s_i s) (s_cell s) (s_call s) (s_width s) v (s_j s) (s_wpc s) (s_abs s) (s_mtw s) (s_rw s) (s_ew s) (s_epc s).
Definition set_j (s : st) (v : val) : st := mk_st (s_tb s) (s_frc s) (s_nc s) (s_cw s) (s_bsx s) (s_us s) (s_i s) (s_cell s) (s_call s) (s_width s) (s_cww s) v (s_wpc s) (s_abs s) (s_mtw s) (s_rw s) (s_ew s) (s_epc s).
Definition set_wpc (s : st) (v : val) : st := mk_st (s_tb s) (s_frc s) (s_nc s) (s_cw s) (s_bsx s) (s_us s) (s_i s) (s_cell s) (s_call s) (s_width s) (s_cww s) (s_j s) v (s_abs s) (s_mtw s) (s_rw s) (s_ew s) (s_epc s).
Definition set_abs (s : st) (v : val) : st := mk_st (s_tb s) (s_frc s) (s_nc s) (s_cw s) (s_bsx s) (s_us s) (s_i s) (s_cell s) (s_call s) (s_width s) (s_cww s) (s_j s) (s_wpc s) v (s_mtw s) (s_rw s) (s_ew s) (s_epc s).
Definition set_mtw (s : st) (v : val) : st := mk_st (s_tb s) (s_frc s) (s_nc s) (s_cw s) (s_bsx s) (s_us s) (s_i s) (s_cell s) (s_call s) (s_width s) (s_cww s) (s_j s) (s_wpc s) (s_abs s) v (s_rw s) (s_ew s) (s_epc s).
Definition set_rw (s : st) (v : val) : st := mk_st (s_tb s) (s_frc s) (s_nc s) (s_cw s) (s_bsx s) (s_us s) (s_i s) (s_cell s) (s_call s) (s_width s) (s_cww s) (s_j s) (s_wpc s) (s_abs s) (s_mtw s) v (s_ew s) (s_epc s).
Definition set_ew (s : st) (v : val) : st := mk_st (s_tb s) (s_frc s) (s_nc s) (s_cw s) (s_bsx s) (s_us s) (s_i s) (s_cell s) (s_call s) (s_width s) (s_cww s) (s_j s) (s_wpc s) (s_abs s) (s_mtw s) (s_rw s) v (s_epc s).
Definition set_epc (s : st) (v : val) : st := mk_st (s_tb s) (s_frc s) (s_nc s) (s_cw s) (s_bsx s) (s_us s) (s_i s) (s_cell s) (s_call s) (s_width s) (s_cww s) (s_j s) (s_wpc s) (s_abs s) (s_mtw s) (s_rw s) (s_ew s) v.

Ltac fold_env :=
  match goal with |- context [ [("table", ?x_tb); ("first_row_cells", ?x_frc); ("num_columns", ?x_nc); ("column_widths", ?x_cw); ("border_spacing_x", ?x_bsx); ("_", ?x_us); ("i", ?x_i); ("cell", ?x_cell); ("%call", ?x_call); ("width", ?x_width); ("columns_without_width", ?x_cww); ("j", ?x_j); ("width_per_column", ?x_wpc); ("all_border_spacing", ?x_abs); ("min_table_width", ?x_mtw); ("remaining_width", ?x_rw); ("extra_width", ?x_ew); ("extra_per_column", ?x_epc)] ] =>
    change [("table", x_tb); ("first_row_cells", x_frc); ("num_columns", x_nc); ("column_widths", x_cw); ("border_spacing_x", x_bsx); ("_", x_us); ("i", x_i); ("cell", x_cell); ("%call", x_call); ("width", x_width); ("columns_without_width", x_cww); ("j", x_j); ("width_per_column", x_wpc); ("all_border_spacing", x_abs); ("min_table_width", x_mtw); ("remaining_width", x_rw); ("extra_width", x_ew); ("extra_per_column", x_epc)] with (E (mk_st x_tb x_frc x_nc x_cw x_bsx x_us x_i x_cell x_call x_width x_cww x_j x_wpc x_abs x_mtw x_rw x_ew x_epc)) end.

Lemma if_same {T} (b : bool) (x : T) : (if b then x else x) = x.
Proof. destruct b; reflexivity. Qed.
Lemma truthy_list {T} (l : list T) : match l with [] => false | _ => true end = negb (Nat.eqb (List.length l) 0).
Proof. destruct l; reflexivity. Qed.

Lemma last_cons_default {T} (x : T) l : forall d, last (x :: l) d = last l x.
Proof. revert x. induction l as [|y l IH]; intros x d; [reflexivity|]. change (last (x :: y :: l) d) with (last (y :: l) d). rewrite !IH. reflexivity. Qed.

Section Interp.
Variable oc : string -> list val -> val.
Variable fuel : nat.
Definition O := mkOps Qplus Qminus Qmult Qdiv Qmax Qmin Qle_bool Qeq_bool oc fuel.
Variable A : Type.
Variables (kret : env -> val -> A) (kerr : string -> A).

Ltac evs := cbn [exec eval lookup update String.eqb Ascii.eqb Bool.eqb assign1 tget fold_left bool_k arith_k cmp_k
                 veq_k minmax_k rev app combine List.length Nat.eqb flowing fst snd negb gen_collect gen_iter
                 O qadd qsub qmul qdiv qmax qmin qleb qeqb ocall E vnat voq
                 s_tb s_frc s_nc s_cw s_bsx s_us s_i s_cell s_call s_width s_cww s_j s_wpc s_abs s_mtw s_rw s_ew s_epc
                 set_tb set_cw set_bsx set_us set_i set_cell set_call set_width set_cww set_j set_wpc set_abs set_mtw
                 set_rw set_ew set_epc].
Ltac stepb := rewrite exec_block_cons.

Lemma prim_len l : prim_apply PLen [VList l] = VNum (qnat (List.length l)).
Proof. reflexivity. Qed.
Lemma prim_enumerate l : prim_apply PEnumerate [VList l] = VList (enum_from 0 l).
Proof. reflexivity. Qed.
Lemma prim_sum l : prim_apply PSum [VList (map VNum l)] = VNum (sumL l).
Proof. cbn [prim_apply]. now rewrite sum_vals_num. Qed.

Lemma exec_for_gen x it b rho k :
  exec O A kret kerr (SFor x it b) rho k =
  eval O A kerr rho it (fun vit =>
    match vit with
    | VList l => gen_iter (fun v rho k' => exec_block O A kret kerr b (update x v rho) k') l rho k
    | VErr m => kerr m | _ => kerr "TypeError" end).
Proof. reflexivity. Qed.

(* ---- `for j in range(i, i + cell.colspan)`: one iteration, then the loop *)
Lemma l1_step cwl j w acc s k :
  (j < List.length cwl)%nat ->
  s_cw s = VList (map voq cwl) -> s_width s = VNum w -> s_cww s = VList (map vnat acc) -> s_j s = vnat j ->
  exec_block O A kret kerr l1_body (E s) k =
  k (E (match nth j cwl None with
        | None => set_cww s (VList (map vnat (acc ++ [j])))
        | Some v => set_width s (VNum (w - v))
        end)).
Proof.
  intros Hj Hc Hw Ha Hjj. destruct s. cbn [s_cw s_width s_cww s_j] in *. subst.
  unfold l1_body, then_body, cell_body, s_for, body, fixed_cells_finish_body. cbn [nth].
  stepb. rewrite exec_if. evs.
  rewrite (pindex_nat _ j) by (now rewrite map_length).
  rewrite nth_map_voq by exact Hj.
  destruct (nth j cwl None) as [v|] eqn:En; cbn [voq]; stepb; evs.
  - rewrite (pindex_nat _ j) by (now rewrite map_length).
    rewrite nth_map_voq by exact Hj. rewrite En. evs. reflexivity.
  - rewrite map_app. reflexivity.
Qed.

Lemma l1_loop cwl : forall js w acc s k,
  Forall (fun j => (j < List.length cwl)%nat) js ->
  s_cw s = VList (map voq cwl) -> s_width s = VNum w -> s_cww s = VList (map vnat acc) ->
  gen_iter (fun v rho k' => exec_block O A kret kerr l1_body (update "j" v rho) k') (map vnat js) (E s) k =
  k (E (set_j (set_width (set_cww s (VList (map vnat (acc ++ l1_idx cwl js)))) (VNum (l1_w cwl w js)))
              (last (map vnat js) (s_j s)))).
Proof.
  induction js as [|j js IH]; intros w acc s k Hjs Hc Hw Ha.
  - cbn [map gen_iter l1_idx l1_w filter fold_left last]. rewrite app_nil_r. destruct s. cbn [s_cw s_width s_cww s_j] in *. subst. reflexivity.
  - inversion Hjs as [|? ? Hj Hjs']; subst. cbn [map gen_iter].
    change (update "j" (vnat j) (E s)) with (E (set_j s (vnat j))).
    rewrite (l1_step cwl j w acc) by (assumption || reflexivity).
    rewrite last_cons_default.
    unfold l1_idx, l1_w. cbn [filter fold_left]. fold (l1_idx cwl js).
    destruct (nth j cwl None) as [v|] eqn:En; cbn [is_none].
    + rewrite (IH (w - v) acc) by (assumption || reflexivity).
      destruct s. cbn [s_cw s_width s_cww s_j] in *. subst. reflexivity.
    + rewrite (IH w (acc ++ [j])) by (assumption || reflexivity).
      rewrite <- app_assoc. destruct s. cbn [s_cw s_width s_cww s_j] in *. subst. reflexivity.
Qed.

(* ---- `for j in columns_without_width: column_widths[j] = width_per_column` (and the two loops over `i` at the end) *)
Definition lvn (lv : bool) : string := if lv then "j" else "i".
Definition set_lv (lv : bool) (s : st) (v : val) : st := if lv then set_j s v else set_i s v.
Definition get_lv (lv : bool) (s : st) : val := if lv then s_j s else s_i s.
Definition sval (ec : bool) (q : Q) : expr := if ec then EVar "width_per_column" else EConst (VNum q).
Definition l2_body lv ec q : list stmt := [SSetItem "column_widths" (EVar (lvn lv)) (sval ec q)].

Lemma l2_step lv ec q l j s k :
  (j < List.length l)%nat -> s_cw s = VList l -> (ec = true -> s_wpc s = VNum q) -> get_lv lv s = vnat j ->
  exec_block O A kret kerr (l2_body lv ec q) (E s) k = k (E (set_cw s (VList (list_set l j (VNum q))))).
Proof.
  intros Hj Hc Hw Hl. unfold l2_body.
  destruct s, lv, ec; cbn [s_cw s_wpc get_lv s_i s_j lvn sval] in *; try specialize (Hw eq_refl); subst;
    stepb; evs; rewrite (setitem_nat l j) by exact Hj; evs; reflexivity.
Qed.

Lemma l2_loop lv ec q : forall js l s k,
  Forall (fun j => (j < List.length l)%nat) js -> s_cw s = VList l -> (ec = true -> s_wpc s = VNum q) ->
  gen_iter (fun v rho k' => exec_block O A kret kerr (l2_body lv ec q) (update (lvn lv) v rho) k') (map vnat js) (E s) k =
  k (E (set_lv lv (set_cw s (VList (set_all l js (VNum q)))) (last (map vnat js) (get_lv lv s)))).
Proof.
  induction js as [|j js IH]; intros l s k Hjs Hc Hw.
  - cbn [map gen_iter set_all fold_left last]. destruct s, lv; cbn [s_cw] in *; subst; reflexivity.
  - inversion Hjs as [|? ? Hj Hjs']; subst. cbn [map gen_iter].
    replace (update (lvn lv) (vnat j) (E s)) with (E (set_lv lv s (vnat j))) by (destruct lv; reflexivity).
    rewrite (l2_step lv ec q l j); [|exact Hj|destruct lv; exact Hc|destruct lv; exact Hw|destruct lv; reflexivity].
    rewrite (IH (list_set l j (VNum q))).
    + rewrite last_cons_default. unfold set_all. cbn [fold_left]. destruct s, lv; reflexivity.
    + eapply Forall_impl; [|exact Hjs']. cbn. intros a Ha. now rewrite list_set_length.
    + destruct lv; reflexivity.
    + destruct lv; exact Hw.
Qed.
End Interp.

(* ---- from here on the answer type is Prop: [exec_block ... rho K] reads "the run from rho reaches an environment
   that satisfies K, without raising" *)
Section WP.
Variable oc : string -> list val -> val.
Variable fuel : nat.
Variable kret : env -> val -> Prop.
Notation OO := (O oc fuel).
Notation XB := (exec_block (O oc fuel) Prop kret (fun _ => False)).

Ltac evs := cbn [exec eval lookup update String.eqb Ascii.eqb Bool.eqb assign1 tget fold_left bool_k arith_k cmp_k
                 veq_k minmax_k rev app combine List.length Nat.eqb flowing fst snd negb gen_collect gen_iter
                 O qadd qsub qmul qdiv qmax qmin qleb qeqb ocall E vnat voq
                 s_tb s_frc s_nc s_cw s_bsx s_us s_i s_cell s_call s_width s_cww s_j s_wpc s_abs s_mtw s_rw s_ew s_epc
                 set_tb set_cw set_bsx set_us set_i set_cell set_call set_width set_cww set_j set_wpc set_abs set_mtw
                 set_rw set_ew set_epc set_lv get_lv].
Ltac stepb := rewrite exec_block_cons.

(* ---- one cell of the first row *)
Section Cells.
Variable T : Type.
Variable cin : T -> list (string * val).       (* the cell before resolve_percentages *)
Variable rc : T -> rcell.                      (* what the loop reads of it afterwards *)
Variable cextra : T -> list (string * val).    (* its other attributes *)
Variable tf : list (string * val).             (* the table *)
Definition rcellv (t : T) : val :=
  VObj (("width", match r_w (rc t) with None => VStr "auto" | Some v => VNum v end) ::
        ("colspan", VNum (qnat (r_span (rc t)))) :: cextra t).
Hypothesis HR : forall t, oc "resolve_percentages" [VObj (cin t); VObj tf] = VList [VNone; rcellv t].
Hypothesis HB : forall t v, r_w (rc t) = Some v -> oc ".border_width" [rcellv t] = VNum (r_bw (rc t)).

Lemma cell_wp t pre seg post sp s (K : env -> Prop) :
  List.length seg = r_span (rc t) -> s_tb s = VObj tf -> s_bsx s = VNum sp ->
  s_cw s = VList (map voq (pre ++ seg ++ post)) -> s_i s = vnat (List.length pre) ->
  (forall s', s_tb s' = VObj tf -> s_nc s' = s_nc s -> s_bsx s' = VNum sp ->
              s_cw s' = VList (map voq (pre ++ icell sp (rc t) seg ++ post)) ->
              s_i s' = vnat (List.length pre + r_span (rc t)) -> K (E s')) ->
  XB cell_body (E (set_cell s (VObj (cin t)))) K.
Proof.
  intros Hlen Htb Hsp Hcw Hi HK. destruct s. cbn [s_tb s_bsx s_cw s_i s_nc] in *. subst.
  pose proof (HR t) as Hr. pose proof (HB t) as Hb. unfold rcellv in Hr, Hb. unfold icell in HK.
  assert (Hn : r_span (rc t) = List.length seg) by auto. clear Hlen. rewrite Hn in *.
  unfold cell_body, s_for, body, fixed_cells_finish_body. cbn [nth].
  stepb. evs. rewrite Hr. evs.
  stepb. rewrite exec_if. evs.
  destruct (r_w (rc t)) as [v|] eqn:Erw.
  - specialize (Hb v eq_refl). evs.
    stepb. evs. rewrite Hb. evs.
    stepb. evs. stepb. evs.
    stepb. rewrite exec_for_gen. evs. rewrite range_nat.
    try fold_env.
    rewrite (l1_loop oc fuel Prop kret (fun _ => False) (pre ++ seg ++ post) _ (r_bw (rc t) - sp * (qnat (List.length seg) - 1)) []).
    2:{ clear. apply Forall_forall. intros j Hj. apply in_seq in Hj. rewrite !app_length. lia. }
    2-4: reflexivity.
    rewrite l1_w_seg, l1_idx_seg. cbn [app].
    evs. stepb. rewrite exec_if. evs.
    rewrite truthy_list, map_length, nidx_length.
    destruct (nnone seg) as [|kk] eqn:Ek; evs.
    + repeat (rewrite exec_block_nil; evs). stepb. evs. rewrite Qplus_qnat. try fold_env. apply HK; reflexivity.
    + stepb. evs. rewrite prim_len, map_length, nidx_length, Ek. evs. rewrite qnat_eq0. evs.
      stepb. rewrite exec_for_gen. evs. try fold_env.
      rewrite (l2_loop oc fuel Prop kret (fun _ => False) true true
                 (Qmax 0 (sw (r_bw (rc t) - sp * (qnat (List.length seg) - 1)) seg) / qnat (S kk))
                 (nidx (List.length pre) seg) (map voq (pre ++ seg ++ post))).
      2:{ pose proof (nidx_bound seg (List.length pre)) as Hb'. eapply Forall_impl; [|exact Hb'].
          cbn. intros a Ha. rewrite map_length, !app_length. lia. }
      2: reflexivity.
      2: intros _; reflexivity.
      rewrite set_all_fill. evs. repeat (rewrite exec_block_nil; evs). stepb. evs. rewrite Qplus_qnat. try fold_env.
      apply HK; reflexivity.
  - evs. repeat (rewrite exec_block_nil; evs). stepb. evs. rewrite Qplus_qnat. try fold_env. apply HK; reflexivity.
Qed.

Lemma icell_length sp c seg : List.length (icell sp c seg) = List.length seg.
Proof. unfold icell. destruct (r_w c); [|reflexivity]. destruct (nnone seg); [reflexivity|apply fill_length]. Qed.

Definition spansT (cells : list T) : nat := fold_right (fun t n => (r_span (rc t) + n)%nat) 0%nat cells.

Lemma cells_wp sp : forall (cells : list T) pre rest s (K : env -> Prop),
  (spansT cells <= List.length rest)%nat ->
  s_tb s = VObj tf -> s_bsx s = VNum sp -> s_cw s = VList (map voq (pre ++ rest)) -> s_i s = vnat (List.length pre) ->
  (forall s', s_tb s' = VObj tf -> s_nc s' = s_nc s -> s_bsx s' = VNum sp ->
              s_cw s' = VList (map voq (pre ++ icells sp (map rc cells) rest)) -> K (E s')) ->
  gen_iter (fun v rho k' => XB cell_body (update "cell" v rho) k') (map (fun t => VObj (cin t)) cells) (E s) K.
Proof.
  induction cells as [|t cells IH]; intros pre rest s K Hsp Htb Hbs Hcw Hi HK.
  - cbn [map gen_iter icells]. apply HK; auto.
  - cbn [map gen_iter icells]. cbn [spansT fold_right] in Hsp. fold (spansT cells) in Hsp.
    change (update "cell" (VObj (cin t)) (E s)) with (E (set_cell s (VObj (cin t)))).
    apply (cell_wp t pre (firstn (r_span (rc t)) rest) (skipn (r_span (rc t)) rest) sp); auto.
    + rewrite firstn_length. lia.
    + now rewrite firstn_skipn.
    + intros s' H1 H2 H3 H4 H5.
      apply (IH (pre ++ icell sp (rc t) (firstn (r_span (rc t)) rest)) (skipn (r_span (rc t)) rest)).
      * rewrite skipn_length. lia.
      * exact H1.
      * exact H3.
      * rewrite H4. now rewrite <- app_assoc.
      * rewrite H5, app_length, icell_length, firstn_length. f_equal. lia.
      * intros s'' G1 G2 G3 G4. apply HK; auto; [congruence|]. rewrite G4. now rewrite <- app_assoc.
Qed.
End Cells.

Lemma flowing_E s : flowing (E s) = false.
Proof. reflexivity. Qed.

(* ---- after the cells: the columns still unknown share what is left *)
Definition is_some (o : option Q) : bool := negb (is_none o).
Lemma voq_somes l : map voq (filter is_some l) = map VNum (somes l).
Proof. induction l as [|[q|] l IH]; cbn; [reflexivity| |exact IH]. now rewrite IH. Qed.
Lemma voq_oval l : nnone l = 0%nat -> map voq l = map VNum (map oval l).
Proof.
  induction l as [|[q|] l IH]; [reflexivity| |]; rewrite nnone_cons; cbn [is_none]; intros H; [|discriminate].
  cbn [map voq oval]. now rewrite IH.
Qed.
Lemma filter_true {T} (l : list T) : filter (fun _ => true) l = l.
Proof. induction l; cbn; congruence. Qed.

Section Finish.
Variable tf : list (string * val).
Variables (W sp : Q) (n : nat).
Hypothesis Hw : lookup "width" tf = VNum W.

Definition cw2_of (cw1 : list (option Q)) : list (option Q) :=
  let allsp := sp * (qnat n + 1) in
  let minw := sumL (somes cw1) + allsp in
  if (0 <? nnone cw1)%nat && Qle_bool minw W then fill ((W - minw) / qnat (nnone cw1)) cw1 else fill 0 cw1.

Lemma finish1_wp cw1 s (K : env -> Prop) :
  s_tb s = VObj tf -> s_bsx s = VNum sp -> s_nc s = VNum (qnat n) -> s_cw s = VList (map voq cw1) ->
  (forall s', s_tb s' = VObj tf -> s_nc s' = VNum (qnat n) -> s_abs s' = VNum (sp * (qnat n + 1)) ->
              s_cw s' = VList (map voq (cw2_of cw1)) -> XB (skipn 4 finish_body) (E s') K) ->
  XB finish_body (E s) K.
Proof.
  intros Htb Hbs Hnc Hcw HK. destruct s. cbn [s_tb s_bsx s_nc s_cw] in *. subst. unfold cw2_of in HK.
  unfold finish_body, body, fixed_cells_finish_body in *. cbn [skipn] in *.
  stepb. evs.
  stepb. evs.
  rewrite (gen_collect_fm _ voq is_some voq) by (intros [q|] kk; reflexivity).
  cbn [rev app]. rewrite voq_somes, prim_sum. evs.
  stepb. evs. rewrite prim_enumerate, enum_from_voq. evs.
  rewrite (gen_collect_fm _ vpair (fun p => is_none (snd p)) (fun p => vint (fst p))) by (intros [z [q|]] kk; reflexivity).
  cbn [rev app]. change (zenum 0 cw1) with (zenum (Z.of_nat 0) cw1). rewrite zenum_nidx. evs.
  stepb. rewrite exec_if. evs.
  rewrite truthy_list, map_length, nidx_length.
  rewrite ?Hw. evs.
  assert (Hbound : Forall (fun j => (j < List.length (map voq cw1))%nat) (nidx 0 cw1)).
  { pose proof (nidx_bound cw1 0) as Hb'. eapply Forall_impl; [|exact Hb']. cbn. intros a Ha. now rewrite map_length. }
  assert (Helse : forall s0 (KK : env -> Prop), s_tb s0 = VObj tf -> s_nc s0 = VNum (qnat n) -> s_abs s0 = VNum (sp * (qnat n + 1)) ->
            s_cw s0 = VList (map voq cw1) -> s_cww s0 = VList (map vnat (nidx 0 cw1)) ->
            (forall s', s_tb s' = VObj tf -> s_nc s' = VNum (qnat n) -> s_abs s' = VNum (sp * (qnat n + 1)) ->
                        s_cw s' = VList (map voq (fill 0 cw1)) -> KK (E s')) ->
            XB [SFor "i" (EVar "columns_without_width") [SSetItem "column_widths" (EVar "i") (EConst (VNum 0))]]
               (E s0) KK).
  { intros s0 KK G1 G2 G3 G4 G5 HK0. destruct s0. cbn [s_tb s_nc s_abs s_cw s_cww] in *. subst.
    stepb. rewrite exec_for_gen. evs. try fold_env.
    rewrite (l2_loop oc fuel Prop kret (fun _ => False) false false 0 (nidx 0 cw1) (map voq cw1));
      [|exact Hbound|reflexivity|intros H; discriminate].
    rewrite set_all_fill_all. evs. repeat (rewrite exec_block_nil; evs). try fold_env. apply HK0; reflexivity. }
  destruct (nnone cw1) as [|kk] eqn:Ek; cbn [Nat.eqb negb Nat.ltb Nat.leb andb] in *.
  - try fold_env. apply Helse; try reflexivity. intros s' G1 G2 G3 G4. rewrite flowing_E. now apply HK.
  - destruct (Qle_bool (sumL (somes cw1) + sp * (qnat n + 1)) W) eqn:Eq; evs.
    + stepb. evs. rewrite ?Hw. evs. stepb. evs. rewrite prim_len, map_length, nidx_length, Ek. evs.
      rewrite qnat_eq0. evs. stepb. rewrite exec_for_gen. evs. try fold_env.
      rewrite (l2_loop oc fuel Prop kret (fun _ => False) false true
                 ((W - (sumL (somes cw1) + sp * (qnat n + 1))) / qnat (S kk)) (nidx 0 cw1) (map voq cw1));
        [|exact Hbound|reflexivity|intros _; reflexivity].
      rewrite set_all_fill_all. evs. repeat (rewrite exec_block_nil; evs). try fold_env. apply HK; reflexivity.
    + try fold_env. apply Helse; try reflexivity. intros s' G1 G2 G3 G4. rewrite flowing_E. now apply HK.
Qed.

Definition fin2 (cw2 : list (option Q)) : Q * list Q :=
  let allsp := sp * (qnat n + 1) in
  let ws := map oval cw2 in
  let extra := W - sumL ws - allsp in
  if Qle_bool extra 0 then (W - extra, ws)
  else match n with
       | Datatypes.O => (W, ws)
       | _ => (W, map (fun w => w + extra / qnat n) ws)
       end.
Lemma ifinish_fin2 cw1 : ifinish W sp n cw1 = fin2 (cw2_of cw1).
Proof. reflexivity. Qed.

(* what the statements leave in `table`: the two attributes, the others untouched *)
Definition table_is (R : Q * list Q) (tb : val) : Prop :=
  exists tf', tb = VObj tf' /\ lookup "width" tf' = VNum (fst R) /\ lookup "column_widths" tf' = VList (map VNum (snd R)) /\
              forall x, String.eqb x "width" = false -> String.eqb x "column_widths" = false -> lookup x tf' = lookup x tf.

Lemma finish2_wp cw2 s (K : env -> Prop) :
  nnone cw2 = 0%nat ->
  s_tb s = VObj tf -> s_nc s = VNum (qnat n) -> s_abs s = VNum (sp * (qnat n + 1)) -> s_cw s = VList (map voq cw2) ->
  (forall s', table_is (fin2 cw2) (s_tb s') -> K (E s')) ->
  XB (skipn 4 finish_body) (E s) K.
Proof.
  intros Hn Htb Hnc Habs Hcw HK. destruct s. cbn [s_tb s_nc s_abs s_cw] in *. subst. unfold fin2 in HK.
  unfold finish_body, body, fixed_cells_finish_body. cbn [skipn].
  stepb. evs. rewrite Hw. evs. rewrite (voq_oval cw2 Hn), prim_sum. evs.
  stepb. rewrite exec_if. evs.
  destruct (Qle_bool (W - sumL (map oval cw2) - sp * (qnat n + 1)) 0) eqn:Ee.
  - stepb. evs. rewrite Hw. evs. repeat (rewrite exec_block_nil; evs). stepb. evs. try fold_env. apply HK.
    eexists. split; [reflexivity|]. cbn [fst snd s_tb].
    rewrite !lookup_update. cbn [String.eqb Ascii.eqb Bool.eqb]. split; [first [exact Hw|reflexivity]|]. split; [reflexivity|].
    intros x H1 H2. rewrite !lookup_update, H1, H2. reflexivity.
  - stepb. rewrite exec_if. evs. rewrite qnat_eq0.
    destruct n as [|n'] eqn:En; cbn [Nat.eqb negb].
    + repeat (rewrite exec_block_nil; evs). stepb. evs. try fold_env. apply HK.
      eexists. split; [reflexivity|]. cbn [fst snd s_tb].
      rewrite !lookup_update. cbn [String.eqb Ascii.eqb Bool.eqb]. split; [first [exact Hw|reflexivity]|]. split; [reflexivity|].
      intros x H1 H2. rewrite !lookup_update, H2. reflexivity.
    + stepb. evs. rewrite qnat_eq0. evs. stepb. evs.
      rewrite (gen_collect_fm _ VNum (fun _ => true)
                 (fun w => VNum (w + (W - sumL (map oval cw2) - sp * (qnat (S n') + 1)) / qnat (S n'))))
        by (intros x kk; reflexivity).
      rewrite filter_true. cbn [rev app]. evs. repeat (rewrite exec_block_nil; evs). stepb. evs. try fold_env. apply HK.
      eexists. split; [reflexivity|]. cbn [fst snd s_tb].
      rewrite !lookup_update. cbn [String.eqb Ascii.eqb Bool.eqb]. rewrite !map_map. split; [first [exact Hw|reflexivity]|]. split; [reflexivity|].
      intros x H1 H2. rewrite !lookup_update, H2. reflexivity.
Qed.
End Finish.

Section Main.
Variable T : Type.
Variable cin : T -> list (string * val).
Variable rc : T -> rcell.
Variable cextra : T -> list (string * val).
Variables (tf sf : list (string * val)) (bc : string) (sx W : Q) (sy : val).
Hypothesis Hstyle : lookup "style" tf = VObj sf.
Hypothesis Hbc : lookup "border_collapse" sf = VStr bc.
Hypothesis Hbs : lookup "border_spacing" sf = VList [VNum sx; sy].
Hypothesis Hw : lookup "width" tf = VNum W.
Hypothesis HR : forall t, oc "resolve_percentages" [VObj (cin t); VObj tf] = VList [VNone; rcellv T rc cextra t].
Hypothesis HB : forall t v, r_w (rc t) = Some v -> oc ".border_width" [rcellv T rc cextra t] = VNum (r_bw (rc t)).

(* the horizontal border spacing the statements choose *)
Definition spacing : Q := if String.eqb bc "separate" then sx else 0.

Lemma nnone_cw2 sp n cw1 : nnone (cw2_of W sp n cw1) = 0%nat.
Proof. unfold cw2_of. cbv zeta. destruct (_ && _); apply nnone_fill. Qed.

Lemma body_wp (cells : list T) (cw : list (option Q)) s0 (K : env -> Prop) :
  s_tb s0 = VObj tf -> s_frc s0 = VList (map (fun t => VObj (cin t)) cells) ->
  s_nc s0 = VNum (qnat (List.length cw)) -> s_cw s0 = VList (map voq cw) ->
  (spansT T rc cells <= List.length cw)%nat ->
  (forall s', table_is tf (ifinish W spacing (List.length cw) (icells spacing (map rc cells) cw)) (s_tb s') -> K (E s')) ->
  XB body (E s0) K.
Proof.
  intros Htb Hfrc Hnc Hcw Hsp HK. destruct s0. cbn [s_tb s_frc s_nc s_cw] in *. subst. unfold spacing in HK.
  assert (Hrest : forall SP s1, s_tb s1 = VObj tf -> s_nc s1 = VNum (qnat (List.length cw)) -> s_bsx s1 = VNum SP ->
            s_cw s1 = VList (map voq cw) -> s_i s1 = vnat 0 ->
            s_frc s1 = VList (map (fun t => VObj (cin t)) cells) ->
            (forall s', table_is tf (ifinish W SP (List.length cw) (icells SP (map rc cells) cw)) (s_tb s') -> K (E s')) ->
            XB (skipn 2 body) (E s1) K).
  { intros SP s1 G1 G2 G3 G4 G5 G6 HK1. destruct s1. cbn [s_tb s_nc s_bsx s_cw s_i s_frc] in *. subst.
    unfold body, fixed_cells_finish_body. cbn [skipn].
    stepb. rewrite exec_for_gen. evs. try fold_env.
    apply (cells_wp T cin rc cextra tf HR HB SP cells [] cw); [exact Hsp|reflexivity|reflexivity|reflexivity|reflexivity|].
    intros s' H1 H2 H3 H4. rewrite flowing_E. cbn [app] in H4.
    apply (finish1_wp tf W SP (List.length cw) Hw (icells SP (map rc cells) cw)); [exact H1|exact H3|exact H2|exact H4|].
    intros s'' F1 F2 F3 F4.
    apply (finish2_wp tf W SP (List.length cw) Hw (cw2_of W SP (List.length cw) (icells SP (map rc cells) cw)));
      [apply nnone_cw2|exact F1|exact F2|exact F3|exact F4|].
    intros s3 Ht. apply HK1. rewrite ifinish_fin2. exact Ht. }
  unfold body, fixed_cells_finish_body in *. cbn [skipn] in Hrest.
  stepb. rewrite exec_if. evs. rewrite Hstyle. evs. rewrite Hbc. evs.
  destruct (String.eqb bc "separate") eqn:Ebc; cbn [negb].
  - stepb. evs. rewrite Hstyle. evs. rewrite Hbs. evs. repeat (rewrite exec_block_nil; evs).
    stepb. evs. try fold_env. apply (Hrest sx); try reflexivity. exact HK.
  - stepb. evs. repeat (rewrite exec_block_nil; evs).
    stepb. evs. try fold_env. apply (Hrest 0); try reflexivity. exact HK.
Qed.
End Main.
End WP.
