(* C15 - weasyprint/css/counters.py as REGENERATED on every run (gen/GenCounters.v): the function `symbol`, the
   branches `system == 'cyclic'` and `system == 'fixed'` of CounterStyle.render_value against [represent] of the
   hand model model/C15Style.v, and the LINKED statements of the four branches: `symbol(..)` answered by its own
   regenerated body, only the recursive call of render_value (decimal / fallback style) left to an oracle
   [render]. *)
From Coq Require Import ZArith QArith List String Bool Lia.
Require Import WV.model.C15Style WV.model.C15Builtins WV.proofs.C15_digits WV.proofs.C15_gen_base.
Require Import WV.proofs.C15_render WV.proofs.C15_gen_numeric WV.proofs.C15_gen_alphabetic.
Require WV.proofs.PyNatural.
Require Import WV.base.Py WV.base.PyLink WV.gen.GenCounters.
Import ListNotations.
Open Scope string_scope.
Open Scope list_scope.

(* ------------------------------------------------------------------------------------------- symbol() *)
Theorem gen_symbol O p :
  run O symbol_body [("string_or_url", vsym p)] (fun _ r => r = Some (VStr (psym_str p))) (fun _ => False).
Proof. destruct p; lazy -[qadd qsub qmul qdiv qmax qmin qleb qeqb ocall wfuel]; reflexivity. Qed.

Lemma Qle_bool_0_eq q i : (q == inject_Z i)%Q -> Qle_bool (0 # 1) q = (0 <=? i)%Z.
Proof.
  intros E. change (0 # 1) with (inject_Z 0). rewrite <- Qle_bool_vint.
  destruct (Qle_bool (inject_Z 0) q) eqn:E1, (Qle_bool (inject_Z 0) (inject_Z i)) eqn:E2; try reflexivity.
  - apply Qle_bool_iff in E1. rewrite E in E1. apply Qle_bool_iff in E1. congruence.
  - apply Qle_bool_iff in E2. rewrite <- E in E2. apply Qle_bool_iff in E2. congruence.
Qed.
Lemma Qle_bool_n_eq n q i : (q == inject_Z i)%Q -> Qle_bool (inject_Z n) q = (n <=? i)%Z.
Proof.
  intros E. rewrite <- Qle_bool_vint.
  destruct (Qle_bool (inject_Z n) q) eqn:E1, (Qle_bool (inject_Z n) (inject_Z i)) eqn:E2; try reflexivity.
  - apply Qle_bool_iff in E1. rewrite E in E1. apply Qle_bool_iff in E1. congruence.
  - apply Qle_bool_iff in E2. rewrite <- E in E2. apply Qle_bool_iff in E2. congruence.
Qed.
Lemma inject_Z_minus a b : (inject_Z a - inject_Z b == inject_Z (a - b))%Q.
Proof. unfold Qminus, Z.sub. now rewrite inject_Z_plus, inject_Z_opp. Qed.

Section Simple.
Variable O : qops.
Hypothesis HO : ops_ok O.
Hypothesis HS : forall p, ocall O "symbol" [vsym p] = VStr (psym_str p).

Variables (sf : list (string * val)) (fb : option string) (rest : list (string * val)).
Notation self := (VObj sf).

Ltac ev := lazy -[qadd qsub qmul qdiv qmax qmin qleb qeqb ocall wfuel prim_apply inject_Z Z.abs Z.div Z.modulo
                  Z.of_nat Z.eqb Z.leb Z.ltb negb Qminus Z.sub Z.add Z.opp andb].
Ltac ev_all := lazy -[qadd qsub qmul qdiv qmax qmin qleb qeqb ocall wfuel inject_Z].
Ltac unseal :=
  rewrite ?(qadd_eq _ HO), ?(qsub_eq _ HO), ?(qmul_eq _ HO), ?(qdiv_eq _ HO), ?(qmax_eq _ HO), ?(qmin_eq _ HO),
          ?(qleb_eq _ HO), ?(qeqb_eq _ HO) in *.

Section Syms.
Variables (l : list psym) (L : list val) (n : Z).
Hypothesis HL : L = map vsym l.
Hypothesis Hn : n = Z.of_nat (List.length l).
Definition scounter : val := VObj (("symbols", VList L) :: ("fallback", vfallback fb) :: rest).
Lemma slength_L : Z.of_nat (List.length L) = n.
Proof. subst L n. now rewrite map_length. Qed.

(* symbol(counter['symbols'][index]) for an index that is the integer i up to ==, 0 <= i < n *)
Lemma index_symbol A kret kerr (q : Q) (i : Z) (rho : env) (k : env -> A) :
  (q == inject_Z i)%Q -> (0 <= i < n)%Z ->
  Py.lookup "counter" rho = scounter -> Py.lookup "index" rho = VNum q ->
  exec O A kret kerr
    (SAssign [TVar "initial"]
       (ECall "symbol" [EPrim PIndex [ESubscr (EVar "counter") "symbols"; EVar "index"]])) rho k =
  k (update "initial" (VStr (digit_str l i)) rho).
Proof.
  intros Hq Hi Hc Hx.
  assert (Hb : (0 <= i < Z.of_nat (List.length L))%Z) by (rewrite slength_L; exact Hi).
  cbn [exec eval]. rewrite Hc, Hx. cbn [scounter Py.lookup String.eqb Ascii.eqb Bool.eqb rev app].
  rewrite (prim_index_nth L q i Hq Hb). rewrite HL at 1.
  rewrite nth_vsym by (rewrite HL, map_length in Hb; lia).
  unfold digit_str. set (p := nth (Z.to_nat i) l (PUrl "")).
  pose proof (HS p) as Hp. destruct p; cbn [vsym psym_str] in *; rewrite Hp; reflexivity.
Qed.

(* ---- cyclic *)
Definition cenv0 (z : Z) : env := [("self", self); ("counter", scounter); ("counter_value", vint z)].
Definition cenv1 (z : Z) : env := cenv0 z ++ [("length", vint n)].
Definition cenv2 (z : Z) (q : Q) : env := cenv1 z ++ [("index", VNum q)].

Section CStmts.
Variables (A : Type) (kret : env -> val -> A) (kerr : string -> A).
Lemma c0_step z k : exec O A kret kerr (nth 0 rv_cyclic_body SPass) (cenv0 z) k = k (cenv1 z).
Proof. ev. rewrite prim_len, slength_L. reflexivity. Qed.
Lemma c1_step z k :
  exec O A kret kerr (nth 1 rv_cyclic_body SPass) (cenv1 z) k =
  if (1 <=? n)%Z then k (cenv1 z)
  else match ocall O ".render_value" (rv_args self z "decimal" VNone) with
       | VErr m => kerr m
       | x => kret (cenv1 z) x
       end.
Proof.
  ev. unseal. change (1 # 1) with (inject_Z 1). rewrite Qle_bool_vint. destruct (1 <=? n)%Z; reflexivity.
Qed.
Lemma c2_step z k : (0 < n)%Z ->
  exists q, (q == inject_Z ((z - 1) mod n))%Q /\
  exec O A kret kerr (nth 2 rv_cyclic_body SPass) (cenv1 z) k = k (cenv2 z q).
Proof.
  intros Hpos.
  destruct (prim_mod_eq (inject_Z z - (1 # 1)) (z - 1) n ltac:(lia) (inject_Z_pred z)) as (q & Eq & Hq).
  exists q. split; [exact Hq|].
  ev. unseal. rewrite Eq. reflexivity.
Qed.
Lemma c3_eq : nth 3 rv_cyclic_body SPass =
  SAssign [TVar "initial"] (ECall "symbol" [EPrim PIndex [ESubscr (EVar "counter") "symbols"; EVar "index"]]).
Proof. reflexivity. Qed.
End CStmts.

Lemma cyclic_spec A kret kerr (k : env -> A) v :
  exists rho,
  (exec_block O A kret kerr rv_cyclic_body (cenv0 v) k =
   if (1 <=? n)%Z then k rho
   else match ocall O ".render_value" (rv_args self v "decimal" VNone) with
        | VErr m => kerr m
        | x => kret (cenv1 v) x
        end) /\
  ((1 <= n)%Z -> Py.lookup "initial" rho = VStr (digit_str l ((v - 1) mod n)) /\ flowing rho = false).
Proof.
  destruct (Z.leb_spec 1 n) as [Hge|Hlt].
  - destruct (c2_step A kret kerr v
               (fun rho' => if flowing rho' then k rho'
                            else exec_block O A kret kerr [nth 3 rv_cyclic_body SPass] rho' k) ltac:(lia))
      as (q & Hq & E2).
    exists (update "initial" (VStr (digit_str l ((v - 1) mod n))) (cenv2 v q)).
    split; [|intros _; split; reflexivity].
    change rv_cyclic_body with
      [nth 0 rv_cyclic_body SPass; nth 1 rv_cyclic_body SPass; nth 2 rv_cyclic_body SPass;
       nth 3 rv_cyclic_body SPass].
    rewrite exec_block_cons, c0_step. change (flowing (cenv1 v)) with false. cbv iota.
    rewrite exec_block_cons, c1_step. replace (1 <=? n)%Z with true by (symmetry; apply Z.leb_le; lia).
    change (flowing (cenv1 v)) with false. cbv iota.
    rewrite exec_block_cons, E2. change (flowing (cenv2 v q)) with false. cbv iota.
    rewrite exec_block_cons, c3_eq.
    rewrite (index_symbol A kret kerr q ((v - 1) mod n) (cenv2 v q) _ Hq (Z.mod_pos_bound (v - 1) n ltac:(lia)) eq_refl eq_refl).
    reflexivity.
  - exists []. split; [|intros; lia].
    change rv_cyclic_body with
      [nth 0 rv_cyclic_body SPass; nth 1 rv_cyclic_body SPass; nth 2 rv_cyclic_body SPass;
       nth 3 rv_cyclic_body SPass].
    rewrite exec_block_cons, c0_step. change (flowing (cenv1 v)) with false. cbv iota.
    rewrite exec_block_cons, c1_step. replace (1 <=? n)%Z with false by (symmetry; apply Z.leb_gt; lia).
    reflexivity.
Qed.

(* ---- fixed *)
Variable pl : list val.                      (* previous_types: the list of the styles tried so far *)
Definition vfx (fx : option Z) : val := match fx with Some z => vint z | None => VNone end.
Definition fenv0 (z : Z) (fx : option Z) : env :=
  [("self", self); ("counter", scounter); ("counter_value", vint z); ("fixed_number", vfx fx);
   ("previous_types", VList pl)].
Definition fenv1 (z : Z) (fx : option Z) : env := fenv0 z fx ++ [("length", vint n)].
Definition fenv2 (z first : Z) : env := fenv1 z (Some first) ++ [("index", VNum (inject_Z z - inject_Z first))].
Definition fallback_name : string :=
  match fb with Some f => if String.eqb f "" then "decimal" else f | None => "decimal" end.

Section FStmts.
Variables (A : Type) (kret : env -> val -> A) (kerr : string -> A).
Lemma f0_step z fx k : exec O A kret kerr (nth 0 rv_fixed_body SPass) (fenv0 z fx) k = k (fenv1 z fx).
Proof. ev. rewrite prim_len, slength_L. reflexivity. Qed.
Lemma f1_step z fx k :
  exec O A kret kerr (nth 1 rv_fixed_body SPass) (fenv1 z fx) k =
  if (1 <=? n)%Z then k (fenv1 z fx)
  else match ocall O ".render_value" (rv_args self z "decimal" VNone) with
       | VErr m => kerr m
       | x => kret (fenv1 z fx) x
       end.
Proof.
  ev. unseal. change (1 # 1) with (inject_Z 1). rewrite Qle_bool_vint.
  destruct (1 <=? n)%Z; [reflexivity|]. destruct fx; reflexivity.
Qed.
Lemma f2_step z first k :
  exec O A kret kerr (nth 2 rv_fixed_body SPass) (fenv1 z (Some first)) k = k (fenv2 z first).
Proof. ev. unseal. reflexivity. Qed.
Lemma f2_none z k : exec O A kret kerr (nth 2 rv_fixed_body SPass) (fenv1 z None) k = kerr "TypeError".
Proof. reflexivity. Qed.
Lemma f3_step z first k :
  exec O A kret kerr (nth 3 rv_fixed_body SPass) (fenv2 z first) k =
  if (0 <=? z - first)%Z && (z - first <? n)%Z
  then k (update "initial" (VStr (digit_str l (z - first))) (fenv2 z first))
  else match ocall O ".render_value" (rv_args self z fallback_name (VList pl)) with
       | VErr m => kerr m
       | x => kret (fenv2 z first) x
       end.
Proof.
  pose proof (inject_Z_minus z first) as Hq.
  change (nth 3 rv_fixed_body SPass) with
    (SIf (ECmp (EConst (VNum (0 # 1))) [(LtE, EVar "index"); (Lt, EVar "length")])
       [SAssign [TVar "initial"]
          (ECall "symbol" [EPrim PIndex [ESubscr (EVar "counter") "symbols"; EVar "index"]])]
       [nth 0 (match nth 3 rv_fixed_body SPass with SIf _ _ el => el | _ => [] end) SPass]).
  rewrite exec_if.
  assert (Ht : forall k' : bool -> A,
    eval O A kerr (fenv2 z first) (ECmp (EConst (VNum (0 # 1))) [(LtE, EVar "index"); (Lt, EVar "length")])
      (fun vc => bool_k O A kerr vc k') = k' ((0 <=? z - first)%Z && (z - first <? n)%Z)).
  { intros k'. ev. unseal. rewrite (Qle_bool_0_eq _ _ Hq), (Qle_bool_n_eq n _ _ Hq).
    rewrite (Z.ltb_antisym n (z - first)). destruct (0 <=? z - first)%Z, (n <=? z - first)%Z; reflexivity. }
  rewrite Ht. clear Ht.
  destruct ((0 <=? z - first)%Z && (z - first <? n)%Z) eqn:Hin.
  - apply andb_true_iff in Hin. destruct Hin as [H0 H1]. apply Z.leb_le in H0. apply Z.ltb_lt in H1.
    rewrite exec_block_cons.
    rewrite (index_symbol A kret kerr _ (z - first) (fenv2 z first) _ Hq (conj H0 H1) eq_refl eq_refl). reflexivity.
  - unfold fallback_name. ev. destruct fb as [[|a f']|]; reflexivity.
Qed.
End FStmts.

Lemma fixed_spec A kret kerr (k : env -> A) v fx :
  exec_block O A kret kerr rv_fixed_body (fenv0 v fx) k =
  if (1 <=? n)%Z then
    match fx with
    | None => kerr "TypeError"
    | Some first =>
      if (0 <=? v - first)%Z && (v - first <? n)%Z
      then k (update "initial" (VStr (digit_str l (v - first))) (fenv2 v first))
      else match ocall O ".render_value" (rv_args self v fallback_name (VList pl)) with
           | VErr m => kerr m
           | x => kret (fenv2 v first) x
           end
    end
  else match ocall O ".render_value" (rv_args self v "decimal" VNone) with
       | VErr m => kerr m
       | x => kret (fenv1 v fx) x
       end.
Proof.
  change rv_fixed_body with
    [nth 0 rv_fixed_body SPass; nth 1 rv_fixed_body SPass; nth 2 rv_fixed_body SPass; nth 3 rv_fixed_body SPass].
  rewrite exec_block_cons, f0_step. replace (flowing (fenv1 v fx)) with false by (destruct fx; reflexivity).
  rewrite exec_block_cons, f1_step. destruct (1 <=? n)%Z; [|reflexivity].
  replace (flowing (fenv1 v fx)) with false by (destruct fx; reflexivity).
  rewrite exec_block_cons. destruct fx as [first|]; [|apply f2_none].
  rewrite f2_step. change (flowing (fenv2 v first)) with false. cbv iota.
  rewrite exec_block_cons, f3_step.
  destruct ((0 <=? v - first)%Z && (v - first <? n)%Z); [|reflexivity].
  reflexivity.
Qed.
End Syms.

(* ---- the theorems: the branches against [represent] *)
Theorem gen_cyclic (osyms : option (list psym)) (c : cstyle) (fx : option Z) (v : Z) :
  c_symbols c = msyms osyms ->
  run O rv_cyclic_body
    [("self", self); ("counter", vcounter osyms fb rest); ("counter_value", vint v)]
    (agrees O (rv_args self v "decimal" VNone) [] (represent c "cyclic" fx v))
    (raises O (rv_args self v "decimal" VNone) [] (represent c "cyclic" fx v)).
Proof.
  intros Hc.
  assert (Hrep : represent c "cyclic" fx v =
    match c_symbols c with
    | None => RpExc
    | Some l0 => if (zlen l0 <? 1)%Z then RpDecimal else RpInitial (nth_sym l0 ((v - 1) mod zlen l0))
    end) by reflexivity.
  rewrite Hrep, Hc. clear Hrep. unfold run.
  destruct osyms as [l|]; cbn [msyms].
  - set (n := Z.of_nat (List.length l)). rewrite zlen_msym. fold n.
    change (exec_block O Prop ?kr ?ke rv_cyclic_body
              [("self", self); ("counter", vcounter (Some l) fb rest); ("counter_value", vint v)] ?k)
      with (exec_block O Prop kr ke rv_cyclic_body (cenv0 (map vsym l) v) k).
    match goal with |- exec_block O Prop ?kr ?ke _ _ ?k =>
      destruct (cyclic_spec l (map vsym l) n eq_refl eq_refl Prop kr ke k v) as (rho & E & Hrho) end.
    rewrite E. clear E.
    destruct (Z.ltb_spec n 1) as [Hlt|Hge].
    + replace (1 <=? n)%Z with false by (symmetry; apply Z.leb_gt; exact Hlt).
      cbn [agrees raises]. destruct (ocall O ".render_value" _) eqn:E; try reflexivity.
    + replace (1 <=? n)%Z with true by (symmetry; apply Z.leb_le; exact Hge).
      destruct (Hrho Hge) as [Hi Hf]. cbn [agrees]. split; [reflexivity|].
      rewrite Hi, nth_sym_msym. reflexivity.
  - ev_all. left. reflexivity.
Qed.

Theorem gen_fixed (osyms : option (list psym)) (c : cstyle) (fx : option Z) (v : Z) (pl : list val) :
  c_symbols c = msyms osyms -> c_fallback c = fb -> fb <> Some "" ->
  run O rv_fixed_body
    [("self", self); ("counter", vcounter osyms fb rest); ("counter_value", vint v); ("fixed_number", vfx fx);
     ("previous_types", VList pl)]
    (agrees O (rv_args self v "decimal" VNone) (rv_args self v (fallback_of c) (VList pl))
            (represent c "fixed" fx v))
    (raises O (rv_args self v "decimal" VNone) (rv_args self v (fallback_of c) (VList pl))
            (represent c "fixed" fx v)).
Proof.
  intros Hc Hfb Hne.
  assert (Hrep : represent c "fixed" fx v =
    match c_symbols c with
    | None => RpExc
    | Some l0 =>
      if (zlen l0 <? 1)%Z then RpDecimal else
      match fx with
      | None => RpExc
      | Some first => let i := (v - first)%Z in
                      if (0 <=? i)%Z && (i <? zlen l0)%Z then RpInitial (nth_sym l0 i) else RpFallback
      end
    end) by reflexivity.
  assert (Hname : fallback_of c = fallback_name).
  { unfold fallback_of, fallback_name, orelse. rewrite Hfb. destruct fb as [f|]; [|reflexivity].
    destruct (String.eqb_spec f ""); [subst; congruence|reflexivity]. }
  rewrite Hrep, Hc, Hname. clear Hrep. unfold run.
  destruct osyms as [l|]; cbn [msyms].
  - set (n := Z.of_nat (List.length l)). rewrite zlen_msym. fold n.
    change (exec_block O Prop ?kr ?ke rv_fixed_body
              [("self", self); ("counter", vcounter (Some l) fb rest); ("counter_value", vint v);
               ("fixed_number", vfx fx); ("previous_types", VList pl)] ?k)
      with (exec_block O Prop kr ke rv_fixed_body (fenv0 (map vsym l) pl v fx) k).
    rewrite (fixed_spec l (map vsym l) n eq_refl eq_refl pl).
    destruct (Z.ltb_spec n 1) as [Hlt|Hge].
    + replace (1 <=? n)%Z with false by (symmetry; apply Z.leb_gt; exact Hlt).
      cbn [agrees raises]. destruct (ocall O ".render_value" _) eqn:E; try reflexivity.
    + replace (1 <=? n)%Z with true by (symmetry; apply Z.leb_le; exact Hge).
      destruct fx as [first|]; [|left; reflexivity].
      cbv zeta. destruct ((0 <=? v - first)%Z && (v - first <? n)%Z).
      * cbn [agrees]. split; [reflexivity|]. rewrite nth_sym_msym. reflexivity.
      * cbn [agrees raises]. destruct (ocall O ".render_value" _) eqn:E; try reflexivity.
  - destruct fx; ev_all; left; reflexivity.
Qed.
End Simple.
Print Assumptions gen_cyclic.
Print Assumptions gen_fixed.

(* ------------------------------------------------------------------------------------------- linking *)
(* the operations: real arithmetic; ".render_value" is [render], whatever it is; any other call runs the
   regenerated body of the callee (gen/GenCounters.v: symbol) *)
Definition c15_call (render : list val -> val) (n : nat) (f : string) (args : list val) : val :=
  if String.eqb f ".render_value" then render args
  else link GenCounters_table n f args.
Definition c15_ops (render : list val -> val) (n fuel : nat) : qops :=
  with_fuel (with_calls real_ops (c15_call render n)) fuel.

Lemma c15_ops_ok render n fuel : ops_ok (c15_ops render n fuel).
Proof. constructor; reflexivity. Qed.
Lemma c15_symbol render n fuel p : ocall (c15_ops render (S n) fuel) "symbol" [vsym p] = VStr (psym_str p).
Proof. destruct p; reflexivity. Qed.
Lemma c15_render render n fuel args : ocall (c15_ops render n fuel) ".render_value" args = render args.
Proof. reflexivity. Qed.

Section Linked.
Variables (render : list val -> val) (n fuel : nat).
Variables (sf : list (string * val)) (fb : option string) (rest : list (string * val)).
Notation self := (VObj sf).
Notation OL := (c15_ops render (S n) fuel).

Theorem gen_numeric_linked osyms c v :
  c_symbols c = msyms osyms -> (digit_fuel v < fuel)%nat ->
  run OL rv_numeric_body [("self", self); ("counter", vcounter osyms fb rest); ("counter_value", vint v)]
    (agrees OL (rv_args self v "decimal" VNone) [] (represent c "numeric" None v))
    (raises OL (rv_args self v "decimal" VNone) [] (represent c "numeric" None v)).
Proof.
  intros Hc Hf. apply gen_numeric; auto using c15_ops_ok, c15_symbol.
Qed.

Theorem gen_alphabetic_linked osyms c v :
  c_symbols c = msyms osyms -> (digit_fuel v < fuel)%nat ->
  run OL rv_alphabetic_body [("self", self); ("counter", vcounter osyms fb rest); ("counter_value", vint v)]
    (agrees OL (rv_args self v "decimal" VNone) [] (represent c "alphabetic" None v))
    (raises OL (rv_args self v "decimal" VNone) [] (represent c "alphabetic" None v)).
Proof.
  intros Hc Hf. apply gen_alphabetic; auto using c15_ops_ok, c15_symbol.
Qed.

Theorem gen_cyclic_linked osyms c fx v :
  c_symbols c = msyms osyms ->
  run OL rv_cyclic_body [("self", self); ("counter", vcounter osyms fb rest); ("counter_value", vint v)]
    (agrees OL (rv_args self v "decimal" VNone) [] (represent c "cyclic" fx v))
    (raises OL (rv_args self v "decimal" VNone) [] (represent c "cyclic" fx v)).
Proof.
  intros Hc. apply gen_cyclic; auto using c15_ops_ok, c15_symbol.
Qed.

Theorem gen_fixed_linked osyms c fx v pl :
  c_symbols c = msyms osyms -> c_fallback c = fb -> fb <> Some "" ->
  run OL rv_fixed_body
    [("self", self); ("counter", vcounter osyms fb rest); ("counter_value", vint v); ("fixed_number", vfx fx);
     ("previous_types", VList pl)]
    (agrees OL (rv_args self v "decimal" VNone) (rv_args self v (fallback_of c) (VList pl)) (represent c "fixed" fx v))
    (raises OL (rv_args self v "decimal" VNone) (rv_args self v (fallback_of c) (VList pl)) (represent c "fixed" fx v)).
Proof.
  intros Hc Hfb Hne. apply gen_fixed; auto using c15_ops_ok, c15_symbol.
Qed.

(* the property text, about the source: the numeric branch writes the positional notation of the value (digits
   indexing the symbols, most significant first, no leading zero), the alphabetic branch its bijective numeration *)
Definition style_of (l : list psym) : cstyle := mkStyle None None None None None None None (Some (map msym l)) None.

Corollary gen_numeric_positional l v :
  (2 <= Z.of_nat (List.length l))%Z -> (0 < v)%Z -> (digit_fuel v < fuel)%nat ->
  run OL rv_numeric_body [("self", self); ("counter", vcounter (Some l) fb rest); ("counter_value", vint v)]
    (fun rho r => r = None /\ exists ds,
       Py.lookup "initial" rho = VStr (enc (join_idx (map msym l) ds)) /\
       decode (Z.of_nat (List.length l)) ds = v /\ valid_digits (Z.of_nat (List.length l)) ds /\
       no_leading_zero ds)
    (fun _ => False).
Proof.
  intros Hl Hv Hf.
  pose proof (gen_numeric_linked (Some l) (style_of l) v eq_refl Hf) as H.
  destruct (numeric_representation (map msym l) (style_of l) v eq_refl ltac:(rewrite zlen_msym; exact Hl) Hv)
    as (ds & Hr & Hd & Hval & Hnz).
  rewrite Hr in H. rewrite zlen_msym in *.
  rewrite PyNatural.run_natural in *.
  destruct (PyNatural.run_out _ _ _) as [rho r|m]; cbn [agrees raises] in H; [|exact H].
  destruct H as [-> Hi]. split; [reflexivity|]. exists ds. auto.
Qed.

Corollary gen_alphabetic_bijective l v :
  (2 <= Z.of_nat (List.length l))%Z -> (0 <= v)%Z -> (digit_fuel v < fuel)%nat ->
  run OL rv_alphabetic_body [("self", self); ("counter", vcounter (Some l) fb rest); ("counter_value", vint v)]
    (fun rho r => r = None /\ exists ds,
       Py.lookup "initial" rho = VStr (enc (join_idx (map msym l) ds)) /\
       decode_bij (Z.of_nat (List.length l)) ds = v /\ valid_digits (Z.of_nat (List.length l)) ds)
    (fun _ => False).
Proof.
  intros Hl Hv Hf.
  pose proof (gen_alphabetic_linked (Some l) (style_of l) v eq_refl Hf) as H.
  destruct (alphabetic_representation (map msym l) (style_of l) v eq_refl ltac:(rewrite zlen_msym; exact Hl) Hv)
    as (ds & Hr & Hd & Hval).
  rewrite Hr in H. rewrite zlen_msym in *.
  rewrite PyNatural.run_natural in *.
  destruct (PyNatural.run_out _ _ _) as [rho r|m]; cbn [agrees raises] in H; [|exact H].
  destruct H as [-> Hi]. split; [reflexivity|]. exists ds. auto.
Qed.
End Linked.

(* the hypotheses are satisfiable and the statements are not vacuous: decimal digits, 2026 and -7; letters, 28 *)
Definition digits10 : list psym := map PStr ["0"; "1"; "2"; "3"; "4"; "5"; "6"; "7"; "8"; "9"].
Example ex_numeric_2026 :
  PyNatural.run_out (c15_ops (fun _ => VNone) 1 20) rv_numeric_body
    [("self", VObj []); ("counter", vcounter (Some digits10) None []); ("counter_value", vint 2026)] =
  PyNatural.ONorm
    [("self", VObj []); ("counter", vcounter (Some digits10) None []); ("counter_value", vint 0);
     ("reversed_parts", VList [VStr "6"; VStr "2"; VStr "0"; VStr "2"]); ("length", vint 10);
     ("initial", VStr "2026")] None.
Proof. vm_compute. reflexivity. Qed.
Example ex_numeric_neg7 :
  match PyNatural.run_out (c15_ops (fun _ => VNone) 1 20) rv_numeric_body
          [("self", VObj []); ("counter", vcounter (Some digits10) None []); ("counter_value", vint (-7))] with
  | PyNatural.ONorm rho None => Py.lookup "initial" rho = VStr "7"
  | _ => False
  end.
Proof. vm_compute. reflexivity. Qed.
Example ex_alphabetic_28 :
  match PyNatural.run_out (c15_ops (fun _ => VNone) 1 20) rv_alphabetic_body
          [("self", VObj []); ("counter", vcounter (Some (map PStr ["a"; "b"; "c"])) None []);
           ("counter_value", vint 28)] with
  | PyNatural.ONorm rho None => Py.lookup "initial" rho = VStr "bca"
  | _ => False
  end.
Proof. vm_compute. reflexivity. Qed.
Example ex_alphabetic_negative_never_ends :
  PyNatural.run_out (c15_ops (fun _ => VNone) 1 50) rv_alphabetic_body
    [("self", VObj []); ("counter", vcounter (Some (map PStr ["a"; "b"; "c"])) None []);
     ("counter_value", vint (-1))] = PyNatural.OErr "FuelExhausted".
Proof. vm_compute. reflexivity. Qed.
