(* Generic tactics for theorems about translated function bodies (see base/Py.v). *)
From Coq Require Import QArith Qminmax Lqa List String Bool.
Require Import WV.base.Py.
Import ListNotations.
Open Scope string_scope.
Open Scope Q_scope.

Definition fieldv (o : val) (k : string) : val := match o with VObj f => lookup k f | _ => VErr "noobj" end.
Definition fieldq (o : val) (k : string) : option Q :=
  match fieldv o k with VNum q => Some q | _ => None end.
(* a CSS length slot: a number or the keyword auto *)
Definition len (v : val) : Prop := match v with VNum _ => True | VStr s => s = "auto" | _ => False end.
Definition is_auto (v : val) : bool := match v with VStr _ => true | _ => false end.
Definition numof (v : val) : Q := match v with VNum q => q | _ => 0 end.

Ltac unseal HO :=
  rewrite ?(qadd_eq _ HO), ?(qsub_eq _ HO), ?(qmul_eq _ HO), ?(qdiv_eq _ HO), ?(qmax_eq _ HO), ?(qmin_eq _ HO),
          ?(qleb_eq _ HO), ?(qeqb_eq _ HO) in *.
Ltac split_paths O :=
  repeat match goal with
         | |- context [qleb O ?a ?b] => let E := fresh "E" in destruct (qleb O a b) eqn:E
         | |- context [qeqb O ?a ?b] => let E := fresh "E" in destruct (qeqb O a b) eqn:E
         end.
Ltac to_props :=
  repeat match goal with
         | H : Qle_bool _ _ = true |- _ => apply Qle_bool_iff in H
         | H : Qle_bool ?a ?b = false |- _ =>
             assert (~ a <= b) by (let X := fresh in intro X; apply Qle_bool_iff in X; congruence); clear H
         | H : Qeq_bool _ _ = true |- _ => apply Qeq_bool_iff in H
         | H : Qeq_bool ?a ?b = false |- _ =>
             assert (~ a == b) by (let X := fresh in intro X; apply Qeq_bool_iff in X; congruence); clear H
         end.
