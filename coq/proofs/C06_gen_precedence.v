(* C06 - declaration_precedence as REGENERATED from weasyprint/css/__init__.py on every run computes the table of
   model/C06Cascade.v (on which the cascade theorems rest), for every origin string and importance flag; its
   assert fires exactly for the strings that are not an origin. *)
From Coq Require Import ZArith QArith List Bool String.
Require Import WV.base.Py WV.gen.GenCss WV.model.C06Cascade.
Import ListNotations.
Open Scope string_scope.

Theorem gen_declaration_precedence (o : string) (imp : bool) :
  run real_ops declaration_precedence_body [("origin", VStr o); ("importance", VBool imp)]
    (fun _ r => exists z, declaration_precedence_str o imp = Some z /\ r = Some (VNum (inject_Z z)))
    (fun m => declaration_precedence_str o imp = None /\ m = "AssertionError").
Proof.
  unfold run, declaration_precedence_body, declaration_precedence_str. cbn.
  destruct (String.eqb o "user agent"); cbn; [exists 1%Z; split; reflexivity|].
  destruct (String.eqb o "user"), imp, (String.eqb o "author"); cbn;
    first [eexists; split; reflexivity | split; reflexivity].
Qed.

(* on the three origins the regenerated function returns the model's precedence and never raises *)
Corollary gen_declaration_precedence_origin (o : origin) (imp : bool) :
  run real_ops declaration_precedence_body [("origin", VStr (origin_str o)); ("importance", VBool imp)]
    (fun _ r => r = Some (VNum (inject_Z (declaration_precedence o imp)))) (fun _ => False).
Proof. destruct o, imp; vm_compute; reflexivity. Qed.
