(* C06 - @import: the recursive loading into one matcher equals textual substitution at every place; a sheet
   imported again is in the cascade again, so its last instance wins the ties. *)
From Coq Require Import ZArith List Bool Lia Sorted.
Require Import WV.model.C06Cascade WV.model.C06Imports WV.proofs.C06_cascade WV.proofs.C06_order.
Import ListNotations.
Open Scope Z_scope.

Section ImportFacts.
  Variable V : Type.
  Notation item := (item V).
  Notation frule := (frule V).

  (* ---- more fuel does not change a result *)
  Lemma flat_mono (f : nat) : forall fs allow (items : list item) l,
    flat f fs allow items = Some l -> flat (S f) fs allow items = Some l.
  Proof.
    induction f as [|f IH]; intros fs allow items l H; [discriminate|].
    remember (S f) as g. simpl. subst g. simpl in H.
    destruct items as [|[valid sels ds|u ok|ok body] r]; auto.
    - destruct valid; auto.
      destruct (flat f fs false r) as [b|] eqn:E; [|discriminate]. rewrite (IH _ _ _ _ E). exact H.
    - destruct (allow && ok); auto.
      destruct (flat f fs true (file fs u)) as [a|] eqn:E1; [|discriminate].
      destruct (flat f fs allow r) as [b|] eqn:E2; [|discriminate].
      rewrite (IH _ _ _ _ E1), (IH _ _ _ _ E2). exact H.
    - destruct ok; auto.
      destruct (flat f fs false body) as [a|] eqn:E1; [|discriminate].
      destruct (flat f fs false r) as [b|] eqn:E2; [|discriminate].
      rewrite (IH _ _ _ _ E1), (IH _ _ _ _ E2). exact H.
  Qed.
  Lemma flat_mono_le f g fs allow (items : list item) l :
    (f <= g)%nat -> flat f fs allow items = Some l -> flat g fs allow items = Some l.
  Proof. induction 1; auto. intros H0. apply flat_mono; auto. Qed.

  (* ---- recursive loading = textual substitution of every honoured @import, each time it is met *)
  Lemma text_rules_app (a b : list item) : text_rules (a ++ b) = text_rules a ++ text_rules b.
  Proof. unfold text_rules. apply flat_map_app. Qed.
  Lemma has_import_app (a b : list item) : has_import (a ++ b) = has_import a || has_import b.
  Proof. unfold has_import. apply existsb_app. Qed.

  Theorem flat_is_textual (f : nat) : forall fs allow (items : list item) l,
    flat f fs allow items = Some l ->
    exists its, inline f fs allow items = Some its /\ has_import its = false /\ text_rules its = l.
  Proof.
    induction f as [|f IH]; intros fs allow items l H; [discriminate|]. simpl in *.
    destruct items as [|[valid sels ds|u ok|ok body] r].
    - inversion H. exists []. auto.
    - destruct valid.
      + destruct (flat f fs false r) as [b|] eqn:E; [|discriminate]. inversion H; subst.
        destruct (IH _ _ _ _ E) as [ib [Hi [Hh Ht]]]. rewrite Hi. simpl.
        eexists; split; [reflexivity|]. split; auto. unfold text_rules in *. simpl. rewrite Ht. auto.
      + destruct (IH _ _ _ _ H) as [ib [Hi [Hh Ht]]]. rewrite Hi. simpl.
        eexists; split; [reflexivity|]. split; auto.
    - destruct (allow && ok).
      + destruct (flat f fs true (file fs u)) as [a|] eqn:E1; [|discriminate].
        destruct (flat f fs allow r) as [b|] eqn:E2; [|discriminate]. inversion H; subst.
        destruct (IH _ _ _ _ E1) as [ia [Hia [Hha Hta]]]. destruct (IH _ _ _ _ E2) as [ib [Hib [Hhb Htb]]].
        rewrite Hia, Hib. simpl. eexists; split; [reflexivity|].
        rewrite has_import_app, text_rules_app, Hha, Hhb, Hta, Htb. auto.
      + apply IH; auto.
    - destruct ok.
      + destruct (flat f fs false body) as [a|] eqn:E1; [|discriminate].
        destruct (flat f fs false r) as [b|] eqn:E2; [|discriminate]. inversion H; subst.
        destruct (IH _ _ _ _ E1) as [ia [Hia [Hha Hta]]]. destruct (IH _ _ _ _ E2) as [ib [Hib [Hhb Htb]]].
        rewrite Hia, Hib. simpl. eexists; split; [reflexivity|]. split.
        * unfold has_import in *. simpl. rewrite Hha, Hhb. auto.
        * unfold text_rules in *. simpl. rewrite Hta, Htb. auto.
      + destruct (IH _ _ _ _ H) as [ib [Hib [Hhb Htb]]]. rewrite Hib. simpl.
        eexists; split; [reflexivity|]. split; auto.
  Qed.

  (* a sheet that imports u, then v, then u again holds the rules of u twice, around those of v *)
  Theorem import_twice_is_textual f fs u v (a b : list frule) :
    flat f fs true (file fs u) = Some a -> flat f fs true (file fs v) = Some b ->
    flat (4 + f) fs true [IImport u true; IImport v true; IImport u true] = Some (a ++ b ++ a).
  Proof.
    intros Ha Hb.
    assert (A3 : flat (3 + f) fs true (file fs u) = Some a) by (apply (flat_mono_le f); auto; lia).
    assert (B2 : flat (2 + f) fs true (file fs v) = Some b) by (apply (flat_mono_le f); auto; lia).
    assert (A1 : flat (1 + f) fs true (file fs u) = Some a) by (apply (flat_mono_le f); auto; lia).
    change (4 + f)%nat with (S (3 + f)). cbn [flat andb]. rewrite A3. cbn [bind].
    change (3 + f)%nat with (S (2 + f)). cbn [flat andb]. rewrite B2. cbn [bind].
    change (2 + f)%nat with (S (1 + f)). cbn [flat andb]. rewrite A1. cbn [bind].
    change (1 + f)%nat with (S f). destruct f; [discriminate|]. cbn [flat bind]. rewrite app_nil_r. reflexivity.
  Qed.

  (* an @import after a rule that was kept, or inside @media, is ignored; after a rule that was dropped it is not *)
  Theorem import_position f fs sels ds u (r : list item) :
    flat (S (S f)) fs true (IRule true sels ds :: IImport u true :: r) =
      bind (flat f fs false r) (fun b => Some ((sels, ds) :: b)) /\
    flat (S (S f)) fs true (IRule false sels ds :: IImport u true :: r) =
      bind (flat f fs true (file fs u)) (fun a => bind (flat f fs true r) (fun b => Some (a ++ b))) /\
    flat (S (S f)) fs true [IMedia true [IImport u true]] = match f with O => None | _ => Some [] end.
  Proof. repeat split; destruct f; reflexivity. Qed.

  (* ---- order numbers *)
  Lemma in_sel_matches k sels ds (m : smatch V) :
    In m (sel_matches k sels ds) -> k <= m_order m < k + Z.of_nat (List.length sels).
  Proof.
    revert k. induction sels as [|[[sp ps] b] t IH]; intros k H; simpl in *; [contradiction|].
    apply in_app_or in H. destruct H as [H|H].
    - destruct b; [|contradiction]. destruct H as [<-|[]]. unfold m_order; simpl. lia.
    - specialize (IH _ H). lia.
  Qed.
  Lemma sel_matches_sorted k sels ds :
    StronglySorted (fun a b : smatch V => m_order a < m_order b) (sel_matches k sels ds).
  Proof.
    revert k. induction sels as [|[[sp ps] b] t IH]; intros k; simpl; [constructor|].
    apply ss_app; [destruct b; repeat constructor | apply IH |].
    intros x y Hx Hy. destruct b; [|contradiction]. destruct Hx as [<-|[]].
    apply in_sel_matches in Hy. unfold m_order at 1; simpl. lia.
  Qed.
  Lemma nsel_cons sels ds (r : list frule) : nsel ((sels, ds) :: r) = Z.of_nat (List.length sels) + nsel r.
  Proof. reflexivity. Qed.
  Lemma nsel_nonneg (rules : list frule) : 0 <= nsel rules.
  Proof. induction rules as [|[sels ds] r IH]; [unfold nsel; simpl; lia | rewrite nsel_cons; lia]. Qed.
  Lemma in_matches_from (rules : list frule) : forall k m,
    In m (matches_from k rules) -> k <= m_order m < k + nsel rules.
  Proof.
    induction rules as [|[sels ds] r IH]; intros k m H; [contradiction|].
    cbn [matches_from] in H. rewrite nsel_cons.
    pose proof (nsel_nonneg r).
    apply in_app_or in H. destruct H as [H|H].
    - apply in_sel_matches in H. lia.
    - specialize (IH _ _ H). lia.
  Qed.
  Lemma matches_from_sorted (rules : list frule) : forall k,
    StronglySorted (fun a b : smatch V => m_order a < m_order b) (matches_from k rules).
  Proof.
    induction rules as [|[sels ds] r IH]; intros k; simpl; [constructor|].
    apply ss_app; [apply sel_matches_sorted | apply IH |].
    intros x y Hx Hy. apply in_sel_matches in Hx. apply in_matches_from in Hy. lia.
  Qed.
  Lemma sorted_lt_nodup (l : list (smatch V)) :
    StronglySorted (fun a b => m_order a < m_order b) l -> NoDup (map m_order l).
  Proof.
    induction 1 as [|a r Hr IH Ha]; simpl; constructor; auto.
    rewrite in_map_iff. intros [b [E Hb]]. rewrite Forall_forall in Ha. specialize (Ha b Hb). lia.
  Qed.

  (* sheets loaded from stylesheet texts satisfy the hypothesis of the source-order theorems *)
  Theorem loaded_orders_distinct f fs : forall (l : list (origin * list item)) sheets,
    load_sheets f fs l = Some sheets -> orders_distinct sheets.
  Proof.
    induction l as [|os r IH]; intros sheets H; simpl in H.
    - inversion H. constructor.
    - unfold load_sheet in H. destruct (flat f fs true (snd os)) as [rules|]; [|discriminate]. simpl in H.
      destruct (load_sheets f fs r) as [t|]; [|discriminate]. inversion H; subst.
      constructor; [|apply IH; auto]. simpl. apply sorted_lt_nodup, matches_from_sorted.
  Qed.

  Lemma matches_from_app (P B : list frule) : forall k,
    matches_from k (P ++ B) = matches_from k P ++ matches_from (k + nsel P) B.
  Proof.
    induction P as [|[sels ds] r IH]; intros k.
    - simpl. f_equal. unfold nsel; simpl. lia.
    - cbn [matches_from app]. rewrite IH, nsel_cons, <- app_assoc.
      replace (k + (Z.of_nat (List.length sels) + nsel r)) with (k + Z.of_nat (List.length sels) + nsel r) by lia.
      reflexivity.
  Qed.
End ImportFacts.

(* ================================================================ the last instance wins *)
Section LastInstance.
  Variable V : Type.

  (* on any application sequence: when the segment applied last holds a declaration of maximal weight for the
     property - in particular when that segment is a repetition of an earlier one, P = a ++ B ++ c - the winner
     is taken from that last segment *)
  Theorem last_segment_wins (P B : list (decl V)) n w0 d :
    get (cascade P) n = Some w0 -> In d B -> d_name d = n -> wle w0 d ->
    exists w, get (cascade (P ++ B)) n = Some w /\ In w B.
  Proof.
    intros G0 Hd Hn Hle.
    destruct (some_declaration_wins V (P ++ B) n d) as [w G]; auto. { apply in_or_app; auto. }
    exists w. split; auto.
    pose proof (fold_picks_max V (P ++ B) n) as H. rewrite G in H.
    destruct H as [l1 [l2 [E [Hwn [H1 H2]]]]].
    destruct (app_eq_app _ _ _ _ E) as [k [[E1 E2]|[E1 E2]]].
    - (* P = l1 ++ k, w :: l2 = k ++ B *)
      destruct k as [|x k]; simpl in E2.
      + rewrite <- E2. left; auto.
      + inversion E2; subst x. exfalso.
        assert (HdB : In d l2) by (rewrite H3; apply in_or_app; auto).
        specialize (H2 d HdB Hn).
        destruct (winner_max V P n w0 G0) as [_ [_ Hmax]].
        assert (Hw : wle w w0). { apply Hmax; auto. rewrite E1. apply in_or_app; right; left; auto. }
        unfold wle, wlt in *. apply weight_ltb_true in H2.
        pose proof (weight_leb_trans _ _ _ Hw Hle) as Hwd. apply weight_leb_true in Hwd.
        destruct Hwd as [Hwd|Hwd].
        * exact (weight_lt_irrefl _ (weight_lt_trans _ _ _ H2 Hwd)).
        * rewrite Hwd in H2. exact (weight_lt_irrefl _ H2).
    - (* l1 = P ++ k, B = k ++ w :: l2 *)
      rewrite E2. apply in_elt.
  Qed.

  (* on a loaded sheet: rules = P ++ B, B being the rules of the last @import met (flat_is_textual: its text at
     that place).  If a declaration coming from B ties with the winner (same origin, importance, specificity),
     the winner comes from B as well - not from the earlier instance of the same sheet, nor from what lies
     between. *)
  Theorem last_import_instance_wins p attrs (sheets : list (sheet V)) n w d (P : list (frule V)) :
    orders_distinct sheets ->
    get (element_cascade p attrs sheets) n = Some w ->
    In d (app_seq p attrs sheets) -> d_name d = n -> weight_of d = weight_of w ->
    d_selspec d = d_spec d -> d_selspec w = d_spec w ->
    d_sheet d = d_sheet w -> nsel P < d_order d -> nsel P < d_order w.
  Proof.
    intros Ho G Hd Hn Hw Hsd Hsw Hsh Hord.
    destruct (later_sheet_later_rule_wins V p attrs sheets n w d Ho G Hd Hn Hw Hsd Hsw) as [H|[_ H]]; lia.
  Qed.
End LastInstance.

(* a non-trivial instance: base (1) = { p {x: 1} }, override (2) = { p {x: 2} }, theme (3) = { @import base; p {y: 5} };
   the main sheet imports base, override, theme: x is 1 again *)
Example import_again_example :
  let p1 := [(sel 0 0 1, 0, true)] in
  let fs := [(1, [IRule true p1 [mkr 10 1 false]]); (2, [IRule true p1 [mkr 10 2 false]]);
             (3, [IImport 1 true; IRule true p1 [mkr 11 5 false]])] in
  match load_sheets 20 fs [(Author, [IImport 1 true; IImport 2 true; IImport 3 true])] with
  | Some sheets => cascaded_value (element_cascade 0 [] sheets) 10 = Some 1 /\
                   cascaded_value (element_cascade 0 [] sheets) 11 = Some 5
  | None => False
  end.
Proof. vm_compute. split; reflexivity. Qed.
