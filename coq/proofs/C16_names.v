(* C16 - ExtGState names: every `/name gs` the Stream emits is a key of its resource dictionary when the stream is
   finished, the dictionary still maps it to what was stored at emission time (names are never re-bound), and
   `s{len(dict)}` is always a fresh name. *)
From Coq Require Import ZArith List Bool Lia.
Require Import WV.model.C16Stream WV.proofs.C16_balance WV.proofs.C16_skip.
Import ListNotations.
Open Scope Z_scope.

Lemma key_eqb_refl k : key_eqb k k = true.
Proof. apply key_eqb_eq. reflexivity. Qed.
Lemma key_eqb_neq k k' : k <> k' -> key_eqb k k' = false.
Proof. intro H. destruct (key_eqb k k') eqn:E; auto. apply key_eqb_eq in E. contradiction. Qed.

Lemma lookup_app k d e : lookup k (d ++ e) = match lookup k d with Some v => Some v | None => lookup k e end.
Proof.
  induction d as [|[k' v'] d IH]; simpl; auto. destruct (key_eqb k k'); auto.
Qed.
Lemma lookup_add_same k v d : lookup k (add_if_absent k v d) = Some (match lookup k d with Some x => x | None => v end).
Proof.
  unfold add_if_absent. destruct (lookup k d) eqn:E; auto.
  rewrite lookup_app, E. simpl. rewrite key_eqb_refl. reflexivity.
Qed.
Lemma lookup_add_mono k v d k' v' : lookup k' d = Some v' -> lookup k' (add_if_absent k v d) = Some v'.
Proof.
  intro H. unfold add_if_absent. destruct (lookup k d); auto. rewrite lookup_app, H. reflexivity.
Qed.
Lemma assign_absent k v d : lookup k d = None -> assign k v d = d ++ [(k, v)].
Proof.
  induction d as [|[k' v'] d IH]; simpl; auto. destruct (key_eqb k k'); [discriminate|]. intro H. rewrite IH; auto.
Qed.
Lemma length_add k v d : (length d <= length (add_if_absent k v d))%nat.
Proof. unfold add_if_absent. destruct (lookup k d); auto. rewrite app_length. simpl. lia. Qed.

(* Prop rendition of egs_wf *)
Definition WF (d : egsd) : Prop :=
  forall k v, In (k, v) d -> key_ok (length d) k = true /\ canon_ok (k, v) = true.
Lemma egs_wf_WF d : egs_wf d = true <-> WF d.
Proof.
  unfold egs_wf, WF. rewrite forallb_forall. split.
  - intros H k v I. specialize (H (k, v) I). apply andb_true_iff in H. exact H.
  - intros H [k v] I. apply andb_true_iff. apply H. exact I.
Qed.
Lemma lookup_In k d v : lookup k d = Some v -> In (k, v) d.
Proof.
  induction d as [|[k' v'] d IH]; simpl; [discriminate|].
  destruct (key_eqb k k') eqn:E.
  - intro H. inversion H; subst. apply key_eqb_eq in E. subst. auto.
  - intro H. auto.
Qed.
Lemma key_ok_mono n m k : (n <= m)%nat -> key_ok n k = true -> key_ok m k = true.
Proof.
  destruct k; simpl; auto. intros L H. apply andb_true_iff in H. destruct H as [H1 H2].
  apply andb_true_iff. split; auto. apply Z.ltb_lt in H2. apply Z.ltb_lt. lia.
Qed.
Lemma WF_fresh_s d : WF d -> lookup (KS (Z.of_nat (length d))) d = None.
Proof.
  intro W. destruct (lookup (KS (Z.of_nat (length d))) d) as [v|] eqn:E; auto.
  apply lookup_In in E. destruct (W _ _ E) as [K _]. simpl in K.
  apply andb_true_iff in K. destruct K as [_ K]. apply Z.ltb_lt in K. lia.
Qed.
Lemma gsval_eqb_eq v w : gsval_eqb v w = true -> v = w.
Proof.
  destruct v as [a b], w as [c d]. unfold gsval_eqb. simpl. intro H. apply andb_true_iff in H. destruct H as [H1 H2].
  assert (O : forall x y, oz_eqb x y = true -> x = y).
  { intros [x|] [y|]; simpl; intro E; try discriminate; auto. apply Z.eqb_eq in E. congruence. }
  rewrite (O _ _ H1), (O _ _ H2). reflexivity.
Qed.
Lemma WF_canon d st a i v : WF d -> lookup (KA st a i) d = Some v -> v = canon (KA st a i).
Proof.
  intros W E. apply lookup_In in E. destruct (W _ _ E) as [_ C]. unfold canon_ok in C. simpl in C.
  apply gsval_eqb_eq in C. exact C.
Qed.
Lemma gsval_eqb_refl v : gsval_eqb v v = true.
Proof.
  destruct v as [[a|] [b|]]; unfold gsval_eqb; simpl; rewrite ?Z.eqb_refl; reflexivity.
Qed.
Lemma WF_add_alpha d st a i : WF d -> WF (add_if_absent (KA st a i) (canon (KA st a i)) d).
Proof.
  intro W. unfold add_if_absent. destruct (lookup (KA st a i) d); auto.
  intros k v I. rewrite app_length. simpl. apply in_app_or in I. destruct I as [I|[I|[]]].
  - destruct (W _ _ I) as [K C]. split; auto. eapply key_ok_mono; [|exact K]. lia.
  - inversion I; subst. split; [reflexivity|]. unfold canon_ok. simpl fst. simpl snd. apply gsval_eqb_refl.
Qed.
Lemma WF_assign_s d v : WF d -> WF (assign (KS (Z.of_nat (length d))) v d).
Proof.
  intro W. rewrite assign_absent by (apply WF_fresh_s; auto).
  intros k w I. rewrite app_length. simpl. apply in_app_or in I. destruct I as [I|[I|[]]].
  - destruct (W _ _ I) as [K C]. split; auto. eapply key_ok_mono; [|exact K]. lia.
  - inversion I; subst. split; [|reflexivity]. simpl. apply andb_true_iff. split; [apply Z.leb_le; lia|apply Z.ltb_lt; lia].
Qed.

(* ------------------------------------------------------------------------------------ the invariant *)
Definition DInv (s : st) : Prop :=
  WF (egs s) /\ forall k v, In (Tgs k v) (toks s) -> lookup k (egs s) = Some v.

Lemma DInv_same_egs s s' :
  egs s' = egs s -> (forall k v, In (Tgs k v) (toks s') -> In (Tgs k v) (toks s)) -> DInv s -> DInv s'.
Proof. intros E I [W H]. split; rewrite E; auto. Qed.

Lemma DInv_alpha1 st a i s : DInv s -> DInv (m_alpha1 st a i s).
Proof.
  intros [W H]. unfold m_alpha1. destruct (opt_eqb key_eqb _ _); [split; auto|].
  assert (E : egs (emit (Tgs (KA st a i) (canon (KA st a i)))
              (if st then mk (toks s) (ctms s) (ccol s) (ccols s) (calpha s) (Some (KA st a i)) (cfont s) (ofont s)
                           (add_if_absent (KA st a i) (canon (KA st a i)) (egs s)) (nmark s) (markon s)
               else mk (toks s) (ctms s) (ccol s) (ccols s) (Some (KA st a i)) (calphas s) (cfont s) (ofont s)
                           (add_if_absent (KA st a i) (canon (KA st a i)) (egs s)) (nmark s) (markon s)))
              = add_if_absent (KA st a i) (canon (KA st a i)) (egs s)) by (destruct st; reflexivity).
  assert (T : toks (emit (Tgs (KA st a i) (canon (KA st a i)))
              (if st then mk (toks s) (ctms s) (ccol s) (ccols s) (calpha s) (Some (KA st a i)) (cfont s) (ofont s)
                           (add_if_absent (KA st a i) (canon (KA st a i)) (egs s)) (nmark s) (markon s)
               else mk (toks s) (ctms s) (ccol s) (ccols s) (Some (KA st a i)) (calphas s) (cfont s) (ofont s)
                           (add_if_absent (KA st a i) (canon (KA st a i)) (egs s)) (nmark s) (markon s)))
              = Tgs (KA st a i) (canon (KA st a i)) :: toks s) by (destruct st; reflexivity).
  split; rewrite E; [apply WF_add_alpha; auto|]. rewrite T. intros k v [I|I].
  - inversion I; subst. rewrite lookup_add_same. destruct (lookup (KA st a i) (egs s)) as [x|] eqn:L; auto.
    rewrite (WF_canon _ _ _ _ _ W L). reflexivity.
  - apply lookup_add_mono. auto.
Qed.
Lemma DInv_set_alpha a i st f s : DInv s -> DInv (m_set_alpha a i st f s).
Proof.
  intro H. unfold m_set_alpha. destruct st; destruct f as [[|]|]; simpl; repeat apply DInv_alpha1; exact H.
Qed.
Lemma emit_color_egs st c s0 : egs (emit_color st c s0) = egs s0 /\
  forall k v, In (Tgs k v) (toks (emit_color st c s0)) -> In (Tgs k v) (toks s0).
Proof.
  unfold emit_color. destruct ((grp (fst c) =? 1) || (grp (fst c) =? 2)); simpl; split; auto.
  - intros k v [I|[I|I]]; try discriminate; auto.
  - intros k v [I|I]; try discriminate; auto.
Qed.

Lemma DInv_step o s s' : no_rb o = true -> DInv s -> mstep o s = Some s' -> DInv s'.
Proof.
  intros NR D M. destruct o; simpl in M; try discriminate NR.
  - unfold m_push in M. destruct (ctms s); [discriminate|]. inversion M; subst.
    apply (DInv_same_egs s); auto. simpl. intros k0 v0 [I|I]; [discriminate|auto].
  - rewrite m_pop_spec in M. destruct (ctms s) as [|m0 [|m1 r]]; try discriminate. inversion M; subst.
    apply (DInv_same_egs s); auto. simpl.
    destruct (pop_toks_cases (toks s)) as [(t & E1 & E2)|[E1 E2]].
    + rewrite E2, E1. intros k0 v0 I. right. exact I.
    + rewrite E1. intros k0 v0 [I|I]; [discriminate|auto].
  - inversion M; subst. apply (DInv_same_egs s); auto.
    + unfold m_begin_text. destruct (toks s) as [|x r]; [reflexivity|]. destruct x; reflexivity.
    + rewrite m_begin_text_toks. destruct (bt_toks_cases (toks s)) as [(t & E1 & E2)|[E1 E2]].
      * rewrite E2, E1. intros k0 v0 I. right. exact I.
      * rewrite E1. intros k0 v0 [I|I]; [discriminate|auto].
  - inversion M; subst. apply (DInv_same_egs s); auto. simpl. intros k0 v0 [I|I]; [discriminate|auto].
  - inversion M; subst. unfold m_set_color.
    pose proof (DInv_set_alpha a isint stroke None s D) as D1.
    destruct stroke.
    + destruct (opt_eqb color_eqb _ c); auto.
      match goal with |- DInv (emit_color ?st ?c ?s0) => destruct (emit_color_egs st c s0) as [E I] end.
      eapply DInv_same_egs; [exact E|exact I|]. destruct D1 as [W H]. split; auto.
    + destruct (opt_eqb color_eqb _ c); auto.
      match goal with |- DInv (emit_color ?st ?c ?s0) => destruct (emit_color_egs st c s0) as [E I] end.
      eapply DInv_same_egs; [exact E|exact I|]. destruct D1 as [W H]. split; auto.
  - inversion M; subst. apply DInv_set_alpha. exact D.
  - inversion M; subst. unfold m_set_font. destruct (opt_eqb font_eqb _ f); auto.
    apply (DInv_same_egs s); auto. simpl. intros k0 v0 [I|I]; [discriminate|auto].
  - (* SetState: s{len} is fresh *)
    inversion M; subst. destruct D as [W H]. unfold m_set_state. split; simpl.
    + apply WF_assign_s. exact W.
    + rewrite assign_absent by (apply WF_fresh_s; auto). intros k0 v0 [I|I].
      * inversion I; subst. rewrite lookup_app, (WF_fresh_s _ W). simpl. rewrite Z.eqb_refl. reflexivity.
      * rewrite lookup_app, (H _ _ I). reflexivity.
  - inversion M; subst. apply (DInv_same_egs s); auto. simpl. intros k0 v0 [I|[I|I]]; try discriminate; auto.
  - unfold m_transform in M. destruct (ctms s); [discriminate|]. inversion M; subst.
    apply (DInv_same_egs s); auto. simpl. intros k0 v0 [I|I]; [discriminate|auto].
  - inversion M; subst. apply (DInv_same_egs s); auto. simpl. intros k0 v0 [I|I]; [discriminate|auto].
  - inversion M; subst. unfold m_begin_mc. destruct (markon s); auto. destruct mcid.
    + apply (DInv_same_egs s); auto. simpl. intros k0 v0 [I|[I|[I|I]]]; try discriminate; auto.
    + apply (DInv_same_egs s); auto. simpl. intros k0 v0 [I|[I|I]]; try discriminate; auto.
  - inversion M; subst. unfold m_end_mc. destruct (markon s); auto.
    apply (DInv_same_egs s); auto. simpl. intros k0 v0 [I|I]; [discriminate|auto].
  - inversion M; subst. apply (DInv_same_egs s); auto. simpl. intros k0 v0 [I|I]; [discriminate|auto].
  - (* ExtState *)
    inversion M; subst. destruct D as [W H]. split; simpl.
    + apply WF_assign_s. exact W.
    + rewrite assign_absent by (apply WF_fresh_s; auto). intros k0 v0 I. rewrite lookup_app, (H _ _ I). reflexivity.
  - (* ExtAlpha *)
    inversion M; subst. destruct D as [W H]. split; simpl.
    + apply WF_add_alpha. exact W.
    + intros k0 v0 I. apply lookup_add_mono. auto.
Qed.

Lemma DInv_run ops : forall s s', forallb no_rb ops = true -> DInv s -> run ops s = Some s' -> DInv s'.
Proof.
  induction ops as [|o r IH]; simpl; intros s s' NR D R.
  - inversion R; subst. exact D.
  - apply andb_true_iff in NR. destruct NR as [N1 N2].
    destruct (mstep o s) as [s1|] eqn:M; [|discriminate]. eapply IH; [exact N2| |exact R]. eapply DInv_step; eauto.
Qed.

(* for ALL call sequences (well bracketed or not) without rollback; with failed drawings: C16_rollback.v *)
Theorem gs_names_defined mark d ops s' :
  forallb no_rb ops = true -> egs_wf d = true -> run ops (fresh mark d) = Some s' ->
  forall k v, In (Tgs k v) (toks s') -> lookup k (egs s') = Some v.
Proof.
  intros NR W R. assert (D : DInv (fresh mark d)).
  { split; [apply egs_wf_WF; exact W|]. simpl. intros k v []. }
  exact (proj2 (DInv_run ops _ _ NR D R)).
Qed.

(* entries are never re-bound: what a name meant stays what it means *)
Lemma egs_stable_step o s s' k v : no_rb o = true -> WF (egs s) -> mstep o s = Some s' -> lookup k (egs s) = Some v -> lookup k (egs s') = Some v.
Proof.
  intros NR W M L. destruct o; simpl in M; try discriminate NR.
  - unfold m_push in M. destruct (ctms s); [discriminate|]. inversion M; subst. exact L.
  - rewrite m_pop_spec in M. destruct (ctms s) as [|m0 [|m1 r]]; try discriminate. inversion M; subst. exact L.
  - inversion M; subst. unfold m_begin_text. destruct (toks s) as [|x r]; [exact L|]. destruct x; exact L.
  - inversion M; subst. exact L.
  - inversion M; subst. unfold m_set_color.
    assert (A : forall st0 s0, lookup k (egs s0) = Some v -> lookup k (egs (m_alpha1 st0 a isint s0)) = Some v).
    { intros st0 s0 L0. unfold m_alpha1. destruct (opt_eqb key_eqb _ _); auto. destruct st0; simpl; apply lookup_add_mono; auto. }
    assert (B : lookup k (egs (m_set_alpha a isint stroke None s)) = Some v).
    { unfold m_set_alpha. destruct stroke; simpl; auto. }
    destruct stroke; destruct (opt_eqb color_eqb _ c); auto;
      match goal with |- lookup _ (egs (emit_color ?st ?c ?s0)) = _ => rewrite (proj1 (emit_color_egs st c s0)) end; exact B.
  - inversion M; subst.
    assert (A : forall st0 s0, lookup k (egs s0) = Some v -> lookup k (egs (m_alpha1 st0 a isint s0)) = Some v).
    { intros st0 s0 L0. unfold m_alpha1. destruct (opt_eqb key_eqb _ _); auto. destruct st0; simpl; apply lookup_add_mono; auto. }
    unfold m_set_alpha. destruct stroke; destruct fill as [[|]|]; simpl; auto.
  - inversion M; subst. unfold m_set_font. destruct (opt_eqb font_eqb _ f); exact L.
  - inversion M; subst. unfold m_set_state. simpl. rewrite assign_absent by (apply WF_fresh_s; auto).
    rewrite lookup_app, L. reflexivity.
  - inversion M; subst. exact L.
  - unfold m_transform in M. destruct (ctms s); [discriminate|]. inversion M; subst. exact L.
  - inversion M; subst. exact L.
  - inversion M; subst. unfold m_begin_mc. destruct (markon s); auto. destruct mcid; exact L.
  - inversion M; subst. unfold m_end_mc. destruct (markon s); exact L.
  - inversion M; subst. exact L.
  - inversion M; subst. simpl. rewrite assign_absent by (apply WF_fresh_s; auto). rewrite lookup_app, L. reflexivity.
  - inversion M; subst. simpl. apply lookup_add_mono. exact L.
Qed.

Theorem gs_names_stable mark d ops1 ops2 s1 s2 k v :
  forallb no_rb ops1 = true -> forallb no_rb ops2 = true ->
  egs_wf d = true -> run ops1 (fresh mark d) = Some s1 -> run ops2 s1 = Some s2 ->
  lookup k (egs s1) = Some v -> lookup k (egs s2) = Some v.
Proof.
  intros N1 N2 W R1. assert (D : DInv (fresh mark d)).
  { split; [apply egs_wf_WF; exact W|]. simpl. intros ? ? []. }
  pose proof (DInv_run ops1 _ _ N1 D R1) as D1. clear D R1. revert s1 D1.
  induction ops2 as [|o r IH]; simpl; intros s1 D1 R2 L.
  - inversion R2; subst. exact L.
  - simpl in N2. apply andb_true_iff in N2. destruct N2 as [NA NB].
    destruct (mstep o s1) as [sx|] eqn:M; [|discriminate].
    apply (IH NB sx); auto. eapply DInv_step; eauto. eapply egs_stable_step; eauto. exact (proj1 D1).
Qed.

Example gs_names_example :
  let ops := [SetAlpha 500 false false None; SetState (Some 1000) None; SetColor true (0, 0) 1000 false; SetState None None] in
  option_map (fun s => map fst (egs s)) (run ops (fresh false [(KA false 1000 true, (Some 1000, None))])) =
  Some [KA false 1000 true; KA false 500 false; KS 2; KA true 1000 false; KS 4].
Proof. vm_compute. reflexivity. Qed.
