(* C16 - Stream.set_color_special of weasyprint/pdf/stream.py as REGENERATED from the source on every run
   (gen/GenStream.v, target option vararg_last: `*operands` is the last parameter, its value the tuple of the extra
   arguments).  pydyf.Stream.set_color_special, called through super(), is the oracle "super.set_color_special"
   specified here: it appends ONE item to self.stream - the pattern item when a name is given, the scn item with the
   operands when name is None.  Proved for every object, every name (None, the empty str, a non-empty str), both
   values of stroke and every tuple of operands: the cached colour of the side that the pattern replaces is dropped
   exactly when the name is true, nothing else changes, one item is appended.  Then: set_color_space('Pattern', stroke)
   followed by the regenerated body is the model step PatternColor (m_pattern_color), and a sequence in which
   PatternColor is run from the source (not by the abstract impl) follows the model. *)
From Coq Require Import ZArith QArith List String Bool Lia.
Require Import WV.base.Py WV.base.PyLink WV.gen.GenStream WV.proofs.PyNatural WV.model.C16Py.
Require Import WV.proofs.C16_gen_stream.
Import ListNotations.
Open Scope string_scope.
Open Scope list_scope.

(* pid: the pattern id that a resource name denotes (the text of the name is not modelled, as for tagf).
   pydyf.Stream.set_color_special(name, stroke, *operands) appends one item: the operands, then /name when the name is
   true, then scn / SCN.  Items: a name and no operand = the token Tpat; no name = the scn item with the operands *)
Definition truthy (name : val) : bool :=
  match name with VStr (String _ _) => true | _ => false end.
Definition name_ok (name : val) : bool := match name with VNone | VStr _ => true | _ => false end.
Definition special_item (pid : string -> Z) (name stroke : val) (operands : list val) : val :=
  match name, operands with
  | VStr (String c r), [] => VList [VStr "pattern"; stroke; vz (pid (String c r))]
  | VStr (String c r), _ => VList [VStr "pattern+"; stroke; vz (pid (String c r)); VList operands]
  | _, _ => VList [VStr "scn"; stroke; VList operands]
  end.
Definition special_spec (pid : string -> Z) (args : list val) : val :=
  match args with
  | [s; name; stroke; VList operands] =>
      if name_ok name then app_stream s [special_item pid name stroke operands] else VErr "TypeError"
  | _ => VErr "TypeError"
  end.
Definition special_calls (tagf : val -> string) (pid : string -> Z) (f : string) (args : list val) : val :=
  if String.eqb f "super.set_color_special" then special_spec pid args else stream_calls tagf f args.
Definition SO3 (tagf : val -> string) (pid : string -> Z) : qops := with_calls real_ops (special_calls tagf pid).

Definition special_args (self name : val) (stroke : bool) (operands : list val) : env :=
  [("self", self); ("name", name); ("stroke", VBool stroke); ("operands", VList operands)].

Section Raw.
Variable tagf : val -> string.
Variable pid : string -> Z.
Variables (mk : list val) (others : list (string * val)).
Variables (ca cas cf ofo res mark : val).
Notation O := (SO3 tagf pid).

(* every object, every name, both sides, every tuple of operands *)
Lemma set_color_special_raw st ct cc ccs name (stroke : bool) operands : name_ok name = true ->
  meth_out O stream_set_color_special_body
    (special_args (obj st ct cc ccs ca cas cf ofo res mk mark others) name stroke operands) =
  inl (obj (snoc st (special_item pid name (VBool stroke) operands)) ct
           (if truthy name && negb stroke then VNone else cc) (if truthy name && stroke then VNone else ccs)
           ca cas cf ofo res mk mark others, VNone).
Proof.
  intros N. destruct name as [q|n|b| |l|f|m]; try discriminate N; clear N.
  - destruct n as [|c r]; destruct stroke; destruct operands; reflexivity.
  - destruct stroke; reflexivity.
Qed.
End Raw.

(* ------------------------------------------------------------------ the model step PatternColor from the source *)
(* svg/defs.py, draw/__init__.py: stream.set_color_space('Pattern', stroke); stream.set_color_special(pattern.id,
   stroke).  set_color_space is inherited from pydyf.Stream unchanged (one item appended: the token Tcs); then the
   regenerated body of Stream.set_color_special with the name of the pattern and no operand *)
Lemma app_stream_obj st ct cc ccs ca cas cf ofo res mk mark others items :
  app_stream (obj st ct cc ccs ca cas cf ofo res mk mark others) items =
  VList [VNone; obj (st ++ items) ct cc ccs ca cas cf ofo res mk mark others].
Proof. reflexivity. Qed.

Definition src_pattern (tagf : val -> string) (pid : string -> Z) (name : string) (stroke : bool) (self : val)
  : (val * val) + string :=
  match app_stream self [VList [VStr "cs"; VBool stroke; vz M.PATTERN_SPACE]] with
  | VList [_; self1] =>
      meth_out (SO3 tagf pid) stream_set_color_special_body (special_args self1 (VStr name) stroke [])
  | VErr m => inr m
  | _ => inr "TypeError"
  end.

Theorem gen_pattern_color tagf pid mk others name stroke s : name <> "" ->
  src_pattern tagf pid name stroke (enc mk others s) =
  inl (enc mk others (M.m_pattern_color stroke (pid name) s), VNone).
Proof.
  intros Hn. destruct name as [|c r]; [congruence|]. clear Hn.
  destruct s as [tk ct cc ccs ca cas cf ofo eg nm mo].
  unfold src_pattern, enc, M.m_pattern_color, M.emit.
  cbn [M.toks M.ctms M.ccol M.ccols M.calpha M.calphas M.cfont M.ofont M.egs M.nmark M.markon].
  rewrite app_stream_obj, !map_rev_cons.
  etransitivity; [apply set_color_special_raw; reflexivity|].
  destruct stroke; reflexivity.
Qed.

(* ------------------------------------------------------------------ sequences: PatternColor leaves [impl] *)
Definition is_pattern (o : M.op) : bool := match o with M.PatternColor _ _ => true | _ => false end.
Section Lift.
Variable tagf : val -> string.
Variable pid : string -> Z.
Variable pname : Z -> string.          (* the resource name of the pattern with a given id: Pattern.id *)
Hypothesis pname_id : forall p, pid (pname p) = p.
Hypothesis pname_true : forall p, pname p <> "".
Variable others : list (string * val).
Variable impl : M.op -> val -> option val.

Definition impl_special (o : M.op) (self : val) : option val :=
  match o with
  | M.PatternColor stroke p =>
      match src_pattern tagf pid (pname p) stroke self with inl (self', _) => Some self' | inr _ => None end
  | _ => impl o self
  end.
(* what is still asked of [impl]: the operations that are neither tied nor PatternColor *)
Definition impl_ok_rest : Prop := forall o mk s, by_impl o = true -> is_pattern o = false -> marked_ok mk s ->
  match M.mstep o s with
  | Some s' => exists mk', impl o (enc mk others s) = Some (enc mk' others s') /\ marked_ok mk' s'
  | None => impl o (enc mk others s) = None
  end.

Theorem impl_special_ok : impl_ok_rest -> impl_ok others impl_special.
Proof.
  intros H o mk s B Hm.
  destruct o; try discriminate B; try exact (H _ mk s B eq_refl Hm).
  cbn [M.mstep]. exists mk. split.
  - unfold impl_special. rewrite gen_pattern_color by apply pname_true. rewrite pname_id. reflexivity.
  - exact Hm.
Qed.

Theorem grun_special_model cs mk s : impl_ok_rest -> marked_ok mk s ->
  match M.run (map fst cs) s with
  | Some s' => exists mk', grun tagf impl_special cs (enc mk others s) = Some (enc mk' others s') /\ marked_ok mk' s'
  | None => grun tagf impl_special cs (enc mk others s) = None
  end.
Proof. intros H. exact (grun_model tagf others impl_special (impl_special_ok H) cs mk s). Qed.
End Lift.

(* a pattern fill between q and Q, all from regenerated bodies, no [impl] *)
Example ex_pattern tagf others :
  grun tagf (impl_special tagf (fun n => Z.of_nat (String.length n)) (fun p => "p") (fun _ _ => None))
       (map (fun o => (o, no_mc)) [M.Push; M.PatternColor false 1%Z; M.Pop])
       (enc [] others (M.mk [] [M.mat_id] (Some (0, 5)%Z) None None None None None [] 0 true)) =
  Some (enc [] others (M.mk [M.TQ; M.Tpat false 1%Z; M.Tcs false 9%Z; M.Tq] [M.mat_id] None None None None None None [] 0 true)).
Proof. reflexivity. Qed.
