(* C06 - relative computed values: proofs about model/C06Values.v *)
From Coq Require Import ZArith QArith List Bool String Lia Lqa.
Require Import WV.model.C06Values.
Import ListNotations.
Open Scope Q_scope.

Definition px_is (r : lres) (q : Q) : Prop := match r with LPx x => x == q | LSame => False end.

Lemma Qzero_true v : Qzero v = true -> v == 0.
Proof. unfold Qzero. intros H. apply Qeq_bool_eq in H; auto. Qed.

(* em on any length property: against the element's own font size *)
Theorem em_against_own_font_size e v : px_is (length e false None (LDim v Em)) (v * own_fs e).
Proof.
  unfold length. destruct (Qzero v) eqn:Z; simpl.
  - apply Qzero_true in Z. rewrite Z. lra.
  - reflexivity.
Qed.

(* ex / ch likewise, times the font's ratio *)
Theorem ex_ch_against_own_font_size e v :
  px_is (length e false None (LDim v Ex)) (v * own_fs e * ex_ratio e) /\
  px_is (length e false None (LDim v Ch)) (v * own_fs e * ch_ratio e).
Proof.
  unfold length. destruct (Qzero v) eqn:Z; simpl.
  - apply Qzero_true in Z. rewrite Z. split; lra.
  - split; reflexivity.
Qed.

Theorem rem_against_root e b fs v :
  is_root e && negb b = false -> px_is (length e b fs (LDim v Rem)) (v * root_fs e).
Proof.
  intros H. unfold length. rewrite H. destruct (Qzero v) eqn:Z; simpl.
  - apply Qzero_true in Z. rewrite Z. lra.
  - reflexivity.
Qed.

(* rem in a length property: the computed font size of the root element - also on the root element itself
   (CSS Values 3 5.1.1; only the root's own font-size property refers to the initial value) *)
Theorem rem_in_length_properties (root : bool) own doc_root exr chr v :
  (root = true -> doc_root == own) ->
  px_is (length (element_env root own doc_root exr chr) false None (LDim v Rem)) (v * doc_root).
Proof.
  intros H. unfold length, element_env, root_font_size_for. simpl.
  destruct (Qzero v) eqn:Z; simpl.
  - apply Qzero_true in Z. rewrite Z. lra.
  - destruct root; simpl; [rewrite (H eq_refl)|]; reflexivity.
Qed.

(* absolute units are fixed multiples of the pixel: 1in = 96px = 72pt = 6pc = 2.54cm = 25.4mm = 101.6q *)
Theorem absolute_units e b fs v u f : to_pixels u = Some f -> px_is (length e b fs (LDim v u)) (v * f).
Proof.
  intros H. unfold length. destruct u; simpl in H; try discriminate; inversion H; subst; simpl;
    (destruct (Qzero v) eqn:Z; simpl; [apply Qzero_true in Z; rewrite Z|]; lra).
Qed.
Theorem unit_table_exact :
  to_pixels In_ = Some 96 /\
  (exists f, to_pixels Pt = Some f /\ f * 72 == 96) /\ (exists f, to_pixels Pc = Some f /\ f * 6 == 96) /\
  (exists f, to_pixels Cm = Some f /\ f * (254 # 100) == 96) /\
  (exists f, to_pixels Mm = Some f /\ f * (254 # 10) == 96) /\
  (exists f, to_pixels Qu = Some f /\ f * (1016 # 10) == 96).
Proof. repeat split; eexists; split; try reflexivity; reflexivity. Qed.

Theorem percent_and_keywords_unchanged e b fs v : length e b fs LKeyword = LSame /\ length e b fs (LDim v Pct) = LSame.
Proof. split; auto. unfold length. simpl. rewrite andb_false_r. reflexivity. Qed.

(* ---- font-size: em, ex, ch and % against the PARENT's font size (the initial value on the root) *)
Definition parent_or_initial (parent : option Q) : Q := match parent with Some p => p | None => initial_font_size end.
Definition some_is (r : option Q) (q : Q) : Prop := match r with Some x => x == q | None => False end.

Theorem font_size_em_against_parent e parent v :
  some_is (font_size e parent (FDim v Em)) (v * parent_or_initial parent).
Proof.
  unfold font_size, length, parent_or_initial. destruct (Qzero v) eqn:Z; simpl.
  - apply Qzero_true in Z. rewrite Z. lra.
  - reflexivity.
Qed.
Theorem font_size_percent_against_parent e parent v :
  some_is (font_size e parent (FDim v Pct)) (v * parent_or_initial parent / 100).
Proof. simpl. reflexivity. Qed.
Theorem font_size_ex_against_parent e parent v :
  some_is (font_size e parent (FDim v Ex)) (v * parent_or_initial parent * ex_ratio e).
Proof.
  unfold font_size, length, parent_or_initial. destruct (Qzero v) eqn:Z; simpl.
  - apply Qzero_true in Z. rewrite Z. lra.
  - reflexivity.
Qed.

(* rem: against the root element's font size; on the root element itself against the initial value *)
Theorem font_size_rem_against_root own exr chr parent (root : bool) doc_root v :
  some_is (font_size (element_env root own doc_root exr chr) parent (FDim v Rem))
          (v * (if root then 16 else doc_root)).
Proof.
  unfold font_size, length, element_env, root_font_size_for, initial_font_size. simpl.
  rewrite andb_false_r. destruct (Qzero v) eqn:Z; simpl.
  - apply Qzero_true in Z. rewrite Z. destruct root; lra.
  - destruct root; reflexivity.
Qed.

Theorem font_size_absolute e parent v u f :
  to_pixels u = Some f -> some_is (font_size e parent (FDim v u)) (v * f).
Proof.
  intros H. pose proof (absolute_units e true (Some (parent_or_initial parent)) v u f H) as P.
  unfold font_size. fold (parent_or_initial parent).
  destruct u; simpl in H; try discriminate;
    destruct (length e true (Some (parent_or_initial parent)) _); simpl in *; auto.
Qed.

(* ---- larger / smaller *)
Lemma Qltb_true a b : Qltb a b = true <-> a < b.
Proof.
  unfold Qltb. destruct (Qle_bool b a) eqn:E; simpl; split; intros H; auto; try discriminate.
  - apply Qle_bool_iff in E. lra.
  - apply Qnot_le_lt. intros C. apply Qle_bool_iff in C. congruence.
Qed.
Lemma Qltb_false a b : Qltb a b = false <-> b <= a.
Proof.
  unfold Qltb. destruct (Qle_bool b a) eqn:E; simpl; split; intros H; auto; try discriminate.
  - apply Qle_bool_iff in E; auto.
  - apply Qle_bool_iff in H. congruence.
Qed.

Ltac qcases :=
  repeat match goal with
         | |- context [Qltb ?a ?b] =>
             let E := fresh "E" in destruct (Qltb a b) eqn:E;
             [apply Qltb_true in E | apply Qltb_false in E]
         end.

Lemma larger_cases p :
  (p < 48 # 5 /\ larger p == 48 # 5) \/ (48 # 5 <= p < 12 /\ larger p == 12) \/
  (12 <= p < 128 # 9 /\ larger p == 128 # 9) \/ (128 # 9 <= p < 16 /\ larger p == 16) \/
  (16 <= p < 96 # 5 /\ larger p == 96 # 5) \/ (96 # 5 <= p < 24 /\ larger p == 24) \/
  (24 <= p < 32 /\ larger p == 32) \/ (32 <= p /\ larger p == p * (6 # 5)).
Proof.
  unfold larger, first_gt, keyword_values, keyword_factors, map, initial_font_size.
  qcases; lra.
Qed.
Lemma smaller_cases p :
  (32 < p /\ smaller p == 32) \/ (24 < p <= 32 /\ smaller p == 24) \/
  (96 # 5 < p <= 24 /\ smaller p == 96 # 5) \/ (16 < p <= 96 # 5 /\ smaller p == 16) \/
  (128 # 9 < p <= 16 /\ smaller p == 128 # 9) \/ (12 < p <= 128 # 9 /\ smaller p == 12) \/
  (48 # 5 < p <= 12 /\ smaller p == 48 # 5) \/ (p <= 48 # 5 /\ smaller p == p * (4 # 5)).
Proof.
  unfold smaller, first_lt, keyword_values, keyword_factors, map, rev, app, initial_font_size.
  qcases; lra.
Qed.

Theorem larger_smaller_monotone p q :
  p <= q -> larger p <= larger q /\ smaller p <= smaller q.
Proof.
  intros H. split.
  - destruct (larger_cases p) as [A|[A|[A|[A|[A|[A|[A|A]]]]]]];
    destruct (larger_cases q) as [B|[B|[B|[B|[B|[B|[B|B]]]]]]]; lra.
  - destruct (smaller_cases p) as [C|[C|[C|[C|[C|[C|[C|C]]]]]]];
    destruct (smaller_cases q) as [D|[D|[D|[D|[D|[D|[D|D]]]]]]]; lra.
Qed.
Theorem larger_is_larger_smaller_is_smaller p : 0 < p -> p < larger p /\ smaller p < p /\ 0 < smaller p.
Proof.
  intros H.
  destruct (larger_cases p) as [A|[A|[A|[A|[A|[A|[A|A]]]]]]];
  destruct (smaller_cases p) as [C|[C|[C|[C|[C|[C|[C|C]]]]]]]; repeat split; lra.
Qed.
(* the keywords of the table step to their neighbours *)
Theorem larger_smaller_step_keywords :
  larger 16 == 96 # 5 /\ smaller 16 == 128 # 9 /\ larger 12 == 128 # 9 /\ smaller 24 == 96 # 5 /\
  larger 32 == 192 # 5 /\ smaller (48 # 5) == 192 # 25.
Proof. vm_compute. repeat split. Qed.

(* ---- font-weight *)
Open Scope Z_scope.
Theorem bolder_lighter_table w :
  1 <= w <= 1000 ->
  (forall r, font_weight (Some w) WBolder = Some r -> r = css_bolder w) /\
  (forall r, font_weight (Some w) WLighter = Some r -> r = css_lighter w) /\
  (valid_weight w = true ->
   font_weight (Some w) WBolder = Some (css_bolder w) /\ font_weight (Some w) WLighter = Some (css_lighter w)).
Proof.
  intros Hw. unfold font_weight, bolder_table, lighter_table, zassoc.
  assert (K : forall k, (k =? w) = true -> k = w) by (intros; apply Z.eqb_eq; auto).
  split; [|split].
  - intros r.
    repeat match goal with |- context [?k =? w] => let E := fresh "E" in destruct (k =? w) eqn:E;
             [apply K in E; subst w; intros Hr; inversion Hr; reflexivity|] end.
    intros HH; discriminate HH.
  - intros r.
    repeat match goal with |- context [?k =? w] => let E := fresh "E" in destruct (k =? w) eqn:E;
             [apply K in E; subst w; intros Hr; inversion Hr; reflexivity|] end.
    intros HH; discriminate HH.
  - unfold valid_weight. intros Hv. apply andb_prop in Hv. destruct Hv as [Hv Hm].
    apply andb_prop in Hv. destruct Hv as [H1 H2]. apply Z.leb_le in H1, H2. apply Z.eqb_eq in Hm.
    assert (Hd : w = 100 * (w / 100)) by (rewrite (Z.div_mod w 100) at 1; lia).
    assert (Hq : 1 <= w / 100 <= 9) by lia.
    assert (Hc : w = 100 \/ w = 200 \/ w = 300 \/ w = 400 \/ w = 500 \/ w = 600 \/ w = 700 \/ w = 800 \/ w = 900) by lia.
    destruct Hc as [->|[->|[->|[->|[->|[->|[->|[->| ->]]]]]]]]; split; reflexivity.
Qed.
Theorem bolder_lighter_root : font_weight None WBolder = Some 700 /\ font_weight None WLighter = Some 100.
Proof. split; reflexivity. Qed.
Close Scope Z_scope.

(* ---- line-height *)
Theorem line_height_percent_against_own_font_size e v :
  line_height e (HPct v) = RPixels (v / 100 * own_fs e) /\ line_height e (HNumber v) = RNumber v.
Proof. split; reflexivity. Qed.
Theorem line_height_em_against_own_font_size e v :
  match line_height e (HLen v Em) with RPixels q => q == v * own_fs e | _ => False end.
Proof.
  unfold line_height. pose proof (em_against_own_font_size e v) as H.
  destruct (length e false None (LDim v Em)); simpl in *; auto.
Qed.

(* ---- media *)
Theorem media_selects (ql : list string) (dev : string) :
  evaluate_media_query ql dev = true <-> In "all"%string ql \/ In dev ql.
Proof.
  unfold evaluate_media_query. rewrite orb_true_iff, !existsb_exists. split.
  - intros [[x [Hx E]]|[x [Hx E]]]; apply String.eqb_eq in E; subst; auto.
  - intros [H|H]; [left|right]; eexists; split; eauto; apply String.eqb_refl.
Qed.
Example media_print_screen :
  evaluate_media_query ["screen"; "print"]%string "print" = true /\
  evaluate_media_query ["screen"]%string "print" = false /\
  evaluate_media_query ["all"]%string "print" = true /\
  evaluate_media_query [] "print" = false.
Proof. repeat split. Qed.
