(* C17 - appendix_E_order: on every well-formed tree the paint sequence of the model of
   from_box + draw_stacking_context is the Appendix E sequence written over the input tree. *)
From Coq Require Import ZArith List Bool Lia.
Require Import WV.model.C17Stacking WV.model.C17Spec.
Require Import WV.proofs.C17_sort WV.proofs.C17_dispatch WV.proofs.C17_collect WV.proofs.C17_aux.
Import ListNotations.
Open Scope Z_scope.

Lemma flat_map_map {A B C} (g : A -> B) (f : B -> list C) l : flat_map f (map g l) = flat_map (fun x => f (g x)) l.
Proof. induction l; simpl; [reflexivity|]. now rewrite IHl. Qed.

Lemma flat_map_ext_in {A B} (f g : A -> list B) l : (forall x, In x l -> f x = g x) -> flat_map f l = flat_map g l.
Proof.
  induction l as [|a r IH]; intros H; simpl; [reflexivity|].
  rewrite (H a (or_introl eq_refl)), IH; [reflexivity|]. intros; apply H; now right.
Qed.

Lemma wf_kids_of r b : wf_from r b = true -> wf_kids b = true.
Proof. intros H. apply wf_from_node in H. unfold wf_node in H. apply andb_true_iff in H. tauto. Qed.

Lemma filter_stays_all b : Forall (fun c => stays c = true) (filter stays (kids_of b)).
Proof. apply Forall_forall. intros c Hc. apply filter_In in Hc. tauto. Qed.

Lemma forallb_impl {A} (p q : A -> bool) l :
  (forall x, In x l -> p x = true -> q x = true) -> forallb p l = true -> forallb q l = true.
Proof.
  intros H Hp. rewrite forallb_forall in *. intros x Hx. apply H; auto.
Qed.

Lemma wf_kids_lines b :
  wf_kids b = true ->
  last_is_line (map tree_of (filter stays (kids_of b))) = all_lines (filter stays (kids_of b)).
Proof.
  intros Hk. apply last_is_line_map; [|apply filter_stays_all].
  unfold wf_kids in Hk. set (st := filter stays (kids_of b)) in *.
  assert (Hleaf : is_parent (knd (binfo b)) = false -> st = []).
  { intros Hp. unfold st, kids_of. now rewrite Hp. }
  destruct (knd (binfo b)) eqn:K;
    try (right; rewrite (Hleaf eq_refl); reflexivity);
    try (right; revert Hk; apply forallb_impl; intros x _ Hx;
         destruct (knd (binfo x)); simpl in *; try discriminate; try reflexivity;
         rewrite ?orb_false_r in Hx; rewrite Hx; reflexivity);
    try (apply orb_true_iff in Hk; destruct Hk as [Hk|Hk]; [left; exact Hk|right];
         revert Hk; apply forallb_impl; intros x _ Hx;
         apply andb_true_iff in Hx; destruct Hx as [Hx _]; apply andb_true_iff in Hx; destruct Hx as [Hx _];
         rewrite Hx; reflexivity).
Qed.

(* ------------------------------------------------------------------------------------------ outlines *)

Lemma outline_eq : forall f b, wf_from false b = true -> (height b < f)%nat ->
  flat_map (paint MOutline) (if stays b then [tree_of b] else []) = appendix_E f SOutline b.
Proof.
  induction f as [|f IH]; intros b Hw Hh; [lia|].
  simpl appendix_E. unfold stays.
  destruct (in_flow (binfo b)) eqn:Hf; simpl.
  - rewrite (tree_of_in_flow b Hf). unfold pb_of. simpl. rewrite app_nil_r. f_equal.
    rewrite (nk_of_wf false b Hw).
    assert (E : forall l, (forall k, In k l -> In k (bkids b)) ->
                flat_map (paint MOutline) (map tree_of (filter stays l)) = flat_map (appendix_E f SOutline) l).
    { induction l as [|k r IHr]; intros Hl; simpl; [reflexivity|].
      rewrite <- (IH k); [| apply (wf_from_kid false b); auto; apply Hl; now left
                          | pose proof (height_kid k b (Hl k (or_introl eq_refl))); lia].
      rewrite <- IHr by (intros; apply Hl; now right).
      destruct (stays k); simpl; [now rewrite app_nil_r|reflexivity]. }
    apply E. apply kids_of_incl.
  - destruct (atomic (binfo b)) eqn:Ha; [|reflexivity].
    simpl. unfold tree_of. rewrite Ha. reflexivity.
Qed.

Lemma outline_kids f b r : wf_from r b = true -> (height b <= f)%nat ->
  flat_map (paint MOutline) (nk_of b) = flat_map (appendix_E f SOutline) (kids_of b).
Proof.
  intros Hw Hh. rewrite (nk_of_wf r b Hw).
  assert (E : forall l, (forall k, In k l -> In k (bkids b)) ->
              flat_map (paint MOutline) (map tree_of (filter stays l)) = flat_map (appendix_E f SOutline) l).
  { induction l as [|k l IHr]; intros Hl; simpl; [reflexivity|].
    rewrite <- (outline_eq f k); [| apply (wf_from_kid r b); auto; apply Hl; now left
                                  | pose proof (height_kid k b (Hl k (or_introl eq_refl))); lia].
    rewrite <- IHr by (intros; apply Hl; now right).
    destruct (stays k); simpl; [now rewrite app_nil_r|reflexivity]. }
  apply E. apply kids_of_incl.
Qed.

(* -------------------------------------------------------------------------- point 4: blocks and tables *)

Lemma stays_kind_in_flow c : stays c = true -> stacking_class (knd (binfo c)) = false -> in_flow (binfo c) = true.
Proof.
  intros Hs Hk. destruct (stays_cases c Hs) as [[H _]|[_ H]]; [exact H|].
  unfold atomic in H. rewrite Hk, andb_false_r in H. discriminate.
Qed.

Lemma table_eq f b : wf_from false b = true -> in_flow (binfo b) = true ->
  paint MBlock (pb_of b) = appendix_E (S f) SBlock b.
Proof.
  intros Hw Hf. unfold pb_of. simpl.
  destruct (is_table (knd (binfo b))) eqn:Ht; [|reflexivity].
  f_equal. rewrite (nk_of_wf false b Hw).
  assert (Hk := wf_kids_of false b Hw). unfold wf_kids in Hk.
  assert (K : knd (binfo b) = KTable) by (destruct (knd (binfo b)); simpl in Ht; try discriminate; reflexivity).
  rewrite K in Hk. rewrite forallb_forall in Hk.
  (* row groups *)
  assert (G : forall g, In g (filter stays (kids_of b)) ->
                knd (binfo g) = KRowGroup /\ wf_from false g = true /\ tree_of g = PB (binfo g) (map tree_of (filter stays (kids_of g)))).
  { intros g Hg. specialize (Hk g Hg). apply filter_In in Hg. destruct Hg as [Hg Hs].
    assert (Kg : knd (binfo g) = KRowGroup) by (destruct (knd (binfo g)); try discriminate; reflexivity).
    assert (Wg : wf_from false g = true) by (apply (wf_from_kid false b); auto; now apply kids_of_incl).
    repeat split; auto. rewrite tree_of_in_flow by (apply stays_kind_in_flow; auto; now rewrite Kg).
    unfold pb_of. now rewrite (nk_of_wf false g Wg). }
  assert (R : forall g, In g (filter stays (kids_of b)) -> forall r, In r (filter stays (kids_of g)) ->
                knd (binfo r) = KRow /\ wf_from false r = true /\ tree_of r = PB (binfo r) (map tree_of (filter stays (kids_of r)))).
  { intros g Hg r Hr. destruct (G g Hg) as [Kg [Wg _]].
    assert (Hkg := wf_kids_of false g Wg). unfold wf_kids in Hkg. rewrite Kg in Hkg.
    rewrite forallb_forall in Hkg. specialize (Hkg r Hr). apply filter_In in Hr. destruct Hr as [Hr Hs].
    assert (Kr : knd (binfo r) = KRow) by (destruct (knd (binfo r)); try discriminate; reflexivity).
    assert (Wr : wf_from false r = true) by (apply (wf_from_kid false g); auto; now apply kids_of_incl).
    repeat split; auto. rewrite tree_of_in_flow by (apply stays_kind_in_flow; auto; now rewrite Kr).
    unfold pb_of. now rewrite (nk_of_wf false r Wr). }
  assert (C : forall g, In g (filter stays (kids_of b)) -> forall r, In r (filter stays (kids_of g)) ->
              forall c, In c (filter stays (kids_of r)) -> tree_of c = PB (binfo c) (nk_of c)).
  { intros g Hg r Hr c Hc. destruct (R g Hg r Hr) as [Kr [Wr _]].
    assert (Hkr := wf_kids_of false r Wr). unfold wf_kids in Hkr. rewrite Kr in Hkr.
    rewrite forallb_forall in Hkr. specialize (Hkr c Hc). apply filter_In in Hc. destruct Hc as [Hc Hs].
    assert (Kc : knd (binfo c) = KCell) by (destruct (knd (binfo c)); try discriminate; reflexivity).
    rewrite tree_of_in_flow by (apply stays_kind_in_flow; auto; now rewrite Kc). reflexivity. }
  f_equal.
  - unfold table_bgs. rewrite flat_map_map. apply flat_map_ext_in. intros g Hg.
    destruct (G g Hg) as [_ [_ ->]]. unfold group_bgs. f_equal.
    rewrite flat_map_map. apply flat_map_ext_in. intros r Hr.
    destruct (R g Hg r Hr) as [_ [_ ->]]. unfold row_bgs. f_equal.
    rewrite flat_map_map. apply flat_map_ext_in. intros c Hc.
    rewrite (C g Hg r Hr c Hc). reflexivity.
  - destruct (col (binfo b)); [reflexivity|]. f_equal.
    unfold table_borders. rewrite flat_map_map. apply flat_map_ext_in. intros g Hg.
    destruct (G g Hg) as [_ [_ ->]]. unfold group_borders. simpl pkids.
    rewrite flat_map_map. apply flat_map_ext_in. intros r Hr.
    destruct (R g Hg r Hr) as [_ [_ ->]]. simpl pkids.
    rewrite flat_map_map. apply flat_map_ext_in. intros c Hc.
    rewrite (C g Hg r Hr c Hc). reflexivity.
Qed.

(* ------------------------------------------------------------------------------- the main induction *)

Definition inline_kids (f : nat) (b : box) : list event :=
  flat_map (appendix_E f SInline) (filter stays (kids_of b)).
Definition lines_spec (f : nat) (b : box) : list event :=
  if is_replaced (knd (binfo b)) then [EPaint (bid (binfo b)) LContent]
  else if all_lines (filter stays (kids_of b)) then inline_kids f b else [].

Definition E_body (f' : nat) (b : box) (cs : list box) : list event :=
  let i := binfo b in
  let id := bid i in
  let kids := kids_of b in
  EOpen id BStack ::
  (if rcl i then [ESet id GRootClip] else []) ++
  (if abspos i && clp i then [ESet id GClipProp] else []) ++
  match tm i with
  | TSingular => [EClose id BStack]
  | _ =>
    (if opa i then [EOpen id BGroup] else []) ++
    (match tm i with TRegular => [ESet id GTransform] | _ => [] end) ++
    (if is_inline (knd i) || is_page (knd i) then [] else EPaint id LBg :: css_own_border i) ++
    table_part_bgs b ++
    EOpen id BInner ::
    (if ovf i && negb (is_page (knd i)) then [ESet id GClip] else []) ++
    flat_map (appendix_E f' SCtx) (sort_z zkey (filter (fun c => zkey c <? 0) cs)) ++
    flat_map (appendix_E f' SBlock) (flat_map flow_blocks kids) ++
    flat_map (appendix_E f' SCtx) (flat_map flow_floats kids) ++
    (if is_inline (knd i) then EPaint id LBg :: EPaint id LBorder :: inline_kids f' b else []) ++
    lines_spec f' b ++
    flat_map (appendix_E f' SLines) (flat_map flow_containers kids) ++
    flat_map (appendix_E f' SCtx) (filter (fun c => zkey c =? 0) cs) ++
    flat_map (appendix_E f' SCtx)
             (sort_z zkey (filter (fun c => negb (zkey c <? 0) && negb (zkey c =? 0)) cs)) ++
    EClose id BInner ::
    EPaint id LOutline :: flat_map (appendix_E f' SOutline) kids ++
    (if opa i then [EClose id BGroup] else []) ++
    [EClose id BStack]
  end.

Lemma E_ctx_unfold f' b :
  appendix_E (S f') SCtx b = E_body f' b (if creates_ctx (binfo b) then flat_map parts (kids_of b) else []).
Proof. reflexivity. Qed.
Lemma E_root_unfold f' b : appendix_E (S f') SRoot b = E_body f' b (flat_map parts (kids_of b)).
Proof. reflexivity. Qed.
Lemma E_lines_unfold f' b : appendix_E (S f') SLines b = lines_spec f' b.
Proof. reflexivity. Qed.
Lemma E_inline_unfold f' b :
  appendix_E (S f') SInline b =
  if atomic (binfo b) then appendix_E f' SCtx b
  else if in_flow (binfo b) then
    EPaint (bid (binfo b)) LBg :: EPaint (bid (binfo b)) LBorder ::
    (if is_inline (knd (binfo b)) || is_line (knd (binfo b)) then inline_kids f' b
     else [EPaint (bid (binfo b)) LContent])
  else [].
Proof. reflexivity. Qed.

Lemma paint_mk_ctx i nk cs bl fl bc :
  paint MCtx (mk_ctx i nk cs bl fl bc) =
  let id := bid i in
  EOpen id BStack ::
  (if rcl i then [ESet id GRootClip] else []) ++
  (if abspos i && clp i then [ESet id GClipProp] else []) ++
  match tm i with
  | TSingular => [EClose id BStack]
  | _ =>
    (if opa i then [EOpen id BGroup] else []) ++
    (match tm i with TRegular => [ESet id GTransform] | _ => [] end) ++
    (if point2_class (knd i) then EPaint id LBg :: own_border i else []) ++
    EOpen id BInner ::
    (if ovf i && negb (is_page (knd i)) then [ESet id GClip] else []) ++
    flat_map (paint MCtx) (sort_z ctx_z (filter (fun c => ctx_z c <? 0) cs)) ++
    flat_map (paint MBlock) bl ++
    flat_map (paint MCtx) fl ++
    (if is_inline (knd i) then EPaint id LBg :: EPaint id LBorder :: flat_map (paint MInline) nk else []) ++
    (if is_replaced (knd i) then [EPaint id LContent]
     else if last_is_line nk then flat_map (paint MInline) nk else []) ++
    flat_map (paint MLines) bc ++
    flat_map (paint MCtx) (filter (fun c => ctx_z c =? 0) cs) ++
    flat_map (paint MCtx) (sort_z ctx_z (filter (fun c => negb (ctx_z c <? 0) && negb (ctx_z c =? 0)) cs)) ++
    EClose id BInner ::
    EPaint id LOutline :: flat_map (paint MOutline) nk ++
    (if opa i then [EClose id BGroup] else []) ++
    [EClose id BStack]
  end.
Proof. reflexivity. Qed.

Lemma zctx_zkey x : zctx (binfo x) = zkey x.
Proof.
  unfold zctx, zkey, z_applies, positioned.
  destruct (negb (static (binfo x))), (fit (binfo x)), (git (binfo x)); reflexivity.
Qed.

Lemma ctx_z_node_of x : ctx_z (node_of x) = zkey x.
Proof. rewrite <- zctx_zkey. unfold node_of. destruct (creates_ctx (binfo x)); reflexivity. Qed.

Lemma zkey_part x :
  wf_from false x = true -> (creates_ctx (binfo x) = true \/ positioned (binfo x) = true) ->
  ctx_z (node_of x) = zkey x.
Proof. intros _ _. apply ctx_z_node_of. Qed.

Lemma part_not_in_flow x : (creates_ctx (binfo x) = true \/ positioned (binfo x) = true) -> in_flow (binfo x) = false.
Proof.
  unfold in_flow, out_of_flow. intros [->| ->]; simpl; [reflexivity|].
  now rewrite orb_true_r.
Qed.

Lemma float_facts x : is_float (binfo x) = true ->
  in_flow (binfo x) = false /\ node_of x = fake_node x.
Proof.
  unfold is_float, in_flow, out_of_flow, node_of. intros H.
  apply andb_true_iff in H. destruct H as [H Hf]. apply andb_true_iff in H. destruct H as [Hc Hp].
  apply negb_true_iff in Hc, Hp. rewrite Hc, Hp, Hf. split; reflexivity.
Qed.

Lemma point2_root_kind k : ctx_root_kind k = true -> point2_class k = negb (is_inline k || is_page k).
Proof. destruct k; simpl; intros H; try reflexivity; discriminate. Qed.
Lemma table_part_root_kind b : ctx_root_kind (knd (binfo b)) = true -> table_part_bgs b = [].
Proof. unfold table_part_bgs. destruct (knd (binfo b)); simpl; intros H; try reflexivity; discriminate. Qed.

Section Step.
Variable f' : nat.
Hypothesis Hctx : forall x, wf_from false x = true -> in_flow (binfo x) = false -> (2 * height x < f')%nat ->
  paint MCtx (node_of x) = appendix_E f' SCtx x.
Hypothesis Hinl : forall x, wf_from false x = true -> stays x = true ->
  (atomic (binfo x) || inline_level_kind (knd (binfo x)) || is_line (knd (binfo x))) = true ->
  (2 * height x + 1 < f')%nat ->
  paint MInline (tree_of x) = appendix_E f' SInline x.
Hypothesis Hlin : forall x, wf_from false x = true -> in_flow (binfo x) = true -> (2 * height x < f')%nat ->
  paint MLines (pb_of x) = appendix_E f' SLines x.

(* inline content of a box whose staying children are line boxes, or that is an inline / line box itself *)
Lemma inline_kids_eq r b :
  wf_from r b = true -> (2 * height b < S f')%nat ->
  Forall (fun k => (atomic (binfo k) || inline_level_kind (knd (binfo k)) || is_line (knd (binfo k))) = true)
         (filter stays (kids_of b)) ->
  flat_map (paint MInline) (nk_of b) = inline_kids f' b.
Proof.
  intros Hw Hh Hk. rewrite (nk_of_wf r b Hw). unfold inline_kids. rewrite flat_map_map.
  apply flat_map_ext_in. intros k Hkin. rewrite Forall_forall in Hk. specialize (Hk k Hkin).
  apply filter_In in Hkin. destruct Hkin as [Hkin Hs]. apply kids_of_incl in Hkin.
  apply Hinl; auto.
  - now apply (wf_from_kid r b).
  - pose proof (height_kid k b Hkin). lia.
Qed.

Lemma all_lines_forall l : all_lines l = true -> Forall (fun k => is_line (knd (binfo k)) = true) l.
Proof.
  destruct l as [|a l]; [discriminate|]. unfold all_lines. intros H. rewrite forallb_forall in H.
  apply Forall_forall. exact H.
Qed.

Lemma own_lines_eq r b :
  wf_from r b = true -> (2 * height b < S f')%nat ->
  (if is_replaced (knd (binfo b)) then [EPaint (bid (binfo b)) LContent]
   else if last_is_line (nk_of b) then flat_map (paint MInline) (nk_of b) else []) = lines_spec f' b.
Proof.
  intros Hw Hh. unfold lines_spec. destruct (is_replaced (knd (binfo b))); [reflexivity|].
  rewrite (nk_of_wf r b Hw) at 1. rewrite (wf_kids_lines b (wf_kids_of r b Hw)).
  destruct (all_lines (filter stays (kids_of b))) eqn:Hl; [|reflexivity].
  apply (inline_kids_eq r b Hw Hh).
  apply all_lines_forall in Hl. rewrite Forall_forall in *. intros k Hk. rewrite (Hl k Hk). now rewrite orb_true_r.
Qed.

Lemma ctx_step r b (ps : list box) :
  wf_from r b = true -> ctx_root_kind (knd (binfo b)) = true -> (2 * height b < S f')%nat ->
  (forall x, In x ps -> exists k, In k (kids_of b) /\ In x (parts k)) ->
  paint MCtx (mk_ctx (binfo b) (nk_of b) (map node_of ps) (s_bl (d_of b)) (s_fl (d_of b)) (s_bc (d_of b))) =
  E_body f' b ps.
Proof.
  intros Hw Hkind Hh Hps.
  destruct (d_of_shape b) as [_ [Hbl [Hfl Hbc]]].
  assert (Hdesc : forall k x, In k (kids_of b) -> In x (preorder k) ->
                   wf_from false x = true /\ (2 * height x + 2 <= 2 * height b)%nat).
  { intros k x Hk Hx. apply kids_of_incl in Hk. split.
    - now apply (wf_below r b k x).
    - pose proof (height_below b k x Hk Hx). lia. }
  assert (Hpart : forall x, In x ps ->
            wf_from false x = true /\ (2 * height x + 2 <= 2 * height b)%nat /\
            (creates_ctx (binfo x) = true \/ positioned (binfo x) = true)).
  { intros x Hx. destruct (Hps x Hx) as [k [Hk Hxk]]. destruct (parts_sub k x Hxk) as [Hpre Hcp].
    destruct (Hdesc k x Hk Hpre). auto. }
  assert (Zk : forall x, In x ps -> ctx_z (node_of x) = zkey x).
  { intros x Hx. destruct (Hpart x Hx) as [Hwx [_ Hcp]]. now apply zkey_part. }
  assert (Bucket : forall (p : Z -> bool) (l : list box), (forall x, In x l -> In x ps) ->
            flat_map (fun x => paint MCtx (node_of x)) l = flat_map (appendix_E f' SCtx) l).
  { intros p l Hl. apply flat_map_ext_in. intros x Hx. destruct (Hpart x (Hl x Hx)) as [Hwx [Hhx Hcp]].
    apply Hctx; auto; [now apply part_not_in_flow|lia]. }
  rewrite paint_mk_ctx. unfold E_body. cbv zeta. rewrite (table_part_root_kind b Hkind). simpl app.
  f_equal. f_equal. f_equal.
  destruct (tm (binfo b)) eqn:Htm; [|reflexivity|].
  all: f_equal; f_equal.
  all: rewrite (point2_root_kind _ Hkind);
       destruct (is_inline (knd (binfo b)) || is_page (knd (binfo b))) eqn:Hip; simpl negb; cbv iota.
  all: f_equal; try (f_equal; f_equal); f_equal.
  all: repeat match goal with |- _ ++ _ = _ ++ _ => f_equal end.
  all: try reflexivity.
  (* negative bucket *)
  all: try (rewrite (filter_map_comm_in (fun c => ctx_z c <? 0) (fun c => zkey c <? 0) node_of ps)
              by (intros a Ha; now rewrite (Zk a Ha));
            rewrite (sort_z_map_in zkey ctx_z node_of)
              by (intros a Ha; apply filter_In in Ha; apply Zk; tauto);
            rewrite flat_map_map; apply (Bucket (fun _ => true));
            intros x Hx; apply sort_z_in, filter_In in Hx; tauto).
  (* zero bucket *)
  all: try (rewrite (filter_map_comm_in (fun c => ctx_z c =? 0) (fun c => zkey c =? 0) node_of ps)
              by (intros a Ha; now rewrite (Zk a Ha));
            rewrite flat_map_map; apply (Bucket (fun _ => true));
            intros x Hx; apply filter_In in Hx; tauto).
  (* positive bucket *)
  all: try (rewrite (filter_map_comm_in (fun c => negb (ctx_z c <? 0) && negb (ctx_z c =? 0))
                                        (fun c => negb (zkey c <? 0) && negb (zkey c =? 0)) node_of ps)
              by (intros a Ha; now rewrite (Zk a Ha));
            rewrite (sort_z_map_in zkey ctx_z node_of)
              by (intros a Ha; apply filter_In in Ha; apply Zk; tauto);
            rewrite flat_map_map; apply (Bucket (fun _ => true));
            intros x Hx; apply sort_z_in, filter_In in Hx; tauto).
  (* blocks *)
  all: try (rewrite Hbl, flat_map_map; apply flat_map_ext_in; intros x Hx;
            apply in_flat_map in Hx; destruct Hx as [k [Hk Hx]];
            destruct (flow_blocks_sub k x Hx) as [Hpre [Hfx _]];
            destruct (Hdesc k x Hk Hpre) as [Hwx Hhx];
            destruct f' as [|f'']; [lia|]; now apply table_eq).
  (* floats *)
  all: try (rewrite Hfl, flat_map_map; apply flat_map_ext_in; intros x Hx;
            apply in_flat_map in Hx; destruct Hx as [k [Hk Hx]];
            destruct (flow_floats_sub k x Hx) as [Hpre Hfx];
            destruct (Hdesc k x Hk Hpre) as [Hwx Hhx];
            destruct (float_facts x Hfx) as [Hnf <-]; apply Hctx; auto; lia).
  (* containers *)
  all: try (rewrite Hbc, flat_map_map; apply flat_map_ext_in; intros x Hx;
            apply in_flat_map in Hx; destruct Hx as [k [Hk Hx]];
            destruct (flow_containers_sub k x Hx) as [Hpre Hfx];
            destruct (Hdesc k x Hk Hpre) as [Hwx Hhx]; apply Hlin; auto; lia).
  (* own lines *)
  all: try (apply (own_lines_eq r b Hw Hh)).
  (* outlines *)
  all: try (apply (outline_kids f' b r Hw); lia).
  (* point 6 *)
  all: try (destruct (is_inline (knd (binfo b))) eqn:Hin; [|reflexivity]; do 2 f_equal;
            apply (inline_kids_eq r b Hw Hh);
            pose proof (wf_kids_of r b Hw) as Hk; unfold wf_kids in Hk;
            assert (K : knd (binfo b) = KInline) by (destruct (knd (binfo b)); simpl in Hin; try discriminate; reflexivity);
            rewrite K in Hk; rewrite forallb_forall in Hk; apply Forall_forall; intros k Hkin;
            rewrite (Hk k Hkin); reflexivity).
  all: do 2 f_equal; apply (f_equal2 (@app event)); [apply (outline_kids f' b r Hw); lia | reflexivity].
Qed.

End Step.

Lemma paint_inline_mk i nk cs bl fl bc :
  paint MInline (mk_ctx i nk cs bl fl bc) =
  if stacking_class (knd i) then paint MCtx (mk_ctx i nk cs bl fl bc) else [EAssert (bid i)].
Proof. reflexivity. Qed.

Lemma paint_lines_pb i nk :
  paint MLines (PB i nk) =
  if is_replaced (knd i) then [EPaint (bid i) LContent]
  else if last_is_line nk then flat_map (paint MInline) nk else [].
Proof. reflexivity. Qed.

Lemma paint_inline_pb i nk :
  paint MInline (PB i nk) =
  EPaint (bid i) LBg :: EPaint (bid i) LBorder ::
  (if is_inline (knd i) || is_line (knd i) then flat_map (paint MInline) nk
   else if is_inline_replaced (knd i) then [EPaint (bid i) LContent]
   else if is_text (knd i) then [EPaint (bid i) LContent]
   else [EAssert (bid i)]).
Proof. reflexivity. Qed.

Definition P (f : nat) : Prop :=
  (forall x, wf_from false x = true -> in_flow (binfo x) = false -> (2 * height x < f)%nat ->
     paint MCtx (node_of x) = appendix_E f SCtx x) /\
  (forall x, wf_from false x = true -> stays x = true ->
     (atomic (binfo x) || inline_level_kind (knd (binfo x)) || is_line (knd (binfo x))) = true ->
     (2 * height x + 1 < f)%nat ->
     paint MInline (tree_of x) = appendix_E f SInline x) /\
  (forall x, wf_from false x = true -> in_flow (binfo x) = true -> (2 * height x < f)%nat ->
     paint MLines (pb_of x) = appendix_E f SLines x).

Lemma ctx_kind_of x : wf_from false x = true -> in_flow (binfo x) = false -> ctx_root_kind (knd (binfo x)) = true.
Proof.
  intros Hw Hf. apply wf_from_node in Hw. unfold wf_node, wf_ctx_kind in Hw.
  apply andb_true_iff in Hw. destruct Hw as [Hw _].
  rewrite Hf in Hw. exact Hw.
Qed.

Lemma P_all f : P f.
Proof.
  induction f as [|f [Hc [Hi Hl]]]; [repeat split; intros; lia|].
  repeat split.
  - intros x Hw Hnf Hh. rewrite E_ctx_unfold. unfold node_of.
    destruct (d_of_shape x) as [Hcc _].
    destruct (creates_ctx (binfo x)).
    + unfold real_node. rewrite Hcc.
      apply (ctx_step f Hc Hi Hl false x _ Hw (ctx_kind_of x Hw Hnf) Hh).
      intros y Hy. apply in_flat_map in Hy. exact Hy.
    + unfold fake_node. change (@nil pnode) with (map node_of []).
      apply (ctx_step f Hc Hi Hl false x [] Hw (ctx_kind_of x Hw Hnf) Hh).
      intros y [].
  - intros x Hw Hs Hk Hh. rewrite E_inline_unfold.
    destruct (stays_cases x Hs) as [[Hf Ha]|[Hf Ha]]; rewrite Ha.
    + rewrite Hf. rewrite (tree_of_in_flow x Hf). unfold pb_of. rewrite paint_inline_pb. do 2 f_equal.
      rewrite Ha in Hk. simpl in Hk.
      destruct (is_inline (knd (binfo x)) || is_line (knd (binfo x))) eqn:Hil.
      * apply (inline_kids_eq f Hi false x Hw); [lia|].
        pose proof (wf_kids_of false x Hw) as Hwk. unfold wf_kids in Hwk.
        destruct (knd (binfo x)); simpl in Hil; try discriminate;
          rewrite forallb_forall in Hwk; apply Forall_forall; intros k Hkin; rewrite (Hwk k Hkin); reflexivity.
      * destruct (knd (binfo x)); simpl in *; try discriminate; reflexivity.
    + unfold tree_of. rewrite Ha. unfold fake_node. rewrite paint_inline_mk.
      assert (Hsc : stacking_class (knd (binfo x)) = true).
      { unfold atomic in Ha. apply andb_true_iff in Ha. tauto. }
      rewrite Hsc.
      pose proof (Hc x Hw Hf) as H. unfold node_of in H. rewrite (atomic_not_creates _ Ha) in H.
      apply H. lia.
  - intros x Hw Hf Hh. rewrite E_lines_unfold. unfold pb_of. rewrite paint_lines_pb.
    apply (own_lines_eq f Hi false x Hw Hh).
Qed.

(* appendix_E_order *)
Theorem appendix_E_order t : wf t = true -> paint_ctx (from_box t) = appendix_E_paint t.
Proof.
  intros Hw. unfold paint_ctx, appendix_E_paint, fuel_for, wf in *. rewrite from_box_real.
  replace (2 * S (height t))%nat with (S (S (2 * height t))) by lia.
  rewrite E_root_unfold. unfold real_node.
  destruct (d_of_shape t) as [Hcc _]. rewrite Hcc.
  destruct (P_all (S (2 * height t))) as [Hc [Hi Hl]].
  apply (ctx_step _ Hc Hi Hl true t _ Hw); [|lia|].
  - apply wf_from_node in Hw. unfold wf_node, wf_ctx_kind in Hw.
    apply andb_true_iff in Hw. destruct Hw as [Hw _].
    exact Hw.
  - intros y Hy. apply in_flat_map in Hy. exact Hy.
Qed.

(* more fuel changes nothing: stated for the root, used for the page *)
Lemma root_any_fuel t f : wf t = true -> (2 * height t < f)%nat ->
  paint_ctx (from_box t) = appendix_E f SRoot t.
Proof.
  intros Hw Hh. destruct f as [|f]; [lia|]. unfold paint_ctx, wf in *. rewrite from_box_real.
  rewrite E_root_unfold. unfold real_node.
  destruct (d_of_shape t) as [Hcc _]. rewrite Hcc.
  destruct (P_all f) as [Hc [Hi Hl]].
  apply (ctx_step _ Hc Hi Hl true t _ Hw); [|lia|].
  - apply wf_from_node in Hw. unfold wf_node, wf_ctx_kind in Hw.
    apply andb_true_iff in Hw. destruct Hw as [Hw _].
    exact Hw.
  - intros y Hy. apply in_flat_map in Hy. exact Hy.
Qed.

(* ------------------------------------------------------------------------------------------ the page *)

Lemma E_page_unfold f' page :
  appendix_E (S f') SPage page =
  let i := binfo page in
  let id := bid i in
  let cs := kids_of page in
  EOpen id BStack ::
  (if rcl i then [ESet id GRootClip] else []) ++
  (if abspos i && clp i then [ESet id GClipProp] else []) ++
  match tm i with
  | TSingular => [EClose id BStack]
  | _ =>
    (if opa i then [EOpen id BGroup] else []) ++
    (match tm i with TRegular => [ESet id GTransform] | _ => [] end) ++
    (if is_inline (knd i) || is_page (knd i) then [] else EPaint id LBg :: css_own_border i) ++
    table_part_bgs page ++
    EOpen id BInner ::
    (if ovf i && negb (is_page (knd i)) then [ESet id GClip] else []) ++
    flat_map (appendix_E f' SRoot) (sort_z zkey (filter (fun c => zkey c <? 0) cs)) ++
    [] ++ [] ++
    (if is_inline (knd i) then [EPaint id LBg; EPaint id LBorder] else []) ++
    [] ++ [] ++
    flat_map (appendix_E f' SRoot) (filter (fun c => zkey c =? 0) cs) ++
    flat_map (appendix_E f' SRoot)
             (sort_z zkey (filter (fun c => negb (zkey c <? 0) && negb (zkey c =? 0)) cs)) ++
    EClose id BInner ::
    EPaint id LOutline :: [] ++
    (if opa i then [EClose id BGroup] else []) ++
    [EClose id BStack]
  end.
Proof. reflexivity. Qed.

Theorem appendix_E_page_order page :
  wf_page page = true -> paint_ctx (from_page (binfo page) (bkids page)) = appendix_E_page page.
Proof.
  intros Hw. unfold wf_page in Hw. apply andb_true_iff in Hw. destruct Hw as [Hpg Hw].
  rewrite forallb_forall in Hw.
  unfold paint_ctx, appendix_E_page, fuel_for, from_page.
  replace (2 * S (height page))%nat with (S (S (2 * height page))) by lia.
  rewrite E_page_unfold, paint_mk_ctx. cbv zeta.
  assert (Hk : kids_of page = bkids page).
  { unfold kids_of. destruct (knd (binfo page)); simpl in Hpg; try discriminate. reflexivity. }
  rewrite Hk.
  assert (K : knd (binfo page) = KPage) by (destruct (knd (binfo page)); simpl in Hpg; try discriminate; reflexivity).
  rewrite K. simpl point2_class. simpl is_inline. simpl is_replaced. simpl is_page. simpl last_is_line.
  assert (TP : table_part_bgs page = []) by (unfold table_part_bgs; now rewrite K). rewrite TP.
  assert (Zk : forall c, In c (bkids page) -> ctx_z (from_box c) = zkey c).
  { intros c Hc. rewrite from_box_real. rewrite <- zctx_zkey. reflexivity. }
  assert (Bucket : forall l, (forall x, In x l -> In x (bkids page)) ->
            flat_map (fun x => paint MCtx (from_box x)) l = flat_map (appendix_E (S (2 * height page)) SRoot) l).
  { intros l Hl. apply flat_map_ext_in. intros x Hx. specialize (Hl x Hx).
    pose proof (Hw x Hl) as Hwx.
    apply (root_any_fuel x _ Hwx). pose proof (height_kid x page Hl). lia. }
  f_equal. f_equal. f_equal.
  destruct (tm (binfo page)); [|reflexivity|].
  all: f_equal; f_equal; simpl app; f_equal; f_equal.
  all: repeat match goal with |- _ ++ _ = _ ++ _ => f_equal end.
  all: try reflexivity.
  all: try (rewrite (filter_map_comm_in (fun c => ctx_z c <? 0) (fun c => zkey c <? 0) from_box (bkids page))
              by (intros a Ha; now rewrite (Zk a Ha));
            rewrite (sort_z_map_in zkey ctx_z from_box)
              by (intros a Ha; apply filter_In in Ha; apply Zk; tauto);
            rewrite flat_map_map; apply Bucket;
            intros x Hx; apply sort_z_in, filter_In in Hx; tauto).
  all: try (rewrite (filter_map_comm_in (fun c => ctx_z c =? 0) (fun c => zkey c =? 0) from_box (bkids page))
              by (intros a Ha; now rewrite (Zk a Ha));
            rewrite flat_map_map; apply Bucket;
            intros x Hx; apply filter_In in Hx; tauto).
  all: try (rewrite (filter_map_comm_in (fun c => negb (ctx_z c <? 0) && negb (ctx_z c =? 0))
                                        (fun c => negb (zkey c <? 0) && negb (zkey c =? 0)) from_box (bkids page))
              by (intros a Ha; now rewrite (Zk a Ha));
            rewrite (sort_z_map_in zkey ctx_z from_box)
              by (intros a Ha; apply filter_In in Ha; apply Zk; tauto);
            rewrite flat_map_map; apply Bucket;
            intros x Hx; apply sort_z_in, filter_In in Hx; tauto).
Qed.

(* StackingContext.z_index of the context of any box: the z-index where it applies, else 0 *)
Lemma ctx_z_from_box b : ctx_z (from_box b) = zkey b.
Proof. rewrite from_box_real. rewrite <- zctx_zkey. reflexivity. Qed.
