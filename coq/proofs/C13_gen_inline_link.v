(* C13 - inline_replaced_box_layout with its callee inline_replaced_box_width_height answered by that function's own
   regenerated body (both of gen/GenInlineReplaced.v): margins first (CSS 2.1 10.3.2 / 10.6.2: 'auto' -> 0), then the
   plan of C13_gen_inline.wh_plan on the box with the used margins. *)
From Coq Require Import QArith List Bool String.
Require Import WV.base.Py WV.proofs.PyTac WV.gen.GenInlineReplaced WV.model.C13Replaced WV.proofs.C13_gen_tac.
Require Import WV.proofs.C13_gen_inline.
Import ListNotations.
Open Scope string_scope.
Open Scope list_scope.
Open Scope Q_scope.

(* like to_call, on the left-hand side of an equation *)
Ltac hnf_l := match goal with |- ?l = ?r => let l' := eval hnf in l in change (l' = r) end.
Ltac to_call_l O :=
  hnf_l;
  match goal with
  | |- context [ocall O ?f ?a] =>
      let a' := eval lazy -[Py.qadd Py.qsub Py.qmul Py.qdiv Py.qmax Py.qmin Py.qleb Py.qeqb] in a in
      change (ocall O f a) with (ocall O f a')
  end.
Ltac paths_l :=
  repeat match goal with |- (if ?c then _ else _) = _ => let E := fresh "E" in destruct c eqn:E end.

(* inline_replaced_box_width_height for any observer: the final environment *)
Lemma gen_width_height_any O A (obs : env -> option val -> A) kerr bw bh rest cb final (HC : is_value cb)
      (HP : plan_run O (wh_plan bw bh) cb (whbox bw bh rest) final) :
  exists r, run O inline_replaced_box_width_height_body [("box", whbox bw bh rest); ("containing_block", cb)] obs kerr
            = obs [("box", final); ("containing_block", cb); ("%call", r)] None.
Proof.
  unfold run, inline_replaced_box_width_height_body.
  destruct bw as [bw|], bh as [bh|]; cbn [wh_plan both_auto plan_run takes_cb String.eqb Ascii.eqb Bool.eqb orb] in HP;
    unfold whbox in *; cbn [vauto] in *.
  1-3: destruct HP as (r1 & b1 & H1 & r2 & b2 & H2 & HF); subst final; exists r2.
  4: destruct HP as (r1 & b1 & H1 & r2 & b2 & H2 & r3 & b3 & H3 & HF); subst final; exists r3.
  all: destruct cb; try (exfalso; exact HC).
  all: hnf_l; paths_l.
  all: to_call_l O; rewrite H1; clear H1.
  all: to_call_l O; rewrite H2; clear H2.
  all: try (to_call_l O; rewrite H3; clear H3).
  all: lazy -[Py.ocall]; reflexivity.
Qed.

(* what a call inline_replaced_box_width_height(box, containing_block) answers as an oracle STATEMENT (returned value,
   box afterwards) when it is that function's regenerated body, run with the same operations *)
Definition wh_callee (O : qops) (args : list val) : val :=
  match args with
  | [b; cb] => run O inline_replaced_box_width_height_body [("box", b); ("containing_block", cb)]
                 (fun rho res => VList [match res with Some v => v | None => VNone end; lookup "box" rho]) VErr
  | _ => VErr "TypeError"
  end.

(* the box: width and height, the four margins, anything else *)
Definition lbox (bw bh mt mr mb ml : oq) rest : val := whbox bw bh (match ibox mt mr mb ml rest with VObj f => f | _ => [] end).
Definition lbox_used (bw bh mt mr mb ml : oq) rest : val :=
  whbox bw bh (match ibox_used mt mr mb ml rest with VObj f => f | _ => [] end).

(* O1: the operations the callee's body runs with (its five callees answer along the plan); O: the operations of
   inline_replaced_box_layout, whose oracle inline_replaced_box_width_height is that body *)
Definition linked_to (O O1 : qops) : Prop :=
  forall args, ocall O "inline_replaced_box_width_height" args = wh_callee O1 args.
Lemma linked_ops_exist O1 : exists O, linked_to O O1.
Proof.
  exists (with_calls O1 (fun f args => if String.eqb f "inline_replaced_box_width_height" then wh_callee O1 args
                                       else ocall O1 f args)).
  intros args. reflexivity.
Qed.

Theorem gen_inline_layout_linked O O1 bw bh mt mr mb ml rest cb final (HC : is_value cb)
        (HL : linked_to O O1)
        (HP : plan_run O1 (wh_plan bw bh) cb (lbox_used bw bh mt mr mb ml rest) final) :
  run O inline_replaced_box_layout_body [("box", lbox bw bh mt mr mb ml rest); ("containing_block", cb)]
    (leaves_box final) (fun _ => False).
Proof.
  unfold lbox_used, ibox_used, ibox in HP.
  destruct (gen_width_height_any O1 val
              (fun rho res => VList [match res with Some v => v | None => VNone end; lookup "box" rho]) VErr
              bw bh _ cb final HC HP) as (r & HR).
  assert (HW : ocall O "inline_replaced_box_width_height" [lbox_used bw bh mt mr mb ml rest; cb] = VList [VNone; final]).
  { rewrite HL. unfold wh_callee, lbox_used, ibox_used, ibox. rewrite HR. reflexivity. }
  clear HR HL HP.
  unfold lbox_used, ibox_used, ibox, whbox in HW.
  unfold run, inline_replaced_box_layout_body, lbox, ibox, whbox.
  destruct bw as [bw|], bh as [bh|], mt as [mt|], mr as [mr|], mb as [mb|], ml as [ml|]; cbn [vauto used_margin] in *.
  all: to_call O; rewrite HW; clear HW.
  all: lazy -[Py.ocall]; destruct cb; try (split; reflexivity); exact HC.
Qed.
