(* C03 progress, part 2: a layout call on an EMPTY page (page_is_empty = true) never aborts and stops strictly
   after the point where it started. *)
From Coq Require Import ZArith List Bool Lia Arith.
Require Import WV.model.Frag2 WV.proofs.C01_defs WV.proofs.C01_lines WV.proofs.C01_blocks WV.proofs.C01_step
        WV.proofs.C01_main WV.proofs.C01_thm WV.proofs.C03_progress_pos.
Import ListNotations.
Open Scope nat_scope.

(* ---- paragraph level: with page_is_empty the first line is always placed and _break_line never aborts ---- *)
Lemma break_line_pie st n rem : break_line st n rem true <> None.
Proof.
  unfold break_line. cbn [negb]. rewrite !andb_false_r.
  match goal with |- context [if ?cnd then _ else _] => destruct cnd end; discriminate.
Qed.

Lemma lines_loop_no_abort c st pb bb index bs : forall ids k gen_y y placed mt dbd cur,
  lr_abort (lines_loop c st pb bb index true bs ids k gen_y y placed mt dbd cur) = false.
Proof.
  induction ids as [|id rest IH]; intros k gen_y y placed mt dbd cur; [reflexivity|].
  simpl lines_loop.
  match goal with |- context [if ?cond then _ else _] => destruct cond end.
  - pose proof (break_line_pie st (length placed) (length rest)) as Hb.
    destruct (break_line st (length placed) (length rest) true); [reflexivity|congruence].
  - apply IH.
Qed.

Lemma lines_step_no_abort c st pb bb bs ids index sub s :
  match lines_step c st pb bb true bs ids index sub s with SAbort _ => False | _ => True end.
Proof.
  unfold lines_step, linebox_layout. cbv zeta.
  match goal with |- context [lines_loop c st pb bb index true bs ?i ?k ?g ?y [] ?m ?d ?sb] =>
    pose proof (lines_loop_no_abort c st pb bb index bs i k g y [] m d sb) as Hna;
    set (r := lines_loop c st pb bb index true bs i k g y [] m d sb) in * end.
  destruct (lr_placed r); cbn [lr_abort lr_stop]; rewrite Hna; destruct (lr_stop r); exact I.
Qed.

(* ---- one block child on a page whose container was given page_is_empty = true ---- *)
Inductive step_shape_t (rec : rec_t) (index : nat) (sub : option skip) (newc : list frag) : sout -> Prop :=
| sht_before s' : newc <> [] -> step_shape_t rec index sub newc (SStop (Some (SChild index None)) s')
| sht_earlier newc' res' s' : find_earlier newc = Some (newc', res') ->
    step_shape_t rec index sub newc (SStop (Some res') s')
| sht_inside p m b a r A B C rs s' :
    rec p m b sub (Nat.eqb (length newc) 0) a = (Some r, A, B, C) -> b_resume r = Some rs ->
    step_shape_t rec index sub newc (SStop (Some (SChild index (Some rs))) s')
| sht_cont s' : step_shape_t rec index sub newc (SCont s').

Lemma blk_step_shape_t c rec child cst is_root bs index sub s :
  (ls_newc s = [] -> forall p m b a, exists r A B C, rec p m b sub true a = (Some r, A, B, C)) ->
  step_shape_t rec index sub (ls_newc s) (blk_step c rec child cst is_root true bs index sub s).
Proof.
  intros Hrec. unfold blk_step.
  destruct (ls_newc s) as [|f0 nl] eqn:En.
  - (* first child on the empty page: it is laid out with page_is_empty and always kept *)
    cbn [length Nat.eqb andb].
    destruct (Hrec eq_refl (ls_pos s) (child_mt c cst is_root true (ls_cur s)) bs (ls_cur s)) as (r & A & B & C & Er).
    rewrite Er.
    destruct (frag_geom (b_frag r)) as [[[[[[[cy cmt] cmb] cpt] cpb] cbt] cbb] ch] eqn:Egeom.
    cbv zeta. cbn [negb andb].
    destruct (b_ct r); cbv beta iota;
      (destruct (b_resume r) as [rs|] eqn:Eres; [eapply sht_inside; [exact Er|exact Eres]|apply sht_cont]).
  - set (newc := f0 :: nl) in *.
    assert (Hne : newc <> []) by (subst newc; congruence).
    destruct (force _) eqn:Eforce.
    + apply sht_before. exact Hne.
    + change (true && (length newc =? 0)) with (length newc =? 0).
      assert (Hfail : forall pb py c2 ci O2 np,
        step_shape_t rec index sub newc
          (let s_fail := mkLS py c2 ci O2 np newc (ls_mt s) (ls_dbd s) in
           let plain := match newc with [] => SAbort O2 | _ :: _ => SStop (Some (SChild index None)) s_fail end in
           if avoid pb then
             match find_earlier newc with
             | Some (newc', res') => SStop (Some res') (mkLS py c2 ci O2 np newc' (ls_mt s) (ls_dbd s))
             | None => if negb true then SAbort O2 else plain
             end
           else plain)).
      { intros pb py c2 ci O2 np. cbv zeta. destruct (avoid pb).
        - destruct (find_earlier newc) as [[newc' res']|] eqn:Efe; [eapply sht_earlier; exact Efe|].
          cbn [negb]. subst newc. apply sht_before. exact Hne.
        - subst newc. apply sht_before. exact Hne. }
      destruct (rec (ls_pos s) _ bs sub _ (ls_cur s)) as [[[res cur_fin] out] same] eqn:Erec1.
      destruct res as [r|].
      * destruct (frag_geom (b_frag r)) as [[[[[[[cy cmt] cmb] cpt] cpb] cbt] cbb] ch] eqn:Egeom.
        cbv zeta.
        destruct (b_ct r) eqn:Ect.
        -- cbv beta iota.
           destruct (b_resume r) as [rs|] eqn:Eres; [eapply sht_inside; [exact Erec1|exact Eres]|apply sht_cont].
        -- match goal with |- context [if ?cnd then (None, _, _, _, _, _, _) else _] => destruct cnd eqn:Eco end.
           ++ cbv beta iota. apply Hfail.
           ++ match goal with |- context [if ?cnd then _ else (Some (b_frag r), _, _, _, _, _, _)] => destruct cnd eqn:Ebo end.
              ** destruct (rec (ls_pos s) _ (bs + cpb + cbb)%Z sub _ cur_fin) as [[[res2 cur_fin2] out2] same2] eqn:Erec2.
                 destruct res2 as [r2|].
                 --- destruct (frag_geom (b_frag r2)) as [[[[[[[cy2 cmt2] cmb2] cpt2] cpb2] cbt2] cbb2] ch2] eqn:Egeom2.
                     cbv beta iota.
                     destruct (b_resume r2) as [rs|] eqn:Eres; [eapply sht_inside; [exact Erec2|exact Eres]|apply sht_cont].
                 --- cbv beta iota. apply Hfail.
              ** cbv beta iota.
                 destruct (b_resume r) as [rs|] eqn:Eres; [eapply sht_inside; [exact Erec1|exact Eres]|apply sht_cont].
      * cbv beta iota. apply Hfail.
Qed.

(* ---- specification: progress of a layout function on an empty page ---- *)
Definition PR (b : box) (rec : rec_t) : Prop :=
  forall p m bs sk a, wf_skip b sk ->
    exists r A B C, rec p m bs sk true a = (Some r, A, B, C) /\
      (b_resume r = None \/ exists s, b_resume r = Some s /\ pos b sk < pos b (Some s)).

Section Loop.
Variables (kids : list box) (i0 : nat) (sub0 : option skip).
Hypothesis HFE : Forall FE kids.
Hypothesis Hwfk : forallb wf_box kids = true.

Lemma step_later index sub newc child rec out :
  nth_error kids index = Some child -> PR child rec -> wf_skip child sub ->
  covers kids i0 sub0 newc -> index = i0 + length newc ->
  sub = (if length newc =? 0 then sub0 else None) ->
  step_shape_t rec index sub newc out ->
  match out with
  | SAbort _ => False
  | SStop res _ => exists jj x, res = Some (SChild jj x) /\ pos_kids pos kids i0 sub0 < pos_kids pos kids jj x
  | SCont _ => True
  end.
Proof.
  intros Hk HPR Hwfs Hcov Hidx Hsub Hsh.
  assert (Hfirst : newc <> [] -> forall x, pos_kids pos kids i0 sub0 < pos_kids pos kids index x).
  { intros Hne x. destruct newc as [|f0 nl]; [congruence|].
    destruct (Hcov 0 f0 eq_refl) as (kid0 & Hk0 & _ & Hw0 & _). rewrite Nat.add_0_r in Hk0. simpl in Hw0.
    eapply pos_kids_idx_lt; [exact Hk0|exact Hw0|]. simpl in Hidx. lia. }
  destruct Hsh as [s' Hne|newc' res' s' Hfe|p m b a r A B C rs s' Hrec Hres|s'].
  - exists index, None. split; [reflexivity|]. now apply Hfirst.
  - unfold find_earlier in Hfe.
    assert (Hgo : fe_go find_earlier_f newc = Some (newc', res')).
    { simpl in Hfe. destruct newc as [|f0 nc]; [exact Hfe|].
      destruct (Hcov 0 f0 eq_refl) as (kid & _ & _ & _ & Hc0).
      destruct (cinv_is_fblk _ _ _ Hc0) as (st1 & i1 & y1 & mt1 & mb1 & pt1 & pb1 & bt1 & bb1 & h1 & fk1 & ->).
      exact Hfe. }
    assert (HFL : Forall FL kids) by (apply Forall_forall; intros; apply find_earlier_later).
    destruct (fe_go_later kids HFL Hwfk newc i0 sub0 newc' res' Hcov Hgo) as (jj & x & -> & Hlt).
    exists jj, x. split; [reflexivity|exact Hlt].
  - exists index, (Some rs). split; [reflexivity|].
    destruct newc as [|f0 nl].
    + (* the child was laid out on the empty page: it made progress itself *)
      simpl in Hidx, Hsub, Hrec. rewrite Nat.add_0_r in Hidx. subst index sub.
      destruct (HPR p m b sub0 a Hwfs) as (r' & A' & B' & C' & Er & Hprog).
      rewrite Er in Hrec. injection Hrec as <- _ _ _.
      destruct Hprog as [X|(s1 & Es & Hlt)]; [congruence|].
      rewrite Hres in Es. injection Es as <-.
      eapply pos_kids_sub_lt; eassumption.
    + apply Hfirst. congruence.
  - exact I.
Qed.

Variable stepf : box -> nat -> option skip -> lstate -> sout.
Hypothesis Hstep : forall index child sub s, nth_error kids index = Some child -> wf_skip child sub ->
  exists rec, RS child rec /\ PR child rec /\
    step_shape rec index sub (ls_newc s) (stepf child index sub s) /\
    step_shape_t rec index sub (ls_newc s) (stepf child index sub s).

Lemma kids_loop_later : forall l index sub s,
  l = skipn index kids -> index <= length kids ->
  covers kids i0 sub0 (ls_newc s) -> index = i0 + length (ls_newc s) ->
  sub = (if length (ls_newc s) =? 0 then sub0 else None) ->
  (forall child, nth_error kids index = Some child -> wf_skip child sub) ->
  match kids_loop stepf l index 0 sub s with
  | LAbort _ => False
  | LDone true res _ => exists jj x, res = Some (SChild jj x) /\ pos_kids pos kids i0 sub0 < pos_kids pos kids jj x
  | LDone false _ _ => True
  end.
Proof.
  induction l as [|child rest IH]; intros index sub s Hl Hle Hcov Hidx Hsub Hwfs; [exact I|].
  symmetry in Hl. destruct (nth_error_skipn_cons _ _ _ _ Hl) as [Hk Hrest].
  simpl. destruct (Hstep index child sub s Hk (Hwfs _ Hk)) as (rec & HRS & HPR & Hsh & Hsht).
  pose proof (step_ok kids i0 sub0 HFE Hwfk index sub (ls_newc s) child rec _ Hk HRS (Hwfs _ Hk) Hcov Hidx Hsub Hsh) as Hok.
  pose proof (step_later index sub (ls_newc s) child rec _ Hk HPR (Hwfs _ Hk) Hcov Hidx Hsub Hsht) as Hlater.
  destruct (stepf child index sub s) as [O|res s'|s']; [exact Hlater|exact Hlater|].
  destruct Hok as (Hcov' & Hidx' & Hw).
  assert (Hlt : index < length kids) by (apply nth_error_Some; congruence).
  assert (Hnz : length (ls_newc s') =? 0 = false) by (apply Nat.eqb_neq; lia).
  apply (IH (S index) None s' (eq_sym Hrest) ltac:(lia) Hcov' Hidx' ltac:(now rewrite Hnz)
            ltac:(intros; apply wf_skip_none)).
Qed.
End Loop.

Lemma finish_blk_pie c st is_root cwc pos_y1 mt pt bt bs broke resume0 s :
  exists r A B C, finish_blk c st is_root true cwc pos_y1 mt pt bt bs (LDone broke resume0 s) = (Some r, A, B, C) /\
                  b_resume r = (if broke then resume0 else None).
Proof.
  unfold finish_blk. cbv zeta. cbn [negb]. rewrite andb_false_r.
  repeat match goal with
         | |- context [let '(_, _) := (if ?cnd then _ else _) in _] => destruct cnd
         end; do 4 eexists; split; reflexivity.
Qed.

(* ---- block_container_layout on an empty page: never aborts, stops strictly later than it started ---- *)
Theorem bcl_progress : forall b c, wf_box b = true -> is_blk b = true -> PR b (bcl c b).
Proof.
  induction b as [ids|st kids rt IH] using box_ind'; intros c Hwfb Hisb p m bs sk a Hwfs; [discriminate|].
  rewrite wf_box_blk in Hwfb. apply andb_prop in Hwfb. destruct Hwfb as [Hwfb Hwfk].
  apply andb_prop in Hwfb. destruct Hwfb as [Hwfb Hshape]. apply andb_prop in Hwfb. destruct Hwfb as [Ho Hw].
  apply Nat.leb_le in Ho. apply Nat.leb_le in Hw.
  rewrite (pos_blk_decode _ _ _ _ Hwfs).
  cbn [bcl]. cbv zeta.
  change (match sk with Some (SChild i _) => i | _ => 0 end) with (skip_idx sk).
  change (match sk with Some (SChild _ s0) => s0 | _ => None end) with (skip_sub sk).
  assert (Hcase : (exists ids, kids = [Lines ids]) \/ forallb is_blk kids = true).
  { unfold kids_shape in Hshape. destruct kids as [|[ids|st1 k1 r1] [|k2 l]]; eauto. }
  destruct Hcase as [[ids ->]|Hblk].
  - (* one line-box child *)
    assert (Hi0 : skip_idx sk = 0 /\ wf_skip (Lines ids) (skip_sub sk)).
    { destruct (wf_skip_blk _ _ _ _ Hwfs) as [->|(i & sub & -> & Hk)]; [split; [reflexivity|exact I]|].
      simpl. destruct i; simpl in Hk; [auto|contradiction]. }
    destruct Hi0 as [Hi0 Hwl]. rewrite Hi0. cbn [kids_loop].
    match goal with |- context [lines_step ?c ?st ?pb ?bb true ?bs ids 0 ?sub ?s0] =>
      pose proof (lines_step_spec c st pb bb true bs ids 0 sub s0 Ho Hwl) as Hls;
      pose proof (lines_step_no_abort c st pb bb bs ids 0 sub s0) as Hna;
      destruct (lines_step c st pb bb true bs ids 0 sub s0) as [O|res s'|s'] end; [contradiction| |].
    + match goal with |- context [finish_blk ?c ?st ?ir true ?cwc ?py ?mt ?pt ?bt ?bs (LDone ?br ?rs ?s)] =>
        destruct (finish_blk_pie c st ir cwc py mt pt bt bs br rs s) as (r & A & B & C & Ef & Er) end.
      exists r, A, B, C. split; [exact Ef|]. right.
      destruct Hls as (placed & n & Hn & Hok & Hne & Hnn & Hlt & ->).
      eexists. split; [exact Er|]. simpl.
      change (match skip_sub sk with Some (SLine k) => k | _ => 0 end) with (start_line (skip_sub sk)).
      destruct placed; [congruence|]. simpl in Hnn. lia.
    + cbn [kids_loop].
      match goal with |- context [finish_blk ?c ?st ?ir true ?cwc ?py ?mt ?pt ?bt ?bs (LDone ?br ?rs ?s)] =>
        destruct (finish_blk_pie c st ir cwc py mt pt bt bs br rs s) as (r & A & B & C & Ef & Er) end.
      exists r, A, B, C. split; [exact Ef|]. left. exact Er.
  - (* block children *)
    assert (HFE : Forall FE kids) by (apply Forall_forall; intros; apply find_earlier_conserves).
    assert (Hi0 : skip_idx sk <= length kids /\
                  (forall child, nth_error kids (skip_idx sk) = Some child -> wf_skip child (skip_sub sk))).
    { destruct (wf_skip_blk _ _ _ _ Hwfs) as [->|(i & sub & -> & Hk)].
      - simpl. split; [lia|intros; apply wf_skip_none].
      - simpl. pose proof (wf_skip_kids_lt _ _ _ Hk). split; [lia|].
        intros child Hc. destruct (wf_skip_kids_inv _ _ _ Hk) as (kid & Hk1 & Hk2). congruence. }
    destruct Hi0 as [Hi0 Hwfsub].
    rewrite kids_loop_skip by exact Hi0. simpl Nat.add.
    match goal with |- context [kids_loop ?stepf _ _ _ _ ?s0] =>
      pose proof (kids_loop_later kids (skip_idx sk) (skip_sub sk) HFE Hwfk stepf) as HKL;
      specialize (fun H => HKL H (skipn (skip_idx sk) kids) (skip_idx sk) (skip_sub sk) s0 eq_refl Hi0);
      set (stf := stepf) in *; set (st0 := s0) in *
    end.
    simpl ls_newc in HKL.
    assert (Hstep : forall index child sub s1, nth_error kids index = Some child -> wf_skip child sub ->
              exists rec, RS child rec /\ PR child rec /\
                step_shape rec index sub (ls_newc s1) (stf child index sub s1) /\
                step_shape_t rec index sub (ls_newc s1) (stf child index sub s1)).
    { intros index child sub s1 Hk Hwc.
      pose proof (forallb_nth _ _ _ _ Hblk Hk) as Hb. destruct child as [|cst ck cr]; [discriminate|].
      pose proof (forallb_nth _ _ _ _ Hwfk Hk) as Hwfc.
      pose proof (Forall_nth _ _ _ _ IH Hk c Hwfc eq_refl) as HPRc.
      exists (bcl c (Blk cst ck cr)). split; [now apply bcl_conserves|]. split; [exact HPRc|]. subst stf. cbv beta iota.
      split; [apply blk_step_shape|].
      apply blk_step_shape_t. intros _ p1 m1 b1 a1.
      destruct (HPRc p1 m1 b1 sub a1 Hwc) as (r1 & A1 & B1 & C1 & E1 & _). eauto. }
    assert (Hcov0 : covers kids (skip_idx sk) (skip_sub sk) []) by (intros [|j] f Hf; discriminate Hf).
    specialize (HKL Hstep Hcov0 ltac:(simpl; lia) eq_refl Hwfsub).
    destruct (kids_loop stf (skipn (skip_idx sk) kids) (skip_idx sk) 0 (skip_sub sk) st0) as [O|broke res s']; [contradiction|].
    match goal with |- context [finish_blk ?c ?st ?ir true ?cwc ?py ?mt ?pt ?bt ?bs (LDone ?br ?rs ?s)] =>
      destruct (finish_blk_pie c st ir cwc py mt pt bt bs br rs s) as (r & A & B & C & Ef & Er) end.
    exists r, A, B, C. split; [exact Ef|].
    destruct broke; [|now left]. right.
    destruct HKL as (jj & x & -> & Hlt). eexists. split; [exact Er|]. now rewrite pos_child.
Qed.
Print Assumptions bcl_progress.
