(* C09 - text_align(context, line, available_width, last) of weasyprint/layout/inline.py as REGENERATED from the source
   on every run (gen/GenInline.v) computes the hand model text_align of model/C09Align.v (on which the offset theorems
   of props/C09.v rest), for every text-align-all / text-align-last / direction / white-space value, last-line flag,
   line width and available width: the returned offset is the model's (numbers up to ==), and justify_line is called
   exactly when the model says so, with the model's extra width.
   justify_line(context, line, extra_width) is an external statement: an oracle answering [returned value; the line
   after the call] (tools/py2coq.py, EXTERNAL_STMT).  The theorem holds whatever function of its arguments it is, so
   the final state of the line says what justify_line received. *)
From Coq Require Import QArith Qminmax Lqa List String Bool.
Require Import WV.base.Py WV.base.PyLink WV.gen.GenInline WV.proofs.PyTac WV.proofs.PyNatural.
Require Import WV.model.C09Line WV.model.C09Align WV.proofs.C09_align.
Import ListNotations.
Open Scope string_scope.
Open Scope list_scope.
Open Scope Q_scope.

(* computed values: css/validation/properties.py text_align_all, text_align_last, white_space *)
Definition aname (a : align) : string :=
  match a with
  | AStart => "start" | AEnd => "end" | ALeft => "left" | ARight => "right" | ACenter => "center"
  | AJustify => "justify"
  end.
Definition lname (l : align_last) : string := match l with LAuto => "auto" | LSome a => aname a end.
Definition wsname (w : white_space) : string :=
  match w with
  | WsNormal => "normal" | WsNowrap => "nowrap" | WsPre => "pre" | WsPreWrap => "pre-wrap" | WsPreLine => "pre-line"
  end.

(* a line box as text_align reads it: line.width and four entries of line.style; anything else in rest / srest *)
Definition line_box (w : Q) (a : align) (l : align_last) (ws : white_space) (rtl : bool)
           (srest rest : list (string * val)) : val :=
  VObj (("width", VNum w) ::
        ("style", VObj (("text_align_all", VStr (aname a)) :: ("text_align_last", VStr (lname l)) ::
                        ("white_space", VStr (wsname ws)) ::
                        ("direction", VStr (if rtl then "rtl" else "ltr")) :: srest)) :: rest).

(* justify_line answers ret and leaves the line in the state jl [context; line; extra_width], jl being ANY function
   of the arguments it receives *)
Definition justify_oracle (ret : val) (jl : list val -> val) (f : string) (args : list val) : val :=
  if String.eqb f "justify_line" then VList [ret; jl args] else VErr "NameError".

Definition text_align_post (ctx line ret : val) (jl : list val -> val) (r : Q * option Q)
           (rho : env) (res : option val) : Prop :=
  (exists o, res = Some (VNum o) /\ o == fst r) /\
  match snd r with
  | Some extra => exists e, e == extra /\ lookup "line" rho = jl [ctx; line; VNum e] /\ lookup "%call" rho = ret
  | None => lookup "line" rho = line /\ lookup "%call" rho = VErr "unbound:%call"
  end.

Lemma gen_text_align O (HO : ops_ok O) cf w av a l ws rtl last srest rest ret jl :
  let ctx := VObj cf in
  let line := line_box w a l ws rtl srest rest in
  run (with_calls O (justify_oracle ret jl)) text_align_body
      [("context", ctx); ("line", line); ("available_width", VNum av); ("last", VBool last)]
      (text_align_post ctx line ret jl (text_align w av a l rtl (space_collapse ws) last)) (fun _ => False).
Proof.
  intros ctx line. subst ctx line.
  unfold run, text_align_body, line_box, text_align.
  (* the operations are the rational ones (ops_ok); they stay opaque for the evaluation below *)
  destruct O as [qa qs qm qd qx qn ql qe oc wf]; destruct HO as [H1 H2 H3 H4 H5 H6 H7 H8];
    cbn [Py.qadd Py.qsub Py.qmul Py.qdiv Py.qmax Py.qmin Py.qleb Py.qeqb] in *; subst.
  unfold with_calls; cbn [Py.qadd Py.qsub Py.qmul Py.qdiv Py.qmax Py.qmin Py.qleb Py.qeqb Py.wfuel].
  destruct last; [destruct l as [|la]; [destruct a|destruct la]|destruct a]; destruct ws, rtl;
    lazy -[Qeq Qopp Qdiv Qminus Qle_bool text_align_post];
    destruct (Qle_bool av w);
    unfold text_align_post; cbn [fst snd];
    (split; [eexists; (split; [reflexivity|])
            | first [split; reflexivity | eexists; (split; [|split; reflexivity])]]);
    reflexivity.
Qed.

(* a property of every outcome of the model's is a property of the source's *)
Lemma run_weaken O body rho (P Q : env -> option val -> Prop) :
  (forall rho' r, P rho' r -> Q rho' r) -> run O body rho P (fun _ => False) -> run O body rho Q (fun _ => False).
Proof.
  intros HPQ. rewrite !(PyNatural.run_natural O body rho).
  destruct (PyNatural.run_out O body rho); [apply HPQ|exact (fun x => x)].
Qed.

(* the offset returned by the source lies in [0, available_width - line.width] (0 when the line is as wide as the
   available width or wider), whatever text-align-all, text-align-last, direction, white-space, last *)
Lemma gen_text_align_offset_in_range O (HO : ops_ok O) cf w av a l ws rtl last srest rest ret jl :
  run (with_calls O (justify_oracle ret jl)) text_align_body
      [("context", VObj cf); ("line", line_box w a l ws rtl srest rest); ("available_width", VNum av);
       ("last", VBool last)]
      (fun _ res => exists o, res = Some (VNum o) /\ 0 <= o /\ (w <= av -> o <= av - w) /\ (av <= w -> o == 0))
      (fun _ => False).
Proof.
  eapply run_weaken; [|exact (gen_text_align O HO cf w av a l ws rtl last srest rest ret jl)].
  intros rho' r [(o & -> & Ho) _]. exists o. split; [reflexivity|].
  destruct (text_align_bounds w av a l rtl (space_collapse ws) last) as (B0 & B1 & B2).
  cbv zeta in B0, B1, B2. rewrite Ho. repeat split; assumption.
Qed.

(* when the model (hence the source) calls justify_line, and with what *)
Lemma text_align_justifies_iff w av a l rtl col last e :
  snd (text_align w av a l rtl col last) = Some e <->
  effective a l last = AJustify /\ col = true /\ w < av /\ e = av - w.
Proof.
  unfold text_align, effective.
  destruct (Qle_bool av w) eqn:E.
  - apply Qle_bool_iff in E. cbn [snd]. split; [discriminate|]. intros (_ & _ & H & _). lra.
  - apply Qle_bool_false in E.
    set (a1 := if last then match l with LAuto => a | LSome x => x end else a).
    destruct a1, rtl, col; cbn [snd xorb]; split; try discriminate;
      try (intros (H & _); discriminate H); try (intros (_ & H & _); discriminate H).
    all: try (intros H; injection H as <-; repeat split; assumption).
    all: intros (_ & _ & _ & ->); reflexivity.
Qed.

Example text_align_example :
  let line := line_box 30 AJustify LAuto WsNormal false [] [] in
  run (with_calls real_ops (justify_oracle VNone VList)) text_align_body
      [("context", VObj []); ("line", line); ("available_width", VNum 100); ("last", VBool false)]
      (fun rho r => r = Some (VNum 0) /\ lookup "line" rho = VList [VObj []; line; VNum (100 - 30)])
      (fun _ => False).
Proof. split; reflexivity. Qed.
Example text_align_example_center :
  run (with_calls real_ops (justify_oracle VNone VList)) text_align_body
      [("context", VObj []); ("line", line_box 30 AJustify (LSome ACenter) WsPre true [] []);
       ("available_width", VNum 100); ("last", VBool true)]
      (fun rho r => r = Some (VNum ((100 - 30) / 2)) /\ lookup "%call" rho = VErr "unbound:%call")
      (fun _ => False).
Proof. split; reflexivity. Qed.
