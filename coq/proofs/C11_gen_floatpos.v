(* C11 - float_width (without its handle_min_max_width decorator, like absolute_width) and find_float_position (whole
   body) of weasyprint/layout/float.py as REGENERATED from the source on every run (gen/GenFloatPos.v).

   float_width: an auto width becomes shrink_to_fit(context, box, containing_block.width) (CSS 2.1 10.3.5), any other
   width is left alone, nothing else of the box changes.  shrink_to_fit is an oracle.

   find_float_position computes the hand model find_float_position of model/C11Float.v (on which the theorems of
   proofs/C11_float.v about CSS 2.1 9.5.1 rest: float_not_above, ...), for every list of excluded shapes, every kind
   of box and every position:
     - context.excluded_shapes is any list of objects with a position_y,
     - avoid_collisions(context, box, containing_block) is an oracle (its loop is regenerated and proved separately,
       C11_gen_avoid.v): some functions ax / ay / aw of the position_y the box has when it is called,
     - box.translate(dx, dy) is an external statement: it adds (dx, dy) to (position_x, position_y),
     - box.margin_width() answers the model's margin_width.
   The returned box is the given one moved to the model's (x, y) (numbers up to ==). *)
From Coq Require Import QArith Qminmax Lqa List String Bool ZArith Lia.
Require Import WV.base.Py WV.gen.GenFloatPos WV.proofs.PyTac WV.model.C11Float WV.proofs.C11_float.
Import ListNotations.
Open Scope string_scope.
Open Scope list_scope.
Open Scope Q_scope.

(* ------------------------------------------------------------------ float_width *)
Definition vo (o : oq) : val := match o with Some q => VNum q | None => VStr "auto" end.
(* the hand model: the used width of a float *)
Definition float_width_model (stf : Q -> Q) (cbw : Q) (w : oq) : Q :=
  match w with None => stf cbw | Some q => q end.
Definition wbox (w : oq) (rest : list (string * val)) : val := VObj (("width", vo w) :: rest).

Lemma gen_float_width O (HO : ops_ok O) (stf : Q -> Q) cf w rest cbw cbrest
      (Hs : forall bx, ocall O "shrink_to_fit" [VObj cf; bx; VNum cbw] = VNum (stf cbw)) :
  run O float_width_body
    [("box", wbox w rest); ("context", VObj cf); ("containing_block", VObj (("width", VNum cbw) :: cbrest))]
    (fun rho res => res = None /\ lookup "box" rho = wbox (Some (float_width_model stf cbw w)) rest)
    (fun _ => False).
Proof.
  unfold run, float_width_body, wbox, float_width_model.
  destruct w as [q|]; lazy -[ocall]; [|rewrite Hs; lazy]. all: split; reflexivity.
Qed.
Print Assumptions gen_float_width.

(* CSS 2.1 10.3.5: "If 'width' is computed as 'auto', the used value is the shrink-to-fit width"; otherwise the
   width is kept *)
Theorem float_width_clauses stf cbw :
  float_width_model stf cbw None = stf cbw /\ forall q, float_width_model stf cbw (Some q) = q.
Proof. split; reflexivity. Qed.

(* ------------------------------------------------------------------ find_float_position *)
Definition float_str (k : kind) : string :=
  match k with FloatLeft => "left" | FloatRight => "right" | _ => "none" end.
Definition fboxv (b : fbox) (px py : Q) (rest : list (string * val)) : val :=
  VObj (("position_x", VNum px) :: ("position_y", VNum py)
        :: ("style", VObj [("float", VStr (float_str (f_kind b)))]) :: rest).
Definition shv (sr : shape -> list (string * val)) (s : shape) : val := VObj (("position_y", VNum (s_y s)) :: sr s).
Definition ctxv (sr : shape -> list (string * val)) (shapes : list shape) (crest : list (string * val)) : val :=
  VObj (("excluded_shapes", VList (map (shv sr) shapes)) :: crest).
Definition with_py (b : fbox) (py : Q) : fbox :=
  mk_fbox (f_kind b) py (f_ml b) (f_mr b) (f_mt b) (f_mb b) (f_bw b) (f_bh b).

(* the three callees: box.translate(dx, dy) moves the position, avoid_collisions answers (ax, ay, aw) at the box's
   current position_y, box.margin_width() answers the model's margin_width *)
Definition ffp_calls (mw : Q) (ax ay aw : Q -> Q) (f : string) (args : list val) : val :=
  if String.eqb f ".translate" then
    match args with
    | [VObj (("position_x", VNum px) :: ("position_y", VNum py) :: r); VNum dx; VNum dy; VBool false] =>
        VList [VNone; VObj (("position_x", VNum (px + dx)) :: ("position_y", VNum (py + dy)) :: r)]
    | _ => VErr "TypeError"
    end
  else if String.eqb f "avoid_collisions" then
    match args with
    | [_; VObj (_ :: ("position_y", VNum py) :: _); _; VBool true] => VList [VNum (ax py); VNum (ay py); VNum (aw py)]
    | _ => VErr "TypeError"
    end
  else if String.eqb f ".margin_width" then VNum mw
  else VErr "NameError".
Definition ffp_ops (O : qops) (b : fbox) (ax ay aw : Q -> Q) : qops := with_calls O (ffp_calls (margin_width b) ax ay aw).

(* where the search starts: rules 5 and 6 *)
Definition first_y (shapes : list shape) (py : Q) : Q :=
  match shapes with
  | [] => py
  | _ => let highest := s_y (last shapes (mk_shape true 0 0 0 0)) in
         if Qlt_b py highest then py + (highest - py) else py
  end.
Definition ffp_post (b : fbox) (rest : list (string * val)) (shapes : list shape) (py : Q) (ax ay aw : Q -> Q)
           (rho : env) (res : option val) : Prop :=
  let p1 := first_y shapes py in
  exists X Y, res = Some (fboxv b X Y rest) /\ Y == ay p1 /\
              X == match f_kind b with FloatRight => ax p1 + (aw p1 - margin_width b) | _ => ax p1 end.

Lemma nonempty_last {A} (l : list A) (x : A) : match l ++ [x] with [] => false | _ :: _ => true end = true.
Proof. destruct l; reflexivity. Qed.

Lemma pindex_last (l : list val) (x : val) :
  prim_apply PIndex [VList (l ++ [x]); VNum (0 - (1#1))] = x.
Proof.
  change (0 - (1#1)) with (-1#1). unfold prim_apply. change (as_int (-1#1)) with (Some (-1)%Z).
  cbv beta iota.
  rewrite app_length. cbn [List.length]. rewrite Nat.add_1_r.
  assert (E1 : ((0 <=? -1) && (-1 <? Z.of_nat (S (List.length l))))%Z = false) by reflexivity.
  rewrite E1.
  assert (E2 : ((- Z.of_nat (S (List.length l)) <=? -1) && (-1 <? 0))%Z = true).
  { apply andb_true_iff; split; [apply Z.leb_le; lia | reflexivity]. }
  rewrite E2.
  replace (Z.to_nat (Z.of_nat (S (List.length l)) + -1)) with (List.length l) by lia.
  rewrite app_nth2 by lia. rewrite Nat.sub_diag. reflexivity.
Qed.

Lemma first_y_last front s py :
  first_y (front ++ [s]) py = if Qlt_b py (s_y s) then py + (s_y s - py) else py.
Proof.
  unfold first_y. rewrite last_last. destruct front; reflexivity.
Qed.

Ltac ev :=
  lazy -[prim_apply s_y Qplus Qminus Qmult Qdiv Qle_bool Qeq_bool Qmax Qmin margin_width].
Ltac fin := eexists; eexists; (split; [reflexivity|]); split; ring.

Lemma gen_find_float_position_k O (HO : ops_ok O) b rest ax ay aw
      sr shapes crest cb px py (P : env -> option val -> Prop)
      (HP : forall rho res, ffp_post b rest shapes py ax ay aw rho res -> P rho res) :
  run (ffp_ops O b ax ay aw) find_float_position_body
    [("context", ctxv sr shapes crest); ("box", fboxv b px py rest); ("containing_block", VObj cb)]
    P (fun _ => False).
Proof.
  destruct O as [oa os om od omx omn ole oeq oc ow]. destruct HO as [E1 E2 E3 E4 E5 E6 E7 E8].
  cbn in E1, E2, E3, E4, E5, E6, E7, E8. subst.
  unfold run, find_float_position_body, ctxv, fboxv, ffp_ops, with_calls.
  destruct shapes as [|s0 t _] using rev_ind.
  - unfold ffp_post, fboxv in HP. cbn [first_y] in HP. cbn [map].
    revert HP; destruct (f_kind b) eqn:Ek; intro HP; cbn [float_str] in HP; ev; apply HP; fin.
  - unfold ffp_post, fboxv in HP. rewrite first_y_last in HP. unfold Qlt_b in HP.
    rewrite map_app. cbn [map].
    assert (F1 := nonempty_last (map (shv sr) t) (shv sr s0)).
    assert (F2 := pindex_last (map (shv sr) t) (shv sr s0)).
    remember (map (shv sr) t ++ [shv sr s0]) as vs eqn:Hvs. clear Hvs.
    revert HP; destruct (f_kind b) eqn:Ek; intro HP; cbn [float_str] in HP; ev; rewrite F1; ev;
      rewrite F2; ev;
      destruct (Qle_bool (s_y s0) py) eqn:El; cbn [negb] in HP; ev; apply HP; fin.
Qed.

Lemma gen_find_float_position O (HO : ops_ok O) b rest ax ay aw 
      sr shapes crest cb px py :
  run (ffp_ops O b ax ay aw) find_float_position_body
    [("context", ctxv sr shapes crest); ("box", fboxv b px py rest); ("containing_block", VObj cb)]
    (ffp_post b rest shapes py ax ay aw) (fun _ => False).
Proof. apply gen_find_float_position_k; auto. Qed.
Print Assumptions gen_find_float_position.

(* the regenerated body computes the hand model: when the oracle avoid_collisions is the model's avoid_collisions *)
Lemma ffp_post_model b rest shapes ax ay aw fuel cbx cbw rtl rho res
      (Hav : forall p, avoid_collisions fuel shapes cbx cbw rtl true (with_py b p) = Some (ax p, ay p, aw p)) :
  ffp_post b rest shapes (f_py b) ax ay aw rho res ->
  exists X Y x y, res = Some (fboxv b X Y rest) /\
                  find_float_position fuel shapes cbx cbw rtl b = Some (x, y) /\ X == x /\ Y == y.
Proof.
  intros [X [Y [Hr [HY HX]]]]. exists X, Y.
  unfold find_float_position. fold (first_y shapes (f_py b)). fold (with_py b (first_y shapes (f_py b))).
  rewrite Hav. eexists; eexists. split; [exact Hr|]. split; [reflexivity|]. split; [|exact HY].
  rewrite HX. destruct (f_kind b); reflexivity.
Qed.

Theorem gen_find_float_position_model O (HO : ops_ok O) b rest ax ay aw
        sr shapes crest cb px fuel cbx cbw rtl
        (Hav : forall p, avoid_collisions fuel shapes cbx cbw rtl true (with_py b p) = Some (ax p, ay p, aw p)) :
  run (ffp_ops O b ax ay aw) find_float_position_body
    [("context", ctxv sr shapes crest); ("box", fboxv b px (f_py b) rest); ("containing_block", VObj cb)]
    (fun rho res => exists X Y x y, res = Some (fboxv b X Y rest) /\
                                    find_float_position fuel shapes cbx cbw rtl b = Some (x, y) /\ X == x /\ Y == y)
    (fun _ => False).
Proof.
  apply (gen_find_float_position_k O HO b rest ax ay aw).
  intros rho res H. exact (ffp_post_model b rest shapes ax ay aw fuel cbx cbw rtl rho res Hav H).
Qed.
Print Assumptions gen_find_float_position_model.

(* CSS 2.1 9.5.1 rules 5 and 6, about the box the regenerated find_float_position returns: its outer top is not above
   the position it had (the current position in the flow) nor above the top of the float placed before it
   (float_not_above of proofs/C11_float.v, carried to the source) *)
Theorem gen_find_float_position_not_above O (HO : ops_ok O) b rest ax ay aw
        sr shapes crest cb px fuel cbx cbw rtl
        (Hfl : floated b) (Hnz : ~ f_bh b == 0)
        (Hav : forall p, avoid_collisions fuel shapes cbx cbw rtl true (with_py b p) = Some (ax p, ay p, aw p)) :
  run (ffp_ops O b ax ay aw) find_float_position_body
    [("context", ctxv sr shapes crest); ("box", fboxv b px (f_py b) rest); ("containing_block", VObj cb)]
    (fun rho res => exists X Y, res = Some (fboxv b X Y rest) /\ f_py b <= Y /\
                                (shapes <> [] -> s_y (last shapes (mk_shape true 0 0 0 0)) <= Y))
    (fun _ => False).
Proof.
  apply (gen_find_float_position_k O HO b rest ax ay aw).
  intros rho res H.
  destruct (ffp_post_model b rest shapes ax ay aw fuel cbx cbw rtl rho res Hav H) as [X [Y [x [y [Hr [Hm [_ HY]]]]]]].
  exists X, Y. split; [exact Hr|].
  destruct (float_not_above fuel shapes cbx cbw rtl b x y Hfl Hnz Hm) as [A B].
  split; [rewrite HY; exact A | intro Hne; rewrite HY; exact (B Hne)].
Qed.
Print Assumptions gen_find_float_position_not_above.

(* ------------------------------------------------------------------ float_layout: auto margins are 0
   the slice from `cb_width, cb_height = ..` up to `clearance = ..`: resolve_percentages / resolve_position_percentages
   are external statements (whatever state they leave the box in: four margins that are numbers or auto, the rest
   arbitrary), containing_block.content_box_y() any number *)
Definition zero_auto (o : oq) : Q := match o with Some q => q | None => 0 end.
Definition mbox (ml mr mt mb : oq) (rest : list (string * val)) : val :=
  VObj (("margin_left", vo ml) :: ("margin_right", vo mr) :: ("margin_top", vo mt) :: ("margin_bottom", vo mb) :: rest).
Definition fl_calls (cby : Q) (b1 : list (string * val)) (b2 : val) (f : string) (args : list val) : val :=
  if String.eqb f "resolve_percentages" then VList [VNone; VObj b1]
  else if String.eqb f "resolve_position_percentages" then VList [VNone; b2]
  else if String.eqb f ".content_box_y" then VNum cby
  else VErr "NameError".

Lemma gen_float_layout_margins O (HO : ops_ok O) cby b1 ml mr mt mb rest box0 cbw cbh cpy cbrest :
  run (with_calls O (fl_calls cby b1 (mbox ml mr mt mb rest))) float_layout_margins_body
    [("box", VObj box0);
     ("containing_block", VObj (("width", VNum cbw) :: ("height", vo cbh) :: ("position_y", VNum cpy) :: cbrest))]
    (fun rho res => res = None /\
                    lookup "box" rho = mbox (Some (zero_auto ml)) (Some (zero_auto mr)) (Some (zero_auto mt))
                                            (Some (zero_auto mb)) rest)
    (fun _ => False).
Proof.
  destruct O as [oa os om od omx omn ole oeq oc ow]. destruct HO as [E1 E2 E3 E4 E5 E6 E7 E8].
  cbn in E1, E2, E3, E4, E5, E6, E7, E8. subst.
  unfold run, float_layout_margins_body, with_calls, mbox.
  destruct cbh as [h|], ml as [ml|], mr as [mr|], mt as [mt|], mb as [mb|]; ev; split; reflexivity.
Qed.
Print Assumptions gen_float_layout_margins.

(* CSS 2.1 10.3.5: "If 'margin-left', or 'margin-right' are computed as 'auto', their used value is '0'" (the code
   does the same on the vertical axis, 10.6.7); a margin that is a number is kept *)
Theorem float_margins_clauses : zero_auto None = 0 /\ forall q, zero_auto (Some q) = q.
Proof. split; reflexivity. Qed.
