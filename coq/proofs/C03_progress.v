(* C03 progress, part 3: every page makes progress, hence the page loop terminates within a number of pages
   that depends on the document only (not on the page height, the line height, the margins, the break values). *)
From Coq Require Import ZArith List Bool Lia Arith.
Require Import WV.model.Frag2 WV.proofs.C01_defs WV.proofs.C01_lines WV.proofs.C01_blocks WV.proofs.C01_main
        WV.proofs.C01_thm WV.proofs.C04_breaks WV.proofs.C03_progress_pos WV.proofs.C03_progress_step.
Import ListNotations.
Open Scope nat_scope.

(* ---- 1. PROGRESS of one page ---- *)
(* The root laid out on an empty page from a valid resume point: the call never aborts, the returned resume
   point is valid and strictly later in document order ([pos], equivalently the lexicographic order [later]). *)
Theorem page_makes_progress : forall root c p m bs resume a,
  wf_box root = true -> is_blk root = true -> wf_skip root resume ->
  exists r A B C, bcl c root p m bs resume true a = (Some r, A, B, C) /\
    wf_res root (b_resume r) /\
    fwords (b_frag r) ++ words_res root (b_resume r) = words_from root resume /\
    (b_resume r = None \/
     exists s, b_resume r = Some s /\ pos root resume < pos root (Some s) /\ later root resume (Some s)).
Proof.
  intros root c p m bs resume a Hwf Hb Hsk.
  destruct (bcl_progress root c Hwf Hb p m bs resume a Hsk) as (r & A & B & C & Er & Hprog).
  destruct (bcl_conserves root c Hwf _ _ _ _ _ _ _ _ _ _ Hsk Er) as (Hw & Hwr & _).
  exists r, A, B, C. repeat split; auto.
  destruct Hprog as [Hn|(s & Es & Hlt)]; [now left|right].
  exists s. repeat split; auto. rewrite Es in Hwr. cbn [wf_res] in Hwr.
  now apply later_iff_pos.
Qed.
Print Assumptions page_makes_progress.

(* non-vacuity: a nested document, a resume point in the middle of a paragraph with orphans = widows = 2, a page
   shorter than one line; the layout returns a fragment and a strictly later resume point *)
Definition pg_style (o w : nat) : style := mkStyle 0 0 0 0 0 0 BAuto BAuto BAuto o w false.
Definition pg_doc : box :=
  Blk (pg_style 1 1)
      [Blk (pg_style 1 1) [Blk (pg_style 2 2) [Lines [1; 2; 3; 4; 5; 6; 7]%Z] false;
                           Blk (pg_style 1 1) [] false;
                           Blk (mkStyle 0 0 0 0 0 0 BRight BAuto BAvoid 1 1 false) [Lines [8; 9]%Z] false] false;
       Blk (mkStyle 3 3 1 1 1 1 BLeft BAuto BAuto 1 1 true) [Blk (pg_style 1 1) [Lines [10; 11; 12]%Z] false] false] true.
Definition pg_resume : option skip := Some (SChild 0 (Some (SChild 0 (Some (SChild 0 (Some (SLine 3))))))).
Example page_makes_progress_example :
  wf_box pg_doc = true /\ is_blk pg_doc = true /\ wf_skip pg_doc pg_resume /\
  exists r A B C, bcl (mkCtx 10 5 2 false) pg_doc 0 0 0 pg_resume true [] = (Some r, A, B, C) /\
    b_resume r = Some (SChild 0 (Some (SChild 0 (Some (SChild 0 (Some (SLine 4))))))) /\
    pos pg_doc pg_resume = 3 /\ pos pg_doc (b_resume r) = 4.
Proof.
  split; [reflexivity|]. split; [reflexivity|]. split; [simpl; lia|].
  do 4 eexists. split; [vm_compute; reflexivity|]. repeat split.
Qed.

(* ---- 2. TERMINATION with a bound that depends on the document only ---- *)
(* two pages (one of them possibly a blank page inserted for a left/right mismatch) per unit of document size *)
Definition page_bound (root : box) : nat := 2 * bsize root.

Section Pages.
Variables (rst : style) (kids : list box) (rt : bool) (H lh : Z) (ltr : bool).
Let root := Blk rst kids rt.
Hypothesis Hwf : wf_box root = true.

(* a page with content, followed by pages that are already known to terminate *)
Lemma content_page m :
  (forall fuel i resume np right, wf_skip root resume -> bsize root - pos root resume <= m -> 2 * m <= fuel ->
     exists pages, paginate_loop fuel root H lh ltr i resume np right = PDone pages /\ length pages <= 2 * m) ->
  forall c f i' resume (right right' : bool), wf_skip root resume -> bsize root - pos root resume <= S m -> 2 * m <= f ->
  exists pages,
    match bcl c root 0 (child_mt c rst false true []) 0 resume true [] with
    | (Some r, _, _, _) =>
        let page := ((if right then SRight else SLeft), frag_lines (b_frag r)) in
        match b_resume r with
        | None => PDone [page]
        | Some s => pcons page (paginate_loop f root H lh ltr i' (Some s) (b_np r) right')
        end
    | _ => PStuck []
    end = PDone pages /\ length pages <= 2 * m + 1.
Proof.
  intros IH c f i' resume right right' Hsk Hm Hf.
  destruct (bcl_progress root c Hwf eq_refl 0%Z (child_mt c rst false true []) 0%Z resume [] Hsk)
    as (r & A & B & C & Er & Hprog).
  destruct (bcl_conserves root c Hwf _ _ _ _ _ _ _ _ _ _ Hsk Er) as (_ & Hwr & _).
  rewrite Er. cbv beta iota zeta.
  destruct Hprog as [Hn|(s & Es & Hlt)].
  - rewrite Hn. eexists. split; [reflexivity|]. simpl. lia.
  - rewrite Es in *. cbn [wf_res] in Hwr.
    pose proof (pos_lt_bsize _ _ Hwr) as Hin.
    destruct (IH f i' (Some s) (b_np r) right' Hwr ltac:(lia) Hf) as (pages & Ep & Hlen).
    rewrite Ep. cbn [pcons]. eexists. split; [reflexivity|]. simpl. lia.
Qed.

Lemma paginate_terminates_from : forall m fuel i resume np right,
  wf_skip root resume -> bsize root - pos root resume <= m -> 2 * m <= fuel ->
  exists pages, paginate_loop fuel root H lh ltr i resume np right = PDone pages /\ length pages <= 2 * m.
Proof.
  induction m as [|m IH]; intros fuel i resume np right Hsk Hm Hf.
  - pose proof (pos_lt_bsize _ _ Hsk). lia.
  - destruct fuel as [|f1]; [lia|]. cbn [paginate_loop]. cbv zeta.
    destruct (is_blank ltr np right) eqn:Eb.
    + (* a blank page for the side mismatch, then a page with content *)
      destruct f1 as [|f2]; [lia|]. cbn [paginate_loop]. cbv zeta.
      rewrite (no_two_blank_pages _ _ _ Eb).
      match goal with |- context [bcl ?c _ _ _ _ _ _ _] =>
        destruct (content_page m IH c f2 (S (S i)) resume (negb right) (negb (negb right)) Hsk Hm ltac:(lia))
          as (pages & Ep & Hlen) end.
      match goal with |- exists l, pcons ?pg ?X = PDone l /\ _ =>
        assert (EX : X = PDone pages) by exact Ep; rewrite EX end.
      cbn [pcons]. eexists. split; [reflexivity|]. simpl. lia.
    + match goal with |- context [bcl ?c _ _ _ _ _ _ _] =>
        destruct (content_page m IH c f1 (S i) resume right (negb right) Hsk Hm ltac:(lia))
          as (pages & Ep & Hlen) end.
      exists pages. split; [exact Ep|lia].
Qed.
End Pages.

(* from any state the page loop can reach: at most 2 * (units of the document after the resume point) pages *)
Theorem pagination_terminates_from : forall root H lh ltr fuel i resume np right,
  wf_box root = true -> is_blk root = true -> wf_skip root resume ->
  2 * (bsize root - pos root resume) <= fuel ->
  exists pages, paginate_loop fuel root H lh ltr i resume np right = PDone pages /\
                length pages <= 2 * (bsize root - pos root resume).
Proof.
  intros [ids|rst kids rt] H lh ltr fuel i resume np right Hwf Hb Hsk Hf; [discriminate|].
  exact (paginate_terminates_from rst kids rt H lh ltr Hwf _ fuel i resume np right Hsk (le_n _) Hf).
Qed.
Print Assumptions pagination_terminates_from.

(* the whole document *)
Theorem pagination_terminates : forall root H lh ltr,
  wf_box root = true -> is_blk root = true ->
  forall fuel, page_bound root <= fuel ->
  exists pages, paginate_loop fuel root H lh ltr 0 None None true = PDone pages /\ length pages <= page_bound root.
Proof.
  intros root H lh ltr Hwf Hb fuel Hf. unfold page_bound in *.
  destruct (pagination_terminates_from root H lh ltr fuel 0 None None true Hwf Hb (wf_skip_none _)) as (pages & Ep & Hlen).
  - rewrite pos_none. lia.
  - exists pages. split; [exact Ep|]. rewrite pos_none in Hlen. lia.
Qed.
Print Assumptions pagination_terminates.

(* ---- 3. corollaries ---- *)
(* the root never aborts: PStuck is impossible, whatever the fuel *)
Theorem never_stuck : forall fuel root H lh ltr i resume np right,
  wf_box root = true -> is_blk root = true -> wf_skip root resume ->
  match paginate_loop fuel root H lh ltr i resume np right with PStuck _ => False | _ => True end.
Proof.
  induction fuel as [|fuel IH]; intros root H lh ltr i resume np right Hwf Hb Hsk; [exact I|].
  cbn [paginate_loop]. cbv zeta.
  destruct (is_blank ltr np right).
  - specialize (IH root H lh ltr (S i) resume np (negb right) Hwf Hb Hsk).
    destruct (paginate_loop fuel root H lh ltr (S i) resume np (negb right)); cbn [pcons]; auto.
  - destruct root as [ids|rst kids rt]; [discriminate|].
    match goal with |- context [bcl ?c ?b ?p ?m ?bs resume true ?a] =>
      destruct (bcl_progress b c Hwf Hb p m bs resume a Hsk) as (r & A & B & C & Er & _) end.
    rewrite Er.
    destruct (bcl_conserves _ _ Hwf _ _ _ _ _ _ _ _ _ _ Hsk Er) as (_ & Hwr & _).
    destruct (b_resume r) as [s|]; [|exact I]. cbn [wf_res] in Hwr.
    specialize (IH (Blk rst kids rt) H lh ltr (S i) (Some s) (b_np r) (negb right) Hwf Hb Hwr).
    destruct (paginate_loop fuel (Blk rst kids rt) H lh ltr (S i) (Some s) (b_np r) (negb right)); cbn [pcons]; auto.
Qed.
Print Assumptions never_stuck.

(* with the fuel of [paginate_res] (500 pages) every document of bound <= 500 is paginated completely:
   neither PFuel nor PStuck, all the words on the pages, at most page_bound pages *)
Theorem paginate_res_done : forall root H lh,
  wf_box root = true -> is_blk root = true -> page_bound root <= page_fuel ->
  exists pages, paginate_res root H lh = PDone pages /\ paginate root H lh = pages /\
                length pages <= page_bound root /\ pages_words pages = bwords root.
Proof.
  intros root H lh Hwf Hb Hf.
  destruct (pagination_terminates root H lh true Hwf Hb page_fuel Hf) as (pages & Ep & Hlen).
  exists pages. unfold paginate, paginate_res. rewrite Ep. repeat split; auto.
  exact (paginate_loop_conserves _ _ _ _ _ Hwf Ep).
Qed.
Print Assumptions paginate_res_done.

(* once the fuel reaches the bound the result does not depend on it *)
Lemma pdone_fuel_mono : forall fuel root H lh ltr i resume np right pages,
  paginate_loop fuel root H lh ltr i resume np right = PDone pages ->
  paginate_loop (S fuel) root H lh ltr i resume np right = PDone pages.
Proof.
  induction fuel as [|fuel IH]; intros root H lh ltr i resume np right pages Hp; [discriminate Hp|].
  cbn [paginate_loop] in Hp |- *. cbv zeta in Hp |- *.
  destruct (is_blank ltr np right).
  - destruct (paginate_loop fuel root H lh ltr (S i) resume np (negb right)) as [l| |] eqn:E; try discriminate Hp.
    apply IH in E. cbn [paginate_loop] in E. cbv zeta in E. rewrite E. exact Hp.
  - destruct root as [ids|rst kids rt]; [exact Hp|].
    match goal with |- context [bcl ?c ?b ?p ?m ?bs resume true ?a] =>
      destruct (bcl c b p m bs resume true a) as [[[[r|] A] B] C] end; [|exact Hp].
    destruct (b_resume r) as [s|]; [|exact Hp].
    destruct (paginate_loop fuel (Blk rst kids rt) H lh ltr (S i) (Some s) (b_np r) (negb right)) as [l| |] eqn:E;
      try discriminate Hp.
    apply IH in E. cbn [paginate_loop] in E. cbv zeta in E. rewrite E. exact Hp.
Qed.
Theorem pagination_fuel_irrelevant : forall root H lh ltr fuel fuel',
  wf_box root = true -> is_blk root = true -> page_bound root <= fuel -> fuel <= fuel' ->
  paginate_loop fuel' root H lh ltr 0 None None true = paginate_loop fuel root H lh ltr 0 None None true.
Proof.
  intros root H lh ltr fuel fuel' Hwf Hb Hf Hle.
  destruct (pagination_terminates root H lh ltr Hwf Hb fuel Hf) as (pages & Ep & _). rewrite Ep.
  induction Hle as [|n Hle IH]; [exact Ep|]. now apply pdone_fuel_mono.
Qed.
Print Assumptions pagination_fuel_irrelevant.

(* the hypothesis "the root is a block container" cannot be dropped in the model: a bare line box as root is
   not a document (the renderer's root is always the block box of the html element) *)
Remark lines_root_is_stuck fuel ids H lh : paginate_loop (S fuel) (Lines ids) H lh true 0 None None true = PStuck [].
Proof. reflexivity. Qed.

(* non-vacuity: the nested document above with forced left/right breaks; pages shorter than a line (H = 5 < lh =
   10), ordinary pages, huge pages: always finished within the bound, blank pages included *)
Example pagination_terminates_example :
  wf_box pg_doc = true /\ is_blk pg_doc = true /\ page_bound pg_doc = 44 /\ page_bound pg_doc <= page_fuel /\
  (exists pages, paginate_res pg_doc 5 10 = PDone pages /\ length pages = 14) /\
  (exists pages, paginate_res pg_doc 30 10 = PDone pages /\ length pages = 7) /\
  (exists pages, paginate_res pg_doc 1000 10 = PDone pages /\ length pages = 4).
Proof.
  split; [reflexivity|]. split; [reflexivity|]. split; [reflexivity|]. split; [vm_compute; lia|].
  split; [|split]; eexists; (split; [vm_compute; reflexivity|reflexivity]).
Qed.
