(* C17 - _dispatch / _dispatch_children with their four mutable lists equal a pure function that returns what a
   subtree contributes (insert-at-saved-index = "before what the descendants added"). *)
From Coq Require Import ZArith List Bool Lia Permutation.
Require Import WV.model.C17Stacking.
Import ListNotations.
Open Scope Z_scope.

Lemma box_ind' (P : box -> Prop) :
  (forall i kids, Forall P kids -> P (Box i kids)) -> forall b, P b.
Proof.
  intros H. fix IH 1. intros [i kids]. apply H.
  induction kids as [|k r IHr]; constructor; [apply IH | exact IHr].
Qed.

Definition sapp (a b : dst) : dst :=
  mkS (s_cc a ++ s_cc b) (s_bl a ++ s_bl b) (s_fl a ++ s_fl b) (s_bc a ++ s_bc b).

Lemma sapp_st0_l d : sapp st0 d = d.
Proof. destruct d; reflexivity. Qed.
Lemma sapp_st0_r d : sapp d st0 = d.
Proof. destruct d; unfold sapp; simpl; now rewrite !app_nil_r. Qed.
Lemma sapp_assoc a b c : sapp (sapp a b) c = sapp a (sapp b c).
Proof. unfold sapp; simpl. now rewrite !app_assoc. Qed.

Lemma insert_at_app {A} (l d : list A) x : insert_at (length l) x (l ++ d) = l ++ x :: d.
Proof.
  unfold insert_at. rewrite firstn_app, skipn_app, Nat.sub_diag, firstn_all, skipn_all. simpl.
  now rewrite app_nil_r.
Qed.

Definition opt_cons {A} (o : option A) (l : list A) : list A := match o with Some n => n :: l | None => l end.

(* what a box contributes: (its replacement in the parent's children, additions to the four lists) *)
Definition fd_node (i : info) (nk : list pnode) (d : dst) : option pnode * dst :=
  if defines_ctx i then
    (None, mkS [mk_ctx i nk (s_cc d) (s_bl d) (s_fl d) (s_bc d)] [] [] [])
  else if negb (static i) then
    (None, mkS (mk_ctx i nk [] (s_bl d) (s_fl d) (s_bc d) :: s_cc d) [] [] [])
  else if flt i then
    (None, mkS (s_cc d) [] [mk_ctx i nk [] (s_bl d) (s_fl d) (s_bc d)] [])
  else if stacking_class (knd i) then
    (Some (mk_ctx i nk [] (s_bl d) (s_fl d) (s_bc d)), mkS (s_cc d) [] [] [])
  else
    let nb := PB i nk in
    (Some nb, mkS (s_cc d)
                  ((if block_level (knd i) then [nb] else []) ++ s_bl d)
                  (s_fl d)
                  ((if block_level (knd i) || is_cell (knd i) then [nb] else []) ++ s_bc d)).

Fixpoint fd (b : box) : option pnode * dst :=
  match b with
  | Box i kids =>
      let fdl := fix fdl (l : list box) : list pnode * dst :=
        match l with
        | [] => ([], st0)
        | k :: r => (opt_cons (fst (fd k)) (fst (fdl r)), sapp (snd (fd k)) (snd (fdl r)))
        end in
      let nkd := if is_parent (knd i) then fdl kids else (map embed kids, st0) in
      fd_node i (fst nkd) (snd nkd)
  end.
Fixpoint fdl (l : list box) : list pnode * dst :=
  match l with
  | [] => ([], st0)
  | k :: r => (opt_cons (fst (fd k)) (fst (fdl r)), sapp (snd (fd k)) (snd (fdl r)))
  end.
Definition fd_children (b : box) : list pnode * dst :=
  if is_parent (knd (binfo b)) then fdl (bkids b) else (map embed (bkids b), st0).

Lemma fd_eq i kids : fd (Box i kids) = fd_node i (fst (fd_children (Box i kids))) (snd (fd_children (Box i kids))).
Proof.
  unfold fd_children. simpl.
  assert (E : forall l, (fix fdl (l : list box) : list pnode * dst :=
        match l with
        | [] => ([], st0)
        | k :: r => (opt_cons (fst (fd k)) (fst (fdl r)), sapp (snd (fd k)) (snd (fdl r)))
        end) l = fdl l).
  { induction l as [|k r IH]; simpl; [reflexivity|]. now rewrite IH. }
  rewrite E. reflexivity.
Qed.

Lemma dispatch_eq i kids st :
  dispatch (Box i kids) st =
  let dch (st : dst) : list pnode * dst :=
        if is_parent (knd i) then dispatch_list kids st else (map embed kids, st) in
  if defines_ctx i then
    let '(nk, s) := dch st0 in
    (None, mkS (s_cc st ++ [mk_ctx i nk (s_cc s) (s_bl s) (s_fl s) (s_bc s)]) (s_bl st) (s_fl st) (s_bc st))
  else if negb (static i) then
    let index := length (s_cc st) in
    let '(nk, s) := dch (mkS (s_cc st) [] [] []) in
    (None, mkS (insert_at index (mk_ctx i nk [] (s_bl s) (s_fl s) (s_bc s)) (s_cc s))
               (s_bl st) (s_fl st) (s_bc st))
  else if flt i then
    let '(nk, s) := dch (mkS (s_cc st) [] [] []) in
    (None, mkS (s_cc s) (s_bl st) (s_fl st ++ [mk_ctx i nk [] (s_bl s) (s_fl s) (s_bc s)]) (s_bc st))
  else if stacking_class (knd i) then
    let '(nk, s) := dch (mkS (s_cc st) [] [] []) in
    (Some (mk_ctx i nk [] (s_bl s) (s_fl s) (s_bc s)), mkS (s_cc s) (s_bl st) (s_fl st) (s_bc st))
  else
    let blocks_index := if block_level (knd i) then Some (length (s_bl st)) else None in
    let bcs_index :=
      if block_level (knd i) || is_cell (knd i) then Some (length (s_bc st)) else None in
    let '(nk, s) := dch st in
    let nb := PB i nk in
    (Some nb,
     mkS (s_cc s)
         (match blocks_index with Some n => insert_at n nb (s_bl s) | None => s_bl s end)
         (s_fl s)
         (match bcs_index with Some n => insert_at n nb (s_bc s) | None => s_bc s end)).
Proof.
  assert (E : forall l s, (fix loop (l : list box) (st : dst) {struct l} : list pnode * dst :=
          match l with
          | [] => ([], st)
          | k :: r =>
              let '(res, st1) := dispatch k st in
              let '(rs, st2) := loop r st1 in
              (match res with Some n => n :: rs | None => rs end, st2)
          end) l s = dispatch_list l s).
  { induction l as [|k r IH]; intros s; simpl; [reflexivity|].
    destruct (dispatch k s) as [res st1]. now rewrite IH. }
  simpl. rewrite !E. reflexivity.
Qed.

(* the state-passing code appends exactly the contribution *)
Theorem dispatch_fd b : forall st, dispatch b st = (fst (fd b), sapp st (snd (fd b))).
Proof.
  induction b as [i kids IH] using box_ind'.
  assert (L : forall st, dispatch_list kids st = (fst (fdl kids), sapp st (snd (fdl kids)))).
  { induction IH as [|k r Hk _ IHr]; intros st; simpl.
    - now rewrite sapp_st0_r.
    - rewrite Hk, IHr. simpl. rewrite sapp_assoc. destruct (fst (fd k)); reflexivity. }
  intros st. rewrite dispatch_eq, fd_eq. unfold fd_children, fd_node. simpl.
  destruct (is_parent (knd i)) eqn:Hp.
  - rewrite !L. simpl.
    destruct (defines_ctx i).
    { unfold sapp; simpl. now rewrite !app_nil_r. }
    destruct (negb (static i)).
    { unfold sapp; simpl. rewrite insert_at_app, !app_nil_r. reflexivity. }
    destruct (flt i).
    { unfold sapp; simpl. now rewrite !app_nil_r. }
    destruct (stacking_class (knd i)).
    { unfold sapp; simpl. now rewrite !app_nil_r. }
    unfold sapp; simpl.
    destruct (block_level (knd i)); simpl; [|destruct (is_cell (knd i)); simpl];
      rewrite ?insert_at_app; reflexivity.
  - simpl.
    destruct (defines_ctx i).
    { unfold sapp; simpl. now rewrite !app_nil_r. }
    destruct (negb (static i)).
    { unfold sapp; simpl. unfold insert_at. rewrite firstn_all, skipn_all, !app_nil_r. reflexivity. }
    destruct (flt i).
    { unfold sapp; simpl. now rewrite !app_nil_r. }
    destruct (stacking_class (knd i)).
    { unfold sapp; simpl. now rewrite !app_nil_r. }
    unfold sapp; simpl.
    destruct (block_level (knd i)); simpl; [|destruct (is_cell (knd i)); simpl];
      unfold insert_at; rewrite ?firstn_all, ?skipn_all, ?app_nil_r; reflexivity.
Qed.

Lemma dispatch_list_fdl l : forall st, dispatch_list l st = (fst (fdl l), sapp st (snd (fdl l))).
Proof.
  induction l as [|k r IHr]; intros st; simpl.
  - now rewrite sapp_st0_r.
  - rewrite dispatch_fd, IHr. simpl. rewrite sapp_assoc. destruct (fst (fd k)); reflexivity.
Qed.

Lemma from_box_fd b :
  from_box b =
  let nkd := fd_children b in
  mk_ctx (binfo b) (fst nkd) (s_cc (snd nkd)) (s_bl (snd nkd)) (s_fl (snd nkd)) (s_bc (snd nkd)).
Proof.
  destruct b as [i kids]. unfold from_box, dispatch_children, fd_children. simpl.
  destruct (is_parent (knd i)).
  - rewrite dispatch_list_fdl. cbv zeta. rewrite sapp_st0_l. reflexivity.
  - reflexivity.
Qed.
