(* C13 - replacedbox_layout of weasyprint/layout/replaced.py as REGENERATED on every run (gen/GenReplacedBox.v):
   encodings of its inputs, the technique, and its last ten statements (object-position) - used by
   proofs/C13_gen_layout.v, which proves that the whole body computes the hand model rb_layout.

   Technique: the body is executed one top-level statement at a time against an ABSTRACT continuation (lemmas
   block_step / block_raise / block_return / block_if: a statement that, for every answer type and every
   continuation k, equals k rho' advances the block to rho'; an `if` whose test is decided is replaced by the chosen
   branch in front of the rest of the block).  Evaluating a statement against an abstract continuation is cheap even
   when a call is waiting for its answer (the branches of the stuck match are one application of k), and the answer
   is then REWRITTEN by the callee's value lemma (C13_gen_sizing.gen_contain_value / gen_cover_value), not
   evaluated. *)
From Coq Require Import QArith Qminmax List Bool String.
Require Import WV.base.Py WV.base.PyLink WV.proofs.PyNatural WV.proofs.PyTac.
Require Import WV.gen.GenReplaced WV.gen.GenReplacedBox WV.gen.GenPercent WV.gen.GenBoxes WV.model.C13Replaced.
Require Import WV.proofs.C13_gen_sizing WV.proofs.C13_gen_tac.
Import ListNotations.
Open Scope string_scope.
Open Scope list_scope.
Open Scope Q_scope.

(* ---------------------------------------------------------------- encodings *)
Definition vfit (f : fit) : val :=
  VStr (match f with Fill => "fill" | Contain => "contain" | Cover => "cover" | FitNone => "none"
                   | ScaleDown => "scale-down" end).
(* a computed <length-percentage>: Dimension(value, unit) *)
Definition vlen (v : lenpct) : val :=
  match v with
  | Px q => VObj [("value", VNum q); ("unit", VStr "px")]
  | Pct q => VObj [("value", VNum q); ("unit", VStr "%")]
  end.
(* box.style['object_position'] = ((origin_x, position_x, origin_y, position_y),) *)
Definition vpos (rgt btm : bool) (px py : lenpct) : val :=
  VList [VList [VStr (if rgt then "right" else "left"); vlen px; VStr (if btm then "bottom" else "top"); vlen py]].

Definition lbox (f : fit) (rgt btm : bool) (px py : lenpct) (bw bh : Q) imgf rs fs (posx posy ml mt pl pt bl bt : Q) : val :=
  VObj [("width", VNum bw); ("height", VNum bh); ("replacement", VObj imgf);
        ("style", VObj [("object_fit", vfit f); ("object_position", vpos rgt btm px py);
                        ("image_resolution", VNum rs); ("font_size", VNum fs)]);
        ("position_x", VNum posx); ("position_y", VNum posy); ("margin_left", VNum ml); ("margin_top", VNum mt);
        ("padding_left", VNum pl); ("padding_top", VNum pt); ("border_left_width", VNum bl);
        ("border_top_width", VNum bt)].

Definition vquad (t : Q * Q * Q * Q) : val :=
  let '(a, b, c, d) := t in VList [VNum a; VNum b; VNum c; VNum d].
Definition lay_post (o : option (Q * Q * Q * Q)) (_ : env) (res : option val) : Prop :=
  match o with Some t => res = Some (vquad t) | None => False end.
Definition lay_err (o : option (Q * Q * Q * Q)) (m : string) : Prop := o = None /\ m = "ZeroDivisionError".

Definition calls_cover (O : qops) : Prop :=
  forall cw ch r, ocall O "cover_constraint_image_sizing" [VNum cw; VNum ch; voq r] = vres (cover_sizing cw ch r).
Definition calls_pct (O : qops) : Prop :=
  forall v ref, ocall O "percentage" [vlen v; VNum ref] = VNum (percentage v ref).

(* ---------------------------------------------------------------- a block, one statement at a time *)
Section Steps.
Variable O : qops.
Lemma block_step (kret : env -> val -> Prop) kerr s l rho rho' k :
  (forall A kret kerr k, exec O A kret kerr s rho k = k rho') -> flowing rho' = false ->
  exec_block O Prop kret kerr l rho' k -> exec_block O Prop kret kerr (s :: l) rho k.
Proof.
  intros H F G.
  change (exec O Prop kret kerr s rho (fun r => if flowing r then k r else exec_block O Prop kret kerr l r k)).
  rewrite H, F. exact G.
Qed.
Lemma block_raise (kret : env -> val -> Prop) (kerr : string -> Prop) s l rho m k :
  (forall A kret kerr k, exec O A kret kerr s rho k = kerr m) -> kerr m ->
  exec_block O Prop kret kerr (s :: l) rho k.
Proof.
  intros H G.
  change (exec O Prop kret kerr s rho (fun r => if flowing r then k r else exec_block O Prop kret kerr l r k)).
  rewrite H. exact G.
Qed.
Lemma block_return (kret : env -> val -> Prop) (kerr : string -> Prop) s l rho rho' v k :
  (forall A kret kerr k, exec O A kret kerr s rho k = kret rho' v) -> kret rho' v ->
  exec_block O Prop kret kerr (s :: l) rho k.
Proof.
  intros H G.
  change (exec O Prop kret kerr s rho (fun r => if flowing r then k r else exec_block O Prop kret kerr l r k)).
  rewrite H. exact G.
Qed.
(* an `if` statement whose test comes out as b is the chosen branch put in front of the rest of the block *)
Lemma block_if (kret : env -> val -> Prop) (kerr : string -> Prop) c th el l rho k (b : bool) :
  (forall A err (k' : bool -> A), eval O A err rho c (fun vc => bool_k O A err vc k') = k' b) ->
  flowing rho = false ->
  exec_block O Prop kret kerr ((if b then th else el) ++ l) rho k ->
  exec_block O Prop kret kerr (SIf c th el :: l) rho k.
Proof.
  intros H F G. rewrite exec_block_app in G by exact F.
  change (eval O Prop kerr rho c (fun vc => bool_k O Prop kerr vc (fun t =>
            if t then exec_block O Prop kret kerr th rho
                        (fun r => if flowing r then k r else exec_block O Prop kret kerr l r k)
            else exec_block O Prop kret kerr el rho
                        (fun r => if flowing r then k r else exec_block O Prop kret kerr l r k)))).
  rewrite H. destruct b; exact G.
Qed.
End Steps.

Ltac ev1 :=
  lazy -[Py.qadd Py.qsub Py.qmul Py.qdiv Py.qmax Py.qmin Py.qleb Py.qeqb Py.ocall
         Qplus Qminus Qmult Qdiv Qeq_bool Qle_bool Qmax Qmin contain_sizing cover_sizing percentage].
(* one statement against an abstract continuation; the calls that wait are answered by the hypotheses *)
Ltac stmt_eval :=
  intros; ev1;
  repeat (match goal with
          | H : ocall ?O ?f _ = _ |- context [ocall ?O ?f _] => rewrite H
          | H : forall x, ocall ?O ?f _ = _ |- context [ocall ?O ?f _] => rewrite H
          | H : forall x y, ocall ?O ?f _ = _ |- context [ocall ?O ?f _] => rewrite H
          end; ev1);
  lazymatch goal with |- context [ocall _ _ _] => fail | _ => reflexivity end.
Ltac step := eapply block_step; [solve [stmt_eval] | reflexivity | ].
Ltac step_or_raise :=
  first [ eapply block_step; [solve [stmt_eval] | reflexivity | ]
        | eapply block_raise; [solve [stmt_eval] | ] ].

(* (the syntactic test first: on another statement the unifier would unfold the interpreter before giving up) *)
Ltac step_if :=
  lazymatch goal with
  | |- exec_block _ _ _ _ (SIf _ _ _ :: _) _ _ =>
      eapply block_if; [solve [intros; ev1; reflexivity] | reflexivity | cbn [app]]
  end.
(* go on until only n statements are left at the top level *)
Ltac steps_until n :=
  repeat (match goal with
          | |- exec_block _ _ _ _ ?l _ _ =>
              let m := eval cbv in (List.length l) in
              tryif constr_eq m n then fail else first [step_if | step_or_raise]
          end).

(* the statements after the computation of draw_width / draw_height (object-position) *)
Definition tail_stmts : list stmt := skipn 6 replacedbox_layout_body.
Definition xpos (rgt : bool) (p : lenpct) (b d c : Q) : Q :=
  (if rgt then (b - d) - percentage p (b - d) else percentage p (b - d)) + c.

Section Layout.
Variable O : qops.
Hypothesis HO : ops_ok O.

Definition tail_env box (f : fit) rgt btm px py imgf (viw vih vir : val) (dw dh : Q) : env :=
  [("box", box); ("object_fit", vfit f); ("position", vpos rgt btm px py); ("image", VObj imgf);
   ("intrinsic_width", viw); ("intrinsic_height", vih); ("intrinsic_ratio", vir);
   ("draw_width", VNum dw); ("draw_height", VNum dh)].

Lemma tail_run (HP : calls_pct O) imgf rs fs f rgt btm px py bw bh posx posy ml mt pl pt bl bt :
  ocall O ".content_box_x" [lbox f rgt btm px py bw bh imgf rs fs posx posy ml mt pl pt bl bt]
    = VNum (posx + ml + pl + bl) ->
  ocall O ".content_box_y" [lbox f rgt btm px py bw bh imgf rs fs posx posy ml mt pl pt bl bt]
    = VNum (posy + mt + pt + bt) ->
  forall viw vih vir dw dh (kret : env -> val -> Prop) kerr k,
  (forall rho, kret rho (vquad (dw, dh, xpos rgt px bw dw (posx + ml + pl + bl),
                                xpos btm py bh dh (posy + mt + pt + bt)))) ->
  exec_block O Prop kret kerr tail_stmts (tail_env (lbox f rgt btm px py bw bh imgf rs fs posx posy ml mt pl pt bl bt) f rgt btm px py imgf viw vih vir dw dh) k.
Proof.
  pose proof (fun q ref => HP (Px q) ref) as HPx. pose proof (fun q ref => HP (Pct q) ref) as HPc.
  clear HP. cbn [vlen percentage] in HPx, HPc.
  unfold tail_env, lbox, vpos, vfit.
  unfold tail_stmts, replacedbox_layout_body. cbn [skipn].
  destruct rgt, btm, px as [px0|px0], py as [py0|py0]; cbn [vlen]; intros HX HY viw vih vir dw dh kret kerr k HK.
  all: do 9 step.
  all: eapply block_return; [solve [stmt_eval]|].
  all: match goal with HK' : forall rho, ?K rho ?w |- ?K _ ?v => replace v with w; [apply HK'|] end.
  all: unfold xpos, percentage, vquad;
       rewrite ?(qadd_eq _ HO), ?(qsub_eq _ HO), ?(qmul_eq _ HO), ?(qdiv_eq _ HO); reflexivity.
Qed.
End Layout.
