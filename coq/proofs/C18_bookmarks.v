(* C18 - bookmark tree builder (model/C18Bookmarks.v): totality, preorder, parent, depth. *)
From Coq Require Import ZArith List Bool Lia Arith.
Require Import WV.model.C18Bookmarks.
Import ListNotations.
Open Scope Z_scope.

Definition nonneg (s : Z) : Prop := 0 <= s.

Lemma sumlen_sumZ l : sumlen l = sumZ l + Z.of_nat (length l).
Proof. induction l as [|x l IH]; [reflexivity|]. cbn [sumlen sumZ length]. rewrite Nat2Z.inj_succ. lia. Qed.

Lemma sumlen_app a b : sumlen (a ++ b) = sumlen a + sumlen b.
Proof. induction a as [|x a IH]; cbn [app sumlen]; lia. Qed.

Lemma sumlen_nonneg l : Forall nonneg l -> 0 <= sumlen l.
Proof. induction 1 as [|x l Hx _ IH]; cbn [sumlen]; unfold nonneg in *; lia. Qed.

Lemma unwind_eq temp prev sk :
  unwind temp prev sk =
  if temp <? prev then match sk with [] => None | s :: sk' => unwind (temp + 1 + s) prev sk' end
  else Some (temp, sk).
Proof. destruct sk; reflexivity. Qed.

(* the loop stops before the stack is empty, and says where *)
Lemma unwind_spec : forall sk temp prev,
  Forall nonneg sk -> prev <= temp + sumlen sk ->
  exists pre sk' temp',
    unwind temp prev sk = Some (temp', sk') /\ sk = pre ++ sk' /\ temp' = temp + sumlen pre /\ prev <= temp' /\
    (pre = [] \/ exists pre0 s, pre = pre0 ++ [s] /\ temp' - s - 1 < prev).
Proof.
  induction sk as [|s sk IH]; intros temp prev Hnn Hle; rewrite unwind_eq.
  - cbn [sumlen] in Hle. destruct (Z.ltb_spec temp prev) as [Hlt|Hge]; [lia|].
    exists [], [], temp. cbn [sumlen app]. repeat split; try lia. now left.
  - destruct (Z.ltb_spec temp prev) as [Hlt|Hge].
    + inversion Hnn as [|? ? Hs Hnn']; subst. cbn [sumlen] in Hle.
      destruct (IH (temp + 1 + s) prev Hnn' ltac:(lia)) as (pre & sk' & temp' & Hu & Hsk & Ht & Hp & Hlast).
      exists (s :: pre), sk', temp'. rewrite Hu. cbn [app sumlen]. subst sk.
      repeat split; try lia. right.
      destruct Hlast as [->|(pre0 & s' & -> & Hlt')].
      * exists [], s. cbn [app sumlen] in *. split; [reflexivity|lia].
      * exists (s :: pre0), s'. split; [reflexivity|lia].
    + exists [], (s :: sk), temp. cbn [sumlen app]. repeat split; try lia. now left.
Qed.

(* the three outcomes of the level bookkeeping: push, replace the entry at some depth, pop then push *)
Lemma adjust_spec level sk prev :
  Forall nonneg sk -> prev = sumlen sk -> 1 <= level ->
  (prev < level /\ adjust level sk prev = inr ((level - prev - 1) :: sk))
  \/ (level <= prev /\ exists pre sk', sk = pre ++ sk' /\ adjust level sk prev = inr sk' /\ sumlen sk' = level)
  \/ (level <= prev /\ exists pre s sk', sk = pre ++ s :: sk' /\
        adjust level sk prev = inr ((level - 1 - sumlen sk') :: sk') /\
        sumlen sk' < level < s + 1 + sumlen sk').
Proof.
  intros Hnn Hprev Hlevel. unfold adjust.
  destruct (Z.ltb_spec prev level) as [Hlt|Hge]; [left; split; [lia|reflexivity]|right].
  destruct (unwind_spec sk level prev Hnn ltac:(pose proof (sumlen_nonneg sk Hnn); lia))
    as (pre & sk' & temp' & Hu & Hsk & Ht & Hp & Hlast).
  rewrite Hu. assert (Hsum : prev = sumlen pre + sumlen sk') by (subst sk; rewrite sumlen_app in Hprev; exact Hprev).
  destruct (Z.ltb_spec prev temp') as [Hlt|Hge'].
  - right. split; [exact Hge|]. destruct Hlast as [->|(pre0 & s & -> & Hlt')].
    + cbn [sumlen] in *. lia.
    + exists pre0, s, sk'. rewrite sumlen_app in *. cbn [sumlen] in *.
      split; [subst sk; rewrite <- app_assoc; reflexivity|].
      split; [|lia]. replace (temp' - prev - 1) with (level - 1 - sumlen sk') by lia. reflexivity.
  - left. split; [exact Hge|]. exists pre, sk'. repeat split; [exact Hsk|lia].
Qed.

Lemma skipn_S_cons {X} : forall n (l : list X) p ps, skipn n l = p :: ps -> skipn (S n) l = ps.
Proof.
  induction n as [|n IH]; intros [|x l] p ps H; cbn in *; try discriminate.
  - now inversion H.
  - destruct l; [destruct n; discriminate|]. apply (IH _ _ _ H).
Qed.

Lemma len_le_sumlen l : Forall nonneg l -> Z.of_nat (length l) <= sumlen l.
Proof.
  induction 1 as [|x l Hx _ IH]; [reflexivity|]. cbn [length sumlen]. rewrite Nat2Z.inj_succ. unfold nonneg in Hx. lia.
Qed.

Lemma sumlen_zero_nil l : Forall nonneg l -> sumlen l = 0 -> l = [].
Proof.
  intros H. destruct H as [|x l Hx Hl]; [reflexivity|]. cbn [sumlen]. intros H0.
  pose proof (sumlen_nonneg l Hl). unfold nonneg in Hx. lia.
Qed.

Section Proofs.
Context {A : Type}.
Variable lvl : nat -> Z.

Notation tree := (tree A).
Notation frame := (@frame A).
Notation entry := (entry A).

Lemma flat_tree_eq d par p (a : A) ks :
  flat_tree d par (Node p a ks) = (p, a, par, d) :: flat_forest (S d) (Some p) ks.
Proof.
  reflexivity.
Qed.

Lemma flat_forest_app d par (f g : list tree) :
  flat_forest d par (f ++ g) = flat_forest d par f ++ flat_forest d par g.
Proof. apply flat_map_app. Qed.

Definition poss (ops : list frame) : list nat := map (fun f => fst (fst f)) ops.
Definition top (ps : list nat) : option nat := match ps with [] => None | q :: _ => Some q end.

Fixpoint flat_opens (ops : list frame) : list entry :=
  match ops with
  | [] => []
  | (p, a, ks) :: rest =>
      flat_opens rest ++ (p, a, top (poss rest), S (length rest)) :: flat_forest (S (S (length rest))) (Some p) ks
  end.
Definition flat_st (rk : list tree) (ops : list frame) : list entry := flat_forest 1 None rk ++ flat_opens ops.

Lemma close_n_spec : forall n rk ops rk' ops',
  close_n n rk ops = (rk', ops') ->
  flat_st rk' ops' = flat_st rk ops /\ poss ops' = skipn n (poss ops).
Proof.
  induction n as [|n IH]; intros rk ops rk' ops' H.
  - cbn in H. inversion H; subst. split; reflexivity.
  - destruct ops as [|[[p a] ks] rest].
    + cbn in H. inversion H; subst. split; reflexivity.
    + destruct rest as [|[[p' a'] ks'] rest'].
      * cbn [close_n] in H. apply IH in H. destruct H as [H1 H2]. rewrite H1, H2.
        split; [|cbn; now destruct n].
        unfold flat_st. cbn [flat_opens poss map top length app].
        rewrite flat_forest_app. unfold flat_forest at 2. cbn [flat_map]. rewrite flat_tree_eq.
        rewrite !app_nil_r. reflexivity.
      * cbn [close_n] in H. apply IH in H. destruct H as [H1 H2]. rewrite H1, H2.
        split; [|reflexivity].
        unfold flat_st. f_equal. cbn [flat_opens poss map top length fst].
        rewrite flat_forest_app. unfold flat_forest at 2. cbn [flat_map]. rewrite flat_tree_eq, app_nil_r.
        rewrite <- !app_assoc. reflexivity.
Qed.

(* ---- the invariant ---- *)
Definition above (ps : list nat) (k : nat) : Prop := match ps with [] => True | q :: _ => (q < k)%nat end.

Fixpoint spine_ok (n : nat) (sk : list Z) (ps : list nat) : Prop :=
  match sk, ps with
  | [], [] => True
  | s :: sk', p :: ps' =>
      0 <= s /\ lvl p = s + 1 + sumlen sk' /\ (p < n)%nat /\
      (forall k, above ps' k -> (k < n)%nat -> lvl p <= lvl k) /\ spine_ok n sk' ps'
  | _, _ => False
  end.

Lemma spine_nonneg n : forall sk ps, spine_ok n sk ps -> Forall nonneg sk.
Proof.
  induction sk as [|s sk IH]; intros ps H; [constructor|].
  destruct ps as [|p ps]; [contradiction|]. destruct H as (H0 & _ & _ & _ & H). constructor; [exact H0|eauto].
Qed.

Lemma spine_len n : forall sk ps, spine_ok n sk ps -> length ps = length sk.
Proof.
  induction sk as [|s sk IH]; intros [|p ps] H; try contradiction; [reflexivity|].
  destruct H as (_ & _ & _ & _ & H). cbn. f_equal. eauto.
Qed.

Lemma spine_S n : forall sk ps, spine_ok n sk ps -> sumlen sk <= lvl n -> spine_ok (S n) sk ps.
Proof.
  induction sk as [|s sk IH]; intros [|p ps] H Hle; try contradiction; [exact I|].
  destruct H as (H0 & H1 & H2 & H3 & H4). cbn [sumlen] in Hle.
  pose proof (sumlen_nonneg sk (spine_nonneg _ _ _ H4)) as Hnn.
  cbn [spine_ok]. repeat split; try assumption; try lia.
  - intros k Hab Hk. destruct (Nat.eq_dec k n) as [->|Hne]; [lia|]. apply H3; [exact Hab|lia].
  - apply IH; [exact H4|lia].
Qed.

Lemma spine_drop n : forall pre rest ps,
  spine_ok n (pre ++ rest) ps -> spine_ok n rest (skipn (length pre) ps).
Proof.
  induction pre as [|s pre IH]; intros rest ps H; [exact H|].
  destruct ps as [|p ps]; [contradiction|]. destruct H as (_ & _ & _ & _ & H). cbn [length skipn]. eauto.
Qed.

Definition good (e : entry) : Prop :=
  let i := e_pos e in
  match e_parent e with
  | Some j => (j < i)%nat /\ lvl j < lvl i /\ forall k, (j < k < i)%nat -> lvl i <= lvl k
  | None => forall k, (k < i)%nat -> lvl i <= lvl k
  end.

Definition flat_state (s : state A) : list entry := flat_st (rootk s) (opens s).

(* depth bookkeeping: consecutive entries e, e' (positions i, i+1) *)
Definition adj (e e' : entry) : Prop :=
  (e_depth e' <= S (e_depth e))%nat /\
  (lvl (e_pos e) < lvl (e_pos e') -> e_depth e' = S (e_depth e)) /\
  (lvl (e_pos e') = lvl (e_pos e) -> e_depth e' = e_depth e).
Definition depth_ok (e : entry) : Prop := (1 <= e_depth e)%nat /\ Z.of_nat (e_depth e) <= lvl (e_pos e).

Record Inv (s : state A) : Prop := mkInv {
  inv_spine : spine_ok (npos s) (skipped s) (poss (opens s));
  inv_prev : prev s = sumlen (skipped s);
  inv_head : match poss (opens s) with [] => npos s = 0%nat | p :: _ => S p = npos s end;
  inv_pos : map e_pos (flat_state s) = seq 0 (npos s);
  inv_good : Forall good (flat_state s);
  inv_last : forall e, In e (flat_state s) -> S (e_pos e) = npos s -> e_depth e = length (skipped s);
  inv_adj : forall e e', In e (flat_state s) -> In e' (flat_state s) -> e_pos e' = S (e_pos e) -> adj e e';
  inv_depth : Forall depth_ok (flat_state s) }.

Lemma Inv_init : Inv init.
Proof. constructor; cbn; try reflexivity; try exact I; try constructor; intros; contradiction. Qed.

Lemma step_unfold (s : state A) level a sk'' :
  adjust level (skipped s) (prev s) = inr sk'' -> sumlen sk'' = level ->
  (1 <= length sk'')%nat -> (length sk'' <= S (length (opens s)))%nat ->
  step s level a =
  let '(rk, ops) := close_n (length (opens s) - (length sk'' - 1)) (rootk s) (opens s) in
  inr (mkst sk'' level rk ((npos s, a, []) :: ops) (S (npos s))).
Proof.
  intros Ha Hs H1 H2. unfold step. rewrite Ha. cbv zeta.
  rewrite sumlen_sumZ in Hs.
  replace (level - sumZ sk'') with (Z.of_nat (length sk'')) by lia.
  rewrite Z.eqb_refl. cbn [negb].
  destruct (Z.leb_spec 1 (Z.of_nat (length sk''))) as [_|Hc]; [|lia]. cbn [negb].
  destruct (Z.ltb_spec (Z.of_nat (length sk'') - 1) (Z.of_nat (S (length (opens s))))) as [_|Hc]; [|lia].
  cbn [negb]. rewrite Nat2Z.id. reflexivity.
Qed.

Lemma pos_lt (s : state A) e : Inv s -> In e (flat_state s) -> (e_pos e < npos s)%nat.
Proof.
  intros HI Hin. apply (in_map e_pos) in Hin. rewrite (inv_pos s HI) in Hin. apply in_seq in Hin. lia.
Qed.

Lemma prev_is_last_level (s : state A) p : Inv s -> S p = npos s -> lvl p = prev s.
Proof.
  intros HI Hp. pose proof (inv_spine s HI) as Hsp. pose proof (inv_head s HI) as Hh.
  rewrite (inv_prev s HI).
  destruct (poss (opens s)) as [|q ps]; [lia|]. destruct (skipped s) as [|s1 sk1]; [contradiction|].
  destruct Hsp as (_ & Hq & _). cbn [sumlen]. assert (p = q) by lia. subst. lia.
Qed.

(* what is needed to re-establish the invariant once the new spine (sk'', npos :: ps') is known *)
Lemma step_finish (s : state A) level a sk'' cnt :
  Inv s -> lvl (npos s) = level ->
  adjust level (skipped s) (prev s) = inr sk'' -> sumlen sk'' = level ->
  (1 <= length sk'')%nat -> (length sk'' <= S (length (opens s)))%nat ->
  cnt = (length (opens s) - (length sk'' - 1))%nat ->
  spine_ok (S (npos s)) sk'' (npos s :: skipn cnt (poss (opens s))) ->
  good (npos s, a, top (skipn cnt (poss (opens s))), length sk'') ->
  (prev s < level -> length sk'' = S (length (skipped s))) ->
  (level = prev s -> length sk'' = length (skipped s)) ->
  exists s', step s level a = inr s' /\ Inv s' /\ npos s' = S (npos s) /\
             map e_payload (flat_state s') = map e_payload (flat_state s) ++ [a].
Proof.
  intros HI Hl Ha Hs H1 H2 Hcnt Hsp Hgood Hd2 Hd3.
  rewrite (step_unfold s level a sk'' Ha Hs H1 H2). rewrite <- Hcnt.
  destruct (close_n cnt (rootk s) (opens s)) as [rk ops] eqn:Hc.
  apply close_n_spec in Hc. destruct Hc as [Hflat Hposs].
  eexists. split; [reflexivity|].
  assert (Hlen' : length (opens s) = length (skipped s)).
  { pose proof (spine_len _ _ _ (inv_spine s HI)) as HL. unfold poss in HL. now rewrite map_length in HL. }
  assert (Hlen : length ops = (length sk'' - 1)%nat).
  { pose proof (f_equal (@length nat) Hposs) as HL. unfold poss in HL. rewrite skipn_length, !map_length in HL.
    subst cnt. unfold C18Bookmarks.frame in *. lia. }
  assert (Hfs : flat_st rk ((npos s, a, []) :: ops) =
                flat_state s ++ [(npos s, a, top (skipn cnt (poss (opens s))), length sk'')]).
  { unfold flat_state. rewrite <- Hflat. unfold flat_st. cbn [flat_opens]. unfold flat_forest at 2.
    cbn [flat_map]. rewrite Hposs, Hlen. rewrite <- app_assoc.
    replace (S (length sk'' - 1)) with (length sk'') by lia. reflexivity. }
  assert (Hdep : Z.of_nat (length sk'') <= level).
  { rewrite <- Hs. apply len_le_sumlen. exact (spine_nonneg _ _ _ Hsp). }
  split; [|split; [reflexivity|]].
  - constructor; cbn [npos skipped opens prev rootk]; unfold flat_state; cbn [rootk opens].
    + cbn [poss map fst]. fold (poss ops). rewrite Hposs. exact Hsp.
    + symmetry; exact Hs.
    + reflexivity.
    + rewrite Hfs, map_app, (inv_pos s HI). cbn [map e_pos fst]. rewrite seq_S. reflexivity.
    + rewrite Hfs. apply Forall_app. split; [exact (inv_good s HI)|]. constructor; [exact Hgood|constructor].
    + rewrite Hfs. intros e Hin Hp. apply in_app_or in Hin. destruct Hin as [Hin|[<-|[]]].
      * pose proof (pos_lt s e HI Hin). lia.
      * reflexivity.
    + rewrite Hfs. intros e e' Hin Hin' Hp. apply in_app_or in Hin. apply in_app_or in Hin'.
      destruct Hin' as [Hin'|[<-|[]]]; destruct Hin as [Hin|[<-|[]]].
      * exact (inv_adj s HI e e' Hin Hin' Hp).
      * pose proof (pos_lt s e' HI Hin'). cbn [e_pos fst] in Hp. lia.
      * cbn [e_pos fst] in Hp. symmetry in Hp.
        pose proof (inv_last s HI e Hin Hp) as Hde. pose proof (prev_is_last_level s _ HI Hp) as Hpl.
        unfold adj. cbn [e_pos e_depth fst snd]. rewrite Hde, Hpl, Hl. repeat split; lia.
      * cbn [e_pos fst] in Hp. lia.
    + rewrite Hfs. apply Forall_app. split; [exact (inv_depth s HI)|]. constructor; [|constructor].
      unfold depth_ok. cbn [e_pos e_depth fst snd]. lia.
  - unfold flat_state at 1. cbn [rootk opens]. rewrite Hfs, map_app. reflexivity.
Qed.

Lemma step_ok (s : state A) level a :
  Inv s -> lvl (npos s) = level -> 1 <= level ->
  exists s', step s level a = inr s' /\ Inv s' /\ npos s' = S (npos s) /\
             map e_payload (flat_state s') = map e_payload (flat_state s) ++ [a].
Proof.
  intros HI Hl Hlevel.
  pose proof (inv_spine s HI) as Hsp. pose proof (inv_prev s HI) as Hprev. pose proof (inv_head s HI) as Hhead.
  pose proof (spine_nonneg _ _ _ Hsp) as Hnn. pose proof (spine_len _ _ _ Hsp) as Hlen.
  assert (Hlen' : length (opens s) = length (skipped s)) by (unfold poss in Hlen; now rewrite map_length in Hlen).
  destruct (adjust_spec level (skipped s) (prev s) Hnn Hprev Hlevel)
    as [(Hlt & Ha)|[(Hge & pre & sk' & Hsk & Ha & Hsum)|(Hge & pre & s0 & sk' & Hsk & Ha & Hlo & Hhi)]].
  - (* deeper: push *)
    eapply (step_finish s level a _ 0%nat HI Hl Ha); cbn [length sumlen skipn]; try lia.
    + cbn [spine_ok]. repeat split; try lia.
      * intros k Hab Hk. destruct (poss (opens s)) as [|q ps]; cbn [above] in Hab.
        -- assert (k = npos s) by lia. subst k. lia.
        -- assert (k = npos s) by lia. subst k. lia.
      * apply spine_S; [exact Hsp|lia].
    + unfold good. cbn [e_pos e_parent fst snd]. destruct (poss (opens s)) as [|q ps] eqn:Hps; cbn [top].
      * intros k Hk. lia.
      * destruct (skipped s) as [|s1 sk1] eqn:Hsk1; [contradiction|].
        destruct Hsp as (_ & Hq & _ & _ & _). cbn [sumlen] in Hprev.
        repeat split; try lia.
  - (* same level as an open entry: replace it *)
    destruct sk' as [|s1 sk1]; [cbn [sumlen] in Hsum; lia|].
    rewrite Hsk in Hsp. apply spine_drop in Hsp.
    assert (Hlp : (length pre + S (length sk1))%nat = length (skipped s))
      by (rewrite Hsk, app_length; reflexivity).
    destruct (skipn (length pre) (poss (opens s))) as [|p ps'] eqn:Hdrop; [contradiction|].
    destruct Hsp as (Hs1 & Hp & Hpn & Hbound & Hrest).
    assert (Hskip : skipn (S (length pre)) (poss (opens s)) = ps').
    { apply (skipn_S_cons _ _ _ _ Hdrop). }
    assert (Hnn1 : 0 <= sumlen sk1) by (apply sumlen_nonneg; eapply spine_nonneg; exact Hrest).
    assert (Hpre : Forall nonneg pre) by (rewrite Hsk in Hnn; apply Forall_app in Hnn; tauto).
    assert (Hd3 : level = prev s -> S (length sk1) = length (skipped s)).
    { intros E. rewrite Hprev, Hsk, sumlen_app, Hsum in E.
      assert (E0 : sumlen pre = 0) by lia. apply (sumlen_zero_nil _ Hpre) in E0. subst pre. exact Hlp. }
    eapply (step_finish s level a _ (S (length pre)) HI Hl Ha Hsum); cbn [length]; try lia; try exact Hd3;
      rewrite Hskip.
    + cbn [spine_ok]. cbn [sumlen] in Hsum. repeat split; try lia.
      * intros k Hab Hk. destruct (Nat.eq_dec k (npos s)) as [->|Hne]; [lia|].
        rewrite Hl, <- Hsum, <- Hp. apply Hbound; [exact Hab|lia].
      * apply spine_S; [exact Hrest|]. cbn [sumlen] in Hsum. lia.
    + unfold good. cbn [e_pos e_parent fst snd]. cbn [sumlen] in Hsum.
      destruct ps' as [|q ps'']; cbn [top].
      * intros k Hk. rewrite Hl, <- Hsum, <- Hp. apply Hbound; [exact I|exact Hk].
      * destruct sk1 as [|s2 sk2]; [contradiction|]. destruct Hrest as (Hs2 & Hq & Hqn & _ & _).
        cbn [sumlen] in *. repeat split; try lia.
        intros k Hk. rewrite Hl, <- Hsum, <- Hp. apply Hbound; cbn [above]; lia.
  - (* shallower, between two open levels: pop then push *)
    rewrite Hsk in Hsp. apply spine_drop in Hsp.
    assert (Hlp : (length pre + S (length sk'))%nat = length (skipped s))
      by (rewrite Hsk, app_length; reflexivity).
    destruct (skipn (length pre) (poss (opens s))) as [|p ps'] eqn:Hdrop; [contradiction|].
    destruct Hsp as (Hs0 & Hp & Hpn & Hbound & Hrest).
    assert (Hskip : skipn (S (length pre)) (poss (opens s)) = ps').
    { apply (skipn_S_cons _ _ _ _ Hdrop). }
    assert (Hnn1 : 0 <= sumlen sk') by (apply sumlen_nonneg; eapply spine_nonneg; exact Hrest).
    assert (Hpre : Forall nonneg pre) by (rewrite Hsk in Hnn; apply Forall_app in Hnn; tauto).
    assert (Hd3 : level <> prev s).
    { rewrite Hprev, Hsk, sumlen_app. cbn [sumlen]. pose proof (sumlen_nonneg _ Hpre). lia. }
    eapply (step_finish s level a _ (S (length pre)) HI Hl Ha); cbn [length sumlen]; try lia; rewrite Hskip.
    + cbn [spine_ok]. repeat split; try lia.
      * intros k Hab Hk. destruct (Nat.eq_dec k (npos s)) as [->|Hne]; [lia|].
        assert (lvl p <= lvl k) by (apply Hbound; [exact Hab|lia]). lia.
      * apply spine_S; [exact Hrest|lia].
    + unfold good. cbn [e_pos e_parent fst snd].
      destruct ps' as [|q ps'']; cbn [top].
      * intros k Hk. assert (lvl p <= lvl k) by (apply Hbound; [exact I|exact Hk]). lia.
      * destruct sk' as [|s2 sk2]; [contradiction|]. destruct Hrest as (Hs2 & Hq & Hqn & _ & _).
        cbn [sumlen] in *. repeat split; try lia.
        intros k Hk. assert (lvl p <= lvl k) by (apply Hbound; cbn [above]; lia). lia.
Qed.

End Proofs.

Arguments Inv {A} lvl s.
Arguments good {A} lvl e.
Arguments adj {A} lvl e e'.
Arguments depth_ok {A} lvl e.

Section Run.
Context {A : Type}.
Variable lvl : nat -> Z.

Lemma run_ok : forall (todo : list (Z * A)) (s : state A),
  Inv lvl s ->
  (forall k l a, nth_error todo k = Some (l, a) -> lvl (npos s + k)%nat = l /\ 1 <= l) ->
  exists s', run_items s todo = inr s' /\ Inv lvl s' /\ npos s' = (npos s + length todo)%nat /\
             map e_payload (flat_state s') = map e_payload (flat_state s) ++ map snd todo.
Proof.
  induction todo as [|[l a] todo IH]; intros s HI Hlv.
  - exists s. cbn [run_items length map]. rewrite Nat.add_0_r, app_nil_r. auto.
  - destruct (Hlv 0%nat l a eq_refl) as [Hl H1]. rewrite Nat.add_0_r in Hl.
    destruct (step_ok lvl s l a HI Hl H1) as (s1 & Hstep & HI1 & Hn1 & Hp1).
    cbn [run_items]. rewrite Hstep.
    destruct (IH s1 HI1) as (s' & Hrun & HI' & Hn' & Hp').
    { intros k l' a' Hk. rewrite Hn1. replace (S (npos s) + k)%nat with (npos s + S k)%nat by lia.
      apply (Hlv (S k) l' a'). exact Hk. }
    exists s'. split; [exact Hrun|]. split; [exact HI'|]. split.
    + rewrite Hn', Hn1. cbn [length]. lia.
    + rewrite Hp', Hp1, <- app_assoc. reflexivity.
Qed.

Lemma finish_flat (s : state A) : flat_forest 1 None (finish s) = flat_state s.
Proof.
  unfold finish. destruct (close_n (length (opens s)) (rootk s) (opens s)) as [rk ops] eqn:Hc.
  apply close_n_spec in Hc. destruct Hc as [Hf Hp]. cbn [fst].
  assert (ops = []).
  { assert (Hl : length (poss (opens s)) = length (opens s)) by (unfold poss; apply map_length).
    rewrite <- Hl, skipn_all in Hp. unfold poss in Hp. now apply map_eq_nil in Hp. }
  subst ops. unfold flat_state. rewrite <- Hf. unfold flat_st. cbn [flat_opens]. now rewrite app_nil_r.
Qed.

Lemma run_items_app : forall (a b : list (Z * A)) (s : state A),
  run_items s (a ++ b) = match run_items s a with inl e => inl e | inr s' => run_items s' b end.
Proof.
  induction a as [|[l x] a IH]; intros b s; [reflexivity|]. cbn [app run_items].
  destruct (step s l x); [reflexivity|apply IH].
Qed.
End Run.

Definition lvl_of {A} (items : list (Z * A)) (k : nat) : Z := nth k (map fst items) 0.

Lemma lvl_of_nth {A} (items : list (Z * A)) k l a : nth_error items k = Some (l, a) -> lvl_of items k = l.
Proof.
  intros H. unfold lvl_of. apply (map_nth_error fst) in H. cbn [fst] in H. now apply nth_error_nth.
Qed.

Definition positive_levels {A} (items : list (Z * A)) : Prop := Forall (fun x => 1 <= fst x) items.

(* everything about one run over a sequence of bookmarks with positive levels *)
Theorem build_spec {A} (items : list (Z * A)) :
  positive_levels items ->
  exists s, run_items init items = inr s /\ Inv (lvl_of items) s /\ npos s = length items /\
            map e_payload (flat_forest 1 None (finish s)) = map snd items.
Proof.
  intros Hpos.
  destruct (run_ok (lvl_of items) items init (Inv_init _)) as (s & Hrun & HI & Hn & Hp).
  { intros k l a Hk. cbn [npos init Nat.add]. split; [exact (lvl_of_nth _ _ _ _ Hk)|].
    apply nth_error_In in Hk. unfold positive_levels in Hpos. rewrite Forall_forall in Hpos. exact (Hpos _ Hk). }
  exists s. rewrite finish_flat. change (npos init) with 0%nat in Hn. cbn [Nat.add] in Hn.
  change (flat_state init) with (@nil (entry A)) in Hp. cbn [map app] in Hp. auto.
Qed.

(* ---- documents ---- *)
Lemma run_pages_eq {B} : forall (pages : list (list (Z * B))) s pn,
  run_pages s pn pages = run_items s (doc_items pn pages).
Proof.
  induction pages as [|p ps IH]; intros s pn; [reflexivity|]. cbn [run_pages doc_items].
  rewrite run_items_app. destruct (run_items s (tag_page pn p)); [reflexivity|apply IH].
Qed.

Lemma doc_tree_build {B} (pages : list (list (Z * B))) : doc_tree pages = build (doc_items 0 pages).
Proof. unfold doc_tree, build. now rewrite run_pages_eq. Qed.

Definition positive_pages {B} (pages : list (list (Z * B))) : Prop :=
  Forall (Forall (fun b => 1 <= fst b)) pages.

Lemma positive_doc_items {B} : forall (pages : list (list (Z * B))) pn,
  positive_pages pages -> positive_levels (doc_items pn pages).
Proof.
  induction pages as [|p ps IH]; intros pn H; [constructor|]. inversion H as [|? ? Hp Hps]; subst.
  cbn [doc_items]. apply Forall_app. split; [|apply IH; exact Hps].
  unfold tag_page. rewrite Forall_map. cbn [fst]. exact Hp.
Qed.

(* level of the i-th bookmark of the document (document order across pages) *)
Definition doc_level {B} (pages : list (list (Z * B))) (i : nat) : Z := lvl_of (doc_items 0 pages) i.

Lemma doc_tree_spec {B} (pages : list (list (Z * B))) :
  positive_pages pages ->
  exists s, run_pages init 0 pages = inr s /\ doc_tree pages = inr (finish s) /\
            Inv (doc_level pages) s /\ npos s = length (doc_items 0 pages) /\
            map e_payload (flat_forest 1 None (finish s)) = map snd (doc_items 0 pages).
Proof.
  intros Hpos. destruct (build_spec (doc_items 0 pages) (positive_doc_items pages 0%nat Hpos))
    as (s & Hrun & HI & Hn & Hp).
  exists s. unfold doc_tree. rewrite run_pages_eq, Hrun. unfold doc_level. auto.
Qed.

(* 1. totality: neither assert fires, pop and index stay in range *)
Theorem bookmark_tree_total {B} (pages : list (list (Z * B))) :
  positive_pages pages -> exists f, doc_tree pages = inr f.
Proof. intros H. destruct (doc_tree_spec pages H) as (s & _ & Hd & _). eauto. Qed.

(* the invariant the asserts rely on, after any number of pages *)
Theorem bookmark_state_invariant {B} (pages : list (list (Z * B))) :
  positive_pages pages ->
  exists s, run_pages init 0 pages = inr s /\
            prev s = sumZ (skipped s) + Z.of_nat (length (skipped s)) /\
            Forall (fun x => 0 <= x) (skipped s) /\
            S (length (opens s)) = S (length (skipped s)).
Proof.
  intros H. destruct (doc_tree_spec pages H) as (s & Hr & _ & HI & _). exists s. split; [exact Hr|].
  pose proof (inv_spine _ s HI) as Hsp. split; [|split].
  - rewrite (inv_prev _ s HI). apply sumlen_sumZ.
  - exact (spine_nonneg _ _ _ _ Hsp).
  - f_equal. pose proof (spine_len _ _ _ _ Hsp) as HL. unfold poss in HL. now rewrite map_length in HL.
Qed.

(* 2. preorder = input *)
Theorem bookmark_preorder {B} (pages : list (list (Z * B))) f :
  positive_pages pages -> doc_tree pages = inr f ->
  map e_pos (flat_forest 1 None f) = seq 0 (length (doc_items 0 pages)) /\
  map e_payload (flat_forest 1 None f) = map snd (doc_items 0 pages).
Proof.
  intros H Hf. destruct (doc_tree_spec pages H) as (s & _ & Hd & HI & Hn & Hp).
  rewrite Hd in Hf. inversion Hf; subst f. split; [|exact Hp].
  rewrite finish_flat, (inv_pos _ s HI), Hn. reflexivity.
Qed.

(* 3. parent = nearest earlier entry of strictly lower level *)
Theorem bookmark_parent {B} (pages : list (list (Z * B))) f :
  positive_pages pages -> doc_tree pages = inr f ->
  forall i a par d, In (i, a, par, d) (flat_forest 1 None f) ->
  match par with
  | Some j => (j < i)%nat /\ doc_level pages j < doc_level pages i /\
              forall k, (j < k < i)%nat -> doc_level pages i <= doc_level pages k
  | None => forall k, (k < i)%nat -> doc_level pages i <= doc_level pages k
  end.
Proof.
  intros H Hf i a par d Hin. destruct (doc_tree_spec pages H) as (s & _ & Hd & HI & _).
  rewrite Hd in Hf. inversion Hf; subst f. rewrite finish_flat in Hin.
  pose proof (inv_good _ s HI) as Hg. rewrite Forall_forall in Hg. exact (Hg _ Hin).
Qed.

(* 4. skipped levels closed up *)
Theorem bookmark_depths {B} (pages : list (list (Z * B))) f :
  positive_pages pages -> doc_tree pages = inr f ->
  (forall i a par d, In (i, a, par, d) (flat_forest 1 None f) ->
     (1 <= d)%nat /\ Z.of_nat d <= doc_level pages i) /\
  (forall i a par d a' par' d',
     In (i, a, par, d) (flat_forest 1 None f) -> In (S i, a', par', d') (flat_forest 1 None f) ->
     (d' <= S d)%nat /\
     (doc_level pages i < doc_level pages (S i) -> d' = S d) /\
     (doc_level pages (S i) = doc_level pages i -> d' = d)).
Proof.
  intros H Hf. destruct (doc_tree_spec pages H) as (s & _ & Hd & HI & _).
  rewrite Hd in Hf. inversion Hf; subst f. rewrite finish_flat. split.
  - intros i a par d Hin. pose proof (inv_depth _ s HI) as Hg. rewrite Forall_forall in Hg. exact (Hg _ Hin).
  - intros i a par d a' par' d' Hin Hin'. exact (inv_adj _ s HI _ _ Hin Hin' eq_refl).
Qed.

(* the hypotheses are satisfiable by a document with skipped and decreasing levels over two pages *)
Example bookmark_example :
  positive_pages [[(1, 10); (4, 11)]; [(2, 12); (3, 13); (6, 14); (1, 15)]] /\
  doc_tree [[(1, 10); (4, 11)]; [(2, 12); (3, 13); (6, 14); (1, 15)]] =
  inr [Node 0 (0%nat, 10) [Node 1 (0%nat, 11) []; Node 2 (1%nat, 12) [Node 3 (1%nat, 13) [Node 4 (1%nat, 14) []]]];
       Node 5 (1%nat, 15) []].
Proof. split; [repeat constructor; cbn; lia|vm_compute; reflexivity]. Qed.
