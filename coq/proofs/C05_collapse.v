(* C05: collapse_margin (as it is in /repo now) returns max(positives, 0) + min(negatives, 0) for every list. *)
From Coq Require Import QArith Qminmax Lqa List String Bool.
Require Import WV.base.Py WV.gen.GenBlock WV.proofs.PyTac WV.proofs.PyLemmas.
Import ListNotations.
Open Scope string_scope.
Open Scope list_scope.
Open Scope Q_scope.

(* the specification: a left fold, as Python's max()/min() do *)
Definition maxpos (ms : list Q) : Q := fold_left Qmax (filter (fun m => Qle_bool 0 m) ms) 0.
Definition minneg (ms : list Q) : Q := fold_left Qmin (filter (fun m => Qle_bool m 0) ms) 0.
Definition collapse (ms : list Q) : Q := maxpos ms + minneg ms.

Definition returns (q : Q) (_ : env) (r : option val) : Prop := r = Some (VNum q).

Lemma collapse_gen O (HO : ops_ok O) (ms : list Q) :
  run O collapse_margin_body [("adjoining_margins", VList (map VNum ms))] (returns (collapse ms)) (fun _ => False).
Proof.
  unfold run, collapse_margin_body.
  cbn -[gen_collect map returns collapse].
  change (VNum 0 :: map VNum ms) with (map VNum (0 :: ms)).
  rewrite (gen_collect_filter _ (fun m => qleb O 0 m)).
  2:{ intros q kk. cbn. destruct (qleb O 0 q); reflexivity. }
  cbn -[gen_collect map returns collapse filter].
  assert (E0 : qleb O 0 0 = true) by (rewrite (qleb_eq _ HO); reflexivity).
  cbn [filter]. rewrite E0. cbn [map]. rewrite minmax_k_nums. cbv beta.
  change (VNum 0 :: map VNum ms) with (map VNum (0 :: ms)).
  rewrite (gen_collect_filter _ (fun m => qleb O m 0)).
  2:{ intros q kk. cbn. destruct (qleb O q 0); reflexivity. }
  cbn [filter rev app]. rewrite E0. cbn [map]. rewrite minmax_k_nums.
  cbn. unfold returns, collapse, maxpos, minneg.
  rewrite (qadd_eq _ HO), (qmax_eq _ HO), (qmin_eq _ HO), (qleb_eq _ HO). reflexivity.
Qed.

Theorem collapse_margin_spec (ms : list Q) :
  run real_ops collapse_margin_body [("adjoining_margins", VList (map VNum ms))]
      (returns (collapse ms)) (fun _ => False).
Proof. exact (collapse_gen real_ops real_ok ms). Qed.

(* ---- what the specification means: largest positive + most negative ---- *)
Lemma fold_max_ge l : forall a, a <= fold_left Qmax l a.
Proof. induction l as [|x l IH]; intros a; simpl; [lra|]. eapply Qle_trans; [|apply IH]. apply Q.le_max_l. Qed.
Lemma fold_max_in l : forall a x, In x l -> x <= fold_left Qmax l a.
Proof.
  induction l as [|y l IH]; intros a x H; simpl in *; [contradiction|]. destruct H as [H|H].
  - subst. eapply Qle_trans; [|apply fold_max_ge]. apply Q.le_max_r.
  - now apply IH.
Qed.
Lemma fold_max_attained l : forall a, fold_left Qmax l a == a \/ exists x, In x l /\ fold_left Qmax l a == x.
Proof.
  induction l as [|y l IH]; intros a; simpl; [left; reflexivity|].
  destruct (IH (Qmax a y)) as [H|[x [Hx H]]].
  - destruct (Q.max_dec a y) as [E|E].
    + left; eapply Qeq_trans; eassumption.
    + right; exists y; split; [now left|eapply Qeq_trans; eassumption].
  - right; exists x; split; [now right|exact H].
Qed.
Lemma fold_min_le l : forall a, fold_left Qmin l a <= a.
Proof. induction l as [|x l IH]; intros a; simpl; [lra|]. eapply Qle_trans; [apply IH|]. apply Q.le_min_l. Qed.
Lemma fold_min_in l : forall a x, In x l -> fold_left Qmin l a <= x.
Proof.
  induction l as [|y l IH]; intros a x H; simpl in *; [contradiction|]. destruct H as [H|H].
  - subst. eapply Qle_trans; [apply fold_min_le|]. apply Q.le_min_r.
  - now apply IH.
Qed.
Lemma fold_min_attained l : forall a, fold_left Qmin l a == a \/ exists x, In x l /\ fold_left Qmin l a == x.
Proof.
  induction l as [|y l IH]; intros a; simpl; [left; reflexivity|].
  destruct (IH (Qmin a y)) as [H|[x [Hx H]]].
  - destruct (Q.min_dec a y) as [E|E].
    + left; eapply Qeq_trans; eassumption.
    + right; exists y; split; [now left|eapply Qeq_trans; eassumption].
  - right; exists x; split; [now right|exact H].
Qed.

(* collapse ms = P + N where P is the largest of the non-negative margins (0 if none) and N the most negative
   of the non-positive ones (0 if none). *)
Theorem collapse_is_maxpos_plus_minneg (ms : list Q) :
  let P := maxpos ms in let N := minneg ms in
  collapse ms == P + N /\
  0 <= P /\ N <= 0 /\
  (forall m, In m ms -> 0 <= m -> m <= P) /\
  (forall m, In m ms -> m <= 0 -> N <= m) /\
  (P == 0 \/ exists m, In m ms /\ 0 <= m /\ P == m) /\
  (N == 0 \/ exists m, In m ms /\ m <= 0 /\ N == m).
Proof.
  cbn zeta. unfold collapse, maxpos, minneg.
  refine (conj _ (conj _ (conj _ (conj _ (conj _ (conj _ _)))))).
  - reflexivity.
  - apply fold_max_ge.
  - apply fold_min_le.
  - intros m Hin Hm. apply fold_max_in. apply filter_In. split; [exact Hin|]. now apply Qle_bool_iff.
  - intros m Hin Hm. apply fold_min_in. apply filter_In. split; [exact Hin|]. now apply Qle_bool_iff.
  - destruct (fold_max_attained (filter (fun m => Qle_bool 0 m) ms) 0) as [H|[x [Hx H]]]; [now left|right].
    apply filter_In in Hx. destruct Hx as [Hx1 Hx2]. exists x. split; [exact Hx1|]. split; [now apply Qle_bool_iff|exact H].
  - destruct (fold_min_attained (filter (fun m => Qle_bool m 0) ms) 0) as [H|[x [Hx H]]]; [now left|right].
    apply filter_In in Hx. destruct Hx as [Hx1 Hx2]. exists x. split; [exact Hx1|]. split; [now apply Qle_bool_iff|exact H].
Qed.

(* order independence (what block_container_layout relies on when it extends adjoining_margins) *)
Lemma collapse_app_comm a b : collapse (a ++ b) == collapse (b ++ a).
Proof.
  assert (Hmax : forall l1 l2 z, fold_left Qmax (l1 ++ l2) z == fold_left Qmax (l2 ++ l1) z).
  { intros l1 l2 z. apply Qle_antisym.
    - destruct (fold_max_attained (l1 ++ l2) z) as [H|[x [Hx H]]]; rewrite H; [apply fold_max_ge|].
      apply fold_max_in. apply in_app_or in Hx. apply in_or_app. tauto.
    - destruct (fold_max_attained (l2 ++ l1) z) as [H|[x [Hx H]]]; rewrite H; [apply fold_max_ge|].
      apply fold_max_in. apply in_app_or in Hx. apply in_or_app. tauto. }
  assert (Hmin : forall l1 l2 z, fold_left Qmin (l1 ++ l2) z == fold_left Qmin (l2 ++ l1) z).
  { intros l1 l2 z. apply Qle_antisym.
    - destruct (fold_min_attained (l2 ++ l1) z) as [H|[x [Hx H]]]; rewrite H; [apply fold_min_le|].
      apply fold_min_in. apply in_app_or in Hx. apply in_or_app. tauto.
    - destruct (fold_min_attained (l1 ++ l2) z) as [H|[x [Hx H]]]; rewrite H; [apply fold_min_le|].
      apply fold_min_in. apply in_app_or in Hx. apply in_or_app. tauto. }
  unfold collapse, maxpos, minneg. rewrite !filter_app. rewrite Hmax, Hmin. reflexivity.
Qed.

Example collapse_example : collapse [10; -3; 20; -7; 0] == 13.
Proof. vm_compute. reflexivity. Qed.
