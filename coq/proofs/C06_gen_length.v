(* C06 - the length computers of weasyprint/css/computed_values.py as REGENERATED from the source on every run
   (gen/GenComputed.v; interpreter base/Py.v): `length` computes exactly the hand model `length` of
   model/C06Values.v (on which the C06 theorems about relative values rest) for every unit, every number, every
   font-size argument, pixels_only or not, on the root element or not, for every property name; `pixel_length`,
   `length_pixels_only` and `line_height` (their call of `length` runs the regenerated body of `length`) compute
   the model through it.

   What the printer leaves to this file (names that are not Python names, see tools/py2coq.py IMPORTED):
   "%Dimension" (the namedtuple constructor Dimension(value, unit): the object with the fields GenComputed.Dimension_fields),
   "%KeyError" (a failed lookup in the table LENGTHS_TO_PIXELS, inlined in the body as a chain of conditionals).
   `character_ratio(style, 'x' | '0')` (Pango's measure of the element's font) is an oracle: any two functions of
   the style. *)
From Coq Require Import QArith Lqa List String Bool.
Require Import WV.base.Py WV.base.PyLink WV.proofs.PyNatural WV.proofs.PyTac WV.gen.GenComputed.
Require Import WV.model.C06Values WV.proofs.C06_values.
Import ListNotations.
Open Scope string_scope.
Open Scope list_scope.
Open Scope Q_scope.

(* ------------------------------------------------------------------ builtins and the oracle *)
Definition lcall (xr cr : val -> Q) (f : string) (args : list val) : val :=
  if String.eqb f "%Dimension" then
    match args with
    | [a; b] => VObj (combine Dimension_fields [a; b])
    | _ => VErr "TypeError"
    end
  else if String.eqb f "%KeyError" then VErr "KeyError"
  else if String.eqb f "character_ratio" then
    match args with
    | [style; VStr c] => if String.eqb c "x" then VNum (xr style)
                         else if String.eqb c "0" then VNum (cr style) else VErr "AssertionError"
    | _ => VErr "AssertionError"
    end
  else VErr "NameError".

Example lcall_ex xr cr :
  lcall xr cr "%Dimension" [VNum 3; VStr "px"] = VObj [("value", VNum 3); ("unit", VStr "px")] /\
  lcall xr cr "%KeyError" [VStr "fr"] = VErr "KeyError" /\
  lcall xr cr "character_ratio" [VNone; VStr "0"] = VNum (cr VNone).
Proof. repeat split. Qed.

(* ------------------------------------------------------------------ the values as the validator writes them *)
Definition unit_str (u : unit) : string :=
  match u with
  | Px => "px" | Pt => "pt" | Pc => "pc" | In_ => "in" | Cm => "cm" | Mm => "mm" | Qu => "q"
  | Em => "em" | Ex => "ex" | Ch => "ch" | Rem => "rem" | Pct => "%"
  end.
Definition dim (v : Q) (u : val) : val := VObj [("value", VNum v); ("unit", u)].
(* the keywords length() hands back: 'auto', 'content', 'from-font' *)
Inductive lkw := KAuto | KContent | KFromFont.
Definition kw_str (k : lkw) : string := match k with KAuto => "auto" | KContent => "content" | KFromFont => "from-font" end.
Definition lval_val (k : lkw) (v : lval) : val :=
  match v with LKeyword => VStr (kw_str k) | LDim q u => dim q (VStr (unit_str u)) end.
Definition oq_val (o : option Q) : val := match o with Some q => VNum q | None => VNone end.
(* the style as far as length() reads it: style['font_size'], style.is_root_element, style.root_style['font_size'];
   whatever else it holds (more) is handed to character_ratio only *)
Definition style_val (own rootfs : Q) (root : bool) (more : list (string * val)) : val :=
  VObj (("font_size", VNum own) :: ("is_root_element", VBool root)
        :: ("root_style", VObj [("font_size", VNum rootfs)]) :: more).
Definition env_of (xr cr : val -> Q) (own rootfs : Q) (root : bool) (more : list (string * val)) : env :=
  {| own_fs := own; root_fs := rootfs; ex_ratio := xr (style_val own rootfs root more);
     ch_ratio := cr (style_val own rootfs root more); is_root := root |}.

(* what the model's answer looks like in Python: the value itself, or a number of pixels (bare when pixels_only,
   else Dimension(q, 'px')), the number up to == *)
Definition res_ok (po : bool) (value : val) (r : lres) (res : val) : Prop :=
  match r with
  | LSame => res = value
  | LPx q => exists q', q' == q /\ res = if po then VNum q' else dim q' (VStr "px")
  end.
Definition length_post (po : bool) (value : val) (r : lres) (_ : Py.env) (res : option val) : Prop :=
  match res with Some x => res_ok po value r x | None => False end.

(* the operations: exact rationals; calls answered by the builtins and the oracle *)
Definition calls_ok (O : qops) xr cr : Prop := forall f args, ocall O f args = lcall xr cr f args.
Definition lops xr cr : qops := with_calls real_ops (lcall xr cr).
Lemma lops_ok xr cr : ops_ok (lops xr cr).
Proof. apply with_calls_ok, real_ok. Qed.
Lemma lops_calls xr cr : calls_ok (lops xr cr) xr cr.
Proof. intros f args. reflexivity. Qed.

Ltac ev := lazy -[qadd qsub qmul qdiv qmax qmin qleb qeqb ocall Qplus Qminus Qmult Qdiv Qeq_bool Qle_bool Qeq].

Ltac fin :=
  match goal with
  | |- exists q', q' == _ /\ _ => eexists; split; [|reflexivity]; first [reflexivity | lra]
  | |- _ => reflexivity
  end.

(* when the source decides without testing `value.value == 0` (e.g. were the two operands of the `and` swapped), the
   model's own test is still in the goal: both outcomes are examined *)
Ltac model_zero_test :=
  try (match goal with |- context [Qeq_bool ?a ?b] => destruct (Qeq_bool a b) end; cbv iota).

(* ------------------------------------------------------------------ length *)
Lemma gen_length_run O (HO : ops_ok O) xr cr (HC : calls_ok O xr cr) own rootfs (root : bool) more (n : string)
      (k : lkw) (v : lval) (fs : option Q) (po : bool) :
  run O length_body
    [("style", style_val own rootfs root more); ("name", VStr n); ("value", lval_val k v);
     ("font_size", oq_val fs); ("pixels_only", VBool po)]
    (length_post po (lval_val k v)
       (length (env_of xr cr own rootfs root more) (String.eqb n "font_size") fs v))
    (fun _ => False).
Proof.
  destruct v as [|q u].
  - destruct k; ev; reflexivity.
  - destruct (String.eqb_spec n "font_size") as [->|Hn].
    + destruct u, fs as [f|], po, root; ev; split_paths O; repeat (rewrite HC; ev); unseal HO;
        rewrite ?E; cbv iota; model_zero_test; fin.
    + apply String.eqb_neq in Hn.
      destruct u, fs as [f|], po, root; ev; split_paths O; repeat (rewrite HC; ev); unseal HO;
        rewrite ?E; cbv iota; model_zero_test.
      all: try fin.
      (* rem on the root element: the test `name != 'font_size'` on an arbitrary name *)
      all: match goal with
           | |- if (if ?t then false else true) then _ else _ =>
               change t with (String.eqb n "font_size"); rewrite Hn; cbv iota; fin
           end.
Qed.

(* the value of the call length(style, name, value, font_size, pixels_only), through naturality of the interpreter:
   it never raises, and what it returns is the model's answer *)
Definition length_fn : fn := (length_args, length_body).
Theorem gen_length_call O (HO : ops_ok O) xr cr (HC : calls_ok O xr cr) own rootfs (root : bool) more (n : string)
        (k : lkw) (v : lval) (fs : option Q) (po : bool) :
  exists res,
    call_body O length_fn [style_val own rootfs root more; VStr n; lval_val k v; oq_val fs; VBool po] = res /\
    res_ok po (lval_val k v) (length (env_of xr cr own rootfs root more) (String.eqb n "font_size") fs v) res.
Proof.
  pose proof (gen_length_run O HO xr cr HC own rootfs root more n k v fs po) as H.
  unfold call_body. cbn [fst snd length_fn length_args PyLink.bind].
  rewrite run_natural in H. rewrite run_natural.
  destruct (run_out O length_body _) as [rho' res|m]; [|contradiction].
  unfold length_post in H. destruct res as [x|]; [|contradiction].
  exists x. split; [reflexivity|exact H].
Qed.

(* the same, said of the regenerated function under the concrete operations (exact rationals, the builtins, the
   oracle): this is the statement props/C06.v restates *)
Theorem gen_length xr cr own rootfs (root : bool) more (n : string) (k : lkw) (v : lval) (fs : option Q) (po : bool) :
  res_ok po (lval_val k v) (length (env_of xr cr own rootfs root more) (String.eqb n "font_size") fs v)
    (call_body (lops xr cr) length_fn [style_val own rootfs root more; VStr n; lval_val k v; oq_val fs; VBool po]).
Proof.
  destruct (gen_length_call (lops xr cr) (lops_ok xr cr) xr cr (lops_calls xr cr) own rootfs root more n k v fs po)
    as [res [<- H]]. exact H.
Qed.

Example gen_length_ex :
  call_body (lops (fun _ => 1 # 2) (fun _ => 1 # 2)) length_fn
    [style_val 20 10 false []; VStr "margin_left"; dim 3 (VStr "em"); VNone; VBool false] =
  dim (3 * 20) (VStr "px") /\
  call_body (lops (fun _ => 1 # 2) (fun _ => 1 # 2)) length_fn
    [style_val 20 10 false []; VStr "margin_left"; dim 0 (VStr "%"); VNone; VBool false] = dim 0 (VStr "%") /\
  call_body (lops (fun _ => 1 # 2) (fun _ => 1 # 2)) length_fn
    [style_val 20 10 false []; VStr "margin_left"; dim 0 (VStr "em"); VNone; VBool false] = dim 0 (VStr "px").
Proof. repeat split. Qed.

(* ------------------------------------------------------------------ the clauses of the property, about the source *)
Definition px_val (po : bool) (q : Q) : val := if po then VNum q else dim q (VStr "px").
Definition length_call xr cr own rootfs root more n value fs po : val :=
  call_body (lops xr cr) length_fn [style_val own rootfs root more; VStr n; value; oq_val fs; VBool po].

Lemma model_zero_or e b fs v u x :
  is_pct u = false ->
  (Qzero v = false -> px_is (length e b fs (LDim v u)) x) -> (v == 0 -> x == 0) ->
  px_is (length e b fs (LDim v u)) x.
Proof.
  intros Hu H1 H0. destruct (Qzero v) eqn:Z; [|auto].
  unfold length. rewrite Z, Hu. simpl. symmetry. apply H0, Qzero_true, Z.
Qed.

(* relative units: em / ex / ch against the font-size ARGUMENT when there is one (font-size hands in the parent's
   font size), else against the element's own font size; rem against the root element's font size - on the root
   element itself its own font size, except in the font-size property (root_style is then the initial value) *)
Theorem gen_length_relative_units xr cr own rootfs (root : bool) more n fs po v :
  let st := style_val own rootfs root more in
  let f := match fs with Some f => f | None => own end in
  (exists q, q == v * f /\ length_call xr cr own rootfs root more n (dim v (VStr "em")) fs po = px_val po q) /\
  (exists q, q == v * f * xr st /\ length_call xr cr own rootfs root more n (dim v (VStr "ex")) fs po = px_val po q) /\
  (exists q, q == v * f * cr st /\ length_call xr cr own rootfs root more n (dim v (VStr "ch")) fs po = px_val po q) /\
  (exists q, q == v * (if root && negb (String.eqb n "font_size") then own else rootfs) /\
             length_call xr cr own rootfs root more n (dim v (VStr "rem")) fs po = px_val po q).
Proof.
  intros st f. unfold length_call.
  pose proof (gen_length xr cr own rootfs root more n KAuto (LDim v Em) fs po) as Hem.
  pose proof (gen_length xr cr own rootfs root more n KAuto (LDim v Ex) fs po) as Hex.
  pose proof (gen_length xr cr own rootfs root more n KAuto (LDim v Ch) fs po) as Hch.
  pose proof (gen_length xr cr own rootfs root more n KAuto (LDim v Rem) fs po) as Hrem.
  cbn [lval_val unit_str] in *.
  repeat split.
  - assert (P : px_is (length (env_of xr cr own rootfs root more) (String.eqb n "font_size") fs (LDim v Em)) (v * f)).
    { apply model_zero_or; [reflexivity| |intros ->; ring]. intros Z. unfold length. rewrite Z. simpl. reflexivity. }
    destruct (length _ _ fs (LDim v Em)); [contradiction|]. destruct Hem as [q' [Hq ->]].
    exists q'. split; [rewrite Hq; exact P|reflexivity].
  - assert (P : px_is (length (env_of xr cr own rootfs root more) (String.eqb n "font_size") fs (LDim v Ex)) (v * f * xr st)).
    { apply model_zero_or; [reflexivity| |intros ->; ring]. intros Z. unfold length. rewrite Z. simpl. reflexivity. }
    destruct (length _ _ fs (LDim v Ex)); [contradiction|]. destruct Hex as [q' [Hq ->]].
    exists q'. split; [rewrite Hq; exact P|reflexivity].
  - assert (P : px_is (length (env_of xr cr own rootfs root more) (String.eqb n "font_size") fs (LDim v Ch)) (v * f * cr st)).
    { apply model_zero_or; [reflexivity| |intros ->; ring]. intros Z. unfold length. rewrite Z. simpl. reflexivity. }
    destruct (length _ _ fs (LDim v Ch)); [contradiction|]. destruct Hch as [q' [Hq ->]].
    exists q'. split; [rewrite Hq; exact P|reflexivity].
  - assert (P : px_is (length (env_of xr cr own rootfs root more) (String.eqb n "font_size") fs (LDim v Rem))
                      (v * (if root && negb (String.eqb n "font_size") then own else rootfs))).
    { apply model_zero_or; [reflexivity| |intros ->; ring]. intros Z. unfold length. rewrite Z. simpl.
      destruct (root && negb (String.eqb n "font_size")); reflexivity. }
    destruct (length _ _ fs (LDim v Rem)); [contradiction|]. destruct Hrem as [q' [Hq ->]].
    exists q'. split; [rewrite Hq; exact P|reflexivity].
Qed.

(* percentages stay percentages - 0% included - and the keywords stay themselves, whatever the other arguments *)
Theorem gen_length_percentage_kept xr cr own rootfs (root : bool) more n fs po v k :
  length_call xr cr own rootfs root more n (dim v (VStr "%")) fs po = dim v (VStr "%") /\
  length_call xr cr own rootfs root more n (VStr (kw_str k)) fs po = VStr (kw_str k).
Proof.
  unfold length_call. split.
  - pose proof (gen_length xr cr own rootfs root more n KAuto (LDim v Pct) fs po) as H.
    rewrite (proj2 (percent_and_keywords_unchanged _ _ fs v)) in H. exact H.
  - exact (gen_length xr cr own rootfs root more n k LKeyword fs po).
Qed.

(* absolute units: the fixed multiples of the pixel of the table LENGTHS_TO_PIXELS as the source reads it today *)
Theorem gen_length_absolute_units xr cr own rootfs (root : bool) more n fs po v u f :
  to_pixels u = Some f ->
  exists q, q == v * f /\
    length_call xr cr own rootfs root more n (dim v (VStr (unit_str u))) fs po = px_val po q.
Proof.
  intros Hu. unfold length_call.
  pose proof (gen_length xr cr own rootfs root more n KAuto (LDim v u) fs po) as H.
  pose proof (absolute_units (env_of xr cr own rootfs root more) (String.eqb n "font_size") fs v u f Hu) as P.
  cbn [lval_val] in H. destruct (length _ _ fs (LDim v u)); [contradiction|]. destruct H as [q' [Hq ->]].
  exists q'. split; [rewrite Hq; exact P|reflexivity].
Qed.

(* ------------------------------------------------------------------ the computers that call length() *)
(* their call of `length` runs the regenerated body of length (under lops) *)
Definition lcall2 xr cr (f : string) (args : list val) : val :=
  if String.eqb f "length" then call_body (lops xr cr) length_fn args else lcall xr cr f args.
Definition calls2_ok (O : qops) xr cr : Prop := forall f args, ocall O f args = lcall2 xr cr f args.
Definition lops2 xr cr : qops := with_calls real_ops (lcall2 xr cr).
Lemma lops2_ok xr cr : ops_ok (lops2 xr cr).
Proof. apply with_calls_ok, real_ok. Qed.
Lemma lops2_calls xr cr : calls2_ok (lops2 xr cr) xr cr.
Proof. intros f args. reflexivity. Qed.

Ltac ev2 := lazy -[qadd qsub qmul qdiv qmax qmin qleb qeqb ocall Qplus Qminus Qmult Qdiv Qeq_bool Qle_bool Qeq
                   call_body lops length_fn C06Values.length env_of].

Ltac ev2h H := lazy -[qadd qsub qmul qdiv qmax qmin qleb qeqb ocall Qplus Qminus Qmult Qdiv Qeq_bool Qle_bool Qeq
                         call_body lops length_fn C06Values.length env_of] in H.

(* pixel_length (letter-spacing) and length_pixels_only (column-width, outline-offset): length() with
   pixels_only=True; pixel_length keeps 'normal' *)
Lemma gen_pixel_length_run O (HO : ops_ok O) xr cr (HC : calls2_ok O xr cr) own rootfs (root : bool) more n k v :
  run O pixel_length_body
    [("style", style_val own rootfs root more); ("name", VStr n); ("value", lval_val k v)]
    (length_post true (lval_val k v)
       (length (env_of xr cr own rootfs root more) (String.eqb n "font_size") None v)) (fun _ => False) /\
  run O pixel_length_body
    [("style", style_val own rootfs root more); ("name", VStr n); ("value", VStr "normal")]
    (fun _ res => res = Some (VStr "normal")) (fun _ => False) /\
  run O length_pixels_only_body
    [("style", style_val own rootfs root more); ("name", VStr n); ("value", lval_val k v)]
    (length_post true (lval_val k v)
       (length (env_of xr cr own rootfs root more) (String.eqb n "font_size") None v)) (fun _ => False).
Proof.
  destruct (gen_length_call (lops xr cr) (lops_ok xr cr) xr cr (lops_calls xr cr) own rootfs root more n k v None true)
    as [res [Hres Hok]].
  remember (String.eqb n "font_size") as b eqn:Hb. clear Hb.
  split; [|split]; [| ev2; reflexivity |].
  - destruct v as [|q u]; [destruct k|]; ev2; rewrite HC; ev2; ev2h Hres; rewrite Hres;
      (destruct (length _ _ None _); [rewrite Hok; exact eq_refl | destruct Hok as [q' [Hq ->]]; exists q'; split; [exact Hq|reflexivity]]).
  - destruct v as [|q u]; [destruct k|]; ev2; rewrite HC; ev2; ev2h Hres; rewrite Hres;
      (destruct (length _ _ None _); [rewrite Hok; exact eq_refl | destruct Hok as [q' [Hq ->]]; exists q'; split; [exact Hq|reflexivity]]).
Qed.

(* line-height: 'normal' kept, a number kept as ('NUMBER', n), a percentage against the element's own font size,
   a length through length() with pixels_only=True: ('PIXELS', px) *)
Definition lh_val (v : lhval) : val :=
  match v with
  | HNormal => VStr "normal" | HNumber q => dim q VNone | HPct q => dim q (VStr "%")
  | HLen q u => dim q (VStr (unit_str u))
  end.
Definition lh_ok (r : lhres) (res : val) : Prop :=
  match r with
  | RNormal => res = VStr "normal"
  | RNumber q => res = VList [VStr "NUMBER"; VNum q]
  | RPixels q => exists q', q' == q /\ res = VList [VStr "PIXELS"; VNum q']
  | RBad => False
  end.
(* the encoding of a percentage is HPct *)
Definition lh_wf (v : lhval) : Prop := match v with HLen _ Pct => False | _ => True end.

Lemma length_is_px e b fs q u : u <> Pct -> exists x, length e b fs (LDim q u) = LPx x.
Proof.
  intros Hu. unfold length. destruct u; try congruence; simpl; destruct (Qzero q); simpl; eauto;
    destruct fs; eauto; destruct (is_root e && negb b); eauto.
Qed.

Lemma gen_line_height_run O (HO : ops_ok O) xr cr (HC : calls2_ok O xr cr) own rootfs (root : bool) more n v :
  String.eqb n "font_size" = false -> lh_wf v ->
  run O line_height_body
    [("style", style_val own rootfs root more); ("name", VStr n); ("value", lh_val v)]
    (fun _ res => match res with
                  | Some x => lh_ok (line_height (env_of xr cr own rootfs root more) v) x | None => False end)
    (fun _ => False).
Proof.
  intros Hn Hwf. destruct v as [|q|q|q u].
  - ev2. reflexivity.
  - ev2. reflexivity.
  - ev2. split_paths O; unseal HO.
    + vm_compute in E. discriminate E.
    + eexists. split; reflexivity.
  - assert (Hu : u <> Pct) by (intros ->; exact Hwf).
    destruct (gen_length_call (lops xr cr) (lops_ok xr cr) xr cr (lops_calls xr cr) own rootfs root more n KAuto
                (LDim q u) None true) as [res [Hres Hok]].
    rewrite Hn in Hok.
    destruct (length_is_px (env_of xr cr own rootfs root more) false None q u Hu) as [x Hx].
    unfold line_height. rewrite Hx in *. destruct Hok as [q' [Hq ->]].
    destruct u; try congruence; ev2; rewrite HC; ev2; ev2h Hres; rewrite Hres;
      (exists q'; split; [exact Hq|reflexivity]).
Qed.

(* ---- the values of the calls, under the concrete operations *)
Definition pixel_length_fn : fn := (pixel_length_args, pixel_length_body).
Definition length_pixels_only_fn : fn := (length_pixels_only_args, length_pixels_only_body).
Definition line_height_fn : fn := (line_height_args, line_height_body).

Ltac by_run H :=
  unfold call_body;
  cbn [fst snd PyLink.bind pixel_length_fn length_pixels_only_fn line_height_fn pixel_length_args
       length_pixels_only_args line_height_args];
  rewrite run_natural in H; rewrite run_natural;
  destruct (run_out _ _ _) as [rho' [x|]|m]; try contradiction; try discriminate H; try exact H.

Theorem gen_pixel_length xr cr own rootfs (root : bool) more n k v :
  res_ok true (lval_val k v) (length (env_of xr cr own rootfs root more) (String.eqb n "font_size") None v)
    (call_body (lops2 xr cr) pixel_length_fn [style_val own rootfs root more; VStr n; lval_val k v]) /\
  call_body (lops2 xr cr) pixel_length_fn [style_val own rootfs root more; VStr n; VStr "normal"] = VStr "normal" /\
  res_ok true (lval_val k v) (length (env_of xr cr own rootfs root more) (String.eqb n "font_size") None v)
    (call_body (lops2 xr cr) length_pixels_only_fn [style_val own rootfs root more; VStr n; lval_val k v]).
Proof.
  destruct (gen_pixel_length_run (lops2 xr cr) (lops2_ok xr cr) xr cr (lops2_calls xr cr) own rootfs root more n k v)
    as [H1 [H2 H3]].
  split; [|split].
  - by_run H1.
  - by_run H2. congruence.
  - by_run H3.
Qed.

Theorem gen_line_height xr cr own rootfs (root : bool) more n v :
  String.eqb n "font_size" = false -> lh_wf v ->
  lh_ok (line_height (env_of xr cr own rootfs root more) v)
    (call_body (lops2 xr cr) line_height_fn [style_val own rootfs root more; VStr n; lh_val v]).
Proof.
  intros Hn Hwf.
  pose proof (gen_line_height_run (lops2 xr cr) (lops2_ok xr cr) xr cr (lops2_calls xr cr) own rootfs root more n v
                Hn Hwf) as H.
  by_run H.
Qed.

(* line-height in em / %: against the element's own font size (the clause, about the source) *)
Theorem gen_line_height_relative xr cr own rootfs (root : bool) more q :
  (exists x, x == q / 100 * own /\
     call_body (lops2 xr cr) line_height_fn [style_val own rootfs root more; VStr "line_height"; dim q (VStr "%")] =
     VList [VStr "PIXELS"; VNum x]) /\
  (exists x, x == q * own /\
     call_body (lops2 xr cr) line_height_fn [style_val own rootfs root more; VStr "line_height"; dim q (VStr "em")] =
     VList [VStr "PIXELS"; VNum x]) /\
  call_body (lops2 xr cr) line_height_fn [style_val own rootfs root more; VStr "line_height"; dim q VNone] =
  VList [VStr "NUMBER"; VNum q].
Proof.
  split; [|split].
  - exact (gen_line_height xr cr own rootfs root more "line_height" (HPct q) eq_refl I).
  - pose proof (gen_line_height xr cr own rootfs root more "line_height" (HLen q Em) eq_refl I) as H.
    pose proof (line_height_em_against_own_font_size (env_of xr cr own rootfs root more) q) as P.
    cbn [lh_val unit_str] in H. destruct (line_height _ (HLen q Em)); try contradiction.
    destruct H as [x [Hx ->]]. exists x. split; [rewrite Hx; exact P|reflexivity].
  - exact (gen_line_height xr cr own rootfs root more "line_height" (HNumber q) eq_refl I).
Qed.
