(* C13 - the property clauses about the painted rectangle, stated about replacedbox_layout AS REGENERATED from
   weasyprint/layout/replaced.py (gen/GenReplacedBox.v), through proofs/C13_gen_layout.v (source = model rb_layout)
   and proofs/C13_fit.v (the model satisfies the clauses): for an image whose intrinsic size w x h and ratio r are
   known (r > 0, w = h * r), the call returns four numbers (draw_width, draw_height, x, y), and
   object-fit: fill gives the content box size; contain fits inside and touches two opposite edges; cover covers and
   touches; none keeps the intrinsic size; scale-down is the smaller of none and contain;
   object-position: a percentage aligns the point at p% of the image with the point at p% of the content box (measured
   from the right / bottom edge when the origin says so), i.e. it resolves against the free space; a length is the
   offset from that edge. *)
From Coq Require Import QArith Qminmax Lqa List Bool String.
Require Import WV.base.Py WV.base.PyLink WV.gen.GenReplacedBox.
Require Import WV.model.C13Replaced WV.model.C13Spec WV.proofs.C13_fit.
Require Import WV.proofs.C13_gen_sizing WV.proofs.C13_gen_tac WV.proofs.C13_gen_layout_tail WV.proofs.C13_gen_layout.
Import ListNotations.
Open Scope string_scope.
Open Scope list_scope.
Open Scope Q_scope.

(* the source function, its calls answered as in proofs/C13_gen_layout.v (g: image.get_intrinsic_size) *)
Definition src_layout (g : list val -> val) (box : val) : val :=
  call_body (with_calls real_ops (layout_callees g)) (replacedbox_layout_args, replacedbox_layout_body) [box].

Definition fit_clause (f : fit) (bw bh w h r dw dh : Q) : Prop :=
  match f with
  | Fill => dw == bw /\ dh == bh
  | Contain => contained bw bh r dw dh
  | Cover => covering bw bh r dw dh
  | FitNone => dw == w /\ dh == h
  | ScaleDown =>
      exists kw kh, contained bw bh r kw kh /\
        ((kw <= w /\ kh <= h /\ dw == kw /\ dh == kh) \/ (w <= kw /\ h <= kh /\ dw == w /\ dh == h))
  end.
(* pos: the offset of the painted rectangle from the left / top edge of the content box *)
Definition position_clause (far : bool) (p : lenpct) (area img pos : Q) : Prop :=
  match p with
  | Pct p => aligned (if far then 100 - p else p) area img pos
  | Px q => if far then pos + img + q == area else pos == q
  end.

Lemma place_clause far p area img : position_clause far p area img (place far p (area - img)).
Proof.
  destruct p as [q|p]; cbn [position_clause].
  - unfold place. cbn [percentage]. destruct far; ring.
  - apply aligned_place.
Qed.

Theorem source_painted_rectangle (g : list val -> val) imgf rs fs f rgt btm px py
        bw bh posx posy ml mt pl pt bl bt w h r :
  g [VObj imgf; VNum rs; VNum fs] = vintr (Intr (Some w) (Some h) (Some r)) -> 0 < r -> w == h * r ->
  exists dw dh x y,
    src_layout g (lbox f rgt btm px py bw bh imgf rs fs posx posy ml mt pl pt bl bt)
      = VList [VNum dw; VNum dh; VNum x; VNum y] /\
    fit_clause f bw bh w h r dw dh /\
    position_clause rgt px bw dw (x - (posx + ml + pl + bl)) /\
    position_clause btm py bh dh (y - (posy + mt + pt + bt)).
Proof.
  intros Hg Hr E. unfold src_layout.
  rewrite (gen_replacedbox_layout_value g imgf rs fs _ f rgt btm px py bw bh posx posy ml mt pl pt bl bt Hg).
  rewrite rb_layout_split.
  assert (D : exists dw dh, draw_size f bw bh (Intr (Some w) (Some h) (Some r)) = Some (dw, dh) /\
                            fit_clause f bw bh w h r dw dh).
  { unfold draw_size, intrinsic_or_contain. cbn [iw ih ir C13Replaced.bind].
    destruct (contain_inside_and_touching bw bh r Hr) as [kw [kh [EC C]]].
    destruct (cover_covers_and_touching bw bh r Hr) as [vw [vh [EV V]]].
    destruct f; cbn [fit_clause].
    - do 2 eexists. split; [reflexivity|]. split; reflexivity.
    - rewrite EC. eauto.
    - rewrite EV. eauto.
    - do 2 eexists. split; [reflexivity|]. split; reflexivity.
    - destruct (scale_down_is_min rgt btm px py bw bh 0 0 w h r Hr E) as [kw' [kh' [dw [dh [x [y [EC' [L S]]]]]]]].
      rewrite EC in EC'. injection EC' as <- <-.
      rewrite rb_layout_split in L. unfold draw_size, intrinsic_or_contain in L. cbn [iw ih ir C13Replaced.bind] in L.
      rewrite EC in *. cbn [C13Replaced.bind] in *. injection L as <- <- _ _.
      do 2 eexists. split; [reflexivity|]. exists kw, kh. split; [exact C|exact S]. }
  destruct D as [dw [dh [-> F]]]. cbn [C13Replaced.bind vlay vquad].
  do 4 eexists. split; [reflexivity|]. split; [exact F|].
  split.
  - assert (X : place rgt px (bw - dw) + (posx + ml + pl + bl) - (posx + ml + pl + bl) == place rgt px (bw - dw)) by ring.
    pose proof (place_clause rgt px bw dw) as P. destruct px as [q|p]; cbn [position_clause] in *.
    + destruct rgt; rewrite X; exact P.
    + unfold aligned in *. rewrite X. exact P.
  - assert (Y : place btm py (bh - dh) + (posy + mt + pt + bt) - (posy + mt + pt + bt) == place btm py (bh - dh)) by ring.
    pose proof (place_clause btm py bh dh) as P. destruct py as [q|p]; cbn [position_clause] in *.
    + destruct btm; rewrite Y; exact P.
    + unfold aligned in *. rewrite Y. exact P.
Qed.
Print Assumptions source_painted_rectangle.

(* contain and cover do not need the intrinsic width and height: a ratio is enough *)
Theorem source_contain_cover (g : list val -> val) imgf rs fs i (cover : bool) rgt btm px py
        bw bh posx posy ml mt pl pt bl bt r :
  g [VObj imgf; VNum rs; VNum fs] = vintr i -> ir i = Some r -> 0 < r ->
  exists dw dh x y,
    src_layout g (lbox (if cover then Cover else Contain) rgt btm px py bw bh imgf rs fs posx posy ml mt pl pt bl bt)
      = VList [VNum dw; VNum dh; VNum x; VNum y] /\
    (if cover then covering bw bh r dw dh else contained bw bh r dw dh).
Proof.
  intros Hg Er Hr. unfold src_layout.
  rewrite (gen_replacedbox_layout_value g imgf rs fs i _ rgt btm px py bw bh posx posy ml mt pl pt bl bt Hg).
  destruct cover.
  - destruct (object_fit_cover rgt btm px py bw bh i (posx + ml + pl + bl) (posy + mt + pt + bt) r Er Hr)
      as [dw [dh [x [y [-> C]]]]]. cbn [vlay vquad]. eauto 6.
  - destruct (object_fit_contain rgt btm px py bw bh i (posx + ml + pl + bl) (posy + mt + pt + bt) r Er Hr)
      as [dw [dh [x [y [-> C]]]]]. cbn [vlay vquad]. eauto 6.
Qed.
Print Assumptions source_contain_cover.

(* the hypotheses are satisfiable: a 40 x 20 picture in a 100 x 100 content box *)
Example source_painted_rectangle_example :
  exists dw dh x y,
    src_layout (fun _ => vintr (Intr (Some 40) (Some 20) (Some 2)))
      (lbox ScaleDown true false (Pct 25) (Px 3) 100 100 [] 1 16 10 20 0 0 0 0 0 0)
      = VList [VNum dw; VNum dh; VNum x; VNum y] /\
    fit_clause ScaleDown 100 100 40 20 2 dw dh /\
    position_clause true (Pct 25) 100 dw (x - (10 + 0 + 0 + 0)) /\
    position_clause false (Px 3) 100 dh (y - (20 + 0 + 0 + 0)).
Proof. apply source_painted_rectangle; [reflexivity|reflexivity|reflexivity]. Qed.
