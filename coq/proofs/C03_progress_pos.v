(* C03 progress, part 1: the position of a resume point in document order, and find_earlier_page_break never
   moves the break to or before the point where the page started. *)
From Coq Require Import ZArith List Bool Lia Arith.
Require Import WV.model.Frag2 WV.proofs.C01_defs WV.proofs.C01_lines WV.proofs.C01_blocks.
Import ListNotations.
Open Scope nat_scope.

(* ---- size of a document: one unit per box (line boxes containers included) and one per line ---- *)
Fixpoint bsize (b : box) : nat :=
  match b with
  | Lines ids => S (length ids)
  | Blk _ kids _ => S ((fix go (l : list box) : nat := match l with [] => 0 | k :: r => bsize k + go r end) kids)
  end.
Fixpoint bsize_l (l : list box) : nat := match l with [] => 0 | k :: r => bsize k + bsize_l r end.
Lemma bsize_blk st kids r : bsize (Blk st kids r) = S (bsize_l kids).
Proof. reflexivity. Qed.

(* ---- position of a resume point: number of units that lie before it in document order ---- *)
Fixpoint pos_kids (ps : box -> option skip -> nat) (l : list box) (n : nat) (sub : option skip) : nat :=
  match l with
  | [] => 0
  | k :: r => match n with O => ps k sub | S n' => bsize k + pos_kids ps r n' sub end
  end.
Fixpoint pos (b : box) (sk : option skip) {struct b} : nat :=
  match b with
  | Lines _ => match sk with Some (SLine k) => k | _ => 0 end
  | Blk _ kids _ =>
      match sk with
      | Some (SChild i sub) =>
          (fix go (l : list box) (n : nat) : nat :=
             match l with
             | [] => 0
             | k :: r => match n with O => pos k sub | S n' => bsize k + go r n' end
             end) kids i
      | _ => 0
      end
  end.
Lemma pos_child st kids r i sub : pos (Blk st kids r) (Some (SChild i sub)) = pos_kids pos kids i sub.
Proof. simpl. revert i. induction kids as [|k l IH]; intros [|i]; simpl; auto. Qed.
Lemma pos_none b : pos b None = 0.
Proof. destruct b; reflexivity. Qed.
Lemma pos_lines ids sk : pos (Lines ids) sk = start_line sk.
Proof. reflexivity. Qed.

Lemma pos_kids_lt_size kids : Forall (fun k => forall sk, wf_skip k sk -> pos k sk < bsize k) kids ->
  forall i sub, wf_skip_kids kids i sub -> pos_kids pos kids i sub < bsize_l kids.
Proof.
  induction 1 as [|k l Hk Hl IH]; intros [|i] sub Hw; simpl in *; try contradiction.
  - specialize (Hk _ Hw). lia.
  - specialize (IH _ _ Hw). lia.
Qed.

(* a valid resume point lies strictly inside the document *)
Lemma pos_lt_bsize : forall b sk, wf_skip b sk -> pos b sk < bsize b.
Proof.
  induction b as [ids|st kids r IH] using box_ind'; intros sk Hw.
  - destruct sk as [[k|i sub]|]; simpl in *; try contradiction; lia.
  - rewrite bsize_blk. destruct sk as [[k|i sub]|]; try (simpl in Hw; contradiction); [|simpl; lia].
    rewrite pos_child. rewrite wf_skip_child in Hw. pose proof (pos_kids_lt_size kids IH i sub Hw). lia.
Qed.

Lemma pos_kids_nth kids : forall i sub kid, nth_error kids i = Some kid ->
  pos_kids pos kids i sub = pos_kids pos kids i None + pos kid sub.
Proof.
  induction kids as [|k l IH]; intros [|i] sub kid H; simpl in *; try discriminate.
  - inversion H; subst. now rewrite pos_none.
  - rewrite (IH _ sub _ H). lia.
Qed.
Lemma pos_kids_idx_le kids : forall i i' x, i <= i' -> pos_kids pos kids i None <= pos_kids pos kids i' x.
Proof.
  induction kids as [|k l IH]; intros [|i] [|i'] x H; simpl; try lia.
  - rewrite pos_none. lia.
  - rewrite pos_none. lia.
  - specialize (IH i i' x ltac:(lia)). lia.
Qed.
(* a later child is a later position *)
Lemma pos_kids_idx_lt kids : forall i i' sub x kid, nth_error kids i = Some kid -> wf_skip kid sub -> i < i' ->
  pos_kids pos kids i sub < pos_kids pos kids i' x.
Proof.
  induction kids as [|k l IH]; intros [|i] [|i'] sub x kid H Hw Hlt; simpl in *; try discriminate; try lia.
  - inversion H; subst. pose proof (pos_lt_bsize _ _ Hw). lia.
  - specialize (IH i i' sub x kid H Hw ltac:(lia)). lia.
Qed.
(* the same child, a later position inside it *)
Lemma pos_kids_sub_lt kids i sub sub' kid : nth_error kids i = Some kid -> pos kid sub < pos kid sub' ->
  pos_kids pos kids i sub < pos_kids pos kids i sub'.
Proof. intros H Hlt. rewrite (pos_kids_nth _ _ sub _ H), (pos_kids_nth _ _ sub' _ H). lia. Qed.

Lemma pos_blk_decode st kids r sk : wf_skip (Blk st kids r) sk ->
  pos (Blk st kids r) sk = pos_kids pos kids (skip_idx sk) (skip_sub sk).
Proof.
  destruct sk as [[k|i sub]|]; intros H; try (simpl in H; contradiction).
  - now rewrite pos_child.
  - cbn [skip_idx skip_sub]. destruct kids; simpl; [reflexivity|now rewrite pos_none].
Qed.

(* ---- the lexicographic order on skip stacks, and its agreement with [pos] ---- *)
(* [later b sk sk']: sk' is strictly later than sk in the document order of b (compare the child index, then
   recursively the position inside that child; inside a paragraph compare the line number) *)
Fixpoint later (b : box) (sk sk' : option skip) {struct b} : Prop :=
  match b with
  | Lines _ => start_line sk < start_line sk'
  | Blk _ kids _ =>
      skip_idx sk < skip_idx sk' \/
      (skip_idx sk = skip_idx sk' /\
       (fix go (l : list box) (n : nat) : Prop :=
          match l with
          | [] => False
          | k :: r => match n with O => later k (skip_sub sk) (skip_sub sk') | S n' => go r n' end
          end) kids (skip_idx sk))
  end.
Fixpoint later_kids (l : list box) (n : nat) (s s' : option skip) : Prop :=
  match l with
  | [] => False
  | k :: r => match n with O => later k s s' | S n' => later_kids r n' s s' end
  end.
Lemma later_blk st kids r sk sk' :
  later (Blk st kids r) sk sk' =
  (skip_idx sk < skip_idx sk' \/ (skip_idx sk = skip_idx sk' /\ later_kids kids (skip_idx sk) (skip_sub sk) (skip_sub sk'))).
Proof.
  simpl. f_equal. f_equal. generalize (skip_idx sk). induction kids as [|k l IH]; intros [|n]; simpl; auto.
Qed.
Lemma later_kids_nth kids : forall i s s' kid, nth_error kids i = Some kid -> later_kids kids i s s' = later kid s s'.
Proof. induction kids as [|k l IH]; intros [|i] s s' kid H; simpl in *; try discriminate; [now inversion H|eauto]. Qed.

Lemma wf_skip_blk' st kids r sk : wf_skip (Blk st kids r) sk ->
  (sk = None \/ exists sub, sk = Some (SChild (skip_idx sk) sub)) /\
  (kids = [] /\ sk = None \/ exists kid, nth_error kids (skip_idx sk) = Some kid /\ wf_skip kid (skip_sub sk)).
Proof.
  destruct sk as [[k|i sub]|]; intros H; try (simpl in H; contradiction).
  - rewrite wf_skip_child in H. destruct (wf_skip_kids_inv _ _ _ H) as (kid & H1 & H2).
    split; [right; eexists; reflexivity|]. right. exists kid. auto.
  - split; [now left|]. destruct kids as [|k l]; [now left|]. right. exists k. split; [reflexivity|apply wf_skip_none].
Qed.

(* for valid resume points: strictly later in the lexicographic document order <-> strictly larger position *)
Theorem later_iff_pos : forall b sk sk', wf_skip b sk -> wf_skip b sk' -> (later b sk sk' <-> pos b sk < pos b sk').
Proof.
  induction b as [ids|st kids r IH] using box_ind'; intros sk sk' Hw Hw'.
  - reflexivity.
  - rewrite later_blk, (pos_blk_decode _ _ _ _ Hw), (pos_blk_decode _ _ _ _ Hw').
    destruct (wf_skip_blk' _ _ _ _ Hw) as [_ [[-> ->]|(kid & Hk & Hwk)]].
    + destruct (wf_skip_blk' _ _ _ _ Hw') as [_ [[_ ->]|(kid' & Hk' & _)]].
      * simpl. split; [intros [X|[_ []]]; lia|lia].
      * destruct (skip_idx sk'); discriminate Hk'.
    + destruct (wf_skip_blk' _ _ _ _ Hw') as [_ [[-> ->]|(kid' & Hk' & Hwk')]]; [destruct (skip_idx sk); discriminate Hk|].
      destruct (lt_eq_lt_dec (skip_idx sk) (skip_idx sk')) as [[Hlt|Heq]|Hgt].
      * split; [intros _|now left]. eapply pos_kids_idx_lt; eassumption.
      * rewrite <- Heq in *. assert (kid' = kid) by congruence. subst kid'.
        rewrite (later_kids_nth _ _ _ _ _ Hk), (pos_kids_nth _ _ (skip_sub sk) _ Hk), (pos_kids_nth _ _ (skip_sub sk') _ Hk).
        pose proof (Forall_nth _ _ _ _ IH Hk _ _ Hwk Hwk') as Hiff.
        split.
        -- intros [X|[_ X]]; [lia|]. apply Hiff in X. lia.
        -- intros X. right. split; [reflexivity|]. apply Hiff. lia.
      * pose proof (pos_kids_idx_lt kids _ _ _ (skip_sub sk) _ Hk' Hwk' Hgt). split; [intros [X|[X _]]; lia|lia].
Qed.

(* ---- find_earlier_page_break: the new break is strictly after the point where the fragment started ---- *)
Definition FL (b : box) : Prop :=
  forall sk f kept res, wf_box b = true -> wf_skip b sk -> cinv b sk f ->
    find_earlier_f f = Some (kept, res) -> pos b sk < pos b (Some res).

Lemma fe_go_later kids : Forall FL kids -> forallb wf_box kids = true ->
  forall fk i0 sub0 kept res, covers kids i0 sub0 fk ->
    fe_go find_earlier_f fk = Some (kept, res) ->
    exists jj x, res = SChild jj x /\ pos_kids pos kids i0 sub0 < pos_kids pos kids jj x.
Proof.
  intros HFL Hwfk. induction fk as [|ch rest IH]; intros i0 sub0 kept res Hcov Hgo; [discriminate|].
  simpl in Hgo.
  destruct (Hcov 0 ch eq_refl) as (kid & Hk & Hidx & Hwf & Hc). rewrite Nat.add_0_r in Hk, Hidx. simpl in Hwf, Hc.
  pose proof (covers_tail _ _ _ _ _ Hcov) as Hcov'.
  destruct (fe_go find_earlier_f rest) as [[kept' res']|] eqn:Erest.
  - injection Hgo as <- <-. destruct (IH _ _ _ _ Hcov' eq_refl) as (jj & x & -> & Hlt).
    exists jj, x. split; [reflexivity|].
    pose proof (pos_kids_idx_lt kids i0 (S i0) sub0 None kid Hk Hwf ltac:(lia)). lia.
  - assert (Hinside : forall kept res,
      (if negb (avoid (frag_st_bi ch)) then
         match find_earlier_f ch with
         | Some (ngc, res) => Some ([set_kids ch ngc], SChild (frag_index ch) (Some res))
         | None => None end
       else None) = Some (kept, res) ->
      exists jj x, res = SChild jj x /\ pos_kids pos kids i0 sub0 < pos_kids pos kids jj x).
    { intros kept0 res0 Hin. destruct (negb (avoid (frag_st_bi ch))); [|discriminate].
      destruct (find_earlier_f ch) as [[ngc res1]|] eqn:Efe; [|discriminate]. injection Hin as <- <-.
      pose proof (Forall_nth _ _ _ _ HFL Hk) as HFLk.
      pose proof (HFLk _ _ _ _ (forallb_nth _ _ _ _ Hwfk Hk) Hwf Hc Efe) as Hlt.
      exists i0, (Some res1). rewrite Hidx. split; [reflexivity|]. eapply pos_kids_sub_lt; eassumption. }
    destruct rest as [|p rest'].
    + apply Hinside in Hgo. exact Hgo.
    + match type of Hgo with (if ?cnd then _ else _) = _ => destruct cnd end.
      * injection Hgo as <- <-.
        destruct (Hcov 1 p eq_refl) as (kidp & Hkp & Hidxp & _ & _).
        exists (S i0), None. rewrite Hidxp. replace (i0 + 1) with (S i0) in * by lia. split; [reflexivity|].
        eapply pos_kids_idx_lt; [eassumption|eassumption|lia].
      * apply Hinside in Hgo. exact Hgo.
Qed.

Theorem find_earlier_later : forall b, FL b.
Proof.
  induction b as [ids|st kids r IH] using box_ind'; intros sk f kept res Hwfb Hwfs Hc Hfe.
  - inversion Hc.
  - rewrite (pos_blk_decode _ _ _ _ Hwfs).
    rewrite wf_box_blk in Hwfb. apply andb_prop in Hwfb. destruct Hwfb as [Hwfb Hwfk].
    apply andb_prop in Hwfb. destruct Hwfb as [Hwfb _]. apply andb_prop in Hwfb. destruct Hwfb as [Ho Hw].
    apply Nat.leb_le in Ho. apply Nat.leb_le in Hw.
    inversion Hc as [st0 ids r0 sk0 st' i y mt mb pt pb bt bb h fk Hi Hok Hlen
                    |st0 kids0 r0 sk0 st' i y mt mb pt pb bt bb h fk Hb Hcov Hlen Hwd]; subst.
    + (* a paragraph: at least [orphans] >= 1 lines stay *)
      simpl in Hfe.
      destruct fk as [|[wid ly lh lr lo lw|] fk'] eqn:Efk; try discriminate; [|contradiction].
      simpl in Hok. destruct Hok as (Hn & Hr & -> & -> & Hrest).
      set (fk0 := FLine wid ly lh lr (s_orphans st) (s_widows st) :: fk') in *.
      assert (Hok : lines_ok ids (s_orphans st) (s_widows st) (start_line (skip_sub sk)) fk0)
        by (simpl; repeat split; auto).
      change (length (FLine wid ly lh lr (s_orphans st) (s_widows st) :: fk')) with (length fk0) in *.
      destruct ((length fk0 <? s_widows st) || (length fk0 - s_widows st <? s_orphans st)) eqn:Econd; [discriminate|].
      apply orb_false_elim in Econd. destruct Econd as [E1 E2]. apply Nat.ltb_ge in E1. apply Nat.ltb_ge in E2.
      set (idx := length fk0 - s_widows st) in *.
      injection Hfe as <- <-.
      set (k0 := start_line (skip_sub sk)) in *.
      assert (Hkeep : lines_ok ids (s_orphans st) (s_widows st) k0 (firstn idx fk0)) by now apply lines_ok_firstn.
      assert (Hlk : length (firstn idx fk0) = idx) by (rewrite firstn_length; lia).
      assert (Hne : firstn idx fk0 <> []) by (intro X; rewrite X in Hlk; simpl in Hlk; lia).
      rewrite (lines_ok_last_resume _ _ _ _ _ Hkeep Hne), Hlk.
      assert (Hlt : k0 + idx < length ids) by lia.
      apply Nat.ltb_lt in Hlt. rewrite Hlt. rewrite pos_child, Hi. simpl. change (k0 < k0 + idx). lia.
    + (* block children *)
      assert (Hgo : fe_go find_earlier_f fk = Some (kept, res)).
      { simpl in Hfe. destruct fk as [|f0 fk']; [exact Hfe|].
        destruct (Hcov 0 f0 eq_refl) as (kid & _ & _ & _ & Hc0).
        destruct (cinv_is_fblk _ _ _ Hc0) as (st1 & i1 & y1 & mt1 & mb1 & pt1 & pb1 & bt1 & bb1 & h1 & fk1 & ->).
        exact Hfe. }
      destruct (fe_go_later kids IH Hwfk fk (skip_idx sk) (skip_sub sk) kept res Hcov Hgo) as (jj & x & -> & Hlt).
      now rewrite pos_child.
Qed.
Print Assumptions find_earlier_later.
