(* C13 - the used size computed by inline_replaced_box_width_height is the one of CSS 2.1 10.3.2 / 10.6.2 / 10.4. *)
From Coq Require Import QArith Qminmax Lqa List Bool Setoid Morphisms.
Require Import WV.model.C13Replaced WV.model.C13Spec WV.proofs.C13_base WV.proofs.C13_minmax.
Open Scope Q_scope.

Lemma rbw_raw_some bh i fill minh maxh w : rbw_raw bh i fill minh maxh (Some w) = Some w.
Proof. unfold rbw_raw. destruct bh; reflexivity. Qed.

Lemma rbh_raw_some bw i h : rbh_raw bw i (Some h) = Some h.
Proof. reflexivity. Qed.

Lemma hmm_fixed f start mn mx :
  (forall m, f (Some m) = Some m) ->
  handle_min_max f start mn mx = bind (f start) (fun w => Some (clamp w mn mx)).
Proof.
  intro Hf. unfold handle_min_max, clamp. destruct (f start) as [w1|]; [|reflexivity]. cbn [bind].
  destruct mx as [m|]; cbn [gt_inf].
  - destruct (Qltb m w1); rewrite ?Hf; cbn [bind]; destruct (Qltb _ mn); rewrite ?Hf; reflexivity.
  - cbn [bind]. destruct (Qltb w1 mn); rewrite ?Hf; reflexivity.
Qed.

Lemma clamp_css x mn mx : clamp x mn mx == css_clamp x mn (qmax_inf mn mx).
Proof.
  unfold clamp, css_clamp, qmax_inf, gt_inf. destruct mx as [m|]; breakb; minmax; lra.
Qed.

Lemma used_height_css h mn mx : Qmax mn (qmin_inf h mx) == css_clamp h mn (qmax_inf mn mx).
Proof.
  unfold css_clamp, qmax_inf, qmin_inf. destruct mx as [m|]; minmax; lra.
Qed.

Lemma clamp_swap x mn mx : Qmax mn (qmin_inf x mx) == css_clamp x mn mx.
Proof. unfold css_clamp, qmin_inf. destruct mx; apply Q.max_comm. Qed.

(* the table relation respects == on the tentative height *)
Lemma table_10_4_h_compat w h h' minw minh MW MH rw rh :
  h == h' -> table_10_4 w h minw minh MW MH rw rh -> table_10_4 w h' minw minh MW MH rw rh.
Proof.
  intros E T.
  assert (Eq1 : forall a, a * h / w == a * h' / w) by (intro; now rewrite E).
  assert (Eq2 : forall a, a * w / h == a * w / h') by (intro; now rewrite E).
  assert (Eq3 : forall a, a / h == a / h') by (intro; now rewrite E).
  assert (Li : le_inf h MH -> le_inf h' MH) by (destruct MH; cbn; [lra | trivial]).
  assert (Qi : forall a M, qmin_inf (a * h / w) M == qmin_inf (a * h' / w) M)
    by (intros a M; destruct M; cbn; [now rewrite Eq1 | apply Eq1]).
  assert (Qj : forall a M, qmin_inf (a * w / h) M == qmin_inf (a * w / h') M)
    by (intros a M; destruct M; cbn; [now rewrite Eq2 | apply Eq2]).
  destruct T.
  - eapply row_none; eauto; lra.
  - eapply row_wmax; eauto; try lra. now rewrite <- Eq1.
  - eapply row_wmin; eauto; try lra. now rewrite <- Qi.
  - eapply row_hmax; eauto; try lra. now rewrite <- Eq2.
  - eapply row_hmin; eauto; try lra. now rewrite <- Qj.
  - eapply row_wmax_hmax_1; eauto; try lra. now rewrite <- Eq3. now rewrite <- Eq1.
  - eapply row_wmax_hmax_2; eauto; try lra. now rewrite <- Eq3. now rewrite <- Eq2.
  - eapply row_wmin_hmin_1; eauto; try lra. now rewrite <- Eq3. now rewrite <- Qj.
  - eapply row_wmin_hmin_2; eauto; try lra. now rewrite <- Eq3. now rewrite <- Qi.
  - eapply row_wmin_hmax; eauto; lra.
  - eapply row_wmax_hmin; eauto; lra.
Qed.

Definition fill_ok (i : intr) (fill : Q) : Prop :=
  iw i = None -> ih i = None -> ir i <> None -> 0 < fill.

Lemma truthy_pos r : 0 < r -> truthy (Some r) = true.
Proof. intro H. unfold truthy. breakb; [lra | reflexivity]. Qed.

Lemma rbh_raw_ratio w i r : ir i = Some r -> 0 < r -> rbh_raw (Some w) i None = Some (w / r).
Proof.
  intros E Hr. unfold rbh_raw, rbh_raw_hv, rbh_step1. rewrite E, (truthy_pos r Hr), (qdiv_pos w r Hr). reflexivity.
Qed.
Lemma rbh_raw_noratio w i :
  ir i = None -> rbh_raw (Some w) i None = Some (match ih i with Some h => h | None => 150 end).
Proof.
  intros E. unfold rbh_raw, rbh_raw_hv, rbh_step1, rbh_step2. rewrite E. cbn. destruct (ih i); reflexivity.
Qed.
Lemma rbw_raw_both_auto i fill minh maxh :
  rbw_raw None i fill minh maxh None = Some (css_width None None i 0 fill).
Proof. destruct i as [[?|] [?|] [?|]]; reflexivity. Qed.
Lemma rbw_raw_height i fill minh maxh h :
  rbw_raw (Some h) i fill minh maxh None = Some (css_width None (Some h) i (Qmax minh (qmin_inf h maxh)) fill).
Proof. destruct i as [[?|] [?|] [?|]]; reflexivity. Qed.

Lemma css_clamp_compat x y mn mx : x == y -> css_clamp x mn mx == css_clamp y mn mx.
Proof. intro E. unfold css_clamp. destruct mx; now rewrite E. Qed.
Lemma css_width_compat cw ch i u u' fill : u == u' -> css_width cw ch i u fill == css_width cw ch i u' fill.
Proof.
  intro E. unfold css_width. destruct cw, ch, (iw i), (ih i), (ir i); try reflexivity; now rewrite E.
Qed.
Lemma css_height_compat cw ch i u u' : u == u' -> css_height cw ch i u == css_height cw ch i u'.
Proof.
  intro E. unfold css_height. destruct cw, ch, (ih i), (ir i); try reflexivity; now rewrite E.
Qed.

Theorem used_size_css21 cw ch i cbw hsum minw minh maxw maxh :
  let fill := fill_width cbw hsum minw maxw in
  wf i -> (cw = None -> ch = None -> fill_ok i fill) ->
  exists w h, inline_wh cw ch i cbw hsum minw minh maxw maxh = Some (w, h) /\
              css_used_size cw ch i fill minw minh maxw maxh w h.
Proof.
  intros fill [Pw [Ph [Pr Cons]]] Hfill.
  unfold inline_wh, rbw, rbh.
  rewrite (hmm_fixed (rbw_raw ch _ _ minh maxh)) by (intro; apply rbw_raw_some).
  fold fill.
  destruct cw as [w|], ch as [h|]; cbn [is_none andb].
  - (* both specified *)
    rewrite rbw_raw_some. cbn [bind].
    rewrite hmm_fixed by (intro; apply rbh_raw_some). rewrite rbh_raw_some. cbn [bind].
    eexists; eexists; split; [reflexivity|]. cbn. split; apply clamp_css.
  - (* width specified, height auto *)
    rewrite rbw_raw_some. cbn [bind].
    rewrite hmm_fixed by (intro; apply rbh_raw_some).
    destruct (ir i) as [r|] eqn:Er.
    + rewrite (rbh_raw_ratio _ i r Er Pr). cbn [bind].
      eexists; eexists; split; [reflexivity|]. unfold css_used_size. cbn [css_width].
      split; [apply clamp_css|]. rewrite clamp_css. apply css_clamp_compat.
      unfold css_height. rewrite Er. destruct (ih i); apply Qdiv_comp; try reflexivity; apply clamp_css.
    + rewrite (rbh_raw_noratio _ i Er). cbn [bind].
      eexists; eexists; split; [reflexivity|]. unfold css_used_size. cbn [css_width].
      split; [apply clamp_css|]. rewrite clamp_css. apply css_clamp_compat.
      unfold css_height. rewrite Er. destruct (ih i); reflexivity.
  - (* height specified, width auto *)
    rewrite rbw_raw_height. cbn [bind].
    rewrite hmm_fixed by (intro; apply rbh_raw_some). rewrite rbh_raw_some. cbn [bind].
    eexists; eexists; split; [reflexivity|].
    assert (G : forall X, X = css_used_size None (Some h) i fill minw minh maxw maxh -> X (clamp (css_width None (Some h) i (Qmax minh (qmin_inf h maxh)) fill) minw maxw) (clamp h minh maxh)).
    { intros X ->. unfold css_used_size. cbn [css_height].
      split; [|apply clamp_css]. rewrite clamp_css. apply css_clamp_compat. apply css_width_compat. apply used_height_css. }
    apply G. reflexivity.
  - (* both auto *)
    rewrite rbw_raw_both_auto. cbn [bind].
    set (w0 := css_width None None i 0 fill).
    specialize (Hfill eq_refl eq_refl).
    destruct (ir i) as [r|] eqn:Er.
    + assert (Hr : 0 < r) by exact Pr.
      rewrite (rbh_raw_ratio _ i r Er Pr). cbn [bind].
      assert (Hw0 : 0 < w0).
      { unfold w0, css_width, opos, fill_ok, consistent in *. rewrite Er in *.
        destruct (iw i) as [wi|], (ih i) as [hi|]; try assumption.
        - apply Qmult_lt_0_compat; assumption.
        - apply Hfill; congruence. }
      assert (Hh0 : 0 < w0 / r) by (apply Qlt_shift_div_l; lra).
      assert (Eh : w0 / r == css_height None None i w0).
      { unfold css_height, w0, css_width, consistent in *. rewrite Er in *.
        destruct (iw i) as [wi|], (ih i) as [hi|]; try reflexivity.
        - rewrite Cons. field. lra.
        - field. lra. }
      exists (fst (mmar (Some r) w0 (w0 / r) minw minh maxw maxh)), (snd (mmar (Some r) w0 (w0 / r) minw minh maxw maxh)).
      split; [now rewrite <- surjective_pairing|].
      unfold css_used_size. rewrite Er. fold w0.
      apply (table_10_4_h_compat _ _ _ _ _ _ _ _ _ Eh).
      apply minmax_table_total; assumption.
    + rewrite (rbh_raw_noratio _ i Er). cbn [bind mmar].
      eexists; eexists; split; [reflexivity|].
      unfold css_used_size. rewrite Er. fold w0.
      split; [apply clamp_swap|]. rewrite clamp_swap. apply css_clamp_compat.
      unfold css_height. rewrite Er. destruct (ih i); reflexivity.
Qed.

Example used_size_hyps_satisfiable :
  wf (Intr (Some 40) (Some 20) (Some 2)) /\ fill_ok (Intr (Some 40) (Some 20) (Some 2)) 0 /\
  inline_wh None None (Intr (Some 40) (Some 20) (Some 2)) 200 0 0 0 (Some 10) None = Some (10, Qmax (10 * (40 / 2) / 40) 0).
Proof.
  split; [|split]; [| intros H; discriminate | reflexivity].
  unfold wf, opos, consistent; cbn. repeat split; reflexivity.
Qed.

(* ---- corollaries *)
Lemma table_no_violation w h minw minh MW MH rw rh :
  table_10_4 w h minw minh MW MH rw rh ->
  minw <= w -> le_inf w MW -> minh <= h -> le_inf h MH -> rw == w /\ rh == h.
Proof.
  intros T A B C D. destruct T; subst; cbn [le_inf] in *; try (exfalso; lra). split; assumption.
Qed.

Lemma css_clamp_id x mn mx : mn <= x -> le_inf x mx -> css_clamp x mn mx == x.
Proof. intros A B. unfold css_clamp. destruct mx; cbn in B; minmax; lra. Qed.

(* intrinsic size by default: both auto, intrinsic width and height within the min/max bounds *)
Theorem intrinsic_by_default w h r cbw hsum minw minh maxw maxh :
  0 < h -> 0 < r -> w == h * r ->
  minw <= w -> le_inf w (qmax_inf minw maxw) -> minh <= h -> le_inf h (qmax_inf minh maxh) ->
  exists w' h', inline_wh None None (Intr (Some w) (Some h) (Some r)) cbw hsum minw minh maxw maxh = Some (w', h')
                /\ w' == w /\ h' == h.
Proof.
  intros Hh Hr E A B C D.
  assert (Hw : 0 < w) by (rewrite E; apply Qmult_lt_0_compat; assumption).
  destruct (used_size_css21 None None (Intr (Some w) (Some h) (Some r)) cbw hsum minw minh maxw maxh)
    as [w' [h' [Em S]]].
  - unfold wf, opos, consistent; cbn. auto.
  - intros _ _ H; discriminate.
  - exists w', h'. split; [exact Em|]. cbn in S. eapply table_no_violation; eauto.
Qed.

(* the ratio is preserved when exactly one dimension is auto (and min/max do not clamp the computed one) *)
Theorem ratio_preserved_height_auto w i r cbw hsum minw minh maxw maxh :
  wf i -> ir i = Some r ->
  exists w' h', inline_wh (Some w) None i cbw hsum minw minh maxw maxh = Some (w', h') /\
    w' == css_clamp w minw (qmax_inf minw maxw) /\
    (minh <= w' / r -> le_inf (w' / r) (qmax_inf minh maxh) -> w' == h' * r).
Proof.
  intros W Er.
  destruct (used_size_css21 (Some w) None i cbw hsum minw minh maxw maxh W) as [w' [h' [Em S]]].
  - intros H; discriminate.
  - destruct W as [_ [_ [Pr _]]]. rewrite Er in Pr. cbn in Pr.
    exists w', h'. split; [exact Em|]. unfold css_used_size in S. cbn [css_width] in S. destruct S as [Sw Sh].
    split; [exact Sw|]. intros A B.
    assert (Eh : css_height (Some w) None i (css_clamp w minw (qmax_inf minw maxw)) == w' / r).
    { unfold css_height. rewrite Er. destruct (ih i); rewrite Sw; reflexivity. }
    rewrite (css_clamp_compat _ _ _ _ Eh) in Sh.
    rewrite css_clamp_id in Sh by assumption. rewrite Sh. field. lra.
Qed.

Theorem ratio_preserved_width_auto h i r cbw hsum minw minh maxw maxh :
  wf i -> ir i = Some r ->
  exists w' h', inline_wh None (Some h) i cbw hsum minw minh maxw maxh = Some (w', h') /\
    h' == css_clamp h minh (qmax_inf minh maxh) /\
    (minw <= h' * r -> le_inf (h' * r) (qmax_inf minw maxw) -> w' == h' * r).
Proof.
  intros W Er.
  destruct (used_size_css21 None (Some h) i cbw hsum minw minh maxw maxh W) as [w' [h' [Em S]]].
  - intros _ H; discriminate.
  - exists w', h'. split; [exact Em|]. unfold css_used_size in S. cbn [css_height] in S. destruct S as [Sw Sh].
    split; [exact Sh|]. intros A B.
    assert (Ew : css_width None (Some h) i (css_clamp h minh (qmax_inf minh maxh)) (fill_width cbw hsum minw maxw)
                 == h' * r).
    { unfold css_width. rewrite Er. now rewrite Sh. }
    rewrite (css_clamp_compat _ _ _ _ Ew) in Sw. rewrite css_clamp_id in Sw by assumption. exact Sw.
Qed.

(* nothing known: 300 x 150, then min/max independently (the device-size clipping CSS 2.1 suggests is not done) *)
Theorem fallback_300x150 cbw hsum minw minh maxw maxh :
  exists w' h', inline_wh None None (Intr None None None) cbw hsum minw minh maxw maxh = Some (w', h') /\
    w' == css_clamp 300 minw (qmax_inf minw maxw) /\ h' == css_clamp 150 minh (qmax_inf minh maxh).
Proof.
  destruct (used_size_css21 None None (Intr None None None) cbw hsum minw minh maxw maxh) as [w' [h' [Em S]]].
  - unfold wf, opos, consistent; cbn. auto.
  - intros _ _ _ _ H. exfalso. apply H. reflexivity.
  - exists w', h'. split; [exact Em|]. exact S.
Qed.
Example fallback_example : inline_wh None None (Intr None None None) 500 0 0 0 None None = Some (Qmax 0 300, Qmax 0 150).
Proof. reflexivity. Qed.
