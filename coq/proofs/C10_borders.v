(* C10: border conflict resolution (model/C10Borders.v).  The fold performed by set_one_border over the contributors
   of an edge, in the order of the calls, stores a border that is maximal for the CSS 2.1 17.6.2 order and, among
   the maximal ones, the first offered (= the most specific origin: cell, row, row group, column, column group,
   table; then document order). *)
From Coq Require Import QArith Qminmax Lqa Lia List Bool Arith Sorting.Sorted.
Require Import WV.model.C10Distribute WV.model.C10Borders WV.proofs.C10_distribute.
Import ListNotations.
Open Scope Q_scope.

(* computed values: widths are not negative, and are 0 when the style is none or hidden (CSS 2.1 8.5.1) *)
Definition wf (b : border) : Prop :=
  0 <= b_width b /\ (b_style b = Snone \/ b_style b = Shidden -> b_width b == 0).

(* ---------------------------------------------------------------- the order on scores *)
Definition slt (a b : score) : Prop :=
  let '(h1, w1, s1) := a in let '(h2, w2, s2) := b in
  (h1 < h2)%nat \/ (h1 = h2 /\ (w1 < w2 \/ (w1 == w2 /\ (s1 < s2)%nat))).

Lemma score_lt_iff a b : score_lt a b = true <-> slt a b.
Proof.
  destruct a as [[h1 w1] s1], b as [[h2 w2] s2]. unfold score_lt, slt.
  rewrite orb_true_iff, andb_true_iff, orb_true_iff, andb_true_iff.
  rewrite !Nat.ltb_lt, Nat.eqb_eq, Qlt_bool_iff, Qeq_bool_iff. tauto.
Qed.
Definition sle (a b : score) : Prop := ~ slt b a.

Lemma slt_trans a b c : slt a b -> slt b c -> slt a c.
Proof.
  destruct a as [[h1 w1] s1], b as [[h2 w2] s2], c as [[h3 w3] s3]. unfold slt.
  intros [H|[-> [H|[H H']]]] [K|[<- [K|[K K']]]]; try (left; lia); right; split; try reflexivity.
  - left; lra. - left; lra. - left; lra. - right. split; [lra|lia].
Qed.
Lemma slt_irrefl a : ~ slt a a.
Proof. destruct a as [[h w] s]. unfold slt. intros [H|[_ [H|[_ H]]]]; try lia; lra. Qed.
Lemma sle_slt_trans a b c : sle a b -> slt b c -> slt a c.
Proof.
  destruct a as [[h1 w1] s1], b as [[h2 w2] s2], c as [[h3 w3] s3]. unfold sle, slt. intros N K.
  destruct (lt_eq_lt_dec h1 h2) as [[L|E]|G].
  - destruct K as [K|[<- _]]; left; lia.
  - subst h2. destruct K as [K|[<- K]]; [left; lia|]. right. split; [reflexivity|].
    destruct (Q_dec w1 w2) as [[L|G]|E].
    + destruct K as [K|[K _]]; left; lra.
    + exfalso. apply N. right. split; [reflexivity|]. left. exact G.
    + destruct K as [K|[K K']]; [left; lra|]. right. split; [lra|].
      destruct (le_lt_dec s1 s2); [lia|]. exfalso. apply N. right. split; [reflexivity|]. right. split; [lra|lia].
  - exfalso. apply N. left. exact G.
Qed.
Lemma slt_sle a b : slt a b -> sle a b.
Proof. intros H K. apply (slt_irrefl a). eapply slt_trans; eassumption. Qed.
Lemma sle_refl a : sle a a.
Proof. apply slt_irrefl. Qed.
Lemma sle_trans a b c : sle a b -> sle b c -> sle a c.
Proof. intros H K L. apply H. eapply sle_slt_trans; eassumption. Qed.

(* ---------------------------------------------------------------- the fold over contributors *)
Definition stored_of (b : border) : stored := (score_of b, mkb (style_map (b_style b)) (b_width b) (b_color b)).
Definition best (cur : stored) (cs : list border) : stored := fold_left step (map ESet cs) cur.

Lemma step_set cur b :
  step cur (ESet b) = if score_lt (fst cur) (score_of b) then stored_of b else cur.
Proof. reflexivity. Qed.

Lemma best_ge cs : forall cur, sle (fst cur) (fst (best cur cs)) /\ (forall c, In c cs -> sle (score_of c) (fst (best cur cs))).
Proof.
  induction cs as [|b cs IH]; intros cur; simpl.
  - split; [apply sle_refl|contradiction].
  - unfold best in *. cbn [map fold_left]. rewrite step_set.
    destruct (score_lt (fst cur) (score_of b)) eqn:E.
    + apply score_lt_iff in E. destruct (IH (stored_of b)) as [I1 I2]. simpl in I1. split.
      * eapply sle_trans; [apply slt_sle; exact E|exact I1].
      * intros c [<-|Hc]; [exact I1|now apply I2].
    + assert (N : sle (score_of b) (fst cur)) by (intro H; apply score_lt_iff in H; congruence).
      destruct (IH cur) as [I1 I2]. split; [exact I1|].
      intros c [<-|Hc]; [eapply sle_trans; eassumption|now apply I2].
Qed.

Lemma best_origin cs : forall cur,
  best cur cs = cur \/
  exists pre c post, cs = pre ++ c :: post /\ best cur cs = stored_of c /\
                     (forall p, In p pre -> slt (score_of p) (score_of c)) /\ slt (fst cur) (score_of c).
Proof.
  induction cs as [|b cs IH]; intros cur; [now left|].
  unfold best in *. cbn [map fold_left]. rewrite step_set.
  destruct (score_lt (fst cur) (score_of b)) eqn:E.
  - apply score_lt_iff in E. right. destruct (IH (stored_of b)) as [H|[pre [c [post [H1 [H2 [H3 H4]]]]]]].
    + exists [], b, cs. repeat split; auto. intros p [].
    + exists (b :: pre), c, post. simpl in H4. subst cs. repeat split; auto.
      * intros p [<-|Hp]; [exact H4|now apply H3].
      * eapply slt_trans; eassumption.
  - assert (N : sle (score_of b) (fst cur)) by (intro H; apply score_lt_iff in H; congruence).
    destruct (IH cur) as [H|[pre [c [post [H1 [H2 [H3 H4]]]]]]]; [now left|right].
    exists (b :: pre), c, post. subst cs. repeat split; auto.
    intros p [<-|Hp]; [eapply sle_slt_trans; eassumption|now apply H3].
Qed.

(* ---------------------------------------------------------------- CSS 2.1 17.6.2 and the score agree *)
Lemma score_of_eq a :
  score_of a = ((if is_hidden a then 1 else 0)%nat, b_width a, style_score (b_style a)).
Proof. unfold score_of, is_hidden. destruct (b_style a); reflexivity. Qed.

Lemma style_facts a : wf a ->
  (is_hidden a = true -> style_score (b_style a) = 9%nat /\ b_width a == 0) /\
  (is_bnone a = true -> style_score (b_style a) = 0%nat /\ b_width a == 0) /\
  (is_hidden a = false -> (style_score (b_style a) <= 8)%nat) /\
  (is_bnone a = false -> (1 <= style_score (b_style a))%nat) /\ 0 <= b_width a.
Proof.
  intros [W Z]. unfold is_hidden, is_bnone.
  destruct (b_style a); simpl; (split; [|split; [|split; [|split]]]); try exact W; intro H;
    try discriminate H; try lia; (split; [reflexivity|apply Z; auto]).
Qed.

Lemma css_ge_iff a b : wf a -> wf b -> (css_ge_b a b = true <-> sle (score_of b) (score_of a)).
Proof.
  intros Wa Wb. destruct (style_facts a Wa) as [A1 [A2 [A3 [A4 A5]]]]. destruct (style_facts b Wb) as [B1 [B2 [B3 [B4 B5]]]].
  unfold css_ge_b, sle. rewrite (score_of_eq a), (score_of_eq b).
  set (sa := style_score (b_style a)) in *. set (sb := style_score (b_style b)) in *.
  set (wa := b_width a) in *. set (wb := b_width b) in *. unfold slt.
  destruct (is_hidden a) eqn:Ha.
  - destruct (A1 eq_refl) as [Sa Za]. simpl. split; [intros _|reflexivity].
    destruct (is_hidden b) eqn:Hb.
    + destruct (B1 eq_refl) as [Sb Zb]. intros [K|[_ [K|[_ K]]]]; try lia; lra.
    + intros [K|[K _]]; lia.
  - simpl. destruct (is_hidden b) eqn:Hb.
    + simpl. split; [discriminate|]. intro H. exfalso. apply H. left. lia.
    + simpl. destruct (is_bnone b) eqn:Nb.
      * destruct (B2 eq_refl) as [Sb Zb]. simpl. split; [intros _|reflexivity].
        intros [K|[_ [K|[_ K]]]]; try lia; lra.
      * simpl. specialize (B4 eq_refl). destruct (is_bnone a) eqn:Na.
        -- destruct (A2 eq_refl) as [Sa Za]. simpl. split; [discriminate|]. intro H. exfalso. apply H.
           right. split; [reflexivity|]. destruct (Qlt_le_dec 0 wb); [left; lra|right; split; [lra|lia]].
        -- simpl. rewrite orb_true_iff, andb_true_iff, Qlt_bool_iff, Qeq_bool_iff, Nat.leb_le. split.
           ++ intros [H|[H1 H2]] [K|[_ [K|[K1 K2]]]]; try lia; lra.
           ++ intro H. destruct (Q_dec wa wb) as [[L|G]|E].
              ** exfalso. apply H. right. split; [reflexivity|]. left. exact L.
              ** left. exact G.
              ** right. split; [exact E|]. destruct (le_lt_dec sb sa) as [L|L]; [exact L|].
                 exfalso. apply H. right. split; [reflexivity|]. right. split; [exact E|exact L].
Qed.

(* ---------------------------------------------------------------- the property theorem *)
Definition null_border : border := mkb Snone 0 0%Z.
Definition map_border (c : border) : border := mkb (style_map (b_style c)) (b_width c) (b_color c).

Theorem border_conflict_winner (cs : list border) :
  Forall wf cs ->
  let r := snd (resolve_edge (map ESet cs)) in
  (* every contributor has style none: no border *)
  (Forall (fun c => b_style c = Snone) cs /\ r = null_border) \/
  (* otherwise the stored border is a contributor c (inset/outset drawn as ridge/groove) such that ... *)
  exists pre c post, cs = pre ++ c :: post /\ r = map_border c /\
    (forall x, In x cs -> css_ge_b c x = true) /\        (* c wins or ties against every contributor *)
    (forall p, In p pre -> css_ge_b p c = false).         (* and every contributor offered earlier loses to c *)
Proof.
  intros Hwf. cbv zeta. unfold resolve_edge. fold (best weak_null cs).
  rewrite Forall_forall in Hwf.
  destruct (best_origin cs weak_null) as [H|[pre [c [post [H1 [H2 [H3 H4]]]]]]].
  - left. split; [|rewrite H; reflexivity].
    apply Forall_forall. intros c Hc. destruct (best_ge cs weak_null) as [_ G]. specialize (G c Hc). rewrite H in G.
    destruct (Hwf c Hc) as [W Z]. simpl in G. unfold sle, slt, score_of in G.
    destruct (b_style c) eqn:S; try reflexivity; exfalso; apply G; simpl;
      try (left; lia); right; (split; [reflexivity|]);
      (destruct (Qlt_le_dec 0 (b_width c)); [left; assumption|right; split; [lra|lia]]).
  - right. exists pre, c, post. split; [exact H1|]. split; [rewrite H2; reflexivity|].
    assert (Wc : wf c) by (apply Hwf; rewrite H1; apply in_or_app; right; now left).
    split.
    + intros x Hx. apply css_ge_iff; [exact Wc|now apply Hwf|].
      destruct (best_ge cs weak_null) as [_ G]. specialize (G x Hx). rewrite H2 in G. exact G.
    + intros p Hp. assert (Wp : wf p) by (apply Hwf; rewrite H1; apply in_or_app; now left).
      destruct (css_ge_b p c) eqn:E; [|reflexivity]. exfalso.
      apply (css_ge_iff p c Wp Wc) in E. apply E. now apply H3.
Qed.

(* inside a cell that spans several rows or columns the edge is forced to a hidden border of width 0 and
   nothing offered afterwards can replace it *)
Lemma strong_null_stays evs :
  Forall wf (contributors evs) -> fold_left step evs strong_null = strong_null.
Proof.
  induction evs as [|e evs IH]; intros H; [reflexivity|]. simpl. destruct e as [|b].
  - apply IH. exact H.
  - simpl in H. inversion H as [|b' l [W Z] Hr]; subst. rewrite step_set.
    assert (E : score_lt (fst strong_null) (score_of b) = false).
    { destruct (score_lt (fst strong_null) (score_of b)) eqn:E; [|reflexivity]. exfalso.
      apply score_lt_iff in E. unfold strong_null, score_of, slt in E. simpl in E.
      destruct (b_style b) eqn:S; simpl in E; try (destruct E as [E|[E _]]; lia).
      specialize (Z (or_intror eq_refl)). destruct E as [E|[_ [E|[_ E]]]]; try lia; lra. }
    rewrite E. apply IH. exact Hr.
Qed.
Theorem inside_spanning_cell_no_border pre post :
  Forall wf (contributors post) -> resolve_edge (pre ++ EReset :: post) = strong_null.
Proof.
  intros H. unfold resolve_edge. rewrite fold_left_app. simpl. now apply strong_null_stays.
Qed.

(* events without a forced null are just the contributors *)
Lemma no_reset_events evs : has_reset evs = false -> evs = map ESet (contributors evs).
Proof.
  induction evs as [|e evs IH]; [reflexivity|]. simpl. destruct e; [discriminate|]. intro H. simpl. f_equal. now apply IH.
Qed.

(* the same statement on the grid of the model: any edge not inside a spanning cell *)
Theorem border_conflict_winner_on_grid (vertical rtl : bool) (gw : nat) (boxes : list tbox) (X Y : nat) :
  let evs := flat_map ((if vertical then vevents else hevents) rtl gw X Y) (call_order boxes) in
  let edge := (if vertical then vertical_edge else horizontal_edge) rtl gw boxes X Y in
  has_reset evs = false -> Forall wf (contributors evs) ->
  let cs := contributors evs in
  (Forall (fun c => b_style c = Snone) cs /\ snd edge = null_border) \/
  exists pre c post, cs = pre ++ c :: post /\ snd edge = map_border c /\
    (forall x, In x cs -> css_ge_b c x = true) /\ (forall p, In p pre -> css_ge_b p c = false).
Proof.
  cbv zeta. intros Hr Hwf.
  assert (E : (if vertical then vertical_edge else horizontal_edge) rtl gw boxes X Y
              = resolve_edge (map ESet (contributors (flat_map ((if vertical then vevents else hevents) rtl gw X Y) (call_order boxes))))).
  { rewrite <- (no_reset_events _ Hr). destruct vertical; reflexivity. }
  rewrite E. apply border_conflict_winner. exact Hwf.
Qed.

(* the contributors are offered by origin: cells, rows, row groups, columns, column groups, table *)
Lemma ss_app {A} (R : A -> A -> Prop) a b :
  StronglySorted R a -> StronglySorted R b -> (forall x y, In x a -> In y b -> R x y) -> StronglySorted R (a ++ b).
Proof.
  induction 1 as [|x a Ha IH Hx]; intros Hb Hab; simpl; [exact Hb|]. constructor.
  - apply IH; [exact Hb|]. intros u v Hu Hv. apply Hab; [now right|exact Hv].
  - apply Forall_app. split; [exact Hx|]. apply Forall_forall. intros y Hy. apply Hab; [now left|exact Hy].
Qed.
Lemma of_kind_rank k boxes x : In x (of_kind k boxes) -> kind_rank (tb_kind x) = kind_rank k.
Proof. unfold of_kind. intro H. apply filter_In in H. destruct H as [_ H]. now apply Nat.eqb_eq in H. Qed.
Lemma of_kind_sorted k boxes :
  StronglySorted (fun a b => (kind_rank (tb_kind a) <= kind_rank (tb_kind b))%nat) (of_kind k boxes).
Proof.
  assert (H : forall l, (forall x, In x l -> kind_rank (tb_kind x) = kind_rank k) ->
                        StronglySorted (fun a b => (kind_rank (tb_kind a) <= kind_rank (tb_kind b))%nat) l).
  { induction l as [|x l IH]; intros Hl; constructor.
    - apply IH. intros y Hy. apply Hl. now right.
    - apply Forall_forall. intros y Hy. rewrite (Hl x), (Hl y); [lia|now right|now left]. }
  apply H. apply of_kind_rank.
Qed.
Theorem call_order_by_origin boxes :
  StronglySorted (fun a b => (kind_rank (tb_kind a) <= kind_rank (tb_kind b))%nat) (call_order boxes).
Proof.
  unfold call_order.
  repeat (apply ss_app; [apply of_kind_sorted| |
    intros x y Hx Hy; apply of_kind_rank in Hx;
    repeat (apply in_app_or in Hy; destruct Hy as [Hy|Hy]; [apply of_kind_rank in Hy; rewrite Hx, Hy; simpl; lia|]);
    apply of_kind_rank in Hy; rewrite Hx, Hy; simpl; lia]).
  apply of_kind_sorted.
Qed.

(* ---------------------------------------------------------------- examples *)
Example winner_example :
  snd (resolve_edge (map ESet [mkb Ssolid 2 1%Z; mkb Sdashed 3 2%Z; mkb Sdouble 3 3%Z; mkb Sdouble 3 4%Z; mkb Sinset 1 5%Z]))
  = mkb Sdouble 3 3%Z.
Proof. reflexivity. Qed.
Example winner_hidden :
  snd (resolve_edge (map ESet [mkb Ssolid 2 1%Z; mkb Shidden 0 2%Z; mkb Sdouble 9 3%Z])) = mkb Shidden 0 2%Z.
Proof. reflexivity. Qed.
Example wf_example : Forall wf [mkb Ssolid 2 1%Z; mkb Shidden 0 2%Z; mkb Sdouble 9 3%Z; mkb Snone 0 7%Z].
Proof. repeat constructor; simpl; try lra; intros [H|H]; try discriminate; reflexivity. Qed.
