(* C10: distribute_excess_width (model/C10Distribute.v): the excess is entirely distributed whenever the slice
   is not empty, nothing shrinks, the function never divides by zero, and the per-group rules of css-tables-3. *)
From Coq Require Import QArith Qminmax Lqa Lia List Bool Arith.
Require Import WV.model.C10Distribute.
Import ListNotations.
Open Scope Q_scope.

(* ---------------------------------------------------------------- arithmetic helpers *)
Lemma Qlt_bool_iff a b : Qlt_bool a b = true <-> a < b.
Proof.
  unfold Qlt_bool. rewrite negb_true_iff. split; intro H.
  - apply Qnot_le_lt. intro L. apply Qle_bool_iff in L. congruence.
  - destruct (Qle_bool b a) eqn:E; [|reflexivity]. apply Qle_bool_iff in E. apply Qle_not_lt in E. contradiction.
Qed.

Lemma qsum_app a b : qsum (a ++ b) == qsum a + qsum b.
Proof. induction a as [|x a IH]; simpl; [ring|]. rewrite IH. ring. Qed.

Lemma qlen_cons {A} (x : A) l : qlen (x :: l) == 1 + qlen l.
Proof.
  unfold qlen. cbn [length]. rewrite Nat2Z.inj_succ. unfold Z.succ. rewrite inject_Z_plus. ring.
Qed.
Lemma qlen_nonneg {A} (l : list A) : 0 <= qlen l.
Proof. induction l as [|x l IH]; [unfold qlen, Qle; simpl; lia|]. rewrite qlen_cons. lra. Qed.
Lemma qlen_pos {A} (x : A) l : 0 < qlen (x :: l).
Proof. rewrite qlen_cons. pose proof (qlen_nonneg l). lra. Qed.

Lemma safe_div_inv a b r : safe_div a b = Some r -> ~ b == 0 /\ r = a / b.
Proof.
  unfold safe_div. destruct (Qeq_bool b 0) eqn:E; [discriminate|]. intro H. injection H as <-. split; [|reflexivity].
  intro Hb. apply Qeq_bool_iff in Hb. congruence.
Qed.
Lemma safe_div_some a b : ~ b == 0 -> safe_div a b = Some (a / b).
Proof.
  intro Hb. unfold safe_div. destruct (Qeq_bool b 0) eqn:E; [|reflexivity]. apply Qeq_bool_iff in E. contradiction.
Qed.

Lemma div_mul_cancel e s : ~ s == 0 -> (e / s) * s == e.
Proof. intro H. field. exact H. Qed.
Lemma div_nonneg e s : 0 <= e -> 0 < s -> 0 <= e / s.
Proof. intros He Hs. apply Qle_shift_div_l; [exact Hs|]. lra. Qed.

(* ---------------------------------------------------------------- sums of the two kinds of update *)
Lemma qsum_add_prop sel wt r cols :
  qsum (add_prop sel wt r cols) == qsum (map c_w cols) + r * qsum (map wt (filter sel cols)).
Proof.
  unfold add_prop. induction cols as [|c cols IH]; simpl; [ring|].
  destruct (sel c); simpl; rewrite IH; ring.
Qed.
Lemma qsum_add_equal sel s cols :
  qsum (add_equal sel s cols) == qsum (map c_w cols) + s * qlen (filter sel cols).
Proof.
  unfold add_equal. induction cols as [|c cols IH]; simpl; [unfold qlen; simpl; ring|].
  destruct (sel c); simpl; rewrite IH; [rewrite qlen_cons|]; ring.
Qed.

Lemma filter_sum_pos sel (wt : col -> Q) cols :
  (forall c, sel c = true -> 0 < wt c) -> existsb sel cols = true -> 0 < qsum (map wt (filter sel cols)).
Proof.
  intros Hw. induction cols as [|c cols IH]; simpl; [discriminate|].
  destruct (sel c) eqn:E; simpl.
  - intros _. assert (0 <= qsum (map wt (filter sel cols))).
    { clear IH. induction cols as [|d cols IH]; simpl; [lra|]. destruct (sel d) eqn:Ed; simpl; [|exact IH].
      pose proof (Hw d Ed). lra. }
    pose proof (Hw c E). lra.
  - exact IH.
Qed.
Lemma filter_len_pos sel (cols : list col) : existsb sel cols = true -> 0 < qlen (filter sel cols).
Proof.
  induction cols as [|c cols IH]; simpl; [discriminate|]. destruct (sel c); simpl; [intros _; apply qlen_pos|exact IH].
Qed.

Lemma g1_max_pos c : g1 c = true -> 0 < c_max c.
Proof. unfold g1. rewrite !andb_true_iff. intros [_ H]. now apply Qlt_bool_iff. Qed.
Lemma g3_max_pos c : g3 c = true -> 0 < c_max c.
Proof. unfold g3. rewrite !andb_true_iff. intros [_ H]. now apply Qlt_bool_iff. Qed.
Lemma g4_pct_pos c : g4 c = true -> 0 < c_pct c.
Proof. unfold g4. rewrite !andb_true_iff. intros [H _]. now apply Qlt_bool_iff. Qed.
Lemma g1_g2 c : g1 c = true -> g2 c = true.
Proof. unfold g1, g2. rewrite !andb_true_iff. tauto. Qed.

(* ---------------------------------------------------------------- the two group shapes *)
Lemma prop_group_ok sel wt e cols :
  (forall c, sel c = true -> 0 < wt c) -> existsb sel cols = true ->
  exists r, prop_group sel wt e cols = Some (add_prop sel wt r cols) /\
            r * qsum (map wt (filter sel cols)) == e /\ (0 <= e -> 0 <= r).
Proof.
  intros Hw Hex. pose proof (filter_sum_pos sel wt cols Hw Hex) as Hpos.
  exists (e / qsum (map wt (filter sel cols))). unfold prop_group.
  rewrite safe_div_some by lra. split; [reflexivity|]. split.
  - apply div_mul_cancel. lra.
  - intro He. now apply div_nonneg.
Qed.
Lemma equal_group_ok sel e cols :
  existsb sel cols = true ->
  exists s, equal_group sel e cols = Some (add_equal sel s cols) /\
            s * qlen (filter sel cols) == e /\ (0 <= e -> 0 <= s).
Proof.
  intros Hex. pose proof (filter_len_pos sel cols Hex) as Hpos.
  exists (e / qlen (filter sel cols)). unfold equal_group.
  rewrite safe_div_some by lra. split; [reflexivity|]. split.
  - apply div_mul_cancel. lra.
  - intro He. now apply div_nonneg.
Qed.

(* what the function does, in one statement: a selector [sel] (the group taken), a weight and a factor *)
Inductive outcome (e : Q) (cols : list col) (ws : list Q) : Prop :=
| Out_prop (sel : col -> bool) (wt : col -> Q) (r : Q) :
    ws = add_prop sel wt r cols -> (forall c, sel c = true -> 0 < wt c) ->
    r * qsum (map wt (filter sel cols)) == e -> (0 <= e -> 0 <= r) ->
    (sel = g1 /\ wt = c_max /\ group_taken cols = 1%nat \/
     sel = g3 /\ wt = c_max /\ group_taken cols = 3%nat \/
     sel = g4 /\ wt = c_pct /\ group_taken cols = 4%nat) -> outcome e cols ws
| Out_equal (sel : col -> bool) (s : Q) :
    ws = add_equal sel s cols ->
    s * qlen (filter sel cols) == e -> (0 <= e -> 0 <= s) ->
    (sel = g2 /\ group_taken cols = 2%nat \/ sel = g5 /\ group_taken cols = 5%nat \/
     sel = g6 /\ group_taken cols = 6%nat) -> outcome e cols ws
| Out_nothing : cols = [] -> ws = [] -> outcome e cols ws.

Lemma dist_outcome e cols : exists ws, dist e cols = Some ws /\ outcome e cols ws.
Proof.
  unfold dist, group_taken.
  destruct (existsb g1 cols) eqn:E1.
  { destruct (prop_group_ok g1 c_max e cols g1_max_pos E1) as [r [H1 [H2 H3]]].
    eexists; split; [exact H1|]. eapply Out_prop; eauto using g1_max_pos. unfold group_taken. rewrite E1. auto. }
  destruct (existsb g2 cols) eqn:E2.
  { destruct (equal_group_ok g2 e cols E2) as [s [H1 [H2 H3]]].
    eexists; split; [exact H1|]. eapply Out_equal; eauto. unfold group_taken. rewrite E1, E2. auto. }
  destruct (existsb g3 cols) eqn:E3.
  { destruct (prop_group_ok g3 c_max e cols g3_max_pos E3) as [r [H1 [H2 H3]]].
    eexists; split; [exact H1|]. eapply Out_prop; eauto using g3_max_pos. unfold group_taken. rewrite E1, E2, E3. auto. }
  destruct (existsb g4 cols) eqn:E4.
  { destruct (prop_group_ok g4 c_pct e cols g4_pct_pos E4) as [r [H1 [H2 H3]]].
    eexists; split; [exact H1|]. eapply Out_prop; eauto using g4_pct_pos. unfold group_taken. rewrite E1, E2, E3, E4. auto 6. }
  destruct (existsb g5 cols) eqn:E5.
  { destruct (equal_group_ok g5 e cols E5) as [s [H1 [H2 H3]]].
    eexists; split; [exact H1|]. eapply Out_equal; eauto. unfold group_taken. rewrite E1, E2, E3, E4, E5. auto. }
  destruct cols as [|c cols].
  { eexists; split; [reflexivity|]. now apply Out_nothing. }
  assert (E6 : existsb g6 (c :: cols) = true) by reflexivity.
  destruct (equal_group_ok g6 e (c :: cols) E6) as [s [H1 [H2 H3]]].
  eexists; split; [exact H1|]. eapply Out_equal; eauto. unfold group_taken. rewrite E1, E2, E3, E4, E5. auto.
Qed.

(* ---------------------------------------------------------------- theorems on [dist] *)
Theorem dist_never_raises e cols : exists ws, dist e cols = Some ws.
Proof. destruct (dist_outcome e cols) as [ws [H _]]. eauto. Qed.

Theorem dist_excess_is_distributed e cols ws :
  cols <> [] -> dist e cols = Some ws -> qsum ws == qsum (map c_w cols) + e.
Proof.
  intros Hne H. destruct (dist_outcome e cols) as [ws' [H' O]]. rewrite H in H'. injection H' as <-.
  destruct O as [sel wt r -> _ Hr _ _|sel s -> Hs _ _|Hc _]; [| |contradiction].
  - rewrite qsum_add_prop, Hr. reflexivity.
  - rewrite qsum_add_equal, Hs. reflexivity.
Qed.

Theorem dist_empty_slice_drops_excess e : dist e [] = Some [].
Proof. reflexivity. Qed.

Theorem dist_length e cols ws : dist e cols = Some ws -> length ws = length cols.
Proof.
  intros H. destruct (dist_outcome e cols) as [ws' [H' O]]. rewrite H in H'. injection H' as <-.
  destruct O as [sel wt r -> _ _ _ _|sel s -> _ _ _| -> -> ]; unfold add_prop, add_equal; now rewrite ?map_length.
Qed.

Lemma Forall2_map_r {A B} (P : A -> B -> Prop) (f : A -> B) l : (forall a, P a (f a)) -> Forall2 P l (map f l).
Proof. intro H. induction l; simpl; constructor; auto. Qed.

Theorem dist_widths_never_decrease e cols ws :
  0 <= e -> dist e cols = Some ws -> Forall2 (fun c w => c_w c <= w) cols ws.
Proof.
  intros He H. destruct (dist_outcome e cols) as [ws' [H' O]]. rewrite H in H'. injection H' as <-.
  destruct O as [sel wt r -> Hw _ Hr _|sel s -> _ Hs _| -> -> ]; [| |constructor].
  - apply Forall2_map_r. intro c. destruct (sel c) eqn:E; [|lra].
    pose proof (Hw c E). pose proof (Hr He). assert (0 <= wt c * r) by (apply Qmult_le_0_compat; lra). lra.
  - apply Forall2_map_r. intro c. destruct (sel c); [|lra]. pose proof (Hs He). lra.
Qed.

(* rule 1/2 of css-tables-3: when a non-constrained column without percentage exists in the slice, only such
   columns grow: constrained columns and percentage columns keep their width *)
Theorem dist_constrained_untouched_when_others_can_grow e cols ws :
  existsb g2 cols = true -> dist e cols = Some ws ->
  Forall2 (fun c w => g2 c = false -> w == c_w c) cols ws.
Proof.
  intros Hex H. destruct (dist_outcome e cols) as [ws' [H' O]]. rewrite H in H'. injection H' as <-.
  assert (T : group_taken cols = 1%nat \/ group_taken cols = 2%nat).
  { unfold group_taken. rewrite Hex. destruct (existsb g1 cols); auto. }
  destruct O as [sel wt r -> _ _ _ Hk|sel s -> _ _ Hk| -> -> ]; [| |constructor].
  - assert (sel = g1) as -> by (destruct Hk as [[? _]|[[_ [_ K]]|[_ [_ K]]]]; [assumption|lia|lia]).
    apply Forall2_map_r. intros c Hc. destruct (g1 c) eqn:E; [|reflexivity].
    apply g1_g2 in E. congruence.
  - assert (sel = g2) as -> by (destruct Hk as [[? _]|[[_ K]|[_ K]]]; [assumption|lia|lia]).
    apply Forall2_map_r. intros c Hc. rewrite Hc. reflexivity.
Qed.

(* rule 1: growth in proportion to the max-content widths, zero-width auto columns stay *)
Theorem dist_auto_columns_grow_in_proportion e cols ws :
  existsb g1 cols = true -> dist e cols = Some ws ->
  exists r, r * qsum (map c_max (filter g1 cols)) == e /\
            Forall2 (fun c w => w == if g1 c then c_w c + c_max c * r else c_w c) cols ws.
Proof.
  intros Hex H. unfold dist in H. rewrite Hex in H.
  destruct (prop_group_ok g1 c_max e cols g1_max_pos Hex) as [r [H1 [H2 _]]]. rewrite H1 in H. injection H as <-.
  exists r. split; [exact H2|]. apply Forall2_map_r. intro c. destruct (g1 c); reflexivity.
Qed.

(* rule 2: only zero-width auto columns: equal shares *)
Theorem dist_zero_width_auto_columns_share_equally e cols ws :
  existsb g1 cols = false -> existsb g2 cols = true -> dist e cols = Some ws ->
  exists s, s * qlen (filter g2 cols) == e /\
            Forall2 (fun c w => w == if g2 c then c_w c + s else c_w c) cols ws.
Proof.
  intros N1 Hex H. unfold dist in H. rewrite N1, Hex in H.
  destruct (equal_group_ok g2 e cols Hex) as [s [H1 [H2 _]]]. rewrite H1 in H. injection H as <-.
  exists s. split; [exact H2|]. apply Forall2_map_r. intro c. destruct (g2 c); reflexivity.
Qed.

(* rule 3: no auto column; constrained columns with content grow in proportion, percentage columns stay *)
Theorem dist_constrained_grow_before_percentages e cols ws :
  existsb g2 cols = false -> existsb g3 cols = true -> dist e cols = Some ws ->
  exists r, r * qsum (map c_max (filter g3 cols)) == e /\
            Forall2 (fun c w => w == if g3 c then c_w c + c_max c * r else c_w c) cols ws.
Proof.
  intros N2 Hex H. unfold dist in H.
  assert (N1 : existsb g1 cols = false).
  { destruct (existsb g1 cols) eqn:E; [|reflexivity]. apply existsb_exists in E. destruct E as [c [Hin Hc]].
    assert (existsb g2 cols = true) by (apply existsb_exists; exists c; split; [assumption|now apply g1_g2]). congruence. }
  rewrite N1, N2, Hex in H.
  destruct (prop_group_ok g3 c_max e cols g3_max_pos Hex) as [r [H1 [H2 _]]]. rewrite H1 in H. injection H as <-.
  exists r. split; [exact H2|]. apply Forall2_map_r. intro c. destruct (g3 c); reflexivity.
Qed.

(* rule 4: only percentage columns can grow: in proportion to the percentages *)
Theorem dist_percentage_columns_grow_in_proportion e cols ws :
  existsb g2 cols = false -> existsb g3 cols = false -> existsb g4 cols = true -> dist e cols = Some ws ->
  exists r, r * qsum (map c_pct (filter g4 cols)) == e /\
            Forall2 (fun c w => w == if g4 c then c_w c + c_pct c * r else c_w c) cols ws.
Proof.
  intros N2 N3 Hex H. unfold dist in H.
  assert (N1 : existsb g1 cols = false).
  { destruct (existsb g1 cols) eqn:E; [|reflexivity]. apply existsb_exists in E. destruct E as [c [Hin Hc]].
    assert (existsb g2 cols = true) by (apply existsb_exists; exists c; split; [assumption|now apply g1_g2]). congruence. }
  rewrite N1, N2, N3, Hex in H.
  destruct (prop_group_ok g4 c_pct e cols g4_pct_pos Hex) as [r [H1 [H2 _]]]. rewrite H1 in H. injection H as <-.
  exists r. split; [exact H2|]. apply Forall2_map_r. intro c. destruct (g4 c); reflexivity.
Qed.

(* ---------------------------------------------------------------- the slice *)
Lemma firstn_skipn_len {A} k (l : list A) : l = firstn k l ++ skipn (length (firstn k l)) l.
Proof.
  revert l. induction k as [|k IH]; intros [|x l]; simpl; try reflexivity. f_equal. apply IH.
Qed.

Lemma skipn_add {A} a k (l : list A) : skipn k (skipn a l) = skipn (a + k) l.
Proof. revert l. induction a as [|a IH]; intros l; simpl; [reflexivity|]. destruct l; [now rewrite skipn_nil|apply IH]. Qed.

Lemma slice_split (a b : nat) (cols : list col) :
  cols = firstn a cols ++ in_slice a b cols ++ skipn (a + length (in_slice a b cols)) cols.
Proof.
  unfold in_slice. rewrite <- (firstn_skipn a cols) at 1. f_equal.
  rewrite (firstn_skipn_len (b - a) (skipn a cols)) at 1. f_equal.
  now rewrite skipn_add.
Qed.

Lemma slice_split_w (a b : nat) (cols : list col) :
  map c_w cols = map c_w (firstn a cols) ++ map c_w (in_slice a b cols) ++
                 map c_w (skipn (a + length (in_slice a b cols)) cols).
Proof. rewrite <- !map_app. f_equal. apply slice_split. Qed.

Theorem dist_slice_never_raises a b e cols : exists ws, dist_slice a b e cols = Some ws.
Proof.
  unfold dist_slice. destruct (dist_never_raises e (in_slice a b cols)) as [ws H]. rewrite H. eauto.
Qed.

Theorem dist_slice_excess_is_distributed a b e cols ws :
  in_slice a b cols <> [] -> dist_slice a b e cols = Some ws -> qsum ws == qsum (map c_w cols) + e.
Proof.
  unfold dist_slice. intros Hne H. destruct (dist e (in_slice a b cols)) as [wm|] eqn:E; [|discriminate].
  injection H as <-. pose proof (dist_excess_is_distributed _ _ _ Hne E) as Hs.
  rewrite (slice_split_w a b cols). rewrite !qsum_app, Hs. ring.
Qed.

Lemma in_slice_nonempty a b (cols : list col) : (a < b)%nat -> (a < length cols)%nat -> in_slice a b cols <> [].
Proof.
  unfold in_slice. intros Hab Hl E. apply (f_equal (@length col)) in E. rewrite firstn_length, skipn_length in E.
  simpl in E. lia.
Qed.

(* an empty slice: nothing is read, nothing is written: the excess is silently dropped *)
Theorem dist_slice_empty_drops_excess a b e cols :
  in_slice a b cols = [] -> dist_slice a b e cols = Some (map c_w cols).
Proof.
  unfold dist_slice. intros E. rewrite (slice_split_w a b cols). rewrite E. reflexivity.
Qed.

Theorem dist_slice_outside_untouched a b e cols ws :
  dist_slice a b e cols = Some ws ->
  firstn a ws = map c_w (firstn a cols) /\
  skipn (a + length (in_slice a b cols)) ws = map c_w (skipn (a + length (in_slice a b cols)) cols) \/
  (length cols < a)%nat.
Proof.
  unfold dist_slice. intros H. destruct (dist e (in_slice a b cols)) as [wm|] eqn:E; [|discriminate].
  injection H as <-. destruct (le_lt_dec a (length cols)) as [L|L]; [left|right; exact L].
  pose proof (dist_length _ _ _ E) as Hl.
  assert (La : length (map c_w (firstn a cols)) = a) by (rewrite map_length, firstn_length; lia).
  split.
  - rewrite firstn_app, La, Nat.sub_diag. simpl. rewrite app_nil_r. rewrite <- La at 1. apply firstn_all.
  - rewrite skipn_app, La. rewrite (skipn_all2 (map c_w (firstn a cols))) by lia. simpl.
    replace (a + length (in_slice a b cols) - a)%nat with (length wm) by lia.
    rewrite skipn_app, Nat.sub_diag, skipn_all. reflexivity.
Qed.

Theorem dist_slice_widths_never_decrease a b e cols ws :
  0 <= e -> dist_slice a b e cols = Some ws -> Forall2 (fun c w => c_w c <= w) cols ws.
Proof.
  unfold dist_slice. intros He H. destruct (dist e (in_slice a b cols)) as [wm|] eqn:E; [|discriminate].
  injection H as <-. rewrite (slice_split a b cols) at 1.
  apply Forall2_app; [apply Forall2_map_r; intros; lra|].
  apply Forall2_app; [now apply (dist_widths_never_decrease e)|apply Forall2_map_r; intros; lra].
Qed.

(* ---------------------------------------------------------------- examples (hypotheses are satisfiable) *)
Example dist_example_group1 :
  dist 10 [mkcol true false 0 30 30; mkcol true false 0 10 12; mkcol true true 0 5 5]
  = Some [30 + 30 * (10 / (30 + (10 + 0))); 12 + 10 * (10 / (30 + (10 + 0))); 5].
Proof. reflexivity. Qed.
Example dist_example_sum :
  exists ws, dist_slice 1 3 7 [mkcol true true 0 30 30; mkcol true true 20 10 12; mkcol true true 30 5 5;
                               mkcol true false 0 9 9] = Some ws /\ qsum ws == 30 + 12 + 5 + 9 + 7
             /\ nth 0 ws 0 == 30 /\ nth 3 ws 0 == 9.
Proof. eexists. split; [reflexivity|]. vm_compute. repeat split; discriminate. Qed.
