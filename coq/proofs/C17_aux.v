(* C17 - auxiliary facts about trees, the collections of the specification and well-formedness. *)
From Coq Require Import ZArith List Bool Lia.
Require Import WV.model.C17Stacking WV.model.C17Spec WV.proofs.C17_dispatch WV.proofs.C17_collect.
Import ListNotations.
Open Scope Z_scope.

Lemma in_preorder_self b : In b (preorder b).
Proof. destruct b; simpl; now left. Qed.

Lemma preorder_trans x k b : In k (bkids b) -> In x (preorder k) -> In x (preorder b).
Proof.
  destruct b as [i kids]. simpl. intros Hk Hx. right. apply in_flat_map. exists k. now split.
Qed.

Lemma height_kid k b : In k (bkids b) -> (height k < height b)%nat.
Proof.
  destruct b as [i kids]. simpl. intros Hk.
  induction kids as [|y r IH]; [destruct Hk|]. simpl. destruct Hk as [->|Hk]; [lia|].
  specialize (IH Hk). lia.
Qed.

Lemma height_sub b : forall x, In x (preorder b) -> (height x <= height b)%nat.
Proof.
  induction b as [i kids IH] using box_ind'. intros x [<-|Hx]; [lia|].
  apply in_flat_map in Hx. destruct Hx as [k [Hk Hx]].
  rewrite Forall_forall in IH. specialize (IH k Hk x Hx).
  pose proof (height_kid k (Box i kids) Hk). lia.
Qed.

Lemma height_below b k x : In k (bkids b) -> In x (preorder k) -> (height x < height b)%nat.
Proof. intros Hk Hx. pose proof (height_kid k b Hk). pose proof (height_sub k x Hx). lia. Qed.

(* collections are made of boxes of the subtree, with the announced properties *)
Lemma parts_sub b : forall x, In x (parts b) ->
  In x (preorder b) /\ (creates_ctx (binfo x) = true \/ positioned (binfo x) = true).
Proof.
  induction b as [i kids IH] using box_ind'. intros x Hx. simpl in Hx.
  destruct (creates_ctx i) eqn:Hc.
  { destruct Hx as [<-|[]]. split; [apply in_preorder_self|now left]. }
  apply in_app_or in Hx. destruct Hx as [Hx|Hx].
  { destruct (positioned i) eqn:Hp; [|destruct Hx]. destruct Hx as [<-|[]].
    split; [apply in_preorder_self|now right]. }
  destruct (is_parent (knd i)); [|destruct Hx].
  apply in_flat_map in Hx. destruct Hx as [k [Hk Hx]].
  rewrite Forall_forall in IH. destruct (IH k Hk x Hx) as [H1 H2].
  split; [|exact H2]. simpl. right. apply in_flat_map. exists k. now split.
Qed.

Lemma flow_blocks_sub b : forall x, In x (flow_blocks b) ->
  In x (preorder b) /\ in_flow (binfo x) = true /\ block_level (knd (binfo x)) = true.
Proof.
  induction b as [i kids IH] using box_ind'. intros x Hx. simpl in Hx.
  destruct (in_flow i) eqn:Hf; [|destruct Hx].
  apply in_app_or in Hx. destruct Hx as [Hx|Hx].
  { destruct (block_level (knd i)) eqn:Hb; [|destruct Hx]. destruct Hx as [<-|[]].
    split; [apply in_preorder_self|now split]. }
  destruct (is_parent (knd i)); [|destruct Hx].
  apply in_flat_map in Hx. destruct Hx as [k [Hk Hx]].
  rewrite Forall_forall in IH. destruct (IH k Hk x Hx) as [H1 H2].
  split; [|exact H2]. simpl. right. apply in_flat_map. exists k. now split.
Qed.

Lemma flow_containers_sub b : forall x, In x (flow_containers b) ->
  In x (preorder b) /\ in_flow (binfo x) = true.
Proof.
  induction b as [i kids IH] using box_ind'. intros x Hx. simpl in Hx.
  destruct (in_flow i) eqn:Hf; [|destruct Hx].
  apply in_app_or in Hx. destruct Hx as [Hx|Hx].
  { destruct (block_level (knd i) || is_cell (knd i)) eqn:Hb; [|destruct Hx]. destruct Hx as [<-|[]].
    split; [apply in_preorder_self|assumption]. }
  destruct (is_parent (knd i)); [|destruct Hx].
  apply in_flat_map in Hx. destruct Hx as [k [Hk Hx]].
  rewrite Forall_forall in IH. destruct (IH k Hk x Hx) as [H1 H2].
  split; [|exact H2]. simpl. right. apply in_flat_map. exists k. now split.
Qed.

Lemma flow_floats_sub b : forall x, In x (flow_floats b) ->
  In x (preorder b) /\ is_float (binfo x) = true.
Proof.
  induction b as [i kids IH] using box_ind'. intros x Hx. simpl in Hx.
  destruct (in_flow i) eqn:Hf.
  - destruct (is_parent (knd i)); [|destruct Hx].
    apply in_flat_map in Hx. destruct Hx as [k [Hk Hx]].
    rewrite Forall_forall in IH. destruct (IH k Hk x Hx) as [H1 H2].
    split; [|exact H2]. simpl. right. apply in_flat_map. exists k. now split.
  - destruct (is_float i) eqn:Hfl; [|destruct Hx]. destruct Hx as [<-|[]].
    split; [apply in_preorder_self|assumption].
Qed.

(* well-formedness is hereditary *)
Lemma wf_node_weaken b : wf_node true b = true -> wf_node false b = true.
Proof.
  unfold wf_node, wf_ctx_kind. simpl. intros H.
  apply andb_true_iff in H. destruct H as [H2 H3].
  rewrite H3. destruct (in_flow (binfo b)); simpl in *; [reflexivity|]. now rewrite H2.
Qed.

Lemma wf_from_weaken b : wf_from true b = true -> wf_from false b = true.
Proof.
  destruct b as [i kids]. simpl. intros H. apply andb_true_iff in H. destruct H as [H1 H2].
  rewrite (wf_node_weaken _ H1), H2. reflexivity.
Qed.

Lemma wf_from_node r b : wf_from r b = true -> wf_node r b = true.
Proof. destruct b; simpl. intros H. apply andb_true_iff in H. tauto. Qed.

Lemma wf_from_kid r b k : wf_from r b = true -> In k (bkids b) -> wf_from false k = true.
Proof.
  destruct b as [i kids]; simpl. intros H Hk. apply andb_true_iff in H. destruct H as [_ H].
  rewrite forallb_forall in H. now apply H.
Qed.

Lemma wf_from_sub b : forall x, wf_from false b = true -> In x (preorder b) -> wf_from false x = true.
Proof.
  induction b as [i kids IH] using box_ind'. intros x Hw [<-|Hx]; [exact Hw|].
  apply in_flat_map in Hx. destruct Hx as [k [Hk Hx]].
  rewrite Forall_forall in IH. apply (IH k Hk x); [|exact Hx].
  now apply (wf_from_kid false (Box i kids)).
Qed.

Lemma wf_below r b k x :
  wf_from r b = true -> In k (bkids b) -> In x (preorder k) -> wf_from false x = true.
Proof. intros Hw Hk Hx. apply (wf_from_sub k); [now apply (wf_from_kid r b)|exact Hx]. Qed.

Lemma kids_of_incl b k : In k (kids_of b) -> In k (bkids b).
Proof. unfold kids_of. destruct (is_parent (knd (binfo b))); [auto|intros []]. Qed.

Lemma in_flow_not_atomic i : in_flow i = true -> atomic i = false.
Proof. unfold in_flow, atomic. destruct (out_of_flow i); simpl; [discriminate|]. now intros ->%negb_true_iff. Qed.

Lemma stays_cases b : stays b = true ->
  (in_flow (binfo b) = true /\ atomic (binfo b) = false) \/ (in_flow (binfo b) = false /\ atomic (binfo b) = true).
Proof.
  unfold stays. destruct (in_flow (binfo b)) eqn:E; simpl.
  - intros _. left. split; [reflexivity|now apply in_flow_not_atomic].
  - intros ->. now right.
Qed.

Lemma atomic_not_creates i : atomic i = true -> creates_ctx i = false.
Proof. unfold atomic, out_of_flow. destruct (creates_ctx i); simpl; [discriminate|reflexivity]. Qed.

Lemma tree_of_in_flow b : in_flow (binfo b) = true -> tree_of b = pb_of b.
Proof. intros H. unfold tree_of. now rewrite (in_flow_not_atomic _ H). Qed.

(* the context children of a well-formed box: nk_of *)
Lemma nk_of_wf r b : wf_from r b = true -> nk_of b = map tree_of (filter stays (kids_of b)).
Proof.
  intros Hw. unfold kids_of. destruct (is_parent (knd (binfo b))) eqn:Hp.
  - now destruct (children_shape b Hp).
  - destruct (children_shape_leaf b Hp) as [-> _].
    apply wf_from_node in Hw. unfold wf_node in Hw. apply andb_true_iff in Hw. destruct Hw as [_ Hk].
    unfold wf_kids in Hk. destruct b as [i kids]. simpl in *.
    destruct (knd i); try discriminate; destruct kids; try discriminate; reflexivity.
Qed.

Lemma d_of_shape b :
  s_cc (d_of b) = map node_of (flat_map parts (kids_of b)) /\
  s_bl (d_of b) = map pb_of (flat_map flow_blocks (kids_of b)) /\
  s_fl (d_of b) = map fake_node (flat_map flow_floats (kids_of b)) /\
  s_bc (d_of b) = map pb_of (flat_map flow_containers (kids_of b)).
Proof.
  unfold kids_of. destruct (is_parent (knd (binfo b))) eqn:Hp.
  - destruct (children_shape b Hp) as [_ H]. exact H.
  - destruct (children_shape_leaf b Hp) as [_ ->]. repeat split.
Qed.

(* last child is a LineBox <-> the children are line boxes *)
Lemma last_is_line_map l :
  (all_lines l = true \/
   forallb (fun c => negb (is_line (knd (binfo c))) || atomic (binfo c)) l = true) ->
  Forall (fun c => stays c = true) l ->
  last_is_line (map tree_of l) = all_lines l.
Proof.
  intros H Hs.
  assert (E : forall c, stays c = true -> 
            match tree_of c with PB i _ => is_line (knd i) | PC _ _ _ _ _ _ _ _ _ => false end =
            is_line (knd (binfo c)) && negb (atomic (binfo c))).
  { intros c Hc. unfold tree_of. destruct (atomic (binfo c)) eqn:Ha.
    - unfold fake_node. unfold mk_ctx. now rewrite andb_false_r.
    - unfold pb_of. now rewrite andb_true_r. }
  destruct l as [|a l]; [reflexivity|].
  destruct H as [H|H].
  - rewrite H. simpl in H. revert a H Hs. induction l as [|y r IH]; intros a H Hs.
    + simpl. inversion Hs; subst. rewrite (E a H2). apply andb_true_iff in H. destruct H as [H _].
      rewrite H. simpl. destruct (stays_cases a H2) as [[_ ->]|[Hf Ha]]; [reflexivity|].
      exfalso. unfold atomic in Ha. unfold in_flow in Hf.
      destruct (out_of_flow (binfo a)); simpl in *; [discriminate|].
      destruct (knd (binfo a)); simpl in *; discriminate.
    + change (last_is_line (map tree_of (a :: y :: r))) with (last_is_line (map tree_of (y :: r))).
      apply IH.
      * simpl in *. apply andb_true_iff in H. tauto.
      * now inversion Hs.
  - transitivity false.
    + revert a H Hs. induction l as [|y r IH]; intros a H Hs.
      * simpl. inversion Hs; subst. rewrite (E a H2). simpl in H. rewrite andb_true_r in H.
        destruct (is_line (knd (binfo a))); simpl in *; [now rewrite H|reflexivity].
      * change (last_is_line (map tree_of (a :: y :: r))) with (last_is_line (map tree_of (y :: r))).
        apply IH; [|now inversion Hs]. simpl in *. apply andb_true_iff in H. tauto.
    + symmetry. simpl. simpl in H. apply andb_true_iff in H. destruct H as [H _].
      destruct (is_line (knd (binfo a))) eqn:El; simpl in *; [|reflexivity].
      inversion Hs; subst. destruct (stays_cases a H2) as [[_ Ha]|[Hf Ha]]; [rewrite Ha in H; discriminate|].
      exfalso. unfold atomic in Ha. destruct (out_of_flow (binfo a)); simpl in *; [discriminate|].
      destruct (knd (binfo a)); simpl in *; discriminate.
Qed.
