(* C09 - the model of split_first_line (model/C09Line.v) instantiated with the reference breaker G is greedy on
   word lists, for every wrapping white-space value: the shortcut of step 1, the look-ahead of step 3 and steps 4-5
   never change the answer of the breaker. *)
From Coq Require Import ZArith QArith Lqa List Bool Lia.
Require Import WV.model.C09Line WV.model.C09Spec WV.proofs.C09_pango.
Import ListNotations.
Open Scope Z_scope.

(* ------------------------------------------------------------------------------------------- basics *)
Lemma ch_eqb_refl c : ch_eqb c c = true.
Proof. destruct c; simpl; try reflexivity. apply Nat.eqb_refl. Qed.
Lemma text_eqb_refl t : text_eqb t t = true.
Proof. induction t as [|c t IH]; [reflexivity|]. simpl. rewrite ch_eqb_refl, IH. reflexivity. Qed.
Lemma text_eqb_len a : forall b, length a <> length b -> text_eqb a b = false.
Proof.
  induction a as [|x a IH]; intros [|y b] H; simpl in *; try reflexivity; try congruence.
  rewrite (IH b) by congruence. apply andb_false_r.
Qed.

Lemma simple_rstrip t : simple t -> simple (rstrip t).
Proof.
  induction t as [|c t IH]; intros H; [reflexivity|]. apply simple_cons in H. destruct H as [Hc Ht].
  cbn [rstrip]. specialize (IH Ht). destruct (rstrip t) as [|d r].
  - destruct (is_sp c); [reflexivity|]. apply simple_cons. split; [exact Hc|reflexivity].
  - apply simple_cons. split; [exact Hc|exact IH].
Qed.
Lemma rstrip_id t : ends_with is_sp t = false -> rstrip t = t.
Proof.
  induction t as [|c t IH]; intros H; [reflexivity|]. cbn [rstrip].
  destruct t as [|d t'].
  - cbn [rstrip]. unfold ends_with in H. simpl in H. rewrite H. reflexivity.
  - assert (Ht : ends_with is_sp (d :: t') = false) by exact H. rewrite (IH Ht). reflexivity.
Qed.
Lemma rstrip_app_sp u : rstrip (u ++ [Sp]) = rstrip u.
Proof. induction u as [|c u IH]; [reflexivity|]. cbn [app rstrip]. rewrite IH. reflexivity. Qed.
Lemma ends_with_shy_simple t : simple t -> ends_with is_shy t = false.
Proof.
  intros H. unfold ends_with. destruct (last_ch t) as [c|] eqn:E; [|reflexivity].
  assert (Hc : simple_ch c = true).
  { revert E. induction t as [|d t IH]; [discriminate|]. apply simple_cons in H. destruct H as [Hd Ht].
    destruct t as [|e t']; [intros E; inversion E; subst; exact Hd|]. intros E. apply (IH Ht). exact E. }
  apply simple_not_shy. exact Hc.
Qed.

Lemma firstn_min {A} (l : list A) n : firstn n l = firstn (Nat.min n (length l)) l.
Proof.
  destruct (Nat.le_gt_cases n (length l)) as [H|H].
  - rewrite Nat.min_l by exact H. reflexivity.
  - rewrite Nat.min_r by lia. rewrite firstn_all. apply firstn_all2. lia.
Qed.
Lemma firstn_skipn_app {A} (l : list A) r q : firstn r l ++ firstn q (skipn r l) = firstn (r + q) l.
Proof.
  revert l. induction r as [|r IH]; intros l; [reflexivity|].
  destruct l as [|x l]; [simpl; rewrite firstn_nil; reflexivity|]. simpl. rewrite IH. reflexivity.
Qed.
Lemma firstn_S_nth {A} (l : list A) m x : nth_error l m = Some x -> firstn (S m) l = firstn m l ++ [x].
Proof.
  revert l. induction m as [|m IH]; intros [|y l] H; simpl in *; try discriminate.
  - inversion H. reflexivity.
  - rewrite (IH l H). reflexivity.
Qed.
Lemma nth_error_skipn {A} (l : list A) r q : nth_error (skipn r l) q = nth_error l (r + q).
Proof. revert l. induction r as [|r IH]; intros l; [reflexivity|]. destruct l; [destruct q; reflexivity|]. simpl. apply IH. Qed.
Lemma nth_error_firstn_lt {A} (l : list A) m j : (j < m)%nat -> nth_error (firstn m l) j = nth_error l j.
Proof.
  revert l j. induction m as [|m IH]; intros l j H; [lia|]. destruct l; [destruct j; reflexivity|].
  destruct j; [reflexivity|]. simpl. apply IH. lia.
Qed.
Lemma last_ch_nth t : t <> [] -> last_ch t = nth_error t (length t - 1).
Proof.
  induction t as [|c t IH]; [congruence|]. intros _. destruct t as [|d t']; [reflexivity|].
  change (last_ch (c :: d :: t')) with (last_ch (d :: t')). rewrite IH by discriminate.
  simpl. rewrite Nat.sub_0_r. destruct t'; reflexivity.
Qed.

(* ------------------------------------------------------------------------- G: shape of the result *)
Lemma cands_pos ins wc rest : forall a i acc p, In p (cands ins wc a rest i acc) -> (i <= fst p < i + length rest)%nat.
Proof.
  induction rest as [|b rest IH]; intros a i acc p H; [destruct H|].
  cbn [cands] in H. apply in_app_or in H. destruct H as [H|H].
  - destruct (break_before wc a b); [|destruct H]. destruct H as [<-|[]]. simpl. lia.
  - apply IH in H. simpl. lia.
Qed.
Lemma pick_in fs w l : forall best p, pick fs w best l = Some p -> best = Some p \/ In p l.
Proof.
  induction l as [|[i c] l IH]; intros best p H; [left; exact H|]. cbn [pick] in H.
  destruct (fits fs w c).
  - apply IH in H. destruct H as [H|H]; [inversion H; right; left; reflexivity|right; right; exact H].
  - destruct best; [left; exact H|inversion H; right; left; reflexivity].
Qed.
Lemma pick_allfit fs w l : l <> [] -> forallb (fun p => fits fs w (snd p)) l = true ->
  forall best, pick fs w best l = Some (last l (O, 0)).
Proof.
  induction l as [|[i c] l IH]; intros Hne E best; [congruence|].
  cbn [forallb snd] in E. apply andb_true_iff in E. destruct E as [E1 E2]. cbn [pick]. rewrite E1.
  destruct l as [|q l]; [reflexivity|]. rewrite (IH ltac:(discriminate) E2). reflexivity.
Qed.

Lemma G_shape fs ins X w l r wd : simple X -> G fs ins X (Some w) false = (l, r, wd) ->
  (r = None /\ l = length X /\ wd = (inject_Z (Z.of_nat (length X)) * fs)%Q) \/
  (r = Some l /\ (1 <= l < length X)%nat).
Proof.
  intros HX HG. unfold G in HG. rewrite (para_simple X HX), (has_nl_simple X HX), (visw_simple X HX) in HG.
  destruct (fits fs w _); [inversion HG; left; repeat split; reflexivity|].
  destruct X as [|a rest]; [inversion HG; left; repeat split; reflexivity|].
  rewrite scan_pick in HG. destruct (pick fs w None _) as [[i c]|] eqn:EP.
  - inversion HG; subst. right. split; [reflexivity|].
    apply pick_in in EP. destruct EP as [EP|EP]; [discriminate|]. apply cands_pos in EP. simpl in *. lia.
  - inversion HG. left. repeat split; reflexivity.
Qed.

Section WithG.
  Variable st : style.
  Let fs := st_fs st.
  Let Gp := Gpango fs.
  Let firstG := first Gp.

  Lemma first_simple X W l r wd : simple X -> G fs true X (Some W) false = (l, r, wd) ->
    firstG {| l_text := X; l_w := Some W; l_wc := false |} = ((Z.of_nat l, wd), option_map Z.of_nat r).
  Proof.
    intros HX HG. unfold firstG, first, Gp. cbn [l_text l_w l_wc].
    change (Gpango fs X (Some W) false) with (G fs true X (Some W) false). rewrite HG.
    destruct (G_shape fs true X W l r wd HX HG) as [(-> & -> & _)|(-> & Hl)].
    - rewrite firstn_all, (nbytes_simple X HX). reflexivity.
    - cbn [option_map]. rewrite (nbytes_simple _ (simple_firstn l X HX)), firstn_length_le by lia. reflexivity.
  Qed.

  Lemma first_nowidth p wc : simple p ->
    firstG {| l_text := p; l_w := None; l_wc := wc |} =
    ((Z.of_nat (length p), (inject_Z (Z.of_nat (length p)) * fs)%Q), None).
  Proof.
    intros Hp. unfold firstG, first, Gp, Gpango, G. cbn [l_text l_w l_wc].
    rewrite (para_simple p Hp), (has_nl_simple p Hp), (visw_simple p Hp), firstn_all, (nbytes_simple p Hp). reflexivity.
  Qed.

  (* first_line_metrics on a line that is followed by another one *)
  Lemma flm_some T Lay l r wd collapse : simple T -> (l <= length T)%nat -> (1 <= r)%nat ->
    first_line_metrics Gp (Z.of_nat l, wd) T Lay (Some (Z.of_nat r)) collapse false =
    let p := if collapse then rstrip (firstn l T) else firstn l T in
    Out p (Z.of_nat (length p)) (Some (Z.of_nat r)) (inject_Z (Z.of_nat (length p)) * fs)%Q.
  Proof.
    intros HT Hl Hr. unfold first_line_metrics. cbn [fst snd].
    destruct (Z.of_nat r =? 0) eqn:E; [apply Z.eqb_eq in E; lia|].
    rewrite (bytes_prefix_simple T HT l Hl).
    set (p := if collapse then rstrip (firstn l T) else firstn l T).
    assert (Hp : simple p) by (unfold p; destruct collapse; [apply simple_rstrip|]; apply simple_firstn; exact HT).
    unfold set_text, set_width. cbn [l_text l_w l_wc]. rewrite (truncate_simple p Hp).
    fold firstG. rewrite (first_nowidth p (l_wc Lay) Hp). reflexivity.
  Qed.

  Lemma flm_none fl T Lay collapse :
    first_line_metrics Gp fl T Lay None collapse false = Out (l_text Lay) (fst fl) None (snd fl).
  Proof. reflexivity. Qed.

  (* steps 4-5 do nothing on letters and spaces when the line fits or words may not be broken *)
  Lemma steps45_plain mw pwm ils mini T flt slt oso Lay fl ri :
    simple (flt ++ slt) ->
    Qle_bool (snd fl) mw = true \/ can_break_inside st ils mini = false ->
    steps45 Gp st mw pwm ils mini T flt slt oso Lay fl ri =
    first_line_metrics Gp fl T Lay ri (space_collapse (st_ws st)) false.
  Proof.
    intros Hs Hg. unfold steps45. rewrite (has_shy_simple _ Hs), andb_false_r. cbn [andb rev].
    apply simple_app in Hs. destruct Hs as [Hf _]. rewrite (ends_with_shy_simple flt Hf). cbn [negb andb].
    assert (Hc : negb (Qle_bool (snd fl) mw) &&
                 (st_break_all st || ils && match st_ow st with OwNormal => false | OwAnywhere => true
                                                             | OwBreakWord => negb mini end) = false).
    { destruct Hg as [Hg|Hg]; [rewrite Hg; reflexivity|]. unfold can_break_inside in Hg. rewrite Hg. apply andb_false_r. }
    rewrite Hc. reflexivity.
  Qed.
End WithG.

(* ------------------------------------------------- the answer on the text is the answer on a long enough prefix *)
Lemma G_prefix_back fs ins t m w r wd :
  simple t -> (m <= length t)%nat -> G fs ins t (Some w) false = (r, Some r, wd) -> (r < m)%nat ->
  fits fs w (if ends_with is_sp (firstn m t) then visw (firstn m t) - 1 else visw (firstn m t)) = false ->
  G fs ins (firstn m t) (Some w) false = (r, Some r, wd).
Proof.
  intros Ht Hm HG Hr Hend.
  destruct t as [|a rest]; [simpl in Hm; lia|]. destruct m as [|m]; [lia|].
  assert (HT : simple (a :: rest)) by exact Ht.
  apply simple_cons in Ht. destruct Ht as [Ha Hrest]. simpl in Hm.
  assert (HX : simple (a :: firstn m rest)) by (apply simple_cons; split; [exact Ha|apply simple_firstn; exact Hrest]).
  cbn [firstn] in *. unfold G in *.
  rewrite (para_simple _ HX), (has_nl_simple _ HX), Hend.
  rewrite (para_simple _ HT), (has_nl_simple _ HT) in HG.
  destruct (fits fs w (if ends_with is_sp (a :: rest) then visw (a :: rest) - 1 else visw (a :: rest))); [discriminate|].
  rewrite scan_pick in *.
  rewrite (cands_split ins false rest m a 1 (vis a) ltac:(lia)) in HG.
  set (l1 := cands ins false a (firstn m rest) 1 (vis a)) in *.
  set (l2 := cands ins false (lastc a (firstn m rest)) (skipn m rest) (1 + m) (vis a + visw (firstn m rest))) in *.
  destruct (pick fs w None (l1 ++ l2)) as [[i c]|] eqn:EP; [|discriminate].
  inversion HG; subst i wd. clear HG.
  assert (Hl2 : forall p, In p l2 -> (S m <= fst p)%nat).
  { intros p Hp. apply cands_pos in Hp. lia. }
  rewrite pick_app in EP. destruct (forallb (fun p => fits fs w (snd p)) l1) eqn:Eall.
  - destruct l1 as [|p1 l1'] eqn:El1.
    + apply pick_in in EP. destruct EP as [EP|EP]; [discriminate|]. apply Hl2 in EP. simpl in EP. lia.
    + pose proof (pick_allfit fs w (p1 :: l1') ltac:(discriminate) Eall None) as Hall.
      set (lst := last (p1 :: l1') (0%nat, 0)) in *.
      apply pick_in in EP. destruct EP as [EP|EP].
      * rewrite Hall. inversion EP as [Hl]. rewrite Hl. reflexivity.
      * apply Hl2 in EP. simpl in EP. lia.
  - rewrite EP. reflexivity.
Qed.

(* ------------------------------------------------------------------------------ log attributes *)
Lemma find_true_no_oob l : forall n k, (n <= length l)%nat -> find_true l n k <> OutOfBounds.
Proof.
  induction l as [|b l IH]; intros n k H; destruct n; simpl in *; try discriminate; try lia.
  destruct b; [discriminate|]. apply IH. lia.
Qed.
Lemma find_true_bound l : forall n k j, find_true l n k = Found j -> (k <= j < k + n)%nat.
Proof.
  induction l as [|b l IH]; intros n k j H; destruct n; simpl in *; try discriminate.
  destruct b; [inversion H; lia|]. apply IH in H. lia.
Qed.
Lemma attrs_from_length rest : forall a, length (attrs_from a rest) = S (length rest).
Proof. induction rest as [|b rest IH]; intros a; [reflexivity|]. simpl. rewrite IH. reflexivity. Qed.
Lemma Gattrs_length t : length (Gattrs t) = S (length t).
Proof. destruct t; [reflexivity|]. simpl. rewrite attrs_from_length. reflexivity. Qed.

Lemma nbp_no_oob X W wc s : nbp Gattrs {| l_text := X; l_w := W; l_wc := wc |} s (length X) <> OutOfBounds.
Proof.
  unfold nbp. cbn [l_text]. apply find_true_no_oob. rewrite skipn_length, Gattrs_length. lia.
Qed.

Lemma attrs_letters l : forall a k0, is_letter a = true -> forallb is_letter l = true ->
  find_true (attrs_from a l) (length l) k0 = NotFound.
Proof.
  induction l as [|c l IH]; intros a k0 Ha Hl; [reflexivity|].
  cbn [forallb] in Hl. apply andb_true_iff in Hl. destruct Hl as [Hc Hl].
  cbn [attrs_from length find_true]. destruct a; try discriminate. cbn [is_nl is_sp is_shy andb orb].
  apply IH; assumption.
Qed.
Lemma attrs_first_word l : forall a b R n k0, is_letter a = true -> forallb is_letter l = true -> is_letter b = true ->
  (length l + 1 < n)%nat ->
  find_true (attrs_from a (l ++ Sp :: b :: R)) n k0 = Found (k0 + length l + 1).
Proof.
  induction l as [|c l IH]; intros a b R n k0 Ha Hl Hb Hn.
  - cbn [app attrs_from length]. destruct n as [|[|n]]; try (simpl in Hn; lia).
    destruct a; try discriminate. destruct b; try discriminate. cbn. f_equal. lia.
  - cbn [forallb] in Hl. apply andb_true_iff in Hl. destruct Hl as [Hc Hl].
    cbn [app attrs_from length]. destruct n as [|n]; [lia|]. destruct a; try discriminate.
    cbn [find_true is_nl is_sp is_shy andb orb].
    rewrite (IH c b R n (S k0) Hc Hl Hb ltac:(simpl in Hn; lia)). f_equal. simpl. lia.
Qed.

(* ------------------------------------------------------------------------------ structure of join ws *)
Lemma wlen_mono_le ws a b : (a <= b)%nat -> (wlen ws a <= wlen ws b)%nat.
Proof. induction 1 as [|b H IH]; [lia|]. pose proof (wlen_mono ws b). lia. Qed.

Lemma join_app a b : a <> [] -> b <> [] -> join (a ++ b) = join a ++ Sp :: join b.
Proof.
  induction a as [|w a IH]; intros Ha Hb; [congruence|].
  destruct a as [|w2 a'].
  - cbn [app]. rewrite join_cons by exact Hb. reflexivity.
  - change ((w :: w2 :: a') ++ b) with (w :: ((w2 :: a') ++ b)).
    rewrite join_cons by (destruct b; discriminate). rewrite (IH ltac:(discriminate) Hb).
    rewrite (join_cons w (w2 :: a')) by discriminate. rewrite <- app_assoc. reflexivity.
Qed.

Lemma firstn_nonempty {A} (l : list A) k : (1 <= k)%nat -> l <> [] -> firstn k l <> [].
Proof. destruct k; [lia|]. destruct l; [congruence|discriminate]. Qed.
Lemma skipn_nonempty {A} (l : list A) k : (k < length l)%nat -> skipn k l <> [].
Proof. intros H E. pose proof (skipn_length k l) as Hl. rewrite E in Hl. simpl in Hl. lia. Qed.

Lemma join_split ws k : (1 <= k < length ws)%nat ->
  join ws = join (firstn k ws) ++ Sp :: join (skipn k ws).
Proof.
  intros Hk. rewrite <- (firstn_skipn k ws) at 1. apply join_app.
  - apply firstn_nonempty; [lia|]. destruct ws; [simpl in Hk; lia|discriminate].
  - apply skipn_nonempty. lia.
Qed.

Lemma firstn_app_exact {A} (u v : list A) : firstn (length u) (u ++ v) = u.
Proof. induction u; [destruct v; reflexivity|]. simpl. rewrite IHu. reflexivity. Qed.
Lemma skipn_app_exact {A} (u v : list A) : skipn (length u) (u ++ v) = v.
Proof. induction u; [reflexivity|]. simpl. exact IHu. Qed.

Lemma join_firstn ws k : (1 <= k < length ws)%nat -> firstn (wlen ws k) (join ws) = join (firstn k ws).
Proof. intros Hk. rewrite (join_split ws k Hk). unfold wlen. apply firstn_app_exact. Qed.
Lemma join_nth_sp ws k : (1 <= k < length ws)%nat -> nth_error (join ws) (wlen ws k) = Some Sp.
Proof.
  intros Hk. rewrite (join_split ws k Hk). unfold wlen. rewrite nth_error_app2 by lia.
  rewrite Nat.sub_diag. reflexivity.
Qed.
Lemma join_firstn_S ws k : (1 <= k < length ws)%nat ->
  firstn (wlen ws k + 1) (join ws) = join (firstn k ws) ++ [Sp].
Proof.
  intros Hk. rewrite Nat.add_1_r, (firstn_S_nth _ _ Sp (join_nth_sp ws k Hk)), (join_firstn ws k Hk). reflexivity.
Qed.
Lemma join_skipn ws k : (1 <= k < length ws)%nat -> skipn (wlen ws k + 1) (join ws) = join (skipn k ws).
Proof.
  intros Hk. rewrite (join_split ws k Hk) at 1. unfold wlen.
  replace (length (join (firstn k ws)) + 1)%nat with (length (join (firstn k ws) ++ [Sp])) by (rewrite app_length; reflexivity).
  change (Sp :: join (skipn k ws)) with ([Sp] ++ join (skipn k ws)). rewrite app_assoc. apply skipn_app_exact.
Qed.

Lemma words_firstn ws k : words ws -> words (firstn k ws).
Proof. unfold words. revert k. induction ws; intros [|k] H; simpl; try constructor; inversion H; subst; auto. Qed.
Lemma words_skipn ws k : words ws -> words (skipn k ws).
Proof. unfold words. revert k. induction ws; intros [|k] H; simpl; auto. inversion H; subst; auto. Qed.

(* a space of join ws sits right after the k first words, for some 1 <= k < n *)
Lemma join_sp_position ws : words ws -> forall m, nth_error (join ws) m = Some Sp ->
  exists k, (1 <= k < length ws)%nat /\ m = wlen ws k.
Proof.
  induction 1 as [|w r Hw Hr IH]; intros m Hm; [destruct m; discriminate|].
  pose proof (word_letters w Hw) as Hlet.
  assert (Hwl : forall j c, nth_error w j = Some c -> is_letter c = true).
  { intros j c Hj. apply nth_error_In in Hj. rewrite forallb_forall in Hlet. apply Hlet. exact Hj. }
  destruct r as [|w2 r2].
  - cbn [join] in Hm. apply Hwl in Hm. discriminate.
  - rewrite join_cons in Hm by discriminate.
    destruct (Nat.lt_ge_cases m (length w)) as [Hlt|Hge].
    + rewrite nth_error_app1 in Hm by exact Hlt. apply Hwl in Hm. discriminate.
    + rewrite nth_error_app2 in Hm by exact Hge. destruct (m - length w)%nat as [|j] eqn:Ej.
      * exists 1%nat. split; [simpl; lia|]. rewrite wlen_1. lia.
      * cbn [nth_error] in Hm. destruct (IH j Hm) as (k & Hk & Hj). exists (S k). split; [simpl in *; lia|].
        destruct k as [|k]; [lia|]. rewrite wlen_SS. lia.
Qed.

Lemma join_wlen_lt ws k : words ws -> (k < length ws)%nat -> (wlen ws k < wlen ws (S k))%nat.
Proof.
  intros Hw. revert k. induction Hw as [|w r Hw Hr IH]; intros k Hk; [simpl in Hk; lia|].
  destruct (word_simple w Hw) as [_ Hne]. assert (1 <= length w)%nat by (destruct w; [congruence|simpl; lia]).
  destruct k as [|k]; [rewrite wlen_0, wlen_1; lia|].
  destruct r as [|w2 r2]; [simpl in Hk; lia|].
  destruct k as [|k]; [rewrite wlen_1, wlen_SS; lia|].
  rewrite !wlen_SS. specialize (IH (S k)). simpl in Hk, IH. lia.
Qed.

Lemma join_wlen_gap ws k : words ws -> (1 <= k < length ws)%nat -> (wlen ws k + 2 <= wlen ws (S k))%nat.
Proof.
  intros Hw. revert k. induction Hw as [|w r Hw Hr IH]; intros k Hk; [simpl in Hk; lia|].
  destruct k as [|k]; [lia|]. destruct r as [|w2 r2]; [simpl in Hk; lia|].
  assert (1 <= length w2)%nat.
  { pose proof (Forall_inv Hr) as H2. cbv beta in H2. destruct w2; [discriminate|simpl; lia]. }
  destruct k as [|k].
  - rewrite wlen_1, wlen_SS, wlen_1. lia.
  - rewrite !wlen_SS. specialize (IH (S k)). simpl in Hk. simpl length in IH. lia.
Qed.

Lemma firstn_app_ge {A} (u v : list A) m : (length u <= m)%nat -> firstn m (u ++ v) = u ++ firstn (m - length u) v.
Proof. intros H. rewrite firstn_app, firstn_all2 by exact H. reflexivity. Qed.
Lemma last_ch_skipn t r : (r < length t)%nat -> last_ch (skipn r t) = last_ch t.
Proof.
  intros H. rewrite <- (firstn_skipn r t) at 2. symmetry. apply last_ch_app.
  intros E. pose proof (skipn_length r t) as Hl. rewrite E in Hl. simpl in Hl. lia.
Qed.
Lemma nth_error_letters w j c : forallb is_letter w = true -> nth_error w j = Some c -> is_letter c = true.
Proof. intros Hl Hj. apply nth_error_In in Hj. rewrite forallb_forall in Hl. apply Hl. exact Hj. Qed.

Lemma wlen_pos ws j : words ws -> ws <> [] -> (1 <= j)%nat -> (1 <= wlen ws j)%nat.
Proof.
  intros Hw Hne Hj. apply Nat.le_trans with (wlen ws 1); [|apply wlen_mono_le; exact Hj].
  destruct ws as [|w rr]; [congruence|]. rewrite wlen_1. inversion Hw as [|? ? Hw1 _]; subst.
  destruct w; [discriminate|simpl; lia].
Qed.

Lemma join_last_is_letter ws : words ws -> ws <> [] -> exists c, last_ch (join ws) = Some c /\ is_sp c = false.
Proof.
  intros Hw Hne. pose proof (join_last_letter ws Hw Hne) as H. unfold ends_with in H.
  destruct (last_ch (join ws)) as [c|] eqn:E; [exists c; split; [reflexivity|exact H]|].
  exfalso. destruct (join ws) as [|a l] eqn:Et; [exact (join_nonempty ws Hw Hne Et)|]. rewrite lastc_last_ch in E. discriminate.
Qed.

Lemma py_index_last t : t <> [] -> py_index t (-1) = last_ch t.
Proof.
  intros Hne. unfold py_index. change (0 <=? -1) with false. cbn iota.
  assert (1 <= length t)%nat by (destruct t; [congruence|simpl; lia]).
  destruct (Z.of_nat (length t) + -1 <? 0) eqn:Ej; [apply Z.ltb_lt in Ej; lia|].
  replace (Z.to_nat (Z.of_nat (length t) + -1)) with (length t - 1)%nat by lia.
  symmetry. apply last_ch_nth. exact Hne.
Qed.

(* =========================================================================================== the core *)
Section Core.
  Variable st : style.
  Variables (ws : list text) (mw W : Q) (ils mini : bool) (k : nat).
  Local Notation fs := (st_fs st).
  Local Notation Gp := (Gpango (st_fs st)).
  Local Notation Gt := (G (st_fs st) true).
  Local Notation collapse := (space_collapse (st_ws st)).
  Local Notation t0 := (join ws).
  Local Notation n := (length ws).
  Local Notation wd := (inject_Z (Z.of_nat (wlen ws k)) * st_fs st)%Q.
  Local Notation r := (wlen ws k + 1)%nat.
  Local Notation pwm := (Some W).

  Hypothesis HW : W = (if Qle_bool 0 mw then mw else 0%Q).
  Hypothesis Hfs : (0 < fs)%Q.
  Hypothesis Hw : words ws.
  Hypothesis Hne : ws <> [].
  Hypothesis Hk : (1 <= k <= n)%nat.
  Hypothesis Hfitk : (2 <= k)%nat -> fits_chars fs W (wlen ws k).
  Hypothesis Hnext : (k < n)%nat -> ~ fits_chars fs W (wlen ws (k + 1)).
  Hypothesis HGt : Gt t0 (Some W) false =
      if (k =? n)%nat then (length t0, None, (inject_Z (Z.of_nat (length t0)) * fs)%Q)
      else (r, Some r, wd).
  Hypothesis Hguard : fits_chars fs mw (wlen ws 1) \/ can_break_inside st ils mini = false.

  Lemma Ht0 : simple t0. Proof using Hw. apply join_simple. exact Hw. Qed.
  Lemma Hfs0 : (0 <= fs)%Q. Proof using Hfs. apply Qlt_le_weak. exact Hfs. Qed.

  (* the line fits the real available width, or it is the unbreakable first word and words may not be broken *)
  Lemma fitline : Qle_bool wd mw = true \/ (k = 1%nat /\ can_break_inside st ils mini = false).
  Proof.
    destruct (Nat.le_gt_cases 2 k) as [H2|H1].
    - left. pose proof (Hfitk H2) as Hf. unfold fits_chars in Hf. apply Qle_bool_iff. rewrite HW in Hf.
      destruct (Qle_bool 0 mw) eqn:E; [exact Hf|]. exfalso.
      pose proof (wlen_pos ws k Hw Hne ltac:(lia)) as Hp.
      assert (0 < inject_Z (Z.of_nat (wlen ws k)))%Q by (change 0%Q with (inject_Z 0); rewrite <- Zlt_Qlt; lia).
      assert (0 < inject_Z (Z.of_nat (wlen ws k)) * fs)%Q by (apply Qmult_lt_0_compat; assumption). lra.
    - assert (k = 1%nat) by lia. subst k. destruct Hguard as [Hg|Hg]; [left; apply Qle_bool_iff; exact Hg|right; split; [reflexivity|exact Hg]].
  Qed.

  Lemma t0_nonempty : t0 <> [].
  Proof using Hw Hne. apply join_nonempty; assumption. Qed.
  Definition greedy_line : text := if collapse then join (firstn k ws) else join (firstn k ws) ++ [Sp].

  (* the final first_line_metrics of a broken line *)
  Lemma flm_break T' Lay mt : (k < n)%nat -> T' = firstn mt t0 -> (r <= mt <= length t0)%nat ->
    first_line_metrics Gp (Z.of_nat r, wd) T' Lay (Some (Z.of_nat r)) collapse false =
    Out greedy_line (Z.of_nat (length greedy_line)) (Some (Z.of_nat r))
        (inject_Z (Z.of_nat (length greedy_line)) * fs)%Q.
  Proof.
    intros Hkn HT Hmt. subst T'.
    assert (HsT : simple (firstn mt t0)) by (apply simple_firstn; exact Ht0).
    rewrite (flm_some st (firstn mt t0) Lay r r wd collapse HsT);
      [|rewrite firstn_length_le; lia|lia].
    assert (Hf : firstn r (firstn mt t0) = join (firstn k ws) ++ [Sp]).
    { rewrite firstn_firstn, Nat.min_l by lia. apply join_firstn_S. lia. }
    rewrite Hf. unfold greedy_line. destruct collapse.
    - rewrite rstrip_app_sp, rstrip_id; [reflexivity|].
      apply join_last_letter; [apply words_firstn; exact Hw|].
      apply firstn_nonempty; [lia|exact Hne].
    - reflexivity.
  Qed.

  (* a prefix of the text that ends just before a later space does not fit, and the breaker answers the same on it *)
  Lemma G_on_word_prefix m : (k < n)%nat -> (r < m)%nat -> nth_error t0 m = Some Sp ->
    exists k2, (k < k2 < n)%nat /\ m = wlen ws k2 /\ firstn m t0 = join (firstn k2 ws) /\
    Gt (firstn m t0) (Some W) false = (r, Some r, wd).
  Proof.
    intros Hkn Hm Hsp. destruct (join_sp_position ws Hw m Hsp) as (k2 & Hk2 & ->).
    assert (Hkk : (k < k2)%nat).
    { destruct (Nat.lt_ge_cases k k2) as [H|H]; [exact H|]. pose proof (wlen_mono_le ws k2 k H). lia. }
    exists k2. split; [lia|]. split; [reflexivity|]. pose proof (join_firstn ws k2 Hk2) as Hf. split; [exact Hf|].
    assert (Hlen : (wlen ws k2 <= length t0)%nat).
    { rewrite <- (wlen_all ws). apply wlen_mono_le. lia. }
    apply G_prefix_back; [exact Ht0|exact Hlen| |exact Hm|].
    - rewrite HGt. destruct (k =? n)%nat eqn:E; [apply Nat.eqb_eq in E; lia|reflexivity].
    - rewrite Hf. rewrite (join_last_letter (firstn k2 ws)); [|apply words_firstn; exact Hw|apply firstn_nonempty; [lia|exact Hne]].
      rewrite (visw_simple _ (join_simple _ (words_firstn ws k2 Hw))).
      change (length (join (firstn k2 ws))) with (wlen ws k2).
      destruct (fits fs W (Z.of_nat (wlen ws k2))) eqn:E; [|reflexivity]. exfalso.
      apply (Hnext Hkn). apply fits_chars_iff.
      apply (fits_true_mono fs W _ (Z.of_nat (wlen ws k2)) Hfs0); [|exact E].
      pose proof (wlen_mono_le ws (k + 1) k2 ltac:(lia)). lia.
  Qed.

  (* step 3 when the line found by the breaker fits: whatever break point the log attributes gave, the look-ahead
     either returns the line as it is or hands the same line and the same resume point to steps 4-5 *)
  Lemma lookahead_fit T' Lay mt bp : (k < n)%nat -> T' = firstn mt t0 -> (r < mt <= length t0)%nat ->
    l_w Lay = Some W -> l_wc Lay = false ->
    (forall z, bp = Some z -> z < Z.of_nat (mt - r)) ->
    (bp = None -> mt = length t0) ->
    lookahead Gp collapse T' (firstn r T') (skipn r T') bp Lay (Z.of_nat r, wd) (Some (Z.of_nat r)) =
      inl (first_line_metrics Gp (Z.of_nat r, wd) T' Lay (Some (Z.of_nat r)) collapse false) \/
    exists Lay', lookahead Gp collapse T' (firstn r T') (skipn r T') bp Lay (Z.of_nat r, wd) (Some (Z.of_nat r)) =
      inr (Lay', (Z.of_nat r, wd), Some (Z.of_nat r)).
  Proof.
    intros Hkn HT Hmt HLw HLc F1 F2.
    assert (HsT : simple T') by (subst T'; apply simple_firstn; exact Ht0).
    assert (HlT : length T' = mt) by (subst T'; apply firstn_length_le; lia).
    set (slt := skipn r T').
    assert (Hls : length slt = (mt - r)%nat) by (unfold slt; rewrite skipn_length; lia).
    assert (HF : firstn r T' <> []).
    { intros E. pose proof (firstn_length_le T' r ltac:(lia)) as Hl. rewrite E in Hl. simpl in Hl. lia. }
    unfold lookahead. fold slt.
    destruct (rstrip (py_slice_to slt bp)) as [|x nw'] eqn:Enw.
    { left. destruct (firstn r T'); [congruence|reflexivity]. }
    (* the index read by `second_line_text[break_point or -1]` *)
    assert (Hq : exists q c, (q < length slt)%nat /\
              py_index slt (match bp with Some z => if z =? 0 then -1 else z | None => -1 end) = Some c /\
              nth_error slt q = Some c /\
              (bp = None -> q = (length slt - 1)%nat) /\
              (bp <> None -> (1 <= q)%nat /\ py_slice_to slt bp = firstn q slt)).
    { destruct bp as [z|].
      - specialize (F1 z eq_refl). unfold py_slice_to in Enw. unfold py_slice_to.
        destruct (z =? 0) eqn:Ez0.
        { apply Z.eqb_eq in Ez0. subst z. simpl in Enw. discriminate. }
        apply Z.eqb_neq in Ez0. unfold py_index. destruct (0 <=? z) eqn:Ez.
        + apply Z.leb_le in Ez. assert (Hlt : (Z.to_nat z < length slt)%nat) by lia.
          destruct (nth_error slt (Z.to_nat z)) as [c|] eqn:En; [|apply nth_error_None in En; lia].
          exists (Z.to_nat z), c. repeat split; try assumption; try congruence; lia.
        + apply Z.leb_gt in Ez. destruct (Z.of_nat (length slt) + z <? 0) eqn:Ej.
          { apply Z.ltb_lt in Ej. replace (Z.to_nat (Z.of_nat (length slt) + z)) with O in Enw by lia.
            simpl in Enw. discriminate. }
          apply Z.ltb_ge in Ej. set (q := Z.to_nat (Z.of_nat (length slt) + z)) in *.
          assert (Hqpos : (1 <= q)%nat).
          { destruct q eqn:Eq; [simpl in Enw; discriminate|lia]. }
          destruct (nth_error slt q) as [c|] eqn:En; [|apply nth_error_None in En; lia].
          exists q, c. repeat split; try assumption; try congruence; lia.
      - unfold py_index. cbn [Z.leb]. change (0 <=? -1) with false. cbn iota.
        destruct (Z.of_nat (length slt) + -1 <? 0) eqn:Ej; [apply Z.ltb_lt in Ej; lia|].
        replace (Z.to_nat (Z.of_nat (length slt) + -1)) with (length slt - 1)%nat by lia.
        destruct (nth_error slt (length slt - 1)) as [c|] eqn:En; [|apply nth_error_None in En; lia].
        exists (length slt - 1)%nat, c. repeat split; try assumption; try congruence; lia. }
    destruct Hq as (q & c & Hql & Hidx & Hnth & HqN & HqS). rewrite Hidx.
    destruct (collapse && is_sp c) eqn:Ecs; [|right; exists Lay; reflexivity].
    apply andb_true_iff in Ecs. destruct Ecs as [Ecol Esp]. destruct c; try discriminate.
    (* the character is a space of the text *)
    assert (Ht0q : nth_error t0 (r + q) = Some Sp).
    { unfold slt in Hnth. rewrite nth_error_skipn in Hnth. subst T'. rewrite nth_error_firstn_lt in Hnth by lia. exact Hnth. }
    destruct bp as [z|].
    2:{ (* no break point: the text is the whole text, whose last character is a letter *)
      exfalso. specialize (F2 eq_refl). specialize (HqN eq_refl).
      destruct (join_last_is_letter ws Hw Hne) as (cl & Hcl & Hnsp).
      rewrite (last_ch_nth t0 (join_nonempty ws Hw Hne)) in Hcl.
      replace (r + q)%nat with (length t0 - 1)%nat in Ht0q by lia. rewrite Hcl in Ht0q. inversion Ht0q; subst. discriminate. }
    destruct (HqS ltac:(discriminate)) as [Hq1 Hsl]. rewrite Hsl in *.
    destruct (G_on_word_prefix (r + q) Hkn ltac:(lia) Ht0q) as (k2 & Hk2 & Hm2 & Hf2 & HG2).
    (* the text laid out by the look-ahead is that prefix *)
    assert (Hnflt : firstn r T' ++ rstrip (firstn q slt) = firstn (r + q) t0).
    { assert (Hcat : firstn r T' ++ firstn q slt = firstn (r + q) t0).
      { unfold slt. rewrite firstn_skipn_app. subst T'. rewrite firstn_firstn, Nat.min_l by lia. reflexivity. }
      rewrite rstrip_id; [exact Hcat|].
      assert (Hne2 : firstn q slt <> []).
      { intros E. pose proof (firstn_length_le slt q ltac:(lia)) as Hl. rewrite E in Hl. simpl in Hl. lia. }
      unfold ends_with. rewrite <- (last_ch_app (firstn r T') _ Hne2), Hcat, Hf2.
      apply join_last_letter; [apply words_firstn; exact Hw|apply firstn_nonempty; [lia|exact Hne]]. }
    rewrite Enw in Hnflt. rewrite Hnflt.
    assert (Hsn : simple (firstn (r + q) t0)) by (apply simple_firstn; exact Ht0).
    unfold set_text. rewrite (truncate_simple _ Hsn).
    pose proof (first_simple st (firstn (r + q) t0) W r (Some r) wd Hsn HG2) as Hfirst.
    right. exists {| l_text := firstn (r + q) t0; l_w := l_w Lay; l_wc := l_wc Lay |}.
    cbn [l_w l_wc]. rewrite HLw, HLc, Hfirst. reflexivity.
  Qed.

  Definition greedy_out : outcome :=
    Out greedy_line (Z.of_nat (length greedy_line)) (Some (Z.of_nat r))
        (inject_Z (Z.of_nat (length greedy_line)) * fs)%Q.

  (* steps 2-5 when the breaker found a second line at r on the draft layout X (a prefix of the text) *)
  Lemma after_step1_break T' X mx mt : (k < n)%nat ->
    X = firstn mx t0 -> T' = firstn mt t0 -> (r < mx <= mt)%nat -> (mt <= length t0)%nat ->
    (mt = length t0 \/ exists j, nbp Gattrs {| l_text := X; l_w := Some W; l_wc := false |} (r + 1) mx = Found j) ->
    after_step1 Gp Gattrs st mw pwm ils mini T' X {| l_text := X; l_w := Some W; l_wc := false |}
                (Z.of_nat r, wd) (Some (Z.of_nat r)) = greedy_out.
  Proof.
    intros Hkn HX HT Hmx Hmt SC.
    set (Lay := {| l_text := X; l_w := Some W; l_wc := false |}) in *.
    assert (HsT : simple T') by (subst T'; apply simple_firstn; exact Ht0).
    assert (HsX : simple X) by (subst X; apply simple_firstn; exact Ht0).
    assert (HlT : length T' = mt) by (subst T'; apply firstn_length_le; lia).
    assert (HlX : length X = mx) by (subst X; apply firstn_length_le; lia).
    unfold after_step1. cbn [snd].
    destruct (Qle_bool wd mw) eqn:Efit.
    - (* the line fits *)
      rewrite (bytes_prefix_simple T' HsT r ltac:(lia)), (bytes_suffix_simple T' HsT r ltac:(lia)).
      rewrite (text_eqb_len (firstn r T') X) by (rewrite firstn_length_le, HlX; lia).
      rewrite (firstn_length_le T' r) by lia. rewrite HlX.
      assert (Hlook : forall bp, (forall z, bp = Some z -> z < Z.of_nat (mt - r)) -> (bp = None -> mt = length t0) ->
                match lookahead Gp collapse T' (firstn r T') (skipn r T') bp Lay (Z.of_nat r, wd) (Some (Z.of_nat r)) with
                | inl o => o
                | inr (L1, f1, r1) => steps45 Gp st mw pwm ils mini T' (firstn r T') (skipn r T') false L1 f1 r1
                end = greedy_out).
      { intros bp F1 F2.
        destruct (lookahead_fit T' Lay mt bp Hkn HT ltac:(lia) eq_refl eq_refl F1 F2) as [E|(L1 & E)]; rewrite E.
        - apply (flm_break T' Lay mt Hkn HT). lia.
        - rewrite (steps45_plain st mw pwm ils mini T' (firstn r T') (skipn r T') false L1);
            [|rewrite firstn_skipn; exact HsT|left; exact Efit].
          apply (flm_break T' L1 mt Hkn HT). lia. }
      destruct (nbp Gattrs Lay (r + 1) mx) as [j| |] eqn:Enbp.
      + apply Hlook.
        * intros z Hz. inversion Hz; subst z. unfold nbp in Enbp. apply find_true_bound in Enbp. lia.
        * discriminate.
      + apply Hlook; [discriminate|]. intros _. destruct SC as [E|(j & E)]; [exact E|discriminate].
      + exfalso. rewrite <- HlX in Enbp. exact (nbp_no_oob X (Some W) false (r + 1) Enbp).
    - (* the first word alone is wider than the line *)
      destruct fitline as [E|(Hk1 & Hcb)]; [congruence|].
      assert (Hx0 : X <> []) by (intros E; rewrite E in HlX; simpl in HlX; lia).
      assert (Heq : text_eqb [] X = false) by (destruct X; [congruence|reflexivity]).
      rewrite Heq. cbn [length Nat.add]. rewrite HlX.
      (* the shape of the text: a first word, a space, a letter *)
      assert (Ews : exists w1 w2 r2, ws = w1 :: w2 :: r2).
      { clear - Hkn Hk1. destruct ws as [|w1 [|w2 r2]]; [simpl in Hkn; lia|simpl in Hkn; lia|]. do 3 eexists. reflexivity. }
      destruct Ews as (w1 & w2 & r2 & Ews).
      assert (Hr : r = (length w1 + 1)%nat) by (rewrite Hk1, Ews, wlen_1; reflexivity).
      pose proof Hw as Hww. rewrite Ews in Hww.
      pose proof (Forall_inv Hww) as Hw1. pose proof (Forall_inv (Forall_inv_tail Hww)) as Hw2. cbv beta in Hw1, Hw2.
      destruct w1 as [|a l]; [discriminate|]. destruct w2 as [|b l2]; [discriminate|].
      pose proof (word_letters _ Hw1) as Hl1. cbn [forallb] in Hl1. apply andb_true_iff in Hl1. destruct Hl1 as [Ha Hl].
      pose proof (word_letters _ Hw2) as Hl2. cbn [forallb] in Hl2. apply andb_true_iff in Hl2. destruct Hl2 as [Hb _].
      assert (Ht0s : exists R, t0 = (a :: l) ++ Sp :: b :: R).
      { rewrite Ews, join_cons by discriminate. destruct r2; [exists l2|eexists]; reflexivity. }
      destruct Ht0s as (R & Ht0s).
      assert (Hpre : forall m, (r < m)%nat -> firstn m t0 = (a :: l) ++ Sp :: b :: firstn (m - length (a :: l) - 2) R).
      { intros m Hm. rewrite Ht0s. rewrite firstn_app_ge by (simpl in *; lia).
        destruct (m - length (a :: l))%nat as [|[|m']] eqn:Em; [simpl in *; lia|simpl in *; lia|].
        cbn [firstn]. replace (S (S m') - 2)%nat with m' by lia. reflexivity. }
      assert (Hnbp : nbp Gattrs Lay 1 mx = Found (length l + 1)).
      { unfold nbp, Lay. cbn [l_text]. rewrite HX, (Hpre mx ltac:(lia)). cbn [app Gattrs skipn].
        rewrite (attrs_first_word l a b _ (mx - 1) 0 Ha Hl Hb); [reflexivity|]. simpl in Hr. lia. }
      rewrite Hnbp.
      replace (Z.of_nat (length l + 1) + 1) with (Z.of_nat (length l + 2)) by lia.
      assert (HT' : T' = (a :: l) ++ Sp :: b :: firstn (mt - length (a :: l) - 2) R) by (rewrite HT; apply Hpre; lia).
      unfold lookahead.
      destruct (rstrip (py_slice_to T' (Some (Z.of_nat (length l + 2))))) as [|x nw'] eqn:Enw.
      + rewrite (steps45_plain st mw pwm ils mini T' [] T' false Lay); [|exact HsT|right; exact Hcb].
        apply (flm_break T' Lay mt Hkn HT). lia.
      + destruct (Z.of_nat (length l + 2) =? 0) eqn:Ez; [apply Z.eqb_eq in Ez; lia|].
        unfold py_index. destruct (0 <=? Z.of_nat (length l + 2)) eqn:Ez2; [|apply Z.leb_gt in Ez2; lia].
        rewrite Nat2Z.id.
        (* second_line_text[break_point] is the letter that follows the space *)
        assert (Hc : nth_error T' (length l + 2) = Some b).
        { rewrite HT'. rewrite nth_error_app2 by (simpl; lia).
          replace (length l + 2 - length (a :: l))%nat with 1%nat by (simpl; lia). reflexivity. }
        rewrite Hc.
        assert (Hns : is_sp b = false) by (destruct b; try discriminate; reflexivity).
        rewrite Hns, andb_false_r.
        rewrite (steps45_plain st mw pwm ils mini T' [] T' false Lay); [|exact HsT|right; exact Hcb].
        apply (flm_break T' Lay mt Hkn HT). lia.
  Qed.

  (* steps 2-5 when the breaker put the whole text on the line *)
  Lemma after_step1_whole : k = n ->
    after_step1 Gp Gattrs st mw pwm ils mini t0 t0 {| l_text := t0; l_w := Some W; l_wc := false |}
                (Z.of_nat (length t0), (inject_Z (Z.of_nat (length t0)) * fs)%Q) None =
    Out t0 (Z.of_nat (length t0)) None (inject_Z (Z.of_nat (length t0)) * fs)%Q.
  Proof.
    intros Hkn. unfold after_step1. cbn [snd].
    assert (Hwd : (inject_Z (Z.of_nat (length t0)) * fs == wd)%Q).
    { rewrite <- (wlen_all ws), <- Hkn. reflexivity. }
    destruct (Qle_bool (inject_Z (Z.of_nat (length t0)) * fs) mw) eqn:Efit; [reflexivity|].
    destruct fitline as [E|(Hk1 & Hcb)].
    { exfalso. apply Qle_bool_iff in E. rewrite <- Hwd in E. apply Qle_bool_iff in E. congruence. }
    assert (Hn1 : n = 1%nat) by lia.
    assert (Ews : exists a l, ws = [a :: l] /\ is_letter a = true /\ forallb is_letter l = true).
    { clear - Hn1 Hw. destruct ws as [|w1 [|w2 r2]]; try (simpl in Hn1; lia).
      pose proof (Forall_inv Hw) as Hw1. cbv beta in Hw1. destruct w1 as [|a l]; [discriminate|].
      pose proof (word_letters _ Hw1) as Hl. cbn [forallb] in Hl. apply andb_true_iff in Hl. exists a, l. tauto. }
    destruct Ews as (a & l & Ews & Ha & Hl).
    assert (Et : t0 = a :: l) by (rewrite Ews; reflexivity).
    pose proof (join_last_letter ws Hw Hne) as Hlast. destruct (join_last_is_letter ws Hw Hne) as (c & Hc & Hns).
    pose proof (Ht0) as Hsimple.
    rewrite Et in Hlast, Hc, Hsimple |- *.
    rewrite Hlast. cbn [text_eqb].
    assert (Hnbp : nbp Gattrs {| l_text := a :: l; l_w := Some W; l_wc := false |} (length (@nil ch) + 1) (length (a :: l)) = NotFound).
    { unfold nbp. cbn [l_text Gattrs skipn length Nat.add]. replace (S (length l) - 1)%nat with (length l) by lia.
      apply attrs_letters; assumption. }
    rewrite Hnbp. unfold lookahead. cbn [py_slice_to]. rewrite (rstrip_id _ Hlast).
    rewrite (py_index_last (a :: l)) by discriminate. rewrite Hc, Hns, andb_false_r.
    rewrite (steps45_plain st mw pwm ils mini (a :: l) [] (a :: l) false); [reflexivity|exact Hsimple|right; exact Hcb].
  Qed.

  Definition whole_out : outcome :=
    Out t0 (Z.of_nat (length t0)) None (inject_Z (Z.of_nat (length t0)) * fs)%Q.

  (* step 1 + steps 2-5: the shortcut, the look-ahead and steps 4-5 do not change the answer of the breaker *)
  Lemma sfl_words_core : text_wrap (st_ws st) = true -> Qle_bool two21 mw = false ->
    sfl_model st t0 (Some mw) ils mini = if (k =? n)%nat then whole_out else greedy_out.
  Proof.
    intros Hwrap H21. unfold sfl_model, split_first_line. rewrite Hwrap, H21. cbn [andb negb]. rewrite <- HW.
    match goal with |- context [mk_layout ?s _] => set (short0 := s) end.
    assert (Hshort : exists mx, (mx <= length t0)%nat /\ short0 = firstn mx t0).
    { assert (Hany : forall m, exists mx, (mx <= length t0)%nat /\ firstn m t0 = firstn mx t0).
      { intros m. exists (Nat.min m (length t0)). split; [lia|apply firstn_min]. }
      unfold short0. destruct (negb _); [destruct (find_ch is_sp t0)|]; try apply Hany.
      exists (length t0). split; [lia|symmetry; apply firstn_all]. }
    destruct Hshort as (mx & Hmx & Hs0). clearbody short0.
    assert (Hss : simple short0) by (rewrite Hs0; apply simple_firstn; exact Ht0).
    assert (Hls : length short0 = mx) by (rewrite Hs0; apply firstn_length_le; exact Hmx).
    unfold mk_layout. rewrite (truncate_simple short0 Hss).
    destruct (Gt short0 (Some W) false) as [[l0 r0] wd0] eqn:EG0.
    rewrite (first_simple st short0 W l0 r0 wd0 Hss EG0).
    destruct (G_shape fs true short0 W l0 r0 wd0 Hss EG0) as [(-> & Hl0 & Hwd0)|(-> & Hl0)].
    - (* the draft fits on one line *)
      cbn [option_map].
      destruct (Nat.eq_dec mx (length t0)) as [Emx|Emx].
      + assert (Est : short0 = t0) by (rewrite Hs0, Emx; apply firstn_all).
        rewrite Est in EG0 |- *. rewrite text_eqb_refl. cbn [negb].
        pose proof HGt as HG'. rewrite EG0 in HG'.
        destruct (Nat.eq_dec k n) as [Ekn|Ekn].
        2:{ apply Nat.eqb_neq in Ekn. rewrite Ekn in HG'. discriminate. }
        rewrite (proj2 (Nat.eqb_eq k n) Ekn). rewrite Hl0, Hwd0, Est. apply after_step1_whole. exact Ekn.
      + rewrite (text_eqb_len short0 t0) by lia. cbn [negb]. unfold set_text. cbn [l_w l_wc].
        rewrite (truncate_simple t0 Ht0).
        pose proof HGt as HG'.
        destruct (Nat.eq_dec k n) as [Ekn|Ekn].
        * rewrite (proj2 (Nat.eqb_eq k n) Ekn) in HG' |- *.
          rewrite (first_simple st t0 W _ _ _ Ht0 HG'). cbn [option_map].
          apply after_step1_whole. exact Ekn.
        * rewrite (proj2 (Nat.eqb_neq k n) Ekn) in HG' |- *.
          rewrite (first_simple st t0 W _ _ _ Ht0 HG'). cbn [option_map].
          apply (after_step1_break t0 t0 (length t0) (length t0)); try lia;
            try (symmetry; apply firstn_all).
          pose proof (wlen_all ws). pose proof (join_wlen_gap ws k Hw ltac:(lia)).
          pose proof (wlen_mono_le ws (S k) n ltac:(lia)). lia.
    - (* the draft is broken: the same break is found on the whole text *)
      cbn [option_map].
      pose proof (G_stable fs true t0 mx W l0 l0 wd0 Hfs0 Ht0 Hmx) as Hst. rewrite <- Hs0 in Hst.
      specialize (Hst EG0). rewrite HGt in Hst.
      destruct (Nat.eq_dec k n) as [Ekn|Ekn].
      { rewrite (proj2 (Nat.eqb_eq k n) Ekn) in Hst. discriminate. }
      rewrite (proj2 (Nat.eqb_neq k n) Ekn) in Hst |- *.
      inversion Hst as [[Hl Hr2 Hwd]]. clear Hst Hr2.
      rewrite <- Hl in Hl0.
      rewrite (bytes_prefix_simple short0 Hss r ltac:(lia)).
      rewrite (text_eqb_len (firstn r short0) short0) by (rewrite firstn_length_le; lia). cbn [negb].
      rewrite (firstn_length_le short0 r) by lia. rewrite Hls.
      destruct (nbp Gattrs {| l_text := short0; l_w := Some W; l_wc := false |} (r + 1) mx) as [j| |] eqn:Enbp.
      + apply (after_step1_break short0 short0 mx mx); try lia; try exact Hs0.
        right. exists j. exact Enbp.
      + apply (after_step1_break t0 short0 mx (length t0)); try lia; try exact Hs0;
          try (symmetry; apply firstn_all).
      + exfalso. rewrite <- Hls in Enbp. exact (nbp_no_oob short0 (Some W) false (r + 1) Enbp).
  Qed.
End Core.

(* ========================================================================= the theorem on texts *)
Lemma words_of_nonempty t : words_of t <> [].
Proof. destruct t as [|c t]; [discriminate|]. simpl. destruct (is_sp c); [discriminate|]. destruct (words_of t); discriminate. Qed.
Lemma join_words_of t : join (words_of t) = t.
Proof.
  induction t as [|c t IH]; [reflexivity|]. cbn [words_of]. destruct (is_sp c) eqn:E.
  - destruct c; try discriminate. rewrite join_cons by apply words_of_nonempty. rewrite IH. reflexivity.
  - pose proof (words_of_nonempty t) as Hne. destruct (words_of t) as [|w r] eqn:Ew; [congruence|].
    destruct r as [|w2 r2].
    + cbn [join] in *. rewrite IH. reflexivity.
    + rewrite join_cons in IH by discriminate. rewrite join_cons by discriminate. cbn [app]. rewrite IH. reflexivity.
Qed.
Lemma plain_text_words t : plain_text t = true -> words (words_of t).
Proof. unfold plain_text, words. intros H. apply Forall_forall. rewrite forallb_forall in H. exact H. Qed.

Lemma line_cover collapse ws k : words ws -> (1 <= k <= length ws)%nat ->
  line_of collapse ws k ++ skipped_of collapse ws k ++ rest_of ws k = join ws.
Proof.
  intros Hw Hk. unfold line_of, skipped_of, rest_of. destruct (k =? length ws)%nat eqn:E.
  - apply Nat.eqb_eq in E. subst k. rewrite orb_true_r, firstn_all, skipn_all. cbn [join app]. rewrite !app_nil_r. reflexivity.
  - apply Nat.eqb_neq in E. rewrite orb_false_r. rewrite (join_split ws k ltac:(lia)).
    destruct collapse; cbn [app]; rewrite <- ?app_assoc; reflexivity.
Qed.

Definition avail (mw : Q) : Q := if Qle_bool 0 mw then mw else 0%Q.

(* first_line_is_greedy on a list of words *)
Theorem sfl_words st ws mw ils mini :
  words ws -> ws <> [] -> (0 < st_fs st)%Q -> text_wrap (st_ws st) = true -> Qle_bool two21 mw = false ->
  fits_chars (st_fs st) mw (wlen ws 1) \/ can_break_inside st ils mini = false ->
  let fs := st_fs st in let n := length ws in let collapse := space_collapse (st_ws st) in
  exists k, (1 <= k <= n)%nat /\
    ((2 <= k)%nat -> fits_chars fs (avail mw) (wlen ws k)) /\
    ((k < n)%nat -> ~ fits_chars fs (avail mw) (wlen ws (k + 1))) /\
    sfl_model st (join ws) (Some mw) ils mini =
      Out (line_of collapse ws k) (Z.of_nat (length (line_of collapse ws k)))
          (if (k =? n)%nat then None
           else Some (Z.of_nat (length (line_of collapse ws k) + length (skipped_of collapse ws k))))
          (inject_Z (Z.of_nat (length (line_of collapse ws k))) * fs)%Q.
Proof.
  intros Hw Hne Hfs Hwrap H21 Hguard fs n collapse.
  destruct (G_words fs true ws (avail mw) (Qlt_le_weak _ _ Hfs) Hw Hne) as (k & Hk & Hfit & Hnext & HG).
  exists k. split; [exact Hk|]. split; [exact Hfit|]. split; [exact Hnext|].
  assert (HGt : G fs true (join ws) (Some (avail mw)) false =
                if (k =? n)%nat then (length (join ws), None, (inject_Z (Z.of_nat (length (join ws))) * fs)%Q)
                else ((wlen ws k + 1)%nat, Some (wlen ws k + 1)%nat, (inject_Z (Z.of_nat (wlen ws k)) * fs)%Q)) by exact HG.
  rewrite (sfl_words_core st ws mw (avail mw) ils mini k eq_refl Hfs Hw Hne Hk Hfit Hnext HGt Hguard Hwrap H21).
  unfold whole_out, greedy_out, greedy_line, line_of, skipped_of. fold n. fold collapse.
  destruct (k =? n)%nat eqn:E.
  - apply Nat.eqb_eq in E. rewrite orb_true_r, app_nil_r, E. unfold n. rewrite firstn_all. reflexivity.
  - rewrite orb_false_r. pose proof (wlen_all ws) as Hall.
    assert (Hlen : length (join (firstn k ws)) = wlen ws k) by reflexivity.
    destruct collapse; cbn [app length].
    + rewrite app_nil_r, Hlen. reflexivity.
    + rewrite app_length, Hlen. cbn [length]. rewrite Nat.add_0_r. reflexivity.
Qed.

Lemma greedy_guard_spec st t mw ils mini : greedy_guard st t mw ils mini = true ->
  words (words_of t) /\ (0 < st_fs st)%Q /\ text_wrap (st_ws st) = true /\ Qle_bool two21 mw = false /\
  (fits_chars (st_fs st) mw (wlen (words_of t) 1) \/ can_break_inside st ils mini = false).
Proof.
  unfold greedy_guard. intros H. repeat (apply andb_true_iff in H; destruct H as [H ?]).
  split; [apply plain_text_words; exact H|]. split.
  { destruct (Qlt_le_dec 0 (st_fs st)) as [Hlt|Hle]; [exact Hlt|]. apply Qle_bool_iff in Hle.
    rewrite Hle in *. discriminate. }
  split; [assumption|]. split; [apply negb_true_iff; assumption|].
  match goal with Hor : (_ || _) = true |- _ => apply orb_true_iff in Hor; destruct Hor as [Hc|Hf] end.
  - right. apply negb_true_iff. exact Hc.
  - left. apply Qle_bool_iff. exact Hf.
Qed.

(* C09_first_line_is_greedy: for every text satisfying the guard *)
Theorem first_line_is_greedy st t mw ils mini :
  greedy_guard st t mw ils mini = true ->
  let ws := words_of t in let n := length ws in let fs := st_fs st in let collapse := space_collapse (st_ws st) in
  exists k, (1 <= k <= n)%nat /\
    ((2 <= k)%nat -> fits_chars fs (avail mw) (wlen ws k)) /\
    ((k < n)%nat -> ~ fits_chars fs (avail mw) (wlen ws (k + 1))) /\
    let line := line_of collapse ws k in let skipped := skipped_of collapse ws k in let rest := rest_of ws k in
    t = line ++ skipped ++ rest /\
    forallb is_sp skipped = true /\
    sfl_model st t (Some mw) ils mini =
      Out line (nbytes line) (if (k =? n)%nat then None else Some (nbytes (line ++ skipped)))
          (inject_Z (visw line) * fs)%Q.
Proof.
  intros Hg ws n fs collapse. destruct (greedy_guard_spec st t mw ils mini Hg) as (Hw & Hfs & Hwrap & H21 & Hguard).
  pose proof (words_of_nonempty t) as Hne.
  destruct (sfl_words st (words_of t) mw ils mini Hw Hne Hfs Hwrap H21 Hguard) as (k & Hk & Hfit & Hnext & Hout).
  exists k. split; [exact Hk|]. split; [exact Hfit|]. split; [exact Hnext|]. cbv zeta.
  pose proof (line_cover collapse ws k Hw Hk) as Hcov. unfold ws in Hcov at 4. rewrite join_words_of in Hcov.
  assert (Hsl : simple (line_of collapse ws k ++ skipped_of collapse ws k)).
  { assert (Hs : simple (line_of collapse ws k ++ skipped_of collapse ws k ++ rest_of ws k)).
    { rewrite Hcov. rewrite <- (join_words_of t). apply join_simple. exact Hw. }
    rewrite app_assoc in Hs. apply simple_app in Hs. tauto. }
  split; [symmetry; exact Hcov|]. split.
  { unfold skipped_of. destruct (k =? length ws)%nat; [reflexivity|]. destruct collapse; reflexivity. }
  rewrite join_words_of in Hout. rewrite Hout.
  pose proof Hsl as Hsl2. apply simple_app in Hsl2. destruct Hsl2 as [Hline _].
  rewrite (nbytes_simple _ Hline), (visw_simple _ Hline), (nbytes_simple _ Hsl), app_length. reflexivity.
Qed.

(* ========================================================================= all the lines of a text box *)
Lemma join_first_not_space ws : words ws -> ws <> [] -> exists a l, join ws = a :: l /\ is_sp a = false.
Proof.
  intros Hw Hne. destruct ws as [|w r]; [congruence|]. pose proof (Forall_inv Hw) as Hw1. cbv beta in Hw1.
  destruct w as [|a l]; [discriminate|]. pose proof (word_letters _ Hw1) as Hl. cbn [forallb] in Hl.
  apply andb_true_iff in Hl. destruct Hl as [Ha _].
  assert (is_sp a = false) by (destruct a; try discriminate; reflexivity).
  destruct r; [exists a, l|rewrite join_cons by discriminate; eexists a, _]; split; try reflexivity; assumption.
Qed.
Lemma lstrip_not_space a l : is_sp a = false -> lstrip (a :: l) = ([], a :: l).
Proof. intros H. cbn [lstrip]. rewrite H. reflexivity. Qed.

Definition line_ok (p : text * text) : Prop := fst p <> [] /\ forallb is_sp (snd p) = true.
Definition flatten (ls : list (text * text)) : text := concat (map (fun p => fst p ++ snd p) ls).

Lemma split_lines_words st mw mini :
  (0 < st_fs st)%Q -> text_wrap (st_ws st) = true -> Qle_bool two21 mw = false ->
  forall fuel ws, words ws -> ws <> [] ->
  can_break_inside st true mini = false \/ Forall (fun w => fits_chars (st_fs st) mw (length w)) ws ->
  (length (join ws) < fuel)%nat ->
  exists ls, split_lines fuel st (join ws) mw mini = Some ls /\ flatten ls = join ws /\
             Forall line_ok ls /\ (1 <= length ls <= length ws)%nat.
Proof.
  intros Hfs Hwrap H21. induction fuel as [|f IH]; intros ws Hw Hne Hcb Hlen; [lia|].
  set (collapse := space_collapse (st_ws st)).
  assert (Hguard : fits_chars (st_fs st) mw (wlen ws 1) \/ can_break_inside st true mini = false).
  { destruct Hcb as [H|H]; [right; exact H|left]. destruct ws as [|w r]; [congruence|]. rewrite wlen_1. exact (Forall_inv H). }
  destruct (sfl_words st ws mw true mini Hw Hne Hfs Hwrap H21 Hguard) as (k & Hk & _ & _ & Hout).
  fold collapse in Hout. cbn [split_lines]. rewrite Hout. clear Hout.
  set (line := line_of collapse ws k) in *. set (sk := skipped_of collapse ws k) in *. set (rest := rest_of ws k).
  pose proof (line_cover collapse ws k Hw Hk) as Hcov. fold line sk rest in Hcov.
  assert (Ht : simple (join ws)) by (apply join_simple; exact Hw).
  assert (Hlt : length (join ws) = (length line + (length sk + length rest))%nat) by (rewrite <- Hcov, !app_length; reflexivity).
  assert (Hline : line <> []).
  { unfold line, line_of. intros E. apply app_eq_nil in E. destruct E as [E _].
    apply (join_nonempty (firstn k ws)); [apply words_firstn; exact Hw|apply firstn_nonempty; [lia|exact Hne]|exact E]. }
  assert (Hl1 : (1 <= length line)%nat) by (destruct line; [congruence|simpl; lia]).
  rewrite (bytes_prefix_simple _ Ht (length line) ltac:(lia)).
  assert (Hfl : firstn (length line) (join ws) = line) by (rewrite <- Hcov; apply firstn_app_exact).
  rewrite Hfl.
  assert (Hsk : forallb is_sp sk = true).
  { unfold sk, skipped_of. destruct (k =? length ws)%nat; [reflexivity|]. destruct collapse; reflexivity. }
  destruct (k =? length ws)%nat eqn:Ekn.
  - (* last line *)
    rewrite (bytes_suffix_simple _ Ht (length line) ltac:(lia)).
    assert (Hsr : skipn (length line) (join ws) = sk ++ rest) by (rewrite <- Hcov; apply skipn_app_exact).
    rewrite Hsr. apply Nat.eqb_eq in Ekn.
    assert (Hrest : rest = []) by (unfold rest, rest_of; rewrite Ekn, skipn_all; reflexivity).
    eexists. split; [reflexivity|]. unfold flatten. cbn [map concat fst snd]. rewrite app_nil_r.
    split; [exact Hcov|]. split.
    + constructor; [|constructor]. split; [exact Hline|]. cbn [snd]. rewrite Hrest, app_nil_r. exact Hsk.
    + cbn [length]. lia.
  - (* a line followed by others *)
    apply Nat.eqb_neq in Ekn. assert (Hkn : (k < length ws)%nat) by lia.
    rewrite (bytes_prefix_simple _ Ht (length line + length sk) ltac:(lia)).
    rewrite (bytes_suffix_simple _ Ht (length line + length sk) ltac:(lia)).
    assert (Hup : firstn (length line + length sk) (join ws) = line ++ sk).
    { rewrite <- Hcov, app_assoc, <- app_length. apply firstn_app_exact. }
    assert (Hrs : skipn (length line + length sk) (join ws) = rest).
    { rewrite <- Hcov, app_assoc, <- app_length. apply skipn_app_exact. }
    rewrite Hup, Hrs.
    destruct (Z.of_nat (length line + length sk) <=? 0) eqn:Ez; [apply Z.leb_le in Ez; lia|].
    rewrite skipn_app_exact.
    assert (Hw' : words (skipn k ws)) by (apply words_skipn; exact Hw).
    assert (Hne' : skipn k ws <> []) by (apply skipn_nonempty; exact Hkn).
    destruct (join_first_not_space (skipn k ws) Hw' Hne') as (a & l & Ea & Hns).
    assert (Hls : (if collapse then lstrip rest else ([], rest)) = ([], rest)).
    { destruct collapse; [|reflexivity]. unfold rest, rest_of. rewrite Ea. apply lstrip_not_space. exact Hns. }
    fold collapse. rewrite Hls.
    assert (Hrne : rest <> []) by (unfold rest, rest_of; rewrite Ea; discriminate).
    destruct (IH (skipn k ws) Hw' Hne') as (ls & Hsl & Hflat & Hok & Hnl).
    + destruct Hcb as [H|H]; [left; exact H|right].
      apply Forall_forall. intros w Hin. rewrite Forall_forall in H. apply H.
      rewrite <- (firstn_skipn k ws). apply in_or_app. right. exact Hin.
    + change (join (skipn k ws)) with rest. lia.
    + change (join (skipn k ws)) with rest in Hsl, Hflat.
      destruct rest as [|x rl] eqn:Er; [congruence|]. rewrite Hsl.
      eexists. split; [reflexivity|]. unfold flatten in *. cbn [map concat fst snd].
      replace (sk ++ []) with sk by (symmetry; apply app_nil_r).
      split; [rewrite Hflat, <- app_assoc; exact Hcov|]. split.
      * constructor; [|exact Hok]. split; [exact Hline|]. exact Hsk.
      * cbn [length]. rewrite skipn_length in Hnl. lia.
Qed.

(* lines_cover_text: iterating first-line splitting terminates (the remaining text gets strictly shorter, fuel =
   length of the text + 1 is enough) and the lines with the white space skipped after each of them are the text *)
Theorem lines_cover_text st t mw mini :
  greedy_guard_all st t mw mini = true ->
  exists ls, split_lines (S (length t)) st t mw mini = Some ls /\
             flatten ls = t /\ Forall line_ok ls /\ (1 <= length ls <= length (words_of t))%nat.
Proof.
  unfold greedy_guard_all. intros H. repeat (apply andb_true_iff in H; destruct H as [H ?]).
  assert (Hfs : (0 < st_fs st)%Q).
  { destruct (Qlt_le_dec 0 (st_fs st)) as [Hlt|Hle]; [exact Hlt|]. apply Qle_bool_iff in Hle.
    match goal with Hn : negb (Qle_bool (st_fs st) 0) = true |- _ => rewrite Hle in Hn; discriminate end. }
  pose proof (plain_text_words t H) as Hw.
  pose proof (split_lines_words st mw mini Hfs) as HS.
  assert (H21 : Qle_bool two21 mw = false) by (apply negb_true_iff; assumption).
  specialize (HS ltac:(assumption) H21 (S (length t)) (words_of t) Hw (words_of_nonempty t)).
  rewrite join_words_of in HS. apply HS; [|lia].
  match goal with Hor : (_ || _) = true |- _ => apply orb_true_iff in Hor; destruct Hor as [Hc|Hf] end.
  - left. apply negb_true_iff. exact Hc.
  - right. apply Forall_forall. intros w Hin. rewrite forallb_forall in Hf. apply Qle_bool_iff. exact (Hf w Hin).
Qed.
