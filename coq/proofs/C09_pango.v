(* C09 - lemmas about the reference first-fit breaker G (model/C09Line.v) on simple texts (letters and spaces):
   the scan is a pick over the list of break candidates, and the answer obtained on a prefix of the text that
   does not fit is the answer on the whole text (this is why the "short text" shortcut of split_first_line is
   sound). *)
From Coq Require Import ZArith QArith Lqa List Bool Lia.
Require Import WV.model.C09Line.
Import ListNotations.
Open Scope Z_scope.

Definition simple_ch (c : ch) : bool := is_letter c || is_sp c.
Definition simple (t : text) : Prop := forallb simple_ch t = true.

Lemma simple_cons c t : simple (c :: t) <-> simple_ch c = true /\ simple t.
Proof. unfold simple. simpl. rewrite andb_true_iff. tauto. Qed.
Lemma simple_app a b : simple (a ++ b) <-> simple a /\ simple b.
Proof. unfold simple. rewrite forallb_app, andb_true_iff. tauto. Qed.
Lemma simple_firstn n t : simple t -> simple (firstn n t).
Proof.
  revert n. induction t as [|c t IH]; intros [|n] H; simpl; try reflexivity.
  apply simple_cons in H. apply simple_cons. split; [tauto|apply IH; tauto].
Qed.
Lemma simple_skipn n t : simple t -> simple (skipn n t).
Proof.
  revert n. induction t as [|c t IH]; intros [|n] H; simpl; try assumption; try reflexivity.
  apply simple_cons in H. apply IH; tauto.
Qed.

Lemma simple_vis c : simple_ch c = true -> vis c = 1.
Proof. destruct c; simpl; intros; try reflexivity; discriminate. Qed.
Lemma simple_bytes c : simple_ch c = true -> nbytes_ch c = 1.
Proof. destruct c; simpl; intros; try reflexivity; discriminate. Qed.
Lemma simple_not_nl c : simple_ch c = true -> is_nl c = false.
Proof. destruct c; simpl; intros; try reflexivity; discriminate. Qed.
Lemma simple_not_shy c : simple_ch c = true -> is_shy c = false.
Proof. destruct c; simpl; intros; try reflexivity; discriminate. Qed.

Lemma visw_simple t : simple t -> visw t = Z.of_nat (length t).
Proof.
  induction t as [|c t IH]; intros H; [reflexivity|].
  apply simple_cons in H. destruct H as [Hc Ht]. cbn [visw length]. rewrite (simple_vis c Hc), (IH Ht). lia.
Qed.
Lemma nbytes_simple t : simple t -> nbytes t = Z.of_nat (length t).
Proof.
  induction t as [|c t IH]; intros H; [reflexivity|].
  apply simple_cons in H. destruct H as [Hc Ht]. cbn [nbytes length]. rewrite (simple_bytes c Hc), (IH Ht). lia.
Qed.
Lemma para_simple t : simple t -> para t = t.
Proof.
  induction t as [|c t IH]; intros H; [reflexivity|].
  apply simple_cons in H. destruct H as [Hc Ht]. simpl. rewrite (simple_not_nl c Hc), (IH Ht). reflexivity.
Qed.
Lemma has_nl_simple t : simple t -> has_ch is_nl t = false.
Proof.
  induction t as [|c t IH]; intros H; [reflexivity|].
  apply simple_cons in H. destruct H as [Hc Ht]. simpl. rewrite (simple_not_nl c Hc), (IH Ht). reflexivity.
Qed.
Lemma has_shy_simple t : simple t -> has_ch is_shy t = false.
Proof.
  induction t as [|c t IH]; intros H; [reflexivity|].
  apply simple_cons in H. destruct H as [Hc Ht]. simpl. rewrite (simple_not_shy c Hc), (IH Ht). reflexivity.
Qed.
Lemma find_nl_simple t : simple t -> find_ch is_nl t = None.
Proof.
  induction t as [|c t IH]; intros H; [reflexivity|].
  apply simple_cons in H. destruct H as [Hc Ht]. simpl. rewrite (simple_not_nl c Hc), (IH Ht). reflexivity.
Qed.
Lemma truncate_simple t : simple t -> truncate t = t.
Proof. intros H. unfold truncate. rewrite (find_nl_simple t H). reflexivity. Qed.

Lemma bytes_prefix_simple t : simple t -> forall n, (n <= length t)%nat ->
  bytes_prefix t (Z.of_nat n) = Some (firstn n t).
Proof.
  induction t as [|c t IH]; intros H n Hn.
  - destruct n; reflexivity.
  - apply simple_cons in H. destruct H as [Hc Ht]. destruct n as [|n]; [reflexivity|].
    cbn [bytes_prefix firstn]. rewrite (simple_bytes c Hc).
    destruct (Z.of_nat (S n) <=? 0) eqn:E1; [apply Z.leb_le in E1; lia|].
    destruct (Z.of_nat (S n) <? 1) eqn:E2; [apply Z.ltb_lt in E2; lia|].
    replace (Z.of_nat (S n) - 1) with (Z.of_nat n) by lia.
    rewrite IH; [reflexivity|assumption|simpl in Hn; lia].
Qed.
Lemma bytes_suffix_simple t : simple t -> forall n, (n <= length t)%nat ->
  bytes_suffix t (Z.of_nat n) = Some (skipn n t).
Proof.
  induction t as [|c t IH]; intros H n Hn.
  - destruct n; reflexivity.
  - apply simple_cons in H. destruct H as [Hc Ht]. destruct n as [|n]; [reflexivity|].
    cbn [bytes_suffix skipn]. rewrite (simple_bytes c Hc).
    destruct (Z.of_nat (S n) <=? 0) eqn:E1; [apply Z.leb_le in E1; lia|].
    destruct (Z.of_nat (S n) <? 1) eqn:E2; [apply Z.ltb_lt in E2; lia|].
    replace (Z.of_nat (S n) - 1) with (Z.of_nat n) by lia.
    apply IH; [assumption|simpl in Hn; lia].
Qed.

(* ------------------------------------------------------------------ the scan as a pick over candidates *)
Section Cands.
  Variable fs : Q.
  Variable ins : bool.

  Fixpoint cands (wc : bool) (a : ch) (rest : text) (i : nat) (acc : Z) : list (nat * Z) :=
    match rest with
    | [] => []
    | b :: rest' =>
        (if break_before wc a b then [(i, cost_at ins wc acc a b)] else [])
          ++ cands wc b rest' (S i) (acc + vis b)
    end.
  Fixpoint pick (w : Q) (best : option (nat * Z)) (l : list (nat * Z)) : option (nat * Z) :=
    match l with
    | [] => best
    | (i, c) :: l' => if fits fs w c then pick w (Some (i, c)) l'
                      else match best with Some _ => best | None => Some (i, c) end
    end.

  Lemma scan_pick w wc rest : forall a i acc best,
    scan fs ins w wc a rest i acc best = pick w best (cands wc a rest i acc).
  Proof.
    induction rest as [|b rest IH]; intros a i acc best; [reflexivity|].
    cbn [scan cands]. destruct (break_before wc a b); cbn [app pick].
    - destruct (fits fs w (cost_at ins wc acc a b)); [apply IH|reflexivity].
    - apply IH.
  Qed.

  Lemma pick_app w l1 : forall best l2,
    pick w best (l1 ++ l2) =
    if forallb (fun p => fits fs w (snd p)) l1 then pick w (match l1 with [] => best | _ => Some (last l1 (O, 0)) end) l2
    else pick w best l1.
  Proof.
    induction l1 as [|[i c] l1 IH]; intros best l2; [reflexivity|].
    cbn [app pick forallb snd]. destruct (fits fs w c); cbn [andb].
    - rewrite IH. destruct (forallb _ l1); [|reflexivity]. destruct l1; reflexivity.
    - reflexivity.
  Qed.

  (* when no candidate of l2 fits and l1 is not empty, l2 does not change the pick *)
  Lemma pick_app_nofit w l1 l2 best :
    l1 <> [] -> (forall p, In p l2 -> fits fs w (snd p) = false) -> pick w best (l1 ++ l2) = pick w best l1.
  Proof.
    intros Hne Hno. rewrite pick_app. destruct (forallb _ l1) eqn:E; [|reflexivity].
    assert (Hl1 : pick w best l1 = Some (last l1 (O, 0))).
    { clear Hno. revert best E Hne. induction l1 as [|[i c] l1 IH]; intros best E Hne; [exfalso; apply Hne; reflexivity|].
      cbn [forallb snd] in E. apply andb_true_iff in E. destruct E as [E1 E2]. cbn [pick]. rewrite E1.
      destruct l1 as [|q l1]; [reflexivity|]. rewrite (IH _ E2); [reflexivity|discriminate]. }
    rewrite Hl1. destruct l1 as [|p1 l1]; [exfalso; apply Hne; reflexivity|].
    destruct l2 as [|[j c] l2]; [reflexivity|]. cbn [pick].
    pose proof (Hno (j, c) (or_introl eq_refl)) as Hj. cbn [snd] in Hj. rewrite Hj. reflexivity.
  Qed.
End Cands.

Lemma visw_app a b : visw (a ++ b) = visw a + visw b.
Proof. induction a as [|c a IH]; [reflexivity|]. cbn [app visw]. rewrite IH. lia. Qed.
Lemma nbytes_app a b : nbytes (a ++ b) = nbytes a + nbytes b.
Proof. induction a as [|c a IH]; [reflexivity|]. cbn [app nbytes]. rewrite IH. lia. Qed.

(* ------------------------------------------------------------------------ candidates of a prefix *)
Fixpoint lastc (a : ch) (l : text) : ch := match l with [] => a | b :: l' => lastc b l' end.

Lemma lastc_last_ch a l : last_ch (a :: l) = Some (lastc a l).
Proof. revert a. induction l as [|b l IH]; intros a; [reflexivity|]. cbn [lastc]. rewrite <- IH. reflexivity. Qed.

Lemma cands_split ins wc rest : forall m a i acc, (m <= length rest)%nat ->
  cands ins wc a rest i acc =
  cands ins wc a (firstn m rest) i acc ++
  cands ins wc (lastc a (firstn m rest)) (skipn m rest) (i + m) (acc + visw (firstn m rest)).
Proof.
  induction rest as [|b rest IH]; intros m a i acc Hm.
  - destruct m; simpl in *; [|lia]. reflexivity.
  - destruct m as [|m].
    + cbn [firstn skipn lastc visw cands app]. rewrite Nat.add_0_r, Z.add_0_r. reflexivity.
    + cbn [firstn skipn lastc visw cands]. rewrite <- app_assoc. f_equal.
      rewrite (IH m b (S i) (acc + vis b)); [|simpl in Hm; lia].
      replace (S i + m)%nat with (i + S m)%nat by lia.
      replace (acc + vis b + visw (firstn m rest)) with (acc + (vis b + visw (firstn m rest))) by lia.
      reflexivity.
Qed.

Lemma hyph_at_simple ins a b : simple_ch a = true -> hyph_at ins false a b = false.
Proof. intros Ha. unfold hyph_at. rewrite (simple_not_shy a Ha). simpl. apply andb_false_r. Qed.

Lemma cands_lower_bound ins rest : forall x j acc, simple_ch x = true -> simple rest ->
  forall p, In p (cands ins false x rest j acc) -> acc - (if is_sp x then 1 else 0) <= snd p.
Proof.
  induction rest as [|b rest IH]; intros x j acc Hx Hr p Hin; [destruct Hin|].
  apply simple_cons in Hr. destruct Hr as [Hb Hr]. cbn [cands] in Hin. apply in_app_or in Hin.
  destruct Hin as [Hin|Hin].
  - destruct (break_before false x b); [|destruct Hin]. destruct Hin as [<-|[]]. cbn [snd].
    unfold cost_at. rewrite (hyph_at_simple ins x b Hx). destruct (is_sp x); lia.
  - specialize (IH b (S j) (acc + vis b) Hb Hr p Hin). rewrite (simple_vis b Hb) in IH.
    destruct (is_sp x), (is_sp b); lia.
Qed.

Lemma fits_mono fs w c1 c2 : (0 <= fs)%Q -> c1 <= c2 -> fits fs w c1 = false -> fits fs w c2 = false.
Proof.
  intros Hfs Hc H. unfold fits in *. destruct (Qle_bool (inject_Z c2 * fs) w) eqn:E; [|reflexivity].
  apply Qle_bool_iff in E. assert (Hle : (inject_Z c1 * fs <= w)%Q).
  { eapply Qle_trans; [|exact E]. apply Qmult_le_compat_r; [|exact Hfs]. rewrite <- Zle_Qle. exact Hc. }
  apply Qle_bool_iff in Hle. congruence.
Qed.

Lemma ends_with_lastc p a l : ends_with p (a :: l) = p (lastc a l).
Proof. unfold ends_with. rewrite lastc_last_ch. reflexivity. Qed.

Lemma firstn_length_le {A} (l : list A) n : (n <= length l)%nat -> length (firstn n l) = n.
Proof. intros. rewrite firstn_length. lia. Qed.

(* the shortcut is sound: an answer with a second line, obtained on a prefix, is the answer on the whole text *)
Lemma G_stable fs ins t m w l r wd :
  (0 <= fs)%Q -> simple t -> (m <= length t)%nat ->
  G fs ins (firstn m t) (Some w) false = (l, Some r, wd) ->
  G fs ins t (Some w) false = (l, Some r, wd).
Proof.
  intros Hfs Ht Hm HG.
  destruct t as [|a rest]; [destruct m; simpl in HG; unfold G in HG; simpl in HG;
    destruct (fits fs w 0); discriminate|].
  destruct m as [|m]; [unfold G in HG; simpl in HG; destruct (fits fs w 0); discriminate|].
  apply simple_cons in Ht. destruct Ht as [Ha Hrest]. simpl in Hm. assert (Hm' : (m <= length rest)%nat) by lia.
  cbn [firstn] in HG.
  assert (HX : simple (a :: firstn m rest)) by (apply simple_cons; split; [exact Ha|apply simple_firstn; exact Hrest]).
  assert (HT : simple (a :: rest)) by (apply simple_cons; split; assumption).
  unfold G in *. rewrite (para_simple _ HX), (has_nl_simple _ HX) in HG.
  rewrite (para_simple _ HT), (has_nl_simple _ HT).
  rewrite ends_with_lastc in *. cbn [visw] in *.
  set (accX := vis a + visw (firstn m rest)) in *.
  set (x := lastc a (firstn m rest)) in *.
  destruct (fits fs w (if is_sp x then accX - 1 else accX)) eqn:EX; [discriminate|].
  rewrite scan_pick in HG. rewrite scan_pick.
  rewrite (cands_split ins false rest m a 1 (vis a) Hm').
  fold accX. fold x.
  assert (Hxs : simple_ch x = true).
  { unfold x. clear - Ha Hrest. revert a Ha. generalize (simple_firstn m rest Hrest). generalize (firstn m rest).
    intros l. induction l as [|b l IH]; intros Hl a Ha; [exact Ha|]. apply simple_cons in Hl. apply IH; tauto. }
  assert (Htail : forall p, In p (cands ins false x (skipn m rest) (1 + m) accX) -> fits fs w (snd p) = false).
  { intros p Hp. pose proof (cands_lower_bound ins (skipn m rest) x (1 + m)%nat accX Hxs (simple_skipn m rest Hrest) p Hp) as Hlb.
    eapply fits_mono; [exact Hfs| |exact EX]. destruct (is_sp x); lia. }
  (* the whole text does not fit either *)
  assert (Hend : fits fs w (if is_sp (lastc a rest) then vis a + visw rest - 1 else vis a + visw rest) = false).
  { destruct (skipn m rest) as [|b tl] eqn:Esk.
    - assert (Hfr : firstn m rest = rest).
      { rewrite <- (firstn_skipn m rest) at 2. rewrite Esk, app_nil_r. reflexivity. }
      unfold x, accX in EX. rewrite Hfr in EX. exact EX.
    - assert (Hdec : rest = firstn m rest ++ b :: tl) by (rewrite <- Esk; symmetry; apply firstn_skipn).
      assert (Hbt : simple (b :: tl)) by (rewrite <- Esk; apply simple_skipn; exact Hrest).
      assert (Hv : visw rest = visw (firstn m rest) + visw (b :: tl)).
      { rewrite Hdec at 1. apply visw_app. }
      rewrite (visw_simple _ Hbt) in Hv. simpl length in Hv.
      eapply fits_mono; [exact Hfs| |exact EX]. unfold accX.
      destruct (is_sp x), (is_sp (lastc a rest)); lia. }
  rewrite Hend.
  destruct (pick fs w None (cands ins false a (firstn m rest) 1 (vis a))) as [[i c]|] eqn:EP; [|discriminate].
  rewrite pick_app_nofit; [rewrite EP; exact HG| |exact Htail].
  intros Hnil. rewrite Hnil in EP. discriminate.
Qed.

(* ------------------------------------------------------------------------ word lists *)
Require Import WV.model.C09Spec.

Definition words (ws : list text) : Prop := Forall (fun w => is_word w = true) ws.

Lemma letters_simple t : forallb is_letter t = true -> simple t.
Proof.
  unfold simple. induction t as [|c t IH]; [reflexivity|].
  cbn [forallb]. intros H. apply andb_true_iff in H. destruct H as [H1 H2]. unfold simple_ch at 1. rewrite H1, (IH H2). reflexivity.
Qed.
Lemma word_simple w : is_word w = true -> simple w /\ w <> [].
Proof.
  destruct w as [|a l]; [discriminate|]. intros H. split; [|discriminate]. apply letters_simple. exact H.
Qed.
Lemma word_letters w : is_word w = true -> forallb is_letter w = true.
Proof. destruct w; [discriminate|]. intros H; exact H. Qed.

Lemma join_cons w r : r <> [] -> join (w :: r) = w ++ Sp :: join r.
Proof. destruct r; [congruence|reflexivity]. Qed.

Lemma join_simple ws : words ws -> simple (join ws).
Proof.
  induction 1 as [|w r Hw Hr IH]; [reflexivity|].
  destruct r as [|w2 r]; [exact (proj1 (word_simple w Hw))|].
  rewrite join_cons by discriminate. apply simple_app. split; [exact (proj1 (word_simple w Hw))|].
  apply simple_cons. split; [reflexivity|exact IH].
Qed.

Lemma join_length_cons w r : r <> [] -> length (join (w :: r)) = (length w + 1 + length (join r))%nat.
Proof. intros H. rewrite join_cons by exact H. rewrite app_length. simpl. lia. Qed.

Lemma wlen_0 ws : wlen ws 0 = O. Proof. reflexivity. Qed.
Lemma wlen_1 w r : wlen (w :: r) 1 = length w. Proof. reflexivity. Qed.
Lemma wlen_SS w w2 r k : wlen (w :: w2 :: r) (S (S k)) = (length w + 1 + wlen (w2 :: r) (S k))%nat.
Proof. unfold wlen. cbn [firstn]. rewrite join_length_cons by discriminate. reflexivity. Qed.
Lemma wlen_all ws : wlen ws (length ws) = length (join ws).
Proof. unfold wlen. rewrite firstn_all. reflexivity. Qed.

(* walking across letters produces no candidate *)
Lemma cands_letters ins l : forall a R i acc, is_letter a = true -> forallb is_letter l = true ->
  cands ins false a (l ++ R) i acc =
  cands ins false (lastc a l) R (i + length l) (acc + Z.of_nat (length l)) /\ is_letter (lastc a l) = true.
Proof.
  induction l as [|b l IH]; intros a R i acc Ha Hl.
  - cbn [app lastc length]. rewrite Nat.add_0_r, Z.add_0_r. split; [reflexivity|exact Ha].
  - cbn [forallb] in Hl. apply andb_true_iff in Hl. destruct Hl as [Hb Hl].
    cbn [app cands lastc length]. 
    assert (Hbb : break_before false a b = false).
    { unfold break_before. destruct a; try discriminate. reflexivity. }
    rewrite Hbb. cbn [app]. destruct (IH b R (S i) (acc + vis b) Hb Hl) as [E1 E2]. rewrite E1. split; [|exact E2].
    assert (vis b = 1) by (destruct b; try discriminate; reflexivity).
    f_equal; lia.
Qed.

(* candidates of join ws, the text starting `off` characters into the line *)
Fixpoint wcands (off : nat) (ws : list text) : list (nat * Z) :=
  match ws with
  | w :: ((_ :: _) as r) => ((off + length w + 1)%nat, Z.of_nat (off + length w)) :: wcands (off + length w + 1) r
  | _ => []
  end.

Lemma wcands_cons2 off w w2 r :
  wcands off (w :: w2 :: r) = ((off + length w + 1)%nat, Z.of_nat (off + length w)) :: wcands (off + length w + 1) (w2 :: r).
Proof. reflexivity. Qed.

Lemma cands_join ins ws : words ws -> forall off a l, ws <> [] -> hd [] ws = a :: l ->
  cands ins false a (l ++ match tl ws with [] => [] | r => Sp :: join r end) (S off) (Z.of_nat (S off)) = wcands off ws.
Proof.
  induction 1 as [|w r Hw Hr IH]; intros off a l Hne Hhd; [congruence|].
  cbn [hd] in Hhd. subst w. cbn [tl].
  pose proof (word_letters _ Hw) as Hlet. cbn [forallb] in Hlet. apply andb_true_iff in Hlet. destruct Hlet as [Ha Hl].
  destruct r as [|w2 r2].
  - rewrite app_nil_r. destruct (cands_letters ins l a [] (S off) (Z.of_nat (S off)) Ha Hl) as [E _].
    rewrite app_nil_r in E. rewrite E. reflexivity.
  - destruct (cands_letters ins l a (Sp :: join (w2 :: r2)) (S off) (Z.of_nat (S off)) Ha Hl) as [E Hx]. rewrite E.
    inversion Hr as [|? ? Hw2 Hr2]; subst.
    destruct w2 as [|b l2]; [discriminate|].
    assert (Hj : join ((b :: l2) :: r2) = b :: (l2 ++ match r2 with [] => [] | r => Sp :: join r end)).
    { destruct r2; [cbn [join]; rewrite app_nil_r; reflexivity|reflexivity]. }
    unfold text in *. rewrite Hj. set (x := lastc a l) in *.
    cbn [cands]. 
    assert (Hb1 : break_before false x Sp = false) by (unfold break_before; destruct x; try discriminate; reflexivity).
    rewrite Hb1. cbn [app].
    pose proof (word_letters _ Hw2) as Hlet2. cbn [forallb] in Hlet2. apply andb_true_iff in Hlet2. destruct Hlet2 as [Hb _].
    assert (Hb2 : break_before false Sp b = true) by (unfold break_before; destruct b; try discriminate; reflexivity).
    rewrite Hb2. cbn [app]. rewrite wcands_cons2. cbn [length].
    unfold cost_at. cbn [is_sp vis].
    specialize (IH (off + S (length l) + 1)%nat b l2 ltac:(discriminate) eq_refl). cbn [tl] in IH.
    f_equal.
    + f_equal; lia.
    + replace (S (S (S off + length l))) with (S (off + S (length l) + 1)) by lia.
      replace (Z.of_nat (S off) + Z.of_nat (length l) + 1 + vis b) with (Z.of_nat (S (off + S (length l) + 1))).
      * destruct r2; exact IH.
      * assert (vis b = 1) by (destruct b; try discriminate; reflexivity). lia.
Qed.

Lemma wcands_seq ws : forall off,
  wcands off ws = map (fun k => ((off + wlen ws k + 1)%nat, Z.of_nat (off + wlen ws k))) (seq 1 (length ws - 1)).
Proof.
  induction ws as [|w r IH]; intros off; [reflexivity|].
  destruct r as [|w2 r2]; [reflexivity|].
  rewrite wcands_cons2. cbn [length]. replace (S (S (length r2)) - 1)%nat with (S (length r2)) by lia.
  cbn [seq map]. rewrite wlen_1. f_equal.
  rewrite IH. cbn [length]. replace (S (length r2) - 1)%nat with (length r2) by lia.
  rewrite <- (seq_shift (length r2) 1), map_map. apply map_ext_in. intros k Hk. apply in_seq in Hk.
  destruct k as [|k]; [lia|]. rewrite wlen_SS. f_equal; [lia|]. f_equal. lia.
Qed.

Section PickSeq.
  Variable fs w : Q.
  Variable f : nat -> nat * Z.
  Let fitsk k := fits fs w (snd (f k)) = true.
  Hypothesis mono : forall k, fitsk (S k) -> fitsk k.

  Lemma pick_seq m : forall s best, (1 <= s)%nat ->
    (s = 1%nat -> best = None) -> ((1 < s)%nat -> best = Some (f (s - 1)) /\ fitsk (s - 1)) ->
    (m = O /\ pick fs w best (map f (seq s m)) = best) \/
    exists k, pick fs w best (map f (seq s m)) = Some (f k) /\ (1 <= k)%nat /\ (s - 1 <= k <= s + m - 1)%nat /\
              ((k + 1 <= s + m - 1)%nat -> ~ fitsk (k + 1)) /\ ((2 <= k)%nat -> fitsk k).
  Proof.
    induction m as [|m IH]; intros s best Hs H1 H2; [left; split; reflexivity|].
    right. cbn [seq map pick]. destruct (f s) as [i c] eqn:Ef.
    destruct (fits fs w c) eqn:Efit.
    - assert (Hfs : fitsk s) by (unfold fitsk; rewrite Ef; exact Efit).
      destruct (IH (S s) (Some (i, c)) ltac:(lia) ltac:(lia)) as [[Hm Hp]|[k (Hp & Hk1 & Hk2 & Hk3 & Hk4)]].
      + intros _. replace (S s - 1)%nat with s by lia. rewrite Ef. split; [reflexivity|exact Hfs].
      + exists s. rewrite Hp, <- Ef. subst m. repeat split; try lia. intros _. exact Hfs.
      + exists k. rewrite Hp. repeat split; try lia; try assumption. intros Hle. apply Hk3. lia.
    - assert (Hnf : ~ fitsk s) by (unfold fitsk; rewrite Ef; cbn [snd]; congruence).
      destruct (Nat.eq_dec s 1) as [->|Hne].
      + rewrite (H1 eq_refl). exists 1%nat. rewrite Ef. repeat split; try lia.
        intros _ Hf2. apply Hnf. apply mono. exact Hf2.
      + destruct (H2 ltac:(lia)) as [Hb Hfb]. rewrite Hb. exists (s - 1)%nat. repeat split; try lia.
        * intros _. replace (s - 1 + 1)%nat with s by lia. exact Hnf.
        * intros _. exact Hfb.
  Qed.
End PickSeq.

Lemma last_ch_app (u v : text) : v <> [] -> last_ch (u ++ v) = last_ch v.
Proof.
  induction u as [|c u IHu]; intros Hv; [reflexivity|]. cbn [app last_ch]. rewrite <- (IHu Hv).
  destruct (u ++ v) eqn:E; [destruct u; [simpl in E; congruence|discriminate]|reflexivity].
Qed.
Lemma join_nonempty ws : words ws -> ws <> [] -> join ws <> [].
Proof.
  intros H Hne. destruct H as [|w r Hw Hr]; [congruence|].
  destruct w as [|a l]; [discriminate|]. destruct r; discriminate.
Qed.
Lemma join_last_letter ws : words ws -> ws <> [] -> ends_with is_sp (join ws) = false.
Proof.
  induction 1 as [|w r Hw Hr IH]; intros Hne; [congruence|].
  destruct r as [|w2 r2].
  - cbn [join]. destruct w as [|a l]; [discriminate|]. rewrite ends_with_lastc.
    pose proof (word_letters _ Hw) as Hl. cbn [forallb] in Hl. apply andb_true_iff in Hl. destruct Hl as [Ha Hl].
    destruct (cands_letters false l a [] O 0 Ha Hl) as [_ Hx]. destruct (lastc a l); try discriminate; reflexivity.
  - rewrite join_cons by discriminate. specialize (IH ltac:(discriminate)).
    pose proof (join_nonempty (w2 :: r2) Hr ltac:(discriminate)) as Hj.
    unfold ends_with in *. rewrite last_ch_app by discriminate.
    destruct (join (w2 :: r2)) as [|c t] eqn:E; [congruence|].
    change (last_ch (Sp :: c :: t)) with (last_ch (c :: t)). exact IH.
Qed.

Lemma wlen_mono ws : forall k, (wlen ws k <= wlen ws (S k))%nat.
Proof.
  induction ws as [|w r IH]; intros k; [unfold wlen; destruct k; simpl; lia|].
  destruct k as [|k]; [rewrite wlen_0; lia|].
  destruct r as [|w2 r2].
  - unfold wlen. cbn [firstn]. destruct k; simpl; lia.
  - destruct k as [|k].
    + rewrite wlen_1, wlen_SS. lia.
    + rewrite (wlen_SS w w2 r2 k), (wlen_SS w w2 r2 (S k)). specialize (IH (S k)). lia.
Qed.

Lemma fits_true_mono fs w c1 c2 : (0 <= fs)%Q -> c1 <= c2 -> fits fs w c2 = true -> fits fs w c1 = true.
Proof.
  intros Hfs Hc H. destruct (fits fs w c1) eqn:E; [reflexivity|].
  rewrite (fits_mono fs w c1 c2 Hfs Hc E) in H. discriminate.
Qed.

Lemma fits_chars_iff fs w n : fits fs w (Z.of_nat n) = true <-> fits_chars fs w n.
Proof. unfold fits, fits_chars. apply Qle_bool_iff. Qed.

(* G on a list of words is the greedy choice: k words are taken, the k+1 first words do not fit, and the k first
   words fit unless k = 1 *)
Theorem G_words fs ins ws w :
  (0 <= fs)%Q -> words ws -> ws <> [] ->
  let n := length ws in let t := join ws in
  exists k, (1 <= k <= n)%nat /\
    ((2 <= k)%nat -> fits_chars fs w (wlen ws k)) /\
    ((k < n)%nat -> ~ fits_chars fs w (wlen ws (k + 1))) /\
    G fs ins t (Some w) false =
      if (k =? n)%nat then (length t, None, (inject_Z (Z.of_nat (length t)) * fs)%Q)
      else ((wlen ws k + 1)%nat, Some (wlen ws k + 1)%nat, (inject_Z (Z.of_nat (wlen ws k)) * fs)%Q).
Proof.
  intros Hfs Hw Hne n t.
  assert (Ht : simple t) by (apply join_simple; exact Hw).
  assert (Hn : (1 <= n)%nat) by (unfold n; destruct ws; [congruence|simpl; lia]).
  pose proof (join_last_letter ws Hw Hne) as Hlast. fold t in Hlast.
  unfold G. rewrite (para_simple t Ht), (has_nl_simple t Ht), Hlast.
  rewrite (visw_simple t Ht).
  assert (Hlen : length t = wlen ws n) by (unfold t, n; symmetry; apply wlen_all).
  destruct (fits fs w (Z.of_nat (length t))) eqn:Efit.
  - exists n. rewrite Nat.eqb_refl. repeat split; try lia.
    intros _. apply fits_chars_iff. rewrite <- Hlen. exact Efit.
  - destruct t as [|a rest] eqn:Et; [exfalso; exact (join_nonempty ws Hw Hne Et)|].
    rewrite scan_pick.
    assert (Hc : cands ins false a rest 1 (vis a) = wcands 0 ws).
    { destruct ws as [|w1 r]; [congruence|].
      assert (Hw1 : exists l, w1 = a :: l /\ rest = l ++ match r with [] => [] | r => Sp :: join r end).
      { destruct w1 as [|a' l]; [inversion Hw; discriminate|].
        destruct r as [|w2 r2]; cbn [join] in Et.
        - injection Et as Ea El. exists l. rewrite app_nil_r. split; congruence.
        - cbn [app] in Et. injection Et as Ea El. exists l. split; [congruence|]. rewrite <- El. destruct r2; reflexivity. }
      destruct Hw1 as (l & -> & ->).
      pose proof (cands_join ins ((a :: l) :: r) Hw O a l ltac:(discriminate) eq_refl) as Hcj. cbn [tl] in Hcj.
      assert (Hva : vis a = 1).
      { inversion Hw as [|? ? Hwa _]; subst. pose proof (word_letters _ Hwa) as Hl. cbn [forallb] in Hl.
        apply andb_true_iff in Hl. destruct (proj1 Hl). destruct a; try discriminate; reflexivity. }
      rewrite Hva. destruct r; exact Hcj. }
    rewrite Hc, (wcands_seq ws 0).
    set (f := fun k : nat => ((0 + wlen ws k + 1)%nat, Z.of_nat (0 + wlen ws k))).
    assert (Hmono : forall k, fits fs w (snd (f (S k))) = true -> fits fs w (snd (f k)) = true).
    { intros k. unfold f. cbn [snd]. apply fits_true_mono; [exact Hfs|]. pose proof (wlen_mono ws k). lia. }
    destruct (pick_seq fs w f Hmono (length ws - 1) 1 None ltac:(lia) ltac:(reflexivity) ltac:(lia))
      as [[Hm Hp]|[k (Hp & Hk1 & Hk2 & Hk3 & Hk4)]].
    + rewrite Hp. exists n. rewrite Nat.eqb_refl. fold n in Hm. repeat split; try lia.
    + rewrite Hp. fold n in Hk2, Hk3. exists k. assert (Hkn : (k < n)%nat) by lia.
      destruct (k =? n)%nat eqn:Ek; [apply Nat.eqb_eq in Ek; lia|].
      unfold f. cbn [snd fst]. rewrite !Nat.add_0_l. repeat split; try lia.
      * intros H2. apply fits_chars_iff. specialize (Hk4 H2). unfold f in Hk4. cbn [snd] in Hk4.
        rewrite Nat.add_0_l in Hk4. exact Hk4.
      * intros _ Hf. apply fits_chars_iff in Hf.
        destruct (Nat.eq_dec (k + 1) n) as [E|E].
        -- rewrite E, <- Hlen in Hf. rewrite Hf in Efit. discriminate.
        -- apply (Hk3 ltac:(lia)). unfold f. cbn [snd]. rewrite Nat.add_0_l. exact Hf.
Qed.
