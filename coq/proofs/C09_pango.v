(* C09 - lemmas about the reference first-fit breaker G (model/C09Line.v) on simple texts (letters and spaces):
   the scan is a pick over the list of break candidates, and the answer obtained on a prefix of the text that
   does not fit is the answer on the whole text (this is why the "short text" shortcut of split_first_line is
   sound). *)
From Coq Require Import ZArith QArith Lqa List Bool Lia.
Require Import WV.model.C09Line.
Import ListNotations.
Open Scope Z_scope.

Definition simple_ch (c : ch) : bool := is_letter c || is_sp c.
Definition simple (t : text) : Prop := forallb simple_ch t = true.

Lemma simple_cons c t : simple (c :: t) <-> simple_ch c = true /\ simple t.
Proof. unfold simple. simpl. rewrite andb_true_iff. tauto. Qed.
Lemma simple_app a b : simple (a ++ b) <-> simple a /\ simple b.
Proof. unfold simple. rewrite forallb_app, andb_true_iff. tauto. Qed.
Lemma simple_firstn n t : simple t -> simple (firstn n t).
Proof.
  revert n. induction t as [|c t IH]; intros [|n] H; simpl; try reflexivity.
  apply simple_cons in H. apply simple_cons. split; [tauto|apply IH; tauto].
Qed.
Lemma simple_skipn n t : simple t -> simple (skipn n t).
Proof.
  revert n. induction t as [|c t IH]; intros [|n] H; simpl; try assumption; try reflexivity.
  apply simple_cons in H. apply IH; tauto.
Qed.

Lemma simple_vis c : simple_ch c = true -> vis c = 1.
Proof. destruct c; simpl; intros; try reflexivity; discriminate. Qed.
Lemma simple_bytes c : simple_ch c = true -> nbytes_ch c = 1.
Proof. destruct c; simpl; intros; try reflexivity; discriminate. Qed.
Lemma simple_not_nl c : simple_ch c = true -> is_nl c = false.
Proof. destruct c; simpl; intros; try reflexivity; discriminate. Qed.
Lemma simple_not_shy c : simple_ch c = true -> is_shy c = false.
Proof. destruct c; simpl; intros; try reflexivity; discriminate. Qed.

Lemma visw_simple t : simple t -> visw t = Z.of_nat (length t).
Proof.
  induction t as [|c t IH]; intros H; [reflexivity|].
  apply simple_cons in H. destruct H as [Hc Ht]. cbn [visw length]. rewrite (simple_vis c Hc), (IH Ht). lia.
Qed.
Lemma nbytes_simple t : simple t -> nbytes t = Z.of_nat (length t).
Proof.
  induction t as [|c t IH]; intros H; [reflexivity|].
  apply simple_cons in H. destruct H as [Hc Ht]. cbn [nbytes length]. rewrite (simple_bytes c Hc), (IH Ht). lia.
Qed.
Lemma para_simple t : simple t -> para t = t.
Proof.
  induction t as [|c t IH]; intros H; [reflexivity|].
  apply simple_cons in H. destruct H as [Hc Ht]. simpl. rewrite (simple_not_nl c Hc), (IH Ht). reflexivity.
Qed.
Lemma has_nl_simple t : simple t -> has_ch is_nl t = false.
Proof.
  induction t as [|c t IH]; intros H; [reflexivity|].
  apply simple_cons in H. destruct H as [Hc Ht]. simpl. rewrite (simple_not_nl c Hc), (IH Ht). reflexivity.
Qed.
Lemma has_shy_simple t : simple t -> has_ch is_shy t = false.
Proof.
  induction t as [|c t IH]; intros H; [reflexivity|].
  apply simple_cons in H. destruct H as [Hc Ht]. simpl. rewrite (simple_not_shy c Hc), (IH Ht). reflexivity.
Qed.
Lemma find_nl_simple t : simple t -> find_ch is_nl t = None.
Proof.
  induction t as [|c t IH]; intros H; [reflexivity|].
  apply simple_cons in H. destruct H as [Hc Ht]. simpl. rewrite (simple_not_nl c Hc), (IH Ht). reflexivity.
Qed.
Lemma truncate_simple t : simple t -> truncate t = t.
Proof. intros H. unfold truncate. rewrite (find_nl_simple t H). reflexivity. Qed.

Lemma bytes_prefix_simple t : simple t -> forall n, (n <= length t)%nat ->
  bytes_prefix t (Z.of_nat n) = Some (firstn n t).
Proof.
  induction t as [|c t IH]; intros H n Hn.
  - destruct n; reflexivity.
  - apply simple_cons in H. destruct H as [Hc Ht]. destruct n as [|n]; [reflexivity|].
    cbn [bytes_prefix firstn]. rewrite (simple_bytes c Hc).
    destruct (Z.of_nat (S n) <=? 0) eqn:E1; [apply Z.leb_le in E1; lia|].
    destruct (Z.of_nat (S n) <? 1) eqn:E2; [apply Z.ltb_lt in E2; lia|].
    replace (Z.of_nat (S n) - 1) with (Z.of_nat n) by lia.
    rewrite IH; [reflexivity|assumption|simpl in Hn; lia].
Qed.
Lemma bytes_suffix_simple t : simple t -> forall n, (n <= length t)%nat ->
  bytes_suffix t (Z.of_nat n) = Some (skipn n t).
Proof.
  induction t as [|c t IH]; intros H n Hn.
  - destruct n; reflexivity.
  - apply simple_cons in H. destruct H as [Hc Ht]. destruct n as [|n]; [reflexivity|].
    cbn [bytes_suffix skipn]. rewrite (simple_bytes c Hc).
    destruct (Z.of_nat (S n) <=? 0) eqn:E1; [apply Z.leb_le in E1; lia|].
    destruct (Z.of_nat (S n) <? 1) eqn:E2; [apply Z.ltb_lt in E2; lia|].
    replace (Z.of_nat (S n) - 1) with (Z.of_nat n) by lia.
    apply IH; [assumption|simpl in Hn; lia].
Qed.

(* ------------------------------------------------------------------ the scan as a pick over candidates *)
Section Cands.
  Variable fs : Q.
  Variable ins : bool.

  Fixpoint cands (wc : bool) (a : ch) (rest : text) (i : nat) (acc : Z) : list (nat * Z) :=
    match rest with
    | [] => []
    | b :: rest' =>
        (if break_before wc a b then [(i, cost_at ins wc acc a b)] else [])
          ++ cands wc b rest' (S i) (acc + vis b)
    end.
  Fixpoint pick (w : Q) (best : option (nat * Z)) (l : list (nat * Z)) : option (nat * Z) :=
    match l with
    | [] => best
    | (i, c) :: l' => if fits fs w c then pick w (Some (i, c)) l'
                      else match best with Some _ => best | None => Some (i, c) end
    end.

  Lemma scan_pick w wc rest : forall a i acc best,
    scan fs ins w wc a rest i acc best = pick w best (cands wc a rest i acc).
  Proof.
    induction rest as [|b rest IH]; intros a i acc best; [reflexivity|].
    cbn [scan cands]. destruct (break_before wc a b); cbn [app pick].
    - destruct (fits fs w (cost_at ins wc acc a b)); [apply IH|reflexivity].
    - apply IH.
  Qed.

  Lemma pick_app w l1 : forall best l2,
    pick w best (l1 ++ l2) =
    if forallb (fun p => fits fs w (snd p)) l1 then pick w (match l1 with [] => best | _ => Some (last l1 (O, 0)) end) l2
    else pick w best l1.
  Proof.
    induction l1 as [|[i c] l1 IH]; intros best l2; [reflexivity|].
    cbn [app pick forallb snd]. destruct (fits fs w c); cbn [andb].
    - rewrite IH. destruct (forallb _ l1); [|reflexivity]. destruct l1; reflexivity.
    - reflexivity.
  Qed.

  (* when no candidate of l2 fits and l1 is not empty, l2 does not change the pick *)
  Lemma pick_app_nofit w l1 l2 best :
    l1 <> [] -> (forall p, In p l2 -> fits fs w (snd p) = false) -> pick w best (l1 ++ l2) = pick w best l1.
  Proof.
    intros Hne Hno. rewrite pick_app. destruct (forallb _ l1) eqn:E; [|reflexivity].
    assert (Hl1 : pick w best l1 = Some (last l1 (O, 0))).
    { clear Hno. revert best E Hne. induction l1 as [|[i c] l1 IH]; intros best E Hne; [exfalso; apply Hne; reflexivity|].
      cbn [forallb snd] in E. apply andb_true_iff in E. destruct E as [E1 E2]. cbn [pick]. rewrite E1.
      destruct l1 as [|q l1]; [reflexivity|]. rewrite (IH _ E2); [reflexivity|discriminate]. }
    rewrite Hl1. destruct l1 as [|p1 l1]; [exfalso; apply Hne; reflexivity|].
    destruct l2 as [|[j c] l2]; [reflexivity|]. cbn [pick].
    pose proof (Hno (j, c) (or_introl eq_refl)) as Hj. cbn [snd] in Hj. rewrite Hj. reflexivity.
  Qed.
End Cands.

Lemma visw_app a b : visw (a ++ b) = visw a + visw b.
Proof. induction a as [|c a IH]; [reflexivity|]. cbn [app visw]. rewrite IH. lia. Qed.
Lemma nbytes_app a b : nbytes (a ++ b) = nbytes a + nbytes b.
Proof. induction a as [|c a IH]; [reflexivity|]. cbn [app nbytes]. rewrite IH. lia. Qed.

(* ------------------------------------------------------------------------ candidates of a prefix *)
Fixpoint lastc (a : ch) (l : text) : ch := match l with [] => a | b :: l' => lastc b l' end.

Lemma lastc_last_ch a l : last_ch (a :: l) = Some (lastc a l).
Proof. revert a. induction l as [|b l IH]; intros a; [reflexivity|]. cbn [lastc]. rewrite <- IH. reflexivity. Qed.

Lemma cands_split ins wc rest : forall m a i acc, (m <= length rest)%nat ->
  cands ins wc a rest i acc =
  cands ins wc a (firstn m rest) i acc ++
  cands ins wc (lastc a (firstn m rest)) (skipn m rest) (i + m) (acc + visw (firstn m rest)).
Proof.
  induction rest as [|b rest IH]; intros m a i acc Hm.
  - destruct m; simpl in *; [|lia]. reflexivity.
  - destruct m as [|m].
    + cbn [firstn skipn lastc visw cands app]. rewrite Nat.add_0_r, Z.add_0_r. reflexivity.
    + cbn [firstn skipn lastc visw cands]. rewrite <- app_assoc. f_equal.
      rewrite (IH m b (S i) (acc + vis b)); [|simpl in Hm; lia].
      replace (S i + m)%nat with (i + S m)%nat by lia.
      replace (acc + vis b + visw (firstn m rest)) with (acc + (vis b + visw (firstn m rest))) by lia.
      reflexivity.
Qed.

Lemma hyph_at_simple ins a b : simple_ch a = true -> hyph_at ins false a b = false.
Proof. intros Ha. unfold hyph_at. rewrite (simple_not_shy a Ha). simpl. apply andb_false_r. Qed.

Lemma cands_lower_bound ins rest : forall x j acc, simple_ch x = true -> simple rest ->
  forall p, In p (cands ins false x rest j acc) -> acc - (if is_sp x then 1 else 0) <= snd p.
Proof.
  induction rest as [|b rest IH]; intros x j acc Hx Hr p Hin; [destruct Hin|].
  apply simple_cons in Hr. destruct Hr as [Hb Hr]. cbn [cands] in Hin. apply in_app_or in Hin.
  destruct Hin as [Hin|Hin].
  - destruct (break_before false x b); [|destruct Hin]. destruct Hin as [<-|[]]. cbn [snd].
    unfold cost_at. rewrite (hyph_at_simple ins x b Hx). destruct (is_sp x); lia.
  - specialize (IH b (S j) (acc + vis b) Hb Hr p Hin). rewrite (simple_vis b Hb) in IH.
    destruct (is_sp x), (is_sp b); lia.
Qed.

Lemma fits_mono fs w c1 c2 : (0 <= fs)%Q -> c1 <= c2 -> fits fs w c1 = false -> fits fs w c2 = false.
Proof.
  intros Hfs Hc H. unfold fits in *. destruct (Qle_bool (inject_Z c2 * fs) w) eqn:E; [|reflexivity].
  apply Qle_bool_iff in E. assert (Hle : (inject_Z c1 * fs <= w)%Q).
  { eapply Qle_trans; [|exact E]. apply Qmult_le_compat_r; [|exact Hfs]. rewrite <- Zle_Qle. exact Hc. }
  apply Qle_bool_iff in Hle. congruence.
Qed.

Lemma ends_with_lastc p a l : ends_with p (a :: l) = p (lastc a l).
Proof. unfold ends_with. rewrite lastc_last_ch. reflexivity. Qed.

Lemma firstn_length_le {A} (l : list A) n : (n <= length l)%nat -> length (firstn n l) = n.
Proof. intros. rewrite firstn_length. lia. Qed.

(* the shortcut is sound: an answer with a second line, obtained on a prefix, is the answer on the whole text *)
Lemma G_stable fs ins t m w l r wd :
  (0 <= fs)%Q -> simple t -> (m <= length t)%nat ->
  G fs ins (firstn m t) (Some w) false = (l, Some r, wd) ->
  G fs ins t (Some w) false = (l, Some r, wd).
Proof.
  intros Hfs Ht Hm HG.
  destruct t as [|a rest]; [destruct m; simpl in HG; unfold G in HG; simpl in HG;
    destruct (fits fs w 0); discriminate|].
  destruct m as [|m]; [unfold G in HG; simpl in HG; destruct (fits fs w 0); discriminate|].
  apply simple_cons in Ht. destruct Ht as [Ha Hrest]. simpl in Hm. assert (Hm' : (m <= length rest)%nat) by lia.
  cbn [firstn] in HG.
  assert (HX : simple (a :: firstn m rest)) by (apply simple_cons; split; [exact Ha|apply simple_firstn; exact Hrest]).
  assert (HT : simple (a :: rest)) by (apply simple_cons; split; assumption).
  unfold G in *. rewrite (para_simple _ HX), (has_nl_simple _ HX) in HG.
  rewrite (para_simple _ HT), (has_nl_simple _ HT).
  rewrite ends_with_lastc in *. cbn [visw] in *.
  set (accX := vis a + visw (firstn m rest)) in *.
  set (x := lastc a (firstn m rest)) in *.
  destruct (fits fs w (if is_sp x then accX - 1 else accX)) eqn:EX; [discriminate|].
  rewrite scan_pick in HG. rewrite scan_pick.
  rewrite (cands_split ins false rest m a 1 (vis a) Hm').
  fold accX. fold x.
  assert (Hxs : simple_ch x = true).
  { unfold x. clear - Ha Hrest. revert a Ha. generalize (simple_firstn m rest Hrest). generalize (firstn m rest).
    intros l. induction l as [|b l IH]; intros Hl a Ha; [exact Ha|]. apply simple_cons in Hl. apply IH; tauto. }
  assert (Htail : forall p, In p (cands ins false x (skipn m rest) (1 + m) accX) -> fits fs w (snd p) = false).
  { intros p Hp. pose proof (cands_lower_bound ins (skipn m rest) x (1 + m)%nat accX Hxs (simple_skipn m rest Hrest) p Hp) as Hlb.
    eapply fits_mono; [exact Hfs| |exact EX]. destruct (is_sp x); lia. }
  (* the whole text does not fit either *)
  assert (Hend : fits fs w (if is_sp (lastc a rest) then vis a + visw rest - 1 else vis a + visw rest) = false).
  { destruct (skipn m rest) as [|b tl] eqn:Esk.
    - assert (Hfr : firstn m rest = rest).
      { rewrite <- (firstn_skipn m rest) at 2. rewrite Esk, app_nil_r. reflexivity. }
      unfold x, accX in EX. rewrite Hfr in EX. exact EX.
    - assert (Hdec : rest = firstn m rest ++ b :: tl) by (rewrite <- Esk; symmetry; apply firstn_skipn).
      assert (Hbt : simple (b :: tl)) by (rewrite <- Esk; apply simple_skipn; exact Hrest).
      assert (Hv : visw rest = visw (firstn m rest) + visw (b :: tl)).
      { rewrite Hdec at 1. apply visw_app. }
      rewrite (visw_simple _ Hbt) in Hv. simpl length in Hv.
      eapply fits_mono; [exact Hfs| |exact EX]. unfold accX.
      destruct (is_sp x), (is_sp (lastc a rest)); lia. }
  rewrite Hend.
  destruct (pick fs w None (cands ins false a (firstn m rest) 1 (vis a))) as [[i c]|] eqn:EP; [|discriminate].
  rewrite pick_app_nofit; [rewrite EP; exact HG| |exact Htail].
  intros Hnil. rewrite Hnil in EP. discriminate.
Qed.
