(* C14: page sides / blank pages, page counter, named strings - proofs about model/C14Pages.v *)
From Coq Require Import ZArith List String Bool Lia.
Require Import WV.model.C14Page WV.model.C14Pages.
Import ListNotations.
Open Scope string_scope.
Open Scope list_scope.
Open Scope Z_scope.

(* ------------------------------------------------------------------------------ sides and blank pages *)
(* two iterations at once when a blank page is inserted: structural description of make_pages *)
Fixpoint spec_pages (ltr rp : bool) (pending : list brk) : list (side * bool) :=
  match pending with
  | [] => []
  | k :: rest =>
      if snd (page_step ltr rp k)
      then (side_of rp, true) :: (side_of (negb rp), false) :: spec_pages ltr rp rest
      else (side_of rp, false) :: spec_pages ltr (negb rp) rest
  end.

Lemma blank_not_twice ltr rp k : snd (page_step ltr rp k) = true -> snd (page_step ltr (negb rp) k) = false.
Proof. unfold page_step. destruct (next_page_side ltr k) as [[|]|], rp; simpl; congruence. Qed.

Lemma make_pages_unfold f ltr rp k rest :
  make_pages (S f) ltr rp (k :: rest) =
  match make_pages f ltr (negb rp) (if snd (page_step ltr rp k) then k :: rest else rest) with
  | Some ps => Some ((side_of rp, snd (page_step ltr rp k)) :: ps)
  | None => None
  end.
Proof. reflexivity. Qed.

Lemma make_pages_spec ltr : forall pending fuel rp,
  (2 * List.length pending <= fuel)%nat -> make_pages fuel ltr rp pending = Some (spec_pages ltr rp pending).
Proof.
  induction pending as [|k rest IH]; intros fuel rp Hf.
  - destruct fuel; reflexivity.
  - simpl in Hf. destruct fuel as [|[|f]]; try lia.
    rewrite make_pages_unfold. cbn [spec_pages].
    destruct (snd (page_step ltr rp k)) eqn:E.
    + rewrite make_pages_unfold. rewrite (blank_not_twice ltr rp k E).
      rewrite negb_involutive. rewrite IH by lia. reflexivity.
    + rewrite IH by (simpl; lia). reflexivity.
Qed.

Fixpoint honoured (ltr : bool) (pending : list brk) (sides : list side) (pre : list bool) : Prop :=
  match pending, sides, pre with
  | [], [], [] => True
  | k :: pr, s :: sr, b :: br =>
      (forall w, next_page_side ltr k = Some w -> s = w) /\
      (b = true -> next_page_side ltr k <> None) /\
      honoured ltr pr sr br
  | _, _, _ => False
  end.

Lemma spec_pages_props ltr : forall pending rp,
  let pages := spec_pages ltr rp pending in
  alternating rp (map fst pages) /\ blank_then_content pages /\
  honoured ltr pending (content_sides pages) (preceded_by_blank false pages) /\
  (List.length pages <= 2 * List.length pending)%nat /\
  List.length (content_sides pages) = List.length pending.
Proof.
  induction pending as [|k rest IH]; intros rp; cbn zeta.
  - simpl. repeat split; auto.
  - cbn [spec_pages]. destruct (snd (page_step ltr rp k)) eqn:E.
    + destruct (IH rp) as [A [B [H [L C]]]]. cbn zeta in *.
      unfold content_sides in *. cbn [map fst filter snd negb preceded_by_blank alternating blank_then_content honoured].
      rewrite negb_involutive.
      split; [split; [reflexivity|split; [reflexivity|exact A]]|].
      split; [exact B|].
      split; [split; [|split; [|exact H]]|].
      * intros w Hw. unfold page_step in E. rewrite Hw in E. simpl in E. destruct w, rp; simpl in *; congruence.
      * intros _ Hn. unfold page_step in E. rewrite Hn in E. discriminate.
      * split; simpl; simpl in L, C; lia.
    + destruct (IH (negb rp)) as [A [B [H [L C]]]]. cbn zeta in *.
      unfold content_sides in *. cbn [map fst filter snd negb preceded_by_blank alternating blank_then_content honoured].
      split; [split; [reflexivity|exact A]|].
      split; [exact B|].
      split; [split; [|split; [|exact H]]|].
      * intros w Hw. unfold page_step in E. rewrite Hw in E. simpl in E. destruct w, rp; simpl in *; congruence.
      * intros; discriminate.
      * split; simpl; simpl in L, C; lia.
Qed.

(* css-break-3 forced side breaks / css-page-3 page progression:
   make_all_pages terminates (fuel 2 per page of content is enough) and
   - page sides alternate strictly, starting from right_page;
   - every page of content whose break demands a side (left/right, recto/verso by direction) is on that side;
   - a blank page appears only in front of such a page, and at most one: each blank page is immediately
     followed by a page with content, and a page whose break demands no side has no blank page before it. *)
Theorem forced_side_honoured (ltr right_page : bool) (pending : list brk) :
  exists pages,
    make_pages (2 * List.length pending) ltr right_page pending = Some pages /\
    alternating right_page (map fst pages) /\
    blank_then_content pages /\
    honoured ltr pending (content_sides pages) (preceded_by_blank false pages) /\
    (List.length pages <= 2 * List.length pending)%nat.
Proof.
  exists (spec_pages ltr right_page pending). split; [apply make_pages_spec; lia|].
  destruct (spec_pages_props ltr pending right_page) as [A [B [H [L _]]]]. auto.
Qed.

(* the first page of a document is a right page in ltr, a left page in rtl, and never blank; a root
   break-before: left/right/recto/verso chooses it *)
Theorem first_page_side (ltr : bool) (root_break : brk) (breaks : list brk) :
  exists rest,
    make_pages (2 * List.length (BAny :: breaks)) ltr (initial_right_page ltr root_break) (BAny :: breaks)
    = Some ((side_of (initial_right_page ltr root_break), false) :: rest) /\
    (root_break = BAny -> side_of (initial_right_page ltr root_break) = if ltr then SRight else SLeft) /\
    (forall w, next_page_side ltr root_break = Some w -> side_of (initial_right_page ltr root_break) = w).
Proof.
  rewrite make_pages_spec by lia. cbn [spec_pages page_step next_page_side snd].
  eexists. split; [reflexivity|]. split.
  - intros E. rewrite E. destruct ltr; reflexivity.
  - intros w. destruct root_break, ltr; simpl; intros E; inversion E; reflexivity.
Qed.

Example sides_example :
  make_pages 10 true true [BAny; BRight; BLeft; BLeft; BVerso] =
  Some [(SRight, false); (SLeft, true); (SRight, false); (SLeft, false); (SRight, true); (SLeft, false);
        (SRight, true); (SLeft, false)].
Proof. reflexivity. Qed.

(* --------------------------------------------------------------------------------- the page counter *)
Definition untouched (st : cstyle) : Prop :=
  touches_page (c_set st) = false /\ touches_page (c_reset st) = false /\ touches_page (c_incr st) = false.

Lemma drop_pages_no_page o : touches_page o = false -> forall nv, In nv (drop_pages o) -> fst nv <> "page".
Proof.
  destruct o as [l|]; simpl; [|intros _ nv []].
  intros H nv Hin. apply filter_In in Hin. destruct Hin as [Hin _].
  intros E. assert (existsb (fun nv => fst nv =? "page")%string l = true).
  { apply existsb_exists. exists nv. split; [exact Hin|]. now apply String.eqb_eq. }
  congruence.
Qed.

Lemma fold_noop (f : option Z -> string * Z -> option Z) (l : ops) :
  (forall v nv, fst nv <> "page" -> f v nv = v) ->
  (forall nv, In nv l -> fst nv <> "page") -> forall v, fold_left f l v = v.
Proof.
  intros Hf. induction l as [|nv l IH]; intros Hl v; simpl; [reflexivity|].
  rewrite Hf by (apply Hl; now left). apply IH. intros x Hx. apply Hl. now right.
Qed.
Lemma reset_noop v nv : fst nv <> "page" -> apply_reset v nv = v.
Proof. unfold apply_reset. intros H. apply String.eqb_neq in H. now rewrite H. Qed.
Lemma set_noop v nv : fst nv <> "page" -> apply_set v nv = v.
Proof. unfold apply_set. intros H. apply String.eqb_neq in H. now rewrite H. Qed.
Lemma incr_noop v nv : fst nv <> "page" -> apply_incr v nv = v.
Proof. unfold apply_incr. intros H. apply String.eqb_neq in H. now rewrite H. Qed.

Definition oz (v : option Z) : Z := match v with Some x => x | None => 0 end.

(* a page whose @page style does not mention the counter `page` increments it by exactly 1 *)
Lemma untouched_step st v : untouched st -> update_page_counter v (standardize st true) = Some (oz v + 1).
Proof.
  intros [Hs [Hr Hi]]. unfold standardize. rewrite Hs, Hr, Hi. cbn [orb negb andb update_page_counter].
  rewrite (fold_noop apply_reset _ reset_noop (drop_pages_no_page _ Hr)).
  rewrite (fold_noop apply_set _ set_noop (drop_pages_no_page _ Hs)).
  cbn [fold_left]. rewrite (fold_noop apply_incr _ incr_noop (drop_pages_no_page _ Hi)).
  unfold apply_incr. simpl. reflexivity.
Qed.

Lemma page_counters_untouched : forall styles v, Forall untouched styles ->
  page_counters v styles = map (fun k => Some (oz v + Z.of_nat k)) (seq 1 (List.length styles)).
Proof.
  induction styles as [|st r IH]; intros v H; [reflexivity|].
  inversion H as [|? ? Hst Hr]; subst. cbn [page_counters List.length seq map].
  rewrite (untouched_step st v Hst). change (Z.of_nat 1) with 1. f_equal.
  rewrite IH by exact Hr. cbn [oz]. rewrite <- (seq_shift (List.length r) 1), map_map. apply map_ext. intros k. f_equal. lia.
Qed.

(* counter(page) numbers the pages 1, 2, 3, ... when no @page rule manipulates it *)
Theorem page_counter_counts_from_1 (styles : list cstyle) :
  Forall untouched styles ->
  page_counters None styles = map (fun k => Some (Z.of_nat k)) (seq 1 (List.length styles)).
Proof. intros H. rewrite (page_counters_untouched styles None H). apply map_ext. intros k. reflexivity. Qed.

(* `counter-reset: page x` on the @page rule of a page: that page shows x (no automatic increment, the rule
   "touches" the counter), and the following untouched pages continue x+1, x+2, ... *)
Theorem counter_reset_on_page_rule (before after : list cstyle) (st : cstyle) (x : Z) v0 :
  c_reset st = Some [("page", x)] -> touches_page (c_set st) = false -> touches_page (c_incr st) = false ->
  Forall untouched after ->
  page_counters v0 (before ++ st :: after) =
  page_counters v0 before ++ Some x :: map (fun k => Some (x + Z.of_nat k)) (seq 1 (List.length after)).
Proof.
  intros Hr Hs Hi Ha. revert v0. induction before as [|b bs IH]; intros v0.
  - cbn [app page_counters].
    assert (E : update_page_counter v0 (standardize st true) = Some x).
    { unfold standardize. rewrite Hr, Hs, Hi. simpl.
      rewrite (fold_noop apply_set _ set_noop (drop_pages_no_page _ Hs)).
      rewrite (fold_noop apply_incr _ incr_noop (drop_pages_no_page _ Hi)). reflexivity. }
    rewrite E. f_equal. rewrite (page_counters_untouched after (Some x) Ha). reflexivity.
  - cbn [app page_counters]. f_equal. apply IH.
Qed.

(* `counter-increment: page n` replaces the automatic increment *)
Theorem counter_increment_on_page_rule (st : cstyle) (n : Z) v :
  c_incr st = Some [("page", n)] -> touches_page (c_set st) = false -> touches_page (c_reset st) = false ->
  update_page_counter v (standardize st true) = Some (oz v + n).
Proof.
  intros Hi Hs Hr. unfold standardize. rewrite Hr, Hs, Hi. simpl.
  rewrite (fold_noop apply_reset _ reset_noop (drop_pages_no_page _ Hr)).
  rewrite (fold_noop apply_set _ set_noop (drop_pages_no_page _ Hs)).
  reflexivity.
Qed.

(* margin boxes never increment automatically *)
Theorem margin_box_keeps_page_counter st v : untouched st -> margin_counter v st = v.
Proof.
  intros [Hs [Hr Hi]]. unfold margin_counter, standardize. cbn [andb update_page_counter].
  rewrite (fold_noop apply_reset _ reset_noop (drop_pages_no_page _ Hr)).
  rewrite (fold_noop apply_set _ set_noop (drop_pages_no_page _ Hs)).
  apply (fold_noop apply_incr _ incr_noop (drop_pages_no_page _ Hi)).
Qed.

Example counters_example :
  page_counters None [mkCS None None None; mkCS None (Some [("page", 7); ("pages", 3)]) None; mkCS None None None;
                      mkCS None None (Some [("page", 10)]); mkCS None None (Some [("foo", 1)])]
  = [Some 1; Some 7; Some 8; Some 18; Some 19].
Proof. reflexivity. Qed.

(* ------------------------------------------------------------- named strings and running elements *)
Lemma firstn_S_concat {A} (st : list (list A)) : forall q,
  List.concat (firstn (S q) st) = List.concat (firstn q st) ++ nth q st [].
Proof.
  induction st as [|l st IH]; intros q.
  - destruct q; reflexivity.
  - destruct q as [|q].
    + simpl. now rewrite app_nil_r.
    + change (firstn (S (S q)) (l :: st)) with (l :: firstn (S q) st).
      change (firstn (S q) (l :: st)) with (l :: firstn q st).
      cbn [List.concat nth]. rewrite IH. now rewrite app_assoc.
Qed.

Lemma last_cons (l : list Z) : forall x d, last (x :: l) d = last l x.
Proof.
  induction l as [|z l IH]; intros x d; [reflexivity|].
  change (last (x :: z :: l) d) with (last (z :: l) d). rewrite (IH z d), (IH z x). reflexivity.
Qed.
Lemma last_app_cons (a : list Z) x l d : last (a ++ x :: l) d = last l x.
Proof.
  induction a as [|y a IH]; [apply last_cons|].
  change ((y :: a) ++ x :: l) with (y :: (a ++ x :: l)). rewrite last_cons.
  destruct a as [|y' a]; [apply last_cons|].
  change ((y' :: a) ++ x :: l) with (y' :: (a ++ x :: l)) in *. rewrite last_cons in *. exact IH.
Qed.

Lemma last_opt_app a b : last_opt (a ++ b) = match b with [] => last_opt a | x :: l => Some (last l x) end.
Proof.
  destruct b as [|x l]; [now rewrite app_nil_r|].
  destruct a as [|y a]; [reflexivity|]. cbn [app last_opt]. f_equal. apply last_app_cons.
Qed.

(* the backwards search through earlier pages returns the last assignment made before the current page *)
Lemma search_back_spec st : forall p, search_back st p = last_opt (List.concat (firstn p st)).
Proof.
  induction p as [|q IH]; [reflexivity|].
  rewrite firstn_S_concat, last_opt_app. cbn [search_back page_assignments].
  destruct (nth q st []); [exact IH|reflexivity].
Qed.

(* css-gcpm-3: string(name, first | start | last | first-except) and element(): the function returns what the
   specification defines, for every store, page, keyword *)
Theorem string_first_last_start_except (st : sstore) (current : nat) (kw : keyword) (first_element_assigns : bool) :
  get_string st current kw first_element_assigns = string_spec st current kw first_element_assigns.
Proof.
  unfold get_string, string_spec, entry_value, before_page. rewrite search_back_spec.
  destruct (page_assignments st current) as [|x l]; destruct kw; try reflexivity.
Qed.

(* what `last` shows on a page is what the next page starts with *)
Theorem exit_value_is_next_entry (st : sstore) (p : nat) fl :
  get_string st (S p) KLast fl = entry_value st (S (S p)).
Proof.
  unfold get_string, entry_value, before_page. rewrite !search_back_spec.
  replace (S (S p) - 1)%nat with (S p) by lia. replace (S p - 1)%nat with p by lia.
  rewrite firstn_S_concat, last_opt_app. cbn [page_assignments].
  destruct (nth p st []); reflexivity.
Qed.

Example strings_example :
  let st := [[]; [1; 2]; []; [3]] in
  get_string st 1 KFirst false = None /\ get_string st 2 KFirst false = Some 1 /\
  get_string st 2 KStart false = None /\ get_string st 2 KLast false = Some 2 /\
  get_string st 3 KFirst false = Some 2 /\ get_string st 4 KFirstExcept true = None /\
  get_string st 5 KFirstExcept true = Some 3 /\ get_string st 4 KStart true = Some 3.
Proof. repeat split. Qed.
