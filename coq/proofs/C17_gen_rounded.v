(* C17 - Box.rounded_box of weasyprint/formatting_structure/boxes.py as REGENERATED from the source on every run
   (gen/GenBoxes.v) computes the hand model rounded_box of model/C17Radius.v (on which the corner theorems of C17
   rest) for every box, every radii and every four distances: position, size and the eight scaled radii agree
   (numbers up to ==).  First with the four geometry methods and the helper _overlap_ratio as oracles, then linked
   to their own regenerated bodies (_overlap_ratio_body is shown to compute the model's overlap_ratio). *)
From Coq Require Import QArith Qminmax Lqa List String Bool.
Require Import WV.base.Py WV.gen.GenBoxes WV.proofs.PyTac.
Require WV.model.C17Radius WV.proofs.C17_radius.
Import ListNotations.
Open Scope string_scope.
Open Scope list_scope.
Open Scope Q_scope.

Module M := WV.model.C17Radius.
Module P := WV.proofs.C17_radius.

Definition vpair (a b : Q) : val := VList [VNum a; VNum b].
Definition radii_fields (R : M.radii) : list (string * val) :=
  [("border_top_left_radius", vpair (M.tlx R) (M.tly R)); ("border_top_right_radius", vpair (M.trx R) (M.try_ R));
   ("border_bottom_right_radius", vpair (M.brx R) (M.bry R)); ("border_bottom_left_radius", vpair (M.blx R) (M.bly R))].

Definition pair_rep (v : val) (a b : Q) : Prop :=
  match v with VList [VNum x; VNum y] => x == a /\ y == b | _ => False end.
(* the returned 8-tuple represents the model's box placed at (X, Y) *)
Definition rbox_rep (X Y : Q) (o : M.rbox) (v : val) : Prop :=
  match v with
  | VList [VNum x; VNum y; VNum w; VNum h; tl; tr; br; bl] =>
      x == X + M.dx o /\ y == Y + M.dy o /\ w == M.rw o /\ h == M.rh o /\
      pair_rep tl (M.tlx (M.rr o)) (M.tly (M.rr o)) /\ pair_rep tr (M.trx (M.rr o)) (M.try_ (M.rr o)) /\
      pair_rep br (M.brx (M.rr o)) (M.bry (M.rr o)) /\ pair_rep bl (M.blx (M.rr o)) (M.bly (M.rr o))
  | _ => False
  end.

(* ---- the module-level helper _overlap_ratio: min([1] + [extent / sum for ... if sum > 0]) ---- *)
Definition ratio_post (w h t b l r : Q) (_ : env) (res : option val) : Prop :=
  exists q, res = Some (VNum q) /\ q == M.overlap_ratio w h t b l r.

Lemma gen_overlap_ratio O (HO : ops_ok O) w h t b l r :
  run O overlap_ratio_body
      [("width", VNum w); ("height", VNum h); ("top", VNum t); ("bottom", VNum b); ("left", VNum l); ("right", VNum r)]
      (ratio_post w h t b l r) (fun _ => False).
Proof.
  unfold run, overlap_ratio_body.
  lazy -[qadd qsub qmul qdiv qmax qmin qleb qeqb ocall ratio_post Qplus Qminus Qmult Qdiv Qmax Qmin Qeq_bool Qle_bool
         M.overlap_ratio].
  split_paths O; unseal HO.
  all: unfold ratio_post, M.overlap_ratio, M.cand.
  all: repeat match goal with |- context [Qlt_le_dec ?a ?b] => destruct (Qlt_le_dec a b) end.
  all: to_props.
  all: try (exfalso; lra).
  all: eexists; split; [reflexivity|].
  all: cbn; reflexivity.
Qed.

Section Oracle.
Variable O : qops.
Hypothesis HO : ops_ok O.
Variables (bx : val) (X Y W H : Q).
Hypothesis HX : ocall O ".border_box_x" [bx] = VNum X.
Hypothesis HY : ocall O ".border_box_y" [bx] = VNum Y.
Hypothesis HW : ocall O ".border_width" [bx] = VNum W.
Hypothesis HH : ocall O ".border_height" [bx] = VNum H.
(* the helper, as an oracle: some number equal (==) to the model's overlap_ratio of the arguments *)
Hypothesis HR : forall w h t b l r, exists q,
  ocall O "_overlap_ratio" [VNum w; VNum h; VNum t; VNum b; VNum l; VNum r] = VNum q /\ q == M.overlap_ratio w h t b l r.

Definition post (o : M.rbox) (_ : env) (res : option val) : Prop :=
  exists v, res = Some v /\ rbox_rep X Y o v.

Ltac ev := lazy -[qadd qsub qmul qdiv qmax qmin qleb qeqb ocall post Qplus Qminus Qmult Qdiv Qmax Qmin Qeq_bool Qle_bool
                  M.rounded_box].

Lemma gen_rounded_box_oracle R fields bt br bb bl :
  bx = VObj (radii_fields R ++ fields) ->
  run O rounded_box_body [("self", bx); ("bt", VNum bt); ("br", VNum br); ("bb", VNum bb); ("bl", VNum bl)]
      (post (M.rounded_box W H R bt br bb bl)) (fun _ => False).
Proof.
  intros E. rewrite E in HX, HY, HW, HH. rewrite E. clear E.
  destruct R as [r1 r2 r3 r4 r5 r6 r7 r8].
  unfold run, rounded_box_body, radii_fields in *.
  lazy -[qadd qsub qmul qdiv qmax qmin qleb qeqb ocall Qplus Qminus Qmult Qdiv Qmax Qmin Qeq_bool Qle_bool] in HX, HY, HW, HH.
  ev. rewrite HW. ev. rewrite HH. ev.
  match goal with |- context [ocall O "_overlap_ratio" [VNum ?w; VNum ?h; VNum ?t; VNum ?b; VNum ?l; VNum ?r]] =>
    destruct (HR w h t b l r) as (k & Hk & Ek); rewrite Hk end.
  ev. rewrite HX. ev. rewrite HY. ev. rewrite ?HW, ?HH. ev.
  match goal with |- context [ocall O "_overlap_ratio" [VNum ?w; VNum ?h; VNum ?t; VNum ?b; VNum ?l; VNum ?r]] =>
    destruct (HR w h t b l r) as (f & Hf & Ef); rewrite Hf end.
  ev. unseal HO.
  set (R := M.mkR r1 r2 r3 r4 r5 r6 r7 r8).
  assert (EK : k == M.ratio W H R) by exact Ek.
  assert (EF : f == M.ratio (W - bl - br) (H - bt - bb) (M.inner_raw (M.scale (M.ratio W H R) R) bt br bb bl)).
  { rewrite Ef. rewrite P.ratio_is_overlap_ratio.
    apply P.overlap_ratio_compat; try reflexivity;
      unfold M.inner_raw, M.scale, M.qmax0, R; cbn [M.tlx M.tly M.trx M.try_ M.brx M.bry M.blx M.bly];
      rewrite EK; reflexivity. }
  clear Hk Hf Ek Ef HX HY HW HH HR.
  unfold post. eexists; split; [reflexivity|].
  unfold rbox_rep, pair_rep, M.rounded_box.
  cbn [M.dx M.dy M.rw M.rh M.rr].
  set (F := M.ratio (W - bl - br) (H - bt - bb) (M.inner_raw (M.scale (M.ratio W H R) R) bt br bb bl)) in *.
  set (K := M.ratio W H R) in *.
  unfold M.inner_raw, M.scale, M.qmax0, R. cbn [M.tlx M.tly M.trx M.try_ M.brx M.bry M.blx M.bly].
  repeat split; try reflexivity; try ring; rewrite EF, EK; reflexivity.
Qed.
End Oracle.


(* ------------------------------------------------------------------ linked: border_box_x / border_box_y /
   border_width / border_height (-> padding_width / padding_height) answered by their own regenerated bodies *)
Require Import WV.base.PyLink WV.proofs.PyNatural.

Record geom := mk_geom { g_x : Q; g_y : Q; g_ml : Q; g_mt : Q; g_w : Q; g_h : Q;
                         g_pt : Q; g_pr : Q; g_pb : Q; g_pl : Q; g_bt : Q; g_br : Q; g_bb : Q; g_bl : Q }.
Definition geom_fields (g : geom) : list (string * val) :=
  [("position_x", VNum (g_x g)); ("position_y", VNum (g_y g)); ("margin_left", VNum (g_ml g)); ("margin_top", VNum (g_mt g));
   ("width", VNum (g_w g)); ("height", VNum (g_h g));
   ("padding_top", VNum (g_pt g)); ("padding_right", VNum (g_pr g)); ("padding_bottom", VNum (g_pb g));
   ("padding_left", VNum (g_pl g));
   ("border_top_width", VNum (g_bt g)); ("border_right_width", VNum (g_br g)); ("border_bottom_width", VNum (g_bb g));
   ("border_left_width", VNum (g_bl g))].
Definition vbox (R : M.radii) (g : geom) : val := VObj (radii_fields R ++ geom_fields g).
(* border box of the geometry *)
Definition bbx (g : geom) : Q := g_x g + g_ml g.
Definition bby (g : geom) : Q := g_y g + g_mt g.
Definition bbw (g : geom) : Q := g_w g + g_pl g + g_pr g + g_bl g + g_br g.
Definition bbh (g : geom) : Q := g_h g + g_pt g + g_pb g + g_bt g + g_bb g.

Notation T := GenBoxes_table.

(* the value of a call *)
Lemma call_rep O (d : fn) args rho X Y o :
  PyLink.bind (fst d) args = Some rho ->
  run O (snd d) rho (post X Y o) (fun _ => False) ->
  exists v, call_body O d args = v /\ rbox_rep X Y o v.
Proof.
  intros Hb H. unfold call_body. rewrite Hb.
  rewrite run_natural in H. rewrite run_natural.
  destruct (run_out O (snd d) rho) as [rho' res|m]; [|contradiction].
  destruct H as (v & -> & Hv). exists v. split; [reflexivity|exact Hv].
Qed.

Lemma call_ratio O (d : fn) args rho w h t b l r :
  PyLink.bind (fst d) args = Some rho ->
  run O (snd d) rho (ratio_post w h t b l r) (fun _ => False) ->
  exists q, call_body O d args = VNum q /\ q == M.overlap_ratio w h t b l r.
Proof.
  intros Hb H. unfold call_body. rewrite Hb.
  rewrite run_natural in H. rewrite run_natural.
  destruct (run_out O (snd d) rho) as [rho' res|m]; [|contradiction].
  destruct H as (q & -> & Hq). exists q. split; [reflexivity|exact Hq].
Qed.

Lemma find_overlap : find_fn "_overlap_ratio" T = Some (overlap_ratio_args, overlap_ratio_body).
Proof. reflexivity. Qed.

(* _overlap_ratio answered by its own regenerated body *)
Lemma linked_overlap_ratio n w h t b l r :
  exists q, ocall (linked T (S n)) "_overlap_ratio" [VNum w; VNum h; VNum t; VNum b; VNum l; VNum r] = VNum q /\
            q == M.overlap_ratio w h t b l r.
Proof.
  rewrite ocall_linked, find_overlap.
  apply (call_ratio (linked T n) (overlap_ratio_args, overlap_ratio_body) _
           [("width", VNum w); ("height", VNum h); ("top", VNum t); ("bottom", VNum b); ("left", VNum l); ("right", VNum r)]);
    [reflexivity|apply gen_overlap_ratio, linked_ok].
Qed.

Theorem gen_rounded_box_linked n R g bt br bb bl :
  run (linked T (S (S n))) rounded_box_body
      [("self", vbox R g); ("bt", VNum bt); ("br", VNum br); ("bb", VNum bb); ("bl", VNum bl)]
      (post (bbx g) (bby g) (M.rounded_box (bbw g) (bbh g) R bt br bb bl)) (fun _ => False).
Proof.
  apply (gen_rounded_box_oracle (linked T (S (S n))) (linked_ok _ _) (vbox R g) (bbx g) (bby g) (bbw g) (bbh g))
    with (fields := geom_fields g); try reflexivity; try (intros; apply linked_overlap_ratio);
    destruct R, g; lazy -[Qplus]; reflexivity.
Qed.

Lemma find_rounded : find_fn ".rounded_box" T = Some (rounded_box_args, rounded_box_body).
Proof. reflexivity. Qed.

Lemma linked_rounded_box n R g bt br bb bl :
  exists v, ocall (linked T (S (S (S n)))) ".rounded_box" [vbox R g; VNum bt; VNum br; VNum bb; VNum bl] = v /\
            rbox_rep (bbx g) (bby g) (M.rounded_box (bbw g) (bbh g) R bt br bb bl) v.
Proof.
  rewrite ocall_linked, find_rounded.
  apply (call_rep (linked T (S (S n))) (rounded_box_args, rounded_box_body) _
           [("self", vbox R g); ("bt", VNum bt); ("br", VNum br); ("bb", VNum bb); ("bl", VNum bl)]);
    [reflexivity|apply gen_rounded_box_linked].
Qed.

Lemma rbox_rep_not_err X Y o v : rbox_rep X Y o v -> match v with VErr _ => False | _ => True end.
Proof. destruct v; simpl; auto. Qed.

(* the four callers *)
Definition ret_rep (X Y : Q) (o : M.rbox) (_ : env) (res : option val) : Prop :=
  exists v, res = Some v /\ rbox_rep X Y o v.

Ltac caller n R g :=
  destruct g as [x y ml mt w h pt pr pb pl bt br bb bl]; destruct R as [r1 r2 r3 r4 r5 r6 r7 r8];
  unfold run; lazy -[qadd qmul ocall ret_rep Qplus Qmult M.rounded_box linked];
  match goal with
  | |- context [ocall ?OO ".rounded_box" [?b; VNum ?a1; VNum ?a2; VNum ?a3; VNum ?a4]] =>
      destruct (linked_rounded_box n (M.mkR r1 r2 r3 r4 r5 r6 r7 r8)
                  (mk_geom x y ml mt w h pt pr pb pl bt br bb bl) a1 a2 a3 a4) as (v & Hv & Hr);
      lazy -[qadd qmul ocall ret_rep Qplus Qmult M.rounded_box linked] in Hv; rewrite Hv;
      pose proof (rbox_rep_not_err _ _ _ _ Hr) as Hne;
      destruct v; try contradiction; (eexists; split; [reflexivity|])
  end.

Theorem gen_rounded_padding_box_linked n R g :
  run (linked T (S (S (S n)))) rounded_padding_box_body [("self", vbox R g)]
      (ret_rep (bbx g) (bby g) (M.rounded_padding_box (bbw g) (bbh g) R (g_bt g, g_br g, g_bb g, g_bl g))) (fun _ => False).
Proof.
  caller n R g. exact Hr.
Qed.

Theorem gen_rounded_border_box_linked n R g :
  run (linked T (S (S (S n)))) rounded_border_box_body [("self", vbox R g)]
      (ret_rep (bbx g) (bby g) (M.rounded_border_box (bbw g) (bbh g) R)) (fun _ => False).
Proof.
  caller n R g. exact Hr.
Qed.

Theorem gen_rounded_content_box_linked n R g :
  run (linked T (S (S (S n)))) rounded_content_box_body [("self", vbox R g)]
      (ret_rep (bbx g) (bby g)
         (M.rounded_content_box (bbw g) (bbh g) R (g_bt g, g_br g, g_bb g, g_bl g) (g_pt g, g_pr g, g_pb g, g_pl g)))
      (fun _ => False).
Proof.
  caller n R g. exact Hr.
Qed.

Theorem gen_rounded_box_ratio_linked n R g k :
  run (linked T (S (S (S n)))) rounded_box_ratio_body [("self", vbox R g); ("ratio", VNum k)]
      (ret_rep (bbx g) (bby g) (M.rounded_box_ratio (bbw g) (bbh g) R (g_bt g, g_br g, g_bb g, g_bl g) k)) (fun _ => False).
Proof.
  caller n R g. exact Hr.
Qed.
