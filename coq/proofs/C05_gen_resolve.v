(* C05 - resolve_percentages of weasyprint/layout/percent.py as REGENERATED from the source on every run
   (gen/GenResolve.v) computes the hand model [resolve] of model/C05Resolve.v: every margin / padding / size is the
   percentage of the width of the containing block (of its height for the vertical sizes; of the page height for the
   vertical margins / paddings of a page box), with the special cases of an 'auto' height of the containing block;
   the border widths are the computed ones unless the borders are collapsed and already resolved; the box then goes
   through adjust_box_sizing on both axes ([gen_resolve_percentages], [resolve_percentages_linked],
   [resolve_percentages_typed]).
   Its calls (which mutate the box) are printed as `%call, box = f(box, 'name', refer_to)`; the linked theorems
   interpret them by running the regenerated specialisation selected by the constant name ([rlink]).
   Proof technique: the body is executed statement by statement ([exec_block] kept opaque) on a box whose entries
   are laid out concretely with arbitrary values; the oracle calls are rewritten with their specifications. *)
From Coq Require Import QArith Qminmax Lqa List String Bool.
Require Import WV.base.Py WV.base.PyLink WV.gen.GenPercent WV.gen.GenResolve WV.gen.GenBoxSizing WV.proofs.PyNatural
        WV.model.C05BoxSizing WV.model.C05Resolve WV.model.C05ResolveLink WV.proofs.C05_gen_box_sizing WV.proofs.C05_gen_resolve_one.
Import ListNotations.
Open Scope string_scope.
Open Scope list_scope.
Open Scope Q_scope.

(* ------------------------------------------------------------------ resolve_percentages *)
Definition rp_post (expected : val) (rho : env) (res : option val) : Prop := res = None /\ lookup "box" rho = expected.
Definition fields_of (v : val) : list (string * val) := match v with VObj f => f | _ => [] end.
(* the borders: used value = computed value, unless border-collapse is 'collapse' and the attribute exists already *)
Definition with_borders (sbl sbr sbt sbb : val) (keep : string -> bool) (u : used) : used :=
  mkUsed (u_ml u) (u_mr u) (u_mt u) (u_mb u) (u_pl u) (u_pr u) (u_pt u) (u_pb u)
         (if keep "border_left_width" then u_bl u else sbl) (if keep "border_right_width" then u_br u else sbr)
         (if keep "border_top_width" then u_bt u else sbt) (if keep "border_bottom_width" then u_bb u else sbb)
         (u_w u) (u_minw u) (u_maxw u) (u_h u) (u_minh u) (u_maxh u).
(* what the vertical margins and paddings refer to: the height of the containing block for a page box (a number),
   else its width *)
Definition vertical_ref (is_page : bool) (cbw : Q) (cbh : option Q) : option Q := if is_page then cbh else Some cbw.

Section RP.
Variable O : qops.
(* hasattr(box, 'border_<side>_width') when the function is entered (no statement before the question binds one of
   these four attributes, so the answer depends on the name only) *)
Variable ha : string -> bool.
Hypothesis HH : forall b a, ocall O "hasattr" [b; VStr a] = VBool (ha a).
Hypothesis HR : forall b name c r, rp_name name = true -> sty b name = cv c ->
  ocall O "resolve_one_percentage" [b; VStr name; VNum r] = VList [VNone; setf name (rop_val name c (VNum r)) b].

Ltac ev := lazy -[exec_block ocall pct min0c cv vo ha].
Ltac step :=
  match goal with
  | |- exec_block _ _ _ _ [] _ _ => rewrite exec_block_nil; ev
  | |- exec_block _ _ _ _ (SIf _ _ _ :: _) _ _ => rewrite exec_block_cons, exec_if; ev
  | |- exec_block _ _ _ _ (_ :: _) _ _ => rewrite exec_block_cons; ev
  end.
Ltac common :=
  first
    [ match goal with |- context [ocall O "resolve_one_percentage" _] => erewrite HR by reflexivity; ev end
    | match goal with |- context [ocall O "hasattr" _] => rewrite HH; ev end
    | match goal with |- context [ha ?x] => destruct (ha x) eqn:?; ev end
    | step
    | match goal with |- context [match vo ?c with _ => _ end] => is_var c; destruct c; cbn [vo]; ev end
    | match goal with |- context [match cv ?c with _ => _ end] => is_var c; destruct c; cbn [cv]; ev end
    | match goal with |- context [if ?b then _ else _] => is_var b; destruct b; ev end ].

(* the two calls of adjust_box_sizing that end the function: the box goes through both *)
Lemma rp_adjust2 (has_height : bool) hv f f1 f2 cbv pagev infv cwv chv mhv callv clv sidev propv :
  ocall O "adjust_box_sizing" [VObj f; VStr "width"] = VList [VNone; VObj f1] ->
  ocall O "adjust_box_sizing" [VObj f1; VStr "height"] = VList [VNone; VObj f2] ->
  exec_block O Prop (fun rho v => rp_post (VObj f2) rho (Some v)) (fun _ => False) (skipn 28 resolve_percentages_body)
    ([("box", VObj f); ("containing_block", cbv); ("box_is_page", pagev);
      ("inf", infv); ("cb_width", cwv); ("cb_height", chv); ("maybe_height", mhv); ("%call", callv)]
     ++ (if has_height then [("height", hv)] else []) ++ [("collapse", clv); ("side", sidev); ("prop", propv)])
    (fun rho => rp_post (VObj f2) rho None).
Proof.
  intros H1 H2. unfold resolve_percentages_body. cbn [skipn]. destruct has_height; cbn [app].
  all: step; rewrite H1; ev; step; rewrite H2; ev; step; split; reflexivity.
Qed.
Lemma rp_adjust2_n f f1 f2 cbv pagev infv cwv chv mhv callv clv sidev propv :
  ocall O "adjust_box_sizing" [VObj f; VStr "width"] = VList [VNone; VObj f1] ->
  ocall O "adjust_box_sizing" [VObj f1; VStr "height"] = VList [VNone; VObj f2] ->
  exec_block O Prop (fun rho v => rp_post (VObj f2) rho (Some v)) (fun _ => False) (skipn 28 resolve_percentages_body)
    [("box", VObj f); ("containing_block", cbv); ("box_is_page", pagev); ("inf", infv); ("cb_width", cwv);
     ("cb_height", chv); ("maybe_height", mhv); ("%call", callv); ("collapse", clv); ("side", sidev); ("prop", propv)]
    (fun rho => rp_post (VObj f2) rho None).
Proof. exact (rp_adjust2 false VNone f f1 f2 cbv pagev infv cwv chv mhv callv clv sidev propv). Qed.
Lemma rp_adjust2_h hv f f1 f2 cbv pagev infv cwv chv mhv callv clv sidev propv :
  ocall O "adjust_box_sizing" [VObj f; VStr "width"] = VList [VNone; VObj f1] ->
  ocall O "adjust_box_sizing" [VObj f1; VStr "height"] = VList [VNone; VObj f2] ->
  exec_block O Prop (fun rho v => rp_post (VObj f2) rho (Some v)) (fun _ => False) (skipn 28 resolve_percentages_body)
    [("box", VObj f); ("containing_block", cbv); ("box_is_page", pagev); ("inf", infv); ("cb_width", cwv);
     ("cb_height", chv); ("maybe_height", mhv); ("%call", callv); ("height", hv); ("collapse", clv); ("side", sidev);
     ("prop", propv)]
    (fun rho => rp_post (VObj f2) rho None).
Proof. exact (rp_adjust2 true hv f f1 f2 cbv pagev infv cwv chv mhv callv clv sidev propv). Qed.

Ltac use H1 :=
  lazy -[ocall pct min0c cv vo ha] in H1;
  repeat match goal with Hq : ha _ = _ |- _ => rewrite Hq in H1; clear Hq end;
  lazy -[ocall pct min0c cv vo ha] in H1; exact H1.

(* from `collapse = ...` to the end: the four border widths, then the two calls of adjust_box_sizing.
   has_height: the local `height` is bound only when the height of the containing block is 'auto' *)
Lemma rp_tail (has_height : bool) hv kw collapse sbl sbr sbt sbb s u srest rest cbv pagev infv cwv chv mhv callv f1 f2 :
  ocall O "adjust_box_sizing"
    [VObj (fields_of (rbox kw (bcv collapse) sbl sbr sbt sbb s
                           (with_borders sbl sbr sbt sbb (fun x => collapse && ha x) u) srest rest)); VStr "width"]
    = VList [VNone; VObj f1] ->
  ocall O "adjust_box_sizing" [VObj f1; VStr "height"] = VList [VNone; VObj f2] ->
  exec_block O Prop (fun rho v => rp_post (VObj f2) rho (Some v)) (fun _ => False) (skipn 15 resolve_percentages_body)
    ([("box", rbox kw (bcv collapse) sbl sbr sbt sbb s u srest rest); ("containing_block", cbv); ("box_is_page", pagev);
      ("inf", infv); ("cb_width", cwv); ("cb_height", chv); ("maybe_height", mhv); ("%call", callv)]
     ++ (if has_height then [("height", hv)] else []))
    (fun rho => rp_post (VObj f2) rho None).
Proof.
  intros H1 H2.
  destruct s as [c1 c2 c3 c4 c5 c6 c7 c8 c9 c10 c11 c12 c13 c14].
  destruct u as [u1 u2 u3 u4 u5 u6 u7 u8 u9 u10 u11 u12 u13 u14 u15 u16 u17 u18].
  unfold resolve_percentages_body. cbn [skipn]. destruct has_height; cbn [app].
  all: repeat first
    [ match goal with
      | |- exec_block _ _ _ _ (SUnpack _ (ECall "adjust_box_sizing" _) :: _) [_; _; _; _; _; _; _; _; _; _; _] _ =>
          eapply rp_adjust2_n; [use H1|exact H2]
      | |- exec_block _ _ _ _ (SUnpack _ (ECall "adjust_box_sizing" _) :: _) [_; _; _; _; _; _; _; _; _; _; _; _] _ =>
          eapply rp_adjust2_h; [use H1|exact H2]
      end
    | common ].
Qed.
Lemma rp_tail_n kw collapse sbl sbr sbt sbb s u srest rest cbv pagev infv cwv chv mhv callv f1 f2 :
  ocall O "adjust_box_sizing"
    [VObj (fields_of (rbox kw (bcv collapse) sbl sbr sbt sbb s
                           (with_borders sbl sbr sbt sbb (fun x => collapse && ha x) u) srest rest)); VStr "width"]
    = VList [VNone; VObj f1] ->
  ocall O "adjust_box_sizing" [VObj f1; VStr "height"] = VList [VNone; VObj f2] ->
  exec_block O Prop (fun rho v => rp_post (VObj f2) rho (Some v)) (fun _ => False) (skipn 15 resolve_percentages_body)
    [("box", rbox kw (bcv collapse) sbl sbr sbt sbb s u srest rest); ("containing_block", cbv); ("box_is_page", pagev);
     ("inf", infv); ("cb_width", cwv); ("cb_height", chv); ("maybe_height", mhv); ("%call", callv)]
    (fun rho => rp_post (VObj f2) rho None).
Proof. exact (rp_tail false VNone kw collapse sbl sbr sbt sbb s u srest rest cbv pagev infv cwv chv mhv callv f1 f2). Qed.
Lemma rp_tail_h hv kw collapse sbl sbr sbt sbb s u srest rest cbv pagev infv cwv chv mhv callv f1 f2 :
  ocall O "adjust_box_sizing"
    [VObj (fields_of (rbox kw (bcv collapse) sbl sbr sbt sbb s
                           (with_borders sbl sbr sbt sbb (fun x => collapse && ha x) u) srest rest)); VStr "width"]
    = VList [VNone; VObj f1] ->
  ocall O "adjust_box_sizing" [VObj f1; VStr "height"] = VList [VNone; VObj f2] ->
  exec_block O Prop (fun rho v => rp_post (VObj f2) rho (Some v)) (fun _ => False) (skipn 15 resolve_percentages_body)
    [("box", rbox kw (bcv collapse) sbl sbr sbt sbb s u srest rest); ("containing_block", cbv); ("box_is_page", pagev);
     ("inf", infv); ("cb_width", cwv); ("cb_height", chv); ("maybe_height", mhv); ("%call", callv); ("height", hv)]
    (fun rho => rp_post (VObj f2) rho None).
Proof. exact (rp_tail true hv kw collapse sbl sbr sbt sbb s u srest rest cbv pagev infv cwv chv mhv callv f1 f2). Qed.

(* the box after the percentages and the borders, before adjust_box_sizing *)
Definition resolved kw collapse sbl sbr sbt sbb s u srest rest cbw cbh mh i : list (string * val) :=
  fields_of (rbox kw (bcv collapse) sbl sbr sbt sbb s
                  (resolve s sbl sbr sbt sbb (fun x => collapse && ha x) cbw cbh mh (VNum i) u) srest rest).

(* from the first call of resolve_one_percentage on *)
Lemma rp_from_3 kw collapse sbl sbr sbt sbb s u srest rest cbv pagev i cbw cbh mh f1 f2 :
  ocall O "adjust_box_sizing" [VObj (resolved kw collapse sbl sbr sbt sbb s u srest rest cbw cbh mh i); VStr "width"]
    = VList [VNone; VObj f1] ->
  ocall O "adjust_box_sizing" [VObj f1; VStr "height"] = VList [VNone; VObj f2] ->
  exec_block O Prop (fun rho v => rp_post (VObj f2) rho (Some v)) (fun _ => False) (skipn 3 resolve_percentages_body)
    [("box", rbox kw (bcv collapse) sbl sbr sbt sbb s u srest rest); ("containing_block", cbv); ("box_is_page", pagev);
     ("inf", VNum i); ("cb_width", VNum cbw); ("cb_height", vo cbh); ("maybe_height", VNum mh)]
    (fun rho => rp_post (VObj f2) rho None).
Proof.
  intros H1 H2. unfold resolved in H1.
  destruct s as [c1 c2 c3 c4 c5 c6 c7 c8 c9 c10 c11 c12 c13 c14].
  destruct u as [u1 u2 u3 u4 u5 u6 u7 u8 u9 u10 u11 u12 u13 u14 u15 u16 u17 u18].
  unfold resolve_percentages_body. cbn [skipn].
  repeat first
    [ match goal with
      | |- exec_block _ _ _ _ (SAssign [TVar "collapse"] _ :: _) [_; _; _; _; _; _; _; _] _ =>
          match type of H1 with context [rbox _ _ _ _ _ _ ?S _ _ _] =>
            eapply (rp_tail_n kw collapse sbl sbr sbt sbb S (mkUsed _ _ _ _ _ _ _ _ _ _ _ _ _ _ _ _ _ _) srest rest);
            [exact H1|exact H2]
          end
      | |- exec_block _ _ _ _ (SAssign [TVar "collapse"] _ :: _) [_; _; _; _; _; _; _; _; _] _ =>
          match type of H1 with context [rbox _ _ _ _ _ _ ?S _ _ _] =>
            eapply (rp_tail_h _ kw collapse sbl sbr sbt sbb S (mkUsed _ _ _ _ _ _ _ _ _ _ _ _ _ _ _ _ _ _) srest rest);
            [exact H1|exact H2]
          end
      end
    | common ].
Qed.

(* ---- resolve_percentages, every statement of it *)
Theorem gen_resolve_percentages (as_box is_page : bool) kw collapse sbl sbr sbt sbb s u srest rest cbrest i cbw cbh mh f1 f2 :
  vertical_ref is_page cbw cbh = Some mh ->
  ocall O "adjust_box_sizing" [VObj (resolved kw collapse sbl sbr sbt sbb s u srest rest cbw cbh mh i); VStr "width"]
    = VList [VNone; VObj f1] ->
  ocall O "adjust_box_sizing" [VObj f1; VStr "height"] = VList [VNone; VObj f2] ->
  run O resolve_percentages_body
    [("box", rbox kw (bcv collapse) sbl sbr sbt sbb s u srest rest); ("containing_block", cbval as_box cbw cbh cbrest);
     ("box_is_page", VBool is_page); ("inf", VNum i)]
    (rp_post (VObj f2)) (fun _ => False).
Proof.
  intros Hm H1 H2. unfold run, cbval, vertical_ref in *.
  destruct as_box, is_page; [destruct cbh as [h|]; [|discriminate] | | destruct cbh as [h|]; [|discriminate] | ];
    injection Hm as <-.
  all: unfold resolve_percentages_body at 1; do 3 step.
  all: eapply rp_from_3; [exact H1|exact H2].
Qed.
End RP.

(* ------------------------------------------------------------------ linking: the calls are the regenerated bodies *)
Lemma rlinked_ok ha n : ops_ok (rlinked ha n).
Proof. apply with_calls_ok, real_ok. Qed.

Lemma call_mut_value O body ps args rho b' :
  PyLink.bind ps args = Some rho ->
  run O body rho (fun rho' res => res = None /\ lookup "box" rho' = b') (fun _ => False) ->
  call_mut O (ps, body) args = VList [VNone; b'].
Proof.
  intros Hb H. unfold call_mut. cbn [fst snd]. rewrite Hb. rewrite run_natural in H. rewrite run_natural.
  destruct (run_out O body rho) as [rho' res|m]; [|contradiction]. destruct H as [-> ->]. reflexivity.
Qed.

Lemma linked_percentage ha n c r : ocall (rlinked ha (S n)) "percentage" [cv c; VNum r] = pct c (VNum r).
Proof. destruct c; reflexivity. Qed.
Lemma linked_hasattr ha n b a : ocall (rlinked ha (S n)) "hasattr" [b; VStr a] = VBool (ha a).
Proof. reflexivity. Qed.

Lemma sty_inv b name c : sty b name = cv c -> exists f st, b = VObj f /\ lookup "style" f = VObj st /\ lookup name st = cv c.
Proof.
  unfold sty. destruct b as [| | | | |f|]; try (destruct c; discriminate).
  destruct (lookup "style" f) as [| | | | |st|] eqn:E; try (destruct c; discriminate).
  intros H. exists f, st. auto.
Qed.

Ltac link_one L body :=
  match goal with |- ocall (rlinked ?ha (S (S ?n))) _ [VObj ?f; VStr ?name; VNum ?r] = _ =>
    change (ocall (rlinked ha (S (S n))) "resolve_one_percentage" [VObj f; VStr name; VNum r])
      with (call_mut (rlinked ha (S n)) (["box"; "refer_to"], body) [VObj f; VNum r]);
    eapply call_mut_value; [reflexivity|]; eapply L; eauto using linked_percentage
  end.

Theorem resolve_one_spec ha n b name c r :
  rp_name name = true -> sty b name = cv c ->
  ocall (rlinked ha (S (S n))) "resolve_one_percentage" [b; VStr name; VNum r]
  = VList [VNone; setf name (rop_val name c (VNum r)) b].
Proof.
  intros Hn Hs. destruct (sty_inv _ _ _ Hs) as (f & st & -> & Hst & Hx). clear Hs.
  unfold rp_name, rp_names in Hn. cbn [existsb] in Hn.
  repeat match type of Hn with
         | (String.eqb name ?k || _)%bool = true =>
             let E := fresh "E" in destruct (String.eqb name k) eqn:E;
             [apply String.eqb_eq in E; subst name; clear Hn | cbn [orb] in Hn]
         end; [..|discriminate].
  - link_one one_margin_left resolve_one_margin_left_body.
  - link_one one_margin_right resolve_one_margin_right_body.
  - link_one one_margin_top resolve_one_margin_top_body.
  - link_one one_margin_bottom resolve_one_margin_bottom_body.
  - link_one one_padding_left resolve_one_padding_left_body.
  - link_one one_padding_right resolve_one_padding_right_body.
  - link_one one_padding_top resolve_one_padding_top_body.
  - link_one one_padding_bottom resolve_one_padding_bottom_body.
  - link_one one_width resolve_one_width_body.
  - link_one one_min_width resolve_one_min_width_body.
  - link_one one_max_width resolve_one_max_width_body.
  - link_one one_height resolve_one_height_body.
  - link_one one_min_height resolve_one_min_height_body.
  - link_one one_max_height resolve_one_max_height_body.
Qed.

(* resolve_percentages with every call linked to the regenerated text of its callee: [f1], [f2] are what the linked
   calls of adjust_box_sizing (theorems of C05_gen_box_sizing) answer on the resolved box *)
Theorem resolve_percentages_linked ha n (as_box is_page : bool) kw collapse sbl sbr sbt sbb s u srest rest cbrest
        i cbw cbh mh f1 f2 :
  let O := rlinked ha (S (S (S n))) in
  vertical_ref is_page cbw cbh = Some mh ->
  ocall O "adjust_box_sizing" [VObj (resolved ha kw collapse sbl sbr sbt sbb s u srest rest cbw cbh mh i); VStr "width"]
    = VList [VNone; VObj f1] ->
  ocall O "adjust_box_sizing" [VObj f1; VStr "height"] = VList [VNone; VObj f2] ->
  run O resolve_percentages_body
    [("box", rbox kw (bcv collapse) sbl sbr sbt sbb s u srest rest); ("containing_block", cbval as_box cbw cbh cbrest);
     ("box_is_page", VBool is_page); ("inf", VNum i)]
    (rp_post (VObj f2)) (fun _ => False).
Proof.
  intros O Hm H1 H2.
  apply (gen_resolve_percentages O ha (linked_hasattr ha _) (resolve_one_spec ha _) as_box is_page kw collapse sbl sbr sbt sbb
           s u srest rest cbrest i cbw cbh mh f1 f2 Hm H1 H2).
Qed.

(* ---- composition with adjust_box_sizing (C05_gen_box_sizing): when the resolved paddings, borders and sizes are
   numbers (sizes and minimum sizes possibly 'auto'), the box that resolve_percentages leaves holds the resolved
   margins, paddings and borders, and on each axis the three sizes of the hand model [adjust] *)
Lemma call_mut_exists O body ps args rho (P : env -> option val -> Prop) :
  PyLink.bind ps args = Some rho -> run O body rho P (fun _ => False) ->
  exists rho' r, call_mut O (ps, body) args = VList [match r with Some v => v | None => VNone end; lookup "box" rho'] /\ P rho' r.
Proof.
  intros Hb H. unfold call_mut. cbn [fst snd]. rewrite Hb. rewrite run_natural in H. rewrite run_natural.
  destruct (run_out O body rho) as [rho' res|m]; [|contradiction]. exists rho', res. auto.
Qed.

Definition typed_post (sz : sizing) (collapse : bool) sbl sbr sbt sbb s (U : used) srest rest
           (pl pr pt pb bl br bt bb : Q) (w mnw : option Q) (mxw : Q) (h mnh : option Q) (mxh : Q)
           (rho : env) (res : option val) : Prop :=
  res = None /\
  exists w' mnw' mxw' h' mnh' mxh',
    lookup "box" rho =
      rbox (VStr (sizing_kw sz)) (bcv collapse) sbl sbr sbt sbb s
           (mkUsed (u_ml U) (u_mr U) (u_mt U) (u_mb U) (VNum pl) (VNum pr) (VNum pt) (VNum pb)
                   (VNum bl) (VNum br) (VNum bt) (VNum bb) w' mnw' mxw' h' mnh' mxh') srest rest /\
    let zw := adjust sz (mkEdges pl pr bl br) (mkSizes w mnw mxw) in
    let zh := adjust sz (mkEdges pt pb bt bb) (mkSizes h mnh mxh) in
    rep w' (C05BoxSizing.sz zw) /\ rep mnw' (sz_min zw) /\ repq mxw' (sz_max zw) /\
    rep h' (C05BoxSizing.sz zh) /\ rep mnh' (sz_min zh) /\ repq mxh' (sz_max zh).

Theorem resolve_percentages_typed ha n (as_box is_page : bool) sz collapse sbl sbr sbt sbb s u srest rest cbrest i cbw cbh mh
        pl pr pt pb bl br bt bb w mnw mxw h mnh mxh :
  vertical_ref is_page cbw cbh = Some mh ->
  let U := resolve s sbl sbr sbt sbb (fun x => collapse && ha x) cbw cbh mh (VNum i) u in
  u_pl U = VNum pl -> u_pr U = VNum pr -> u_pt U = VNum pt -> u_pb U = VNum pb ->
  u_bl U = VNum bl -> u_br U = VNum br -> u_bt U = VNum bt -> u_bb U = VNum bb ->
  u_w U = vo w -> u_minw U = vo mnw -> u_maxw U = VNum mxw ->
  u_h U = vo h -> u_minh U = vo mnh -> u_maxh U = VNum mxh ->
  run (rlinked ha (S (S (S n)))) resolve_percentages_body
    [("box", rbox (VStr (sizing_kw sz)) (bcv collapse) sbl sbr sbt sbb s u srest rest);
     ("containing_block", cbval as_box cbw cbh cbrest); ("box_is_page", VBool is_page); ("inf", VNum i)]
    (typed_post sz collapse sbl sbr sbt sbb s U srest rest pl pr pt pb bl br bt bb w mnw mxw h mnh mxh)
    (fun _ => False).
Proof.
  intros Hm U E1 E2 E3 E4 E5 E6 E7 E8 E9 E10 E11 E12 E13 E14.
  set (style := rstyle (bcv collapse) sbl sbr sbt sbb s srest).
  set (tail := ("margin_left", u_ml U) :: ("margin_right", u_mr U) :: ("margin_top", u_mt U) :: ("margin_bottom", u_mb U) :: rest).
  (* the width call *)
  set (b0 := bsbox (VStr (sizing_kw sz)) style (VNum pl) (VNum pr) (VNum pt) (VNum pb) (VNum bl) (VNum br) (VNum bt) (VNum bb)
                   (vo w) (vo mnw) (VNum mxw) (vo h) (vo mnh) (VNum mxh) tail).
  destruct (call_mut_exists (rlinked ha (S (S n))) adjust_box_sizing_width_body adjust_box_sizing_width_args [b0]
              [("box", b0)] _ eq_refl
              (C05_gen_box_sizing.gen_adjust_width (rlinked ha (S (S n))) (rlinked_ok _ _) sz style pl pr pt pb bl br bt bb
                 w mnw mxw (vo h) (vo mnh) (VNum mxh) tail))
    as (rho1 & r1 & C1 & -> & w' & mnw' & mxw' & B1 & R1 & R2 & R3).
  rewrite B1 in C1.
  (* the height call *)
  set (b1 := bsbox (VStr (sizing_kw sz)) style (VNum pl) (VNum pr) (VNum pt) (VNum pb) (VNum bl) (VNum br) (VNum bt) (VNum bb)
                   w' mnw' mxw' (vo h) (vo mnh) (VNum mxh) tail) in *.
  destruct (call_mut_exists (rlinked ha (S (S n))) adjust_box_sizing_height_body adjust_box_sizing_height_args [b1]
              [("box", b1)] _ eq_refl
              (C05_gen_box_sizing.gen_adjust_height (rlinked ha (S (S n))) (rlinked_ok _ _) sz style pl pr pt pb bl br bt bb
                 w' mnw' mxw' h mnh mxh tail))
    as (rho2 & r2 & C2 & -> & h' & mnh' & mxh' & B2 & R4 & R5 & R6).
  rewrite B2 in C2.
  eapply C05_gen_box_sizing.run_weaken;
    [|eapply (resolve_percentages_linked ha n as_box is_page (VStr (sizing_kw sz)) collapse sbl sbr sbt sbb s u srest rest
                cbrest i cbw cbh mh _ _ Hm)].
  - intros rho' r (Hr & Hb). split; [exact Hr|]. exists w', mnw', mxw', h', mnh', mxh'. split; [|auto 10].
    rewrite Hb. reflexivity.
  - unfold resolved, rbox. fold U. rewrite E1, E2, E3, E4, E5, E6, E7, E8, E9, E10, E11, E12, E13, E14.
    exact C1.
  - exact C2.
Qed.

(* non-vacuity: a border-box block, width 50% of a 200 px containing block of auto height, padding-left 10%,
   border-left 3: margin-left 5% -> 10, padding-left 20, width 100 - 20 - 3 = 77, height 40 px stays 40 - 0 *)
Definition qfield_is (b : val) (k : string) (q : Q) : bool :=
  match b with VObj f => match lookup k f with VNum x => Qeq_bool x q | _ => false end | _ => false end.
Example resolve_percentages_example :
  let s := mkStyle (CPct 5) CAuto (CPx 0) (CPx 0) (CPct 10) (CPx 0) (CPx 0) (CPx 0) (CPct 50) CAuto (CPx 1000)
                   (CPx 40) CAuto (CPct 50) in
  let u0 := mkUsed VNone VNone VNone VNone VNone VNone VNone VNone VNone VNone VNone VNone VNone VNone VNone VNone VNone VNone in
  run (rlinked (fun _ => false) 3) resolve_percentages_body
    [("box", rbox (VStr "border-box") (bcv false) (VNum 3) (VNum 0) (VNum 0) (VNum 0) s u0 [] []);
     ("containing_block", cbval false 200 None []); ("box_is_page", VBool false); ("inf", VNum 1000000)]
    (fun rho _ => let b := lookup "box" rho in
       (qfield_is b "margin_left" 10 && qfield_is b "padding_left" 20 && qfield_is b "border_left_width" 3 &&
        qfield_is b "width" 77 && qfield_is b "min_width" 0 && qfield_is b "max_width" 977 &&
        qfield_is b "height" 40 && qfield_is b "min_height" 0 && qfield_is b "max_height" 500000)%bool = true)
    (fun _ => False).
Proof. vm_compute. reflexivity. Qed.
