(* C05 - resolve_one_percentage and resolve_percentages of weasyprint/layout/percent.py as REGENERATED from the source on
   every run (gen/GenResolve.v):
   - resolve_one_percentage(box, name, refer_to), specialised by constant propagation to each of the fourteen names
     resolve_percentages passes, stores percentage(box.style[name], refer_to) in box.<name> (0 instead of 'auto' for
     min_width / min_height) and changes nothing else, for EVERY box object ([one_*], [resolve_one_spec]);
   - resolve_percentages computes the hand model [resolve] of model/C05Resolve.v: every margin / padding / size is
     the percentage of the width of the containing block (of its height for the vertical sizes; of the page height
     for the vertical margins / paddings of a page box), with the special cases of an 'auto' height of the containing
     block, the border widths are the computed ones unless the borders are collapsed and already resolved, and the
     box then goes through adjust_box_sizing on both axes ([gen_resolve_percentages], [resolve_percentages_linked]).
   Its calls (which mutate the box) are printed as `%call, box = f(box, 'name', refer_to)`; the linked theorem
   interprets them by running the regenerated specialisation selected by the constant name. *)
From Coq Require Import QArith Qminmax Lqa List String Bool.
Require Import WV.base.Py WV.base.PyLink WV.gen.GenPercent WV.gen.GenResolve WV.gen.GenBoxSizing WV.proofs.PyNatural
        WV.model.C05BoxSizing WV.model.C05Resolve.
Import ListNotations.
Open Scope string_scope.
Open Scope list_scope.
Open Scope Q_scope.

Lemma exec_block_cons O A kret kerr s l rho k :
  exec_block O A kret kerr (s :: l) rho k =
  exec O A kret kerr s rho (fun rho' => if flowing rho' then k rho' else exec_block O A kret kerr l rho' k).
Proof. reflexivity. Qed.
Lemma exec_block_nil O A kret kerr rho k : exec_block O A kret kerr [] rho k = k rho.
Proof. reflexivity. Qed.
Lemma exec_if O A kret kerr c th el rho k :
  exec O A kret kerr (SIf c th el) rho k =
  eval O A kerr rho c (fun vc => bool_k O A kerr vc (fun t =>
    if t then exec_block O A kret kerr th rho k else exec_block O A kret kerr el rho k)).
Proof. reflexivity. Qed.
Lemma update_twice k v1 v2 (f : list (string * val)) : update k v2 (update k v1 f) = update k v2 f.
Proof.
  induction f as [|[k' v'] f IH]; simpl.
  - rewrite String.eqb_refl. reflexivity.
  - destruct (String.eqb k k') eqn:E; simpl.
    + rewrite String.eqb_refl. reflexivity.
    + rewrite E, IH. reflexivity.
Qed.

(* ------------------------------------------------------------------ resolve_one_percentage, one name at a time *)
Definition one_post (name : string) (f : list (string * val)) (c : cval) (r : Q) (rho : env) (res : option val) : Prop :=
  res = None /\ lookup "box" rho = VObj (update name (rop_val name c (VNum r)) f).

Section One.
Variable O : qops.
(* percentage(value, refer_to) on a computed length and a number *)
Hypothesis HP : forall c r, ocall O "percentage" [cv c; VNum r] = pct c (VNum r).

(* the object may be ANY association list whose style holds a computed length under the name: the lookups stay
   symbolic (the hypotheses are normalised the same way as the goal, then rewritten) *)
Ltac one_tac body name :=
  let Hst := fresh "Hst" in let Hx := fresh "Hx" in
  intros Hst Hx; unfold run, body, one_post; lazy in Hst, Hx;
  lazy -[ocall pct Qmult Qdiv]; rewrite Hst; lazy -[ocall pct Qmult Qdiv]; rewrite Hx;
  let E := fresh "E" in
  match goal with c : cval, r : Q |- _ => pose proof (HP c r) as E; destruct c end;
  lazy -[ocall Qmult Qdiv] in E; lazy -[ocall Qmult Qdiv]; rewrite E; lazy -[ocall Qmult Qdiv];
  (split; [reflexivity|]); try reflexivity;
  match goal with f : list (string * val) |- _ =>
    let U := fresh "U" in
    pose proof (update_twice name (VStr "auto") (VNum 0) f) as U; lazy in U; rewrite U; reflexivity
  end.

Lemma one_margin_left f st c r :
  lookup "style" f = VObj st -> lookup "margin_left" st = cv c ->
  run O resolve_one_margin_left_body [("box", VObj f); ("refer_to", VNum r)] (one_post "margin_left" f c r) (fun _ => False).
Proof. one_tac resolve_one_margin_left_body "margin_left". Qed.

Lemma one_margin_right f st c r :
  lookup "style" f = VObj st -> lookup "margin_right" st = cv c ->
  run O resolve_one_margin_right_body [("box", VObj f); ("refer_to", VNum r)] (one_post "margin_right" f c r) (fun _ => False).
Proof. one_tac resolve_one_margin_right_body "margin_right". Qed.

Lemma one_margin_top f st c r :
  lookup "style" f = VObj st -> lookup "margin_top" st = cv c ->
  run O resolve_one_margin_top_body [("box", VObj f); ("refer_to", VNum r)] (one_post "margin_top" f c r) (fun _ => False).
Proof. one_tac resolve_one_margin_top_body "margin_top". Qed.

Lemma one_margin_bottom f st c r :
  lookup "style" f = VObj st -> lookup "margin_bottom" st = cv c ->
  run O resolve_one_margin_bottom_body [("box", VObj f); ("refer_to", VNum r)] (one_post "margin_bottom" f c r) (fun _ => False).
Proof. one_tac resolve_one_margin_bottom_body "margin_bottom". Qed.

Lemma one_padding_left f st c r :
  lookup "style" f = VObj st -> lookup "padding_left" st = cv c ->
  run O resolve_one_padding_left_body [("box", VObj f); ("refer_to", VNum r)] (one_post "padding_left" f c r) (fun _ => False).
Proof. one_tac resolve_one_padding_left_body "padding_left". Qed.

Lemma one_padding_right f st c r :
  lookup "style" f = VObj st -> lookup "padding_right" st = cv c ->
  run O resolve_one_padding_right_body [("box", VObj f); ("refer_to", VNum r)] (one_post "padding_right" f c r) (fun _ => False).
Proof. one_tac resolve_one_padding_right_body "padding_right". Qed.

Lemma one_padding_top f st c r :
  lookup "style" f = VObj st -> lookup "padding_top" st = cv c ->
  run O resolve_one_padding_top_body [("box", VObj f); ("refer_to", VNum r)] (one_post "padding_top" f c r) (fun _ => False).
Proof. one_tac resolve_one_padding_top_body "padding_top". Qed.

Lemma one_padding_bottom f st c r :
  lookup "style" f = VObj st -> lookup "padding_bottom" st = cv c ->
  run O resolve_one_padding_bottom_body [("box", VObj f); ("refer_to", VNum r)] (one_post "padding_bottom" f c r) (fun _ => False).
Proof. one_tac resolve_one_padding_bottom_body "padding_bottom". Qed.

Lemma one_width f st c r :
  lookup "style" f = VObj st -> lookup "width" st = cv c ->
  run O resolve_one_width_body [("box", VObj f); ("refer_to", VNum r)] (one_post "width" f c r) (fun _ => False).
Proof. one_tac resolve_one_width_body "width". Qed.

Lemma one_min_width f st c r :
  lookup "style" f = VObj st -> lookup "min_width" st = cv c ->
  run O resolve_one_min_width_body [("box", VObj f); ("refer_to", VNum r)] (one_post "min_width" f c r) (fun _ => False).
Proof. one_tac resolve_one_min_width_body "min_width". Qed.

Lemma one_max_width f st c r :
  lookup "style" f = VObj st -> lookup "max_width" st = cv c ->
  run O resolve_one_max_width_body [("box", VObj f); ("refer_to", VNum r)] (one_post "max_width" f c r) (fun _ => False).
Proof. one_tac resolve_one_max_width_body "max_width". Qed.

Lemma one_height f st c r :
  lookup "style" f = VObj st -> lookup "height" st = cv c ->
  run O resolve_one_height_body [("box", VObj f); ("refer_to", VNum r)] (one_post "height" f c r) (fun _ => False).
Proof. one_tac resolve_one_height_body "height". Qed.

Lemma one_min_height f st c r :
  lookup "style" f = VObj st -> lookup "min_height" st = cv c ->
  run O resolve_one_min_height_body [("box", VObj f); ("refer_to", VNum r)] (one_post "min_height" f c r) (fun _ => False).
Proof. one_tac resolve_one_min_height_body "min_height". Qed.

Lemma one_max_height f st c r :
  lookup "style" f = VObj st -> lookup "max_height" st = cv c ->
  run O resolve_one_max_height_body [("box", VObj f); ("refer_to", VNum r)] (one_post "max_height" f c r) (fun _ => False).
Proof. one_tac resolve_one_max_height_body "max_height". Qed.

End One.
