(* C18 - the /Dests name tree is sorted as the bytes that are written (model/C18Names.v). *)
From Coq Require Import ZArith List Bool Lia Sorted Permutation.
Require Import WV.model.C18Names.
Import ListNotations.
Open Scope Z_scope.

Lemma lex_leb_app p a b : lex_leb (p ++ a) (p ++ b) = lex_leb a b.
Proof. induction p as [|x p IH]; [reflexivity|]. cbn [app lex_leb]. now rewrite Z.ltb_irrefl. Qed.

Lemma lex_leb_total : forall a b, lex_leb a b = false -> lex_leb b a = true.
Proof.
  induction a as [|x a IH]; intros [|y b] H; cbn [lex_leb] in *; try discriminate; try reflexivity.
  destruct (Z.ltb_spec x y); [discriminate|]. destruct (Z.ltb_spec y x); [reflexivity|]. now apply IH.
Qed.

Lemma isascii_cons u n : isascii (u :: n) = true -> 0 <= u < 128 /\ isascii n = true.
Proof.
  cbn [isascii forallb]. intros H. apply andb_prop in H. destruct H as [H1 H2]. apply andb_prop in H1.
  destruct H1 as [A B]. apply Z.leb_le in A. apply Z.ltb_lt in B. split; [lia|exact H2].
Qed.

Lemma lex_utf16be_ascii : forall a b, isascii a = true -> isascii b = true ->
  lex_leb (utf16be a) (utf16be b) = lex_leb a b.
Proof.
  induction a as [|u a IH]; intros [|v b] Ha Hb; try reflexivity.
  apply isascii_cons in Ha. apply isascii_cons in Hb. destruct Ha as [Hu Ha], Hb as [Hv Hb].
  cbn [utf16be flat_map app lex_leb]. rewrite !Z.div_small, !Z.mod_small by lia. cbn [Z.ltb Z.compare].
  fold (utf16be a). fold (utf16be b). now rewrite IH.
Qed.

(* comparing the sort keys is comparing the written byte strings *)
Theorem key_order_is_byte_order (a b : name) : key_leb (key a) (key b) = lex_leb (written a) (written b).
Proof.
  unfold key_leb, key, written. cbn [fst snd]. destruct (isascii a) eqn:Ha, (isascii b) eqn:Hb; cbn [negb].
  - now apply lex_utf16be_ascii.
  - destruct a as [|u a]; [reflexivity|]. apply isascii_cons in Ha. destruct Ha as [Hu _]. cbn [lex_leb].
    destruct (Z.ltb_spec u 254); [reflexivity|lia].
  - destruct b as [|v b]; [reflexivity|]. apply isascii_cons in Hb. destruct Hb as [Hv _]. cbn [lex_leb].
    destruct (Z.ltb_spec 254 v); [lia|]. destruct (Z.ltb_spec v 254); [reflexivity|lia].
  - apply (eq_sym (lex_leb_app [254; 255] _ _)).
Qed.

Definition byte_le (a b : name) : Prop := lex_leb (written a) (written b) = true.

Lemma insert_perm x l : Permutation (insert x l) (x :: l).
Proof.
  induction l as [|y r IH]; [reflexivity|]. cbn [insert]. destruct (key_leb (key y) (key x)); [|reflexivity].
  rewrite IH. apply perm_swap.
Qed.

Lemma insert_sorted x l : Sorted byte_le l -> Sorted byte_le (insert x l).
Proof.
  induction 1 as [|y r Hr IH Hd]; [repeat constructor|]. cbn [insert].
  destruct (key_leb (key y) (key x)) eqn:E.
  - constructor; [exact IH|]. destruct r as [|z r']; cbn [insert].
    + constructor. unfold byte_le. now rewrite <- key_order_is_byte_order.
    + destruct (key_leb (key z) (key x)); constructor.
      * now inversion Hd.
      * unfold byte_le. now rewrite <- key_order_is_byte_order.
  - constructor; [constructor; assumption|]. constructor. unfold byte_le. rewrite <- key_order_is_byte_order.
    rewrite key_order_is_byte_order in E. rewrite key_order_is_byte_order. now apply lex_leb_total.
Qed.

(* the order in which generate_pdf writes the names: a permutation of the gathered names, sorted bytewise as ISO
   32000-1 7.9.6 requires of the keys of a name tree *)
Theorem dests_names_sorted_bytewise (l : list name) :
  Permutation (sort_names l) l /\ Sorted byte_le (sort_names l).
Proof.
  induction l as [|x r [IHp IHs]]; [split; constructor|]. cbn [sort_names]. split.
  - rewrite insert_perm. now constructor.
  - now apply insert_sorted.
Qed.

(* the witness of the repaired defect: "z", "aé", "b" are written (b) (z) <FEFF 0061 00E9> *)
Example names_example : sort_names [[122]; [97; 233]; [98]] = [[98]; [122]; [97; 233]] /\
                        names_judge [[98]; [122]; [97; 233]] = 0%nat /\ names_judge [[97; 233]; [98]; [122]] = 3%nat.
Proof. vm_compute. repeat split. Qed.
