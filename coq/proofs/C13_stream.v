(* C13 - each distinct image is embedded once: Stream.add_image and the image part of _use_references. *)
From Coq Require Import QArith List Bool String Ascii Lia.
Require Import WV.model.C13Replaced WV.model.C13Stream.
Import ListNotations.
Open Scope string_scope.
Open Scope list_scope.

(* ---- the XObject name determines (image id, interpolate) *)
Lemma app_single_inj a b c d : (a ++ String c "" = b ++ String d "")%string -> a = b /\ c = d.
Proof.
  revert b. induction a as [|x a IH]; intros [|y b] H; cbn in H.
  - injection H as ->. auto.
  - injection H as -> H. destruct b; discriminate.
  - injection H as -> H. destruct a; discriminate.
  - injection H as -> H. destruct (IH b H) as [-> ->]. auto.
Qed.

Theorem name_of_injective id1 b1 id2 b2 : name_of id1 b1 = name_of id2 b2 -> id1 = id2 /\ b1 = b2.
Proof.
  unfold name_of. cbn. intro H. injection H as H.
  destruct b1, b2; apply app_single_inj in H; destruct H as [-> H]; split; auto; discriminate.
Qed.

(* ---- add_image *)
Lemma has_In n l : has n l = true <-> In n l.
Proof.
  unfold has. rewrite existsb_exists. split.
  - intros [x [Hx E]]. apply String.eqb_eq in E. now subst.
  - intro H. exists n. split; [exact H | apply String.eqb_refl].
Qed.
Lemma has_not_In n l : has n l = false <-> ~ In n l.
Proof. rewrite <- has_In. destruct (has n l); split; congruence. Qed.

Lemma add_ratio_names n q l : map e_name (add_ratio n q l) = map e_name l.
Proof.
  induction l as [|e t IH]; [reflexivity|]. cbn. destruct (String.eqb n (e_name e)); cbn; [reflexivity|]. now rewrite IH.
Qed.

Lemma add_ratio_length n q l : List.length (add_ratio n q l) = List.length l.
Proof.
  induction l as [|e t IH]; [reflexivity|]. cbn. destruct (String.eqb n (e_name e)); cbn; [reflexivity|]. now rewrite IH.
Qed.

Definition key_name (c : call) : string := name_of (c_id c) (c_interp c).

(* the invariant: names unique in both dictionaries, and both hold the same names *)
Definition inv (s : sstate) : Prop :=
  NoDup (map e_name (images s)) /\ NoDup (xobjs s).

Lemma NoDup_snoc (x : string) l : NoDup l -> ~ In x l -> NoDup (l ++ [x]).
Proof.
  intros N H. induction l as [|y t IH]; cbn.
  - constructor; [intros []|constructor].
  - inversion N as [|? ? Hy Nt]; subst. constructor.
    + rewrite in_app_iff. intros [A|[A|[]]]; [contradiction|]. subst. apply H. now left.
    + apply IH; [exact Nt|]. intro A. apply H. now right.
Qed.

Lemma add_image_step s c s' n :
  add_image s c = (s', n) -> inv s ->
  n = key_name c /\ inv s' /\
  (forall m, In m (map e_name (images s')) <-> In m (map e_name (images s)) \/ m = n) /\
  (forall m, In m (xobjs s') <-> In m (xobjs s) \/ m = n) /\
  (In n (map e_name (images s)) -> List.length (images s') = List.length (images s)).
Proof.
  unfold add_image, inv, key_name. intros E [N1 N2].
  set (k := name_of (c_id c) (c_interp c)) in *.
  assert (X : NoDup (if has k (xobjs s) then xobjs s else xobjs s ++ [k]) /\
              forall m, In m (if has k (xobjs s) then xobjs s else xobjs s ++ [k]) <-> In m (xobjs s) \/ m = k).
  { destruct (has k (xobjs s)) eqn:H.
    - split; [exact N2|]. intro m. apply has_In in H. split; [auto|]. intros [A| ->]; assumption.
    - apply has_not_In in H. split; [now apply NoDup_snoc|]. intro m. rewrite in_app_iff. cbn. intuition. }
  destruct X as [X1 X2].
  destruct (has k (map e_name (images s))) eqn:H; injection E as <- <-; cbn [images xobjs].
  - apply has_In in H. rewrite add_ratio_names. repeat split; auto.
    + intros [A| ->]; assumption.
    + apply X2.
    + apply X2.
    + intros _. apply add_ratio_length.
  - apply has_not_In in H. rewrite map_app. cbn [map e_name]. repeat split; auto.
    + now apply NoDup_snoc.
    + rewrite in_app_iff. cbn. intuition.
    + rewrite in_app_iff. cbn. intuition.
    + apply X2.
    + apply X2.
    + intro A. contradiction.
Qed.

(* image_embedded_once: after any sequence of calls, from the empty state, every name occurs once in _images and
   once in the XObject resources, the names present are exactly those of the calls made, and every call returned
   the name of its (image id, interpolate) *)
Theorem image_embedded_once_from s cs s' ns :
  inv s -> run_calls s cs = (s', ns) ->
  inv s' /\ ns = map key_name cs /\
  (forall m, In m (map e_name (images s')) <-> In m (map e_name (images s)) \/ In m ns) /\
  (forall m, In m (xobjs s') <-> In m (xobjs s) \/ In m ns).
Proof.
  revert s s' ns. induction cs as [|c t IH]; intros s s' ns I E; cbn in E.
  - injection E as <- <-. cbn. intuition.
  - destruct (add_image s c) as [s1 n] eqn:A. destruct (run_calls s1 t) as [s2 ns2] eqn:R.
    injection E as <- <-.
    destruct (add_image_step _ _ _ _ A I) as [En [I1 [M1 [X1 _]]]].
    destruct (IH _ _ _ I1 R) as [I2 [Ens [M2 X2]]].
    split; [exact I2|]. split; [cbn; now rewrite En, Ens|].
    split; intro m; [rewrite M2, M1 | rewrite X2, X1]; cbn; intuition.
Qed.

Theorem image_embedded_once cs :
  let '(s, ns) := run_calls sinit cs in
  NoDup (map e_name (images s)) /\ NoDup (xobjs s) /\
  ns = map key_name cs /\
  (forall m, In m (map e_name (images s)) <-> In m (map key_name cs)) /\
  (forall m, In m (xobjs s) <-> In m (map key_name cs)).
Proof.
  destruct (run_calls sinit cs) as [s ns] eqn:R.
  assert (I : inv sinit) by (split; constructor).
  destruct (image_embedded_once_from _ _ _ _ I R) as [[N1 N2] [E [M X]]].
  split; [exact N1|]. split; [exact N2|]. split; [exact E|]. subst ns.
  split; intro m; [rewrite M | rewrite X]; cbn; intuition.
Qed.

Example embedded_once_example :
  map e_name (images (fst (run_calls sinit [Call 0 "ab" true 1; Call 1 "cd" false 1; Call 0 "ab" true (1 # 2)])))
  = ["iab1"; "icd0"].
Proof. reflexivity. Qed.

(* ---- _use_references: whatever dictionaries refer to an image, its XObject is built and added to the PDF once *)
Lemma use_one_inv s n :
  built s = added s -> NoDup (added s) ->
  let s' := use_one s n in
  built s' = added s' /\ NoDup (added s') /\ (forall m, In m (added s') <-> In m (added s) \/ m = n).
Proof.
  intros E N. unfold use_one. destruct (has n (built s)) eqn:H; cbn.
  - apply has_In in H. rewrite E in H. repeat split; auto. intros [A| ->]; assumption.
  - apply has_not_In in H. rewrite E in *. split; [reflexivity|]. split.
    + constructor; assumption.
    + intro m. intuition.
Qed.

Lemma use_dict_inv d : forall s,
  built s = added s -> NoDup (added s) ->
  let s' := use_dict s d in
  built s' = added s' /\ NoDup (added s') /\ (forall m, In m (added s') <-> In m (added s) \/ In m d).
Proof.
  induction d as [|n t IH]; intros s E N; cbn.
  - intuition.
  - destruct (use_one_inv s n E N) as [E1 [N1 M1]].
    destruct (IH (use_one s n) E1 N1) as [E2 [N2 M2]]. fold (use_dict (use_one s n) t).
    split; [exact E2|]. split; [exact N2|]. intro m. rewrite M2, M1. intuition.
Qed.

Theorem xobject_added_once ds :
  let s := use_dicts ds in
  NoDup (added s) /\ (forall m, In m (added s) <-> exists d, In d ds /\ In m d).
Proof.
  unfold use_dicts.
  assert (G : forall ds s, built s = added s -> NoDup (added s) ->
              let s' := fold_left use_dict ds s in
              NoDup (added s') /\ (forall m, In m (added s') <-> In m (added s) \/ exists d, In d ds /\ In m d)).
  { clear ds. induction ds as [|d t IH]; intros s E N; cbn.
    - split; [exact N|]. intro m. split; [auto|]. intros [A|[d [[] _]]]. exact A.
    - destruct (use_dict_inv d s E N) as [E1 [N1 M1]].
      destruct (IH (use_dict s d) E1 N1) as [N2 M2]. split; [exact N2|].
      intro m. rewrite M2, M1. split.
      + intros [[A|A]|[d' [A B]]]; [auto | right; exists d; auto | right; exists d'; auto].
      + intros [A|[d' [[->|A] B]]]; [auto | auto | right; exists d'; auto]. }
  destruct (G ds (RState [] []) eq_refl (NoDup_nil _)) as [N M]. split; [exact N|].
  intro m. rewrite M. cbn. intuition.
Qed.

Example added_once_example : added (use_dicts [["a"; "b"]; ["a"]; ["b"; "c"]]) = ["c"; "b"; "a"].
Proof. reflexivity. Qed.
