(* C07 - preprocess_declarations over component values (model/C07Full.v): the two paths that do not depend on
   any validator - custom properties, and values containing var(). *)
From Coq Require Import ZArith QArith List Bool String Ascii.
Require Import WV.model.C07Tok WV.model.C07Decl WV.model.C07Expand WV.model.C07Full.
Require Import WV.proofs.C07_expand.
Import ListNotations.
Open Scope string_scope.

Lemma prefix_dashes n : prefix "--" n = true -> exists r, n = String "-" (String "-" r).
Proof.
  destruct n as [|c1 [|c2 r]].
  - intro H. discriminate H.
  - change (prefix "--" (String c1 "")) with (if ascii_dec "-" c1 then false else false).
    destruct (ascii_dec "-" c1); discriminate.
  - change (prefix "--" (String c1 (String c2 r)))
      with (if ascii_dec "-" c1 then (if ascii_dec "-" c2 then prefix "" r else false) else false).
    destruct (ascii_dec "-" c1); [|discriminate]. destruct (ascii_dec "-" c2); [|discriminate].
    subst. eauto.
Qed.

Section FullProofs.
  Variable V0 : Type.
  Variable known supported : string -> bool.
  Variable prop_validator : string -> list tok -> option V0.
  Variable is_color is_border_width is_border_style is_column_width is_column_count is_flex_basis : tok -> bool.
  Variable flex_factor : tok -> option (Q * option Z).
  Variable other_expander : string -> option (list tok -> res (list (string * value V0))).
  Variable not_print proprietary unstable : string -> bool.

  Notation dispatch := (dispatch V0 known supported prop_validator is_color is_border_width is_border_style
                                 is_column_width is_column_count is_flex_basis flex_factor other_expander).
  Notation full_pp := (full_pp V0 known supported prop_validator is_color is_border_width is_border_style
                               is_column_width is_column_count is_flex_basis flex_factor other_expander
                               not_print proprietary unstable).

  Lemma pp_single (d : item (list tok)) l :
    pp1 (list tok) (list tok) (value V0) remove_whitespace
        (fun ts => match ts with [] => true | _ => false end) dispatch not_print proprietary unstable d = Ok l ->
    full_pp [d] = Ok l.
  Proof.
    intro H. unfold C07Full.full_pp, pp. simpl. rewrite H. reflexivity.
  Qed.

  Lemma resolve_custom name lname :
    prefix "--" name = true -> not_print name = false ->
    resolve_name not_print proprietary unstable name lname = Some name.
  Proof.
    intros Hp Hnp. unfold resolve_name. rewrite Hp, Hnp.
    destruct (prefix_dashes _ Hp) as [r Hr].
    assert (W : prefix PREFIX name = false) by (rewrite Hr; reflexivity).
    assert (D : prefix "-" name = true) by (rewrite Hr; reflexivity).
    rewrite W, D, Hp. reflexivity.
  Qed.

  Lemma custom_not_modelled name :
    prefix "--" name = true ->
    str_in name FOUR_SIDES = false /\ str_in name BORDER_SIDES = false /\
    String.eqb name "border" = false /\ String.eqb name "border-radius" = false /\
    String.eqb name "columns" = false /\ String.eqb name "flex" = false.
  Proof.
    intro Hp. destruct (prefix_dashes _ Hp) as [r ->]. repeat split; reflexivity.
  Qed.

  (* a custom property is kept with its tokens, whatever they are: no validator is asked *)
  Theorem custom_property_kept name lname value imp :
    prefix "--" name = true -> not_print name = false -> other_expander name = None ->
    remove_whitespace value <> [] ->
    full_pp [IDecl name lname value imp] = Ok [(style_key name, VRaw (remove_whitespace value), imp)].
  Proof.
    intros Hp Hnp Hoe Hne. apply pp_single.
    unfold pp1. rewrite (resolve_custom name lname Hp Hnp).
    destruct (remove_whitespace value) as [|t ts] eqn:E; [congruence|].
    unfold C07Full.dispatch.
    destruct (custom_not_modelled name Hp) as (A1 & A2 & A3 & A4 & A5 & A6).
    rewrite A1, A2, A3, A4, A5, A6, Hoe.
    rewrite (vns_custom_property V0 known supported prop_validator (t :: ts) name false Hp).
    reflexivity.
  Qed.

  (* a longhand whose value contains var() is kept pending with its tokens, valid or not: the property's
     validator is not asked before computed-value time *)
  Theorem var_takes_pending_path name lname value imp n :
    resolve_name not_print proprietary unstable name lname = Some n ->
    prefix "--" n = false -> known n = true -> supported n = true ->
    str_in n FOUR_SIDES = false -> str_in n BORDER_SIDES = false ->
    str_in n ["border"; "border-radius"; "columns"; "flex"] = false -> other_expander n = None ->
    any_var (remove_whitespace value) = true ->
    full_pp [IDecl name lname value imp] =
    Ok [(style_key n, VPendingProp (remove_whitespace value) n, imp)].
  Proof.
    intros Hn Hp Hk Hs H4 Hb Hm Hoe Hv. apply pp_single.
    unfold pp1. rewrite Hn.
    destruct (remove_whitespace value) as [|t ts] eqn:E; [discriminate|].
    unfold C07Full.dispatch. rewrite H4, Hb.
    simpl in Hm. apply orb_false_iff in Hm. destruct Hm as [M1 Hm].
    apply orb_false_iff in Hm. destruct Hm as [M2 Hm]. apply orb_false_iff in Hm. destruct Hm as [M3 Hm].
    apply orb_false_iff in Hm. destruct Hm as [M4 _].
    rewrite M1, M2, M3, M4, Hoe.
    rewrite (vns_var_is_pending V0 known supported prop_validator (t :: ts) n false Hp Hk Hs Hv).
    reflexivity.
  Qed.

  (* a shorthand of the four-sides family whose value contains var(): every longhand gets the same pending value *)
  Theorem var_in_four_sides_is_pending name lname value imp n :
    resolve_name not_print proprietary unstable name lname = Some n ->
    str_in n FOUR_SIDES = true -> any_var (remove_whitespace value) = true ->
    full_pp [IDecl name lname value imp] =
    Ok (map (fun ln => (style_key ln, VPendingExp (remove_whitespace value) n, imp)) (four_names n)).
  Proof.
    intros Hn H4 Hv. apply pp_single. unfold pp1. rewrite Hn.
    destruct (remove_whitespace value) as [|t ts] eqn:E; [discriminate|].
    unfold C07Full.dispatch. rewrite H4.
    rewrite (four_sides_var_is_pending V0 known supported prop_validator (t :: ts) n Hv).
    rewrite map_map. reflexivity.
  Qed.
End FullProofs.

(* the hypotheses are satisfiable *)
Example custom_and_pending_example :
  let P := full_pp Z (fun _ => true) (fun _ => true) (fun _ _ => None) (fun _ => false) (fun _ => false)
             (fun _ => false) (fun _ => false) (fun _ => false) (fun _ => false) (fun _ => None) (fun _ => None)
             (fun _ => false) (fun _ => false) (fun _ => false) in
  let v := TFunc "var" "var" [TIdent "--X" "--x"] in
  P [IDecl "--X" "--x" [TWs; TAtom 1; TWs] true; IDecl "WIDTH" "width" [TWs; v] false;
     IDecl "margin" "margin" [TAtom 1; TWs; v] false] =
  Ok [("__X", VRaw [TAtom 1], true); ("width", VPendingProp [v] "width", false);
      ("margin_top", VPendingExp [TAtom 1; v] "margin", false); ("margin_right", VPendingExp [TAtom 1; v] "margin", false);
      ("margin_bottom", VPendingExp [TAtom 1; v] "margin", false); ("margin_left", VPendingExp [TAtom 1; v] "margin", false)].
Proof. reflexivity. Qed.
