(* C01: what one step of the children loop can do to the content (shape lemma for blk_step). *)
From Coq Require Import ZArith List Bool Lia Arith.
Require Import WV.model.Frag2 WV.proofs.C01_defs WV.proofs.C01_lines WV.proofs.C01_blocks.
Import ListNotations.
Open Scope nat_scope.

Inductive step_shape (rec : rec_t) (index : nat) (sub : option skip) (newc : list frag) : sout -> Prop :=
| sh_abort O : step_shape rec index sub newc (SAbort O)
| sh_before s' : newc <> [] -> ls_newc s' = newc ->
    step_shape rec index sub newc (SStop (Some (SChild index None)) s')
| sh_earlier newc' res' s' : find_earlier newc = Some (newc', res') -> ls_newc s' = newc' ->
    step_shape rec index sub newc (SStop (Some res') s')
| sh_inside p m b pie a r A B C rs s' :
    rec p m b sub pie a = (Some r, A, B, C) -> b_resume r = Some rs ->
    ls_newc s' = newc ++ [set_index (b_frag r) index] ->
    step_shape rec index sub newc (SStop (Some (SChild index (Some rs))) s')
| sh_done p m b pie a r A B C s' :
    rec p m b sub pie a = (Some r, A, B, C) -> b_resume r = None ->
    ls_newc s' = newc ++ [set_index (b_frag r) index] ->
    step_shape rec index sub newc (SCont s').

Lemma blk_step_shape c rec child cst is_root pie bs index sub s :
  step_shape rec index sub (ls_newc s) (blk_step c rec child cst is_root pie bs index sub s).
Proof.
  unfold blk_step.
  set (newc := ls_newc s).
  destruct (match match newc with [] => None | _ :: _ => Some (last newc (FLine 0 0 0 None 0 0)) end with
            | Some _ => force _ | None => false end) eqn:Eforce.
  - (* forced break *)
    apply sh_before; [|reflexivity]. intro X. rewrite X in Eforce. discriminate.
  - destruct (rec (ls_pos s) _ bs sub _ (ls_cur s)) as [[[res cur_fin] out] same] eqn:Erec1.
    destruct res as [r|].
    + (* first layout gave a fragment *)
      destruct (frag_geom (b_frag r)) as [[[[[[[cy cmt] cmb] cpt] cpb] cbt] cbb] ch] eqn:Egeom.
      cbv zeta.
      destruct (b_ct r) eqn:Ect.
      * (* collapsing through *)
        cbv beta iota.
        destruct (b_resume r) as [rs|] eqn:Eres.
        -- eapply sh_inside; [exact Erec1|exact Eres|reflexivity].
        -- eapply sh_done; [exact Erec1|exact Eres|reflexivity].
      * match goal with |- context [if ?cnd then (None, _, _, _, _, _, _) else _] => destruct cnd eqn:Eco end.
        -- (* content overflows: child goes to the next page *)
           cbv beta iota.
           destruct (avoid _) eqn:Eav.
           ++ destruct (find_earlier newc) as [[newc' res']|] eqn:Efe.
              ** eapply sh_earlier; [exact Efe|reflexivity].
              ** destruct (negb pie); [apply sh_abort|].
                 destruct newc eqn:En; [apply sh_abort|]. apply sh_before; [congruence|reflexivity].
           ++ destruct newc eqn:En; [apply sh_abort|]. apply sh_before; [congruence|reflexivity].
        -- match goal with |- context [if ?cnd then _ else (Some (b_frag r), _, _, _, _, _, _)] => destruct cnd eqn:Ebo end.
           ++ (* border overflows: second layout *)
              destruct (rec (ls_pos s) _ (bs + cpb + cbb)%Z sub _ cur_fin) as [[[res2 cur_fin2] out2] same2] eqn:Erec2.
              destruct res2 as [r2|].
              ** destruct (frag_geom (b_frag r2)) as [[[[[[[cy2 cmt2] cmb2] cpt2] cpb2] cbt2] cbb2] ch2] eqn:Egeom2.
                 cbv beta iota.
                 destruct (b_resume r2) as [rs|] eqn:Eres.
                 --- eapply sh_inside; [exact Erec2|exact Eres|reflexivity].
                 --- eapply sh_done; [exact Erec2|exact Eres|reflexivity].
              ** cbv beta iota.
                 destruct (avoid _) eqn:Eav.
                 --- destruct (find_earlier newc) as [[newc' res']|] eqn:Efe.
                     +++ eapply sh_earlier; [exact Efe|reflexivity].
                     +++ destruct (negb pie); [apply sh_abort|].
                         destruct newc eqn:En; [apply sh_abort|]. apply sh_before; [congruence|reflexivity].
                 --- destruct newc eqn:En; [apply sh_abort|]. apply sh_before; [congruence|reflexivity].
           ++ (* fits *)
              cbv beta iota.
              destruct (b_resume r) as [rs|] eqn:Eres.
              ** eapply sh_inside; [exact Erec1|exact Eres|reflexivity].
              ** eapply sh_done; [exact Erec1|exact Eres|reflexivity].
    + (* the child aborted *)
      cbv beta iota.
      destruct (avoid _) eqn:Eav.
      * destruct (find_earlier newc) as [[newc' res']|] eqn:Efe.
        -- eapply sh_earlier; [exact Efe|reflexivity].
        -- destruct (negb pie); [apply sh_abort|].
           destruct newc eqn:En; [apply sh_abort|]. apply sh_before; [congruence|reflexivity].
      * destruct newc eqn:En; [apply sh_abort|]. apply sh_before; [congruence|reflexivity].
Qed.
