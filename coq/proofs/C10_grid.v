(* C10: column positions and cell extents (model/C10Grid.v): columns and spacings tile the table's content box,
   a cell's border box starts where its first column starts (last one in rtl) and ends where its last column ends. *)
From Coq Require Import QArith Qminmax Lqa Lia List Bool Arith.
Require Import WV.model.C10Distribute WV.model.C10Layout WV.model.C10Grid WV.proofs.C10_distribute WV.proofs.C10_fixed.
Import ListNotations.
Open Scope Q_scope.

Lemma positions_ltr_length x s ws : length (positions_ltr x s ws) = length ws.
Proof. revert x. induction ws as [|w ws IH]; intros x; simpl; [reflexivity|]. now rewrite IH. Qed.
Lemma positions_rtl_length x s ws : length (positions_rtl x s ws) = length ws.
Proof. revert x. induction ws as [|w ws IH]; intros x; simpl; [reflexivity|]. now rewrite IH. Qed.

Lemma positions_ltr_nth s ws : forall x i, (i < length ws)%nat ->
  nth i (positions_ltr x s ws) 0 == x + qnat (S i) * s + qsum (firstn i ws).
Proof.
  induction ws as [|w ws IH]; intros x i Hi; simpl in Hi; [lia|]. destruct i as [|i]; simpl.
  - change (qnat 1) with 1. ring.
  - rewrite IH by lia. rewrite (qnat_S (S i)). ring.
Qed.
Lemma positions_rtl_nth s ws : forall x i, (i < length ws)%nat ->
  nth i (positions_rtl x s ws) 0 == x - qnat (S i) * s - qsum (firstn (S i) ws).
Proof.
  induction ws as [|w ws IH]; intros x i Hi; simpl in Hi; [lia|]. destruct i as [|i].
  - simpl. change (qnat 1) with 1. destruct ws; simpl; ring.
  - cbn [positions_rtl nth]. rewrite IH by lia. rewrite (qnat_S (S i)). cbn [firstn qsum fold_right]. ring.
Qed.

Lemma qsum_firstn_S (l : list Q) : forall i, (i < length l)%nat -> qsum (firstn (S i) l) == qsum (firstn i l) + nth i l 0.
Proof.
  induction l as [|x l IH]; intros i Hi; simpl in Hi; [lia|]. destruct i as [|i].
  - simpl. ring.
  - change (qsum (firstn (S (S i)) (x :: l))) with (x + qsum (firstn (S i) l)).
    change (qsum (firstn (S i) (x :: l))) with (x + qsum (firstn i l)).
    change (nth (S i) (x :: l) 0) with (nth i l 0). rewrite IH by lia. ring.
Qed.
Lemma qsum_firstn_add (l : list Q) : forall a k, qsum (firstn (a + k) l) == qsum (firstn a l) + qsum (firstn k (skipn a l)).
Proof.
  induction l as [|x l IH]; intros a k.
  - rewrite !firstn_nil, skipn_nil, firstn_nil. simpl. ring.
  - destruct a as [|a]; simpl.
    + ring.
    + change (fold_right Qplus 0 (firstn (a + k) l)) with (qsum (firstn (a + k) l)).
      change (fold_right Qplus 0 (firstn a l)) with (qsum (firstn a l)). rewrite IH. ring.
Qed.

Lemma end_ltr_eq s ws : forall x, end_ltr x s ws == x + qnat (length ws) * s + qsum ws.
Proof.
  induction ws as [|w ws IH]; intros x; simpl; [change (qnat 0) with 0; ring|].
  rewrite IH. change (qnat (S (length ws))) with (qnat (S (length ws))). rewrite qnat_S. ring.
Qed.
Lemma end_rtl_eq s ws : forall x, end_rtl x s ws == x - qnat (length ws) * s - qsum ws.
Proof.
  induction ws as [|w ws IH]; intros x; simpl; [change (qnat 0) with 0; ring|].
  rewrite IH. rewrite qnat_S. ring.
Qed.

(* ---------------------------------------------------------------- columns *)
Theorem columns_are_adjacent rtl cbx W s ws i :
  (S i < length ws)%nat ->
  let pos := column_positions rtl cbx W s ws in
  if rtl then nth i pos 0 == nth (S i) pos 0 + nth (S i) ws 0 + s
  else nth (S i) pos 0 == nth i pos 0 + nth i ws 0 + s.
Proof.
  intros Hi. unfold column_positions. destruct rtl; cbv zeta.
  - rewrite !positions_rtl_nth by lia. rewrite (qsum_firstn_S ws (S i)) by lia. rewrite (qnat_S (S i)). ring.
  - rewrite !positions_ltr_nth by lia. rewrite (qsum_firstn_S ws i) by lia. rewrite (qnat_S (S i)). ring.
Qed.

(* given table.width == sum + (n+1) spacing (fixed_sum / auto_sum), the columns and spacings fill the content box *)
Theorem columns_fill_table rtl cbx W s ws :
  let n := length ws in
  (0 < n)%nat -> W == qsum ws + s * (qnat n + 1) ->
  let pos := column_positions rtl cbx W s ws in
  let leftmost := if rtl then Nat.pred n else O in
  let rightmost := if rtl then O else Nat.pred n in
  nth leftmost pos 0 == cbx + s /\
  nth rightmost pos 0 + nth rightmost ws 0 + s == cbx + W /\
  rows_width rtl cbx W s ws == W - s - s.
Proof.
  intros n Hn HW. unfold n in *. clear n. unfold column_positions, rows_width.
  set (n := length ws) in *.
  assert (Eall : firstn n ws = ws) by apply firstn_all.
  assert (E : qsum (firstn (Nat.pred n) ws) + nth (Nat.pred n) ws 0 == qsum ws).
  { rewrite <- (qsum_firstn_S ws (Nat.pred n)) by lia. replace (S (Nat.pred n)) with n by lia. now rewrite Eall. }
  assert (E0 : qsum (firstn 1 ws) == nth 0 ws 0).
  { rewrite (qsum_firstn_S ws 0) by lia. simpl firstn. change (qsum []) with 0. ring. }
  destruct rtl; cbv zeta.
  - rewrite !positions_rtl_nth by lia. rewrite end_rtl_eq. fold n.
    replace (S (Nat.pred n)) with n by lia. rewrite Eall, E0. change (qnat 1) with 1.
    rewrite HW. repeat split; ring.
  - rewrite !positions_ltr_nth by lia. rewrite end_ltr_eq. fold n. simpl firstn. change (qsum []) with 0.
    change (qnat 1) with 1. replace (S (Nat.pred n)) with n by lia. rewrite HW. repeat split; try ring.
    rewrite <- E. ring.
Qed.

(* ---------------------------------------------------------------- cells *)
Theorem cell_spans_its_columns rtl cbx W s ws gx span bp k cx cw :
  let pos := column_positions rtl cbx W s ws in
  cell_extent rtl pos ws s gx span bp = Some (k, cx, cw) ->
  k = Nat.min span (length ws - gx) /\ (1 <= k)%nat /\ (gx + k <= length ws)%nat /\
  (* border box width = spanned columns + inner spacings *)
  cw + bp == qsum (spanned ws gx span) + s * (qnat k - 1) /\
  (* the border box goes from the start of its first column to the end of its last one *)
  let first := if rtl then (gx + k - 1)%nat else gx in
  let last := if rtl then gx else (gx + k - 1)%nat in
  cx == nth first pos 0 /\ cx + (cw + bp) == nth last pos 0 + nth last ws 0.
Proof.
  cbv zeta. unfold cell_extent. set (sw := spanned ws gx span).
  assert (Lk : length sw = Nat.min span (length ws - gx)) by (unfold sw, spanned; now rewrite firstn_length, skipn_length).
  destruct (length sw) as [|k'] eqn:E; [discriminate|]. intros H. injection H as <- <- <-.
  split; [exact Lk|]. split; [lia|]. split; [lia|]. split; [ring|].
  set (k := S k') in *.
  assert (Esw : qsum sw == qsum (firstn (gx + k) ws) - qsum (firstn gx ws)).
  { rewrite qsum_firstn_add. unfold sw, spanned.
    assert (firstn k (skipn gx ws) = firstn span (skipn gx ws)) as ->; [|ring].
    destruct (le_lt_dec span (length ws - gx)) as [Hs|Hs].
    - replace k with span by (unfold k; lia). reflexivity.
    - rewrite !firstn_all2 by (rewrite skipn_length; unfold k; lia). reflexivity. }
  unfold column_positions. destruct rtl.
  - split; [reflexivity|]. rewrite !positions_rtl_nth by lia.
    replace (S (gx + k - 1)) with (gx + k)%nat by lia.
    rewrite (qsum_firstn_S ws gx) by lia. rewrite Esw.
    rewrite (qnat_plus gx k), qnat_S. ring.
  - split; [reflexivity|]. rewrite !positions_ltr_nth by lia.
    assert (E2 : qsum (firstn (gx + k - 1) ws) + nth (gx + k - 1) ws 0 == qsum (firstn (gx + k) ws)).
    { rewrite <- (qsum_firstn_S ws (gx + k - 1)) by lia. now replace (S (gx + k - 1)) with (gx + k)%nat by lia. }
    replace (S (gx + k - 1)) with (gx + k)%nat by lia. rewrite Esw.
    rewrite (qnat_plus gx k), qnat_S. rewrite <- E2. ring.
Qed.

(* a cell entirely beyond the grid is dropped (and the following cells of its row with it) *)
Theorem cell_beyond_grid rtl pos ws s gx span bp :
  cell_extent rtl pos ws s gx span bp = None <-> (span = 0 \/ length ws <= gx)%nat.
Proof.
  unfold cell_extent. assert (Lk : length (spanned ws gx span) = Nat.min span (length ws - gx))
    by (unfold spanned; now rewrite firstn_length, skipn_length).
  destruct (length (spanned ws gx span)) eqn:E; split; intro H; try discriminate; try reflexivity; lia.
Qed.

Example cell_example :
  cell_extent false (column_positions false 10 100 2 [20; 30; 42]) [20; 30; 42] 2 1 5 3
  = Some (2%nat, nth 1 (column_positions false 10 100 2 [20; 30; 42]) 0, qsum [30; 42] + 2 * (qnat 2 - 1) - 3).
Proof. reflexivity. Qed.
Example columns_example : 100 == qsum [20; 30; 42] + 2 * (qnat 3 + 1).
Proof. vm_compute. reflexivity. Qed.
