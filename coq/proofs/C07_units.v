(* C07 - proofs about the unit table and the model of computed_values.length (model/C07Units.v). *)
From Coq Require Import ZArith QArith List Bool String Lqa.
Require Import WV.model.C07Units.
Import ListNotations.
Open Scope string_scope.

(* the table, entry by entry: exact *)
Theorem unit_table_exact :
  exists f_px f_pt f_pc f_in f_cm f_mm f_q,
    factor "px" = Some f_px /\ factor "pt" = Some f_pt /\ factor "pc" = Some f_pc /\ factor "in" = Some f_in /\
    factor "cm" = Some f_cm /\ factor "mm" = Some f_mm /\ factor "q" = Some f_q /\
    (f_px == 1 /\ f_in == 96 /\ f_pt * 3 == 4 /\ f_pc == 16 /\ f_cm * 254 == 9600 /\ f_mm * 254 == 960 /\
     f_q * 1016 == 960)%Q.
Proof.
  do 7 eexists. repeat (split; [reflexivity|]). repeat split; reflexivity.
Qed.

(* (pixels per unit) x (units per inch) = 96 pixels per inch, for every unit of the table; and the table and the
   CSS list of absolute units have the same entries *)
Theorem unit_table_is_css u :
  match factor u, per_inch u with
  | Some f, Some p => (f * p == 96)%Q
  | None, None => True
  | _, _ => False
  end.
Proof.
  unfold factor, per_inch. simpl.
  destruct (String.eqb u "px") eqn:E1; [apply String.eqb_eq in E1; subst; reflexivity|].
  destruct (String.eqb u "pt") eqn:E2; [apply String.eqb_eq in E2; subst; reflexivity|].
  destruct (String.eqb u "pc") eqn:E3; [apply String.eqb_eq in E3; subst; reflexivity|].
  destruct (String.eqb u "in") eqn:E4; [apply String.eqb_eq in E4; subst; reflexivity|].
  destruct (String.eqb u "cm") eqn:E5; [apply String.eqb_eq in E5; subst; reflexivity|].
  destruct (String.eqb u "mm") eqn:E6; [apply String.eqb_eq in E6; subst; reflexivity|].
  destruct (String.eqb u "q") eqn:E7; [apply String.eqb_eq in E7; subst; reflexivity|].
  exact I.
Qed.

Lemma per_inch_pos u p : per_inch u = Some p -> (0 < p)%Q.
Proof.
  unfold per_inch.
  repeat match goal with |- (if ?c then _ else _) = _ -> _ => destruct c end;
    intro H; inversion H; reflexivity.
Qed.

Lemma per_inch_factor u p : per_inch u = Some p -> exists f, factor u = Some f /\ (f * p == 96)%Q.
Proof.
  intro H. pose proof (unit_table_is_css u) as T. rewrite H in T.
  destruct (factor u) as [f|]; [|contradiction]. eauto.
Qed.

(* the model of length(): value x 96 / (units per inch) pixels *)
Theorem length_px_is_css v u p :
  per_inch u = Some p -> exists x, length_px v u = Some x /\ (x == v * 96 / p)%Q.
Proof.
  intro H. pose proof (per_inch_pos _ _ H) as Hp.
  destruct (per_inch_factor _ _ H) as [f [Hf Hfp]].
  unfold length_px. destruct (Qeq_bool v 0) eqn:Ez.
  - apply Qeq_bool_eq in Ez. exists 0%Q. split; auto. rewrite Ez. field. lra.
  - destruct (String.eqb u "px") eqn:Epx.
    + apply String.eqb_eq in Epx. subst. exists v. split; auto.
      simpl in H. inversion H. subst. field.
    + rewrite Hf. exists (v * f)%Q. split; auto.
      assert (f == 96 / p)%Q by (field_simplify_eq; [lra|lra]).
      rewrite H0. field. lra.
Qed.

(* equal lengths written in different absolute units compute to the same number of pixels *)
Theorem equal_lengths_interchangeable v1 u1 v2 u2 p1 p2 :
  per_inch u1 = Some p1 -> per_inch u2 = Some p2 -> (v1 / p1 == v2 / p2)%Q ->
  exists x1 x2, length_px v1 u1 = Some x1 /\ length_px v2 u2 = Some x2 /\ (x1 == x2)%Q.
Proof.
  intros H1 H2 He.
  destruct (length_px_is_css v1 u1 p1 H1) as [x1 [L1 E1]].
  destruct (length_px_is_css v2 u2 p2 H2) as [x2 [L2 E2]].
  exists x1, x2. repeat split; auto.
  pose proof (per_inch_pos _ _ H1). pose proof (per_inch_pos _ _ H2).
  rewrite E1, E2.
  assert (A : (v1 * 96 / p1 == 96 * (v1 / p1))%Q) by (field; lra).
  assert (B : (v2 * 96 / p2 == 96 * (v2 / p2))%Q) by (field; lra).
  rewrite A, B, He. reflexivity.
Qed.

(* 1in = 2.54cm = 25.4mm = 101.6q = 72pt = 6pc = 96px *)
Example one_inch :
  Forall (fun vu => match length_px (fst vu) (snd vu) with Some x => (x == 96)%Q | None => False end)
         [(1, "in"); (254 # 100, "cm"); (254 # 10, "mm"); (1016 # 10, "q"); (72, "pt"); (6, "pc"); (96, "px")]%Q.
Proof. repeat constructor. Qed.
