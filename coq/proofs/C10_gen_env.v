(* The interpreter of base/Py.v reads its environment only through [lookup]: two environments that answer every
   lookup alike (for instance one that lists a local variable as bound to the error value an unbound variable
   yields, and one that does not list it) give the same run, provided the observer has the same property.
   Used by proofs/C10_gen_fixed.v to run a regenerated body on an environment of ONE fixed shape (every local
   variable present from the start), whatever path the execution takes. *)
From Coq Require Import QArith List String Bool.
Require Import WV.base.Py.
Import ListNotations.
Open Scope string_scope.
Open Scope list_scope.

Definition env_eqv (a b : env) : Prop := forall x, lookup x a = lookup x b.

Lemma lookup_update k k' v rho : lookup k (update k' v rho) = if String.eqb k k' then v else lookup k rho.
Proof.
  induction rho as [|[k0 v0] r IH]; cbn [update lookup].
  - destruct (String.eqb k k'); reflexivity.
  - destruct (String.eqb k' k0) eqn:E; cbn [lookup].
    + apply String.eqb_eq in E. subst k0. destruct (String.eqb k k'); reflexivity.
    + destruct (String.eqb k k0) eqn:E0; [|exact IH].
      destruct (String.eqb k k') eqn:E1; [|reflexivity].
      apply String.eqb_eq in E0, E1. subst. rewrite String.eqb_refl in E. discriminate.
Qed.

Lemma eqv_refl a : env_eqv a a.
Proof. intros x. reflexivity. Qed.
Lemma eqv_update x v a b : env_eqv a b -> env_eqv (update x v a) (update x v b).
Proof. intros H y. rewrite !lookup_update. now rewrite (H y). Qed.
Lemma eqv_assign1 t v a b : env_eqv a b -> env_eqv (assign1 a t v) (assign1 b t v).
Proof.
  intros H. destruct t as [x|x f]; cbn [assign1]; [now apply eqv_update|].
  rewrite (H x). destruct (lookup x b); now apply eqv_update.
Qed.
Lemma eqv_tget t a b : env_eqv a b -> tget a t = tget b t.
Proof. intros H. destruct t as [x|x f]; cbn [tget]; now rewrite (H x). Qed.
Lemma eqv_flowing a b : env_eqv a b -> flowing a = flowing b.
Proof. intros H. unfold flowing. now rewrite (H "%flow"). Qed.
(* listing an unbound variable with the value its lookup yields changes no lookup *)
Lemma eqv_bind_unbound x a : lookup x a = VErr ("unbound:" ++ x) -> env_eqv a (a ++ [(x, VErr ("unbound:" ++ x))]).
Proof.
  intros H y. induction a as [|[k0 v0] r IH]; cbn [lookup app].
  - destruct (String.eqb y x) eqn:E; [apply String.eqb_eq in E; now subst|reflexivity].
  - cbn [lookup] in H. destruct (String.eqb y k0) eqn:E0; [reflexivity|].
    destruct (String.eqb x k0) eqn:E1.
    + (* x is bound here to v0 = the unbound value: the lookups of y agree further on *)
      clear IH. induction r as [|[k1 v1] r IHr]; cbn [lookup app].
      * destruct (String.eqb y x) eqn:E; [|reflexivity].
        apply String.eqb_eq in E. subst y. rewrite E1 in E0. discriminate.
      * destruct (String.eqb y k1); [reflexivity|exact IHr].
    + apply IH. exact H.
Qed.
Lemma eqv_trans a b c : env_eqv a b -> env_eqv b c -> env_eqv a c.
Proof. intros H1 H2 x. now rewrite (H1 x). Qed.

Section Eqv.
Variable O : qops.
Variable R : Type.
Variable err : string -> R.

Definition keq {T} (k k' : T -> R) : Prop := forall v, k v = k' v.

Lemma bool_k_ext v k k' : keq k k' -> bool_k O R err v k = bool_k O R err v k'.
Proof. intros Hk. destruct v; simpl; auto. destruct (qeqb O q 0); auto. Qed.
Lemma arith_k_ext o a b k k' : keq k k' -> arith_k O R err o a b k = arith_k O R err o a b k'.
Proof. intros Hk. destruct a, b; simpl; auto; destruct o; auto. destruct (qeqb O q0 0); auto. Qed.
Lemma veq_k_ext a b k k' : keq k k' -> veq_k O R err a b k = veq_k O R err a b k'.
Proof. intros Hk. destruct a, b; simpl; auto. destruct (qeqb O q q0); auto. Qed.
Lemma cmp_k_ext o a b k k' : keq k k' -> cmp_k O R err o a b k = cmp_k O R err o a b k'.
Proof.
  intros Hk. destruct o; simpl; try (apply veq_k_ext; auto; fail).
  - apply veq_k_ext. intros v. apply Hk.
  - destruct a, b; simpl; auto; destruct (qleb O _ _); auto.
  - destruct a, b; simpl; auto; destruct (qleb O _ _); auto.
  - destruct a, b; simpl; auto; destruct (qleb O _ _); auto.
  - destruct a, b; simpl; auto; destruct (qleb O _ _); auto.
Qed.
Lemma minmax_k_ext ismax vs k k' : keq k k' -> minmax_k O R err ismax vs k = minmax_k O R err ismax vs k'.
Proof.
  intros Hk. destruct vs as [|v0 vs]; simpl; auto. revert v0. induction vs as [|v vs IH]; intros v0; simpl; auto.
  destruct v0, v; auto.
Qed.
Lemma gen_collect_ext (f f' : val -> (option val -> R) -> R) :
  (forall v kk kk', keq kk kk' -> f v kk = f' v kk') ->
  forall l acc k k', keq k k' -> gen_collect f l acc k = gen_collect f' l acc k'.
Proof.
  intros Hf. induction l as [|v l IH]; intros acc k k' Hk; simpl; auto.
  apply Hf. intros [ve|]; apply IH; auto.
Qed.

Fixpoint eval_eqv (e : expr) : forall r1 r2 k k', env_eqv r1 r2 -> keq k k' ->
  eval O R err r1 e k = eval O R err r2 e k'.
Proof.
  destruct e as [v|x|e a|o a b|a rest|a b|a b|a|c a b|elt x it cond|elt x it cond|e key|e n|e|es|neg e c|f args|a b|elt x it cond|pp pargs];
    intros r1 r2 k k' Hr Hk; simpl.
  - apply Hk.
  - rewrite (Hr x). apply Hk.
  - apply eval_eqv; [exact Hr|]. intros [ | | | | |f| ]; auto.
  - apply eval_eqv; [exact Hr|]. intros va. apply eval_eqv; [exact Hr|]. intros vb. now apply arith_k_ext.
  - apply eval_eqv; [exact Hr|]. intros va. revert va. induction rest as [|[o e1] rest IH]; intros va; [apply Hk|].
    apply eval_eqv; [exact Hr|]. intros r. apply cmp_k_ext. intros [|]; [apply IH|apply Hk].
  - apply eval_eqv; [exact Hr|]. intros va. apply bool_k_ext. intros [|]; [now apply eval_eqv|apply Hk].
  - apply eval_eqv; [exact Hr|]. intros va. apply bool_k_ext. intros [|]; [apply Hk|now apply eval_eqv].
  - apply eval_eqv; [exact Hr|]. intros va. apply bool_k_ext. intros t. apply Hk.
  - apply eval_eqv; [exact Hr|]. intros vc. apply bool_k_ext. intros [|]; now apply eval_eqv.
  - apply eval_eqv; [exact Hr|]. intros vit. destruct vit; auto.
    apply gen_collect_ext; [|intros vs; now apply minmax_k_ext].
    intros v kk kk' Hkk. pose proof (eqv_update x v _ _ Hr) as Hu. destruct cond as [c|].
    + apply eval_eqv; [exact Hu|]. intros vc. apply bool_k_ext. intros [|]; [|apply Hkk].
      apply eval_eqv; [exact Hu|]. intros ve. apply Hkk.
    + apply eval_eqv; [exact Hu|]. intros ve. apply Hkk.
  - apply eval_eqv; [exact Hr|]. intros vit. destruct vit; auto.
    apply gen_collect_ext; [|intros vs; now apply minmax_k_ext].
    intros v kk kk' Hkk. pose proof (eqv_update x v _ _ Hr) as Hu. destruct cond as [c|].
    + apply eval_eqv; [exact Hu|]. intros vc. apply bool_k_ext. intros [|]; [|apply Hkk].
      apply eval_eqv; [exact Hu|]. intros ve. apply Hkk.
    + apply eval_eqv; [exact Hu|]. intros ve. apply Hkk.
  - apply eval_eqv; [exact Hr|]. intros [ | | | | |f| ]; auto.
  - apply eval_eqv; [exact Hr|]. intros [ | | | |l| | ]; auto.
  - apply eval_eqv; [exact Hr|]. intros [ | | | | |f| ]; auto.
  - generalize (@nil val) as acc. induction es as [|e1 es IH]; intros acc; [apply Hk|].
    apply eval_eqv; [exact Hr|]. intros v. apply IH.
  - apply eval_eqv; [exact Hr|]. intros v. apply eval_eqv; [exact Hr|]. intros vc. destruct vc; auto.
    induction l as [|x l IH]; [apply Hk|]. apply veq_k_ext. intros [|]; [apply Hk|apply IH].
  - generalize (@nil val) as acc. induction args as [|e1 es IH]; intros acc.
    + destruct (ocall O f (rev acc)); auto; apply Hk.
    + apply eval_eqv; [exact Hr|]. intros v. destruct v; auto; apply IH.
  - apply eval_eqv; [exact Hr|]. intros va. apply eval_eqv; [exact Hr|]. intros vb. destruct va, vb; auto; apply Hk.
  - apply eval_eqv; [exact Hr|]. intros vit. destruct vit; auto.
    apply gen_collect_ext; [|intros vs; apply Hk].
    intros v kk kk' Hkk. pose proof (eqv_update x v _ _ Hr) as Hu. destruct cond as [c|].
    + apply eval_eqv; [exact Hu|]. intros vc. apply bool_k_ext. intros [|]; [|apply Hkk].
      apply eval_eqv; [exact Hu|]. intros ve. apply Hkk.
    + apply eval_eqv; [exact Hu|]. intros ve. apply Hkk.
  - generalize (@nil val) as acc. induction pargs as [|e1 es IH]; intros acc.
    + destruct (prim_apply pp (rev acc)); auto; apply Hk.
    + apply eval_eqv; [exact Hr|]. intros v. destruct v; auto; apply IH.
Qed.

Variables (kret kret' : env -> val -> R).
Hypothesis Hret : forall a b v, env_eqv a b -> kret a v = kret' b v.

Definition kenv (k k' : env -> R) : Prop := forall a b, env_eqv a b -> k a = k' b.

Lemma gen_iter_eqv (f f' : val -> env -> (env -> R) -> R) :
  (forall v a b kk kk', env_eqv a b -> kenv kk kk' -> f v a kk = f' v b kk') ->
  forall l a b k k', env_eqv a b -> kenv k k' -> gen_iter f l a k = gen_iter f' l b k'.
Proof.
  intros Hf. induction l as [|v l IH]; intros a b k k' Hr Hk; simpl; [now apply Hk|].
  apply Hf; [exact Hr|]. intros a' b' Hr'. now apply IH.
Qed.

Lemma fold_assign_eqv ts v : forall a b, env_eqv a b ->
  env_eqv (fold_left (fun r t => assign1 r t v) ts a) (fold_left (fun r t => assign1 r t v) ts b).
Proof. induction ts as [|t ts IH]; intros a b H; [exact H|]. cbn [fold_left]. apply IH. now apply eqv_assign1. Qed.
Lemma fold_unpack_eqv (tvs : list (target * val)) : forall a b, env_eqv a b ->
  env_eqv (fold_left (fun r tv => assign1 r (fst tv) (snd tv)) tvs a) (fold_left (fun r tv => assign1 r (fst tv) (snd tv)) tvs b).
Proof. induction tvs as [|t ts IH]; intros a b H; [exact H|]. cbn [fold_left]. apply IH. now apply eqv_assign1. Qed.

Fixpoint exec_eqv (s : stmt) : forall r1 r2 k k', env_eqv r1 r2 -> kenv k k' ->
  exec O R kret err s r1 k = exec O R kret' err s r2 k'.
Proof.
  destruct s as [ts e|t o e|c th el|x e|e|x it body|e|ts e|c body| | |x e| |x i e]; intros r1 r2 k k' Hr Hk; simpl.
  - apply eval_eqv; [exact Hr|]. intros v. apply Hk. now apply fold_assign_eqv.
  - apply eval_eqv; [exact Hr|]. intros v. rewrite (eqv_tget t _ _ Hr). apply arith_k_ext. intros r. apply Hk.
    now apply eqv_assign1.
  - apply eval_eqv; [exact Hr|]. intros vc. apply bool_k_ext. intros [|].
    + revert r1 r2 Hr. induction th as [|s1 th IH]; intros r1 r2 Hr; [now apply Hk|]. apply exec_eqv; [exact Hr|].
      intros a b Hab. rewrite (eqv_flowing _ _ Hab). destruct (flowing b); [now apply Hk|now apply IH].
    + revert r1 r2 Hr. induction el as [|s1 el IH]; intros r1 r2 Hr; [now apply Hk|]. apply exec_eqv; [exact Hr|].
      intros a b Hab. rewrite (eqv_flowing _ _ Hab). destruct (flowing b); [now apply Hk|now apply IH].
  - apply eval_eqv; [exact Hr|]. intros v. rewrite (Hr x). destruct (lookup x r2); auto. destruct v; auto.
    apply Hk. now apply eqv_update.
  - apply eval_eqv; [exact Hr|]. intros v. now apply Hret.
  - apply eval_eqv; [exact Hr|]. intros vit. destruct vit; auto.
    apply gen_iter_eqv; [|exact Hr|exact Hk]. intros v a b kk kk' Hab Hkk.
    pose proof (eqv_update x v _ _ Hab) as Hu. revert Hu. generalize (update x v a) (update x v b).
    induction body as [|s1 body IH]; intros a1 b1 H1; [now apply Hkk|].
    apply exec_eqv; [exact H1|]. intros a2 b2 H2. rewrite (eqv_flowing _ _ H2).
    destruct (flowing b2); [now apply Hkk|now apply IH].
  - apply eval_eqv; [exact Hr|]. intros v. apply bool_k_ext. intros [|]; [now apply Hk|reflexivity].
  - apply eval_eqv; [exact Hr|]. intros v. destruct v; auto. destruct (Nat.eqb _ _); auto. apply Hk.
    now apply fold_unpack_eqv.
  - (* while *)
    assert (Hb : forall (kk kk' : env -> R), kenv kk kk' -> forall a b, env_eqv a b ->
      (fix block (l : list stmt) (rho : env) (k : env -> R) : R :=
            match l with [] => k rho
            | s :: l' => exec O R kret err s rho (fun rho' => if flowing rho' then k rho' else block l' rho' k) end)
           body a kk =
      (fix block (l : list stmt) (rho : env) (k : env -> R) : R :=
            match l with [] => k rho
            | s :: l' => exec O R kret' err s rho (fun rho' => if flowing rho' then k rho' else block l' rho' k) end)
           body b kk').
    { intros kk kk' Hkk. induction body as [|s1 body IH]; intros a b Hab; [now apply Hkk|].
      apply exec_eqv; [exact Hab|]. intros a2 b2 H2. rewrite (eqv_flowing _ _ H2).
      destruct (flowing b2); [now apply Hkk|now apply IH]. }
    revert r1 r2 Hr. generalize (wfuel O) as n. induction n as [|n IHn]; intros r1 r2 Hr; [reflexivity|].
    simpl. apply eval_eqv; [exact Hr|]. intros vc. apply bool_k_ext. intros [|]; [|now apply Hk].
    apply Hb; [|exact Hr]. intros a b Hab. rewrite (Hab "%flow"). destruct (lookup "%flow" b); try (now apply IHn).
    destruct (String.eqb s "break"); [apply Hk|apply IHn]; now apply eqv_update.
  - apply Hk. now apply eqv_update.
  - apply Hk. now apply eqv_update.
  - apply eval_eqv; [exact Hr|]. intros v. rewrite (Hr x). destruct (lookup x r2); auto; apply Hk; now apply eqv_update.
  - now apply Hk.
  - apply eval_eqv; [exact Hr|]. intros v. apply eval_eqv; [exact Hr|]. intros vi. rewrite (Hr x).
    destruct v; auto; destruct (setitem (lookup x r2) vi _); auto; apply Hk; now apply eqv_update.
Qed.

Lemma exec_block_eqv : forall l r1 r2 k k', env_eqv r1 r2 -> kenv k k' ->
  exec_block O R kret err l r1 k = exec_block O R kret' err l r2 k'.
Proof.
  induction l as [|s l IH]; intros r1 r2 k k' Hr Hk; simpl; [now apply Hk|].
  apply exec_eqv; [exact Hr|]. intros a b Hab. rewrite (eqv_flowing _ _ Hab).
  destruct (flowing b); [now apply Hk|now apply IH].
Qed.
End Eqv.

Theorem run_env_eqv (O : qops) {A} (body : list stmt) (r1 r2 : env) (obs : env -> option val -> A) (kerr : string -> A) :
  env_eqv r1 r2 -> (forall a b r, env_eqv a b -> obs a r = obs b r) ->
  run O body r1 obs kerr = run O body r2 obs kerr.
Proof.
  intros Hr Hobs. unfold run. apply exec_block_eqv; [|exact Hr|].
  - intros a b v Hab. now apply Hobs.
  - intros a b Hab. now apply Hobs.
Qed.
Print Assumptions run_env_eqv.
