(* C06 - border_width of weasyprint/css/computed_values.py (border-*-width, column-rule-width, outline-width) as
   REGENERATED from the source on every run (gen/GenComputedGap.v), whole: the style of the same border is read
   under the key name.replace('width', 'style'); 'none' / 'hidden' make the width 0 whatever the value; else the
   keywords of the table BORDER_WIDTH_KEYWORDS as the source reads it today (thin 1, medium 3, thick 5), an int (the
   initial value) kept, anything else through length() with pixels_only=True - the regenerated body of length
   (proofs/C06_gen_length.v), i.e. the hand model C06Values.length. *)
From Coq Require Import QArith Lqa List String Bool Ascii.
Require Import WV.base.Py WV.base.PyLink WV.proofs.PyNatural WV.proofs.PyTac WV.gen.GenComputed WV.gen.GenComputedGap.
Require Import WV.model.C06Values WV.proofs.C06_values WV.proofs.C06_gen_length.
Import ListNotations.
Open Scope string_scope.
Open Scope list_scope.
Open Scope Q_scope.

(* ------------------------------------------------------------------ the builtins this function calls *)
(* str.replace(old, new), old not empty: every occurrence of old, from the left, not overlapping *)
Fixpoint str_replace_from (old new : string) (skip : nat) (s : string) : string :=
  match s with
  | EmptyString => EmptyString
  | String c s' =>
      match skip with
      | S k => str_replace_from old new k s'
      | O => if String.prefix old s then new ++ str_replace_from old new (String.length old - 1) s'
             else String c (str_replace_from old new 0 s')
      end
  end.
Definition str_replace (old new s : string) : string := str_replace_from old new 0 s.

Example str_replace_ex :
  str_replace "width" "style" "border_top_width" = "border_top_style" /\
  str_replace "width" "style" "border_right_width" = "border_right_style" /\
  str_replace "width" "style" "border_bottom_width" = "border_bottom_style" /\
  str_replace "width" "style" "border_left_width" = "border_left_style" /\
  str_replace "width" "style" "column_rule_width" = "column_rule_style" /\
  str_replace "width" "style" "outline_width" = "outline_style" /\
  str_replace "ab" "c" "abxabab" = "cxcc" /\ str_replace "aa" "b" "aaa" = "ba".
Proof. repeat split. Qed.

(* mapping[key], key a str: the entry, KeyError without one *)
Fixpoint obj_get (k : string) (o : list (string * val)) : val :=
  match o with [] => VErr "KeyError" | (k', v) :: r => if String.eqb k k' then v else obj_get k r end.
Definition getitem (m key : val) : val :=
  match m, key with VObj o, VStr k => obj_get k o | _, _ => VErr "TypeError" end.
(* isinstance(v, int): the numbers that are integers (bool is a subclass of int); the validator never writes a
   float here *)
Definition isint (v : val) : bool :=
  match v with
  | VNum q => match as_int q with Some _ => true | None => false end
  | VBool _ => true
  | _ => false
  end.

Definition lcall3 xr cr (f : string) (args : list val) : val :=
  if String.eqb f "%replace" then
    match args with [VStr s; VStr a; VStr b] => VStr (str_replace a b s) | _ => VErr "TypeError" end
  else if String.eqb f "%getitem" then
    match args with [m; key] => getitem m key | _ => VErr "TypeError" end
  else if String.eqb f "%isinstance" then
    match args with
    | [v; VStr c] => if String.eqb c "%int" then VBool (isint v) else VErr "TypeError"
    | _ => VErr "TypeError"
    end
  else lcall2 xr cr f args.
Definition calls3_ok (O : qops) xr cr : Prop := forall f args, ocall O f args = lcall3 xr cr f args.
Definition lops3 xr cr : qops := with_calls real_ops (lcall3 xr cr).
Lemma lops3_ok xr cr : ops_ok (lops3 xr cr).
Proof. apply with_calls_ok, real_ok. Qed.
Lemma lops3_calls xr cr : calls3_ok (lops3 xr cr) xr cr.
Proof. intros f args. reflexivity. Qed.

Ltac ev3 := lazy -[qadd qsub qmul qdiv qmax qmin qleb qeqb ocall Qplus Qminus Qmult Qdiv Qeq_bool Qle_bool Qeq
                   call_body lops length_fn C06Values.length env_of getitem str_replace as_int].
Ltac ev3h H := lazy -[qadd qsub qmul qdiv qmax qmin qleb qeqb ocall Qplus Qminus Qmult Qdiv Qeq_bool Qle_bool Qeq
                         call_body lops length_fn C06Values.length env_of getitem str_replace as_int] in H.

(* the border styles of the grammar *)
Inductive bstyle := BNone | BHidden | BDotted | BDashed | BSolid | BDouble | BGroove | BRidge | BInset | BOutset.
Definition bs_str (b : bstyle) : string :=
  match b with
  | BNone => "none" | BHidden => "hidden" | BDotted => "dotted" | BDashed => "dashed" | BSolid => "solid"
  | BDouble => "double" | BGroove => "groove" | BRidge => "ridge" | BInset => "inset" | BOutset => "outset"
  end.
Definition no_border (b : bstyle) : bool := match b with BNone | BHidden => true | _ => false end.

(* the style of the same border, as the source finds it *)
Definition style_of_border own rootfs root more (n : string) (b : bstyle) : Prop :=
  getitem (style_val own rootfs root more) (VStr (str_replace "width" "style" n)) = VStr (bs_str b).

Definition bw_post (r : val) (_ : Py.env) (res : option val) : Prop := res = Some r.

(* evaluation to the next call of an operation only (hnf: the continuations are left alone; `lazy` would normalise
   the rest of the program under every constructor of the stuck call's answer) *)
Opaque getitem str_replace call_body as_int.
Ltac callstep HC := hnf; rewrite HC; hnf.
Ltac start HB HC :=
  callstep HC; callstep HC;
  match type of HB with
  | style_of_border _ _ _ _ _ ?bb =>
      match goal with
      | |- context [lcall3 ?xr ?cr "%getitem" ?a] =>
          replace (lcall3 xr cr "%getitem" a) with (VStr (bs_str bb)) by (symmetry; exact HB)
      end
  end.

(* border style none / hidden: 0, whatever the value *)
Lemma run_none O xr cr (HC : calls3_ok O xr cr) own rootfs (root : bool) more n b
      (HB : style_of_border own rootfs root more n b) (x : val) :
  no_border b = true ->
  run O border_width_body [("style", style_val own rootfs root more); ("name", VStr n); ("value", x)]
    (bw_post (VNum 0)) (fun _ => False).
Proof.
  intros Hb. start HB HC. destruct b; try discriminate Hb; hnf; reflexivity.
Qed.

(* the keywords *)
Lemma run_keywords O xr cr (HC : calls3_ok O xr cr) own rootfs (root : bool) more n b
      (HB : style_of_border own rootfs root more n b) :
  no_border b = false ->
  run O border_width_body [("style", style_val own rootfs root more); ("name", VStr n); ("value", VStr "thin")]
    (bw_post (VNum 1)) (fun _ => False) /\
  run O border_width_body [("style", style_val own rootfs root more); ("name", VStr n); ("value", VStr "medium")]
    (bw_post (VNum 3)) (fun _ => False) /\
  run O border_width_body [("style", style_val own rootfs root more); ("name", VStr n); ("value", VStr "thick")]
    (bw_post (VNum 5)) (fun _ => False).
Proof.
  intros Hb. (split; [|split]); start HB HC; destruct b; try discriminate Hb; hnf; reflexivity.
Qed.

(* an int (the initial value 3 gets here) is kept *)
Lemma run_int O xr cr (HC : calls3_ok O xr cr) own rootfs (root : bool) more n b
      (HB : style_of_border own rootfs root more n b) q z :
  no_border b = false -> as_int q = Some z ->
  run O border_width_body [("style", style_val own rootfs root more); ("name", VStr n); ("value", VNum q)]
    (bw_post (VNum q)) (fun _ => False).
Proof.
  intros Hb Hq. start HB HC. destruct b; try discriminate Hb; hnf; rewrite HC;
    match goal with
    | |- context [lcall3 ?xr ?cr "%isinstance" ?a] =>
        replace (lcall3 xr cr "%isinstance" a) with (VBool (isint (VNum q))) by reflexivity
    end; unfold isint; rewrite Hq; hnf; reflexivity.
Qed.

(* a length: length() with pixels_only=True *)
Lemma run_length O xr cr (HC : calls3_ok O xr cr) own rootfs (root : bool) more n b
      (HB : style_of_border own rootfs root more n b) k v :
  no_border b = false ->
  run O border_width_body [("style", style_val own rootfs root more); ("name", VStr n); ("value", lval_val k v)]
    (length_post true (lval_val k v)
       (length (env_of xr cr own rootfs root more) (String.eqb n "font_size") None v)) (fun _ => False).
Proof.
  intros Hb.
  destruct (gen_length_call (lops xr cr) (lops_ok xr cr) xr cr (lops_calls xr cr) own rootfs root more n k v None true)
    as [res [Hres Hok]].
  remember (length (env_of xr cr own rootfs root more) (String.eqb n "font_size") None v) as r eqn:Er. clear Er.
  (destruct v as [|q u]; [destruct k|]); start HB HC; (destruct b; try discriminate Hb); hnf; callstep HC; rewrite HC;
    match goal with
    | |- context [lcall3 ?xr ?cr "length" ?a] =>
        replace (lcall3 xr cr "length" a) with res by (symmetry; exact Hres)
    end;
    (destruct r as [|px]; simpl in Hok;
     [rewrite Hok; hnf; reflexivity
     |destruct Hok as [q' [Hq ->]]; hnf; exists q'; split; [exact Hq|reflexivity]]).
Qed.

Transparent getitem str_replace call_body as_int.

Definition border_width_fn : fn := (border_width_args, border_width_body).

Ltac by_run4 H :=
  unfold call_body;
  cbn [fst snd PyLink.bind border_width_fn border_width_args];
  rewrite run_natural in H; rewrite run_natural;
  destruct (run_out _ _ _) as [rho' [x'|]|m]; try contradiction; try discriminate H; try exact H.

(* the regenerated border_width under the concrete operations, for EVERY property name n, every style whose entry
   n.replace('width', 'style') is the border style b, every value *)
Theorem gen_border_width xr cr own rootfs (root : bool) more n b :
  style_of_border own rootfs root more n b ->
  let call value := call_body (lops3 xr cr) border_width_fn [style_val own rootfs root more; VStr n; value] in
  (no_border b = true -> forall x, call x = VNum 0) /\
  (no_border b = false ->
     call (VStr "thin") = VNum 1 /\ call (VStr "medium") = VNum 3 /\ call (VStr "thick") = VNum 5 /\
     (forall q z, as_int q = Some z -> call (VNum q) = VNum q) /\
     (forall k v, res_ok true (lval_val k v)
                    (length (env_of xr cr own rootfs root more) (String.eqb n "font_size") None v)
                    (call (lval_val k v)))).
Proof.
  intros HB call. unfold call. split.
  - intros Hb x.
    pose proof (run_none (lops3 xr cr) xr cr (lops3_calls xr cr) own rootfs root more n b HB x Hb) as H.
    unfold bw_post in H. by_run4 H. congruence.
  - intros Hb.
    destruct (run_keywords (lops3 xr cr) xr cr (lops3_calls xr cr) own rootfs root more n b HB Hb) as [H1 [H2 H3]].
    unfold bw_post in *.
    split; [by_run4 H1; congruence|]. split; [by_run4 H2; congruence|]. split; [by_run4 H3; congruence|].
    split.
    + intros q z Hq.
      pose proof (run_int (lops3 xr cr) xr cr (lops3_calls xr cr) own rootfs root more n b HB q z Hb Hq) as H.
      unfold bw_post in H. by_run4 H. congruence.
    + intros k v.
      pose proof (run_length (lops3 xr cr) xr cr (lops3_calls xr cr) own rootfs root more n b HB k v Hb) as H.
      by_run4 H.
Qed.

(* the clauses of CSS Backgrounds 3 / CSS 2.1 8.5.1 about the source: the computed width is 0 when the style is
   none or hidden; thin / medium / thick are 1 / 3 / 5 px, in this order; a length in an absolute unit is the fixed
   multiple of the pixel, never negative for a non-negative specified length *)
Lemma to_pixels_pos u f : to_pixels u = Some f -> 0 < f.
Proof. destruct u; simpl; intros H; inversion H; reflexivity. Qed.

Theorem gen_border_width_absolute xr cr own rootfs (root : bool) more n b v u f :
  style_of_border own rootfs root more n b -> no_border b = false -> to_pixels u = Some f ->
  exists q, q == v * f /\ (0 <= v -> 0 <= q) /\
    call_body (lops3 xr cr) border_width_fn
      [style_val own rootfs root more; VStr n; dim v (VStr (unit_str u))] = VNum q.
Proof.
  intros HB Hb Hu.
  pose proof (proj2 (proj2 (proj2 (proj2 (proj2 (gen_border_width xr cr own rootfs root more n b HB) Hb)))) KAuto (LDim v u)) as H.
  pose proof (absolute_units (env_of xr cr own rootfs root more) (String.eqb n "font_size") None v u f Hu) as P.
  pose proof (to_pixels_pos u f Hu) as Hf.
  cbn [lval_val] in H. destruct (length _ _ None (LDim v u)); [contradiction|]. destruct H as [q' [Hq ->]].
  simpl in P. exists q'. split; [rewrite Hq; exact P|split; [|reflexivity]].
  intros Hv. rewrite Hq, P. apply Qmult_le_0_compat; [exact Hv|apply Qlt_le_weak, Hf].
Qed.

Example gen_border_width_ex :
  let st b := style_val 10 16 false [("border_top_style", VStr b)] in
  call_body (lops3 (fun _ => 1 # 2) (fun _ => 1 # 2)) border_width_fn
    [st "solid"; VStr "border_top_width"; dim 2 (VStr "em")] = VNum (2 * 10) /\
  call_body (lops3 (fun _ => 1 # 2) (fun _ => 1 # 2)) border_width_fn
    [st "none"; VStr "border_top_width"; dim 2 (VStr "em")] = VNum 0 /\
  call_body (lops3 (fun _ => 1 # 2) (fun _ => 1 # 2)) border_width_fn
    [st "solid"; VStr "border_top_width"; VStr "thick"] = VNum 5 /\
  call_body (lops3 (fun _ => 1 # 2) (fun _ => 1 # 2)) border_width_fn
    [st "solid"; VStr "border_top_width"; VNum 3] = VNum 3.
Proof. vm_compute. repeat split. Qed.
