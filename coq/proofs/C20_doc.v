(* C20 - proofs about the resource state machine (model/C20Doc.v), part 1: the image cache is transparent -
   the machine that threads the cache of get_image_from_uri is the stateless semantics filtered by
   "first request of a URL"; consequences for the fetches. *)
From Coq Require Import List String Bool Arith ZArith Lia Permutation.
Require Import WV.model.C20Url WV.model.C20Doc.
Import ListNotations.
Open Scope string_scope.
Open Scope list_scope.

Lemma rkey_eqb_refl k : rkey_eqb k k = true.
Proof. destruct k; simpl; rewrite ?String.eqb_refl, ?Nat.eqb_refl; reflexivity. Qed.

Lemma rkey_eqb_eq a b : rkey_eqb a b = true -> a = b.
Proof.
  destruct a, b; simpl; try discriminate; intros H.
  - apply andb_true_iff in H as [H1 H2]. apply String.eqb_eq in H1. apply Nat.eqb_eq in H2. subst. reflexivity.
  - apply andb_true_iff in H as [H H3]. apply andb_true_iff in H as [H1 H2].
    apply String.eqb_eq in H1. apply Nat.eqb_eq in H2. apply String.eqb_eq in H3. subst. reflexivity.
Qed.

Lemma rkey_eqb_sym a b : rkey_eqb a b = rkey_eqb b a.
Proof.
  destruct a, b; simpl; try reflexivity;
    rewrite ?(String.eqb_sym u u0), ?(String.eqb_sym owner owner0), ?(Nat.eqb_sym o o0), ?(Nat.eqb_sym oo oo0);
    reflexivity.
Qed.

Section Cache.
  Variable W : world.
  Variable fails : fails_t.

  Definition keys (c : cache) : list rkey := map fst c.
  Definition cache_ok (c : cache) : Prop := forall k v, cfind c k = Some v -> v = key_ok W fails k.

  (* the URLs seen after filtering l *)
  Fixpoint cf_seen (seen : list rkey) (l : list ev) : list rkey :=
    match l with
    | [] => seen
    | Req u :: r => if existsb (rkey_eqb u) seen then cf_seen seen r else cf_seen (u :: seen) r
    | _ :: r => cf_seen seen r
    end.

  Notation cfilter := (cachefilter W fails).

  Lemma cachefilter_app l1 : forall seen l2,
    cfilter seen (l1 ++ l2) = cfilter seen l1 ++ cfilter (cf_seen seen l1) l2.
  Proof.
    induction l1 as [|e l1 IH]; intros seen l2; [reflexivity|].
    destruct e as [ch u|u|lv u|x]; simpl; try (rewrite IH; reflexivity).
    destruct (existsb (rkey_eqb u) seen); [apply IH|].
    rewrite IH. simpl. rewrite app_assoc. reflexivity.
  Qed.

  Lemma cf_seen_app l1 : forall seen l2, cf_seen seen (l1 ++ l2) = cf_seen (cf_seen seen l1) l2.
  Proof.
    induction l1 as [|e l1 IH]; intros seen l2; [reflexivity|].
    destruct e as [ch u|u|lv u|x]; simpl; try apply IH.
    destruct (existsb (rkey_eqb u) seen); apply IH.
  Qed.

  Lemma cf_seen_incl l : forall seen, incl seen (cf_seen seen l).
  Proof.
    induction l as [|e l IH]; intros seen; [apply incl_refl|].
    destruct e as [ch u|u|lv u|x]; simpl; try apply IH.
    destruct (existsb (rkey_eqb u) seen); [apply IH|].
    intros x Hx. apply IH. right. exact Hx.
  Qed.

  Lemma existsb_eqb_in u l : existsb (rkey_eqb u) l = true <-> In u l.
  Proof.
    rewrite existsb_exists. split.
    - intros [x [Hx E]]. apply rkey_eqb_eq in E. subst. exact Hx.
    - intros H. exists u. split; [exact H|apply rkey_eqb_refl].
  Qed.

  Lemma cf_seen_req l : forall seen u, In (Req u) l -> In u (cf_seen seen l).
  Proof.
    induction l as [|e l IH]; intros seen u H; [destruct H|].
    destruct H as [H|H].
    - subst e. simpl. destruct (existsb (rkey_eqb u) seen) eqn:E.
      + apply cf_seen_incl. apply existsb_eqb_in. exact E.
      + apply cf_seen_incl. left. reflexivity.
    - destruct e as [ch v|v|lv v|x]; simpl; try (apply IH; exact H).
      destruct (existsb (rkey_eqb v) seen); apply IH; exact H.
  Qed.

  Lemma cfind_none c u : cfind c u = None -> existsb (rkey_eqb u) (keys c) = false.
  Proof.
    induction c as [|[k v] c IH]; simpl; [reflexivity|].
    rewrite (rkey_eqb_sym u k). destruct (rkey_eqb k u); [discriminate|]. exact IH.
  Qed.

  Lemma cfind_some c u v : cfind c u = Some v -> existsb (rkey_eqb u) (keys c) = true.
  Proof.
    induction c as [|[k v'] c IH]; simpl; [discriminate|].
    rewrite (rkey_eqb_sym u k). destruct (rkey_eqb k u); [reflexivity|]. exact IH.
  Qed.

  Lemma in_keys_cfind c u : In u (keys c) -> exists v, cfind c u = Some v.
  Proof.
    induction c as [|[k v'] c IH]; simpl; [intros []|].
    intros [E|H].
    - subst k. rewrite rkey_eqb_refl. eauto.
    - destruct (rkey_eqb k u); [eauto|apply IH; exact H].
  Qed.

  (* the relation between a machine step from cache c and the stateless events l *)
  Definition R (c : cache) (res : cache * list ev) (l : list ev) : Prop :=
    snd res = cfilter (keys c) l /\ keys (fst res) = cf_seen (keys c) l /\ cache_ok (fst res).

  Lemma R_nil c : cache_ok c -> R c (c, []) [].
  Proof. intros H. repeat split; auto. Qed.

  Lemma R_app c c1 e1 l1 c2 e2 l2 :
    R c (c1, e1) l1 -> R c1 (c2, e2) l2 -> R c (c2, e1 ++ e2) (l1 ++ l2).
  Proof.
    intros [A1 [A2 A3]] [B1 [B2 B3]]. simpl in *. repeat split; simpl.
    - rewrite cachefilter_app, <- A2, <- B1, <- A1. reflexivity.
    - rewrite cf_seen_app, <- A2. exact B2.
    - exact B3.
  Qed.

  Lemma R_silent c e : cache_ok c -> (forall u, ~ In (Req u) e) -> R c (c, e) e.
  Proof.
    intros Hc Hn. repeat split; simpl; auto.
    - clear Hc. generalize (keys c) as seen. induction e as [|x e IH]; intros seen; [reflexivity|].
      destruct x as [ch u|u|lv u|y]; simpl;
        try (rewrite <- IH; [reflexivity|intros v Hv; apply (Hn v); right; exact Hv]).
      exfalso. apply (Hn u). left. reflexivity.
    - clear Hc. generalize (keys c) as seen. induction e as [|x e IH]; intros seen; [reflexivity|].
      destruct x as [ch u|u|lv u|y]; simpl;
        try (apply IH; intros v Hv; apply (Hn v); right; exact Hv).
      exfalso. apply (Hn u). left. reflexivity.
  Qed.

  Lemma m_get_spec c k : cache_ok c ->
    R c (fst (fst (m_get W fails c k)), snd (m_get W fails c k)) [Req k] /\
    snd (fst (m_get W fails c k)) = key_ok W fails k.
  Proof.
    intros Hc. unfold m_get. destruct (cfind c k) as [v|] eqn:E.
    - simpl. split; [|apply Hc; exact E].
      repeat split; simpl; try rewrite (cfind_some _ _ _ E); auto.
    - simpl. split; [|reflexivity].
      repeat split; simpl; try rewrite (cfind_none _ _ E); auto.
      + rewrite app_nil_r. reflexivity.
      + intros x v. simpl. destruct (rkey_eqb k x) eqn:Ex.
        * apply rkey_eqb_eq in Ex. subst x. intros H. inversion H. reflexivity.
        * apply Hc.
  Qed.

  Lemma m_req_spec c q : cache_ok c -> R c (m_req W fails c q) (sem_req W fails q).
  Proof.
    intros Hc. destruct q as [[[[k id] a] al] o]. destruct a as [a|]; simpl.
    - destruct (m_get_spec c (RkImg (fetched_string a) o) Hc) as [HR Hok].
      destruct (m_get W fails c (RkImg (fetched_string a) o)) as [[c1 ok] e] eqn:E. simpl in HR, Hok. subst ok.
      simpl key_ok.
      change [Req (RkImg (fetched_string a) o);
              Eff (EShown id (if img_ok W fails (fetched_string a) then ShImage else shown_absent k al))]
        with ([Req (RkImg (fetched_string a) o)] ++
              [Eff (EShown id (if img_ok W fails (fetched_string a) then ShImage else shown_absent k al))]).
      eapply R_app; [exact HR|]. apply R_silent; [apply HR|].
      intros v [H|[]]. discriminate.
    - apply R_silent; [exact Hc|]. intros v [H|[]]. discriminate.
  Qed.

  Lemma m_reqs_spec qs : forall c, cache_ok c ->
    R c (m_reqs W fails c qs) (flat_map (sem_req W fails) qs).
  Proof.
    induction qs as [|q qs IH]; intros c Hc; simpl; [apply R_nil; exact Hc|].
    pose proof (m_req_spec c q Hc) as H1.
    destruct (m_req W fails c q) as [c1 e1].
    assert (Hc1 : cache_ok c1) by apply H1.
    pose proof (IH c1 Hc1) as H2.
    destruct (m_reqs W fails c1 qs) as [c2 e2].
    eapply R_app; eassumption.
  Qed.

  Lemma m_kids_spec mrec srec owner oo b :
    (forall c u, cache_ok c -> R c (mrec c u) (srec u)) ->
    forall kids c, cache_ok c ->
      R c (m_kids W fails mrec owner oo b c kids) (sem_kids W fails srec owner oo b kids).
  Proof.
    intros Hrec. induction kids as [|v kids IH]; intros c Hc; simpl; [apply R_nil; exact Hc|].
    destruct v as [rf|rf]; destruct (url_join b rf true) as [a|]; try (apply IH; exact Hc).
    - destruct (m_get_spec c (RkImg (fetched_string a) 0) Hc) as [HR Hok].
      destruct (m_get W fails c (RkImg (fetched_string a) 0)) as [[c1 ok] e1] eqn:E. simpl in HR, Hok. subst ok.
      simpl key_ok.
      assert (Hc1 : cache_ok c1) by apply HR.
      assert (H2 : exists c2 e2,
                 (if img_ok W fails (fetched_string a) then mrec c1 (fetched_string a) else (c1, [])) = (c2, e2) /\
                 R c1 (c2, e2) (if img_ok W fails (fetched_string a) then srec (fetched_string a) else [])).
      { destruct (img_ok W fails (fetched_string a)).
        - pose proof (Hrec c1 (fetched_string a) Hc1) as H. destruct (mrec c1 (fetched_string a)) as [c2 e2].
          exists c2, e2. split; [reflexivity|exact H].
        - exists c1, []. split; [reflexivity|apply R_nil; exact Hc1]. }
      destruct H2 as [c2 [e2 [E2 HR2]]]. rewrite E2.
      assert (Hc2 : cache_ok c2) by apply HR2.
      pose proof (IH c2 Hc2) as H3.
      destruct (m_kids W fails mrec owner oo b c2 kids) as [c3 e3].
      change (Req (RkImg (fetched_string a) 0)
              :: (if img_ok W fails (fetched_string a) then srec (fetched_string a) else [])
                 ++ sem_kids W fails srec owner oo b kids)
        with ([Req (RkImg (fetched_string a) 0)]
              ++ (if img_ok W fails (fetched_string a) then srec (fetched_string a) else [])
                 ++ sem_kids W fails srec owner oo b kids).
      eapply R_app; [exact HR|]. eapply R_app; eassumption.
    - destruct (m_get_spec c (RkUse owner oo (fetched_string a)) Hc) as [HR _].
      destruct (m_get W fails c (RkUse owner oo (fetched_string a))) as [[c1 ok] e1] eqn:E. simpl in HR.
      assert (Hc1 : cache_ok c1) by apply HR.
      pose proof (IH c1 Hc1) as H. destruct (m_kids W fails mrec owner oo b c1 kids) as [c2 e2].
      change (Req (RkUse owner oo (fetched_string a)) :: sem_kids W fails srec owner oo b kids)
        with ([Req (RkUse owner oo (fetched_string a))] ++ sem_kids W fails srec owner oo b kids).
      eapply R_app; eassumption.
  Qed.

  Lemma m_draw_spec w : forall c u o, cache_ok c -> R c (m_draw W fails w c u o) (sem_draw W fails w u o).
  Proof.
    induction w as [|[k ct] w IH]; intros c u o Hc; simpl; [apply R_nil; exact Hc|].
    destruct (fetched_string k =? u); [|apply IH; exact Hc].
    destruct ct; try (apply R_nil; exact Hc).
    - apply R_silent; [exact Hc|]. intros v [Hv|[]]. discriminate.
    - apply (m_kids_spec (fun c' v => m_draw W fails w c' v 0) (fun v => sem_draw W fails w v 0));
        [intros c' v Hc'; apply IH; exact Hc'|exact Hc].
  Qed.

  Definition req_key (q : img_req) : option rkey :=
    let '(_, _, a, _, o) := q in option_map (fun a => RkImg (fetched_string a) o) a.

  Lemma m_draw_req_spec c q : cache_ok c ->
    (forall k, req_key q = Some k -> In k (keys c)) ->
    R c (m_draw_req W fails c q) (sem_draw_req W fails q).
  Proof.
    intros Hc Hin. destruct q as [[[[k id] a] al] o]. destruct a as [a|]; simpl; [|apply R_nil; exact Hc].
    destruct (in_keys_cfind c (RkImg (fetched_string a) o) (Hin _ eq_refl)) as [v Hv].
    rewrite Hv. pose proof (Hc _ _ Hv) as Hk. simpl in Hk. rewrite <- Hk.
    destruct v; [apply m_draw_spec; exact Hc|apply R_nil; exact Hc].
  Qed.

  Lemma m_draws_spec qs : forall c, cache_ok c ->
    (forall q k, In q qs -> req_key q = Some k -> In k (keys c)) ->
    R c (m_draws W fails c qs) (flat_map (sem_draw_req W fails) qs).
  Proof.
    induction qs as [|q qs IH]; intros c Hc Hin; simpl; [apply R_nil; exact Hc|].
    pose proof (m_draw_req_spec c q Hc (fun u => Hin q u (or_introl eq_refl))) as H1.
    destruct (m_draw_req W fails c q) as [c1 e1].
    assert (Hc1 : cache_ok c1) by apply H1.
    assert (Hin1 : forall q' u, In q' qs -> req_key q' = Some u -> In u (keys c1)).
    { intros q' u Hq Hu. destruct H1 as [_ [Hk _]]. simpl in Hk. rewrite Hk.
      apply cf_seen_incl. eapply Hin; [right; exact Hq|exact Hu]. }
    pose proof (IH c1 Hc1 Hin1) as H2.
    destruct (m_draws W fails c1 qs) as [c2 e2].
    eapply R_app; eassumption.
  Qed.

  Lemma sem_req_has_req q k : req_key q = Some k -> In (Req k) (sem_req W fails q).
  Proof.
    destruct q as [[[[ki id] a] al] o]. destruct a as [a|]; simpl; [|discriminate].
    intros H. inversion H. left. reflexivity.
  Qed.

End Cache.

(* ---- a generic invariant of the events: whatever holds of every primitive emission holds of the whole run.
   okref / okbase / okurl describe the references, the bases and the fetched strings. *)
Definition refs_sitem (s : sitem) : list ref :=
  match s with
  | SRule _ => []
  | SImport r _ => [r]
  | SFont _ srcs => srcs
  | SImage _ _ (Some r) => [r]
  | SImage _ _ None => []
  end.
Definition refs_vref (v : vref) : list ref := match v with VImage r | VUse r => [r] end.
Definition refs_content (c : content) : list ref :=
  match c with
  | CSheet items => flat_map refs_sitem items
  | CSvg kids => flat_map refs_vref kids
  | _ => []
  end.
Definition refs_item (i : item) : list ref :=
  match i with
  | ILink r => [r]
  | IStyle items => flat_map refs_sitem items
  | IImage _ _ (Some r) _ _ => [r]
  | IImage _ _ None _ _ => []
  | IAttach _ _ r => [r]
  | INoFetch _ => []
  end.

Section Generic.
  Variable W : world.
  Variable fails : fails_t.
  Variable P : ev -> Prop.
  Variable okurl : string -> Prop.
  Variable okjoin : option base -> ref -> Prop.
  Hypothesis HL : forall lv u, P (Log lv u).
  Hypothesis HE : forall x, P (Eff x).
  Hypothesis HF : forall ch u, ch <> ChImage -> ch <> ChUse -> okurl u -> P (Fetch ch u).
  Hypothesis Hjoin : forall b r allow a, okjoin b r -> url_join b r allow = Some a ->
                                         okurl (fetched_string a).

  Definition wf_world (w : world) : Prop :=
    Forall (fun kc => Forall (okjoin (base_of (fst kc))) (refs_content (snd kc))) w.
  Definition wf_doc (d : doc) : Prop :=
    Forall (okjoin (d_base d)) (flat_map refs_item (d_items d)).

  Lemma font_srcs_P b srcs : Forall (okjoin b) srcs -> Forall P (fst (font_srcs W fails b srcs)).
  Proof.
    induction srcs as [|rf r IH]; intros Hr; simpl; [constructor|].
    inversion Hr as [|x y Hx Hy]; subst.
    destruct (url_join b rf false) as [a|] eqn:E.
    - destruct (font_ok W fails (fetched_string a)).
      + simpl. constructor; [|constructor]. apply HF; [discriminate|discriminate|eapply Hjoin; eassumption].
      + specialize (IH Hy). destruct (font_srcs W fails b r) as [e ok]. simpl in *.
        constructor; [apply HF; [discriminate|discriminate|eapply Hjoin; eassumption]|].
        constructor; [apply HL|exact IH].
    - specialize (IH Hy). destruct (font_srcs W fails b r) as [e ok]. simpl in *.
      constructor; [apply HL|exact IH].
  Qed.

  Lemma font_face_P b id srcs : Forall (okjoin b) srcs -> Forall P (font_face W fails b id srcs).
  Proof.
    intros Hr. unfold font_face. pose proof (font_srcs_P b srcs Hr) as H.
    destruct (font_srcs W fails b srcs) as [e ok]. simpl in H.
    apply Forall_app. split; [exact H|]. apply Forall_app. split.
    - destruct ok; constructor; [apply HL|constructor].
    - constructor; [apply HE|constructor].
  Qed.

  Lemma run_items_P load b :
    (forall a, okurl (fetched_string a) -> Forall P (fst (load a))) ->
    forall items ign, Forall (okjoin b) (flat_map refs_sitem items) ->
                      Forall P (fst (run_items W fails load b ign items)).
  Proof.
    intros Hload. induction items as [|s r IH]; intros ign Hr; simpl; [constructor|].
    simpl in Hr. apply Forall_app in Hr as [Hs Hr].
    destruct s as [id|rf mo|id srcs|k id rf].
    - specialize (IH true Hr). destruct (run_items W fails load b true r) as [e i]. simpl in *.
      constructor; [apply HE|exact IH].
    - specialize (IH ign Hr). destruct (run_items W fails load b ign r) as [e2 i2]. simpl in IH.
      assert (H1 : Forall P (fst (if ign then ([Log LWarning "@import not at the beginning"], [])
                                  else match url_join b rf false with
                                       | None => ([Log LError (show_ref rf)], [])
                                       | Some a => if mo then load a else ([], [])
                                       end : list ev * list cssimg))).
      { destruct ign; simpl; [constructor; [apply HL|constructor]|].
        destruct (url_join b rf false) as [a|] eqn:E; [|simpl; constructor; [apply HL|constructor]].
        destruct mo; [|constructor]. apply Hload. eapply Hjoin; [|exact E].
        simpl in Hs. inversion Hs; assumption. }
      destruct (if ign then _ else _) as [e1 i1]. simpl in *. apply Forall_app. split; assumption.
    - specialize (IH true Hr). destruct (run_items W fails load b true r) as [e i]. simpl in *.
      apply Forall_app. split; [apply font_face_P; exact Hs|exact IH].
    - specialize (IH true Hr). destruct (run_items W fails load b true r) as [e i]. simpl in *.
      destruct rf as [rf|]; [|exact IH].
      destruct (url_join b rf false); simpl; [exact IH|]. constructor; [apply HL|exact IH].
  Qed.

  Lemma sheet_fail_log_P link m u : Forall P (sheet_fail_log link m u).
  Proof. destruct m; simpl; repeat constructor; apply HL. Qed.

  Lemma load_sheet_P w : wf_world w -> forall link a, okurl (fetched_string a) ->
    Forall P (fst (load_sheet W fails w link a)).
  Proof.
    induction w as [|[k c] w IH]; intros Hw link a Ha; simpl.
    - constructor; [apply HF; [discriminate|discriminate|exact Ha]|]. constructor; [apply HL|constructor].
    - inversion Hw as [|x y Hc Hw']; subst. simpl in Hc.
      destruct (fetched_string k =? fetched_string a); [|apply IH; assumption].
      destruct (fails (fetched_string a)) as [m|].
      + simpl. constructor; [apply HF; [discriminate|discriminate|exact Ha]|apply sheet_fail_log_P].
      + destruct c; try (simpl; constructor; [apply HF; [discriminate|discriminate|exact Ha]|constructor; [apply HL|constructor]]).
        pose proof (run_items_P (load_sheet W fails w false) (base_of k)
                      (fun a' Ha' => IH Hw' false a' Ha') items false Hc) as H.
        destruct (run_items W fails (load_sheet W fails w false) (base_of k) false items) as [e i].
        simpl in *. constructor; [apply HF; [discriminate|discriminate|exact Ha]|exact H].
  Qed.

  Lemma sheets_of_P b : wf_world W ->
    forall items, Forall (okjoin b) (flat_map refs_item items) -> Forall P (fst (sheets_of W fails b items)).
  Proof.
    intros Hw. induction items as [|it r IH]; intros Hr; simpl; [constructor|].
    simpl in Hr. apply Forall_app in Hr as [Hs Hr]. specialize (IH Hr).
    destruct it as [rf|its|k id rf al o|k id rf|rf]; try exact IH.
    - destruct (sheets_of W fails b r) as [e2 i2]. simpl in IH.
      assert (H1 : Forall P (fst (match url_join b rf false with
                                  | None => ([Log LError (show_ref rf)], [])
                                  | Some a => load_sheet W fails W true a
                                  end : list ev * list cssimg))).
      { destruct (url_join b rf false) as [a|] eqn:E; [|simpl; constructor; [apply HL|constructor]].
        apply load_sheet_P; [exact Hw|]. eapply Hjoin; [|exact E]. inversion Hs; assumption. }
      destruct (match url_join b rf false with None => _ | Some a => _ end) as [e1 i1].
      simpl in *. apply Forall_app. split; assumption.
    - destruct (sheets_of W fails b r) as [e2 i2]. simpl in IH.
      pose proof (run_items_P (load_sheet W fails W false) b
                    (fun a' Ha' => load_sheet_P W Hw false a' Ha') its false Hs) as H1.
      destruct (run_items W fails (load_sheet W fails W false) b false its) as [e1 i1].
      simpl in *. apply Forall_app. split; assumption.
  Qed.

  (* the CSS image declarations collected from the sheets carry resolved URLs *)
  Definition cssimg_ok (c : cssimg) : Prop :=
    match c with (_, _, Some a) => okurl (fetched_string a) | _ => True end.

  Lemma run_items_I load b :
    (forall a, okurl (fetched_string a) -> Forall cssimg_ok (snd (load a))) ->
    forall items ign, Forall (okjoin b) (flat_map refs_sitem items) ->
                      Forall cssimg_ok (snd (run_items W fails load b ign items)).
  Proof.
    intros Hload. induction items as [|s r IH]; intros ign Hr; simpl; [constructor|].
    simpl in Hr. apply Forall_app in Hr as [Hs Hr].
    destruct s as [id|rf mo|id srcs|k id rf].
    - specialize (IH true Hr). destruct (run_items W fails load b true r) as [e i]. exact IH.
    - specialize (IH ign Hr). destruct (run_items W fails load b ign r) as [e2 i2]. simpl in IH.
      assert (H1 : Forall cssimg_ok (snd (if ign then ([Log LWarning "@import not at the beginning"], [])
                                  else match url_join b rf false with
                                       | None => ([Log LError (show_ref rf)], [])
                                       | Some a => if mo then load a else ([], [])
                                       end : list ev * list cssimg))).
      { destruct ign; simpl; [constructor|].
        destruct (url_join b rf false) as [a|] eqn:E; [|simpl; constructor].
        destruct mo; [|constructor]. apply Hload. eapply Hjoin; [|exact E].
        simpl in Hs. inversion Hs; assumption. }
      destruct (if ign then _ else _) as [e1 i1]. simpl in *. apply Forall_app. split; assumption.
    - specialize (IH true Hr). destruct (run_items W fails load b true r) as [e i]. exact IH.
    - specialize (IH true Hr). destruct (run_items W fails load b true r) as [e i]. simpl in *.
      destruct rf as [rf|]; [|constructor; [exact I|exact IH]].
      destruct (url_join b rf false) as [a|] eqn:E; simpl; constructor; try exact IH; try exact I.
      simpl. eapply Hjoin; [|exact E]. inversion Hs; assumption.
  Qed.

  Lemma load_sheet_I w : wf_world w -> forall link a, Forall cssimg_ok (snd (load_sheet W fails w link a)).
  Proof.
    induction w as [|[k c] w IH]; intros Hw link a; simpl; [constructor|].
    inversion Hw as [|x y Hc Hw']; subst. simpl in Hc.
    destruct (fetched_string k =? fetched_string a); [|apply IH; assumption].
    destruct (fails (fetched_string a)) as [m|]; [constructor|].
    destruct c; try constructor.
    pose proof (run_items_I (load_sheet W fails w false) (base_of k)
                  (fun a' _ => IH Hw' false a') items false Hc) as H.
    destruct (run_items W fails (load_sheet W fails w false) (base_of k) false items) as [e i].
    exact H.
  Qed.

  Lemma sheets_of_I b : wf_world W ->
    forall items, Forall (okjoin b) (flat_map refs_item items) ->
                  Forall cssimg_ok (snd (sheets_of W fails b items)).
  Proof.
    intros Hw. induction items as [|it r IH]; intros Hr; simpl; [constructor|].
    simpl in Hr. apply Forall_app in Hr as [Hs Hr]. specialize (IH Hr).
    destruct it as [rf|its|k id rf al o|k id rf|rf]; try exact IH.
    - destruct (sheets_of W fails b r) as [e2 i2]. simpl in IH.
      assert (H1 : Forall cssimg_ok (snd (match url_join b rf false with
                                  | None => ([Log LError (show_ref rf)], [])
                                  | Some a => load_sheet W fails W true a
                                  end : list ev * list cssimg))).
      { destruct (url_join b rf false) as [a|]; [|simpl; constructor]. apply load_sheet_I. exact Hw. }
      destruct (match url_join b rf false with None => _ | Some a => _ end) as [e1 i1].
      simpl in *. apply Forall_app. split; assumption.
    - destruct (sheets_of W fails b r) as [e2 i2]. simpl in IH.
      pose proof (run_items_I (load_sheet W fails W false) b
                    (fun a' _ => load_sheet_I W Hw false a') its false Hs) as H1.
      destruct (run_items W fails (load_sheet W fails W false) b false its) as [e1 i1].
      simpl in *. apply Forall_app. split; assumption.
  Qed.

  Lemma attach_items_P b anchors :
    forall items seen, Forall (okjoin b) (flat_map refs_item items) ->
                       Forall P (attach_items W fails b anchors seen items).
  Proof.
    induction items as [|it r IH]; intros seen Hr; simpl; [constructor|].
    simpl in Hr. apply Forall_app in Hr as [Hs Hr].
    destruct it as [rf|its|k id rf al o|k id rf|rf]; try (apply IH; exact Hr).
    destruct (Bool.eqb match k with AAnchor => true | _ => false end anchors); [|apply IH; exact Hr].
    destruct (url_join b rf (if anchors then true else false)) as [a|] eqn:E.
    - destruct (anchors && existsb (String.eqb (fetched_string a)) seen); [apply IH; exact Hr|].
      unfold attach_one. simpl. constructor.
      + apply HF; [discriminate|discriminate|]. eapply Hjoin; [|exact E]. inversion Hs; assumption.
      + apply Forall_app. split; [|apply IH; exact Hr].
        destruct (att_ok W fails (fetched_string a)); constructor; try constructor; [apply HE|apply HL].
    - constructor; [apply HL|apply IH; exact Hr].
  Qed.

  (* the image part also emits requests *)
  Hypothesis HR : forall k, okurl (key_url k) -> P (Req k).

  Lemma image_items_ok b : forall items, Forall (okjoin b) (flat_map refs_item items) ->
    Forall (fun q => forall k, req_key q = Some k -> okurl (key_url k)) (image_items b items).
  Proof.
    induction items as [|it r IH]; intros Hr; simpl; [constructor|].
    simpl in Hr. apply Forall_app in Hr as [Hs Hr].
    destruct it as [rf|its|k id rf al o|k id rf|rf]; try (apply IH; exact Hr).
    constructor; [|apply IH; exact Hr].
    intros u. simpl. destruct rf as [rf|]; [|discriminate].
    destruct (url_join b rf false) as [a|] eqn:E; [|discriminate].
    simpl. intros H. inversion H; subst. simpl. eapply Hjoin; [|exact E]. inversion Hs; assumption.
  Qed.

  Lemma sem_req_P q : (forall k, req_key q = Some k -> okurl (key_url k)) -> Forall P (sem_req W fails q).
  Proof.
    destruct q as [[[[k id] a] al] o]. intros H. destruct a as [a|]; simpl.
    - constructor; [apply HR; apply (H _ eq_refl)|]. constructor; [apply HE|constructor].
    - constructor; [apply HE|constructor].
  Qed.

  Lemma sem_kids_P rec owner oo b : (forall u, Forall P (rec u)) ->
    forall kids, Forall (okjoin b) (flat_map refs_vref kids) -> Forall P (sem_kids W fails rec owner oo b kids).
  Proof.
    intros Hrec. induction kids as [|v r IH]; intros Hr; simpl; [constructor|].
    simpl in Hr. apply Forall_app in Hr as [Hs Hr]. specialize (IH Hr).
    destruct v as [rf|rf]; destruct (url_join b rf true) as [a|] eqn:E; try exact IH.
    - constructor; [apply HR; simpl; eapply Hjoin; [|exact E]; inversion Hs; assumption|].
      apply Forall_app. split; [|exact IH]. destruct (img_ok W fails (fetched_string a)); [apply Hrec|constructor].
    - constructor; [|exact IH]. apply HR. simpl.
      eapply Hjoin; [|exact E]. inversion Hs; assumption.
  Qed.

  Lemma sem_draw_P w : wf_world w -> forall u o, Forall P (sem_draw W fails w u o).
  Proof.
    induction w as [|[k c] w IH]; intros Hw u o; simpl; [constructor|].
    inversion Hw as [|x y Hc Hw']; subst. simpl in Hc.
    destruct (fetched_string k =? u); [|apply IH; exact Hw'].
    destruct c; try constructor; try apply HE; try constructor.
    apply sem_kids_P; [intros v; apply IH; exact Hw'|exact Hc].
  Qed.

  Lemma sem_draw_req_P q : wf_world W -> Forall P (sem_draw_req W fails q).
  Proof.
    intros Hw. destruct q as [[[[k id] a] al] o]. destruct a as [a|]; simpl; [|constructor].
    destruct (img_ok W fails (fetched_string a)); [apply sem_draw_P; exact Hw|constructor].
  Qed.
End Generic.

(* ---- instances of the generic invariant, and the theorems about fetches *)
Definition not_req (e : ev) : Prop := match e with Req _ => False | _ => True end.
Definition not_imgfetch (e : ev) : Prop :=
  match e with Fetch ChImage _ | Fetch ChUse _ => False | _ => True end.
(* the fetches that go through a cache (images, external <use>), with their channel *)
Definition keyed_fetches (l : list ev) : list (channel * string) :=
  flat_map (fun e => match e with
                     | Fetch ChImage u => [(ChImage, u)]
                     | Fetch ChUse u => [(ChUse, u)]
                     | _ => [] end) l.
Definition key_fetch (k : rkey) : channel * string := (key_ch k, key_url k).
Definition any_string (_ : string) : Prop := True.
Definition any_join (_ : option base) (_ : ref) : Prop := True.

Lemma Forall_any {A} (l : list A) (Q : A -> Prop) : (forall x, Q x) -> Forall Q l.
Proof. intros H. apply Forall_forall. intros x _. apply H. Qed.

Lemma wf_world_any w : wf_world any_join w.
Proof.
  apply Forall_any. intros [k c]. apply Forall_any. intros; exact I.
Qed.

Lemma dedup_spec l : forall seen,
  NoDup (dedup seen l) /\
  (forall x, In x (dedup seen l) -> ~ In x seen /\ In x l) /\
  (forall x, In x l -> In x seen \/ In x (dedup seen l)).
Proof.
  induction l as [|u r IH]; intros seen; simpl.
  - split; [constructor|split; [intros x []|intros x []]].
  - destruct (existsb (rkey_eqb u) seen) eqn:E.
    + destruct (IH seen) as [H1 [H2 H3]]. repeat split; auto.
      * apply H2; assumption.
      * right. apply (H2 x); assumption.
      * intros x [Hx|Hx]; [subst; left; apply existsb_eqb_in; exact E|apply H3; exact Hx].
    + destruct (IH (u :: seen)) as [H1 [H2 H3]]. repeat split.
      * constructor; [|exact H1]. intros Hin. destruct (H2 _ Hin) as [Hn _]. apply Hn. left. reflexivity.
      * destruct H as [H|H].
        -- subst x. intros Hin. apply existsb_eqb_in in Hin. congruence.
        -- destruct (H2 _ H) as [Hn _]. intros Hin. apply Hn. right. exact Hin.
      * destruct H as [H|H]; [left; exact H|right; apply (H2 x); exact H].
      * intros x [Hx|Hx]; [right; left; exact Hx|].
        destruct (H3 x Hx) as [[Hs|Hs]|Hs]; [right; left; exact Hs|left; exact Hs|right; right; exact Hs].
Qed.

Section Results.
  Variable W : world.
  Variable fails : fails_t.
  Notation cfilter := (cachefilter W fails).

  Lemma not_req_silent e : Forall not_req e -> forall u, ~ In (Req u) e.
  Proof. intros H u Hin. rewrite Forall_forall in H. exact (H _ Hin). Qed.

  Lemma sheets_not_req b items : Forall not_req (fst (sheets_of W fails b items)).
  Proof.
    apply (sheets_of_P W fails not_req any_string any_join); try (intros; exact I).
    - apply wf_world_any.
    - apply Forall_any. intros; exact I.
  Qed.

  Lemma attach_not_req b anchors seen items : Forall not_req (attach_items W fails b anchors seen items).
  Proof.
    apply (attach_items_P W fails not_req any_string any_join); try (intros; exact I).
    apply Forall_any. intros; exact I.
  Qed.

  (* ---- the machine is the filtered stateless semantics *)
  Theorem machine_is_filtered_semantics c0 d : cache_ok W fails c0 ->
    snd (m_doc W fails c0 d) = cfilter (keys c0) (sem_doc W fails d) /\
    cache_ok W fails (fst (m_doc W fails c0 d)).
  Proof.
    intros Hc. unfold m_doc, sem_doc.
    pose proof (sheets_not_req (d_base d) (d_items d)) as Hes.
    destruct (sheets_of W fails (d_base d) (d_items d)) as [es ci]. simpl in Hes.
    set (qs := image_items (d_base d) (d_items d) ++ css_reqs ci).
    set (att := attach_items W fails (d_base d) true [] (d_items d)
                ++ attach_items W fails (d_base d) false [] (d_items d)).
    assert (Hatt : Forall not_req att).
    { apply Forall_app. split; apply attach_not_req. }
    pose proof (R_silent W fails c0 es Hc (not_req_silent es Hes)) as H0.
    pose proof (m_reqs_spec W fails qs c0 Hc) as H1.
    destruct (m_reqs W fails c0 qs) as [c1 e1].
    assert (Hc1 : cache_ok W fails c1) by apply H1.
    assert (Hin : forall q u, In q qs -> req_key q = Some u -> In u (keys c1)).
    { intros q u Hq Hu. destruct H1 as [_ [Hk _]]. simpl in Hk. rewrite Hk.
      apply cf_seen_req. apply in_flat_map. exists q. split; [exact Hq|apply sem_req_has_req; exact Hu]. }
    pose proof (m_draws_spec W fails qs c1 Hc1 Hin) as H2.
    destruct (m_draws W fails c1 qs) as [c2 e2].
    assert (Hc2 : cache_ok W fails c2) by apply H2.
    pose proof (R_silent W fails c2 att Hc2 (not_req_silent att Hatt)) as H3.
    pose proof (R_app W fails _ _ _ _ _ _ _ H2 H3) as H23.
    pose proof (R_app W fails _ _ _ _ _ _ _ H1 H23) as H123.
    pose proof (R_app W fails _ _ _ _ _ _ _ H0 H123) as H.
    simpl. split; [apply H|exact Hc2].
  Qed.

  Lemma fetches_app l1 l2 : fetches (l1 ++ l2) = fetches l1 ++ fetches l2.
  Proof. unfold fetches. apply flat_map_app. Qed.

  Lemma cfilter_effects l : forall seen, effects (cfilter seen l) = effects l.
  Proof.
    induction l as [|e l IH]; intros seen; [reflexivity|].
    destruct e as [ch u|u|lv u|x]; simpl; try apply IH; try (rewrite IH; reflexivity).
    destruct (existsb (rkey_eqb u) seen); [apply IH|].
    unfold effects in *. simpl. rewrite flat_map_app.
    replace (flat_map (fun e : ev => match e with Eff x => [x] | _ => [] end)
               (if key_ok W fails u then [] else [Log LError (key_url u)])) with (@nil effect)
      by (destruct (key_ok W fails u); reflexivity).
    apply IH.
  Qed.

  Lemma cfilter_fetches l : forall seen,
    Permutation (fetches (cfilter seen l)) (fetches l ++ map key_url (dedup seen (requests l))).
  Proof.
    induction l as [|e l IH]; intros seen; [constructor|].
    destruct e as [ch u|u|lv u|x]; simpl; try apply IH.
    - constructor. apply IH.
    - destruct (existsb (rkey_eqb u) seen); [apply IH|].
      unfold fetches at 1. simpl. rewrite flat_map_app.
      replace (flat_map (fun e : ev => match e with Fetch _ u0 => [u0] | _ => [] end)
                 (if key_ok W fails u then [] else [Log LError (key_url u)])) with (@nil string)
        by (destruct (key_ok W fails u); reflexivity).
      simpl. apply Permutation_cons_app. apply IH.
  Qed.

  Lemma cfilter_keyed_fetches l : Forall not_imgfetch l ->
    forall seen, keyed_fetches (cfilter seen l) = map key_fetch (dedup seen (requests l)).
  Proof.
    induction l as [|e l IH]; intros Hl seen; [reflexivity|].
    inversion Hl as [|x y Hx Hy]; subst.
    destruct e as [ch u|u|lv u|x]; simpl; try (apply IH; exact Hy).
    - destruct ch; simpl in Hx; try contradiction; apply IH; exact Hy.
    - destruct (existsb (rkey_eqb u) seen); [apply IH; exact Hy|].
      unfold keyed_fetches at 1. simpl. rewrite flat_map_app.
      replace (flat_map _ (if key_ok W fails u then [] else [Log LError (key_url u)])) with (@nil (channel * string))
        by (destruct (key_ok W fails u); reflexivity).
      fold (keyed_fetches (cfilter (u :: seen) l)). rewrite (IH Hy).
      destruct u; reflexivity.
  Qed.

  Lemma sem_doc_not_imgfetch d : Forall not_imgfetch (sem_doc W fails d).
  Proof.
    unfold sem_doc.
    pose proof (sheets_of_P W fails not_imgfetch any_string any_join) as Hs.
    assert (HF : forall ch u, ch <> ChImage -> ch <> ChUse -> any_string u -> not_imgfetch (Fetch ch u)).
    { intros ch u Hch Hch' _. destruct ch; simpl; auto. }
    specialize (Hs (fun _ _ => I) (fun _ => I) HF (fun _ _ _ _ _ _ => I)
                   (d_base d) (wf_world_any W) (d_items d) (Forall_any _ _ (fun _ => I))).
    destruct (sheets_of W fails (d_base d) (d_items d)) as [es ci]. simpl in Hs.
    apply Forall_app. split; [exact Hs|].
    apply Forall_app. split.
    { apply Forall_forall. intros e He. apply in_flat_map in He as [q [_ He]].
      pose proof (sem_req_P W fails not_imgfetch any_string (fun _ => I)
                    (fun _ _ => I) q (fun _ _ => I)) as Hq.
      rewrite Forall_forall in Hq. exact (Hq _ He). }
    apply Forall_app. split.
    { apply Forall_forall. intros e He. apply in_flat_map in He as [q [_ He]].
      pose proof (sem_draw_req_P W fails not_imgfetch any_string any_join
                    (fun _ => I) (fun _ _ _ _ _ _ => I) (fun _ _ => I)
                    q (wf_world_any W)) as Hq.
      rewrite Forall_forall in Hq. exact (Hq _ He). }
    apply Forall_app. split;
      apply (attach_items_P W fails not_imgfetch any_string any_join); auto;
      try (intros; exact I); apply Forall_any; intros; exact I.
  Qed.

  (* each cached request - an image URL with its orientation, an external <use> of a loaded SVG image - is
     fetched at most once per render, never when the cache already holds it, and every such request of the
     document is either cached or fetched: the cached fetches are exactly the first occurrences *)
  Theorem image_fetched_once c0 d : cache_ok W fails c0 ->
    let ks := dedup (keys c0) (requests (sem_doc W fails d)) in
    keyed_fetches (snd (m_doc W fails c0 d)) = map key_fetch ks /\
    NoDup ks /\
    (forall k, In k ks -> ~ In k (keys c0) /\ In k (requests (sem_doc W fails d))) /\
    (forall k, In k (requests (sem_doc W fails d)) -> In k (keys c0) \/ In k ks).
  Proof.
    intros Hc ks. unfold ks.
    destruct (machine_is_filtered_semantics c0 d Hc) as [E _]. rewrite E.
    split; [apply (cfilter_keyed_fetches _ (sem_doc_not_imgfetch d))|apply dedup_spec].
  Qed.

  (* the multiset of fetches of a render: the non-image fetches of the stateless semantics plus the first
     occurrence of each requested image URL *)
  Theorem expected_fetches d :
    Permutation (fetches (snd (m_doc W fails [] d)))
                (fetches (sem_doc W fails d) ++ map key_url (dedup [] (requests (sem_doc W fails d)))).
  Proof.
    assert (Hc : cache_ok W fails []) by (intros u v H; discriminate).
    destruct (machine_is_filtered_semantics [] d Hc) as [E _]. rewrite E. apply cfilter_fetches.
  Qed.

  Theorem machine_effects c0 d : cache_ok W fails c0 ->
    effects (snd (m_doc W fails c0 d)) = effects (sem_doc W fails d).
  Proof.
    intros Hc. destruct (machine_is_filtered_semantics c0 d Hc) as [E _]. rewrite E. apply cfilter_effects.
  Qed.
End Results.
