(* C15 - the branch `elif system == 'symbolic':` of CounterStyle.render_value (weasyprint/css/counters.py) as
   REGENERATED from the source on every run (gen/GenCounters.v: rv_symbolic_body): for every tuple of symbols and
   every integer counter value it does what [represent c "symbolic"] of the hand model model/C15Style.v says -
   `initial` is bound to the chosen symbol repeated (v - 1) // len + 1 times (no copy when that number is not
   positive), or the decimal style is called with the value, or the same error is raised.
   `str * int` is the primitive PSeqMul of base/Py.v, `+` PSeqAdd, len PSeqLen (target option 'seq_ops');
   `symbol(..)` is answered by [ocall] (hypothesis HS, discharged by the regenerated body of `symbol` in
   proofs/C15_gen_rest.v), self.render_value(..) stays an oracle. *)
From Coq Require Import ZArith QArith List String Bool Lia.
Require Import WV.model.C15Style WV.model.C15Builtins WV.proofs.C15_gen_base WV.proofs.C15_gen_numeric.
Require Import WV.base.Py WV.gen.GenCounters.
Import ListNotations.
Open Scope string_scope.
Open Scope list_scope.

(* strings against code points: repetition and length *)
Lemma enc_rep_text k t : enc (rep_text k t) = str_repeat k (enc t).
Proof. induction k as [|k IH]; [reflexivity|]. cbn [rep_text str_repeat]. now rewrite enc_app, IH. Qed.
Lemma length_string_of_list_ascii a : String.length (string_of_list_ascii a) = List.length a.
Proof. induction a as [|x a IH]; simpl; [reflexivity|]. now rewrite IH. Qed.
Lemma length_enc t : String.length (enc t) = List.length t.
Proof. unfold enc. now rewrite length_string_of_list_ascii, map_length. Qed.
Lemma inject_Z_succ z : (inject_Z z + (1 # 1) == inject_Z (z + 1))%Q.
Proof. change (1 # 1) with (inject_Z 1). now rewrite inject_Z_plus. Qed.

Lemma prim_seqlen_list l : prim_apply PSeqLen [VList l] = vint (Z.of_nat (List.length l)).
Proof. reflexivity. Qed.
Lemma prim_seqlen_str s : prim_apply PSeqLen [VStr s] = vint (Z.of_nat (String.length s)).
Proof. reflexivity. Qed.
Lemma prim_seqmul_str s q z : (q == inject_Z z)%Q ->
  prim_apply PSeqMul [VStr s; VNum q] = VStr (str_repeat (Z.to_nat z) s).
Proof. intros E. unfold prim_apply. now rewrite (as_int_eq q z E). Qed.
Lemma prim_seqmul_num_str s q z : (q == inject_Z z)%Q ->
  prim_apply PSeqMul [VNum q; VStr s] = VStr (str_repeat (Z.to_nat z) s).
Proof. intros E. unfold prim_apply. now rewrite (as_int_eq q z E). Qed.

Section Symbolic.
Variable O : qops.
Hypothesis HO : ops_ok O.
Hypothesis HS : forall p, ocall O "symbol" [vsym p] = VStr (psym_str p).

Variables (sf : list (string * val)) (fb : option string) (rest : list (string * val)).
Notation self := (VObj sf).

Ltac ev := lazy -[qadd qsub qmul qdiv qmax qmin qleb qeqb ocall wfuel prim_apply inject_Z Z.abs Z.div Z.modulo
                  Z.of_nat Z.eqb Z.leb Z.ltb negb Qminus Qplus Z.sub Z.add Z.opp andb str_repeat Z.to_nat List.length List.map].
Ltac ev_all := lazy -[qadd qsub qmul qdiv qmax qmin qleb qeqb ocall wfuel inject_Z].
Ltac unseal :=
  rewrite ?(qadd_eq _ HO), ?(qsub_eq _ HO), ?(qmul_eq _ HO), ?(qdiv_eq _ HO), ?(qmax_eq _ HO), ?(qmin_eq _ HO),
          ?(qleb_eq _ HO), ?(qeqb_eq _ HO) in *.

Lemma eval_prim2 A kerr rho p a b (k : val -> A) :
  eval O A kerr rho (EPrim p [a; b]) k =
  eval O A kerr rho a (fun va => match va with VErr m => kerr m | _ =>
    eval O A kerr rho b (fun vb => match vb with VErr m => kerr m | _ =>
      match prim_apply p [va; vb] with VErr m => kerr m | v => k v end end) end).
Proof. reflexivity. Qed.
Lemma eval_var A kerr rho x (k : val -> A) : eval O A kerr rho (EVar x) k = k (Py.lookup x rho).
Proof. reflexivity. Qed.
Lemma exec_assign1 A kret kerr x e rho (k : env -> A) :
  exec O A kret kerr (SAssign [TVar x] e) rho k = eval O A kerr rho e (fun v => k (update x v rho)).
Proof. reflexivity. Qed.

Section Syms.
Variables (l : list psym) (L : list val) (n : Z).
Hypothesis HL : L = map vsym l.
Hypothesis Hn : n = Z.of_nat (List.length l).
Definition ycounter : val := VObj (("symbols", VList L) :: ("fallback", vfallback fb) :: rest).
Lemma ylength : Z.of_nat (List.length L) = n.
Proof. subst L n. now rewrite map_length. Qed.

(* symbol(counter['symbols'][index]) for an index that is the integer i up to ==, 0 <= i < n *)
Lemma eval_index_symbol A kerr (q : Q) (i : Z) (rho : env) (k : val -> A) :
  (q == inject_Z i)%Q -> (0 <= i < n)%Z ->
  Py.lookup "counter" rho = ycounter -> Py.lookup "index" rho = VNum q ->
  eval O A kerr rho (ECall "symbol" [EPrim PIndex [ESubscr (EVar "counter") "symbols"; EVar "index"]]) k =
  k (VStr (digit_str l i)).
Proof.
  intros Hq Hi Hc Hx.
  assert (Hb : (0 <= i < Z.of_nat (List.length L))%Z) by (rewrite ylength; exact Hi).
  cbn [eval]. rewrite Hc, Hx. cbn [ycounter Py.lookup String.eqb Ascii.eqb Bool.eqb rev app].
  rewrite (prim_index_nth L q i Hq Hb). rewrite HL at 1.
  rewrite nth_vsym by (rewrite HL, map_length in Hb; lia).
  unfold digit_str. set (p := nth (Z.to_nat i) l (PUrl "")).
  pose proof (HS p) as Hp. destruct p; cbn [vsym psym_str] in *; rewrite Hp; reflexivity.
Qed.

Definition yenv0 (z : Z) : env := [("self", self); ("counter", ycounter); ("counter_value", vint z)].
Definition yenv1 (z : Z) : env := yenv0 z ++ [("length", vint n)].
Definition yenv2 (z : Z) (q : Q) : env := yenv1 z ++ [("index", VNum q)].
Definition yenv3 (z : Z) (q : Q) : env :=
  yenv2 z q ++ [("repeat", VNum (inject_Z ((z - 1) / n) + (1 # 1))%Q)].
Definition ytext (z : Z) : string := str_repeat (Z.to_nat ((z - 1) / n + 1)) (digit_str l ((z - 1) mod n)).

Section YStmts.
Variables (A : Type) (kret : env -> val -> A) (kerr : string -> A).
Lemma y0_step z k : exec O A kret kerr (nth 0 rv_symbolic_body SPass) (yenv0 z) k = k (yenv1 z).
Proof. ev. rewrite prim_seqlen_list, ylength. reflexivity. Qed.
Lemma y1_step z k :
  exec O A kret kerr (nth 1 rv_symbolic_body SPass) (yenv1 z) k =
  if (1 <=? n)%Z then k (yenv1 z)
  else match ocall O ".render_value" (rv_args self z "decimal" VNone) with
       | VErr m => kerr m
       | x => kret (yenv1 z) x
       end.
Proof.
  ev. unseal. change (1 # 1) with (inject_Z 1). rewrite Qle_bool_vint. destruct (1 <=? n)%Z; reflexivity.
Qed.
Lemma y2_step z k : (0 < n)%Z ->
  exists q, (q == inject_Z ((z - 1) mod n))%Q /\
  exec O A kret kerr (nth 2 rv_symbolic_body SPass) (yenv1 z) k = k (yenv2 z q).
Proof.
  intros Hpos.
  destruct (prim_mod_eq (inject_Z z - (1 # 1)) (z - 1) n ltac:(lia) (inject_Z_pred z)) as (q & Eq & Hq).
  exists q. split; [exact Hq|].
  ev. unseal. rewrite Eq. reflexivity.
Qed.
Lemma y3_step z q k : (0 < n)%Z ->
  exec O A kret kerr (nth 3 rv_symbolic_body SPass) (yenv2 z q) k = k (yenv3 z q).
Proof.
  intros Hpos. ev. unseal.
  rewrite (prim_floordiv_eq (inject_Z z - (1 # 1)) (z - 1) n ltac:(lia) (inject_Z_pred z)).
  reflexivity.
Qed.
Lemma y4_step z q k : (0 < n)%Z -> (q == inject_Z ((z - 1) mod n))%Q ->
  exec O A kret kerr (nth 4 rv_symbolic_body SPass) (yenv3 z q) k =
  k (yenv3 z q ++ [("initial", VStr (ytext z))]).
Proof.
  intros Hpos Hq.
  change (nth 4 rv_symbolic_body SPass) with
    (SAssign [TVar "initial"]
       (EPrim PSeqMul [ECall "symbol" [EPrim PIndex [ESubscr (EVar "counter") "symbols"; EVar "index"]];
                       EVar "repeat"])).
  rewrite exec_assign1, eval_prim2.
  rewrite (eval_index_symbol A kerr q ((z - 1) mod n) (yenv3 z q) _ Hq (Z.mod_pos_bound (z - 1) n Hpos)
             eq_refl eq_refl).
  rewrite eval_var. change (Py.lookup "repeat" (yenv3 z q)) with (VNum (inject_Z ((z - 1) / n) + (1 # 1))%Q).
  rewrite (prim_seqmul_str _ _ _ (inject_Z_succ ((z - 1) / n))). reflexivity.
Qed.
End YStmts.

Lemma symbolic_spec A kret kerr (k : env -> A) v :
  exists rho,
  (exec_block O A kret kerr rv_symbolic_body (yenv0 v) k =
   if (1 <=? n)%Z then k rho
   else match ocall O ".render_value" (rv_args self v "decimal" VNone) with
        | VErr m => kerr m
        | x => kret (yenv1 v) x
        end) /\
  ((1 <= n)%Z -> Py.lookup "initial" rho = VStr (ytext v) /\ flowing rho = false).
Proof.
  change rv_symbolic_body with
    [nth 0 rv_symbolic_body SPass; nth 1 rv_symbolic_body SPass; nth 2 rv_symbolic_body SPass;
     nth 3 rv_symbolic_body SPass; nth 4 rv_symbolic_body SPass].
  destruct (Z.leb_spec 1 n) as [Hge|Hlt].
  - assert (Hpos : (0 < n)%Z) by lia.
    destruct (y2_step A kret kerr v
               (fun rho' => if flowing rho' then k rho'
                            else exec_block O A kret kerr
                                   [nth 3 rv_symbolic_body SPass; nth 4 rv_symbolic_body SPass] rho' k) Hpos)
      as (q & Hq & E2).
    exists (yenv3 v q ++ [("initial", VStr (ytext v))]).
    split; [|intros _; split; reflexivity].
    rewrite exec_block_cons, y0_step. change (flowing (yenv1 v)) with false. cbv iota.
    rewrite exec_block_cons, y1_step. replace (1 <=? n)%Z with true by (symmetry; apply Z.leb_le; lia).
    change (flowing (yenv1 v)) with false. cbv iota.
    rewrite exec_block_cons, E2. change (flowing (yenv2 v q)) with false. cbv iota.
    rewrite exec_block_cons, y3_step by exact Hpos. change (flowing (yenv3 v q)) with false. cbv iota.
    rewrite exec_block_cons, y4_step by assumption. reflexivity.
  - exists []. split; [|intros; lia].
    rewrite exec_block_cons, y0_step. change (flowing (yenv1 v)) with false. cbv iota.
    rewrite exec_block_cons, y1_step. replace (1 <=? n)%Z with false by (symmetry; apply Z.leb_gt; lia).
    reflexivity.
Qed.
End Syms.

Theorem gen_symbolic (osyms : option (list psym)) (c : cstyle) (fx : option Z) (v : Z) :
  c_symbols c = msyms osyms ->
  run O rv_symbolic_body
    [("self", self); ("counter", vcounter osyms fb rest); ("counter_value", vint v)]
    (agrees O (rv_args self v "decimal" VNone) [] (represent c "symbolic" fx v))
    (raises O (rv_args self v "decimal" VNone) [] (represent c "symbolic" fx v)).
Proof.
  intros Hc.
  assert (Hrep : represent c "symbolic" fx v =
    match c_symbols c with
    | None => RpExc
    | Some l0 =>
      if (zlen l0 <? 1)%Z then RpDecimal else
      RpInitial (rep_text (Z.to_nat ((v - 1) / zlen l0 + 1)) (nth_sym l0 ((v - 1) mod zlen l0)))
    end) by reflexivity.
  rewrite Hrep, Hc. clear Hrep. unfold run.
  destruct osyms as [l|]; cbn [msyms].
  - set (n := Z.of_nat (List.length l)). rewrite zlen_msym. fold n.
    change (exec_block O Prop ?kr ?ke rv_symbolic_body
              [("self", self); ("counter", vcounter (Some l) fb rest); ("counter_value", vint v)] ?k)
      with (exec_block O Prop kr ke rv_symbolic_body (yenv0 (map vsym l) v) k).
    match goal with |- exec_block O Prop ?kr ?ke _ _ ?k =>
      destruct (symbolic_spec l (map vsym l) n eq_refl eq_refl Prop kr ke k v) as (rho & E & Hrho) end.
    rewrite E. clear E.
    destruct (Z.ltb_spec n 1) as [Hlt|Hge].
    + replace (1 <=? n)%Z with false by (symmetry; apply Z.leb_gt; exact Hlt).
      cbn [agrees raises]. destruct (ocall O ".render_value" _) eqn:E; try reflexivity.
    + replace (1 <=? n)%Z with true by (symmetry; apply Z.leb_le; exact Hge).
      destruct (Hrho Hge) as [Hi Hf]. cbn [agrees]. split; [reflexivity|].
      rewrite Hi, enc_rep_text, nth_sym_msym. reflexivity.
  - ev_all. left. reflexivity.
Qed.
End Symbolic.
Print Assumptions gen_symbolic.
