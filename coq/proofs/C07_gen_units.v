(* C07 - the unit table LENGTHS_TO_PIXELS as REGENERATED from weasyprint/css/utils.py on every run
   (gen/GenCssUtils.v, exact rationals of the decimal literals): it is the CSS Values 3 (5.2) table, and
   length() over it makes equal physical lengths interchangeable.  If the source table changes these proofs
   break (or, for a change of order only, still hold). *)
From Coq Require Import ZArith QArith List Bool String Lqa.
Require Import WV.gen.GenCssUtils WV.model.C07Units.
Import ListNotations.
Open Scope string_scope.

Definition gen_factor := factor_in lengths_to_pixels.

(* computed_values.length(...) for an absolute unit, over the regenerated table *)
Definition gen_length_px (value : Q) (unit : string) : option Q :=
  if Qeq_bool value 0 then Some 0%Q
  else if String.eqb unit "px" then Some value
  else match gen_factor unit with
       | Some f => Some (value * f)%Q
       | None => None
       end.

(* the regenerated table has exactly the absolute units of CSS, each with 96 / (units per inch) pixels *)
Theorem gen_table_is_css u :
  match gen_factor u, per_inch u with
  | Some f, Some p => (f * p == 96)%Q
  | None, None => True
  | _, _ => False
  end.
Proof.
  unfold gen_factor, per_inch, lengths_to_pixels. cbn [factor_in].
  repeat match goal with
  | |- context [String.eqb u ?k] =>
      let E := fresh "E" in destruct (String.eqb u k) eqn:E;
      [apply String.eqb_eq in E; subst u; vm_compute; first [reflexivity | exact I | discriminate] |]
  end.
  exact I.
Qed.

(* same entries, same values as the hand table of model/C07Units.v (which the other C07 theorems use) *)
Theorem gen_table_is_model u :
  match gen_factor u, factor u with
  | Some f, Some g => (f == g)%Q
  | None, None => True
  | _, _ => False
  end.
Proof.
  pose proof (gen_table_is_css u) as G.
  assert (M : match factor u, per_inch u with
              | Some f, Some p => (f * p == 96)%Q | None, None => True | _, _ => False end).
  { unfold factor, per_inch, LENGTHS_TO_PIXELS. cbn [factor_in].
    repeat match goal with
    | |- context [String.eqb u ?k] =>
        let E := fresh "E" in destruct (String.eqb u k) eqn:E;
        [apply String.eqb_eq in E; subst u; vm_compute; first [reflexivity | exact I | discriminate] |]
    end. exact I. }
  assert (P : forall p, per_inch u = Some p -> (0 < p)%Q).
  { intros p. unfold per_inch.
    repeat match goal with |- (if ?c then _ else _) = _ -> _ => destruct c end;
      intro H; inversion H; reflexivity. }
  destruct (gen_factor u) as [f|], (factor u) as [g|], (per_inch u) as [p|]; try contradiction; try exact I.
  specialize (P p eq_refl).
  assert (f * p == g * p)%Q as E by (rewrite G, M; reflexivity).
  apply Qmult_inj_r in E; [exact E|]. intro Z. rewrite Z in P. inversion P.
Qed.

Theorem gen_length_px_is_css v u p :
  per_inch u = Some p -> exists x, gen_length_px v u = Some x /\ (x == v * 96 / p)%Q.
Proof.
  intro H.
  assert (Hp : (0 < p)%Q).
  { revert H. unfold per_inch.
    repeat match goal with |- (if ?c then _ else _) = _ -> _ => destruct c end;
      intro H; inversion H; reflexivity. }
  pose proof (gen_table_is_css u) as T. rewrite H in T.
  unfold gen_length_px. destruct (Qeq_bool v 0) eqn:Ez.
  - apply Qeq_bool_eq in Ez. exists 0%Q. split; auto. rewrite Ez. field. lra.
  - destruct (String.eqb u "px") eqn:Epx.
    + apply String.eqb_eq in Epx. subst. exists v. split; auto.
      vm_compute in H. inversion H. subst p. field.
    + destruct (gen_factor u) as [f|]; [|contradiction].
      exists (v * f)%Q. split; auto.
      assert (f == 96 / p)%Q as E by (field_simplify_eq; [lra|lra]).
      rewrite E. field. lra.
Qed.

(* lengths that are the same number of inches compute to the same number of pixels, whatever the units *)
Theorem gen_equal_lengths_interchangeable v1 u1 v2 u2 p1 p2 :
  per_inch u1 = Some p1 -> per_inch u2 = Some p2 -> (v1 / p1 == v2 / p2)%Q ->
  exists x1 x2, gen_length_px v1 u1 = Some x1 /\ gen_length_px v2 u2 = Some x2 /\ (x1 == x2)%Q.
Proof.
  intros H1 H2 E.
  destruct (gen_length_px_is_css v1 u1 p1 H1) as [x1 [A1 B1]].
  destruct (gen_length_px_is_css v2 u2 p2 H2) as [x2 [A2 B2]].
  exists x1, x2. repeat split; auto. rewrite B1, B2.
  assert (R : forall v p, (v * 96 / p == (v / p) * 96)%Q) by (intros; unfold Qdiv; ring).
  rewrite !R, E. reflexivity.
Qed.

Example gen_one_inch_is_2_54_cm :
  exists x1 x2, gen_length_px 1 "in" = Some x1 /\ gen_length_px (254 # 100) "cm" = Some x2 /\ (x1 == x2)%Q.
Proof. apply (gen_equal_lengths_interchangeable 1 "in" (254 # 100) "cm" 1 (254 # 100)); reflexivity. Qed.
