(* C13 - preserve_ratio maps the viewBox onto the viewport as SVG 1.1 7.8 says, for every preserveAspectRatio. *)
From Coq Require Import QArith Qminmax Lqa List Bool.
Require Import WV.model.C13Replaced WV.model.C13Svg WV.proofs.C13_base.
Open Scope Q_scope.

Lemma aligned1_ok a area s vx len len' :
  len' == len ->
  aligned1 a area (s * vx + (match a with AMin => 0 | AMid => (area - len) / 2 | AMax => area - len end - vx * s)) len'.
Proof. intro E. destruct a; cbn; try rewrite E; field. Qed.

Theorem viewbox_onto_viewport vx vy vw vh intr p w h :
  0 < vw -> 0 < vh -> 0 <= w -> 0 <= h ->
  viewbox_placed p vw vh w h (map_rect (preserve_ratio (Some (vx, vy, vw, vh)) intr p w h) vx vy vw vh).
Proof.
  intros Hvw Hvh Hw Hh. unfold preserve_ratio.
  assert (Ew : Qeq_bool vw 0 = false) by (apply Qeq_bool_false; lra).
  assert (Eh : Qeq_bool vh 0 = false) by (apply Qeq_bool_false; lra).
  rewrite Ew, Eh.
  assert (Aw : w / vw * vw == w) by (field; lra).
  assert (Ah : h / vh * vh == h) by (field; lra).
  destruct p as [|ax ay slice].
  - (* none *)
    cbn. repeat split; try (field; lra).
  - set (a := w / vw) in *. set (b := h / vh) in *.
    set (s := if slice then Qmax a b else Qmin a b).
    cbn [map_rect viewbox_placed].
    assert (S1 : (if slice then a <= s /\ b <= s else s <= a /\ s <= b) /\ (s == a \/ s == b)).
    { unfold s. destruct slice.
      - split; [split; [apply Q.le_max_l | apply Q.le_max_r]|].
        destruct (Q.max_dec a b) as [E|E]; [left|right]; exact E.
      - split; [split; [apply Q.le_min_l | apply Q.le_min_r]|].
        destruct (Q.min_dec a b) as [E|E]; [left|right]; exact E. }
    destruct S1 as [S1 S2].
    split; [ring|]. split.
    + destruct slice; destruct S1 as [L1 L2]; split.
      * rewrite <- Aw. apply Qmult_le_compat_r; lra.
      * rewrite <- Ah. apply Qmult_le_compat_r; lra.
      * rewrite <- Aw. apply Qmult_le_compat_r; lra.
      * rewrite <- Ah. apply Qmult_le_compat_r; lra.
    + split.
      * destruct S2 as [E|E]; [left; rewrite E; exact Aw | right; rewrite E; exact Ah].
      * split.
        -- apply aligned1_ok. ring.
        -- apply aligned1_ok. ring.
Qed.

(* the two scales are equal unless preserveAspectRatio is none; with none each axis is stretched on its own *)
Theorem preserve_ratio_scales vx vy vw vh intr p w h :
  0 < vw -> 0 < vh ->
  let '(sx, sy, _, _) := preserve_ratio (Some (vx, vy, vw, vh)) intr p w h in
  match p with PNone => sx == w / vw /\ sy == h / vh | PAlign _ _ _ => sx == sy end.
Proof.
  intros Hvw Hvh. unfold preserve_ratio.
  assert (Ew : Qeq_bool vw 0 = false) by (apply Qeq_bool_false; lra).
  assert (Eh : Qeq_bool vh 0 = false) by (apply Qeq_bool_false; lra).
  rewrite Ew, Eh. destruct p; cbn; [split|]; reflexivity.
Qed.

Example viewbox_example :
  map_rect (preserve_ratio (Some (10, 20, 40, 20)) None PNone 100 100) 10 20 40 20
  = (100 / 40 * 10 + (0 - 10 * (100 / 40)), 100 / 20 * 20 + (0 - 20 * (100 / 20)), 100 / 40 * 40, 100 / 20 * 20).
Proof. reflexivity. Qed.
