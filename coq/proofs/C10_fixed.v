(* C10: fixed_table_layout (model/C10Layout.v): table.width = sum(column widths) + (n+1) spacing after the call,
   declared column widths and first-row cell widths are honoured (up to the equal share of extra width that
   CSS 2.1 17.5.2.1 gives to every column when the table is wider than its columns). *)
From Coq Require Import QArith Qminmax Lqa Lia List Bool Arith.
Require Import WV.model.C10Distribute WV.model.C10Layout WV.proofs.C10_distribute.
Import ListNotations.
Open Scope Q_scope.

(* ---------------------------------------------------------------- small facts *)
Lemma qnat_S n : qnat (S n) == 1 + qnat n.
Proof. unfold qnat. rewrite Nat2Z.inj_succ. unfold Z.succ. rewrite inject_Z_plus. ring. Qed.
Lemma qnat_nonneg n : 0 <= qnat n.
Proof. induction n as [|n IH]; [unfold qnat, Qle; simpl; lia|]. rewrite qnat_S. lra. Qed.
Lemma qnat_pos n : (0 < n)%nat -> 0 < qnat n.
Proof. destruct n; [lia|]. intros _. rewrite qnat_S. pose proof (qnat_nonneg n). lra. Qed.
Lemma qnat_plus a b : qnat (a + b) == qnat a + qnat b.
Proof. unfold qnat. rewrite Nat2Z.inj_add, inject_Z_plus. reflexivity. Qed.

Lemma qsum_map_add (k : Q) l : qsum (map (fun w => w + k) l) == qsum l + qnat (length l) * k.
Proof.
  induction l as [|x l IH]; simpl; [unfold qnat; simpl; ring|]. rewrite IH.
  change (qnat (S (length l))) with (qnat (S (length l))). rewrite qnat_S. ring.
Qed.

Lemma fill_length v l : length (fill v l) = length l.
Proof. unfold fill. apply map_length. Qed.

Lemma osum_app a b : osum (a ++ b) == osum a + osum b.
Proof. unfold osum. rewrite map_app. apply qsum_app. Qed.

Lemma nnone_cons o l : nnone (o :: l) = ((if is_none o then 1 else 0) + nnone l)%nat.
Proof. unfold nnone. simpl. destruct (is_none o); reflexivity. Qed.

Lemma osum_fill v l : osum (fill v l) == osum l + qnat (nnone l) * v.
Proof.
  induction l as [|o l IH]; [unfold osum, qnat; simpl; ring|].
  unfold osum in *. simpl. rewrite IH. rewrite nnone_cons. destruct o as [w|]; simpl.
  - ring.
  - rewrite qnat_S. ring.
Qed.
Lemma nnone_fill v l : nnone (fill v l) = 0%nat.
Proof. induction l as [|o l IH]; [reflexivity|]. simpl. rewrite nnone_cons, IH. destruct o; reflexivity. Qed.
Lemma fill_no_none v l : nnone l = 0%nat -> fill v l = l.
Proof.
  induction l as [|o l IH]; [reflexivity|]. rewrite nnone_cons. destruct o as [w|]; simpl; [|discriminate].
  intro H. f_equal. apply IH. exact H.
Qed.

(* ---------------------------------------------------------------- "keeps": known widths are never overwritten *)
Definition keeps (a b : list (option Q)) : Prop := Forall2 (fun o o' => forall v, o = Some v -> o' = Some v) a b.

Lemma keeps_refl a : keeps a a.
Proof. induction a; constructor; auto. Qed.
Lemma keeps_trans a b c : keeps a b -> keeps b c -> keeps a c.
Proof.
  intros H. revert c. induction H as [|x y a b Hxy _ IH]; intros c Hc; inversion Hc; subst; constructor.
  - intros v Hv. auto.
  - apply IH. assumption.
Qed.
Lemma keeps_fill v a : keeps a (fill v a).
Proof. induction a as [|o a IH]; constructor; [|exact IH]. intros w ->. reflexivity. Qed.
Lemma keeps_app a a' b b' : keeps a a' -> keeps b b' -> keeps (a ++ b) (a' ++ b').
Proof. apply Forall2_app. Qed.

Lemma cell_segment_keeps W s c seg : keeps seg (cell_segment W s c seg).
Proof.
  unfold cell_segment. destruct (resolve (fc_width c) W); [|apply keeps_refl].
  destruct (nnone seg); [apply keeps_refl|apply keeps_fill].
Qed.
Lemma cell_segment_length W s c seg : length (cell_segment W s c seg) = length seg.
Proof.
  unfold cell_segment. destruct (resolve (fc_width c) W); [|reflexivity].
  destruct (nnone seg); [reflexivity|apply fill_length].
Qed.

Lemma cells_loop_keeps W s cells : forall cw cw1, cells_loop W s cells cw = Some cw1 -> keeps cw cw1.
Proof.
  induction cells as [|c cells IH]; intros cw cw1 H; simpl in H.
  - injection H as <-. apply keeps_refl.
  - destruct (length (firstn (fc_span c) cw) <? fc_span c)%nat; [discriminate|].
    destruct (cells_loop W s cells (skipn (fc_span c) cw)) as [t|] eqn:E; [|discriminate]. injection H as <-.
    rewrite <- (firstn_skipn (fc_span c) cw) at 1. apply keeps_app; [apply cell_segment_keeps|now apply IH].
Qed.

Lemma keeps_length a b : keeps a b -> length a = length b.
Proof. induction 1; simpl; congruence. Qed.

Lemma cells_loop_total W s cells : forall cw, (spans cells <= length cw)%nat -> exists cw1, cells_loop W s cells cw = Some cw1.
Proof.
  induction cells as [|c cells IH]; intros cw H; simpl in *; [eauto|].
  assert (L : length (firstn (fc_span c) cw) = fc_span c) by (rewrite firstn_length; lia).
  rewrite L, Nat.ltb_irrefl.
  destruct (IH (skipn (fc_span c) cw)) as [t Ht]; [rewrite skipn_length; lia|]. rewrite Ht. eauto.
Qed.

Lemma fixed_init_length W cols cells : length (fixed_init W cols cells) = Nat.max (length cols) (spans cells).
Proof. unfold fixed_init. rewrite app_length, map_length, repeat_length. lia. Qed.

Theorem fixed_never_raises W s cols cells : exists out, fixed_layout W s cols cells = Some out.
Proof.
  unfold fixed_layout. destruct (cells_loop_total W s cells (fixed_init W cols cells)) as [cw1 H].
  - rewrite fixed_init_length. lia.
  - rewrite H. eauto.
Qed.

(* ---------------------------------------------------------------- the last step *)
(* the share of extra width every column receives when the table is wider than all its columns *)
Definition bonus_of (W s : Q) (cw1 : list (option Q)) : Q :=
  let n := length cw1 in
  let allsp := s * (qnat n + 1) in
  let minw := osum cw1 + allsp in
  let cw2 := if (0 <? nnone cw1)%nat && Qle_bool minw W then fill ((W - minw) / qnat (nnone cw1)) cw1 else fill 0 cw1 in
  let extra := W - qsum (map oval cw2) - allsp in
  if Qle_bool extra 0 then 0 else match n with O => 0 | _ => extra / qnat n end.

Lemma Forall2_map_both {A B C} (P : B -> C -> Prop) (f : A -> B) (g : A -> C) l :
  (forall a, P (f a) (g a)) -> Forall2 P (map f l) (map g l).
Proof. intro H. induction l; simpl; constructor; auto. Qed.

Lemma finish_shape W s cw1 :
  exists cw2, keeps cw1 cw2 /\ nnone cw2 = 0%nat /\
              Forall2 (fun o w => w == oval o + bonus_of W s cw1) cw2 (snd (fixed_finish W s cw1)).
Proof.
  unfold fixed_finish, bonus_of.
  set (n := length cw1). set (allsp := s * (qnat n + 1)). set (minw := osum cw1 + allsp).
  set (cw2 := if (0 <? nnone cw1)%nat && Qle_bool minw W then fill ((W - minw) / qnat (nnone cw1)) cw1 else fill 0 cw1).
  assert (K : keeps cw1 cw2) by (unfold cw2; destruct (_ && _); apply keeps_fill).
  assert (N : nnone cw2 = 0%nat) by (unfold cw2; destruct (_ && _); apply nnone_fill).
  exists cw2. repeat split; try assumption.
  destruct (Qle_bool (W - qsum (map oval cw2) - allsp) 0) eqn:E; cbn [snd].
  - rewrite <- (map_id cw2) at 1. apply Forall2_map_both. intro a. unfold id. ring.
  - destruct n eqn:En; cbn [snd].
    + rewrite <- (map_id cw2) at 1. apply Forall2_map_both. intro a. unfold id. ring.
    + rewrite <- (map_id cw2) at 1. rewrite map_map. apply Forall2_map_both. intro a. unfold id. reflexivity.
Qed.

Lemma Forall2_sum_bonus b seg wseg :
  Forall2 (fun o w => w == oval o + b) seg wseg -> qsum wseg == osum seg + qnat (length seg) * b.
Proof.
  induction 1 as [|o w seg wseg H _ IH]; [unfold osum, qnat; simpl; ring|].
  unfold osum in *. simpl. rewrite IH, H. change (qnat (S (length seg))) with (qnat (S (length seg))).
  rewrite qnat_S. ring.
Qed.

(* table.width == sum(column_widths) + all_border_spacing: from the last step alone *)
Lemma finish_sum W s cw1 :
  let '(W', ws) := fixed_finish W s cw1 in
  length ws = length cw1 /\
  ((0 < length cw1)%nat \/ W <= s -> W' == qsum ws + s * (qnat (length ws) + 1)) /\
  W <= W' /\ (~ bonus_of W s cw1 == 0 -> W' = W) /\ 0 <= bonus_of W s cw1.
Proof.
  unfold fixed_finish, bonus_of.
  set (n := length cw1). set (allsp := s * (qnat n + 1)). set (minw := osum cw1 + allsp).
  set (cw2 := if (0 <? nnone cw1)%nat && Qle_bool minw W then fill ((W - minw) / qnat (nnone cw1)) cw1 else fill 0 cw1).
  assert (L : length (map oval cw2) = n) by (rewrite map_length; unfold cw2; destruct (_ && _); apply fill_length).
  set (ws := map oval cw2) in *. set (extra := W - qsum ws - allsp).
  destruct (Qle_bool extra 0) eqn:E.
  - apply Qle_bool_iff in E. split; [exact L|]. split; [|split; [|split]].
    + intros _. rewrite L. unfold extra, allsp. ring.
    + lra.
    + intro H. exfalso. apply H. reflexivity.
    + lra.
  - assert (Hpos : 0 < extra).
    { apply Qnot_le_lt. intro H. apply Qle_bool_iff in H. congruence. }
    destruct n as [|n'] eqn:En.
    + split; [exact L|]. split; [|split; [lra|split; [intros _; reflexivity|lra]]].
      intros [H|H]; [lia|]. exfalso.
      assert (ws = []) by (destruct ws; [reflexivity|discriminate]).
      unfold extra, allsp in Hpos. rewrite H0 in Hpos.
      change (qsum []) with 0 in Hpos. change (qnat 0) with 0 in Hpos. lra.
    + assert (Hn : 0 < qnat (S n')) by (apply qnat_pos; lia).
      split; [now rewrite map_length|]. split; [|split; [lra|split; [intros _; reflexivity|]]].
      * intros _. rewrite map_length, L, qsum_map_add, L.
        assert (Hc : qnat (S n') * (extra / qnat (S n')) == extra) by (field; lra).
        rewrite Hc. unfold extra, allsp. ring.
      * apply Qlt_le_weak. apply Qlt_shift_div_l; lra.
Qed.

(* ---------------------------------------------------------------- list plumbing *)
Lemma Forall2_nth_error {A B} (P : A -> B -> Prop) a b i x :
  Forall2 P a b -> nth_error a i = Some x -> exists y, nth_error b i = Some y /\ P x y.
Proof.
  intros H. revert i. induction H as [|x0 y0 a b H0 _ IH]; intros [|i] Hi; simpl in *; try discriminate.
  - injection Hi as <-. eauto.
  - apply IH. exact Hi.
Qed.
Lemma Forall2_firstn {A B} (P : A -> B -> Prop) k a b : Forall2 P a b -> Forall2 P (firstn k a) (firstn k b).
Proof. intros H. revert k. induction H; intros [|k]; simpl; constructor; auto. Qed.
Lemma Forall2_skipn {A B} (P : A -> B -> Prop) k a b : Forall2 P a b -> Forall2 P (skipn k a) (skipn k b).
Proof. intros H. revert k. induction H; intros [|k]; simpl; try constructor; auto. Qed.

Lemma firstn_app_exact {A} n (a b : list A) : length a = n -> firstn n (a ++ b) = a.
Proof. intros <-. rewrite firstn_app, Nat.sub_diag, firstn_all. simpl. apply app_nil_r. Qed.
Lemma skipn_app_plus {A} n k (a b : list A) : length a = n -> skipn (n + k) (a ++ b) = skipn k b.
Proof.
  intros <-. rewrite skipn_app. rewrite (skipn_all2 a) by lia. simpl. f_equal. lia.
Qed.

Lemma keeps_no_none a b : keeps a b -> nnone a = 0%nat -> a = b.
Proof.
  induction 1 as [|o o' a b H _ IH]; [reflexivity|]. rewrite nnone_cons. destruct o as [v|]; simpl; [|discriminate].
  intros N. rewrite (H v eq_refl). f_equal. apply IH. exact N.
Qed.

Lemma nth_repeat_same {A} (x : A) k n : nth n (repeat x k) x = x.
Proof. revert n. induction k; intros [|n]; simpl; auto. Qed.
Lemma nth_app_repeat_none (a : list (option Q)) k j : nth j (a ++ repeat None k) None = nth j a None.
Proof.
  destruct (lt_dec j (length a)) as [L|L].
  - now apply app_nth1.
  - rewrite app_nth2 by lia. rewrite nth_repeat_same. symmetry. apply nth_overflow. lia.
Qed.

Lemma nnone_segment (l : list (option Q)) : forall off span j,
  (off <= j < off + span)%nat -> (j < length l)%nat -> nth j l None = None ->
  nnone (firstn span (skipn off l)) <> 0%nat.
Proof.
  induction l as [|x l IH]; intros off span j Hj Hl Hn; simpl in Hl; [lia|].
  destruct off as [|off].
  - destruct span as [|span]; [lia|]. simpl. rewrite nnone_cons. destruct j as [|j]; simpl in Hn.
    + subst x. simpl. lia.
    + assert (nnone (firstn span (skipn 0 l)) <> 0%nat) by (apply (IH 0%nat span j); [lia|lia|exact Hn]).
      simpl in H. lia.
  - destruct j as [|j]; [lia|]. simpl. apply (IH off span j); [lia|lia|exact Hn].
Qed.

(* the segment of the columns a first-row cell spans, after the cell loop *)
Lemma cells_loop_segment W s pre c post : forall cw cw1,
  cells_loop W s (pre ++ c :: post) cw = Some cw1 ->
  firstn (fc_span c) (skipn (spans pre) cw1) = cell_segment W s c (firstn (fc_span c) (skipn (spans pre) cw))
  /\ (spans pre + fc_span c <= length cw)%nat.
Proof.
  induction pre as [|p pre IH]; intros cw cw1 H; simpl in H.
  - destruct (length (firstn (fc_span c) cw) <? fc_span c)%nat eqn:E; [discriminate|].
    apply Nat.ltb_ge in E. rewrite firstn_length in E.
    destruct (cells_loop W s post (skipn (fc_span c) cw)) as [t|]; [|discriminate]. injection H as <-.
    simpl. split; [|lia]. apply firstn_app_exact. rewrite cell_segment_length, firstn_length. lia.
  - destruct (length (firstn (fc_span p) cw) <? fc_span p)%nat eqn:E; [discriminate|].
    apply Nat.ltb_ge in E. rewrite firstn_length in E.
    destruct (cells_loop W s (pre ++ c :: post) (skipn (fc_span p) cw)) as [t|] eqn:Et; [|discriminate].
    injection H as <-. destruct (IH _ _ Et) as [I1 I2]. rewrite skipn_length in I2.
    cbn [spans fold_right]. fold (spans pre). split; [|lia].
    rewrite skipn_app_plus by (rewrite cell_segment_length, firstn_length; lia).
    rewrite I1. now rewrite skipn_add.
Qed.

Lemma cell_segment_sum W s c seg w :
  resolve (fc_width c) W = Some w -> nnone seg <> 0%nat ->
  osum (cell_segment W s c seg) == Qmax (w + fc_bp c - s * (qnat (fc_span c) - 1)) (osum seg) /\
  nnone (cell_segment W s c seg) = 0%nat.
Proof.
  intros Hw Hn. unfold cell_segment. rewrite Hw. destruct (nnone seg) as [|k] eqn:E; [contradiction|].
  split; [|apply nnone_fill]. rewrite osum_fill, E.
  assert (Hk : 0 < qnat (S k)) by (apply qnat_pos; lia).
  set (x := w + fc_bp c - s * (qnat (fc_span c) - 1)).
  assert (Hc : qnat (S k) * (Qmax 0 (x - osum seg) / qnat (S k)) == Qmax 0 (x - osum seg)) by (field; lra).
  rewrite Hc. destruct (Qlt_le_dec (x - osum seg) 0) as [L|L].
  - rewrite (Q.max_l 0 (x - osum seg)) by lra. rewrite (Q.max_r x (osum seg)) by lra. ring.
  - rewrite (Q.max_r 0 (x - osum seg)) by lra. rewrite (Q.max_l x (osum seg)) by lra. ring.
Qed.

(* nothing negative is ever written *)
Definition nonneg_o (l : list (option Q)) : Prop := Forall (fun o => match o with Some v => 0 <= v | None => True end) l.
Lemma nonneg_fill v l : 0 <= v -> nonneg_o l -> nonneg_o (fill v l).
Proof. intros Hv H. induction H as [|o l Ho _ IH]; simpl; constructor; [destruct o; assumption|exact IH]. Qed.
Lemma cell_segment_nonneg W s c seg : nonneg_o seg -> nonneg_o (cell_segment W s c seg).
Proof.
  intro H. unfold cell_segment. destruct (resolve (fc_width c) W); [|exact H]. destruct (nnone seg) as [|k] eqn:E; [exact H|].
  apply nonneg_fill; [|exact H]. apply div_nonneg; [apply Q.le_max_l|apply qnat_pos; lia].
Qed.
Lemma cells_loop_nonneg W s cells : forall cw cw1, cells_loop W s cells cw = Some cw1 -> nonneg_o cw -> nonneg_o cw1.
Proof.
  induction cells as [|c cells IH]; intros cw cw1 H N; simpl in H.
  - now injection H as <-.
  - destruct (length (firstn (fc_span c) cw) <? fc_span c)%nat; [discriminate|].
    destruct (cells_loop W s cells (skipn (fc_span c) cw)) as [t|] eqn:E; [|discriminate]. injection H as <-.
    rewrite <- (firstn_skipn (fc_span c) cw) in N. apply Forall_app in N. destruct N as [N1 N2].
    apply Forall_app. split; [now apply cell_segment_nonneg|now apply (IH _ _ E)].
Qed.

(* ---------------------------------------------------------------- theorems *)
Theorem fixed_sum W s cols cells W' ws :
  fixed_layout W s cols cells = Some (W', ws) ->
  length ws = Nat.max (length cols) (spans cells) /\
  ((0 < length ws)%nat \/ W <= s -> W' == qsum ws + s * (qnat (length ws) + 1)) /\
  W <= W'.
Proof.
  unfold fixed_layout. destruct (cells_loop W s cells (fixed_init W cols cells)) as [cw1|] eqn:E; [|discriminate].
  intros H. injection H as H. pose proof (finish_sum W s cw1) as F. rewrite H in F.
  destruct F as [L [S [G _]]]. pose proof (keeps_length _ _ (cells_loop_keeps _ _ _ _ _ E)) as K.
  rewrite fixed_init_length in K. split; [lia|]. split; [|exact G]. intros Hc. apply S. rewrite <- L. exact Hc.
Qed.

(* with no column at all the table keeps its width: the only case where the equation can fail *)
Theorem fixed_sum_zero_columns W s W' ws :
  fixed_layout W s [] [] = Some (W', ws) -> ws = [] /\ (s < W -> W' = W) /\ (W <= s -> W' == s).
Proof.
  intros H. destruct (fixed_sum _ _ _ _ _ _ H) as [L [S _]]. simpl in L.
  assert (ws = []) as -> by (destruct ws; [reflexivity|discriminate]). split; [reflexivity|].
  split.
  - intro Hs. unfold fixed_layout in H. simpl in H. unfold fixed_finish in H. simpl in H.
    change (qnat 0) with 0 in H. change (osum []) with 0 in H.
    destruct (Qle_bool (W - 0 - s * (0 + 1)) 0) eqn:E.
    + apply Qle_bool_iff in E. lra.
    + inversion H. reflexivity.
  - intro Hs. rewrite (S (or_intror Hs)). change (qsum []) with 0. change (qnat (length [])) with 0. ring.
Qed.

Theorem fixed_widths_honoured W s cols cells W' ws :
  fixed_layout W s cols cells = Some (W', ws) ->
  exists bonus,
    0 <= bonus /\ (~ bonus == 0 -> W' = W) /\
    (* a col element with a width other than auto sets the width of its column *)
    (forall i d v, nth_error cols i = Some d -> resolve d W = Some v ->
       exists w, nth_error ws i = Some w /\ w == v + bonus) /\
    (* otherwise a cell of the first row with a width other than auto determines it: the columns the cell
       spans and the spacings between them add up to its border box *)
    (forall pre c post w, cells = pre ++ c :: post -> resolve (fc_width c) W = Some w ->
       (exists j, (spans pre <= j < spans pre + fc_span c)%nat /\
                  nth j (map (fun d => resolve d W) cols) None = None) ->
       qsum (firstn (fc_span c) (skipn (spans pre) ws)) + s * (qnat (fc_span c) - 1)
       == Qmax (w + fc_bp c)
               (osum (firstn (fc_span c) (skipn (spans pre) (fixed_init W cols cells))) + s * (qnat (fc_span c) - 1))
          + qnat (fc_span c) * bonus).
Proof.
  unfold fixed_layout. destruct (cells_loop W s cells (fixed_init W cols cells)) as [cw1|] eqn:E; [|discriminate].
  intros H. injection H as H. pose proof (finish_sum W s cw1) as F. rewrite H in F.
  destruct F as [L [_ [_ [B1 B0]]]]. exists (bonus_of W s cw1).
  destruct (finish_shape W s cw1) as [cw2 [K2 [N2 F2]]]. rewrite H in F2. cbn [snd] in F2.
  pose proof (cells_loop_keeps _ _ _ _ _ E) as K1.
  split; [exact B0|]. split; [exact B1|]. split.
  - intros i d v Hi Hd.
    assert (I0 : nth_error (fixed_init W cols cells) i = Some (Some v)).
    { unfold fixed_init. rewrite nth_error_app1 by (rewrite map_length; apply nth_error_Some; congruence).
      rewrite nth_error_map, Hi. simpl. now rewrite Hd. }
    destruct (Forall2_nth_error _ _ _ _ _ K1 I0) as [o1 [I1 P1]]. rewrite (P1 v eq_refl) in I1.
    destruct (Forall2_nth_error _ _ _ _ _ K2 I1) as [o2 [I2 P2]]. rewrite (P2 v eq_refl) in I2.
    destruct (Forall2_nth_error _ _ _ _ _ F2 I2) as [w [I3 P3]]. exists w. split; [exact I3|exact P3].
  - remember (fixed_init W cols cells) as init eqn:Hinit.
    intros pre c post w -> Hw [j [Hj Hn]].
    destruct (cells_loop_segment _ _ _ _ _ _ _ E) as [S1 S2].
    set (span := fc_span c) in *. set (off := spans pre) in *.
    assert (N0 : nnone (firstn span (skipn off init)) <> 0%nat).
    { apply (nnone_segment _ off span j Hj); [lia|]. rewrite Hinit. unfold fixed_init. now rewrite nth_app_repeat_none. }
    destruct (cell_segment_sum W s c _ w Hw N0) as [Sum1 None1]. fold span in S1. rewrite <- S1 in Sum1, None1.
    assert (Kseg : keeps (firstn span (skipn off cw1)) (firstn span (skipn off cw2)))
      by (apply Forall2_firstn, Forall2_skipn; exact K2).
    pose proof (keeps_no_none _ _ Kseg None1) as Eseg.
    assert (Fseg : Forall2 (fun o w0 => w0 == oval o + bonus_of W s cw1) (firstn span (skipn off cw2))
                           (firstn span (skipn off ws))) by (apply Forall2_firstn, Forall2_skipn; exact F2).
    rewrite (Forall2_sum_bonus _ _ _ Fseg). rewrite <- Eseg, Sum1.
    assert (Lseg : length (firstn span (skipn off cw1)) = span).
    { rewrite firstn_length, skipn_length. rewrite <- (keeps_length _ _ K1). lia. }
    rewrite Lseg. unfold span.
    set (x := w + fc_bp c). set (o := osum (firstn (fc_span c) (skipn off init))). set (sp := s * (qnat (fc_span c) - 1)).
    assert (Em : Qmax (x - sp) o + sp == Qmax x (o + sp)).
    { destruct (Qlt_le_dec (x - sp) o) as [Lx|Lx].
      - rewrite (Q.max_r (x - sp) o) by lra. rewrite (Q.max_r x (o + sp)) by lra. ring.
      - rewrite (Q.max_l (x - sp) o) by lra. rewrite (Q.max_l x (o + sp)) by lra. ring. }
    rewrite <- Em. ring.
Qed.

Lemma Forall_nonneg_add q l : 0 <= q -> Forall (fun w => 0 <= w) l -> Forall (fun w => 0 <= w) (map (fun w => w + q) l).
Proof. intros Hq H. induction H as [|w l Hw _ IH]; simpl; constructor; [lra|exact IH]. Qed.

(* no column is negative when no declared width is (F84 repaired: the share of a first-row cell is floored at 0) *)
Theorem fixed_columns_non_negative W s cols cells W' ws :
  0 <= s -> Forall (fun d => match resolve d W with Some v => 0 <= v | None => True end) cols ->
  fixed_layout W s cols cells = Some (W', ws) -> Forall (fun w => 0 <= w) ws.
Proof.
  intros Hs Hc. unfold fixed_layout.
  destruct (cells_loop W s cells (fixed_init W cols cells)) as [cw1|] eqn:E; [|discriminate].
  intros H. injection H as H.
  assert (N0 : nonneg_o (fixed_init W cols cells)).
  { unfold fixed_init, nonneg_o. apply Forall_app. split.
    - clear - Hc. induction Hc as [|d l Hd _ IH]; simpl; constructor; [destruct (resolve d W); assumption|exact IH].
    - apply Forall_forall. intros o Ho. apply repeat_spec in Ho. now subst o. }
  pose proof (cells_loop_nonneg _ _ _ _ _ E N0) as N1.
  unfold fixed_finish in H.
  set (n := length cw1) in *. set (allsp := s * (qnat n + 1)) in *. set (minw := osum cw1 + allsp) in *.
  set (cw2' := if (0 <? nnone cw1)%nat && Qle_bool minw W then fill ((W - minw) / qnat (nnone cw1)) cw1 else fill 0 cw1) in *.
  assert (N2 : nonneg_o cw2').
  { unfold cw2'. destruct ((0 <? nnone cw1)%nat && Qle_bool minw W) eqn:Eb.
    - apply andb_true_iff in Eb. destruct Eb as [Ek Em]. apply Nat.ltb_lt in Ek. apply Qle_bool_iff in Em.
      apply nonneg_fill; [|exact N1]. apply div_nonneg; [lra|apply qnat_pos; exact Ek].
    - apply nonneg_fill; [lra|exact N1]. }
  assert (Nv : nnone cw2' = 0%nat) by (unfold cw2'; destruct (_ && _); apply nnone_fill).
  assert (Nw : Forall (fun w => 0 <= w) (map oval cw2')).
  { clear - N2 Nv. induction N2 as [|o l Ho _ IH]; simpl; constructor.
    - destruct o; simpl; [exact Ho|lra].
    - apply IH. rewrite nnone_cons in Nv. lia. }
  set (wsb := map oval cw2') in *. set (extra := W - qsum wsb - allsp) in *.
  destruct (Qle_bool extra 0) eqn:Ee.
  - injection H as _ <-. exact Nw.
  - assert (Hpos : 0 < extra) by (apply Qnot_le_lt; intro Hx; apply Qle_bool_iff in Hx; congruence).
    destruct n as [|n'] eqn:En.
    + injection H as _ <-. exact Nw.
    + injection H as _ <-. assert (0 <= extra / qnat (S n')) by (apply div_nonneg; [lra|apply qnat_pos; lia]).
      now apply Forall_nonneg_add.
Qed.

(* ---------------------------------------------------------------- examples *)
Example fixed_example :
  fixed_layout 200 3 [DPx 50; DAuto; DPct 10] [mkfcell 2 (DPx 80) 6; mkfcell 2 DAuto 0]
  = Some (fixed_finish 200 3 [Some 50; Some ((80 + 6 - 3 * (qnat 2 - 1) - (50 + (0 + 0))) / qnat 1); Some (200 * 10 / 100); None]).
Proof. reflexivity. Qed.
Example fixed_example_values :
  exists W' ws, fixed_layout 200 3 [DPx 50; DAuto; DPct 10] [mkfcell 2 (DPx 80) 6; mkfcell 2 DAuto 0] = Some (W', ws)
                /\ W' == 200 /\ qlist_eqb ws [50; 33; 20; 82] = true.
Proof. eexists. eexists. split; [reflexivity|]. split; vm_compute; reflexivity. Qed.
(* a declared column width larger than the colspan cell that covers it: the other column gets 0 (it used to get a
   negative width) and the table is widened *)
Example fixed_narrow_colspan_cell :
  exists W' ws, fixed_layout 50 0 [DPx 100; DAuto] [mkfcell 2 (DPx 50) 0] = Some (W', ws)
                /\ W' == 100 /\ qlist_eqb ws [100; 0] = true.
Proof. eexists. eexists. split; [reflexivity|]. split; vm_compute; reflexivity. Qed.
