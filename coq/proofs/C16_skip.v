(* C16 - "skipping is sound": what a reference interpreter renders from the tokens emitted by Stream (caches,
   dropped `q Q`, merged `ET BT`) is what it renders from the un-optimised token sequence.  (Before the fixes of
   finding F12 - set_state and the Pattern colour went behind the caches - the statement needed a guard and was
   refuted without it; the model follows the fixed source, where the caches are dropped.) *)
From Coq Require Import ZArith List Bool Lia.
Require Import WV.model.C16Stream WV.proofs.C16_balance.
Import ListNotations.
Open Scope Z_scope.

(* ----------------------------------------------------------------------------------- boolean equalities *)
Lemma key_eqb_eq k k' : key_eqb k k' = true <-> k = k'.
Proof.
  destruct k, k'; simpl; split; intro H; try discriminate; try congruence.
  - apply andb_true_iff in H. destruct H as [H H3]. apply andb_true_iff in H. destruct H as [H1 H2].
    apply Bool.eqb_prop in H1. apply Z.eqb_eq in H2. apply Bool.eqb_prop in H3. congruence.
  - inversion H; subst. rewrite !Bool.eqb_reflx, Z.eqb_refl. reflexivity.
  - apply Z.eqb_eq in H. congruence.
  - inversion H; subst. apply Z.eqb_refl.
Qed.
Lemma pair_eqb_eq (c d : Z * Z) : (fst c =? fst d) && (snd c =? snd d) = true <-> c = d.
Proof.
  destruct c, d; simpl. split; intro H.
  - apply andb_true_iff in H. destruct H as [H1 H2]. apply Z.eqb_eq in H1. apply Z.eqb_eq in H2. congruence.
  - inversion H; subst. rewrite !Z.eqb_refl. reflexivity.
Qed.
Lemma color_eqb_eq c d : color_eqb c d = true <-> c = d.
Proof. apply pair_eqb_eq. Qed.
Lemma font_eqb_eq c d : font_eqb c d = true <-> c = d.
Proof. apply pair_eqb_eq. Qed.
Lemma opt_eqb_key x k : opt_eqb key_eqb x k = true -> x = Some k.
Proof. destruct x; simpl; [|discriminate]. intro H. apply key_eqb_eq in H. congruence. Qed.
Lemma opt_eqb_color x k : opt_eqb color_eqb x k = true -> x = Some k.
Proof. destruct x; simpl; [|discriminate]. intro H. apply color_eqb_eq in H. congruence. Qed.
Lemma opt_eqb_font x k : opt_eqb font_eqb x k = true -> x = Some k.
Proof. destruct x; simpl; [|discriminate]. intro H. apply font_eqb_eq in H. congruence. Qed.

(* ------------------------------------------------------------- tokens that only act on the graphics state *)
Definition set_font (f : font) (g : gst) : gst := gmk (g_fill g) (g_stroke g) (g_ca g) (g_CA g) (Some f) (g_ctm g).
Definition gfun (t : tok) : option (gst -> gst) :=
  match t with
  | Tgs _ v => Some (apply_gs v)
  | Trg s c | Tscn s c => Some (set_col s (PCol c))
  | Tcs s g => Some (set_col s (PSpace g))
  | Tpat s p => Some (set_col s (PPat p))
  | Tfont f => Some (set_font f)
  | Ttag | Tprops _ | TBMC | TBDC | TEMC => Some (fun g => g)
  | _ => None
  end.
Fixpoint gfuns (l : list tok) : option (gst -> gst) :=
  match l with
  | [] => Some (fun g => g)
  | t :: r => match gfun t, gfuns r with Some f, Some F => Some (fun g => f (F g)) | _, _ => None end
  end.

Definition same_but_g (I' I : ist) : Prop :=
  i_stack I' = i_stack I /\ i_text I' = i_text I /\ i_tm I' = i_tm I /\ i_obs I' = i_obs I /\ i_err I' = i_err I.

Lemma istep_gfun t F I : gfun t = Some F -> i_g (istep t I) = F (i_g I) /\ same_but_g (istep t I) I.
Proof.
  unfold same_but_g. destruct t; simpl; intro H; inversion H; subst; repeat split; reflexivity.
Qed.
Lemma interp_rev_gfuns l : forall F r, gfuns l = Some F ->
  i_g (interp_rev (l ++ r)) = F (i_g (interp_rev r)) /\ same_but_g (interp_rev (l ++ r)) (interp_rev r).
Proof.
  induction l as [|t l IH]; simpl; intros F r H.
  - inversion H; subst. unfold same_but_g. repeat split; reflexivity.
  - destruct (gfun t) as [f|] eqn:E1; [|discriminate]. destruct (gfuns l) as [F0|] eqn:E2; [|discriminate].
    inversion H; subst. destruct (IH F0 r eq_refl) as [A B]. destruct (istep_gfun t f (interp_rev (l ++ r)) E1) as [A' B'].
    split; [rewrite A', A; reflexivity|]. unfold same_but_g in *. intuition congruence.
Qed.

Fixpoint under_ET (l : list tok) : bool :=
  match l with Tq :: r => under_ET r | TET :: _ => true | _ => false end.
Lemma under_ET_gfuns l r F : gfuns l = Some F -> l <> [] -> under_ET (l ++ r) = false.
Proof.
  destruct l as [|t l]; [congruence|]. simpl. intros H _.
  destruct t; simpl in H; try discriminate; reflexivity.
Qed.

(* ------------------------------------------------------------------------------------- the invariant *)
Definition Coh (s : st) (g : gst) : Prop :=
  (forall c, ccol s = Some c -> g_fill g = PCol c) /\
  (forall c, ccols s = Some c -> g_stroke g = PCol c) /\
  (forall k, calpha s = Some k -> exists a i, k = KA false a i /\ g_ca g = a) /\
  (forall k, calphas s = Some k -> exists a i, k = KA true a i /\ g_CA g = a) /\
  (forall f, cfont s = Some f -> g_font g = Some f).

Record SInv (b : list bk) (pend : bool) (s : st) (n : nst) : Prop := {
  si_err : i_err (interp_rev (toks s)) = false;
  si_nerr : i_err (interp_rev (ntoks n)) = false;
  si_g : i_g (interp_rev (toks s)) = i_g (interp_rev (ntoks n));
  si_stack : i_stack (interp_rev (toks s)) = i_stack (interp_rev (ntoks n));
  si_obs : i_obs (interp_rev (toks s)) = i_obs (interp_rev (ntoks n));
  si_text : i_text (interp_rev (toks s)) = in_text b;
  si_ntext : i_text (interp_rev (ntoks n)) = in_text b;
  si_tm : pend = false -> i_tm (interp_rev (toks s)) = i_tm (interp_rev (ntoks n));
  si_coh : Coh s (i_g (interp_rev (toks s)));
  si_of : under_ET (toks s) = true -> forall f, ofont s = Some f -> g_font (i_g (interp_rev (toks s))) = Some f;
  si_depth : length (i_stack (interp_rev (toks s))) = countb Bq b;
  si_okb : okb b = true }.

Lemma setter_SInv b pend s n s' n' lr ln Fr Fn :
  SInv b pend s n ->
  toks s' = lr ++ toks s -> ntoks n' = ln ++ ntoks n ->
  gfuns lr = Some Fr -> gfuns ln = Some Fn ->
  Fr (i_g (interp_rev (toks s))) = Fn (i_g (interp_rev (toks s))) ->
  Coh s' (Fr (i_g (interp_rev (toks s)))) ->
  ofont s' = ofont s ->
  SInv b pend s' n'.
Proof.
  intros H T N Gr Gn EQ C O. destruct H.
  destruct (interp_rev_gfuns lr Fr (toks s) Gr) as [A (A1 & A2 & A3 & A4 & A5)].
  destruct (interp_rev_gfuns ln Fn (ntoks n) Gn) as [B (B1 & B2 & B3 & B4 & B5)].
  constructor; rewrite ?T, ?N, ?A, ?B, ?A1, ?A2, ?A3, ?A4, ?A5, ?B1, ?B2, ?B3, ?B4, ?B5; auto.
  - rewrite <- si_g0. exact EQ.
  - intros U f Hf. destruct lr as [|t lr].
    + simpl in Gr. inversion Gr; subst. simpl in U. rewrite O in Hf. apply si_of0; auto.
    + rewrite (under_ET_gfuns (t :: lr) (toks s) Fr Gr) in U by congruence. discriminate.
Qed.

(* ------------------------------------------------------------------------------------ micro-steps *)
Lemma gst_eta g : gmk (g_fill g) (g_stroke g) (g_ca g) (g_CA g) (g_font g) (g_ctm g) = g.
Proof. destruct g; reflexivity. Qed.

Lemma alpha1_SInv b pend s n st a i :
  SInv b pend s n -> SInv b pend (m_alpha1 st a i s) (n_alpha1 st a i n).
Proof.
  intro H. pose proof (si_coh _ _ _ _ H) as (C1 & C2 & C3 & C4 & C5).
  unfold m_alpha1, n_alpha1.
  destruct (opt_eqb key_eqb (if st then calphas s else calpha s) (KA st a i)) eqn:E.
  - (* cached: nothing emitted, the un-optimised emitter writes a redundant gs *)
    apply opt_eqb_key in E.
    apply (setter_SInv b pend s n s _ [] [Tgs (KA st a i) (canon (KA st a i))] (fun g => g) (apply_gs (canon (KA st a i)))); auto; try exact (si_coh _ _ _ _ H).
    destruct st; simpl.
    + destruct (C4 _ E) as (a' & i' & K & G). inversion K; subst.
      unfold apply_gs; simpl. rewrite gst_eta. reflexivity.
    + destruct (C3 _ E) as (a' & i' & K & G). inversion K; subst.
      unfold apply_gs; simpl. rewrite gst_eta. reflexivity.
  - set (k := KA st a i).
    destruct st.
    + eapply (setter_SInv b pend s n _ _ [Tgs k (canon k)] [Tgs k (canon k)]); eauto; try reflexivity.
      unfold Coh; simpl. repeat split; auto.
      intros k0 Hk. inversion Hk; subst. exists a, i. auto.
    + eapply (setter_SInv b pend s n _ _ [Tgs k (canon k)] [Tgs k (canon k)]); eauto; try reflexivity.
      unfold Coh; simpl. repeat split; auto.
      intros k0 Hk. inversion Hk; subst. exists a, i. auto.
Qed.

Lemma set_alpha_SInv b pend s n a i st f :
  SInv b pend s n -> SInv b pend (m_set_alpha a i st f s) (n_set_alpha a i st f n).
Proof.
  intro H. unfold m_set_alpha, n_set_alpha.
  destruct st; destruct f as [[|]|]; simpl; repeat apply alpha1_SInv; exact H.
Qed.

Lemma set_col_same (st : bool) c g : (if st then g_stroke g else g_fill g) = PCol c -> set_col st (PCol c) g = g.
Proof. destruct st, g; simpl; intro H; subst; reflexivity. Qed.

Lemma Coh_caches s s' g :
  ccol s' = ccol s -> ccols s' = ccols s -> calpha s' = calpha s -> calphas s' = calphas s -> cfont s' = cfont s ->
  Coh s g -> Coh s' g.
Proof. unfold Coh. intros -> -> -> -> ->. auto. Qed.
Lemma emit_color_caches (st : bool) c s0 :
  ccol (emit_color st c s0) = ccol s0 /\ ccols (emit_color st c s0) = ccols s0 /\ calpha (emit_color st c s0) = calpha s0 /\
  calphas (emit_color st c s0) = calphas s0 /\ cfont (emit_color st c s0) = cfont s0 /\ ofont (emit_color st c s0) = ofont s0.
Proof. unfold emit_color. destruct ((grp (fst c) =? 1) || (grp (fst c) =? 2)); simpl; repeat split; reflexivity. Qed.
Lemma Coh_set_fill s s' g c :
  ccol s' = Some c -> ccols s' = ccols s -> calpha s' = calpha s -> calphas s' = calphas s -> cfont s' = cfont s ->
  Coh s g -> Coh s' (set_col false (PCol c) g).
Proof.
  unfold Coh. intros E -> -> -> -> (C1 & C2 & C3 & C4 & C5). destruct g; simpl in *.
  repeat split; auto. intros c0 Hc. congruence.
Qed.
Lemma Coh_set_stroke s s' g c :
  ccol s' = ccol s -> ccols s' = Some c -> calpha s' = calpha s -> calphas s' = calphas s -> cfont s' = cfont s ->
  Coh s g -> Coh s' (set_col true (PCol c) g).
Proof.
  unfold Coh. intros -> E -> -> -> (C1 & C2 & C3 & C4 & C5). destruct g; simpl in *.
  repeat split; auto. intros c0 Hc. congruence.
Qed.

Lemma color_part_SInv b pend s n (st : bool) c s' :
  SInv b pend s n ->
  s' = (if st then
          if opt_eqb color_eqb (ccols s) c then s
          else emit_color true c (mk (toks s) (ctms s) (ccol s) (Some c) (calpha s) (calphas s) (cfont s) (ofont s) (egs s) (nmark s) (markon s))
        else
          if opt_eqb color_eqb (ccol s) c then s
          else emit_color false c (mk (toks s) (ctms s) (Some c) (ccols s) (calpha s) (calphas s) (cfont s) (ofont s) (egs s) (nmark s) (markon s))) ->
  SInv b pend s' (n_emit_color st c n).
Proof.
  intros H E. pose proof (si_coh _ _ _ _ H) as CH. pose proof CH as (C1 & C2 & C3 & C4 & C5).
  set (g := i_g (interp_rev (toks s))) in *.
  assert (LN : exists ln Fn, ntoks (n_emit_color st c n) = ln ++ ntoks n /\ gfuns ln = Some Fn /\
                 (forall g0, (if st then g_stroke g0 else g_fill g0) = PCol c -> Fn g0 = g0) /\
                 (forall s0, toks (emit_color st c s0) = ln ++ toks s0) /\
                 (forall g0, Fn g0 = set_col st (PCol c) g0)).
  { unfold n_emit_color, emit_color. destruct ((grp (fst c) =? 1) || (grp (fst c) =? 2)).
    - exists [Tscn st c; Tcs st (grp (fst c))], (fun g0 => set_col st (PCol c) (set_col st (PSpace (grp (fst c))) g0)).
      repeat split; auto.
      + intros g0 G. destruct st, g0; simpl in *; subst; reflexivity.
      + intro g0. destruct st, g0; reflexivity.
    - exists [Trg st c], (fun g0 => set_col st (PCol c) g0). repeat split; auto.
      intros g0 G. apply set_col_same. exact G. }
  destruct LN as (ln & Fn & N1 & N2 & N3 & N4 & N5).
  destruct st.
  - destruct (opt_eqb color_eqb (ccols s) c) eqn:Q.
    + apply opt_eqb_color in Q. subst s'.
      apply (setter_SInv b pend s n s _ [] ln (fun g0 => g0) Fn); auto.
      symmetry. apply N3. simpl. apply C2. exact Q.
    + subst s'.
      destruct (emit_color_caches true c (mk (toks s) (ctms s) (ccol s) (Some c) (calpha s) (calphas s) (cfont s) (ofont s) (egs s) (nmark s) (markon s)))
        as (K1 & K2 & K3 & K4 & K5 & K6).
      eapply (setter_SInv b pend s n _ _ ln ln Fn Fn); eauto.
      * rewrite N4. reflexivity.
      * fold g. rewrite N5. apply (Coh_set_stroke s); auto.
  - destruct (opt_eqb color_eqb (ccol s) c) eqn:Q.
    + apply opt_eqb_color in Q. subst s'.
      apply (setter_SInv b pend s n s _ [] ln (fun g0 => g0) Fn); auto.
      symmetry. apply N3. simpl. apply C1. exact Q.
    + subst s'.
      destruct (emit_color_caches false c (mk (toks s) (ctms s) (Some c) (ccols s) (calpha s) (calphas s) (cfont s) (ofont s) (egs s) (nmark s) (markon s)))
        as (K1 & K2 & K3 & K4 & K5 & K6).
      eapply (setter_SInv b pend s n _ _ ln ln Fn Fn); eauto.
      * rewrite N4. reflexivity.
      * fold g. rewrite N5. apply (Coh_set_fill s); auto.
Qed.

Lemma set_color_SInv b pend s n st c a i :
  SInv b pend s n -> SInv b pend (m_set_color st c a i s) (n_emit_color st c (n_set_alpha a i st None n)).
Proof.
  intro H. apply (color_part_SInv b pend (m_set_alpha a i st None s)); [apply set_alpha_SInv; exact H|].
  unfold m_set_color. destruct st; reflexivity.
Qed.

Lemma set_font_SInv b pend s n f :
  SInv b pend s n -> SInv b pend (m_set_font f s) (nemit (Tfont f) n).
Proof.
  intro H. pose proof (si_coh _ _ _ _ H) as (C1 & C2 & C3 & C4 & C5).
  unfold m_set_font. destruct (opt_eqb font_eqb (cfont s) f) eqn:Q.
  - apply opt_eqb_font in Q.
    apply (setter_SInv b pend s n s _ [] [Tfont f] (fun g => g) (set_font f)); auto; try exact (si_coh _ _ _ _ H).
    unfold set_font. rewrite <- (C5 _ Q). rewrite gst_eta. reflexivity.
  - eapply (setter_SInv b pend s n _ _ [Tfont f] [Tfont f]); eauto; try reflexivity.
    unfold Coh, set_font; simpl. repeat split; auto; intros f0 Hf; congruence.
Qed.

(* ------------------------------------------------------------------------- structural calls, one by one *)
Lemma Coh_g s g g' :
  g_fill g' = g_fill g -> g_stroke g' = g_stroke g -> g_ca g' = g_ca g -> g_CA g' = g_CA g -> g_font g' = g_font g ->
  Coh s g -> Coh s g'.
Proof. unfold Coh. intros -> -> -> -> ->. auto. Qed.

Lemma okb_in_text_tail x r : okb (x :: r) = true -> in_text r = false.
Proof. simpl. apply no_bt_in_text. Qed.

Lemma tok_SInv b s n k : SInv b false s n -> SInv b false (emit (Tother k) s) (nemit (Tother k) n).
Proof.
  intros []. constructor; simpl; auto.
  - rewrite si_g0, si_obs0, si_text0, si_ntext0, (si_tm0 eq_refl). reflexivity.
  - discriminate.
Qed.

Lemma tm_SInv b pend s n m :
  in_text b = true -> SInv b pend s n -> SInv b false (emit (Ttm m) s) (nemit (Ttm m) n).
Proof.
  intros T []. rewrite T in *.
  constructor; simpl; rewrite ?si_text0, ?si_ntext0; simpl; auto. discriminate.
Qed.

Lemma transform_SInv b pend s n m top r :
  in_text b = false -> SInv b pend s n ->
  SInv b pend (with_ctms (mat_mul m top :: r) (emit (Tcm m) s)) (nemit (Tcm m) n).
Proof.
  intros T []. rewrite T in *.
  constructor; simpl; rewrite ?T, ?si_text0, ?si_ntext0; simpl; auto; try discriminate; try (rewrite si_g0; reflexivity).
  all: try (apply (Coh_caches s); try reflexivity; eapply Coh_g; [| | | | |exact si_coh0]; reflexivity).
Qed.

Lemma push_SInv b pend s n top :
  in_text b = false -> SInv b pend s n -> SInv (Bq :: b) pend (with_ctms (top :: ctms s) (emit Tq s)) (nemit Tq n).
Proof.
  intros T []. rewrite T in *.
  constructor; simpl; rewrite ?T, ?si_text0, ?si_ntext0; simpl; auto; try discriminate;
    try (rewrite si_g0, si_stack0; reflexivity); try (apply in_text_false_no_bt; auto).
Qed.

Lemma istep_Tq_ok X : i_err (istep Tq X) = false -> i_text X = false /\ i_err X = false.
Proof. simpl. destruct (i_text X); simpl; auto. discriminate. Qed.
Lemma istep_TET_ok X : i_err (istep TET X) = false -> i_text X = true /\ i_err X = false.
Proof. simpl. destruct (i_text X); simpl; auto. discriminate. Qed.

Lemma istep_Tq_proj X : i_text X = false -> istep Tq X = imk (i_g X) (i_g X :: i_stack X) false (i_tm X) (i_obs X) (i_err X).
Proof. intro H. simpl. rewrite H. reflexivity. Qed.
Lemma istep_TET_proj X : i_text X = true -> istep TET X = imk (i_g X) (i_stack X) false None (i_obs X) (i_err X).
Proof. intro H. simpl. rewrite H. reflexivity. Qed.
Lemma istep_TQ_proj I g rest :
  i_text I = false -> i_stack I = g :: rest -> istep TQ I = imk g rest false (i_tm I) (i_obs I) (i_err I).
Proof. intros H1 H2. simpl. rewrite H1, H2. reflexivity. Qed.
Lemma istep_TBT_proj I : i_text I = false -> istep TBT I = imk (i_g I) (i_stack I) true None (i_obs I) (i_err I).
Proof. intro H. simpl. rewrite H. reflexivity. Qed.

Lemma Coh_reset s0 g : Coh (reset_caches s0) g.
Proof. unfold Coh; simpl. repeat split; intros; discriminate. Qed.

Lemma pop_SInv b pend s n m r :
  SInv (Bq :: b) pend s n ->
  SInv b pend (with_ctms (m :: r) (reset_caches (with_toks (pop_toks (toks s)) s))) (nemit TQ n).
Proof.
  intros H. pose proof (okb_in_text_tail _ _ (si_okb _ _ _ _ H)) as TB. pose proof (okb_tail _ _ (si_okb _ _ _ _ H)) as OB.
  destruct H. cbn [in_text] in si_text0, si_ntext0. cbn [countb bk_eqb] in si_depth0.
  destruct (pop_toks_cases (toks s)) as [(t & E1 & E2)|[E1 E2]].
  - (* the empty q Q pair is dropped *)
    rewrite E1 in *. cbn [interp_rev] in *.
    destruct (istep_Tq_ok _ si_err0) as [TX EX].
    rewrite (istep_Tq_proj _ TX) in *. cbn [i_g i_stack i_text i_tm i_obs i_err] in *.
    assert (NS : istep TQ (interp_rev (ntoks n)) =
                 imk (i_g (interp_rev t)) (i_stack (interp_rev t)) false (i_tm (interp_rev (ntoks n))) (i_obs (interp_rev (ntoks n))) (i_err (interp_rev (ntoks n)))).
    { apply istep_TQ_proj; auto. }
    constructor; cbn [toks ntoks with_ctms reset_caches with_toks nemit interp_rev ofont]; rewrite ?E2, ?NS;
      cbn [i_g i_stack i_text i_tm i_obs i_err]; auto; try congruence;
      try (apply (Coh_caches (reset_caches s)); try reflexivity; apply Coh_reset);
      try (simpl in si_depth0; lia).
  - destruct (i_stack (interp_rev (toks s))) as [|g1 rest] eqn:ES; [simpl in si_depth0; discriminate|].
    assert (RS : istep TQ (interp_rev (toks s)) =
                 imk g1 rest false (i_tm (interp_rev (toks s))) (i_obs (interp_rev (toks s))) (i_err (interp_rev (toks s)))).
    { apply istep_TQ_proj; auto. }
    assert (NS : istep TQ (interp_rev (ntoks n)) =
                 imk g1 rest false (i_tm (interp_rev (ntoks n))) (i_obs (interp_rev (ntoks n))) (i_err (interp_rev (ntoks n)))).
    { apply istep_TQ_proj; auto. }
    constructor; cbn [toks ntoks with_ctms reset_caches with_toks nemit interp_rev ofont]; rewrite ?E1; cbn [interp_rev]; rewrite ?RS, ?NS;
      cbn [i_g i_stack i_text i_tm i_obs i_err under_ET]; auto; try congruence; try discriminate;
      try (apply (Coh_caches (reset_caches s)); try reflexivity; apply Coh_reset);
      try (simpl in si_depth0; lia).
Qed.

Lemma begin_text_SInv b pend s n :
  in_text b = false -> SInv b pend s n -> SInv (Bt :: b) true (m_begin_text s) (nemit TBT n).
Proof.
  intros T H. pose proof (si_okb _ _ _ _ H) as OB.
  assert (OB' : okb (Bt :: b) = true) by (apply okb_push; auto).
  pose proof (si_coh _ _ _ _ H) as CH. pose proof CH as (C1 & C2 & C3 & C4 & C5).
  destruct H. rewrite T in *.
  assert (NS : istep TBT (interp_rev (ntoks n)) =
               imk (i_g (interp_rev (ntoks n))) (i_stack (interp_rev (ntoks n))) true None (i_obs (interp_rev (ntoks n))) (i_err (interp_rev (ntoks n)))).
  { apply istep_TBT_proj; auto. }
  destruct (bt_toks_cases (toks s)) as [(t & E1 & E2)|[E1 E2]].
  - (* ET BT merged *)
    assert (S' : m_begin_text s = with_toks t (with_fonts (ofont s) (ofont s) s)).
    { unfold m_begin_text. rewrite E1. reflexivity. }
    rewrite S'. rewrite E1 in *. cbn [interp_rev] in *.
    destruct (istep_TET_ok _ si_err0) as [TX EX].
    rewrite (istep_TET_proj _ TX) in *. cbn [i_g i_stack i_text i_tm i_obs i_err] in *.
    assert (OF : forall f, ofont s = Some f -> g_font (i_g (interp_rev t)) = Some f) by (intros f Hf; apply si_of0; auto).
    constructor; cbn [toks ntoks with_toks with_fonts nemit interp_rev ofont]; rewrite ?NS;
      cbn [i_g i_stack i_text i_tm i_obs i_err in_text countb bk_eqb]; auto; try discriminate; try congruence;
      try (unfold Coh; simpl; repeat split; auto).
  - assert (S' : m_begin_text s = emit TBT s).
    { unfold m_begin_text. destruct (toks s) as [|x r]; [reflexivity|]. destruct x; try reflexivity. exfalso. apply (E2 r). reflexivity. }
    rewrite S'.
    assert (RS : istep TBT (interp_rev (toks s)) =
                 imk (i_g (interp_rev (toks s))) (i_stack (interp_rev (toks s))) true None (i_obs (interp_rev (toks s))) (i_err (interp_rev (toks s)))).
    { apply istep_TBT_proj; auto. }
    constructor; cbn [toks ntoks emit nemit interp_rev ofont]; rewrite ?RS, ?NS;
      cbn [i_g i_stack i_text i_tm i_obs i_err in_text countb bk_eqb under_ET]; auto; try discriminate; try congruence;
      try (apply (Coh_caches s); auto).
Qed.

Lemma end_text_SInv b pend s n :
  SInv (Bt :: b) pend s n -> SInv b false (m_end_text s) (nemit TET n).
Proof.
  intro H. pose proof (okb_in_text_tail _ _ (si_okb _ _ _ _ H)) as TB. pose proof (okb_tail _ _ (si_okb _ _ _ _ H)) as OB.
  pose proof (si_coh _ _ _ _ H) as (C1 & C2 & C3 & C4 & C5).
  destruct H. cbn [in_text] in si_text0, si_ntext0. cbn [countb bk_eqb] in si_depth0.
  pose proof (istep_TET_proj _ si_text0) as RS. pose proof (istep_TET_proj _ si_ntext0) as NS.
  unfold m_end_text.
  constructor; cbn [toks ntoks emit with_fonts nemit interp_rev ofont]; rewrite ?RS, ?NS;
    cbn [i_g i_stack i_text i_tm i_obs i_err]; auto; try congruence;
    try (unfold Coh; simpl; repeat split; auto; intros; discriminate).
Qed.

Lemma SInv_push_m b pend s n : in_text b = false -> SInv b pend s n -> SInv (Bm :: b) pend s n.
Proof.
  intros T []. constructor; cbn [in_text countb bk_eqb okb]; auto; try congruence; try (apply in_text_false_no_bt; auto).
Qed.
Lemma SInv_pop_m b pend s n : SInv (Bm :: b) pend s n -> SInv b pend s n.
Proof.
  intro H. pose proof (okb_in_text_tail _ _ (si_okb _ _ _ _ H)) as TB. pose proof (okb_tail _ _ (si_okb _ _ _ _ H)) as OB.
  destruct H. cbn [in_text countb bk_eqb] in *. constructor; auto; congruence.
Qed.

Lemma mc_tokens_SInv b pend s n s' n' lr ln :
  SInv b pend s n -> toks s' = lr ++ toks s -> ntoks n' = ln ++ ntoks n ->
  forallb (fun t => match t with Ttag | Tprops _ | TBMC | TBDC | TEMC => true | _ => false end) lr = true ->
  forallb (fun t => match t with Ttag | Tprops _ | TBMC | TBDC | TEMC => true | _ => false end) ln = true ->
  ccol s' = ccol s -> ccols s' = ccols s -> calpha s' = calpha s -> calphas s' = calphas s -> cfont s' = cfont s ->
  ofont s' = ofont s -> SInv b pend s' n'.
Proof.
  intros H T N Lr Ln K1 K2 K3 K4 K5 K6.
  assert (G : forall l, forallb (fun t => match t with Ttag | Tprops _ | TBMC | TBDC | TEMC => true | _ => false end) l = true ->
              exists F, gfuns l = Some F /\ forall g, F g = g).
  { induction l as [|t l IH]; simpl; intro A.
    - eexists; split; [reflexivity|]; auto.
    - apply andb_true_iff in A. destruct A as [A1 A2]. destruct (IH A2) as (F & E & EF). rewrite E.
      destruct t; try discriminate; simpl; eexists; (split; [reflexivity|]); intro g; apply EF. }
  destruct (G lr Lr) as (Fr & Er & EFr). destruct (G ln Ln) as (Fn & En & EFn).
  eapply (setter_SInv b pend s n s' n' lr ln Fr Fn); eauto.
  - rewrite EFr, EFn. reflexivity.
  - rewrite EFr. eapply Coh_caches; eauto. exact (si_coh _ _ _ _ H).
Qed.

(* --------------------------------------------------------------------------------------- one call *)
Definition tmstep (pend : bool) (o : op) : option bool :=
  match o with
  | BeginText => Some true
  | EndText | TextMatrix _ => Some false
  | Tok _ => if pend then None else Some false
  | _ => Some pend
  end.
Lemma tm_disciplined_cons pend o r :
  tm_disciplined pend (o :: r) = true -> exists p', tmstep pend o = Some p' /\ tm_disciplined p' r = true.
Proof.
  destruct o; simpl; intro H; eauto.
  destruct pend; simpl in H; [discriminate|]. eauto.
Qed.

Lemma step_SInv o b b' pend pend' s s' n :
  SInv b pend s n -> wstep o b = Some b' -> tmstep pend o = Some pend' ->
  mstep o s = Some s' -> SInv b' pend' s' (nstep o n).
Proof.
  intros H W TM M. destruct o; simpl in W, TM, M; cbn [nstep].
  - (* Push *)
    destruct (in_text b) eqn:T; [discriminate|]. inversion W; subst; clear W. inversion TM; subst.
    unfold m_push in M. destruct (ctms s) as [|top r] eqn:C; [discriminate|]. inversion M; subst.
    rewrite <- C. apply push_SInv; auto.
  - (* Pop *)
    destruct b as [|[] r]; try discriminate. inversion W; subst; clear W. inversion TM; subst.
    rewrite m_pop_spec in M. destruct (ctms s) as [|m0 [|m1 rest]]; try discriminate. inversion M; subst.
    apply pop_SInv. exact H.
  - (* BeginText *)
    destruct (in_text b) eqn:T; [discriminate|]. inversion W; subst. inversion TM; subst. inversion M; subst.
    apply (begin_text_SInv b pend); auto.
  - (* EndText *)
    destruct b as [|[] r]; try discriminate. inversion W; subst. inversion TM; subst. inversion M; subst.
    eapply end_text_SInv; eauto.
  - (* SetColor *)
    inversion W; subst. inversion TM; subst. inversion M; subst. apply set_color_SInv. exact H.
  - (* SetAlpha *)
    inversion W; subst. inversion TM; subst. inversion M; subst. apply set_alpha_SInv. exact H.
  - (* SetFont *)
    inversion W; subst. inversion TM; subst. inversion M; subst. apply set_font_SInv. exact H.
  - (* SetState: the cache of an alpha the dictionary sets is dropped *)
    inversion W; subst. inversion TM; subst. inversion M; subst. clear W TM M.
    pose proof (si_coh _ _ _ _ H) as (C1 & C2 & C3 & C4 & C5).
    eapply (setter_SInv b' pend' s n _ _ [Tgs _ (ca, CA)] [Tgs _ (ca, CA)]); eauto; try reflexivity.
    unfold Coh, m_set_state; simpl. repeat split; auto.
    + intros k Hk. destruct ca; [discriminate|]. destruct (C3 k Hk) as (a & i & K & GA). exists a, i. auto.
    + intros k Hk. destruct CA; [discriminate|]. destruct (C4 k Hk) as (a & i & K & GA). exists a, i. auto.
  - (* PatternColor: the cached colour is dropped *)
    inversion W; subst. inversion TM; subst. inversion M; subst. clear W TM M.
    pose proof (si_coh _ _ _ _ H) as (C1 & C2 & C3 & C4 & C5).
    eapply (setter_SInv b' pend' s n _ _ [Tpat stroke p; Tcs stroke PATTERN_SPACE] [Tpat stroke p; Tcs stroke PATTERN_SPACE]);
      eauto; try reflexivity.
    unfold Coh, m_pattern_color; simpl. destruct stroke; simpl.
    + destruct (i_g (interp_rev (toks s))); simpl in *. repeat split; auto. intros; discriminate.
    + destruct (i_g (interp_rev (toks s))); simpl in *. repeat split; auto. intros; discriminate.
  - (* Transform *)
    destruct (in_text b) eqn:T; [discriminate|]. inversion W; subst. inversion TM; subst.
    unfold m_transform in M. destruct (ctms s) as [|top r]; [discriminate|]. inversion M; subst.
    apply transform_SInv; auto.
  - (* TextMatrix *)
    destruct (in_text b) eqn:T; [|discriminate]. inversion W; subst. inversion TM; subst. inversion M; subst.
    eapply tm_SInv; eauto.
  - (* BeginMC *)
    destruct (in_text b) eqn:T; [discriminate|]. inversion W; subst. inversion TM; subst. inversion M; subst. clear W TM M.
    apply SInv_push_m; auto.
    unfold m_begin_mc. destruct (markon s), (nmarkon n), mcid;
      try (eapply (mc_tokens_SInv b pend' s n _ _ [TBDC; Tprops _; Ttag] [TBDC; Tprops _; Ttag]); eauto; reflexivity);
      try (eapply (mc_tokens_SInv b pend' s n _ _ [TBDC; Tprops _; Ttag] []); eauto; reflexivity);
      try (eapply (mc_tokens_SInv b pend' s n _ _ [] [TBDC; Tprops _; Ttag]); eauto; reflexivity);
      try (eapply (mc_tokens_SInv b pend' s n _ _ [TBMC; Ttag] [TBMC; Ttag]); eauto; reflexivity);
      try (eapply (mc_tokens_SInv b pend' s n _ _ [TBMC; Ttag] []); eauto; reflexivity);
      try (eapply (mc_tokens_SInv b pend' s n _ _ [] [TBMC; Ttag]); eauto; reflexivity);
      try (eapply (mc_tokens_SInv b pend' s n _ _ [] []); eauto; reflexivity).
  - (* EndMC *)
    destruct b as [|[] r]; try discriminate. inversion W; subst. inversion TM; subst. inversion M; subst. clear W TM M.
    apply SInv_pop_m in H.
    unfold m_end_mc. destruct (markon s), (nmarkon n);
      try (eapply (mc_tokens_SInv b' pend' s n _ _ [TEMC] [TEMC]); eauto; reflexivity);
      try (eapply (mc_tokens_SInv b' pend' s n _ _ [TEMC] []); eauto; reflexivity);
      try (eapply (mc_tokens_SInv b' pend' s n _ _ [] [TEMC]); eauto; reflexivity);
      try (eapply (mc_tokens_SInv b' pend' s n _ _ [] []); eauto; reflexivity).
  - (* Tok *)
    inversion W; subst. inversion M; subst. destruct pend; [discriminate|]. inversion TM; subst.
    apply tok_SInv. exact H.
  - (* ExtState *)
    inversion W; subst. inversion TM; subst. inversion M; subst.
    eapply (setter_SInv b' pend' s n _ _ [] []); eauto; try reflexivity. exact (si_coh _ _ _ _ H).
  - (* ExtAlpha *)
    inversion W; subst. inversion TM; subst. inversion M; subst.
    eapply (setter_SInv b' pend' s n _ _ [] []); eauto; try reflexivity. exact (si_coh _ _ _ _ H).
  - (* Rollback *)
    discriminate.
Qed.

Lemma run_SInv ops : forall b b' pend s s' n,
  SInv b pend s n -> wscan b ops = Some b' -> tm_disciplined pend ops = true ->
  run ops s = Some s' -> exists pend', SInv b' pend' s' (nrun ops n).
Proof.
  induction ops as [|o r IH]; intros b b' pend s s' n H W TM R.
  - simpl in *. inversion W; inversion R; subst. eauto.
  - simpl in W, R. destruct (wstep o b) as [b1|] eqn:E; [|discriminate].
    destruct (tm_disciplined_cons _ _ _ TM) as (p1 & TM1 & TMr).
    destruct (mstep o s) as [s1|] eqn:M; [|discriminate].
    unfold nrun. simpl. apply (IH b1 b' p1 s1 s' (nstep o n)); auto.
    eapply step_SInv; eauto.
Qed.

Lemma SInv_fresh mark d : SInv [] false (fresh mark d) (nfresh mark d).
Proof.
  constructor; simpl; auto; try discriminate.
  unfold Coh; simpl. repeat split; intros; discriminate.
Qed.

Lemma interp_rev_fwd l : interp (rev l) = interp_rev l.
Proof.
  unfold interp. induction l as [|t l IH]; simpl; auto.
  rewrite fold_left_app. simpl. rewrite IH. reflexivity.
Qed.

(* ------------------------------------------------------------------------------------- main theorem *)
Theorem skip_is_sound mark d ops s' :
  wb ops = true -> tm_disciplined false ops = true ->
  run ops (fresh mark d) = Some s' ->
  let X := interp (rev (toks s')) in
  let Y := interp (rev (ntoks (nrun ops (nfresh mark d)))) in
  i_err X = false /\ i_err Y = false /\ i_obs X = i_obs Y /\ i_g X = i_g Y /\ i_stack X = i_stack Y /\
  i_text X = false /\ i_text Y = false.
Proof.
  unfold wb. destruct (wscan [] ops) as [[|x r]|] eqn:W; try discriminate. intros _ TM R.
  destruct (run_SInv ops [] [] false (fresh mark d) s' (nfresh mark d) (SInv_fresh mark d) W TM R) as (p & []).
  simpl. rewrite !interp_rev_fwd. repeat split; auto.
Qed.

(* boolean form, as evaluated by the correspondence judge *)
Lemma mat_eqb_refl m : mat_eqb m m = true.
Proof. destruct m as [[[[[a b] c] d] e] f]. simpl. rewrite !Z.eqb_refl. reflexivity. Qed.
Lemma pcol_eqb_refl p : pcol_eqb p p = true.
Proof. destruct p; simpl; auto; try apply Z.eqb_refl. unfold color_eqb. rewrite !Z.eqb_refl. reflexivity. Qed.
Lemma gst_eqb_refl g : gst_eqb g g = true.
Proof.
  destruct g as [f1 f2 a1 a2 fo m]. unfold gst_eqb. simpl. rewrite !pcol_eqb_refl, !Z.eqb_refl, mat_eqb_refl.
  destruct fo; simpl; auto. unfold font_eqb. rewrite !Z.eqb_refl. reflexivity.
Qed.
Lemma list_eqb_refl {A} (eqb : A -> A -> bool) : (forall a, eqb a a = true) -> forall l, list_eqb eqb l l = true.
Proof. intros R l. induction l; simpl; auto. rewrite R, IHl. reflexivity. Qed.
Lemma obs_eqb_refl o : obs_eqb o o = true.
Proof.
  destruct o as [[[k g] t] m]. simpl. rewrite Z.eqb_refl, gst_eqb_refl, Bool.eqb_reflx.
  destruct m; simpl; auto. apply mat_eqb_refl.
Qed.

Corollary skip_is_sound_b mark d ops s' :
  wb ops = true -> tm_disciplined false ops = true ->
  run ops (fresh mark d) = Some s' ->
  same_rendering (interp (rev (toks s'))) (interp (rev (ntoks (nrun ops (nfresh mark d))))) = true.
Proof.
  intros W TM R. destruct (skip_is_sound mark d ops s' W TM R) as (A & B & C & D & E & F & F').
  unfold same_rendering. rewrite A, B, C, D, E, F, F'. simpl.
  rewrite (list_eqb_refl obs_eqb obs_eqb_refl), gst_eqb_refl, (list_eqb_refl gst_eqb gst_eqb_refl). reflexivity.
Qed.

(* ----------------------------------------------------- the former witnesses of finding F12 are now sound *)
(* an ExtGState carrying /ca (what set_alpha_state installs: 'ca': 1) used to go behind the alpha cache: the next
   set_alpha with the cached value was skipped although the graphics state no longer had that value *)
Definition f12_alpha_witness : list op :=
  [SetAlpha 500 false false None; Push; SetState (Some 1000) None; SetAlpha 500 false false None; Tok 0; Tok 1; Pop].
(* same for the Pattern colour space installed by set_color_space/set_color_special *)
Definition f12_pattern_witness : list op :=
  [SetColor false (0, 0) 1000 false; Push; PatternColor false 0; Tok 0; Tok 1; Push; SetColor false (0, 0) 1000 false; Tok 0; Tok 1; Pop; Pop].

Example f12_witnesses_render_as_intended :
  (forall s', run f12_alpha_witness (fresh false []) = Some s' ->
     map (fun o => g_ca (snd (fst (fst o)))) (i_obs (interp (rev (toks s')))) = [500; 500]) /\
  (forall s', run f12_pattern_witness (fresh false []) = Some s' ->
     map (fun o => g_fill (snd (fst (fst o)))) (i_obs (interp (rev (toks s')))) = [PCol (0, 0); PCol (0, 0); PPat 0; PPat 0]).
Proof.
  split; intros s' R; vm_compute in R; inversion R; subst; vm_compute; reflexivity.
Qed.

Example skip_is_sound_example :
  let ops := [Push; SetColor false (0,0) 500 false; Tok 0; Tok 1; Push; SetColor false (0,0) 500 false; SetColor true (7, 8) 1000 false;
              BeginText; TextMatrix mat_id; SetFont (0,0); Tok 8; EndText; Push; Pop;
              BeginText; TextMatrix (1,0,0,1,5,5); SetFont (0,0); Tok 8; EndText; Pop; SetColor false (0,0) 500 false; Tok 1; Pop] in
  wb ops = true /\ tm_disciplined false ops = true /\
  option_map (fun s => length (toks s)) (run ops (fresh false [])) = Some 21%nat /\
  length (ntoks (nrun ops (nfresh false []))) = 28%nat.
Proof. repeat split; vm_compute; reflexivity. Qed.
