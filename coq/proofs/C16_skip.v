(* C16 - "skipping is sound": what a reference interpreter renders from the tokens emitted by Stream (caches,
   dropped `q Q`, merged `ET BT`) is what it renders from the un-optimised token sequence; and the refutations
   (finding F12): operators installed behind the caches make a skipped operator non-redundant. *)
From Coq Require Import ZArith List Bool Lia.
Require Import WV.model.C16Stream WV.proofs.C16_balance.
Import ListNotations.
Open Scope Z_scope.

(* ----------------------------------------------------------------------------------- boolean equalities *)
Lemma key_eqb_eq k k' : key_eqb k k' = true <-> k = k'.
Proof.
  destruct k, k'; simpl; split; intro H; try discriminate; try congruence.
  - apply andb_true_iff in H. destruct H as [H H3]. apply andb_true_iff in H. destruct H as [H1 H2].
    apply Bool.eqb_prop in H1. apply Z.eqb_eq in H2. apply Bool.eqb_prop in H3. congruence.
  - inversion H; subst. rewrite !Bool.eqb_reflx, Z.eqb_refl. reflexivity.
  - apply Z.eqb_eq in H. congruence.
  - inversion H; subst. apply Z.eqb_refl.
Qed.
Lemma pair_eqb_eq (c d : Z * Z) : (fst c =? fst d) && (snd c =? snd d) = true <-> c = d.
Proof.
  destruct c, d; simpl. split; intro H.
  - apply andb_true_iff in H. destruct H as [H1 H2]. apply Z.eqb_eq in H1. apply Z.eqb_eq in H2. congruence.
  - inversion H; subst. rewrite !Z.eqb_refl. reflexivity.
Qed.
Lemma color_eqb_eq c d : color_eqb c d = true <-> c = d.
Proof. apply pair_eqb_eq. Qed.
Lemma font_eqb_eq c d : font_eqb c d = true <-> c = d.
Proof. apply pair_eqb_eq. Qed.
Lemma opt_eqb_key x k : opt_eqb key_eqb x k = true -> x = Some k.
Proof. destruct x; simpl; [|discriminate]. intro H. apply key_eqb_eq in H. congruence. Qed.
Lemma opt_eqb_color x k : opt_eqb color_eqb x k = true -> x = Some k.
Proof. destruct x; simpl; [|discriminate]. intro H. apply color_eqb_eq in H. congruence. Qed.
Lemma opt_eqb_font x k : opt_eqb font_eqb x k = true -> x = Some k.
Proof. destruct x; simpl; [|discriminate]. intro H. apply font_eqb_eq in H. congruence. Qed.

(* ------------------------------------------------------------- tokens that only act on the graphics state *)
Definition set_font (f : font) (g : gst) : gst := gmk (g_fill g) (g_stroke g) (g_ca g) (g_CA g) (Some f) (g_ctm g).
Definition gfun (t : tok) : option (gst -> gst) :=
  match t with
  | Tgs _ v => Some (apply_gs v)
  | Trg s c | Tscn s c => Some (set_col s (PCol c))
  | Tcs s g => Some (set_col s (PSpace g))
  | Tpat s p => Some (set_col s (PPat p))
  | Tfont f => Some (set_font f)
  | Ttag | Tprops _ | TBMC | TBDC | TEMC => Some (fun g => g)
  | _ => None
  end.
Fixpoint gfuns (l : list tok) : option (gst -> gst) :=
  match l with
  | [] => Some (fun g => g)
  | t :: r => match gfun t, gfuns r with Some f, Some F => Some (fun g => f (F g)) | _, _ => None end
  end.

Definition same_but_g (I' I : ist) : Prop :=
  i_stack I' = i_stack I /\ i_text I' = i_text I /\ i_tm I' = i_tm I /\ i_obs I' = i_obs I /\ i_err I' = i_err I.

Lemma istep_gfun t F I : gfun t = Some F -> i_g (istep t I) = F (i_g I) /\ same_but_g (istep t I) I.
Proof.
  unfold same_but_g. destruct t; simpl; intro H; inversion H; subst; repeat split; reflexivity.
Qed.
Lemma interp_rev_gfuns l : forall F r, gfuns l = Some F ->
  i_g (interp_rev (l ++ r)) = F (i_g (interp_rev r)) /\ same_but_g (interp_rev (l ++ r)) (interp_rev r).
Proof.
  induction l as [|t l IH]; simpl; intros F r H.
  - inversion H; subst. unfold same_but_g. repeat split; reflexivity.
  - destruct (gfun t) as [f|] eqn:E1; [|discriminate]. destruct (gfuns l) as [F0|] eqn:E2; [|discriminate].
    inversion H; subst. destruct (IH F0 r eq_refl) as [A B]. destruct (istep_gfun t f (interp_rev (l ++ r)) E1) as [A' B'].
    split; [rewrite A', A; reflexivity|]. unfold same_but_g in *. intuition congruence.
Qed.

Fixpoint under_ET (l : list tok) : bool :=
  match l with Tq :: r => under_ET r | TET :: _ => true | _ => false end.
Lemma under_ET_gfuns l r F : gfuns l = Some F -> l <> [] -> under_ET (l ++ r) = false.
Proof.
  destruct l as [|t l]; [congruence|]. simpl. intros H _.
  destruct t; simpl in H; try discriminate; reflexivity.
Qed.

(* ------------------------------------------------------------------------------------- the invariant *)
Definition Coh (s : st) (g : gst) : Prop :=
  (forall c, ccol s = Some c -> g_fill g = PCol c) /\
  (forall c, ccols s = Some c -> g_stroke g = PCol c) /\
  (forall k, calpha s = Some k -> exists a i, k = KA false a i /\ g_ca g = a) /\
  (forall k, calphas s = Some k -> exists a i, k = KA true a i /\ g_CA g = a) /\
  (forall f, cfont s = Some f -> g_font g = Some f).

Record SInv (b : list bk) (pend : bool) (s : st) (n : nst) : Prop := {
  si_err : i_err (interp_rev (toks s)) = false;
  si_nerr : i_err (interp_rev (ntoks n)) = false;
  si_g : i_g (interp_rev (toks s)) = i_g (interp_rev (ntoks n));
  si_stack : i_stack (interp_rev (toks s)) = i_stack (interp_rev (ntoks n));
  si_obs : i_obs (interp_rev (toks s)) = i_obs (interp_rev (ntoks n));
  si_text : i_text (interp_rev (toks s)) = in_text b;
  si_ntext : i_text (interp_rev (ntoks n)) = in_text b;
  si_tm : pend = false -> i_tm (interp_rev (toks s)) = i_tm (interp_rev (ntoks n));
  si_coh : Coh s (i_g (interp_rev (toks s)));
  si_of : under_ET (toks s) = true -> forall f, ofont s = Some f -> g_font (i_g (interp_rev (toks s))) = Some f;
  si_depth : length (i_stack (interp_rev (toks s))) = countb Bq b;
  si_okb : okb b = true }.

Lemma setter_SInv b pend s n s' n' lr ln Fr Fn :
  SInv b pend s n ->
  toks s' = lr ++ toks s -> ntoks n' = ln ++ ntoks n ->
  gfuns lr = Some Fr -> gfuns ln = Some Fn ->
  Fr (i_g (interp_rev (toks s))) = Fn (i_g (interp_rev (toks s))) ->
  Coh s' (Fr (i_g (interp_rev (toks s)))) ->
  ofont s' = ofont s ->
  SInv b pend s' n'.
Proof.
  intros H T N Gr Gn EQ C O. destruct H.
  destruct (interp_rev_gfuns lr Fr (toks s) Gr) as [A (A1 & A2 & A3 & A4 & A5)].
  destruct (interp_rev_gfuns ln Fn (ntoks n) Gn) as [B (B1 & B2 & B3 & B4 & B5)].
  constructor; rewrite ?T, ?N, ?A, ?B, ?A1, ?A2, ?A3, ?A4, ?A5, ?B1, ?B2, ?B3, ?B4, ?B5; auto.
  - rewrite <- si_g0. exact EQ.
  - intros U f Hf. destruct lr as [|t lr].
    + simpl in Gr. inversion Gr; subst. simpl in U. rewrite O in Hf. apply si_of0; auto.
    + rewrite (under_ET_gfuns (t :: lr) (toks s) Fr Gr) in U by congruence. discriminate.
Qed.

(* ------------------------------------------------------------------------------------ micro-steps *)
Lemma gst_eta g : gmk (g_fill g) (g_stroke g) (g_ca g) (g_CA g) (g_font g) (g_ctm g) = g.
Proof. destruct g; reflexivity. Qed.

Lemma alpha1_SInv b pend s n st a i :
  SInv b pend s n -> SInv b pend (m_alpha1 st a i s) (n_alpha1 st a i n).
Proof.
  intro H. pose proof (si_coh _ _ _ _ H) as (C1 & C2 & C3 & C4 & C5).
  unfold m_alpha1, n_alpha1.
  destruct (opt_eqb key_eqb (if st then calphas s else calpha s) (KA st a i)) eqn:E.
  - (* cached: nothing emitted, the un-optimised emitter writes a redundant gs *)
    apply opt_eqb_key in E.
    apply (setter_SInv b pend s n s _ [] [Tgs (KA st a i) (canon (KA st a i))] (fun g => g) (apply_gs (canon (KA st a i)))); auto; try exact (si_coh _ _ _ _ H).
    destruct st; simpl.
    + destruct (C4 _ E) as (a' & i' & K & G). inversion K; subst.
      unfold apply_gs; simpl. rewrite gst_eta. reflexivity.
    + destruct (C3 _ E) as (a' & i' & K & G). inversion K; subst.
      unfold apply_gs; simpl. rewrite gst_eta. reflexivity.
  - set (k := KA st a i).
    destruct st.
    + eapply (setter_SInv b pend s n _ _ [Tgs k (canon k)] [Tgs k (canon k)]); eauto; try reflexivity.
      unfold Coh; simpl. repeat split; auto.
      intros k0 Hk. inversion Hk; subst. exists a, i. auto.
    + eapply (setter_SInv b pend s n _ _ [Tgs k (canon k)] [Tgs k (canon k)]); eauto; try reflexivity.
      unfold Coh; simpl. repeat split; auto.
      intros k0 Hk. inversion Hk; subst. exists a, i. auto.
Qed.

Lemma set_alpha_SInv b pend s n a i st f :
  SInv b pend s n -> SInv b pend (m_set_alpha a i st f s) (n_set_alpha a i st f n).
Proof.
  intro H. unfold m_set_alpha, n_set_alpha.
  destruct st; destruct f as [[|]|]; simpl; repeat apply alpha1_SInv; exact H.
Qed.

Lemma set_col_same (st : bool) c g : (if st then g_stroke g else g_fill g) = PCol c -> set_col st (PCol c) g = g.
Proof. destruct st, g; simpl; intro H; subst; reflexivity. Qed.

Lemma Coh_caches s s' g :
  ccol s' = ccol s -> ccols s' = ccols s -> calpha s' = calpha s -> calphas s' = calphas s -> cfont s' = cfont s ->
  Coh s g -> Coh s' g.
Proof. unfold Coh. intros -> -> -> -> ->. auto. Qed.
Lemma emit_color_caches (st : bool) c s0 :
  ccol (emit_color st c s0) = ccol s0 /\ ccols (emit_color st c s0) = ccols s0 /\ calpha (emit_color st c s0) = calpha s0 /\
  calphas (emit_color st c s0) = calphas s0 /\ cfont (emit_color st c s0) = cfont s0 /\ ofont (emit_color st c s0) = ofont s0.
Proof. unfold emit_color. destruct ((grp (fst c) =? 1) || (grp (fst c) =? 2)); simpl; repeat split; reflexivity. Qed.
Lemma Coh_set_fill s s' g c :
  ccol s' = Some c -> ccols s' = ccols s -> calpha s' = calpha s -> calphas s' = calphas s -> cfont s' = cfont s ->
  Coh s g -> Coh s' (set_col false (PCol c) g).
Proof.
  unfold Coh. intros E -> -> -> -> (C1 & C2 & C3 & C4 & C5). destruct g; simpl in *.
  repeat split; auto. intros c0 Hc. congruence.
Qed.
Lemma Coh_set_stroke s s' g c :
  ccol s' = ccol s -> ccols s' = Some c -> calpha s' = calpha s -> calphas s' = calphas s -> cfont s' = cfont s ->
  Coh s g -> Coh s' (set_col true (PCol c) g).
Proof.
  unfold Coh. intros -> E -> -> -> (C1 & C2 & C3 & C4 & C5). destruct g; simpl in *.
  repeat split; auto. intros c0 Hc. congruence.
Qed.

Lemma color_part_SInv b pend s n (st : bool) c s' :
  SInv b pend s n ->
  s' = (if st then
          if opt_eqb color_eqb (ccols s) c then s
          else emit_color true c (mk (toks s) (ctms s) (ccol s) (Some c) (calpha s) (calphas s) (cfont s) (ofont s) (egs s) (nmark s) (markon s))
        else
          if opt_eqb color_eqb (ccol s) c then s
          else emit_color false c (mk (toks s) (ctms s) (Some c) (ccols s) (calpha s) (calphas s) (cfont s) (ofont s) (egs s) (nmark s) (markon s))) ->
  SInv b pend s' (n_emit_color st c n).
Proof.
  intros H E. pose proof (si_coh _ _ _ _ H) as CH. pose proof CH as (C1 & C2 & C3 & C4 & C5).
  set (g := i_g (interp_rev (toks s))) in *.
  assert (LN : exists ln Fn, ntoks (n_emit_color st c n) = ln ++ ntoks n /\ gfuns ln = Some Fn /\
                 (forall g0, (if st then g_stroke g0 else g_fill g0) = PCol c -> Fn g0 = g0) /\
                 (forall s0, toks (emit_color st c s0) = ln ++ toks s0) /\
                 (forall g0, Fn g0 = set_col st (PCol c) g0)).
  { unfold n_emit_color, emit_color. destruct ((grp (fst c) =? 1) || (grp (fst c) =? 2)).
    - exists [Tscn st c; Tcs st (grp (fst c))], (fun g0 => set_col st (PCol c) (set_col st (PSpace (grp (fst c))) g0)).
      repeat split; auto.
      + intros g0 G. destruct st, g0; simpl in *; subst; reflexivity.
      + intro g0. destruct st, g0; reflexivity.
    - exists [Trg st c], (fun g0 => set_col st (PCol c) g0). repeat split; auto.
      intros g0 G. apply set_col_same. exact G. }
  destruct LN as (ln & Fn & N1 & N2 & N3 & N4 & N5).
  destruct st.
  - destruct (opt_eqb color_eqb (ccols s) c) eqn:Q.
    + apply opt_eqb_color in Q. subst s'.
      apply (setter_SInv b pend s n s _ [] ln (fun g0 => g0) Fn); auto.
      symmetry. apply N3. simpl. apply C2. exact Q.
    + subst s'.
      destruct (emit_color_caches true c (mk (toks s) (ctms s) (ccol s) (Some c) (calpha s) (calphas s) (cfont s) (ofont s) (egs s) (nmark s) (markon s)))
        as (K1 & K2 & K3 & K4 & K5 & K6).
      eapply (setter_SInv b pend s n _ _ ln ln Fn Fn); eauto.
      * rewrite N4. reflexivity.
      * fold g. rewrite N5. apply (Coh_set_stroke s); auto.
  - destruct (opt_eqb color_eqb (ccol s) c) eqn:Q.
    + apply opt_eqb_color in Q. subst s'.
      apply (setter_SInv b pend s n s _ [] ln (fun g0 => g0) Fn); auto.
      symmetry. apply N3. simpl. apply C1. exact Q.
    + subst s'.
      destruct (emit_color_caches false c (mk (toks s) (ctms s) (Some c) (ccols s) (calpha s) (calphas s) (cfont s) (ofont s) (egs s) (nmark s) (markon s)))
        as (K1 & K2 & K3 & K4 & K5 & K6).
      eapply (setter_SInv b pend s n _ _ ln ln Fn Fn); eauto.
      * rewrite N4. reflexivity.
      * fold g. rewrite N5. apply (Coh_set_fill s); auto.
Qed.

Lemma set_color_SInv b pend s n st c a i :
  SInv b pend s n -> SInv b pend (m_set_color st c a i s) (n_emit_color st c (n_set_alpha a i st None n)).
Proof.
  intro H. apply (color_part_SInv b pend (m_set_alpha a i st None s)); [apply set_alpha_SInv; exact H|].
  unfold m_set_color. destruct st; reflexivity.
Qed.

Lemma set_font_SInv b pend s n f :
  SInv b pend s n -> SInv b pend (m_set_font f s) (nemit (Tfont f) n).
Proof.
  intro H. pose proof (si_coh _ _ _ _ H) as (C1 & C2 & C3 & C4 & C5).
  unfold m_set_font. destruct (opt_eqb font_eqb (cfont s) f) eqn:Q.
  - apply opt_eqb_font in Q.
    apply (setter_SInv b pend s n s _ [] [Tfont f] (fun g => g) (set_font f)); auto; try exact (si_coh _ _ _ _ H).
    unfold set_font. rewrite <- (C5 _ Q). rewrite gst_eta. reflexivity.
  - eapply (setter_SInv b pend s n _ _ [Tfont f] [Tfont f]); eauto; try reflexivity.
    unfold Coh, set_font; simpl. repeat split; auto; intros f0 Hf; congruence.
Qed.
