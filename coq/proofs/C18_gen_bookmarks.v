(* C18 - the level stack of make_page_bookmark_tree (weasyprint/anchors.py) as REGENERATED from the source on every run
   (gen/GenAnchors.v, bookmark_stack_step_body: the head of the loop body, from `if level > previous_level:` through
   `assert depth >= 1`; `skipped_levels.pop()` inside the expression is hoisted by the printer, see hoist_pops in
   tools/py2coq.py).  For every integer level, previous level and stack of integers the regenerated statements
   compute exactly the head of [step] of model/C18Bookmarks.v ([adjust], then depth and the two asserts): the same
   new stack, previous_level = level, the same depth, IndexError exactly when the model says EPopEmpty and
   AssertionError exactly when it says EAssertDepthLen / EAssertDepthGe1.  So the theorems of proofs/C18_bookmarks.v
   about [adjust] (skipped levels are closed up, neither assert can fire, pop() stays in range) are theorems about
   the source.  Numbers of Py.v are rationals: an integer z is any q == inject_Z z. *)
From Coq Require Import ZArith QArith Qreduction List String Bool Lia.
Require Import WV.base.Py WV.gen.GenAnchors.
Require WV.model.C18Bookmarks WV.proofs.C18_bookmarks WV.proofs.PyNatural.
Import ListNotations.
Open Scope string_scope.
Open Scope list_scope.

Module B := WV.model.C18Bookmarks.
Module BP := WV.proofs.C18_bookmarks.

(* ---- the head of B.step as a function: what the translated statements compute *)
Definition stack_step (level : Z) (sk : list Z) (prev : Z) : B.err + (list Z * Z) :=
  match B.adjust level sk prev with
  | inl e => inl e
  | inr sk' =>
      let depth := (level - B.sumZ sk')%Z in
      if negb (depth =? Z.of_nat (List.length sk'))%Z then inl B.EAssertDepthLen
      else if negb (1 <=? depth)%Z then inl B.EAssertDepthGe1
      else inr (sk', depth)
  end.

(* B.step is stack_step followed by the placement of the new node at that depth *)
Lemma step_is_stack_step {A} (s : B.state A) (level : Z) (a : A) :
  B.step s level a =
  match stack_step level (B.skipped s) (B.prev s) with
  | inl e => inl e
  | inr (sk, depth) =>
      if negb (depth - 1 <? Z.of_nat (S (List.length (B.opens s))))%Z then inl B.EIndex
      else let '(rk, ops) := B.close_n (List.length (B.opens s) - (Z.to_nat depth - 1)) (B.rootk s) (B.opens s) in
           inr (B.mkst sk level rk ((B.npos s, a, []) :: ops) (S (B.npos s)))
  end.
Proof.
  unfold B.step, stack_step. destruct (B.adjust level (B.skipped s) (B.prev s)) as [e|sk]; [reflexivity|].
  cbv zeta. destruct (negb (_ =? _)%Z); [reflexivity|]. destruct (negb (1 <=? _)%Z); reflexivity.
Qed.

Definition err_name (e : B.err) : string :=
  match e with B.EPopEmpty | B.EIndex => "IndexError" | B.EAssertDepthLen | B.EAssertDepthGe1 => "AssertionError" end.

(* ---- integers among the rationals *)
Definition qz (q : Q) (z : Z) : Prop := q == inject_Z z.
Definition qzs (l : list Q) (zs : list Z) : Prop := Forall2 qz l zs.

Lemma Qle_bool_comp a a' b b' : a == a' -> b == b' -> Qle_bool a b = Qle_bool a' b'.
Proof.
  intros Ea Eb. destruct (Qle_bool a b) eqn:E1, (Qle_bool a' b') eqn:E2; try reflexivity.
  - apply Qle_bool_iff in E1. rewrite Ea, Eb in E1. apply Qle_bool_iff in E1. congruence.
  - apply Qle_bool_iff in E2. rewrite <- Ea, <- Eb in E2. apply Qle_bool_iff in E2. congruence.
Qed.
Lemma Qeq_bool_comp a a' b b' : a == a' -> b == b' -> Qeq_bool a b = Qeq_bool a' b'.
Proof.
  intros Ea Eb. destruct (Qeq_bool a b) eqn:E1, (Qeq_bool a' b') eqn:E2; try reflexivity.
  - apply Qeq_bool_iff in E1. rewrite Ea, Eb in E1. apply Qeq_bool_iff in E1. congruence.
  - apply Qeq_bool_iff in E2. rewrite <- Ea, <- Eb in E2. apply Qeq_bool_iff in E2. congruence.
Qed.
Lemma Qle_bool_inj a b : Qle_bool (inject_Z a) (inject_Z b) = (a <=? b)%Z.
Proof. unfold Qle_bool, inject_Z. simpl. now rewrite !Z.mul_1_r. Qed.
Lemma Qeq_bool_inj a b : Qeq_bool (inject_Z a) (inject_Z b) = (a =? b)%Z.
Proof. unfold Qeq_bool, inject_Z. simpl. rewrite !Z.mul_1_r. unfold Zeq_bool. now rewrite Z.eqb_compare. Qed.
Lemma Qle_bool_qz a b x y : qz a x -> qz b y -> Qle_bool a b = (x <=? y)%Z.
Proof. intros Ha Hb. rewrite (Qle_bool_comp _ _ _ _ Ha Hb). apply Qle_bool_inj. Qed.
Lemma Qeq_bool_qz a b x y : qz a x -> qz b y -> Qeq_bool a b = (x =? y)%Z.
Proof. intros Ha Hb. rewrite (Qeq_bool_comp _ _ _ _ Ha Hb). apply Qeq_bool_inj. Qed.
Lemma qz_inj z : qz (inject_Z z) z.
Proof. unfold qz. reflexivity. Qed.
Lemma qz_one : qz (1 # 1) 1.
Proof. unfold qz. reflexivity. Qed.
Lemma qz_add a b x y : qz a x -> qz b y -> qz (a + b) (x + y).
Proof. unfold qz. intros -> ->. now rewrite inject_Z_plus. Qed.
Lemma qz_sub a b x y : qz a x -> qz b y -> qz (a - b) (x - y).
Proof. unfold qz, Qminus, Z.sub. intros -> ->. now rewrite inject_Z_plus, inject_Z_opp. Qed.

(* sum(xs) *)
Definition sumq (l : list Q) : Q := fold_left Qplus l 0.
Lemma sum_vals_map l : forall acc, sum_vals acc (map VNum l) = VNum (fold_left Qplus l acc).
Proof. induction l as [|x l IH]; intros acc; simpl; [reflexivity|apply IH]. Qed.
Lemma fold_plus_qz l : forall zs a x, qzs l zs -> qz a x -> qz (fold_left Qplus l a) (x + B.sumZ zs).
Proof.
  induction l as [|q l IH]; intros zs a x Hl Ha; inversion Hl; subst; simpl.
  - now rewrite Z.add_0_r.
  - replace (x + (y + B.sumZ l'))%Z with ((x + y) + B.sumZ l')%Z by lia. apply IH; [assumption|]. now apply qz_add.
Qed.
Lemma sumZ_rev l : B.sumZ (rev l) = B.sumZ l.
Proof.
  induction l as [|x l IH]; [reflexivity|]. simpl. rewrite <- IH. clear IH.
  induction (rev l) as [|y r IH]; simpl; lia.
Qed.
Lemma qzs_rev l zs : qzs l zs -> qzs (rev l) (rev zs).
Proof.
  induction 1 as [|q z l zs Hq Hl IH]; simpl; [constructor|].
  apply Forall2_app; [exact IH|]. constructor; [exact Hq|constructor].
Qed.
Lemma qzs_length l zs : qzs l zs -> List.length l = List.length zs.
Proof. induction 1; simpl; congruence. Qed.

(* ---- the Python list skipped_levels = [s1, .., sn] against the model's stack [sn; ..; s1] (head = top) *)
Definition rep (vl : list val) (lrev : list Q) : Prop := vl = map VNum (rev lrev).
Lemma rep_snoc vl v lrev : rep vl (v :: lrev) -> exists vl0, vl = vl0 ++ [VNum v] /\ rep vl0 lrev.
Proof. unfold rep. simpl. rewrite map_app. intros ->. eexists. split; reflexivity. Qed.
Lemma rep_push vl v lrev : rep vl lrev -> rep (vl ++ [VNum v]) (v :: lrev).
Proof. unfold rep. simpl. rewrite map_app. now intros ->. Qed.
Lemma rep_nil vl : rep vl [] -> vl = [].
Proof. exact (fun H => H). Qed.

Lemma prim_last (vl vl0 : list val) (v : val) :
  vl = vl0 ++ [v] -> prim_apply PIndex [VList vl; VNum ((-1) # 1)] = v.
Proof.
  intros ->. unfold prim_apply. change (as_int ((-1) # 1)) with (Some (-1)%Z). cbv zeta.
  rewrite app_length. simpl List.length.
  replace ((0 <=? -1)%Z && (-1 <? Z.of_nat (List.length vl0 + 1))%Z) with false by reflexivity.
  replace ((- Z.of_nat (List.length vl0 + 1) <=? -1)%Z && (-1 <? 0)%Z) with true
    by (symmetry; apply andb_true_iff; split; [apply Z.leb_le; lia|reflexivity]).
  replace (Z.to_nat (Z.of_nat (List.length vl0 + 1) + -1)) with (List.length vl0) by lia.
  rewrite app_nth2 by lia. now rewrite Nat.sub_diag.
Qed.
Lemma prim_butlast (vl vl0 : list val) (v : val) :
  vl = vl0 ++ [v] -> prim_apply PSliceTo [VList vl; VNum ((-1) # 1)] = VList vl0.
Proof.
  intros ->. unfold prim_apply. change (as_int ((-1) # 1)) with (Some (-1)%Z). cbv zeta.
  replace (0 <=? -1)%Z with false by reflexivity.
  rewrite app_length. simpl List.length.
  replace (Z.to_nat (Z.of_nat (List.length vl0 + 1) + -1)) with (List.length vl0 + 0)%nat by lia.
  rewrite firstn_app_2. simpl. now rewrite app_nil_r.
Qed.
Lemma prim_last_nil : prim_apply PIndex [VList []; VNum ((-1) # 1)] = VErr "IndexError".
Proof. reflexivity. Qed.
Lemma prim_sum_rep vl lrev : rep vl lrev -> prim_apply PSum [VList vl] = VNum (sumq (rev lrev)).
Proof. intros ->. unfold prim_apply. apply sum_vals_map. Qed.
Lemma prim_len_rep vl lrev : rep vl lrev -> prim_apply PLen [VList vl] = VNum (inject_Z (Z.of_nat (List.length lrev))).
Proof. intros ->. unfold prim_apply, vint. now rewrite map_length, rev_length. Qed.

(* ---- pieces of the regenerated body (by conversion: a change of its shape breaks the proofs) *)
Definition if_stmt : stmt := match bookmark_stack_step_body with s :: _ => s | [] => SPass end.
Definition rest : list stmt := match bookmark_stack_step_body with _ :: r => r | [] => [] end.
Definition then_branch : list stmt := match if_stmt with SIf _ th _ => th | _ => [] end.
Definition else_branch : list stmt := match if_stmt with SIf _ _ el => el | _ => [] end.
Definition if_cond : expr := match if_stmt with SIf c _ _ => c | _ => EConst VNone end.
Definition wcond : expr := match else_branch with [_; SWhile c _; _] => c | _ => EConst VNone end.
Definition wbody : list stmt := match else_branch with [_; SWhile _ b; _] => b | _ => [] end.
Definition after_while : list stmt := match else_branch with [_; _; s] => [s] | _ => [] end.
Definition temp_assign : stmt := match else_branch with [s; _; _] => s | _ => SPass end.

(* the environment: the three parameters, then what the else branch binds (temp; %pop once the loop has run) *)
Definition tailw (qt : Q) (ph : option Q) : env :=
  ("temp", VNum qt) :: match ph with None => [] | Some v => [("%pop", VNum v)] end.
Definition Ev (ql qp : Q) (vl : list val) (tl : env) : env :=
  ("level", VNum ql) :: ("previous_level", VNum qp) :: ("skipped_levels", VList vl) :: tl.
Definition tail_of (t : option (Q * option Q)) : env :=
  match t with None => [] | Some (qt, ph) => tailw qt ph end.

Section Step.
Variable O : qops.
Hypothesis HO : ops_ok O.

Ltac unseal :=
  rewrite ?(qadd_eq _ HO), ?(qsub_eq _ HO), ?(qmul_eq _ HO), ?(qdiv_eq _ HO), ?(qmax_eq _ HO), ?(qmin_eq _ HO),
          ?(qleb_eq _ HO), ?(qeqb_eq _ HO) in *.

Lemma exec_block_cons A kret kerr s l rho k :
  exec_block O A kret kerr (s :: l) rho k =
  exec O A kret kerr s rho (fun rho' => if flowing rho' then k rho' else exec_block O A kret kerr l rho' k).
Proof. reflexivity. Qed.
Lemma exec_if A kret kerr c th el rho k :
  exec O A kret kerr (SIf c th el) rho k =
  eval O A kerr rho c (fun vc => bool_k O A kerr vc (fun t =>
    if t then exec_block O A kret kerr th rho k else exec_block O A kret kerr el rho k)).
Proof. reflexivity. Qed.

(* `while c:` as a top-level fixpoint *)
Section WLoopC.
Variables (A : Type) (kret : env -> val -> A) (kerr : string -> A) (k : env -> A) (c : expr) (body : list stmt).
Fixpoint wloopc (n : nat) (rho : env) : A :=
  match n with
  | Datatypes.O => kerr "FuelExhausted"
  | S n' =>
      eval O A kerr rho c (fun vc => bool_k O A kerr vc (fun t =>
        if t then
          exec_block O A kret kerr body rho (fun rho' =>
            match Py.lookup "%flow" rho' with
            | VStr f => if String.eqb f "break" then k (update "%flow" VNone rho')
                        else wloopc n' (update "%flow" VNone rho')
            | _ => wloopc n' rho'
            end)
        else k rho))
  end.
End WLoopC.
Lemma exec_while A kret kerr c body rho k :
  exec O A kret kerr (SWhile c body) rho k = wloopc A kret kerr k c body (wfuel O) rho.
Proof. reflexivity. Qed.

Section WP.
Variables (kret : env -> val -> Prop) (kerr : string -> Prop).
Variables (ql qp : Q).

(* one iteration of `while temp < previous_level: temp += 1 + skipped_levels.pop()` *)
Lemma wbody_snoc (K : env -> Prop) vl vl0 v qt ph :
  vl = vl0 ++ [VNum v] ->
  exec_block O Prop kret kerr wbody (Ev ql qp vl (tailw qt ph)) K =
  K (Ev ql qp vl0 (tailw (qadd O qt (qadd O (1 # 1) v)) (Some v))).
Proof.
  intros H. destruct ph as [v0|];
    lazy -[prim_apply qadd qsub qmul qdiv qmax qmin qleb qeqb];
    rewrite (prim_last _ _ _ H), (prim_butlast _ _ _ H); reflexivity.
Qed.
Lemma wbody_nil (K : env -> Prop) qt ph :
  exec_block O Prop kret kerr wbody (Ev ql qp [] (tailw qt ph)) K = kerr "IndexError".
Proof. destruct ph; reflexivity. Qed.

Lemma wloop_step (K : env -> Prop) n vl qt ph :
  wloopc Prop kret kerr K wcond wbody (S n) (Ev ql qp vl (tailw qt ph)) =
  if qleb O qp qt then K (Ev ql qp vl (tailw qt ph))
  else exec_block O Prop kret kerr wbody (Ev ql qp vl (tailw qt ph)) (fun rho' =>
         match Py.lookup "%flow" rho' with
         | VStr f => if String.eqb f "break" then K (update "%flow" VNone rho')
                     else wloopc Prop kret kerr K wcond wbody n (update "%flow" VNone rho')
         | _ => wloopc Prop kret kerr K wcond wbody n rho'
         end).
Proof. destruct ph; cbn [wloopc]; lazy -[wloopc exec_block qleb]; destruct (qleb O qp qt); reflexivity. Qed.

Variable prev : Z.
Hypothesis Hp : qz qp prev.

Lemma while_spec (K : env -> Prop) : forall sk lrev vl qt t ph n,
  qzs lrev sk -> rep vl lrev -> qz qt t -> (List.length sk < n)%nat ->
  match B.unwind t prev sk with
  | None => kerr "IndexError"
  | Some (t', sk') => forall lrev' vl' qt' ph', qzs lrev' sk' -> rep vl' lrev' -> qz qt' t' ->
                                               K (Ev ql qp vl' (tailw qt' ph'))
  end ->
  wloopc Prop kret kerr K wcond wbody n (Ev ql qp vl (tailw qt ph)).
Proof.
  induction sk as [|s sk IH]; intros lrev vl qt t ph n Hl Hv Ht Hn HK;
    (destruct n as [|n]; [simpl in Hn; lia|]); rewrite wloop_step; rewrite (qleb_eq _ HO);
    rewrite (Qle_bool_qz _ _ _ _ Hp Ht); rewrite BP.unwind_eq in HK;
    rewrite Z.ltb_antisym in HK; destruct (prev <=? t)%Z; cbn [negb] in HK.
  - apply (HK lrev vl qt ph); assumption.
  - inversion Hl; subst. rewrite (rep_nil _ Hv). rewrite wbody_nil. exact HK.
  - apply (HK lrev vl qt ph); assumption.
  - inversion Hl as [|v s' lrev0 sk0 Hvs Hl0]; subst.
    destruct (rep_snoc _ _ _ Hv) as (vl0 & Hvl & Hv0).
    rewrite (wbody_snoc _ _ _ _ _ _ Hvl).
    change (wloopc Prop kret kerr K wcond wbody n (Ev ql qp vl0 (tailw (qadd O qt (qadd O (1 # 1) v)) (Some v)))).
    apply (IH lrev0 vl0 _ (t + 1 + s)%Z (Some v) n Hl0 Hv0).
    + rewrite (qadd_eq _ HO). replace (t + 1 + s)%Z with (t + (1 + s))%Z by lia.
      apply qz_add; [exact Ht|]. apply qz_add; [exact qz_one|exact Hvs].
    + simpl in Hn. lia.
    + exact HK.
Qed.

Variable level : Z.
Hypothesis Hl : qz ql level.

Lemma if_stmt_eq : if_stmt = SIf if_cond then_branch else_branch.
Proof. reflexivity. Qed.
Lemma else_eq : else_branch = temp_assign :: SWhile wcond wbody :: after_while.
Proof. reflexivity. Qed.
Lemma body_eq : bookmark_stack_step_body = if_stmt :: rest.
Proof. reflexivity. Qed.

Lemma if_cond_eval (k : val -> Prop) vl :
  eval O Prop kerr (Ev ql qp vl []) if_cond k = if qleb O ql qp then k (VBool false) else k (VBool true).
Proof. reflexivity. Qed.
Lemma then_eval (K : env -> Prop) vl :
  exec_block O Prop kret kerr then_branch (Ev ql qp vl []) K =
  K (Ev ql qp (vl ++ [VNum (qsub O (qsub O ql qp) (1 # 1))]) []).
Proof. reflexivity. Qed.
Lemma temp_eval (K : env -> Prop) vl :
  exec O Prop kret kerr temp_assign (Ev ql qp vl []) K = K (Ev ql qp vl (tailw ql None)).
Proof. reflexivity. Qed.
Lemma after_eval (K : env -> Prop) vl qt ph :
  (if flowing (Ev ql qp vl (tailw qt ph)) then K (Ev ql qp vl (tailw qt ph))
   else exec_block O Prop kret kerr after_while (Ev ql qp vl (tailw qt ph)) K) =
  if qleb O qt qp then K (Ev ql qp vl (tailw qt ph))
  else K (Ev ql qp (vl ++ [VNum (qsub O (qsub O qt qp) (1 # 1))]) (tailw qt ph)).
Proof. destruct ph; lazy -[qleb qsub app]; destruct (qleb O qt qp); reflexivity. Qed.

(* the `if level > previous_level: .. else: ..` statement computes B.adjust *)
Lemma if_spec (K : env -> Prop) sk lrev vl :
  qzs lrev sk -> rep vl lrev -> (List.length sk < wfuel O)%nat ->
  match B.adjust level sk prev with
  | inl e => kerr (err_name e)
  | inr sk' => forall lrev' vl' tl, qzs lrev' sk' -> rep vl' lrev' -> K (Ev ql qp vl' (tail_of tl))
  end ->
  exec O Prop kret kerr if_stmt (Ev ql qp vl []) K.
Proof.
  intros Hs Hv Hn HK. rewrite if_stmt_eq, exec_if, if_cond_eval. rewrite (qleb_eq _ HO), (Qle_bool_qz _ _ _ _ Hl Hp).
  unfold B.adjust in HK. rewrite Z.ltb_antisym in HK. destruct (level <=? prev)%Z eqn:Ele; cbn [negb bool_k] in *.
  - (* else: unwind *)
    rewrite else_eq, exec_block_cons, temp_eval.
    change (flowing (Ev ql qp vl (tailw ql None))) with false. cbv iota.
    rewrite exec_block_cons, exec_while.
    apply (while_spec _ sk lrev vl ql level None (wfuel O) Hs Hv Hl Hn).
    destruct (B.unwind level prev sk) as [[t' sk']|]; [|exact HK].
    intros lrev' vl' qt' ph' Hs' Hv' Ht'. rewrite after_eval.
    rewrite (qleb_eq _ HO), (Qle_bool_qz _ _ _ _ Ht' Hp). rewrite Z.ltb_antisym in HK.
    destruct (t' <=? prev)%Z; cbn [negb] in HK.
    + apply (HK lrev' vl' (Some (qt', ph')) Hs' Hv').
    + apply (HK ((qt' - qp - (1 # 1))%Q :: lrev') _ (Some (qt', ph'))).
      * constructor; [|exact Hs']. apply qz_sub; [apply qz_sub; assumption|exact qz_one].
      * rewrite !(qsub_eq _ HO). apply rep_push. exact Hv'.
  - (* then: push *)
    rewrite then_eval.
    apply (HK ((ql - qp - (1 # 1))%Q :: lrev) _ None).
    + constructor; [|exact Hs]. apply qz_sub; [apply qz_sub; assumption|exact qz_one].
    + rewrite !(qsub_eq _ HO). apply rep_push. exact Hv.
Qed.

(* previous_level = level; depth = level - sum(skipped_levels); the two asserts *)
Lemma rest_eval (kfin : env -> Prop) vl lrev tl :
  rep vl lrev ->
  (if flowing (Ev ql qp vl (tail_of tl)) then kfin (Ev ql qp vl (tail_of tl))
   else exec_block O Prop kret kerr rest (Ev ql qp vl (tail_of tl)) kfin) =
  if qeqb O (qsub O ql (sumq (rev lrev))) (inject_Z (Z.of_nat (List.length lrev))) then
    if qleb O (1 # 1) (qsub O ql (sumq (rev lrev))) then
      kfin (Ev ql ql vl (tail_of tl) ++ [("depth", VNum (qsub O ql (sumq (rev lrev))))])
    else kerr "AssertionError"
  else kerr "AssertionError".
Proof.
  intros Hv. destruct tl as [[qt [v|]]|];
    lazy -[prim_apply qadd qsub qmul qdiv qmax qmin qleb qeqb sumq rev inject_Z Z.of_nat List.length];
    change (rev [VList vl]) with [VList vl];
    rewrite (prim_sum_rep _ _ Hv), (prim_len_rep _ _ Hv);
    lazy -[prim_apply qadd qsub qmul qdiv qmax qmin qleb qeqb sumq rev inject_Z Z.of_nat List.length];
    destruct (qeqb O _ _); try reflexivity; destruct (qleb O _ _); reflexivity.
Qed.
Lemma rest_spec (kfin : env -> Prop) vl lrev tl :
  rep vl lrev ->
  (if qeqb O (qsub O ql (sumq (rev lrev))) (inject_Z (Z.of_nat (List.length lrev))) then
     if qleb O (1 # 1) (qsub O ql (sumq (rev lrev))) then
       kfin (Ev ql ql vl (tail_of tl) ++ [("depth", VNum (qsub O ql (sumq (rev lrev))))])
     else kerr "AssertionError"
   else kerr "AssertionError") ->
  (if flowing (Ev ql qp vl (tail_of tl)) then kfin (Ev ql qp vl (tail_of tl))
   else exec_block O Prop kret kerr rest (Ev ql qp vl (tail_of tl)) kfin).
Proof. intros Hv H. rewrite (rest_eval kfin vl lrev tl Hv). exact H. Qed.
End WP.

(* ---- the regenerated statements compute the head of B.step, for every level, previous level and stack *)
Definition stack_post (ql : Q) (level : Z) (sk : list Z) (prev : Z) (rho : env) (r : option val) : Prop :=
  match stack_step level sk prev with
  | inr (sk', d) =>
      r = None /\
      exists lrev' qd, Py.lookup "skipped_levels" rho = VList (map VNum (rev lrev')) /\ qzs lrev' sk' /\
                       Py.lookup "previous_level" rho = VNum ql /\
                       Py.lookup "depth" rho = VNum qd /\ qz qd d
  | inl _ => False
  end.
Definition stack_raises (level : Z) (sk : list Z) (prev : Z) (m : string) : Prop :=
  match stack_step level sk prev with inl e => m = err_name e | inr _ => False end.

Theorem gen_bookmark_stack_step level prev sk ql qp lrev :
  qz ql level -> qz qp prev -> qzs lrev sk -> (List.length sk < wfuel O)%nat ->
  run O bookmark_stack_step_body
      [("level", VNum ql); ("previous_level", VNum qp); ("skipped_levels", VList (map VNum (rev lrev)))]
      (stack_post ql level sk prev) (stack_raises level sk prev).
Proof.
  intros Hl Hp Hs Hn. unfold run. rewrite body_eq, exec_block_cons.
  apply (if_spec _ _ ql qp prev Hp level Hl _ sk lrev _ Hs eq_refl Hn).
  unfold stack_post, stack_raises, stack_step.
  destruct (B.adjust level sk prev) as [e|sk']; [reflexivity|].
  intros lrev' vl' tl Hs' Hv'.
  apply (rest_spec _ _ ql qp (fun rho => match (let depth := (level - B.sumZ sk')%Z in
      if negb (depth =? Z.of_nat (List.length sk'))%Z then inl B.EAssertDepthLen
      else if negb (1 <=? depth)%Z then inl B.EAssertDepthGe1 else inr (sk', depth)) with
    | inr (sk'0, d) => None = None /\
      exists lrev'0 qd, Py.lookup "skipped_levels" rho = VList (map VNum (rev lrev'0)) /\ qzs lrev'0 sk'0 /\
                        Py.lookup "previous_level" rho = VNum ql /\ Py.lookup "depth" rho = VNum qd /\ qz qd d
    | inl _ => False end) vl' lrev' tl Hv').
  rewrite (qeqb_eq _ HO), (qleb_eq _ HO), (qsub_eq _ HO).
  assert (Hd : qz (ql - sumq (rev lrev')) (level - B.sumZ sk')).
  { apply qz_sub; [exact Hl|]. unfold sumq. rewrite <- (sumZ_rev sk').
    change (B.sumZ (rev sk')) with (0 + B.sumZ (rev sk'))%Z.
    apply fold_plus_qz; [apply qzs_rev; exact Hs'|reflexivity]. }
  rewrite (Qeq_bool_qz _ _ _ _ Hd (qz_inj _)), (Qle_bool_qz _ _ _ _ qz_one Hd).
  rewrite (qzs_length _ _ Hs'). cbv zeta.
  destruct (level - B.sumZ sk' =? Z.of_nat (List.length sk'))%Z; cbn [negb]; [|reflexivity].
  destruct (1 <=? level - B.sumZ sk')%Z; cbn [negb]; [|reflexivity].
  split; [reflexivity|]. exists lrev', (ql - sumq (rev lrev'))%Q.
  rewrite Hv'. destruct tl as [[qt [v|]]|]; repeat split; try reflexivity; assumption.
Qed.
End Step.
Print Assumptions gen_bookmark_stack_step.

(* ---- consequences *)
Lemma run_weaken (O : qops) body rho (P Q : env -> option val -> Prop) (E F : string -> Prop) :
  (forall rho' r, P rho' r -> Q rho' r) -> (forall m, E m -> F m) -> run O body rho P E -> run O body rho Q F.
Proof.
  intros HP HE. rewrite !PyNatural.run_natural. destruct (PyNatural.run_out O body rho); [apply HP|apply HE].
Qed.

Lemma ops_ok_with_fuel O n : ops_ok O -> ops_ok (with_fuel O n).
Proof. intros [? ? ? ? ? ? ? ?]. constructor; assumption. Qed.

(* any stack: some fuel is enough, and the interpreter's default (1000 iterations) is for stacks below 1000 levels *)
Corollary gen_bookmark_stack_step_any level prev sk ql qp lrev :
  qz ql level -> qz qp prev -> qzs lrev sk ->
  run (with_fuel real_ops (S (List.length sk))) bookmark_stack_step_body
      [("level", VNum ql); ("previous_level", VNum qp); ("skipped_levels", VList (map VNum (rev lrev)))]
      (stack_post ql level sk prev) (stack_raises level sk prev).
Proof.
  intros Hl Hp Hs. apply gen_bookmark_stack_step; try assumption; [apply ops_ok_with_fuel, real_ok|simpl; lia].
Qed.
Corollary gen_bookmark_stack_step_real level prev sk ql qp lrev :
  qz ql level -> qz qp prev -> qzs lrev sk -> (List.length sk < 1000)%nat ->
  run real_ops bookmark_stack_step_body
      [("level", VNum ql); ("previous_level", VNum qp); ("skipped_levels", VList (map VNum (rev lrev)))]
      (stack_post ql level sk prev) (stack_raises level sk prev).
Proof. intros Hl Hp Hs Hn. apply gen_bookmark_stack_step; try assumption; apply real_ok. Qed.

(* under the invariant of Document.make_bookmark_tree (previous_level = sum + len of the stack, entries >= 0) a level
   >= 1 never raises and re-establishes the invariant with depth = len(skipped_levels) >= 1 *)
Lemma stack_step_ok level sk prev :
  Forall BP.nonneg sk -> prev = B.sumlen sk -> (1 <= level)%Z ->
  exists sk', stack_step level sk prev = inr (sk', Z.of_nat (List.length sk')) /\
              Forall BP.nonneg sk' /\ level = B.sumlen sk' /\ (1 <= List.length sk')%nat.
Proof.
  intros Hnn Hprev Hlevel.
  assert (G : forall sk', B.adjust level sk prev = inr sk' -> Forall BP.nonneg sk' -> level = B.sumlen sk' ->
    stack_step level sk prev = inr (sk', Z.of_nat (List.length sk')) /\ (1 <= List.length sk')%nat).
  { intros sk' Ha Hn' Hs'. unfold stack_step. rewrite Ha. cbv zeta. pose proof (BP.sumlen_sumZ sk') as E.
    replace (level - B.sumZ sk')%Z with (Z.of_nat (List.length sk')) by lia.
    rewrite Z.eqb_refl. cbn [negb].
    assert (1 <= List.length sk')%nat.
    { destruct sk'; [cbn in Hs'; lia|simpl; lia]. }
    replace (1 <=? Z.of_nat (List.length sk'))%Z with true by (symmetry; apply Z.leb_le; lia).
    split; [reflexivity|assumption]. }
  destruct (BP.adjust_spec level sk prev Hnn Hprev Hlevel)
    as [(Hlt & Ha)|[(Hge & pre & sk' & Hsk & Ha & Hsum)|(Hge & pre & s & sk' & Hsk & Ha & Hlo & Hhi)]].
  - assert (Hn' : Forall BP.nonneg ((level - prev - 1)%Z :: sk)) by (constructor; [unfold BP.nonneg; lia|exact Hnn]).
    assert (Hs' : level = B.sumlen ((level - prev - 1)%Z :: sk)) by (cbn [B.sumlen]; lia).
    destruct (G _ Ha Hn' Hs') as (E & Hlen). eexists. repeat split; eassumption.
  - assert (Hn' : Forall BP.nonneg sk') by (subst sk; apply Forall_app in Hnn; tauto).
    destruct (G _ Ha Hn' (eq_sym Hsum)) as (E & Hlen). eexists. repeat split; try eassumption. now symmetry.
  - assert (Hn0 : Forall BP.nonneg sk').
    { subst sk. apply Forall_app in Hnn. destruct Hnn as [_ Hx]. now inversion Hx. }
    assert (Hn' : Forall BP.nonneg ((level - 1 - B.sumlen sk')%Z :: sk')) by (constructor; [unfold BP.nonneg; lia|exact Hn0]).
    assert (Hs' : level = B.sumlen ((level - 1 - B.sumlen sk')%Z :: sk')) by (cbn [B.sumlen]; lia).
    destruct (G _ Ha Hn' Hs') as (E & Hlen). eexists. repeat split; eassumption.
Qed.

Theorem gen_bookmark_stack_step_never_raises level sk ql qp lrev :
  Forall BP.nonneg sk -> (1 <= level)%Z -> qz ql level -> qz qp (B.sumlen sk) -> qzs lrev sk ->
  run (with_fuel real_ops (S (List.length sk))) bookmark_stack_step_body
      [("level", VNum ql); ("previous_level", VNum qp); ("skipped_levels", VList (map VNum (rev lrev)))]
      (fun rho r =>
         r = None /\
         exists lrev' sk' qd,
           Py.lookup "skipped_levels" rho = VList (map VNum (rev lrev')) /\ qzs lrev' sk' /\
           Py.lookup "previous_level" rho = VNum ql /\ Py.lookup "depth" rho = VNum qd /\
           qz qd (Z.of_nat (List.length sk')) /\ (1 <= List.length sk')%nat /\
           Forall BP.nonneg sk' /\ level = B.sumlen sk' /\ B.adjust level sk (B.sumlen sk) = inr sk')
      (fun _ => False).
Proof.
  intros Hnn Hlevel Hl Hp Hs.
  destruct (stack_step_ok level sk _ Hnn eq_refl Hlevel) as (sk' & Hst & Hn' & Hsum & Hlen).
  eapply run_weaken; [| |exact (gen_bookmark_stack_step_any level _ sk ql qp lrev Hl Hp Hs)].
  - intros rho r. unfold stack_post. rewrite Hst. intros (Hr & lrev' & qd & H1 & H2 & H3 & H4 & H5).
    split; [exact Hr|]. exists lrev', sk', qd. repeat split; try assumption.
    unfold stack_step in Hst. destruct (B.adjust level sk (B.sumlen sk)) as [e|sk0]; [discriminate|].
    cbv zeta in Hst. destruct (negb _); [discriminate|]. destruct (negb _); [discriminate|]. congruence.
  - intros m. unfold stack_raises. rewrite Hst. exact (fun F => F).
Qed.

(* the hypotheses are satisfiable by non-trivial inputs: after h1 h2 h6 the stack is [0, 0, 3]; an h4 pops the 3
   (temp = 8 > 6) and pushes 1 back; an h2 pops it and pushes nothing; with an empty stack pop() raises *)
Example ex_h6_then_h4 :
  PyNatural.run_out real_ops bookmark_stack_step_body
    [("level", VNum (4 # 1)); ("previous_level", VNum (6 # 1)); ("skipped_levels", VList [VNum 0; VNum 0; VNum (3 # 1)])] =
  PyNatural.ONorm [("level", VNum (4 # 1)); ("previous_level", VNum (4 # 1));
                   ("skipped_levels", VList [VNum 0; VNum 0; VNum (1 # 1)]); ("temp", VNum (8 # 1));
                   ("%pop", VNum (3 # 1)); ("depth", VNum (3 # 1))] None /\
  stack_step 4 [3; 0; 0]%Z 6 = inr ([1; 0; 0]%Z, 3%Z).
Proof. split; vm_compute; reflexivity. Qed.
Example ex_h6_then_h2 :
  PyNatural.run_out real_ops bookmark_stack_step_body
    [("level", VNum (2 # 1)); ("previous_level", VNum (6 # 1)); ("skipped_levels", VList [VNum 0; VNum 0; VNum (3 # 1)])] =
  PyNatural.ONorm [("level", VNum (2 # 1)); ("previous_level", VNum (2 # 1));
                   ("skipped_levels", VList [VNum 0; VNum 0]); ("temp", VNum (6 # 1));
                   ("%pop", VNum (3 # 1)); ("depth", VNum (2 # 1))] None /\
  stack_step 2 [3; 0; 0]%Z 6 = inr ([0; 0]%Z, 2%Z).
Proof. split; vm_compute; reflexivity. Qed.
Example ex_pop_empty :
  PyNatural.run_out real_ops bookmark_stack_step_body
    [("level", VNum (1 # 1)); ("previous_level", VNum (3 # 1)); ("skipped_levels", VList [])] =
  PyNatural.OErr "IndexError" /\ stack_step 1 [] 3 = inl B.EPopEmpty.
Proof. split; vm_compute; reflexivity. Qed.
Example ex_assert : (* level 0: depth = 0 = len([]) but not >= 1 *)
  PyNatural.run_out real_ops bookmark_stack_step_body
    [("level", VNum 0); ("previous_level", VNum 0); ("skipped_levels", VList [])] =
  PyNatural.OErr "AssertionError" /\ stack_step 0 [] 0 = inl B.EAssertDepthGe1.
Proof. split; vm_compute; reflexivity. Qed.
Print Assumptions gen_bookmark_stack_step_never_raises.
