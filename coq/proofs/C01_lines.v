(* C01: the paragraph level (lines_loop / linebox_layout / lines_step) conserves lines. *)
From Coq Require Import ZArith List Bool Lia Arith.
Require Import WV.model.Frag2 WV.proofs.C01_defs.
Import ListNotations.
Open Scope nat_scope.

(* line fragments k, k+1, ... of the paragraph [all], with the resume numbers the code stores in them *)
Fixpoint lines_ok (all : list Z) (o w : nat) (k : nat) (fs : list frag) : Prop :=
  match fs with
  | [] => True
  | FLine wid _ _ r o' w' :: fs' =>
      nth_error all k = Some wid /\ r = (if S k <? length all then Some (S k) else None) /\
      o' = o /\ w' = w /\ lines_ok all o w (S k) fs'
  | FBlk _ _ _ _ _ _ _ _ _ _ _ :: _ => False
  end.

Lemma lines_ok_app all o w : forall a k b,
  lines_ok all o w k (a ++ b) <-> lines_ok all o w k a /\ lines_ok all o w (k + length a) b.
Proof.
  induction a as [|f a IH]; intros k b; simpl.
  - rewrite Nat.add_0_r. tauto.
  - destruct f as [wid y h r o' w'|]; [|tauto].
    rewrite IH. replace (k + S (length a)) with (S k + length a) by lia. tauto.
Qed.

Lemma lines_ok_bound all o w : forall fs k, lines_ok all o w k fs -> fs <> [] -> k + length fs <= length all.
Proof.
  induction fs as [|f fs IH]; intros k H Hne; [congruence|].
  destruct f as [wid y h r o' w'|]; [|contradiction]. simpl in H. destruct H as (Hn & _ & _ & _ & Hr).
  assert (k < length all) by (apply nth_error_Some; congruence).
  destruct fs as [|g fs']; simpl; [lia|].
  assert (S k + length (g :: fs') <= length all) by (apply IH; [exact Hr|congruence]). simpl in *. lia.
Qed.

Lemma skipn_nth_cons {A} : forall (l : list A) k x, nth_error l k = Some x -> skipn k l = x :: skipn (S k) l.
Proof.
  induction l as [|a l IH]; intros [|k] x H; simpl in *; try discriminate.
  - now inversion H.
  - now apply IH.
Qed.

Lemma lines_ok_words all o w : forall fs k, lines_ok all o w k fs ->
  fwords_l fs = firstn (length fs) (skipn k all).
Proof.
  induction fs as [|f fs IH]; intros k H; [reflexivity|].
  destruct f as [wid y h r o' w'|]; [|contradiction]. simpl in H. destruct H as (Hn & _ & _ & _ & Hr).
  rewrite (skipn_nth_cons _ _ _ Hn). unfold fwords_l in *. cbn [flat_map fwords length firstn app].
  f_equal. now apply IH.
Qed.

Lemma lines_ok_firstn all o w : forall n fs k, lines_ok all o w k fs -> lines_ok all o w k (firstn n fs).
Proof.
  induction n as [|n IH]; intros fs k H; [exact I|].
  destruct fs as [|f fs]; [exact I|]. destruct f as [wid y h r o' w'|]; [|contradiction].
  simpl in *. destruct H as (H1 & H2 & H3 & H4 & H5). repeat split; auto.
Qed.

Lemma last_snoc {A} (l : list A) x d : last (l ++ [x]) d = x.
Proof. induction l as [|a l IH]; [reflexivity|]. simpl. destruct (l ++ [x]) eqn:E; [destruct l; discriminate|]. exact IH. Qed.

Lemma lines_ok_last_resume all o w : forall fs k, lines_ok all o w k fs -> fs <> [] ->
  last_resume fs = (if k + length fs <? length all then Some (k + length fs) else None).
Proof.
  intros fs. induction fs as [|f fs IH]; intros k H Hne; [congruence|].
  destruct f as [wid y h r o' w'|]; [|contradiction]. simpl in H. destruct H as (Hn & Hr & _ & _ & Hrest).
  destruct fs as [|g fs'].
  - unfold last_resume. simpl. rewrite Hr. replace (k + 1) with (S k) by lia. reflexivity.
  - specialize (IH (S k) Hrest ltac:(congruence)).
    unfold last_resume in *. simpl last in *. rewrite IH. simpl length.
    replace (S k + S (length fs')) with (k + S (S (length fs'))) by lia. reflexivity.
Qed.

(* break_line never gives back all the placed lines *)
Lemma break_line_keeps st n rem pie drop :
  1 <= s_orphans st -> (negb (Nat.eqb n 0) || negb pie) = true ->
  break_line st n rem pie = Some drop -> 1 <= n - drop.
Proof.
  intros Ho Hc. unfold break_line.
  destruct ((Z.of_nat n - Z.of_nat (s_orphans st) <? 0)%Z && negb pie) eqn:E1; [discriminate|].
  set (needed := (s_widows st - 1 - Nat.min (s_widows st - 1) rem)).
  destruct ((Z.of_nat n - Z.of_nat (s_orphans st) <? Z.of_nat needed)%Z && negb pie) eqn:E2; [discriminate|].
  assert (Hn : 1 <= n).
  { destruct n; [|lia]. simpl in Hc. destruct pie; [discriminate Hc|].
    change (negb false) with true in E1. rewrite andb_true_r in E1. apply Z.ltb_ge in E1. clear - E1 Ho. lia. }
  destruct (negb (needed =? 0) && (Z.of_nat needed <=? Z.of_nat n - Z.of_nat (s_orphans st))%Z) eqn:E3;
    intros H; inversion H; subst; [|lia].
  apply andb_prop in E3. destruct E3 as [_ E3]. apply Z.leb_le in E3. clear - E3 Ho Hn. lia.
Qed.

Section Lines.
Variables (c : ctx) (st : style) (pb bb : Z) (index : nat) (pie : bool) (bs : Z) (all : list Z).
Hypothesis Horph : 1 <= s_orphans st.
Let o := s_orphans st.
Let w := s_widows st.

Lemma lines_loop_spec : forall ids k gen_y y placed mt dbd cur k0,
  skipn k all = ids -> k <= length all -> k = k0 + length placed -> lines_ok all o w k0 placed ->
  let r := lines_loop c st pb bb index pie bs ids k gen_y y placed mt dbd cur in
  lr_abort r = true \/
  (lr_abort r = false /\ lr_stop r = true /\ lr_placed r <> [] /\ lines_ok all o w k0 (lr_placed r) /\
   k0 + length (lr_placed r) < length all) \/
  (lr_abort r = false /\ lr_stop r = false /\ lines_ok all o w k0 (lr_placed r) /\
   k0 + length (lr_placed r) = length all).
Proof.
  induction ids as [|id rest IH]; intros k gen_y y placed mt dbd cur k0 Hs Hle Hk Hok; cbn zeta.
  - simpl. right; right. repeat split; auto.
    assert (length all <= k).
    { destruct (le_lt_dec (length all) k) as [|Hlt]; [assumption|].
      apply nth_error_Some in Hlt. destruct (nth_error all k) eqn:E; [|congruence].
      rewrite (skipn_nth_cons _ _ _ E) in Hs. discriminate. }
    lia.
  - assert (Hnth : nth_error all k = Some id).
    { destruct (nth_error all k) eqn:E.
      - rewrite (skipn_nth_cons _ _ _ E) in Hs. now inversion Hs.
      - apply nth_error_None in E. rewrite skipn_all2 in Hs by assumption. discriminate. }
    assert (Hrest : skipn (S k) all = rest).
    { rewrite (skipn_nth_cons _ _ _ Hnth) in Hs. now inversion Hs. }
    assert (Hlt : k < length all) by (apply nth_error_Some; congruence).
    assert (Hnxt : match rest with [] => None | _ => Some (S k) end =
                   (if S k <? length all then Some (S k) else None)).
    { assert (Hlen : length rest = length all - S k) by (rewrite <- Hrest; apply skipn_length).
      destruct rest; simpl in Hlen.
      - destruct (S k <? length all) eqn:E; [apply Nat.ltb_lt in E; lia|reflexivity].
      - destruct (S k <? length all) eqn:E; [reflexivity|apply Nat.ltb_ge in E; lia]. }
    simpl lines_loop.
    match goal with |- context [if ?cond then _ else _] => destruct cond eqn:Eov end.
    + (* overflow: _break_line *)
      destruct (break_line st (length placed) (length rest) pie) as [drop|] eqn:Eb.
      * right; left. simpl. apply andb_prop in Eov. destruct Eov as [Eov _].
        pose proof (break_line_keeps _ _ _ _ _ Horph Eov Eb) as Hkeep.
        unfold removelast_n. repeat split; auto.
        -- intro Hnil. apply (f_equal (@length _)) in Hnil. rewrite firstn_length in Hnil. simpl in Hnil. lia.
        -- now apply lines_ok_firstn.
        -- rewrite firstn_length. lia.
      * left. reflexivity.
    + (* the line is placed *)
      apply IH with (k0 := k0); [exact Hrest|lia| |].
      * rewrite app_length. simpl. lia.
      * apply lines_ok_app. split; [assumption|]. simpl. rewrite <- Hk.
        repeat split; auto. 
Qed.
End Lines.

Definition start_line (sub : option skip) : nat := match sub with Some (SLine k) => k | _ => 0 end.

Lemma wf_skip_lines ids sub : wf_skip (Lines ids) sub -> sub = None \/ exists k, sub = Some (SLine k) /\ k < length ids.
Proof. destruct sub as [[k|i s]|]; simpl; intros H; [right; eauto|contradiction|left; reflexivity]. Qed.

Lemma lines_step_spec c st pb bb pie bs ids index sub s :
  1 <= s_orphans st -> wf_skip (Lines ids) sub ->
  match lines_step c st pb bb pie bs ids index sub s with
  | SAbort _ => True
  | SStop res s' =>
      exists placed n, ls_newc s' = ls_newc s ++ placed /\
        lines_ok ids (s_orphans st) (s_widows st) (start_line sub) placed /\ placed <> [] /\
        n = start_line sub + length placed /\ n < length ids /\ res = Some (SChild index (Some (SLine n)))
  | SCont s' =>
      exists placed, ls_newc s' = ls_newc s ++ placed /\
        lines_ok ids (s_orphans st) (s_widows st) (start_line sub) placed /\
        start_line sub + length placed = length ids
  end.
Proof.
  intros Ho Hwf. unfold lines_step, linebox_layout.
  set (k := match sub with Some (SLine k) => k | _ => 0 end).
  assert (Hk : k = start_line sub) by reflexivity.
  assert (Hkle : k <= length ids).
  { apply wf_skip_lines in Hwf. destruct Hwf as [->|[k' [-> Hlt]]]; simpl in *; subst k; simpl; lia. }
  match goal with |- context [lines_loop c st pb bb index pie bs (skipn k ids) k ?gy ?y [] ?mt ?dbd sub] =>
    pose proof (lines_loop_spec c st pb bb index pie bs ids Ho (skipn k ids) k gy y [] mt dbd sub k
                  eq_refl Hkle ltac:(simpl; lia) I) as Hspec;
    set (r := lines_loop c st pb bb index pie bs (skipn k ids) k gy y [] mt dbd sub) in *
  end.
  cbn zeta in Hspec. rewrite <- Hk.
  destruct Hspec as [Hab|[(Hab & Hst & Hne & Hok & Hlt)|(Hab & Hst & Hok & Heq)]].
  - (* abort *)
    destruct (lr_placed r); simpl; rewrite Hab; exact I.
  - (* stop *)
    destruct (lr_placed r) as [|p pl] eqn:Ep; [congruence|].
    cbn [lr_abort lr_stop lr_resume lr_placed lr_y lr_mt]. rewrite Hab, Hst.
    exists (p :: pl), (k + length (p :: pl)). repeat split; auto.
    rewrite (lines_ok_last_resume _ _ _ _ _ Hok) by congruence.
    apply Nat.ltb_lt in Hlt. rewrite Hlt. reflexivity.
  - (* everything placed *)
    destruct (lr_placed r) as [|p pl] eqn:Ep.
    + rewrite Hab, Hst. exists []. rewrite Ep. repeat split; auto.
    + cbn [lr_abort lr_stop lr_resume lr_placed lr_y lr_mt]. rewrite Hab, Hst.
      exists (p :: pl). repeat split; auto.
Qed.
